import Driver.Lower
import Model.Pass.Alias
/-! `alias` command: check an alias-elimination certificate against a serialized block and apply it. -/
open Lean
namespace Pyrtl.Drv
open Pyrtl.Alias

def cmdAlias (j : Json) : Except String Json := do
  let b ← parseBlock (← field j "block")
  let removedIdx ← jNatList (← field j "removed")
  let sigma ← jPairList (← field j "sigma")
  let netsArr := b.nets.toArray
  let removed ← removedIdx.mapM fun i => match netsArr[i]? with
    | some n => pure n
    | none => throw s!"net index {i} out of range"
  let c : Cert := ⟨removed, sigma⟩
  return Json.mkObj [("ok", .bool true), ("cert_ok", .bool (certOk b c)), ("scheds_ok", .bool (schedsOkB b c)),
    ("nets", .arr ((applyCert b c).nets.map netJson).toArray)]

end Pyrtl.Drv
