import Driver.Lower
import Model.Pass.Alias
/-! `alias` command: check an alias-elimination certificate against a serialized block and apply it. -/
open Lean
namespace Pyrtl.Drv
open Pyrtl.Alias

def cmdAlias (j : Json) : Except String Json := do
  let b ← parseBlock (← field j "block")
  let removedIdx ← jNatList (← field j "removed")
  let sigma ← jPairList (← field j "sigma")
  let netsArr := b.nets.toArray
  let netAt (i : Nat) : Except String Net := match netsArr[i]? with
    | some n => pure n
    | none => throw s!"net index {i} out of range"
  let removed ← removedIdx.mapM netAt
  let rwJ ← jArr (fieldD j "rewrites" (.arr #[]))
  let rewrites ← rwJ.toList.mapM fun r => do
    let o ← netAt (← jNat (← field r "old"))
    let n' ← parseNet (← field r "new")
    return (o, n')
  let c : Cert := ⟨removed, sigma, rewrites⟩
  return Json.mkObj [("ok", .bool true), ("cert_ok", .bool (certOk b c)), ("scheds_ok", .bool (schedsOkB b c)),
    ("nets", .arr ((applyCert b c).nets.map netJson).toArray)]

end Pyrtl.Drv
