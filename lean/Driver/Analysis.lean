import Driver.Json
import Model.Graph.Analysis
/-! `timing` command -/
open Lean
namespace Pyrtl.Drv
open Pyrtl.Analysis

def opChar : Op → String
  | .w => "w" | .inv => "~" | .and => "&" | .or => "|" | .xor => "^" | .nand => "n"
  | .add => "+" | .sub => "-" | .mul => "*" | .lt => "<" | .gt => ">" | .eq => "=" | .mux => "x"
  | .concat => "c" | .select _ => "s" | .reg => "r" | .mread _ => "m" | .mwrite _ => "@"

def cmdTiming (j : Json) : Except String Json := do
  let b ← parseBlock (← field j "block")
  let orderIdx ← jNatList (← field j "order")
  let delays ← field j "delays"
  let netsArr := b.nets.toArray
  let order ← orderIdx.mapM fun i => match netsArr[i]? with
    | some n => pure n
    | none => throw s!"net index {i} out of range"
  let comb := order.filter (·.op.isComb)
  -- the gate delay function receives the bitwidth of the first argument; `wmod` (default 0 = none)
  -- adds `width % wmod` to every non-zero per-op delay (what the check's custom functions do)
  let wmod ← jNat (fieldD j "wmod" (natJson 0))
  let δ : Net → Nat := fun n => match delays.getObjVal? (opChar n.op) with
    | .ok v =>
      let d := (jNat v).toOption.getD 0
      match n.op with
      | .mread mid =>
        -- the 'm' delay function receives the memory: `mdelays` (optional) gives the delay per memory id
        match (fieldD j "mdelays" (Json.mkObj [])).getObjVal? (toString mid) with
        | .ok mv => (jNat mv).toOption.getD d
        | .error _ => d
      | _ => if d = 0 || wmod = 0 then d else d + b.width (n.args.headD 0) % wmod
    | .error _ => 0
  let t := timingMap δ comb
  let nw := b.wires.size
  -- tabulate along the way to keep lookups cheap
  let arr := mkArr nw t
  return Json.mkObj [("ok", .bool true), ("timing", .arr (arr.map natJson))]

end Pyrtl.Drv
