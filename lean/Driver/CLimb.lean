import Driver.Json
import Model.Sim.CLimb
/-! `cemit` command: the model's C statements for one net as JSON, compared with what the check parsed
out of the text CompiledSimulation generated; `cexec`: run the model statements on concrete limbs. -/
open Lean
namespace Pyrtl.Drv
open Pyrtl.CLimb

def varJson : Var → Json
  | .arg k l => .arr #[.str "a", natJson k, natJson l]
  | .dest l => .arr #[.str "d", natJson l]
  | .tmp => .arr #[.str "tmp"] | .carry => .arr #[.str "carry"]
  | .tmplo => .arr #[.str "tmplo"] | .tmphi => .arr #[.str "tmphi"]

def eJson : E → Json
  | .lit n => .arr #[.str "lit", natJson n]
  | .v x => .arr #[.str "v", varJson x]
  | .add x y => .arr #[.str "+", eJson x, eJson y]
  | .sub x y => .arr #[.str "-", eJson x, eJson y]
  | .band x y => .arr #[.str "&", eJson x, eJson y]
  | .bor x y => .arr #[.str "|", eJson x, eJson y]
  | .bxor x y => .arr #[.str "^", eJson x, eJson y]
  | .bnot x => .arr #[.str "~", eJson x]
  | .shl x k => .arr #[.str "<<", eJson x, natJson k]
  | .shr x k => .arr #[.str ">>", eJson x, natJson k]
  | .lt x y => .arr #[.str "<", eJson x, eJson y]
  | .gt x y => .arr #[.str ">", eJson x, eJson y]
  | .eq x y => .arr #[.str "==", eJson x, eJson y]
  | .land x y => .arr #[.str "&&", eJson x, eJson y]
  | .lor x y => .arr #[.str "||", eJson x, eJson y]

mutual
partial def sJson : S → Json
  | .assign x e => .arr #[.str "=", varJson x, eJson e]
  | .ite c t e => .arr #[.str "if", eJson c, .arr (t.map sJson).toArray, .arr (e.map sJson).toArray]
  | .mul128 x y lo hi => .arr #[.str "mul128", eJson x, eJson y, varJson lo, varJson hi]
end

def emitFor (op : String) (ws : List Nat) (wd : Nat) (param : List Nat) : Except String (List S) :=
  let w (i : Nat) := ws.getD i 0
  match op with
  | "w" => pure (emitWire (w 0) wd)
  | "~" => pure (emitNot wd)
  | "&" => pure (emitBitwise .and (w 0) (w 1) wd)
  | "|" => pure (emitBitwise .or (w 0) (w 1) wd)
  | "^" => pure (emitBitwise .xor (w 0) (w 1) wd)
  | "n" => pure (emitNand (w 0) (w 1) wd)
  | "=" => pure (emitEq (w 0) (w 1))
  | "<" => pure (emitCmp true (w 0) (w 1))
  | ">" => pure (emitCmp false (w 0) (w 1))
  | "x" => pure (emitMux (w 1) (w 2) wd)
  | "+" => pure (emitAdd (w 0) (w 1) wd)
  | "-" => pure (emitSub (w 0) (w 1) wd)
  | "*" => pure (emitMul (w 0) (w 1) wd)
  | "s" => pure (emitSelect param wd)
  | "c" => pure (emitConcat ws wd)
  | _ => throw s!"no C model for op {op}"

def toLimbs (v : Nat) (n : Nat) : List Nat := (List.range n).map fun i => v / 2 ^ (64 * i) % 2 ^ 64

/-- request: {op, widths, wd, param, text?: parsed statements, cases?: [[values of the args]]} -/
def cmdCemit (j : Json) : Except String Json := do
  let op ← jStr (← field j "op")
  let ws ← jNatList (← field j "widths")
  let wd ← jNat (← field j "wd")
  let param ← jNatList (fieldD j "param" (.arr #[]))
  let prog ← emitFor op ws wd param
  let mine := Json.arr (prog.map sJson).toArray
  let same := match j.getObjVal? "text" with
    | .ok t => t == mine
    | .error _ => true
  -- execute on concrete operand values
  let cases ← match j.getObjVal? "cases" with
    | .ok c => (← jArr c).toList.mapM jNatList
    | .error _ => pure []
  let outs := cases.map fun c =>
    let σ0 : Pyrtl.CLimb.Env := ⟨(ws.zipIdx.map fun (w, k) =>
      (List.range (limbs w)).map fun l => (Var.arg k l, (c.getD k 0) / 2 ^ (64 * l) % 2 ^ 64)).flatten⟩
    let σ := execList σ0 prog
    (List.range (limbs wd)).foldl (fun acc l => acc + σ.get (.dest l) * 2 ^ (64 * l)) 0
  return Json.mkObj [("ok", .bool true), ("same", .bool same), ("model", if same then .null else mine),
                     ("vals", .arr (outs.map natJson).toArray)]

end Pyrtl.Drv
