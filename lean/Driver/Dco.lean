import Driver.Lower
import Model.Pass.Dco
/-! `dco` command: the whole-netlist model of `direct_connect_outputs` applied to a serialized block. -/
open Lean
namespace Pyrtl.Drv
open Pyrtl.Dco

def cmdDco (j : Json) : Except String Json := do
  let b ← parseBlock (← field j "block")
  let b' := directConnectOutputs b
  return Json.mkObj [("ok", .bool true), ("chain_ok", .bool (chainOkB (b.nets.length + 1) b)),
    ("nets", .arr (b'.nets.map netJson).toArray)]

end Pyrtl.Drv
