import Driver.Lower
import Model.Pass.Dead
/-! `dead` command: check and apply a dead-logic removal to a serialized block. -/
open Lean
namespace Pyrtl.Drv
open Pyrtl.Dead

def cmdDead (j : Json) : Except String Json := do
  let b ← parseBlock (← field j "block")
  let removedIdx ← jNatList (← field j "removed")
  let netsArr := b.nets.toArray
  let removed ← removedIdx.mapM fun i => match netsArr[i]? with
    | some n => pure n
    | none => throw s!"net index {i} out of range"
  return Json.mkObj [("ok", .bool true), ("dead_ok", .bool (deadOk b removed)),
    ("scheds_ok", .bool (deadSchedsOkB b removed)),
    ("nets", .arr ((applyDead b removed).nets.map netJson).toArray)]

end Pyrtl.Drv
