import Driver.Json
import Model.Graph.Sanity
import Model.Core.Topo
/-! `sanity` and `topo` commands. -/
open Lean
namespace Pyrtl.Drv
open Pyrtl.Graph

def parseRawBlock (j : Json) : Except String RawBlock := do
  let legal ← jStr (fieldD j "legal_ops" (.str "w~&|^n+-*<>=xcsrm@"))
  let wsJ ← jArr (← field j "wires")
  let ws ← wsJ.toList.mapM fun w => do
    return (⟨← jStr (← field w "n"), ← jStr (← field w "k"), ← jBool (fieldD w "member" (.bool true)),
            ← jBool (fieldD w "byname" (.bool true))⟩ : RawWire)
  let widths ← wsJ.toList.mapM fun w => do jInt (← field w "w")
  let kinds := ws.map (·.kind)
  let wsA := ws.toArray
  let nsJ ← jArr (← field j "nets")
  let ns ← nsJ.toList.mapM fun n => do
    let op ← jStr (← field n "op")
    let args ← jNatList (← field n "a")
    let dests ← jNatList (← field n "d")
    let width (i : Nat) : Nat := ((widths.getD i 0).toNat)
    let argw := args.map width
    let mem := fieldD n "mem" .null
    let (maw, mdw) ← match mem with
      | .null => pure (0, 0)
      | m => do pure (← jNat (← field m "aw"), ← jNat (← field m "dw"))
    let view : NetView := {
      op := op
      legal := op.length == 1 && legal.toList.contains (op.toList.headD ' ')
      nargs := args.length, ndests := dests.length, argw := argw
      dw := width (dests.headD 0) * (if dests.isEmpty then 0 else 1)
      sumw := argw.sum
      pnone := ← jBool (fieldD n "pnone" (.bool true))
      ptuple := ← jBool (fieldD n "ptuple" (.bool false))
      plen := ← jNat (fieldD n "plen" (natJson 0))
      pvals := ← jIntList (fieldD n "pvals" (.arr #[]))
      memAW := maw, memDW := mdw
      foreign := (args ++ dests).any fun i => !((wsA[i]?.map (·.member)).getD false)
      destIsInputOrConst := dests.any fun i => let k := kinds.getD i "p"; k == "i" || k == "c"
      argIsOutput := args.any fun i => kinds.getD i "p" == "o"
      destIsReg := kinds.getD (dests.headD 0) "p" == "r" && !dests.isEmpty }
    return (⟨view, args, dests⟩ : RawNet)
  return ⟨wsA, ns⟩

def cmdSanity (j : Json) : Except String Json := do
  let b ← parseRawBlock (← field j "block")
  let v := match check b with
    | .ok => "ok"
    | .reject why => "reject:" ++ why
  return Json.mkObj [("ok", .bool true), ("verdict", .str v)]

/-- is the given sequence of net indices a dependency order of the combinational nets it contains,
    with every net of the block exactly once? -/
def cmdTopo (j : Json) : Except String Json := do
  let b ← parseBlock (← field j "block")
  let order ← jNatList (← field j "order")
  let netsArr := b.nets.toArray
  let nets ← order.mapM fun i => match netsArr[i]? with
    | some n => pure n
    | none => throw s!"net index {i} out of range"
  let comb := nets.filter (·.op.isComb)
  let once := order.toArray.qsort (· < ·) == (Array.range netsArr.size)
  -- a register/memory-write net may appear anywhere after its (combinational) argument producers
  let rec regsOk (ns : List Net) (done : Std.HashSet Nat) (driven : Std.HashSet Nat) : Bool :=
    match ns with
    | [] => true
    | n :: rest =>
      if n.op.isComb then regsOk rest (done.insert n.dest) driven
      else n.args.all (fun a => done.contains a || !driven.contains a) && regsOk rest done driven
  let driven := Std.HashSet.ofList (comb.map Net.dest)
  return Json.mkObj [("ok", .bool true), ("topo", .bool (isTopoFast comb && once && regsOk nets {} driven))]

end Pyrtl.Drv
