import Lean.Data.Json
import Model.Core.Netlist
import Model.Core.Spec
/-! JSON decoding of serialized blocks / stimuli for the line-protocol driver. -/
open Lean
namespace Pyrtl.Drv

def jNat (j : Json) : Except String Nat :=
  match j with
  | .num n => if n.exponent == 0 && n.mantissa ≥ 0 then .ok n.mantissa.toNat else .error s!"not a nat: {j}"
  | _ => .error s!"not a number: {j.compress}"

def jInt (j : Json) : Except String Int :=
  match j with
  | .num n => if n.exponent == 0 then .ok n.mantissa else .error s!"not an int: {j}"
  | _ => .error s!"not a number: {j.compress}"

def jArr (j : Json) : Except String (Array Json) :=
  match j with
  | .arr a => .ok a
  | _ => .error s!"not an array: {j.compress}"

def jStr (j : Json) : Except String String :=
  match j with
  | .str s => .ok s
  | _ => .error s!"not a string: {j.compress}"

def jBool (j : Json) : Except String Bool :=
  match j with
  | .bool b => .ok b
  | _ => .error s!"not a bool: {j.compress}"

def field (j : Json) (k : String) : Except String Json :=
  match j.getObjVal? k with
  | .ok v => .ok v
  | .error _ => .error s!"missing field {k}"

def fieldD (j : Json) (k : String) (d : Json) : Json :=
  match j.getObjVal? k with
  | .ok v => v
  | .error _ => d

def jNatList (j : Json) : Except String (List Nat) := do
  let a ← jArr j
  a.toList.mapM jNat

def jIntList (j : Json) : Except String (List Int) := do
  let a ← jArr j
  a.toList.mapM jInt

def jPairList (j : Json) : Except String (List (Nat × Nat)) := do
  let a ← jArr j
  a.toList.mapM fun p => do
    let q ← jArr p
    if q.size != 2 then throw "pair expected"
    return (← jNat q[0]!, ← jNat q[1]!)

def jOptNat (j : Json) : Except String (Option Nat) :=
  match j with
  | .null => .ok none
  | _ => do return some (← jNat j)

def parseWire (j : Json) : Except String Wire := do
  let name ← jStr (← field j "n")
  let width ← jNat (← field j "w")
  let k ← jStr (← field j "k")
  let v ← jOptNat (fieldD j "v" .null)
  let kind ← match k with
    | "i" => pure Kind.input
    | "o" => pure Kind.output
    | "c" => pure (Kind.const (v.getD 0))
    | "r" => pure (Kind.reg v)
    | "p" => pure Kind.plain
    | _ => throw s!"bad wire kind {k}"
  return ⟨name, width, kind⟩

def parseOp (op : String) (p : Json) : Except String Op :=
  match op with
  | "w" => pure .w | "~" => pure .inv | "&" => pure .and | "|" => pure .or | "^" => pure .xor
  | "n" => pure .nand | "+" => pure .add | "-" => pure .sub | "*" => pure .mul
  | "<" => pure .lt | ">" => pure .gt | "=" => pure .eq | "x" => pure .mux | "c" => pure .concat
  | "s" => do return .select (← jNatList p)
  | "r" => pure .reg
  | "m" => do return .mread (← jNat p)
  | "@" => do return .mwrite (← jNat p)
  | _ => throw s!"bad op {op}"

def parseNet (j : Json) : Except String Net := do
  let op ← jStr (← field j "op")
  let p := fieldD j "p" .null
  return ⟨← parseOp op p, ← jNatList (← field j "a"), ← jNatList (← field j "d")⟩

def parseMem (j : Json) : Except String Mem := do
  let rom ← match fieldD j "rom" .null with
    | .null => pure none
    | r => do pure (some (← jPairList r))
  return ⟨← jNat (← field j "id"), ← jNat (← field j "aw"), ← jNat (← field j "dw"), rom,
          ← jBool (fieldD j "async" (.bool false))⟩

def parseBlock (j : Json) : Except String Block := do
  let ws ← (← jArr (← field j "wires")).toList.mapM parseWire
  let ns ← (← jArr (← field j "nets")).toList.mapM parseNet
  let ms ← (← jArr (fieldD j "mems" (.arr #[]))).toList.mapM parseMem
  return ⟨ws.toArray, ns, ms⟩

def natJson (n : Nat) : Json := .num ⟨(n : Int), 0⟩
def intJson (n : Int) : Json := .num ⟨n, 0⟩

/-- association list → lookup function -/
def assocFn (l : List (Nat × Nat)) : Nat → Option Nat := fun k => (l.find? (·.1 == k)).map (·.2)

/-- array-backed environment (same function, cheap lookups).  `arrEnv` is a separate
    non-inlined function so that the array is built once, when the closure is created. -/
@[noinline] def arrEnv (arr : Array Nat) (i : Nat) : Nat := arr.getD i 0

/-- tabulate an environment.  Callers bind the result with `let` in a `do` block and then build
    `arrEnv arr`, so the table is computed exactly once (a definition returning `Env` directly is
    eta-expanded by the compiler and would recompute the table on every lookup). -/
@[noinline] def mkArr (n : Nat) (e : Env) : Array Nat := (Array.range n).map e

end Pyrtl.Drv
