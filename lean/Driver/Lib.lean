import Driver.Json
import Model.Pass.Synth
import Model.Lib.Ops
import Model.Lib.Barrel
import Model.Lib.Adders
import Model.Lib.SeqMult
import Model.Lib.Wallace
import Model.Lib.Prng
import Model.Gen.Conv
import Model.Lib.Muxes
import Model.Lib.MatrixIndex
import Model.Pass.Cond
import Model.Sim.FastSim
/-! `basic` command: the Lean models of the bit-level generators on concrete operands. -/
open Lean
namespace Pyrtl.Drv
open Pyrtl.Synth

def cmdBasic (j : Json) : Except String Json := do
  let fn ← jStr (← field j "fn")
  let wa ← jNat (← field j "wa")
  let wb ← jNat (← field j "wb")
  let cases ← jPairList (← field j "cases")
  let f : List Bool → List Bool → List Bool ← match fn with
    | "add" => pure basicAdd
    | "sub" => pure basicSub
    | "mult" => pure basicMult
    | "eq" => pure basicEq
    | "lt" => pure basicLt
    | "gt" => pure basicGt
    | _ => throw s!"unknown basic fn {fn}"
  let outs := cases.map fun (a, b) => f (ofNat wa a) (ofNat wb b)
  let width := (outs.headD []).length
  return Json.mkObj [("ok", .bool true), ("width", natJson width),
                     ("vals", .arr (outs.map fun o => natJson (toNat o)).toArray)]

end Pyrtl.Drv

namespace Pyrtl.Drv
open Pyrtl.Ops

/-- `ops` command: the Lean impl models of operators/helpers on concrete `(width, value)` operands.
    Request: fn, wa, wb, k (constant parameter), cases [[a, b], ...]; reply: width and values. -/
def cmdOps (j : Lean.Json) : Except String Lean.Json := do
  let fn ← jStr (← field j "fn")
  let wa ← jNat (← field j "wa")
  let wb ← jNat (← field j "wb")
  let k ← jNat (fieldD j "k" (natJson 0))
  let cases ← jPairList (← field j "cases")
  let bitsOf (w v : Nat) : List Bool := Pyrtl.Synth.ofNat w v
  let f : Sig → Sig → Except String Sig := fun a b =>
    match fn with
    | "add" => pure (twoVarOp .add a b) | "sub" => pure (twoVarOp .sub a b) | "mul" => pure (twoVarOp .mul a b)
    | "and" => pure (twoVarOp .and a b) | "or" => pure (twoVarOp .or a b) | "xor" => pure (twoVarOp .xor a b)
    | "nand" => pure (twoVarOp .nand a b)
    | "lt" => pure (twoVarOp .lt a b) | "gt" => pure (twoVarOp .gt a b) | "eq" => pure (twoVarOp .eq a b)
    | "le" => pure (inv (twoVarOp .gt a b)) | "ge" => pure (inv (twoVarOp .lt a b))
    | "ne" => pure (inv (twoVarOp .eq a b))
    | "inv" => pure (inv a)
    | "zext" => pure (zeroExtended a (a.1 + k)) | "sext" => pure (signExtended a (a.1 + k))
    | "signed_add" => pure (signedAdd a b) | "signed_mult" => pure (signedMult a b)
    | "signed_lt" => pure (1, signedLt a b)
    | "shl_const" => pure (shiftLeftConst a k) | "shr_const" => pure (shiftRightConst a k)
    | "shl" => pure (a.1, Pyrtl.Synth.toNat (Pyrtl.Barrel.barrelShifter (bitsOf a.1 a.2) false true (bitsOf b.1 b.2)))
    | "shr" => pure (a.1, Pyrtl.Synth.toNat (Pyrtl.Barrel.barrelShifter (bitsOf a.1 a.2) false false (bitsOf b.1 b.2)))
    | "sra" => pure (a.1, Pyrtl.Synth.toNat (Pyrtl.Barrel.barrelShifter (bitsOf a.1 a.2) (msb a == 1) false (bitsOf b.1 b.2)))
    | _ => throw s!"unknown op fn {fn}"
  let outs ← cases.mapM fun (a, b) => f (wa, a) (wb, b)
  return Lean.Json.mkObj [("ok", .bool true), ("width", natJson ((outs.headD (0, 0)).1)),
                          ("vals", .arr (outs.map fun o => natJson o.2).toArray)]

end Pyrtl.Drv

namespace Pyrtl.Drv
open Pyrtl.Adders

/-- `adder` command: Lean bit-list models of rtllib adders. -/
def cmdAdder (j : Lean.Json) : Except String Lean.Json := do
  let fn ← jStr (← field j "fn")
  let widths ← jNatList (← field j "widths")
  let params := fieldD j "params" (Lean.Json.mkObj [])
  let ul ← jNat (fieldD params "la_unit_len" (natJson 4))
  let cases ← (← jArr (← field j "cases")).toList.mapM jNatList
  let bitsOf (w v : Nat) : List Bool := Pyrtl.Synth.ofNat w v
  let outs ← cases.mapM fun c => do
    let a := bitsOf (widths.getD 0 0) (c.getD 0 0)
    let b := bitsOf (widths.getD 1 0) (c.getD 1 0)
    let cin := (c.getD 2 0) % 2 == 1
    let fa : List Bool → List Bool → List Bool :=
      match (jStr (fieldD params "final_adder" (Lean.Json.str "kogge_stone"))).toOption.getD "kogge_stone" with
      | "ripple_add" => fun x y => rippleAdd x y false
      | _ => fun x y => koggeStone x y false
    match fn with
    | "tree_multiplier" => pure (treeMultiplier fa a b)
    | "signed_tree_multiplier" =>
      let mulS : Pyrtl.Ops.Sig → Pyrtl.Ops.Sig → Pyrtl.Ops.Sig := fun x y =>
        (x.1 + y.1, Pyrtl.Synth.toNat (treeMultiplier fa (bitsOf x.1 x.2) (bitsOf y.1 y.2)))
      let r := Pyrtl.Ops.signedTreeMult mulS (widths.getD 0 0, c.getD 0 0) (widths.getD 1 0, c.getD 1 0)
      pure (bitsOf r.1 r.2)
    | "carrysave_adder" =>
      pure (carrysaveAdder (fun x y => rippleAdd x y false) a b (bitsOf (widths.getD 2 0) (c.getD 2 0)))
    | "generalized_fma" =>
      let np := (jNat (fieldD params "npairs" (natJson 1))).toOption.getD 1
      let ops := (widths.zip c).map fun (w, v) => bitsOf w v
      let rec pairUp : List (List Bool) → Nat → List (List Bool × List Bool) × List (List Bool)
        | x :: y :: rest, k + 1 => let (ps, ad) := pairUp rest k; ((x, y) :: ps, ad)
        | rest, _ => ([], rest)
      let (ps, ad) := pairUp ops np
      pure (generalizedFma fa ps ad)
    | "fast_group_adder" =>
      pure (fastGroupAdder fa ((widths.zip c).map fun (w, v) => bitsOf w v))
    | "kogge_stone" => pure (koggeStone a b cin)
    | "ripple_add" => pure (rippleAdd a b cin)
    | "cla_adder" => pure (claAdder a b cin ul)
    | _ => throw s!"unknown adder {fn}"
  return Lean.Json.mkObj [("ok", .bool true), ("width", natJson ((outs.headD []).length)),
                          ("vals", .arr (outs.map fun o => natJson (Pyrtl.Synth.toNat o)).toArray)]

/-- `seqmult` command: the register-level model of simple_mult / complex_mult on a history of
    `[start, A, B]` per cycle from reset; reply: `[accum, done]` as visible during each cycle. -/
def cmdSeqMult (j : Lean.Json) : Except String Lean.Json := do
  let alen ← jNat (← field j "alen")
  let blen ← jNat (← field j "blen")
  let s ← jNat (← field j "shifts")
  let steps ← (← jArr (← field j "steps")).toList.mapM jNatList
  let ins : List (Bool × Nat × Nat) := steps.map fun c => (c.getD 0 0 != 0, c.getD 1 0, c.getD 2 0)
  let tr := Pyrtl.SeqMult.trace alen blen s Pyrtl.SeqMult.init ins
  return Lean.Json.mkObj [("ok", .bool true),
    ("trace", .arr (tr.map fun (acc, d) => Lean.Json.arr #[natJson acc, natJson (if d then 1 else 0)]).toArray)]

/-- `lfsr` command: the register-level model of prng_lfsr on a history of `[load, req, seed]` per cycle
    from reset; reply: the `rand` output as visible during each cycle. -/
def cmdLfsr (j : Lean.Json) : Except String Lean.Json := do
  let bw ← jNat (← field j "bitwidth")
  let steps ← (← jArr (← field j "steps")).toList.mapM jNatList
  let ins : List (Bool × Bool × Nat) := steps.map fun c => (c.getD 0 0 != 0, c.getD 1 0 != 0, c.getD 2 0)
  let tr := Pyrtl.Prng.lfsrTrace bw 0 ins
  return Lean.Json.mkObj [("ok", .bool true), ("trace", .arr (tr.map natJson).toArray)]

end Pyrtl.Drv

namespace Pyrtl.Drv
open Pyrtl.Gen.Conv

/-- `conv` command: the translated conversion helpers on concrete arguments.
    cases: [[a, b, flag], ...]; `null` result = the Python function raises. -/
def cmdConv (j : Lean.Json) : Except String Lean.Json := do
  let fn ← jStr (← field j "fn")
  let cases ← (← jArr (← field j "cases")).toList.mapM jIntList
  let outs ← cases.mapM fun c => do
    let a : Int := c.getD 0 0
    let b : Int := c.getD 1 0
    let fv : Int := c.getD 2 0
    let f : Bool := decide (fv ≠ 0)
    let pair (r : Option (Int × Int)) : Lean.Json := match r with
      | none => .null
      | some (x, y) => .arr #[intJson x, intJson y]
    let one (r : Option Int) : Lean.Json := match r with
      | none => .null
      | some x => intJson x
    match fn with
    | "convert_int" => pure (pair (convertInt a b f))
    | "convert_bool" => pure (pair (convertBool (decide (a ≠ 0)) b f))
    | "val_to_signed" => pure (one (valToSigned a b))
    | "twos_comp_repr" => pure (one (twosCompRepr a b))
    | "rev_twos_comp_repr" => pure (one (revTwosCompRepr a b))
    | "matrix_cell_slice" => pure (pair (Pyrtl.MatrixIndex.cellSlice a.toNat b))
    | _ => throw s!"unknown conv fn {fn}"
  return Lean.Json.mkObj [("ok", .bool true), ("vals", .arr outs.toArray)]

end Pyrtl.Drv

namespace Pyrtl.Drv
open Pyrtl.Muxes

def msbBits (w v : Nat) : List Bool := (Pyrtl.Synth.ofNat w v).reverse

/-- `muxes` command -/
def cmdMuxes (j : Lean.Json) : Except String Lean.Json := do
  let fn ← jStr (← field j "fn")
  let widths ← jNatList (← field j "widths")
  let cases ← (← jArr (← field j "cases")).toList.mapM jNatList
  let rows ← cases.mapM fun c => do
    match fn with
    | "mux" =>
      let nin ← jNat (← field j "nin")
      let dflt ← jNat (fieldD j "default" (natJson 0))
      let idx := msbBits (widths.getD 0 0) (c.getD 0 0)
      pure [mux idx ((c.drop 1).take nin) dflt]
    | "demux" =>
      pure ((demuxMsb (msbBits (widths.getD 0 0) (c.getD 0 0))).map fun b => if b then 1 else 0)
    | "prioritized_mux" =>
      let n ← jNat (← field j "n")
      pure [prioritizedMux (n + 1) ((c.take n).map (· != 0)) (c.drop n)]
    | _ => throw s!"unknown muxes fn {fn}"
  return Lean.Json.mkObj [("ok", .bool true), ("vals", .arr (rows.map fun r => Lean.Json.arr (r.map natJson).toArray).toArray)]

end Pyrtl.Drv

namespace Pyrtl.Drv
open Pyrtl.Cond

def parseGuard (j : Lean.Json) : Except String Guard :=
  match j with
  | .str "o" => pure .otherwise
  | _ => do return .pred (← jNat j)

/-- `cond` command.  targets: [{default: n, asgs: [{stack: [[guards...]...], rhs: n}]}],
    valuations: [[bits of predicates]]; reply: per target conflict flag and per valuation the value
    of the select chain and the number of active assignments. -/
def cmdCond (j : Lean.Json) : Except String Lean.Json := do
  let targets ← jArr (← field j "targets")
  let vals ← (← jArr (← field j "valuations")).toList.mapM jNatList
  let outs ← targets.toList.mapM fun t => do
    let dflt ← jNat (fieldD t "default" (natJson 0))
    let asgs ← (← jArr (← field t "asgs")).toList.mapM fun a => do
      let stack ← (← jArr (← field a "stack")).toList.mapM fun lvl => do
        (← jArr lvl).toList.mapM parseGuard
      let rhs ← jNat (← field a "rhs")
      return (currentSelect stack, rhs, stack)
    let conflict := anyConflict (asgs.map (·.1))
    let rows := vals.map fun v =>
      let ρ : Nat → Bool := fun i => v.getD i 0 != 0
      let nactive := (asgs.filter fun a => holds ρ a.1).length
      let specAgree := asgs.all fun a => holds ρ a.1 == activeSpec ρ a.2.2
      Lean.Json.arr #[natJson (chain ρ dflt (asgs.map fun a => (a.1, a.2.1))), natJson nactive, .bool specAgree]
    return Lean.Json.mkObj [("conflict", .bool conflict), ("rows", .arr rows.toArray)]
  return Lean.Json.mkObj [("ok", .bool true), ("targets", .arr outs.toArray)]


/-- `fsel`: the runs FastSimulation's select emitter forms for an index tuple, and the value of the
    emitted expression (model `FastSim.exec`) on the given argument values -/
def cmdFsel (j : Json) : Except String Json := do
  let idx ← jNatList (← field j "idx")
  let wa ← jNat (← field j "wa")
  let dw ← jNat (← field j "dw")
  let vals ← jNatList (← field j "vals")
  let rs := FastSim.runs idx
  let outs := vals.map fun (a : Nat) => FastSim.exec (.select idx) [(wa, (a : Int))] dw
  return Json.mkObj [("ok", .bool true),
    ("runs", .arr (rs.map fun r => Json.arr #[natJson r.start, natJson r.len, natJson r.res]).toArray),
    ("vals", .arr (outs.map intJson).toArray)]

end Pyrtl.Drv
