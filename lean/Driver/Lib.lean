import Driver.Json
import Model.Pass.Synth
/-! `basic` command: the Lean models of the bit-level generators on concrete operands. -/
open Lean
namespace Pyrtl.Drv
open Pyrtl.Synth

def cmdBasic (j : Json) : Except String Json := do
  let fn ← jStr (← field j "fn")
  let wa ← jNat (← field j "wa")
  let wb ← jNat (← field j "wb")
  let cases ← jPairList (← field j "cases")
  let f : List Bool → List Bool → List Bool ← match fn with
    | "add" => pure basicAdd
    | "sub" => pure basicSub
    | "mult" => pure basicMult
    | "eq" => pure basicEq
    | "lt" => pure basicLt
    | "gt" => pure basicGt
    | _ => throw s!"unknown basic fn {fn}"
  let outs := cases.map fun (a, b) => f (ofNat wa a) (ofNat wb b)
  let width := (outs.headD []).length
  return Json.mkObj [("ok", .bool true), ("width", natJson width),
                     ("vals", .arr (outs.map fun o => natJson (toNat o)).toArray)]

end Pyrtl.Drv
