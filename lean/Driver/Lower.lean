import Driver.Json
import Model.Pass.LowerNet
import Model.Core.Topo
/-! `lower` command: the whole-netlist model of a net-rewriting pass applied to a serialized block. -/
open Lean
namespace Pyrtl.Drv
open Pyrtl.LowerNet

def opJson (op : Op) : List (String × Json) :=
  match op with
  | .w => [("op", .str "w")] | .inv => [("op", .str "~")] | .and => [("op", .str "&")]
  | .or => [("op", .str "|")] | .xor => [("op", .str "^")] | .nand => [("op", .str "n")]
  | .add => [("op", .str "+")] | .sub => [("op", .str "-")] | .mul => [("op", .str "*")]
  | .lt => [("op", .str "<")] | .gt => [("op", .str ">")] | .eq => [("op", .str "=")]
  | .mux => [("op", .str "x")] | .concat => [("op", .str "c")]
  | .select idx => [("op", .str "s"), ("p", .arr (idx.map natJson).toArray)]
  | .reg => [("op", .str "r")]
  | .mread m => [("op", .str "m"), ("p", natJson m)]
  | .mwrite m => [("op", .str "@"), ("p", natJson m)]

def netJson (n : Net) : Json :=
  Json.mkObj (opJson n.op ++ [("a", .arr (n.args.map natJson).toArray), ("d", .arr (n.dests.map natJson).toArray)])

def cmdLower (j : Json) : Except String Json := do
  let b ← parseBlock (← field j "block")
  let rule ← jStr (← field j "rule")
  let (r, pre) ← match rule with
    | "nand_synth" => pure (nandRule, bitPreB)
    | "and_inverter_synth" => pure (aigRule, bitPreB)
    | "two_way_concat" => pure (twoWayRule, structPreB)
    | "one_bit_selects" => pure (oneBitRule, structPreB)
    | _ => throw s!"unknown rule {rule}"
  let b' := lowerBlock r b
  -- only the temporaries some gadget uses are reported (the stride layout leaves unused ids)
  let used := b'.nets.foldl (fun acc n => (n.args ++ n.dests).foldl (fun a w => a.insert w) acc)
    (Std.HashSet.emptyWithCapacity : Std.HashSet Nat)
  let tmpW := (used.toList.filter (· ≥ b.wires.size)).map fun w => Json.arr #[natJson w, natJson (b'.width w)]
  -- a dependency order of the original block, lowered, is a dependency order of the lowered block (checked per block)
  let topoOk := match topoSort b with
    | some order => isTopoFast (lowerOrder r b order) && (lowerOrder r b order).length == b'.combNets.length
    | none => false
  return Json.mkObj [("ok", .bool true), ("wf", .bool (wfB pre b)), ("size", natJson b.wires.size),
    ("topo", .bool topoOk),
    ("nets", .arr (b'.nets.map netJson).toArray), ("tmpw", .arr tmpW.toArray)]

end Pyrtl.Drv
