import Driver.Sim
import Driver.Lib
import Driver.Graph
import Driver.Analysis
import Driver.Verilog
import Driver.CLimb
import Driver.Lower
import Driver.Dco
import Driver.Alias
import Driver.Dead
/-! Line-protocol driver: one JSON request per input line, one JSON reply per output line. -/
open Lean
namespace Pyrtl.Drv

def dispatch (j : Json) : Except String Json := do
  let cmd ← jStr (← field j "cmd")
  match cmd with
  | "ping" => pure (Json.mkObj [("ok", .bool true)])
  | "sim" => cmdSim j
  | "basic" => cmdBasic j
  | "ops" => cmdOps j
  | "adder" => cmdAdder j
  | "seqmult" => cmdSeqMult j
  | "lfsr" => cmdLfsr j
  | "cemit" => cmdCemit j
  | "conv" => cmdConv j
  | "muxes" => cmdMuxes j
  | "cond" => cmdCond j
  | "sanity" => cmdSanity j
  | "topo" => cmdTopo j
  | "timing" => cmdTiming j
  | "fsel" => cmdFsel j
  | "vemit" => cmdVemit j
  | "vsim" => cmdVsim j
  | "lower" => cmdLower j
  | "dco" => cmdDco j
  | "alias" => cmdAlias j
  | "dead" => cmdDead j
  | _ => throw s!"unknown cmd {cmd}"

partial def loop (hin hout : IO.FS.Stream) : IO Unit := do
  let line ← hin.getLine
  if line.isEmpty then return ()
  let reply : Json :=
    match Json.parse line with
    | .error e => Json.mkObj [("ok", .bool false), ("err", .str s!"json: {e}")]
    | .ok j =>
      match dispatch j with
      | .ok r => r
      | .error e => Json.mkObj [("ok", .bool false), ("err", .str e)]
  hout.putStrLn reply.compress
  hout.flush
  loop hin hout

end Pyrtl.Drv

def main : IO Unit := do
  Pyrtl.Drv.loop (← IO.getStdin) (← IO.getStdout)
