import Driver.Json
import Model.Core.Topo
import Model.Core.Fast
import Model.Sim.PySim
import Model.Sim.FastRun
/-! `sim` command: run the Spec model or the PySim impl model on a serialized block. -/
open Lean
namespace Pyrtl.Drv

structure SimReq where
  blk : Block
  order : Option (List Nat)
  wrOrder : Option (List Net)
  regMap : List (Nat × Nat)
  memMap : List (Nat × List (Nat × Nat))
  dflt : Nat
  inputs : List (List (Nat × Nat))
  watch : List Nat
  memq : List (Nat × Nat)

def parseSimReq (j : Json) : Except String SimReq := do
  let blk ← parseBlock (← field j "block")
  let netsArr := blk.nets.toArray
  let idxToNets (js : Json) : Except String (List Net) := do
    let ids ← jNatList js
    ids.mapM fun i => match netsArr[i]? with
      | some n => pure n
      | none => throw s!"net index {i} out of range"
  let order ← match fieldD j "order" .null with
    | .null => pure none
    | o => do pure (some (← jNatList o))
  let wrOrder ← match fieldD j "wrorder" .null with
    | .null => pure none
    | o => do pure (some (← idxToNets o))
  let regMap ← jPairList (fieldD j "regmap" (.arr #[]))
  let memMap ← (← jArr (fieldD j "memmap" (.arr #[]))).toList.mapM fun p => do
    let q ← jArr p
    if q.size != 2 then throw "memmap entry"
    return (← jNat q[0]!, ← jPairList q[1]!)
  let dflt ← jNat (fieldD j "default" (natJson 0))
  let inputs ← (← jArr (← field j "inputs")).toList.mapM jPairList
  let watch ← jNatList (fieldD j "watch" (.arr #[]))
  let memq ← jPairList (fieldD j "memq" (.arr #[]))
  return ⟨blk, order, wrOrder, regMap, memMap, dflt, inputs, watch, memq⟩

/-- ROM reads of undefined addresses in this cycle (the real simulators raise). -/
def romFaults (b : Block) (env : Env) : Bool :=
  b.nets.any fun n => match n.op with
    | .mread m => match b.mem? m with
      | some ⟨_, _, _, some tbl, _⟩ => (romLookup tbl (env (n.args.headD 0))).isNone
      | _ => false
    | _ => false

/-- Two enabled write ports hit the same word with different data in this cycle: the outcome is
    outside the documented behaviour (it depends on the order of the write ports). -/
def writeConflict (b : Block) (env : Env) : Bool :=
  let ws := (writeNets b).filterMap fun n => match n.op, n.args with
    | .mwrite m, [a, d, en] => if env en ≠ 0 then some (m, env a, env d) else none
    | _, _ => none
  ws.any fun (m, a, d) => ws.any fun (m', a', d') => m == m' && a == a' && d != d'

/-- Kahn's algorithm over net indices with arrays and hash maps (linear time).  Its result is not
    trusted: `cmdSim` checks it with `isTopoFast` (= `isTopo`, proved) and checks it is a
    permutation of the combinational nets. -/
def kahnFast (b : Block) : Option (List Nat) := Id.run do
  let nets := b.nets.toArray
  let n := nets.size
  let mut producer : Std.HashMap Nat Nat := {}
  for k in [0:n] do
    if nets[k]!.op.isComb then producer := producer.insert nets[k]!.dest k
  let mut pending : Array Nat := Array.replicate n 0
  let mut readers : Std.HashMap Nat (List Nat) := {}
  let mut queue : Array Nat := #[]
  let mut ncomb := 0
  for k in [0:n] do
    if nets[k]!.op.isComb then
      ncomb := ncomb + 1
      let mut cnt := 0
      for a in nets[k]!.args do
        if producer.contains a then
          cnt := cnt + 1
          readers := readers.insert a (k :: (readers.getD a []))
      pending := pending.set! k cnt
      if cnt == 0 then queue := queue.push k
  let mut i := 0
  while i < queue.size do
    let k := queue[i]!
    i := i + 1
    for r in readers.getD nets[k]!.dest [] do
      let c := pending[r]! - 1
      pending := pending.set! r c
      if c == 0 then queue := queue.push r
  if queue.size == ncomb then some queue.toList else none

def cmdSim (j : Json) : Except String Json := do
  let r ← parseSimReq j
  let model ← jStr (fieldD j "model" (.str "spec"))
  let b := r.blk
  let nw := b.wires.size
  let orderIdx ← match r.order with
    | some o => pure o
    | none => match kahnFast b with
      | some o => pure o
      | none => throw "comb-cycle"
  let netsArr := b.nets.toArray
  let order ← orderIdx.mapM fun i => match netsArr[i]? with
    | some n => pure n
    | none => throw s!"net index {i} out of range"
  -- the order must be a dependency order of the block's combinational nets (checked, not assumed)
  if !isTopoFast order then throw "order-not-topological"
  let combIdx := (List.range netsArr.size).filter fun i => netsArr[i]!.op.isComb
  if orderIdx.toArray.qsort (· < ·) != combIdx.toArray then throw "order-not-a-permutation"
  let regFn := assocFn r.regMap
  let memFn : Nat → Nat → Option Nat := fun m a =>
    match r.memMap.find? (·.1 == m) with
    | some (_, l) => assocFn l a
    | none => none
  let inpFns : List Env := r.inputs.map fun l => fun i => (assocFn l i).getD 0
  let mut trace : Array Json := #[]
  let mut fault := false
  let mut conflict : Option Nat := none
  let mut cyc := 0
  let mut finalMem : Nat → Nat → Nat := fun _ _ => 0
  let regIds := (List.range nw).filter (PySim.isReg b)
  let regTable (f : Nat → Nat) : Array Nat := Id.run do
    let mut a := Array.replicate nw 0
    for r in regIds do
      a := a.set! r (f r)
    return a
  -- Each cycle recomposes `step` from its components (`baseEnv`, `netFun`, `nextRegs`,
  -- `applyWrites`), evaluating the nets with `Fast.evalSeq` (= `evalSeq`, Proofs/Lemmas/Fast.lean)
  -- and tabulating environments so that lookups stay cheap.
  if model == "spec" then
    let mut st := initState b regFn memFn r.dflt
    let regArr0 := regTable st.regs
    st := { st with regs := arrEnv regArr0 }
    for inp in inpFns do
      let baseArr := mkArr nw (baseEnv b st inp)
      let base := arrEnv baseArr
      let m := Fast.evalSeq (netFun b st) base order {}
      let envArr := mkArr nw (Fast.look m base)
      let env := arrEnv envArr
      if romFaults b env then fault := true
      if conflict.isNone && writeConflict b env then conflict := some cyc
      cyc := cyc + 1
      trace := trace.push (Json.arr ((r.watch.map fun i => natJson (envArr.getD i 0)).toArray))
      let regArr := regTable (nextRegs b env st)
      st := { regs := arrEnv regArr, mems := applyWrites env (writeNets b) st.mems }
    finalMem := st.mems
  else if model == "pysim" || model == "fastsim" then
    -- the same step skeleton (`FastSim.stepWith`) over Simulation's or FastSimulation's net function
    let nf : State → Net → List Nat → Nat := if model == "fastsim" then FastSim.netFun b else PySim.netFun b
    let wr := r.wrOrder.getD (writeNets b)
    let mut s := PySim.init b regFn memFn r.dflt
    let valArr0 := mkArr nw s.value
    let regArr0 := regTable s.regvalue
    s := { s with value := arrEnv valArr0, regvalue := arrEnv regArr0 }
    for inp in inpFns do
      let v2 : Env := fun i => if PySim.isReg b i then s.regvalue i
                               else if PySim.isInput b i then inp i else s.value i
      let baseArr := mkArr nw v2
      let base := arrEnv baseArr
      let m := Fast.evalSeq (nf ⟨s.regvalue, s.mem⟩) base order {}
      let envArr := mkArr nw (Fast.look m base)
      let env := arrEnv envArr
      if romFaults b env then fault := true
      if conflict.isNone && writeConflict b env then conflict := some cyc
      cyc := cyc + 1
      trace := trace.push (Json.arr ((r.watch.map fun i => natJson (envArr.getD i 0)).toArray))
      let regArr := regTable (PySim.regCapture b env s.regvalue)
      s := { value := env, regvalue := arrEnv regArr, mem := PySim.memUpdate env wr s.mem }
    finalMem := s.mem
  else throw s!"unknown model {model}"
  let memOut := r.memq.map fun (m, a) => natJson (finalMem m a)
  return Json.mkObj [("ok", .bool true), ("trace", .arr trace), ("romfault", .bool fault),
                     ("wconflict", match conflict with | some c => natJson c | none => .null),
                     ("mem", .arr memOut.toArray)]

end Pyrtl.Drv
