import Driver.Json
import Model.Verilog.Emit
import Std.Data.HashMap
/-! `vemit` (model of output_to_verilog as JSON) and `vsim` (run a parsed Verilog module). -/
open Lean
namespace Pyrtl.Drv
open Pyrtl.Verilog

partial def exprJson : VExpr → Json
  | .id n => .arr #[.str "id", .str n]
  | .num w v => .arr #[.str "num", (match w with | some w => natJson w | none => .null), natJson v]
  | .not a => .arr #[.str "not", exprJson a]
  | .bin op a b =>
      let o := match op with | .and => "&" | .or => "|" | .xor => "^" | .add => "+" | .sub => "-" | .mul => "*"
      .arr #[.str "bin", .str o, exprJson a, exprJson b]
  | .cmp op a b =>
      let o := match op with | .lt => "<" | .gt => ">" | .eq => "=="
      .arr #[.str "cmp", .str o, exprJson a, exprJson b]
  | .tern c a b => .arr #[.str "tern", exprJson c, exprJson a, exprJson b]
  | .cat xs => .arr #[.str "cat", .arr (xs.map exprJson).toArray]
  | .bit n i => .arr #[.str "bit", .str n, natJson i]
  | .mem m a => .arr #[.str "mem", .str m, exprJson a]

partial def stmtJson : Stmt → Json
  | .nba l ix r => .arr #[.str "nba", .str l, (match ix with | some e => exprJson e | none => .null), exprJson r]
  | .ite c t e => .arr #[.str "if", exprJson c, .arr (t.map stmtJson).toArray, .arr (e.map stmtJson).toArray]

def moduleJson (m : VModule) : Json :=
  Json.mkObj [
    ("widths", .arr (m.widths.map fun (n, w) => Json.arr #[.str n, natJson w]).toArray),
    ("inputs", .arr (m.inputs.map Json.str).toArray),
    ("outputs", .arr (m.outputs.map Json.str).toArray),
    ("regs", .arr (m.regs.map Json.str).toArray),
    ("mems", .arr (m.mems.map fun (n, w, s) => Json.arr #[.str n, natJson w, natJson s]).toArray),
    ("rominit", .arr (m.romInit.map fun (n, i, w, v) => Json.arr #[.str n, natJson i, natJson w, natJson v]).toArray),
    ("assigns", .arr (m.assigns.map fun (l, e) => Json.arr #[.str l, exprJson e]).toArray),
    ("always", .arr (m.always.map fun (a, body) =>
        Json.mkObj [("async", .bool a), ("body", .arr (body.map stmtJson).toArray)]).toArray)]

partial def parseExpr (j : Json) : Except String VExpr := do
  let a ← jArr j
  let tag ← jStr (a.getD 0 .null)
  match tag with
  | "id" => return .id (← jStr (a.getD 1 .null))
  | "num" => return .num (← jOptNat (a.getD 1 .null)) (← jNat (a.getD 2 .null))
  | "not" => return .not (← parseExpr (a.getD 1 .null))
  | "bin" =>
      let op ← match (← jStr (a.getD 1 .null)) with
        | "&" => pure BinOp.and | "|" => pure BinOp.or | "^" => pure BinOp.xor
        | "+" => pure BinOp.add | "-" => pure BinOp.sub | "*" => pure BinOp.mul
        | o => throw s!"bad binop {o}"
      return .bin op (← parseExpr (a.getD 2 .null)) (← parseExpr (a.getD 3 .null))
  | "cmp" =>
      let op ← match (← jStr (a.getD 1 .null)) with
        | "<" => pure CmpOp.lt | ">" => pure CmpOp.gt | "==" => pure CmpOp.eq
        | o => throw s!"bad cmpop {o}"
      return .cmp op (← parseExpr (a.getD 2 .null)) (← parseExpr (a.getD 3 .null))
  | "tern" => return .tern (← parseExpr (a.getD 1 .null)) (← parseExpr (a.getD 2 .null)) (← parseExpr (a.getD 3 .null))
  | "cat" => return .cat (← (← jArr (a.getD 1 .null)).toList.mapM parseExpr)
  | "bit" => return .bit (← jStr (a.getD 1 .null)) (← jNat (a.getD 2 .null))
  | "mem" => return .mem (← jStr (a.getD 1 .null)) (← parseExpr (a.getD 2 .null))
  | t => throw s!"bad expr tag {t}"

partial def parseStmt (j : Json) : Except String Stmt := do
  let a ← jArr j
  match (← jStr (a.getD 0 .null)) with
  | "nba" =>
      let ix ← match a.getD 2 .null with
        | .null => pure none
        | e => do pure (some (← parseExpr e))
      return .nba (← jStr (a.getD 1 .null)) ix (← parseExpr (a.getD 3 .null))
  | "if" =>
      return .ite (← parseExpr (a.getD 1 .null)) (← (← jArr (a.getD 2 .null)).toList.mapM parseStmt)
        (← (← jArr (a.getD 3 .null)).toList.mapM parseStmt)
  | t => throw s!"bad stmt tag {t}"

def jStrList (j : Json) : Except String (List String) := do (← jArr j).toList.mapM jStr

def parseModule (j : Json) : Except String VModule := do
  let widths ← (← jArr (← field j "widths")).toList.mapM fun p => do
    let q ← jArr p
    return (← jStr (q.getD 0 .null), ← jNat (q.getD 1 .null))
  let mems ← (← jArr (← field j "mems")).toList.mapM fun p => do
    let q ← jArr p
    return (← jStr (q.getD 0 .null), ← jNat (q.getD 1 .null), ← jNat (q.getD 2 .null))
  let rominit ← (← jArr (← field j "rominit")).toList.mapM fun p => do
    let q ← jArr p
    return (← jStr (q.getD 0 .null), ← jNat (q.getD 1 .null), ← jNat (q.getD 2 .null), ← jNat (q.getD 3 .null))
  let assigns ← (← jArr (← field j "assigns")).toList.mapM fun p => do
    let q ← jArr p
    return (← jStr (q.getD 0 .null), ← parseExpr (q.getD 1 .null))
  let always ← (← jArr (← field j "always")).toList.mapM fun p => do
    return (← jBool (fieldD p "async" (.bool false)), ← (← jArr (← field p "body")).toList.mapM parseStmt)
  return { widths, inputs := ← jStrList (← field j "inputs"), outputs := ← jStrList (← field j "outputs"),
           regs := ← jStrList (← field j "regs"), mems, romInit := rominit, assigns, always }

def cmdVemit (j : Json) : Except String Json := do
  let b ← parseBlock (← field j "block")
  let names := (← jStrList (← field j "vnames")).toArray
  let reset ← jNat (← field j "reset")
  match emitModule b (fun i => names.getD i "?") reset with
  | some m => return Json.mkObj [("ok", .bool true), ("module", moduleJson m)]
  | none => return Json.mkObj [("ok", .bool true), ("module", .null)]

/-! ### running a module -/

structure RunState where
  vals : Std.HashMap String Nat
  mems : Std.HashMap String (Std.HashMap Nat Nat)

def mkEnv (widths : Std.HashMap String Nat) (memW : Std.HashMap String Nat) (dflt : Nat) (s : RunState) : VEnv :=
  { width := fun n => widths.getD n 0
    val := fun n => s.vals.getD n 0
    memW := fun n => memW.getD n 0
    memV := fun m a => ((s.mems.getD m {}).getD a dflt) }

/-- evaluate the continuous assignments until nothing changes (`fuel` passes at most) -/
def settle (widths memW : Std.HashMap String Nat) (dflt : Nat) (assigns : Array (String × VExpr)) :
    Nat → RunState → Option RunState
  | 0, _ => none
  | fuel + 1, s =>
    let (s', changed) := assigns.foldl (init := (s, false)) fun (st, ch) (l, e) =>
      let v := assignVal (mkEnv widths memW dflt st) (widths.getD l 0) e
      if st.vals.getD l 0 == v && st.vals.contains l then (st, ch)
      else ({ st with vals := st.vals.insert l v }, true)
    if changed then settle widths memW dflt assigns fuel s' else some s'

def applyUpd (memSize : Std.HashMap String Nat) (s : RunState) : Upd → RunState
  | .reg n v => { s with vals := s.vals.insert n v }
  | .mem m a v =>
      if a < memSize.getD m 0 then { s with mems := s.mems.insert m ((s.mems.getD m {}).insert a v) } else s

def cmdVsim (j : Json) : Except String Json := do
  let m ← parseModule (← field j "module")
  let dflt ← jNat (fieldD j "default" (natJson 0))
  let widths : Std.HashMap String Nat := Std.HashMap.ofList m.widths
  let memW : Std.HashMap String Nat := Std.HashMap.ofList (m.mems.map fun (n, w, _) => (n, w))
  let memSize : Std.HashMap String Nat := Std.HashMap.ofList (m.mems.map fun (n, _, s) => (n, s))
  let reginit ← (← jArr (fieldD j "reginit" (.arr #[]))).toList.mapM fun p => do
    let q ← jArr p
    return (← jStr (q.getD 0 .null), ← jNat (q.getD 1 .null))
  let meminit ← (← jArr (fieldD j "meminit" (.arr #[]))).toList.mapM fun p => do
    let q ← jArr p
    return (← jStr (q.getD 0 .null), ← jPairList (q.getD 1 .null))
  let steps ← (← jArr (← field j "inputs")).toList.mapM fun st => do
    (← jArr st).toList.mapM fun p => do
      let q ← jArr p
      return (← jStr (q.getD 0 .null), ← jNat (q.getD 1 .null))
  let watch ← jStrList (fieldD j "watch" (.arr (m.outputs.map Json.str).toArray))
  -- initial state: registers, memories (explicit words over the default), then ROM `initial` blocks
  let mems0 : Std.HashMap String (Std.HashMap Nat Nat) :=
    meminit.foldl (fun acc (n, l) => acc.insert n (Std.HashMap.ofList l)) {}
  let mems1 := m.romInit.foldl (fun acc (n, i, w, v) => acc.insert n ((acc.getD n {}).insert i (v % 2 ^ w % 2 ^ memW.getD n 0))) mems0
  let mut st : RunState := { vals := Std.HashMap.ofList reginit, mems := mems1 }
  let assigns := m.assigns.toArray
  let mut rows : Array Json := #[]
  for step in steps do
    st := { st with vals := step.foldl (fun acc (n, v) => acc.insert n (v % 2 ^ widths.getD n 1)) st.vals }
    match settle widths memW dflt assigns (assigns.size + 2) st with
    | none => throw "continuous assignments do not settle (combinational loop in the emitted text)"
    | some s' =>
      st := s'
      rows := rows.push (.arr (watch.map fun n => natJson (st.vals.getD n 0)).toArray)
      let E := mkEnv widths memW dflt st
      let upds := m.always.foldl (fun acc (_, body) => acc ++ execs E body) []
      st := upds.foldl (applyUpd memSize) st
  return Json.mkObj [("ok", .bool true), ("trace", .arr rows)]

end Pyrtl.Drv
