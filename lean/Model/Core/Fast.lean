import Std.Data.HashMap
import Model.Core.Spec
/-!
# Executable evaluation with a hash map

`evalSeq` builds a chain of closures, which is the right shape for proofs but slow to run on large
netlists.  `Fast.evalSeq` keeps the values computed so far in a `Std.HashMap`; the refinement
theorem `Fast.evalSeq_look` (Proofs/Lemmas/Fast.lean) says both compute the same valuation.
-/
namespace Pyrtl.Fast

abbrev FEnv := Std.HashMap Nat Nat

/-- value of wire `x`: what has been computed so far, else the source value. -/
def look (m : FEnv) (base : Env) (x : Nat) : Nat := m.getD x (base x)

def evalSeq (f : Net → List Nat → Nat) (base : Env) : List Net → FEnv → FEnv
  | [], m => m
  | n :: ns, m => evalSeq f base ns (m.insert n.dest (f n (n.args.map (look m base))))

end Pyrtl.Fast
