/-!
# The netlist IR of PyRTL, as plain data

A `Block` is a list of wires (wire id = position in the list), a list of nets over wire ids and a
list of memories.  This mirrors `pyrtl.core.Block` / `LogicNet` / `pyrtl.wire.*` / `pyrtl.memory.*`.
No Mathlib.
-/
namespace Pyrtl

/-- The class of a wire (`Input`, `Output`, `Const`, `Register`, plain `WireVector`). -/
inductive Kind where
  | input
  | output
  | const (v : Nat)
  | reg (reset : Option Nat)
  | plain
  deriving Repr, DecidableEq, Inhabited

structure Wire where
  name  : String
  width : Nat
  kind  : Kind
  deriving Repr, DecidableEq, Inhabited

/-- The 18 primitive operations.  `select` carries the `op_param` index tuple, memory
    ports carry the memory id. -/
inductive Op where
  | w | inv | and | or | xor | nand | add | sub | mul | lt | gt | eq | mux
  | concat
  | select (idx : List Nat)
  | reg
  | mread (m : Nat)
  | mwrite (m : Nat)
  deriving Repr, DecidableEq, Inhabited

structure Net where
  op    : Op
  args  : List Nat
  dests : List Nat
  deriving Repr, DecidableEq, Inhabited

/-- A memory.  `rom = some tbl` for a `RomBlock` whose data (list, dict or function) has been
    tabulated as `(address, value)` pairs; addresses absent from the table are *not defined*
    (`pad_with_zeros` tabulates explicit zeros). -/
structure Mem where
  id     : Nat
  addrW  : Nat
  dataW  : Nat
  rom    : Option (List (Nat × Nat))
  async  : Bool
  deriving Repr, DecidableEq, Inhabited

structure Block where
  wires : Array Wire
  nets  : List Net
  mems  : List Mem
  deriving Repr, Inhabited

namespace Block

def wire (b : Block) (i : Nat) : Wire := b.wires.getD i ⟨"", 0, .plain⟩
def width (b : Block) (i : Nat) : Nat := (b.wire i).width
def kind (b : Block) (i : Nat) : Kind := (b.wire i).kind
def mem? (b : Block) (m : Nat) : Option Mem := b.mems.find? (·.id == m)

end Block

def Net.dest (n : Net) : Nat := n.dests.headD 0

def Op.isComb : Op → Bool
  | .reg | .mwrite _ => false
  | _ => true

/-- Nets that compute a value within the cycle (everything but `r` and `@`). -/
def Block.combNets (b : Block) : List Net := b.nets.filter (·.op.isComb)

end Pyrtl
