/-!
# Python `int` semantics on Lean `Int`

CPython integers are unbounded two's-complement for the purpose of `& | ^ ~ << >>`.
The operations are defined here by cases on the sign, exactly as CPython behaves
(`~x = -x-1`; a negative operand is an infinite string of leading ones).
No Mathlib.
-/
namespace Pyrtl

/-- Python `~x`. -/
def pyNot (x : Int) : Int := -x - 1

/-- Python `x & y`. -/
def pyAnd : Int → Int → Int
  | .ofNat a,   .ofNat b   => ((a &&& b : Nat) : Int)
  | .ofNat a,   .negSucc b => ((a - (a &&& b) : Nat) : Int)
  | .negSucc a, .ofNat b   => ((b - (b &&& a) : Nat) : Int)
  | .negSucc a, .negSucc b => .negSucc (a ||| b)

/-- Python `x | y`. -/
def pyOr : Int → Int → Int
  | .ofNat a,   .ofNat b   => ((a ||| b : Nat) : Int)
  | .ofNat a,   .negSucc b => .negSucc (b - (b &&& a))
  | .negSucc a, .ofNat b   => .negSucc (a - (a &&& b))
  | .negSucc a, .negSucc b => .negSucc (a &&& b)

/-- Python `x ^ y`. -/
def pyXor : Int → Int → Int
  | .ofNat a,   .ofNat b   => ((a ^^^ b : Nat) : Int)
  | .ofNat a,   .negSucc b => .negSucc (a ^^^ b)
  | .negSucc a, .ofNat b   => .negSucc (a ^^^ b)
  | .negSucc a, .negSucc b => ((a ^^^ b : Nat) : Int)

/-- Python `x << n` for `n ≥ 0` (a negative count raises in Python; callers never do that). -/
def pyShl (x : Int) (n : Int) : Int := x * (2 ^ n.toNat : Int)

/-- Python `x >> n` for `n ≥ 0`: floor division by `2^n`. -/
def pyShr (x : Int) (n : Int) : Int := x / (2 ^ n.toNat : Int)

/-- Python `int(b)` for a bool. -/
def pyOfBool (b : Bool) : Int := if b then 1 else 0

/-- `(1 << w) - 1` as an `Int`. -/
def mask (w : Nat) : Int := ((2 ^ w - 1 : Nat) : Int)

/-- number of binary digits of a natural number, with `bitLen 0 = 0` (Python `int.bit_length`). -/
def bitLen (n : Nat) : Nat := if n = 0 then 0 else Nat.log2 n + 1

/-- Python `len(bin(x)) - 2`: for `x ≥ 0` the digits of `x` (one digit for 0); for `x < 0`
    the sign character is counted too. -/
def pyBinLenMinus2 (x : Int) : Int :=
  match x with
  | .ofNat 0 => 1
  | .ofNat n => (bitLen n : Int)
  | .negSucc n => (bitLen (n + 1) : Int) + 1

/-- Python `len(bin(x))` -/
def pyBinLen (x : Int) : Int := pyBinLenMinus2 x + 2

/-- Python `abs(x)` -/
def pyAbs (x : Int) : Int := ((Int.natAbs x : Nat) : Int)

/-- Python `x.bit_length()`: digits of `|x|`, 0 for 0 -/
def pyBitLength (x : Int) : Int := (bitLen (Int.natAbs x) : Int)

/-- sentinel standing for Python's `None` in integer-typed parameters (e.g. an omitted bitwidth) -/
def pyNone : Int := -1000000007

/-- Python floor division for a positive divisor. -/
def pyFloorDiv (x y : Int) : Int := Int.fdiv x y

/-- Python `%` (sign of the divisor). -/
def pyMod (x y : Int) : Int := Int.fmod x y

end Pyrtl
