import Model.Core.Netlist
/-!
# Specification semantics of the netlist IR

Written from the `LogicNet` docstring table and the `Simulation` class docstring, not from the
simulator code: every combinational primitive is its integer function of the argument values
truncated to the destination bitwidth; registers latch at the cycle boundary; memory reads see the
content at the start of the cycle; enabled writes land at the end of the cycle.
No Mathlib.
-/
namespace Pyrtl

abbrev Env := Nat → Nat

def upd (e : Env) (k v : Nat) : Env := fun x => if x = k then v else e x

namespace Spec

/-- bit `i` of `a` (0 or 1). -/
def bit (a i : Nat) : Nat := (a / 2 ^ i) % 2

/-- `c`: the first argument is the most significant.  Pairs are `(width, value)`. -/
def concatVal : List (Nat × Nat) → Nat → Nat
  | [], acc => acc
  | (w, v) :: rest, acc => concatVal rest (acc * 2 ^ w + v)

/-- `s`: `idx[0]` is bit 0 of the result. -/
def selectVal : List Nat → Nat → Nat
  | [], _ => 0
  | i :: rest, a => bit a i + 2 * selectVal rest a

/-- The documented integer function of each combinational primitive, truncated to the destination
    width `dw`.  `args` are `(width, value)` pairs.  Memory reads are handled by `netFun`. -/
def comb (op : Op) (args : List (Nat × Nat)) (dw : Nat) : Nat :=
  match op, args with
  | .w,    [(_, a)]          => a % 2 ^ dw
  | .inv,  [(_, a)]          => 2 ^ dw - 1 - a % 2 ^ dw
  | .and,  [(_, a), (_, b)]  => (a &&& b) % 2 ^ dw
  | .or,   [(_, a), (_, b)]  => (a ||| b) % 2 ^ dw
  | .xor,  [(_, a), (_, b)]  => (a ^^^ b) % 2 ^ dw
  | .nand, [(_, a), (_, b)]  => 2 ^ dw - 1 - (a &&& b) % 2 ^ dw
  | .add,  [(_, a), (_, b)]  => (a + b) % 2 ^ dw
  | .sub,  [(_, a), (_, b)]  => (((a : Int) - (b : Int)) % ((2 ^ dw : Nat) : Int)).toNat
  | .mul,  [(_, a), (_, b)]  => (a * b) % 2 ^ dw
  | .lt,   [(_, a), (_, b)]  => (if a < b then 1 else 0) % 2 ^ dw
  | .gt,   [(_, a), (_, b)]  => (if a > b then 1 else 0) % 2 ^ dw
  | .eq,   [(_, a), (_, b)]  => (if a = b then 1 else 0) % 2 ^ dw
  | .mux,  [(_, s), (_, f), (_, t)] => (if s = 0 then f else t) % 2 ^ dw
  | .concat, l               => concatVal l 0 % 2 ^ dw
  | .select idx, [(_, a)]    => selectVal idx a % 2 ^ dw
  | _, _ => 0

end Spec

/-- Architectural state between cycles. -/
structure State where
  regs : Nat → Nat            -- register wire id ↦ value
  mems : Nat → Nat → Nat      -- memory id ↦ address ↦ word

def romLookup (tbl : List (Nat × Nat)) (a : Nat) : Option Nat :=
  (tbl.find? (·.1 == a)).map (·.2)

/-- What a read port of memory `m` returns for address `a`. -/
def memRead (b : Block) (st : State) (m a : Nat) : Nat :=
  match b.mem? m with
  | some ⟨_, _, _, some tbl, _⟩ => (romLookup tbl a).getD 0
  | _ => st.mems m a

/-- The value a combinational net gives its destination, as a function of its argument values. -/
def netFun (b : Block) (st : State) (n : Net) (vals : List Nat) : Nat :=
  let dw := b.width n.dest
  match n.op with
  | .mread m => memRead b st m (vals.headD 0) % 2 ^ dw
  | op => Spec.comb op ((n.args.map b.width).zip vals) dw

/-- Values of the sources of a cycle: inputs, constants, registers. -/
def baseEnv (b : Block) (st : State) (inp : Env) : Env := fun i =>
  match b.kind i with
  | .input   => inp i
  | .const v => v
  | .reg _   => st.regs i
  | _        => 0

/-- Evaluate nets one after another: each destination gets `f net (argument values)`. -/
def evalSeq (f : Net → List Nat → Nat) : List Net → Env → Env
  | [], e => e
  | n :: ns, e => evalSeq f ns (upd e n.dest (f n (n.args.map e)))

/-- Evaluate combinational nets one after another in the given order. -/
def evalNets (b : Block) (st : State) : List Net → Env → Env := evalSeq (netFun b st)

def regNetOf (b : Block) (r : Nat) : Option Net :=
  b.nets.find? (fun n => n.op == .reg && n.dests == [r])

/-- Register values for the next cycle: the next-input of this cycle, truncated. -/
def nextRegs (b : Block) (env : Env) (st : State) : Nat → Nat := fun r =>
  match regNetOf b r with
  | some n => env (n.args.headD 0) % 2 ^ b.width r
  | none => st.regs r

/-- Apply the enabled write ports of this cycle, in list order. -/
def applyWrites (env : Env) : List Net → (Nat → Nat → Nat) → (Nat → Nat → Nat)
  | [], mm => mm
  | n :: ns, mm =>
    match n.op, n.args with
    | .mwrite m, [a, d, en] =>
      applyWrites env ns
        (if env en ≠ 0 then (fun m' a' => if m' = m ∧ a' = env a then env d else mm m' a') else mm)
    | _, _ => applyWrites env ns mm

def writeNets (b : Block) : List Net := b.nets.filter (fun n => match n.op with | .mwrite _ => true | _ => false)

/-- One clock cycle: the valuation of every wire, and the state for the next cycle. -/
def step (b : Block) (order : List Net) (st : State) (inp : Env) : Env × State :=
  let env := evalNets b st order (baseEnv b st inp)
  (env, { regs := nextRegs b env st, mems := applyWrites env (writeNets b) st.mems })

def run (b : Block) (order : List Net) : State → List Env → List Env
  | _, [] => []
  | st, inp :: rest =>
    let (env, st') := step b order st inp
    env :: run b order st' rest

/-- Initial state: `register_value_map`, else `reset_value`, else the default; memories:
    `memory_value_map`, else the default. -/
def initState (b : Block) (regMap : Nat → Option Nat) (memMap : Nat → Nat → Option Nat)
    (dflt : Nat) : State where
  regs := fun r =>
    match regMap r with
    | some v => v
    | none => match b.kind r with
      | .reg (some v) => v
      | _ => dflt
  mems := fun m a => (memMap m a).getD dflt

end Pyrtl
