import Std.Data.HashSet
import Model.Core.Spec
/-!
# Dependency orders

`Topo all ns done`: walking `ns`, every argument of a net is already computed (`done`) or is a
source (driven by no net of `all`), and no destination is produced twice.
`isTopo` is the executable checker; `topoSort` produces an order (or fails on a combinational cycle).
-/
namespace Pyrtl

def Topo (all : List Net) : List Net → List Nat → Prop
  | [],      _    => True
  | n :: ns, done => (∀ a ∈ n.args, a ∈ done ∨ ∀ m ∈ all, m.dest ≠ a) ∧ n.dest ∉ done
                      ∧ Topo all ns (n.dest :: done)

def isTopoFrom (driven : List Nat) : List Net → List Nat → Bool
  | [],      _    => true
  | n :: ns, done =>
    n.args.all (fun a => done.contains a || !driven.contains a) && !done.contains n.dest
      && isTopoFrom driven ns (n.dest :: done)

/-- Executable check that `order` is a dependency order of itself. -/
def isTopo (order : List Net) : Bool := isTopoFrom (order.map Net.dest) order []

/-- The same check with hash sets (linear time); `isTopoFast_eq` proves it equals `isTopo`. -/
def isTopoFastFrom (driven : Std.HashSet Nat) : List Net → Std.HashSet Nat → Bool
  | [],      _    => true
  | n :: ns, done =>
    n.args.all (fun a => done.contains a || !driven.contains a) && !done.contains n.dest
      && isTopoFastFrom driven ns (done.insert n.dest)

def isTopoFast (order : List Net) : Bool :=
  isTopoFastFrom (Std.HashSet.ofList (order.map Net.dest)) order {}

/-- One round of a simple Kahn scheduler: move every ready net (all args done or undriven). -/
def topoLoop (driven : List Nat) : Nat → List Net → List Nat → List Net → Option (List Net)
  | 0, [], _, acc => some acc.reverse
  | 0, _ :: _, _, _ => none
  | fuel + 1, pending, done, acc =>
    match pending.find? (fun n => n.args.all (fun a => done.contains a || !driven.contains a)) with
    | none => if pending.isEmpty then some acc.reverse else none
    | some n => topoLoop driven fuel (pending.erase n) (n.dest :: done) (n :: acc)

/-- A dependency order of the combinational nets of `b`, if the combinational graph is acyclic. -/
def topoSort (b : Block) : Option (List Net) :=
  let cn := b.combNets
  topoLoop (cn.map Net.dest) (cn.length + 1) cn [] []

end Pyrtl
