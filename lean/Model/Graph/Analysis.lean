import Model.Core.Topo
/-!
# Impl model of `TimingAnalysis._generate_timing_map`, `max_length`, `fanout` (analysis.py)

`for _gate in self.block:` visits the nets in a dependency order; each combinational net gives its
destination `max(timing of its args) + gate_delay`; sources (Input, Const, Register) are at 0.
Nets whose delay is negative (`r`, `@`) are skipped: they are the ends of the paths.
-/
namespace Pyrtl.Analysis
open Pyrtl

/-- the timing of a net's destination from the timings of its arguments -/
def delayFun (δ : Net → Nat) (n : Net) (vals : List Nat) : Nat := vals.foldl max 0 + δ n

/-- `timing_map` after visiting the combinational nets in `order` -/
def timingMap (δ : Net → Nat) (order : List Net) : Nat → Nat := evalSeq (delayFun δ) order (fun _ => 0)

/-- `max_length`: the largest timing over the given wires -/
def maxLength (t : Nat → Nat) (wires : List Nat) : Nat := (wires.map t).foldl max 0

/-- `fanout(w)`: the number of net argument positions reading `w` -/
def fanout (nets : List Net) (w : Nat) : Nat := (nets.flatMap (·.args)).count w

/-- a register-free path from a source to wire `w` whose gate delays sum to `d` -/
inductive Reach (δ : Net → Nat) (nets : List Net) : Nat → Nat → Prop where
  | src (w : Nat) (h : ∀ n ∈ nets, n.dest ≠ w) : Reach δ nets w 0
  | step (n : Net) (hn : n ∈ nets) (a : Nat) (ha : a ∈ n.args) (d : Nat) (h : Reach δ nets a d) :
      Reach δ nets n.dest (d + δ n)

end Pyrtl.Analysis
