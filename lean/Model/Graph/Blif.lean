/-!
# BLIF / Yosys-cell / ISCAS semantics (the specification side of C12)

Written from the BLIF format description (Berkeley, 1992: a `.names` cover is the OR of its rows, a row
is the AND of its non-`-` literals, an empty cover is constant 0) and the Yosys `simcells` definitions
of the fine-grained flip-flop cells, with asynchronous set/reset observed at clock edges (as the
property states).  No Mathlib.
-/
namespace Pyrtl.Blif

/-- a pin is active when its level equals the polarity (`true` = `P`) -/
def act (pol v : Bool) : Bool := v == pol

/-- next-state functions of the Yosys cell families, as functions of (D, E, S, R, Q) -/
def dff : Bool → Bool → Bool → Bool → Bool → Bool := fun d _ _ _ _ => d
def dffe (ep : Bool) : Bool → Bool → Bool → Bool → Bool → Bool := fun d e _ _ q => if act ep e then d else q
/-- `$_DFF_PP0_`-style (async reset) and `$_SDFF_*` (sync reset): reset wins, else D -/
def dffr (rp rv : Bool) : Bool → Bool → Bool → Bool → Bool → Bool := fun d _ _ r _ => if act rp r then rv else d
/-- `$_DFFE_PP0N_`-style and `$_SDFFE_*`: reset over enable -/
def dffre (rp rv ep : Bool) : Bool → Bool → Bool → Bool → Bool → Bool :=
  fun d e _ r q => if act rp r then rv else if act ep e then d else q
/-- `$_DFFSR_*`: reset over set over D -/
def dffsr (sp rp : Bool) : Bool → Bool → Bool → Bool → Bool → Bool :=
  fun d _ s r _ => if act rp r then false else if act sp s then true else d
def dffsre (sp rp ep : Bool) : Bool → Bool → Bool → Bool → Bool → Bool :=
  fun d e s r q => if act rp r then false else if act sp s then true else if act ep e then d else q
/-- `$_SDFFCE_*`: clock enable over sync reset -/
def sdffce (rp rv ep : Bool) : Bool → Bool → Bool → Bool → Bool → Bool :=
  fun d e _ r q => if act ep e then (if act rp r then rv else d) else q

/-- the positive-clock-edge cells by name (Yosys naming: `$_<family>_<polarities/values>_`).
    `$_DFFSR_PPP` is the importer's own spelling of `$_DFFSR_PPP_`. -/
def yosysCells : List (String × (Bool → Bool → Bool → Bool → Bool → Bool)) :=
  [("$_DFF_P_", dff),
   ("$_DFFE_PN_", dffe false), ("$_DFFE_PP_", dffe true),
   ("$_DFF_PN0_", dffr false false), ("$_DFF_PN1_", dffr false true),
   ("$_DFF_PP0_", dffr true false), ("$_DFF_PP1_", dffr true true),
   ("$_DFFE_PN0N_", dffre false false false), ("$_DFFE_PN0P_", dffre false false true),
   ("$_DFFE_PN1N_", dffre false true false), ("$_DFFE_PN1P_", dffre false true true),
   ("$_DFFE_PP0N_", dffre true false false), ("$_DFFE_PP0P_", dffre true false true),
   ("$_DFFE_PP1N_", dffre true true false), ("$_DFFE_PP1P_", dffre true true true),
   ("$_DFFSR_PPP_", dffsr true true), ("$_DFFSR_PPP", dffsr true true),
   ("$_DFFSR_PNP_", dffsr false true), ("$_DFFSR_PPN_", dffsr true false), ("$_DFFSR_PNN_", dffsr false false),
   ("$_DFFSRE_PPPN_", dffsre true true false), ("$_DFFSRE_PPPP_", dffsre true true true),
   ("$_DFFSRE_PNPN_", dffsre false true false), ("$_DFFSRE_PNPP_", dffsre false true true),
   ("$_DFFSRE_PPNN_", dffsre true false false), ("$_DFFSRE_PPNP_", dffsre true false true),
   ("$_DFFSRE_PNNN_", dffsre false false false), ("$_DFFSRE_PNNP_", dffsre false false true),
   ("$_SDFF_PN0_", dffr false false), ("$_SDFF_PN1_", dffr false true),
   ("$_SDFF_PP0_", dffr true false), ("$_SDFF_PP1_", dffr true true),
   ("$_SDFFE_PN0N_", dffre false false false), ("$_SDFFE_PN0P_", dffre false false true),
   ("$_SDFFE_PN1N_", dffre false true false), ("$_SDFFE_PN1P_", dffre false true true),
   ("$_SDFFE_PP0N_", dffre true false false), ("$_SDFFE_PP0P_", dffre true false true),
   ("$_SDFFE_PP1N_", dffre true true false), ("$_SDFFE_PP1P_", dffre true true true),
   ("$_SDFFCE_PN0N_", sdffce false false false), ("$_SDFFCE_PN0P_", sdffce false false true),
   ("$_SDFFCE_PN1N_", sdffce false true false), ("$_SDFFCE_PN1P_", sdffce false true true),
   ("$_SDFFCE_PP0N_", sdffce true false false), ("$_SDFFCE_PP0P_", sdffce true false true),
   ("$_SDFFCE_PP1N_", sdffce true true false), ("$_SDFFCE_PP1P_", sdffce true true true)]

def yosysNext (name : String) (d e s r q : Bool) : Option Bool :=
  (yosysCells.lookup name).map (fun f => f d e s r q)

/-! ## covers -/

/-- one literal of a row against the value of its input -/
def litMatches (c : Char) (x : Bool) : Bool :=
  if c = '-' then true else if c = '0' then !x else x

/-- a row matches when every literal does (positions beyond the shorter list are ignored) -/
def rowMatches : List Char → List Bool → Bool
  | c :: cs, x :: xs => litMatches c x && rowMatches cs xs
  | _, _ => true

/-- BLIF on-set cover: the output is 1 iff some row matches -/
def coverSem (rows : List (List Char)) (ins : List Bool) : Bool := rows.any (rowMatches · ins)

/-- what `extract_cover`'s generic branch builds: `rtl_any` over the rows of `rtl_all` over the
    non-`-` positions of `convert_val` (invert on '0') -/
def convertVal (c : Char) (x : Bool) : Bool := if c = '0' then !x else x
def genericRow (row : List Char) (ins : List Bool) : Bool :=
  ((row.zip ins).filter (fun p => p.1 != '-')).all (fun p => convertVal p.1 p.2)
def genericCover (rows : List (List Char)) (ins : List Bool) : Bool := rows.any (genericRow · ins)

/-- rows of a cover-token list `[in-plane, out-plane, in-plane, out-plane, …]`; a lone `["1"]` is the
    input-less constant-1 cover (one row with no literals) -/
def rowsOf : List String → List (List Char)
  | [_] => [[]]
  | i :: _ :: rest => i.toList :: rowsOf rest
  | [] => []

/-! ## ISCAS .bench gates (any number of sources) -/
def benchSem (g : String) (s : List Bool) : Option Bool :=
  if g = "AND" then some (s.all id)
  else if g = "OR" then some (s.any id)
  else if g = "NAND" then some (!s.all id)
  else if g = "NOR" then some (!s.any id)
  else if g = "XOR" then some (s.foldl xor false)
  else if g = "NOT" then s.head?.map (!·)
  else if g = "BUFF" then s.head?
  else none

end Pyrtl.Blif
