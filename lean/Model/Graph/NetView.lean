/-!
# What `sanity_check_net` looks at in a net

A flat view of one `LogicNet` (possibly malformed): op character, arities, bitwidths of the first
arguments and the first destination, op_param shape, and the class facts about its wires.
-/
namespace Pyrtl.Graph

structure NetView where
  op : String                 -- the op (a one-character string in every well-formed net)
  legal : Bool                -- `net.op in self.legal_ops`
  nargs : Nat
  ndests : Nat
  argw : List Nat             -- bitwidths of the arguments
  dw : Nat                    -- bitwidth of dests[0] (0 when there is none)
  sumw : Nat                  -- sum of argument bitwidths
  pnone : Bool                -- op_param is None
  ptuple : Bool               -- op_param is a tuple
  plen : Nat
  pvals : List Int            -- select indices
  memAW : Nat
  memDW : Nat
  foreign : Bool              -- some arg/dest is not a wire of this block
  destIsInputOrConst : Bool
  argIsOutput : Bool
  destIsReg : Bool
  deriving Repr

def NetView.aw (v : NetView) (i : Nat) : Nat := v.argw.getD i 0

/-- Python `net.op in 'abc'` (substring test; ops are single characters) -/
def opIn (s : String) (op : String) : Bool := op.length == 1 && (s.toList.contains (op.toList.headD ' '))

end Pyrtl.Graph
