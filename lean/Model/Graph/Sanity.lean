import Model.Graph.NetView
import Model.Gen.SanityTable
import Model.Core.Topo
/-!
# Impl model of `Block.sanity_check` + the acyclicity test of `Block.__iter__` (core.py:593-690)

Works on a *raw* block in which anything may be wrong: wires sharing a name, nets mentioning wires
that are not registered, wrong arities/widths/params.  `sanity_check_net` is `Gen.SanityTable`
(regenerated from the source); the block-level checks follow `sanity_check` in order.
-/
namespace Pyrtl.Graph
open Pyrtl Pyrtl.Gen.SanityTable

structure RawWire where
  name : String
  kind : String        -- "i" "o" "c" "r" "p"
  member : Bool        -- registered in wirevector_set of this block
  byname : Bool        -- wirevector_by_name[name] is this wire
  deriving Repr

structure RawNet where
  view : NetView
  args : List Nat
  dests : List Nat
  deriving Repr

structure RawBlock where
  wires : Array RawWire
  nets : List RawNet
  deriving Repr

inductive Verdict where
  | ok
  | reject (why : String)
  deriving Repr, DecidableEq

def isSource (b : RawBlock) (i : Nat) : Bool :=
  match b.wires[i]? with
  | some w => w.kind == "i" || w.kind == "c"
  | none => false

def hasDup : List String → Bool
  | [] => false
  | x :: xs => xs.contains x || hasDup xs

def hasDupNat : List Nat → Bool
  | [] => false
  | x :: xs => xs.contains x || hasDupNat xs

/-- the combinational part as plain nets, for the cycle test -/
def combNetsOf (b : RawBlock) : List Net :=
  (b.nets.filter fun n => n.view.op != "r" && n.view.op != "@").map fun n =>
    ⟨.w, n.args, n.dests⟩

def check (b : RawBlock) : Verdict :=
  if b.nets.any (fun n => netRejects n.view) then .reject "net" else
  let members := (List.range b.wires.size).filter fun i => (b.wires[i]?.map (·.member)).getD false
  let names := members.map fun i => (b.wires[i]?.map (·.name)).getD ""
  if hasDup names then .reject "duplicate-names" else
  let dests := b.nets.flatMap (·.dests)
  if hasDupNat dests then .reject "two-drivers" else
  let args := b.nets.flatMap (·.args)
  let connected := dests ++ args
  if connected.any (fun i => !members.contains i) then .reject "unknown-wire" else
  if members.any (fun i => !connected.contains i && !isSource b i) then .reject "unconnected" else
  if args.any (fun i => !dests.contains i && !isSource b i) then .reject "undriven" else
  if members.any (fun i => !((b.wires[i]?.map (·.byname)).getD false)) then .reject "by-name" else
  match topoLoop ((combNetsOf b).map Net.dest) ((combNetsOf b).length + 1) (combNetsOf b) [] [] with
  | some _ => .ok
  | none => .reject "comb-cycle"

end Pyrtl.Graph
