import Model.Pass.Synth
/-!
# Impl models of `rtllib.adders` (adders.py:7-135) on bit lists (LSB first)
-/
namespace Pyrtl.Adders
open Pyrtl.Synth

/-- zero-extend to length `n` (`match_bitwidth`) -/
def zext (l : List Bool) (n : Nat) : List Bool := l ++ List.replicate (n - l.length) false

/-! ### kogge_stone -/

/-- one `while` iteration with `prop_dist = d`: all positions updated from the values at the start
    of the iteration (the source iterates `i` downwards, so position `i - d` is still old). -/
def ksRound (d : Nat) (gen prop : List Bool) : List Bool × List Bool :=
  let n := gen.length
  let gen' := (List.range n).map fun i =>
    if i ≥ d then gen.getD i false || (prop.getD i false && gen.getD (i - d) false) else gen.getD i false
  let prop' := (List.range n).map fun i =>
    if i ≥ 2 * d then prop.getD i false && prop.getD (i - d) false else prop.getD i false
  (gen', prop')

def ksLoop : Nat → Nat → List Bool → List Bool → List Bool
  | 0, _, gen, _ => gen
  | fuel + 1, d, gen, prop =>
    if d < gen.length then
      let (g, p) := ksRound d gen prop
      ksLoop fuel (d * 2) g p
    else gen

/-- `kogge_stone(a, b, cin)`: `concat_list([cin] + gen_bits) ^ prop_orig` -/
def koggeStone (a b : List Bool) (cin : Bool) : List Bool :=
  let n := max a.length b.length
  let a := zext a n
  let b := zext b n
  let prop := List.zipWith xor a b
  let gen0 := List.zipWith (· && ·) a b
  -- gen_bits[0] = gen_bits[0] | (prop_bits[0] & cin)
  let gen := match gen0, prop with
    | g :: gs, p :: _ => (g || (p && cin)) :: gs
    | l, _ => l
  let g := ksLoop (n + 1) 1 gen prop
  List.zipWith xor (cin :: g) (prop ++ [false])

/-! ### ripple_add -/

def rippleHalfAdd : List Bool → Bool → List Bool
  | [], c => [c]
  | [x], c => [xor x c, x && c]
  | x :: xs, c => xor x c :: rippleHalfAdd xs (x && c)

/-- `ripple_add(a, b, cin)` with `a` the longer operand (the source swaps otherwise) -/
def rippleAddL : List Bool → List Bool → Bool → List Bool
  | [x], [y], c => [(oneBitAdd x y c).1, (oneBitAdd x y c).2]
  | x :: xs, [y], c => (oneBitAdd x y c).1 :: rippleHalfAdd xs (oneBitAdd x y c).2
  | x :: xs, y :: ys, c => (oneBitAdd x y c).1 :: rippleAddL xs ys (oneBitAdd x y c).2
  | xs, [], c => rippleHalfAdd xs c
  | [], _, c => [c]

def rippleAdd (a b : List Bool) (c : Bool) : List Bool :=
  if a.length < b.length then rippleAddL b a c else rippleAddL a b c

/-! ### cla_adder -/

/-- `_cla_adder_unit`: (sum bits, cout); `cout = cur_gen | cur_prop & cin` (look-ahead) -/
def claUnit (a b : List Bool) (cin : Bool) : List Bool × Bool :=
  let gen := List.zipWith (· && ·) a b
  let prop := List.zipWith xor a b
  match gen, prop with
  | g0 :: gs, p0 :: ps =>
    let step := fun (st : List Bool × Bool × Bool × Bool) (gp : Bool × Bool) =>
      let (sums, carry, curGen, curProp) := st
      let (g, p) := gp
      (sums ++ [xor p carry], g || (p && carry), g || (p && curGen), curProp && p)
    let (sums, _, curGen, curProp) := (gs.zip ps).foldl step ([xor p0 cin], g0 || (p0 && cin), g0, p0)
    (sums, curGen || (curProp && cin))
  | _, _ => ([], cin)

def claLoop : Nat → Nat → List Bool → List Bool → Bool → List Bool
  | 0, _, _, _, c => [c]
  | fuel + 1, ul, a, b, c =>
    if a.length ≤ ul then
      let (s, co) := claUnit a b c
      s ++ [co]
    else
      let (s, co) := claUnit (a.take ul) (b.take ul) c
      s ++ claLoop fuel ul (a.drop ul) (b.drop ul) co

def claAdder (a b : List Bool) (cin : Bool) (ul : Nat) : List Bool :=
  let n := max a.length b.length
  claLoop (n + 1) ul (zext a n) (zext b n) cin

end Pyrtl.Adders
