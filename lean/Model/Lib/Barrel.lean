/-!
# Impl model of `rtllib.barrel.barrel_shifter` (barrel.py:5-43)

Bit vectors are `List Bool`, LSB first.  `concat(x, y)` puts `x` in the most significant position,
so as an LSB-first list it is `y ++ x`; `val[:-k]` is `val.take (W-k)`, `val[k:]` is `val.drop k`,
`v[:W]` is `v.take W`.
-/
namespace Pyrtl.Barrel

/-- one loop iteration: returns the new `(val, append_val)` -/
def stage (W : Nat) (dir : Bool) (i : Nat) (sel : Bool) (st : List Bool × List Bool) :
    List Bool × List Bool :=
  let (val, av) := st
  let amt := 2 ^ i
  if amt < W then
    let up := av ++ val.take (W - amt)          -- concat(val[:-amt], append_val)
    let down := val.drop amt ++ av              -- concat(append_val, val[amt:])
    let newval := if dir then up else down      -- select(direction, up, down)
    (if sel then newval else val, (av ++ av).take W)
  else
    (if sel then av else val, av)

def loop (W : Nat) (dir : Bool) : Nat → List Bool → List Bool × List Bool → List Bool × List Bool
  | _, [], st => st
  | i, sel :: rest, st => loop W dir (i + 1) rest (stage W dir i sel st)

/-- `barrel_shifter(bits_to_shift, bit_in, direction, shift_dist)`; `shift_dist` LSB first -/
def barrelShifter (bits : List Bool) (bitIn dir : Bool) (shiftDist : List Bool) : List Bool :=
  (loop bits.length dir 0 shiftDist (bits, [bitIn])).1

/-- specification, bit by bit: output bit `j` of a shift by `s` positions filling with `bitIn`
    (`dir = true` shifts up/left, `false` down/right) -/
def shiftBit (bits : List Bool) (bitIn dir : Bool) (s j : Nat) : Bool :=
  if dir then (if j < s then bitIn else bits.getD (j - s) bitIn) else bits.getD (j + s) bitIn

def shiftSpec (bits : List Bool) (bitIn dir : Bool) (s : Nat) : List Bool :=
  (List.range bits.length).map (shiftBit bits bitIn dir s)

def dist : List Bool → Nat
  | [] => 0
  | b :: bs => (if b then 1 else 0) + 2 * dist bs

end Pyrtl.Barrel
