/-!
# FIPS-197 (AES) — the specification side, written from the standard

GF(2^8) with the polynomial x^8 + x^4 + x^3 + x + 1 (0x11b): `xtime`, multiplication by
shift-and-add, inversion as `a^254`, the S-box as affine transformation of the inverse.
-/
namespace Pyrtl.Fips197

/-- multiplication by `x` (FIPS-197 §4.2.1) -/
def xtime (a : Nat) : Nat :=
  let b := a * 2
  if b ≥ 256 then (b ^^^ 0x11b) else b

/-- GF(2^8) product, by the 8 bits of `b` -/
def gmulAux : Nat → Nat → Nat → Nat → Nat
  | 0, _, _, acc => acc
  | k + 1, a, b, acc => gmulAux k (xtime a) (b / 2) (if b % 2 = 1 then acc ^^^ a else acc)

def gmul (a b : Nat) : Nat := gmulAux 8 a b 0

def gpow (a : Nat) : Nat → Nat
  | 0 => 1
  | n + 1 => gmul a (gpow a n)

/-- multiplicative inverse, with 0 ↦ 0 (§5.1.1) -/
def ginv (a : Nat) : Nat := gpow a 254

def bit (x i : Nat) : Nat := (x / 2 ^ i) % 2

/-- the affine transformation of §5.1.1 (equation 5.1), constant 0x63 -/
def affine (x : Nat) : Nat :=
  (List.range 8).foldl (fun acc i =>
    acc + 2 ^ i * ((bit x i + bit x ((i + 4) % 8) + bit x ((i + 5) % 8) + bit x ((i + 6) % 8)
      + bit x ((i + 7) % 8) + bit 0x63 i) % 2)) 0

def sbox (a : Nat) : Nat := affine (ginv a)

/-- round constants: `rcon i = x^(i-1)` -/
def rcon : Nat → Nat
  | 0 => 0
  | 1 => 1
  | n + 1 => xtime (rcon n)

end Pyrtl.Fips197
