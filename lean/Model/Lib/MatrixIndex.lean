/-!
# `Matrix.__setitem__` / `__getitem__`: an integer index on one axis (rtllib/matrix.py)

`m[k, j] = v` turns the integer `k` into the slice `k : k+1` (`k : end` for `k = -1`, which has no "next" negative
index), replaces negative bounds by `n - |bound|` and refuses bounds outside `0..n`.  `cellSlice n k` is the pair of
bounds that is left, `none` where the code raises.  `cellSliceOld` is the function before the repair 7a54e23
(`k : k+1` for every `k`).  No Mathlib.
-/
namespace Pyrtl.MatrixIndex

/-- negative bounds count from the end: `self.rows - abs(bound)` -/
def normBound (n : Nat) (b : Int) : Int := if b < 0 then (n : Int) - (-b) else b

/-- the bounds check of `__setitem__` -/
def checked (n : Nat) (start stop : Int) : Option (Int × Int) :=
  if start > n ∨ stop > n ∨ start < 0 ∨ stop < 0 then none else some (start, stop)

def cellSlice (n : Nat) (k : Int) : Option (Int × Int) :=
  checked n (normBound n k) (if k = -1 then (n : Int) else normBound n (k + 1))

def cellSliceOld (n : Nat) (k : Int) : Option (Int × Int) :=
  checked n (normBound n k) (normBound n (k + 1))

end Pyrtl.MatrixIndex
