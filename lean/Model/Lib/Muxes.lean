/-!
# Impl models of `mux` (corecircuits.py), `demux`, `prioritized_mux` (rtllib/muxes.py)

Index / select wires are given most-significant bit first (the Python code recurses on `index[-1]`,
the most significant bit, and passes `index[0:-1]` down).  The Python base case is a 1-bit index
(`select(index, ins[0], ins[1])`); here the recursion bottoms out one level later with a single
input, which is the same function.
-/
namespace Pyrtl.Muxes

def b2n (b : Bool) : Nat := if b then 1 else 0

/-- value of an MSB-first bit list -/
def valMsb : List Bool → Nat
  | [] => 0
  | b :: rest => b2n b * 2 ^ rest.length + valMsb rest

/-- `mux(index, *mux_ins)`: `select(index[-1], falsecase=mux(index[:-1], lower half), truecase=…upper half)` -/
def muxMsb : List Bool → List Nat → Nat
  | [], ins => ins.headD 0
  | b :: rest, ins =>
    let half := ins.length / 2
    muxMsb rest (if b then ins.drop half else ins.take half)

/-- with the `default=` padding of the input list up to `2^len(index)` entries -/
def mux (idxMsb : List Bool) (ins : List Nat) (dflt : Nat) : Nat :=
  muxMsb idxMsb (ins ++ List.replicate (2 ^ idxMsb.length - ins.length) dflt)

/-- `demux(select)`: `zero_wires + one_wires` -/
def demuxMsb : List Bool → List Bool
  | [] => [true]
  | b :: rest =>
    let ws := demuxMsb rest
    ws.map (fun w => !b && w) ++ ws.map (fun w => b && w)

/-- `prioritized_mux(selects, vals)`: halves, `rtl_any` of the first half decides -/
def prioritizedMux : Nat → List Bool → List Nat → Nat
  | 0, _, vals => vals.headD 0
  | fuel + 1, sels, vals =>
    if vals.length ≤ 1 then vals.headD 0
    else
      let half := vals.length / 2
      if (sels.take half).any id then prioritizedMux fuel (sels.take half) (vals.take half)
      else prioritizedMux fuel (sels.drop half) (vals.drop half)

end Pyrtl.Muxes
