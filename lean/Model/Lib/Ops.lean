import Model.Core.Spec
/-!
# Impl models of the WireVector operators and core helpers (wire.py, corecircuits.py)

A signal is `(width, value)`.  Every function composes the primitive nets exactly as the Python
code does (`match_bitwidth` by zero/sign extension, the result-length rule of `_two_var_op`,
`_extend_with_bit` as an `s` net repeating the extension bit followed by a `c` net, the signed
helpers, constant shifts).
-/
namespace Pyrtl.Ops
open Pyrtl

abbrev Sig := Nat × Nat

def msb (s : Sig) : Nat := Spec.bit s.2 (s.1 - 1)

/-- `_extend_with_bit(bitwidth, extbit)`: `concat(s-net repeating extbit numext times, self)` -/
def extendWithBit (s : Sig) (bitwidth extbit : Nat) : Sig :=
  let numext := bitwidth - s.1
  if numext = 0 then s
  else
    let extv : Sig := (numext, Spec.comb (.select (List.replicate numext 0)) [(1, extbit)] numext)
    (numext + s.1, Spec.comb .concat [extv, s] (numext + s.1))

def zeroExtended (s : Sig) (bitwidth : Nat) : Sig := extendWithBit s bitwidth 0
def signExtended (s : Sig) (bitwidth : Nat) : Sig := extendWithBit s bitwidth (msb s)

/-- `_two_var_op`: zero-extend to the longer operand, result length by op -/
def twoVarOp (op : Op) (a b : Sig) : Sig :=
  let w := max a.1 b.1
  let a' := zeroExtended a w
  let b' := zeroExtended b w
  let rl := match op with
    | .add | .sub => w + 1
    | .mul => w * 2
    | .lt | .gt | .eq => 1
    | _ => w
  (rl, Spec.comb op [a', b'] rl)

def inv (a : Sig) : Sig := (a.1, Spec.comb .inv [a] a.1)

/-- `wire[:n]` (the low `n` bits) as an `s` net -/
def lowBits (a : Sig) (n : Nat) : Sig := (n, Spec.comb (.select (List.range n)) [a] n)

/-- `signed_add`: sign-extend both to `max+1`, add, keep `max+1` bits -/
def signedAdd (a b : Sig) : Sig :=
  let w := max a.1 b.1
  let a1 := signExtended a w
  let b1 := signExtended b w
  let rl := w + 1
  lowBits (twoVarOp .add (signExtended a1 rl) (signExtended b1 rl)) rl

/-- `signed_mult`: sign-extend both to `len(a)+len(b)`, multiply, keep that many bits -/
def signedMult (a b : Sig) : Sig :=
  let fl := a.1 + b.1
  lowBits (twoVarOp .mul (signExtended a fl) (signExtended b fl)) fl

/-- `signed_lt`: `r = a - b` on sign-matched operands; `r[-1] ^ ~a[-1] ^ ~b[-1]` -/
def signedLt (a b : Sig) : Nat :=
  let w := max a.1 b.1
  let a1 := signExtended a w
  let b1 := signExtended b w
  let r := twoVarOp .sub a1 b1
  (msb r + (1 - msb a1) + (1 - msb b1)) % 2

/-- two's-complement reading of a signal -/
def toSigned (s : Sig) : Int := if msb s = 1 then (s.2 : Int) - (2 ^ s.1 : Nat) else (s.2 : Int)

/-- `shift_left_logical(bits, k)` for an integer `k`: `concat(bits[:-k], Const(0, k))` -/
def shiftLeftConst (a : Sig) (k : Nat) : Sig :=
  let hi := lowBits a (a.1 - k)
  (a.1, Spec.comb .concat [hi, (k, 0)] a.1)

/-- `shift_right_logical(bits, k)` for an integer `k`: `concat(Const(0, k), bits[k:])` -/
def shiftRightConst (a : Sig) (k : Nat) : Sig :=
  let hi : Sig := (a.1 - k, Spec.comb (.select ((List.range (a.1 - k)).map (· + k))) [a] (a.1 - k))
  (a.1, Spec.comb .concat [(k, 0), hi] a.1)

end Pyrtl.Ops

namespace Pyrtl.Ops
/-- `rtllib.multipliers._twos_comp_conditional(w, sign)`: `~w + 1` kept in `len(w)` bits when `sign`, else `w` -/
def twosCompCond (x : Sig) (s : Bool) : Sig :=
  if s then (x.1, (2 ^ x.1 - 1 - x.2 + 1) % 2 ^ x.1) else x

/-- `rtllib.multipliers.signed_tree_multiplier(A, B)` over an unsigned multiplier `mul` (the tree multiplier) -/
def signedTreeMult (mul : Sig → Sig → Sig) (A B : Sig) : Sig :=
  let aneg := msb A == 1
  let bneg := msb B == 1
  let res := zeroExtended (mul (twosCompCond A aneg) (twosCompCond B bneg)) (A.1 + B.1)
  twosCompCond res (aneg != bneg)
end Pyrtl.Ops
