/-!
# `rtllib.prngs.prng_lfsr`: 127-bit Fibonacci LFSR (taps 126/125) with leap-ahead

Register-level model.  The register is `W = max 127 bitwidth` bits wide.  The netlist builds
`leap_ahead` by `bitwidth` iterations of `concat(leap_ahead, leap_ahead[125] ^ leap_ahead[126])`
(the vector grows by one bit per iteration, nothing is dropped) and the register assignment keeps
the low `W` bits.  `load` has priority over `req` (first branch of the conditional assignment).
-/
namespace Pyrtl.Prng

/-- feedback bit: tap 125 xor tap 126 -/
def fb (x : Nat) : Nat := (x.testBit 125 != x.testBit 126).toNat

/-- `concat(y, y[125] ^ y[126])` on an unbounded vector -/
def grow1 (y : Nat) : Nat := 2 * y + fb y

/-- `n` iterations of the netlist's leap-ahead loop (no truncation) -/
def grow : Nat → Nat → Nat
  | 0, x => x
  | n + 1, x => grow1 (grow n x)

/-- register width -/
def regW (bw : Nat) : Nat := if bw < 127 then 127 else bw

/-- one clock edge of `prng_lfsr(bw, load, req, seed)` -/
def lfsrStep (bw : Nat) (st : Nat) (load req : Bool) (seed : Nat) : Nat :=
  if load then seed
  else if req then grow bw st % 2 ^ regW bw
  else st

/-- the `rand` output during a cycle -/
def lfsrOut (bw st : Nat) : Nat := st % 2 ^ bw

/-- the outputs visible during each cycle of a history `(load, req, seed)` -/
def lfsrTrace (bw : Nat) : Nat → List (Bool × Bool × Nat) → List Nat
  | _, [] => []
  | st, i :: rest => lfsrOut bw st :: lfsrTrace bw (lfsrStep bw st i.1 i.2.1 i.2.2) rest

/-! ## The published algorithm: a `W`-bit Fibonacci LFSR stepped one bit at a time -/

/-- one LFSR step in a `w`-bit register: shift left by one, feed back tap125 xor tap126 -/
def step1 (w x : Nat) : Nat := (2 * x + fb x) % 2 ^ w

def iter (f : Nat → Nat) : Nat → Nat → Nat
  | 0, x => x
  | n + 1, x => f (iter f n x)

/-- specification of a history: every load pulse reseeds, a request (without load) leaps `bw` single
    steps, otherwise the state holds -/
def specStep (bw : Nat) (st : Nat) (load req : Bool) (seed : Nat) : Nat :=
  if load then seed else if req then iter (step1 (regW bw)) bw st else st

end Pyrtl.Prng
