/-!
# Sequential shift-and-add multipliers (`rtllib.multipliers.simple_mult`, `complex_mult`)

Register-level model.  `alen`/`blen` are `len(A)`/`len(B)`; `s` is the number of bits consumed per
cycle (`simple_mult`: 1, `complex_mult`: `shifts`).  Registers: `a` (`alen` bits), `b` and `acc`
(`alen + blen` bits).  One call of `step` is one clock edge of

```
with start:   areg.next |= A;  breg.next |= B;  accum.next |= 0
with ~done:   areg.next |= areg >> s;  breg.next |= breg << s   (truncated to its width)
              accum.next |= accum + Σ_{i<s} areg[i] * (breg << i)   (truncated to its width)
```
with `done = (areg == 0)`.  The sum over the low `s` bits of `areg` is `(a % 2^s) * b`.
-/
namespace Pyrtl.SeqMult

structure St where
  a : Nat
  b : Nat
  acc : Nat
deriving Repr, DecidableEq, Inhabited

/-- reset state: all registers 0 -/
def init : St := ⟨0, 0, 0⟩

/-- the `done` output -/
def done (st : St) : Bool := st.a == 0

/-- one clock edge -/
def step (alen blen s : Nat) (st : St) (start : Bool) (A B : Nat) : St :=
  if start then ⟨A, B, 0⟩
  else if st.a ≠ 0 then
    ⟨st.a / 2 ^ s, (st.b * 2 ^ s) % 2 ^ (alen + blen), (st.acc + (st.a % 2 ^ s) * st.b) % 2 ^ (alen + blen)⟩
  else st

/-- cycles with `start = 0`; the operand inputs may do anything (they are not looked at) -/
def idle (alen blen s : Nat) (st : St) (ops : List (Nat × Nat)) : St :=
  ops.foldl (fun st ab => step alen blen s st false ab.1 ab.2) st

/-- a whole input history `(start, A, B)` per cycle; returns the state after it -/
def run (alen blen s : Nat) (st : St) (ins : List (Bool × Nat × Nat)) : St :=
  ins.foldl (fun st i => step alen blen s st i.1 i.2.1 i.2.2) st

/-- the values visible during each cycle (before that cycle's clock edge): `(accum, done)` -/
def trace (alen blen s : Nat) : St → List (Bool × Nat × Nat) → List (Nat × Bool)
  | _, [] => []
  | st, i :: rest => (st.acc, done st) :: trace alen blen s (step alen blen s st i.1 i.2.1 i.2.2) rest

end Pyrtl.SeqMult
