import Model.Pass.Synth
import Model.Lib.Adders
/-!
# `rtllib.adders.wallace_reducer`, `fast_group_adder`, `rtllib.multipliers.tree_multiplier`

`wire_array_2` is a list of columns (column `i` holds one-bit wires of weight `2^i`).  The reduction
loop is the one `corecircuits._basic_mult` copies (`Synth.reducePass` / `Synth.reduceLoop`: full adders
on triples from the front of a column, a half adder on a remaining pair, carries deferred to the next
column, `deferred[:result_bitwidth]`); `_sparse_adder` then passes the low single-bit columns through
and adds the rest with the final adder; the result is cut to `result_bitwidth` if it is longer.

Domain: `len(wire_array_2) ≤ result_bitwidth` (true of every caller in rtllib).
-/
namespace Pyrtl.Adders
open Pyrtl.Synth

def maxHeight : List (List Bool) → Nat
  | [] => 0
  | c :: cs => max c.length (maxHeight cs)

/-- columns of weight `len(cols) .. W-1` exist in `deferred` and are empty -/
def padCols (cols : List (List Bool)) (W : Nat) : List (List Bool) :=
  cols ++ List.replicate (W - cols.length) []

/-- `_sparse_adder(wire_array_2, adder)` (LSB first) -/
def sparseAdd (adder : List Bool → List Bool → List Bool) : List (List Bool) → List Bool
  | [] => []
  | c :: cs =>
    if c.length == 2 then
      adder ((c :: cs).map (·.getD 0 false)) ((c :: cs).map (·.getD 1 false))
    else c.getD 0 false :: sparseAdd adder cs

/-- `wallace_reducer(wire_array_2, result_bitwidth, final_adder)`; the `while` loop runs until every
    column has at most two wires, which takes at most (tallest column) passes -/
def wallaceReducer (adder : List Bool → List Bool → List Bool) (cols : List (List Bool)) (W : Nat) : List Bool :=
  let red := if allLe2 cols then cols else reduceLoop (maxHeight cols + 1) (padCols cols W)
  let r := sparseAdd adder red
  if r.length > W then r.take W else r

/-- `for bit_loc, bit in enumerate(wire): bits[bit_loc].append(bit)` -/
def pushWire : List (List Bool) → List Bool → List (List Bool)
  | c :: cs, b :: bs => (c ++ [b]) :: pushWire cs bs
  | cs, _ => cs

def maxLen : List (List Bool) → Nat
  | [] => 0
  | w :: ws => max w.length (maxLen ws)

/-- the smallest `k` with `n ≤ 2^k` (`ceil(log2 n)`) -/
def clog2 (n : Nat) : Nat := ((List.range (n + 1)).find? (fun k => n ≤ 2 ^ k)).getD n

/-- `fast_group_adder(wires_to_add, wallace_reducer, final_adder)` -/
def fastGroupAdder (adder : List Bool → List Bool → List Bool) (ws : List (List Bool)) : List Bool :=
  let L := maxLen ws
  wallaceReducer adder (ws.foldl pushWire (List.replicate L [])) (L + clog2 ws.length)

/-- `tree_multiplier(A, B, wallace_reducer, adder)` including the `_trivial_mult` shortcut -/
def treeMultiplier (adder : List Bool → List Bool → List Bool) (A B : List Bool) : List Bool :=
  let (A, B) := if B.length == 1 then (B, A) else (A, B)
  if A.length == 1 then (B.map (A.headD false && ·)) ++ [false]
  else wallaceReducer adder (partials A B) (A.length + B.length)

end Pyrtl.Adders
