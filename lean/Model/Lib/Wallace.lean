import Model.Pass.Synth
import Model.Lib.Adders
/-!
# `rtllib.adders.wallace_reducer`, `fast_group_adder`, `rtllib.multipliers.tree_multiplier`

`wire_array_2` is a list of columns (column `i` holds one-bit wires of weight `2^i`).  The reduction
loop is the one `corecircuits._basic_mult` copies (`Synth.reducePass` / `Synth.reduceLoop`: full adders
on triples from the front of a column, a half adder on a remaining pair, carries deferred to the next
column, `deferred[:result_bitwidth]`); `_sparse_adder` then passes the low single-bit columns through
and adds the rest with the final adder; the result is cut to `result_bitwidth` if it is longer.

Domain: `len(wire_array_2) ≤ result_bitwidth` (true of every caller in rtllib).
-/
namespace Pyrtl.Adders
open Pyrtl.Synth

def maxHeight : List (List Bool) → Nat
  | [] => 0
  | c :: cs => max c.length (maxHeight cs)

/-- columns of weight `len(cols) .. W-1` exist in `deferred` and are empty -/
def padCols (cols : List (List Bool)) (W : Nat) : List (List Bool) :=
  cols ++ List.replicate (W - cols.length) []

/-- `_sparse_adder(wire_array_2, adder)` (LSB first) -/
def sparseAdd (adder : List Bool → List Bool → List Bool) : List (List Bool) → List Bool
  | [] => []
  | c :: cs =>
    if c.length == 2 then
      adder ((c :: cs).map (·.getD 0 false)) ((c :: cs).map (·.getD 1 false))
    else c.getD 0 false :: sparseAdd adder cs

/-- `wallace_reducer(wire_array_2, result_bitwidth, final_adder)`; the `while` loop runs until every
    column has at most two wires, which takes at most (tallest column) passes -/
def wallaceReducer (adder : List Bool → List Bool → List Bool) (cols : List (List Bool)) (W : Nat) : List Bool :=
  let red := if allLe2 cols then cols else reduceLoop (maxHeight cols + 1) (padCols cols W)
  let r := sparseAdd adder red
  if r.length > W then r.take W else r

/-- `for bit_loc, bit in enumerate(wire): bits[bit_loc].append(bit)` -/
def pushWire : List (List Bool) → List Bool → List (List Bool)
  | c :: cs, b :: bs => (c ++ [b]) :: pushWire cs bs
  | cs, _ => cs

def maxLen : List (List Bool) → Nat
  | [] => 0
  | w :: ws => max w.length (maxLen ws)

/-- the smallest `k` with `n ≤ 2^k` (`ceil(log2 n)`) -/
def clog2 (n : Nat) : Nat := ((List.range (n + 1)).find? (fun k => n ≤ 2 ^ k)).getD n

/-- `fast_group_adder(wires_to_add, wallace_reducer, final_adder)` -/
def fastGroupAdder (adder : List Bool → List Bool → List Bool) (ws : List (List Bool)) : List Bool :=
  let L := maxLen ws
  wallaceReducer adder (ws.foldl pushWire (List.replicate L [])) (L + clog2 ws.length)

/-- `tree_multiplier(A, B, wallace_reducer, adder)` including the `_trivial_mult` shortcut -/
def treeMultiplier (adder : List Bool → List Bool → List Bool) (A B : List Bool) : List Bool :=
  let (A, B) := if B.length == 1 then (B, A) else (A, B)
  if A.length == 1 then (B.map (A.headD false && ·)) ++ [false]
  else wallaceReducer adder (partials A B) (A.length + B.length)

/-- `for i, a in enumerate(mult_a): for j, b in enumerate(mult_b): bits[i + j].append(a & b)` -/
def pushProd (cols : List (List Bool)) (ab : List Bool × List Bool) : List (List Bool) :=
  (ab.1.zipIdx).foldl (fun cols (a, i) =>
    (ab.2.zipIdx).foldl (fun cols (b, j) => colPush cols (i + j) (a && b)) cols) cols

def maxList : List Nat → Nat
  | [] => 0
  | x :: xs => max x (maxList xs)

/-- Python's `n.bit_length()`: the smallest `k` with `n < 2^k` -/
def bitLength (n : Nat) : Nat := ((List.range (n + 1)).find? (fun k => n < 2 ^ k)).getD n

/-- `generalized_fma(mult_pairs, add_wires, signed=False, wallace_reducer, adder)`;
    `fused_multiply_adder(a, b, c)` is `generalized_fma([(a, b)], [c])` -/
def generalizedFma (adder : List Bool → List Bool → List Bool)
    (pairs : List (List Bool × List Bool)) (adds : List (List Bool)) : List Bool :=
  let multMax := maxList (pairs.map fun p => p.1.length + p.2.length - 1)
  let addMax := maxList (adds.map List.length)
  let L := max addMax multMax
  let cols := adds.foldl pushWire (pairs.foldl pushProd (List.replicate L []))
  let maxResult := (pairs.map fun p => (2 ^ p.1.length - 1) * (2 ^ p.2.length - 1)).sum
                   + (adds.map fun w => 2 ^ w.length - 1).sum
  wallaceReducer adder cols (max L (bitLength maxResult))

/-- `carrysave_adder(a, b, c, final_adder)` -/
def carrysaveAdder (adder : List Bool → List Bool → List Bool) (a b c : List Bool) : List Bool :=
  let n := max a.length (max b.length c.length)
  let a := zext a n
  let b := zext b n
  let c := zext c n
  let ps := List.zipWith (fun x yz => xor (xor x yz.1) yz.2) a (List.zip b c)
  let sc := List.zipWith (fun x yz => (x || yz.1) && (x || yz.2) && (yz.1 || yz.2)) a (List.zip b c)
  if n == 1 then ps ++ sc ++ [false]
  else ps.take 1 ++ adder (ps.drop 1) sc

end Pyrtl.Adders
