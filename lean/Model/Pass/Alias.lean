import Model.Core.Spec
import Model.Pass.Dco
/-!
# Alias elimination on whole netlists: `_remove_wire_nets`, `_remove_slice_nets`, common-subexpression elimination

All three passes of `optimize()` have the same shape (`transform.replace_wires` / `_ProducerList.find_producer`): a set of
nets is removed, and every reader of a removed net's destination `y` reads a replacement wire `x` instead, because `y`
always carries the value of `x`:
* a `w` net `y <- x` of equal width (`_remove_wire_nets`),
* a select that takes all bits in order (`_remove_slice_nets`),
* a net with the same op, parameter and arguments as a net that is kept (`common_subexp_elimination`; commutative ops may
  have their two arguments swapped).
`Cert` records what was removed and the replacement map; `certOk` checks that every removal is justified in one of the
three ways; `applyCert` is the netlist after the pass.  The correspondence check derives the certificate from the real
pass's input and output and compares `applyCert` with the output.  No Mathlib.
-/
namespace Pyrtl.Alias
open Pyrtl

structure Cert where
  removed : List Net
  sigma : List (Nat × Nat)     -- removed destination ↦ replacement wire

def sub (σ : List (Nat × Nat)) (a : Nat) : Nat := (σ.lookup a).getD a

def substNet (σ : List (Nat × Nat)) (n : Net) : Net := { n with args := n.args.map (sub σ) }

def keptNets (b : Block) (c : Cert) : List Net := b.nets.filter (fun n => !c.removed.contains n)

/-- the netlist after the pass -/
def applyCert (b : Block) (c : Cert) : Block := { b with nets := (keptNets b c).map (substNet c.sigma) }

def commutative : Op → Bool
  | .and | .or | .xor | .nand | .add | .mul | .eq => true
  | _ => false

/-- the select takes every bit of a `w`-bit wire in order -/
def fullSlice (idx : List Nat) (w : Nat) : Bool := idx == List.range w

/-- two argument wires are interchangeable: the same wire, or constants of the same value and width
    (`_const_to_int` in passes.py) -/
def argEq (b : Block) (a a' : Nat) : Bool :=
  a == a' || (match b.kind a, b.kind a' with
    | .const v, .const v' => v == v' && b.width a == b.width a'
    | _, _ => false)

def argsEq (b : Block) (l l' : List Nat) : Bool :=
  l.length == l'.length && (l.zip l').all (fun p => argEq b p.1 p.2)

/-- why the removed net `r` may go: its destination always equals the replacement -/
def justified (b : Block) (c : Cert) (r : Net) : Bool :=
  let y := r.dest
  let x := sub c.sigma y
  (match r.op, r.args with
    | .w, [a] => sub c.sigma a == x && b.width a == b.width y
    | .select idx, [a] => fullSlice idx (b.width a) && sub c.sigma a == x && b.width a == b.width y
    | _, _ => false)
  || b.nets.any (fun k => !c.removed.contains k && k.op.isComb && k.dest == x && k.op == r.op
        && b.width k.dest == b.width y
        && (argsEq b k.args r.args || (commutative k.op && argsEq b k.args r.args.reverse)))

/-- well-formedness of a certificate -/
def certOk (b : Block) (c : Cert) : Bool :=
  c.removed.all (fun r => b.nets.contains r && r.op.isComb && justified b c r)
  -- the replacement map is defined exactly on the removed destinations, once each
  && c.sigma.all (fun p => c.removed.any (fun r => r.dest == p.1))
  && c.removed.all (fun r => (c.sigma.lookup r.dest).isSome)
  -- replacements are kept wires: not themselves removed destinations
  && c.sigma.all (fun p => !c.removed.any (fun r => r.dest == p.2))

/-! ### executable side conditions of the run theorem (evaluated by the driver on every tested block) -/

/-- the certificate is justified, removed destinations are not Outputs, both netlists are schedulable by the scheduler's
    order, every wire has one combinational driver and every register net one argument -/
def schedsOkB (b : Block) (c : Cert) : Bool :=
  certOk b c
  && c.removed.all (fun r => !decide (b.kind r.dest = .output))
  && Dco.orderOkB b && Dco.orderOkB (applyCert b c)
  && (Dco.orderOf b).all (fun n => (Dco.orderOf b).all (fun m => !(n.dest == m.dest) || n == m))
  && b.nets.all (fun n => !(n.op == .reg) || n.args.length == 1)
  && b.nets.all (fun n => !n.op.isComb || (match b.kind n.dest with | .const _ => false | _ => true))

end Pyrtl.Alias
