import Model.Core.Spec
import Model.Pass.Dco
/-!
# Alias elimination on whole netlists: `_remove_wire_nets`, `_remove_slice_nets`, common-subexpression elimination

All three passes of `optimize()` have the same shape (`transform.replace_wires` / `_ProducerList.find_producer`): a set of
nets is removed, and every reader of a removed net's destination `y` reads a replacement wire `x` instead, because `y`
always carries the value of `x`:
* a `w` net `y <- x` of equal width (`_remove_wire_nets`),
* a select that takes all bits in order (`_remove_slice_nets`),
* a net with the same op, parameter and arguments as a net that is kept (`common_subexp_elimination`; commutative ops may
  have their two arguments swapped).
`Cert` records what was removed and the replacement map; `certOk` checks that every removal is justified in one of the
three ways; `applyCert` is the netlist after the pass.  The correspondence check derives the certificate from the real
pass's input and output and compares `applyCert` with the output.  No Mathlib.
-/
namespace Pyrtl.Alias
open Pyrtl

structure Cert where
  removed : List Net
  sigma : List (Nat × Nat)     -- removed destination ↦ replacement wire
  rewrites : List (Net × Net) := []   -- a kept net ↦ the net (same destination) that takes its place

def sub (σ : List (Nat × Nat)) (a : Nat) : Nat := (σ.lookup a).getD a

def substNet (σ : List (Nat × Nat)) (n : Net) : Net := { n with args := n.args.map (sub σ) }

def keptNets (b : Block) (c : Cert) : List Net := b.nets.filter (fun n => !c.removed.contains n)

/-- the net that stands for the kept net `n` after the pass, before the replacement map is applied -/
def rewritten (c : Cert) (n : Net) : Net := (c.rewrites.lookup n).getD n

/-- the netlist after the pass -/
def applyCert (b : Block) (c : Cert) : Block :=
  { b with nets := (keptNets b c).map (fun n => substNet c.sigma (rewritten c n)) }

def commutative : Op → Bool
  | .and | .or | .xor | .nand | .add | .mul | .eq => true
  | _ => false

/-- the select takes every bit of a `w`-bit wire in order -/
def fullSlice (idx : List Nat) (w : Nat) : Bool := idx == List.range w

/-- two argument wires are interchangeable: the same wire, or constants of the same value and width
    (`_const_to_int` in passes.py) -/
def argEq (b : Block) (a a' : Nat) : Bool :=
  a == a' || (match b.kind a, b.kind a' with
    | .const v, .const v' => v == v' && b.width a == b.width a'
    | _, _ => false)

def argsEq (b : Block) (l l' : List Nat) : Bool :=
  l.length == l'.length && (l.zip l').all (fun p => argEq b p.1 p.2)

/-- the values of argument wires that are all constants -/
def constVals (b : Block) : List Nat → Option (List Nat)
  | [] => some []
  | a :: rest => match b.kind a, constVals b rest with
    | .const v, some vs => some (v :: vs)
    | _, _ => none

/-- the value a net with constant arguments computes (memory reads are never folded) -/
def foldVal (b : Block) (n : Net) : Option Nat :=
  match n.op with
  | .mread _ => none
  | op => (constVals b n.args).map (fun vs => Spec.comb op ((n.args.map b.width).zip vs) (b.width n.dest))

/-- a one-bit gate with one constant operand `cv` acts on its other operand like `g` (checked on both values) -/
def oneConstTable (op : Op) (cv : Nat) (constFirst : Bool) (g : Nat → Nat) : Bool :=
  [0, 1].all (fun xv =>
    Spec.comb op (if constFirst then [(1, cv), (1, xv)] else [(1, xv), (1, cv)]) 1 == g xv)

/-- `n` is a one-bit gate `cv op x` / `x op cv`: returns (cv, constFirst, x) -/
def oneConst? (b : Block) (n : Net) : Option (Nat × Bool × Nat) :=
  match n.args with
  | [p, q] =>
    if b.width p == 1 && b.width q == 1 && b.width n.dest == 1 then
      match b.kind p, b.kind q with
      | .const cv, .const _ => none
      | .const cv, _ => some (cv, true, q)
      | _, .const cv => some (cv, false, p)
      | _, _ => none
    else none
  | _ => none

def twoVarOp : Op → Bool
  | .and | .or | .xor | .nand => true
  | _ => false

/-- a `w` net or an all-bits-in-order select of equal width -/
def justAlias (b : Block) (c : Cert) (r : Net) : Bool :=
  match r.op, r.args with
  | .w, [a] => sub c.sigma a == sub c.sigma r.dest && b.width a == b.width r.dest
  | .select idx, [a] => fullSlice idx (b.width a) && sub c.sigma a == sub c.sigma r.dest && b.width a == b.width r.dest
  | _, _ => false

/-- constant folding: every argument is a constant and the replacement is a constant wire of that value and width -/
def justConst (b : Block) (c : Cert) (r : Net) : Bool :=
  match b.kind (sub c.sigma r.dest), foldVal b r with
  | .const cv, some fv => cv == fv && b.width (sub c.sigma r.dest) == b.width r.dest
  | _, _ => false

/-- a one-bit gate with one constant operand whose result does not depend on the other operand -/
def justConst1 (b : Block) (c : Cert) (r : Net) : Bool :=
  twoVarOp r.op && (match b.kind (sub c.sigma r.dest), oneConst? b r with
    | .const k, some (cv, cf, _) => oneConstTable r.op cv cf (fun _ => k) && b.width (sub c.sigma r.dest) == 1
    | _, _ => false)

/-- a one-bit gate with one constant operand that passes its other operand through -/
def justIdent (b : Block) (c : Cert) (r : Net) : Bool :=
  twoVarOp r.op && (match oneConst? b r with
    | some (cv, cf, a) => oneConstTable r.op cv cf (fun xv => xv) && sub c.sigma a == sub c.sigma r.dest
    | none => false)

/-- the same computation (same op, destination width and arguments; commutative ops possibly swapped) is kept -/
def justCse (b : Block) (c : Cert) (r : Net) : Bool :=
  b.nets.any (fun k => !c.removed.contains k && k.op.isComb && k.dest == sub c.sigma r.dest && k.op == r.op
        && b.width k.dest == b.width r.dest
        && (argsEq b k.args r.args || (commutative k.op && argsEq b k.args r.args.reverse)))

/-- why the removed net `r` may go: its destination always equals the replacement -/
def justified (b : Block) (c : Cert) (r : Net) : Bool :=
  justAlias b c r || justConst b c r || justConst1 b c r || justIdent b c r || justCse b c r

/-- why the kept net `o` may be replaced by `n'` (same destination): `n'` computes what `o` computes -/
def rewriteJustified (b : Block) (o n' : Net) : Bool :=
  n'.dests == o.dests &&
  ((match n'.op, n'.args, foldVal b o with
      | .w, [cw], some fv => (match b.kind cw with
          | .const cv => cv % 2 ^ b.width o.dest == fv
          | _ => false)
      | _, _, _ => false)
   || (match n'.op, n'.args with
      | .w, [cw] => twoVarOp o.op && (match b.kind cw, oneConst? b o with
          | .const k, some (cv, cf, _) => oneConstTable o.op cv cf (fun _ => k % 2)
          | _, _ => false)
      | _, _ => false)
   || (match n'.op, n'.args with
      | .w, [a] => twoVarOp o.op && (match oneConst? b o with
          | some (cv, cf, a') => a' == a && oneConstTable o.op cv cf (fun xv => xv)
          | none => false)
      | _, _ => false)
   || (match n'.op, n'.args with
      | .inv, [a] => twoVarOp o.op && (match oneConst? b o with
          | some (cv, cf, a') => a' == a && oneConstTable o.op cv cf (fun xv => 1 - xv)
          | none => false)
      | _, _ => false))

/-- well-formedness of a certificate -/
def certOk (b : Block) (c : Cert) : Bool :=
  c.removed.all (fun r => b.nets.contains r && r.op.isComb && justified b c r)
  -- the replacement map is defined exactly on the removed destinations, once each
  && c.sigma.all (fun p => c.removed.any (fun r => r.dest == p.1))
  && c.removed.all (fun r => (c.sigma.lookup r.dest).isSome)
  -- replacements are kept wires: not themselves removed destinations
  && c.sigma.all (fun p => !c.removed.any (fun r => r.dest == p.2))
  -- rewritten nets are kept combinational nets of the block, each rewritten once and justified
  && c.rewrites.all (fun p => b.nets.contains p.1 && !c.removed.contains p.1 && p.1.op.isComb && p.2.op.isComb
        && rewriteJustified b p.1 p.2)

/-! ### executable side conditions of the run theorem (evaluated by the driver on every tested block) -/

/-- the certificate is justified, removed destinations are not Outputs, both netlists are schedulable by the scheduler's
    order, every wire has one combinational driver and every register net one argument -/
def schedsOkB (b : Block) (c : Cert) : Bool :=
  certOk b c
  && c.removed.all (fun r => !decide (b.kind r.dest = .output))
  && Dco.orderOkB b && Dco.orderOkB (applyCert b c)
  && (Dco.orderOf b).all (fun n => (Dco.orderOf b).all (fun m => !(n.dest == m.dest) || n == m))
  && b.nets.all (fun n => !(n.op == .reg) || n.args.length == 1)
  && b.nets.all (fun n => !n.op.isComb || (match b.kind n.dest with | .const _ => false | _ => true))

end Pyrtl.Alias
