/-!
# Impl model of `conditional_assignment` elaboration (conditional.py:139-300)

`_conditions_list_stack[:-1]` at the time of an assignment is a list of levels; each level is the
list of sibling guards entered so far at that level, the last one being the branch we are in.
-/
namespace Pyrtl.Cond

inductive Guard where
  | pred (i : Nat)
  | otherwise
  deriving Repr, DecidableEq

/-- a literal of the conjunction: predicate `pred`, negated when `neg`.  (In the Python
    `pred_set` the Boolean is `True` for the *negated* siblings.) -/
structure Lit where
  pred : Nat
  neg : Bool
  deriving Repr, DecidableEq

/-- `between_otherwise_and_current(predlist)`: the siblings before the current one, after the last
    `otherwise` among them -/
def betweenAux : List Guard → List Guard → List Guard
  | [], acc => acc.reverse
  | Guard.otherwise :: rest, _ => betweenAux rest []
  | g :: rest, acc => betweenAux rest (g :: acc)

def between (pl : List Guard) : List Guard := betweenAux pl.dropLast []

def guardLits (gs : List Guard) (neg : Bool) : List Lit :=
  gs.filterMap fun g => match g with
    | .pred i => some ⟨i, neg⟩
    | .otherwise => none

/-- `_current_select()`: per level, the negated siblings since the last `otherwise`, then the
    current guard (unless it is `otherwise`) -/
def currentSelect (stack : List (List Guard)) : List Lit :=
  stack.flatMap fun pl => guardLits (between pl) true ++ guardLits (pl.getLast?.toList) false

def holds (ρ : Nat → Bool) (c : List Lit) : Bool := c.all fun l => ρ l.pred != l.neg

/-- `_pred_sets_are_in_conflict`: no shared predicate with opposite polarity -/
def inConflict (a b : List Lit) : Bool :=
  !(a.any fun la => b.any fun lb => la.pred == lb.pred && la.neg != lb.neg)

/-- `_check_and_add_pred_set` over all assignments to one target, in program order -/
def anyConflict : List (List Lit) → Bool
  | [] => false
  | c :: rest => rest.any (inConflict c) || anyConflict rest

/-- `_finalize`: `result = default; for p, rhs in predlist: result = select(p, rhs, result)` -/
def chain (ρ : Nat → Bool) (dflt : Nat) (asgs : List (List Lit × Nat)) : Nat :=
  asgs.foldl (fun res a => if holds ρ a.1 then a.2 else res) dflt

/-! ### the statement's definition of "active" -/

def guardHolds (ρ : Nat → Bool) : Guard → Bool
  | .pred i => ρ i
  | .otherwise => true

/-- a level is satisfied when the current guard holds and no earlier sibling since the last
    `otherwise` at that level was taken -/
def levelActive (ρ : Nat → Bool) (pl : List Guard) : Bool :=
  (between pl).all (fun g => !guardHolds ρ g) && (pl.getLast?.map (guardHolds ρ)).getD true

def activeSpec (ρ : Nat → Bool) (stack : List (List Guard)) : Bool := stack.all (levelActive ρ)

end Pyrtl.Cond
