import Model.Core.Spec
import Model.Gen.Clone
/-!
# Impl model of `copy_block` (transform.py:232-300)

`_clone_block_and_wires` clones every wire (`clone_wire`, regenerated into `Gen.Clone`), `_copy_net`
rebuilds every net over the clones, memories go through `_get_new_block_mem_instance`/`_make_copy`.
Object identity is modelled by an explicit store: allocation returns ids the store has never used.
-/
namespace Pyrtl.Copy
open Pyrtl Pyrtl.Gen.Clone

/-- the copied block: cloned wires in the same positions, the same nets over them, copied memories -/
def copyBlock (b : Block) : Block :=
  { wires := b.wires.map cloneWire, nets := b.nets, mems := b.mems.map copyMem }

/-- CPython's heap, as far as wire objects go: `next` is the first never-used object id. -/
structure Store where
  next : Nat
  obj  : Nat → Option Wire

def alloc (s : Store) (w : Wire) : Store × Nat :=
  ({ next := s.next + 1, obj := fun i => if i = s.next then some w else s.obj i }, s.next)

/-- allocate one fresh object per wire; returns the new store and the ids given out -/
def allocAll : Store → List Wire → Store × List Nat
  | s, [] => (s, [])
  | s, w :: ws =>
    let (s1, i) := alloc s w
    let (s2, is) := allocAll s1 ws
    (s2, i :: is)

/-- `copy_block` at the object level: fresh objects for all clones, source objects untouched -/
def copyObjects (s : Store) (b : Block) : Store × List Nat :=
  allocAll s (b.wires.toList.map cloneWire)

end Pyrtl.Copy
