import Model.Core.Spec
import Model.Core.Topo
/-!
# `direct_connect_outputs` on whole netlists (passes.py)

One round: every net `p` (not `r`/`@`) whose destination `x` is read by exactly one net, and that net is a `w` net
into an Output `o`, is replaced by the same net with destination `o`; the `w` net is dropped.  The pass repeats the
round until nothing changes (a chain `x -> w -> tmp -> w -> o` needs two rounds).  No Mathlib.
-/
namespace Pyrtl.Dco
open Pyrtl

/-- the nets that read wire `x` -/
def readers (b : Block) (x : Nat) : List Net := b.nets.filter (fun n => n.args.contains x)

/-- the `w` net into an Output that is the only reader of `p`'s destination, if `p` is eligible -/
def outW? (b : Block) (p : Net) : Option Net :=
  if p.op.isComb then
    match readers b p.dest with
    | [w] => if w.op == .w && w.args == [p.dest] && decide (b.kind w.dest = .output) then some w else none
    | _ => none
  else none

/-- `n` is the `w` net of some eligible producer -/
def dropped (b : Block) (n : Net) : Bool := b.nets.any (fun p => outW? b p == some n)

/-- wire `x` disappears: it is the destination of an eligible producer -/
def removedWire (b : Block) (x : Nat) : Bool := b.nets.any (fun p => (outW? b p).isSome && p.dest == x)

def roundNet (b : Block) (n : Net) : Option Net :=
  if dropped b n then none
  else match outW? b n with
    | some w => some { n with dests := w.dests }
    | none => some n

def round (b : Block) : Block := { b with nets := b.nets.filterMap (roundNet b) }

/-- the pass: rounds until a round changes nothing (at most one round per net) -/
def dco : Nat → Block → Block
  | 0, b => b
  | fuel + 1, b =>
    let b' := round b
    if b'.nets.length == b.nets.length then b else dco fuel b'

def directConnectOutputs (b : Block) : Block := dco (b.nets.length + 1) b

/-! ### executable side conditions (evaluated by the driver on every tested block) -/

/-- what `Block.sanity_check` guarantees and the proofs use: Outputs are never read, one combinational driver
    per wire, a `w` net's destination is not wider than its source, one destination per combinational net, one
    argument per register net -/
def dcoWfB (b : Block) : Bool :=
  b.nets.all (fun n => n.args.all (fun a => !decide (b.kind a = .output)))
  && b.nets.all (fun n => b.nets.all (fun m => !(n.op.isComb && m.op.isComb && n.dest == m.dest) || n == m))
  && b.nets.all (fun n => match n.op, n.args with
      | .w, [a] => decide (b.width n.dest ≤ b.width a)
      | _, _ => true)
  && b.nets.all (fun n => !n.op.isComb || n.dests.length == 1)
  && b.nets.all (fun n => !(n.op == .reg) || n.args.length == 1)

/-- the schedule used for a block: the scheduler's dependency order -/
def orderOf (b : Block) : List Net := (topoSort b).getD []

/-- `orderOf b` is a dependency order of exactly the combinational nets of `b` -/
def orderOkB (b : Block) : Bool :=
  isTopo (orderOf b)
  && (orderOf b).all (fun n => b.nets.contains n && n.op.isComb)
  && b.nets.all (fun n => !n.op.isComb || (orderOf b).contains n)

/-- every block the pass goes through is well formed and schedulable -/
def chainOkB : Nat → Block → Bool
  | 0, b => dcoWfB b && orderOkB b
  | fuel + 1, b =>
    dcoWfB b && orderOkB b &&
      (if (round b).nets.length == b.nets.length then true else chainOkB fuel (round b))

end Pyrtl.Dco
