import Model.Core.Spec
import Model.Pass.Dco
/-!
# Dead-logic removal on whole netlists (`_remove_unlistened_nets`, passes.py)

A set of combinational nets is removed; what is kept never reads a removed destination (the pass keeps the cone of
everything that reaches an Output, a register input or a memory write).  `deadOk` checks exactly that closure;
`applyDead` is the netlist after the pass.  No Mathlib.
-/
namespace Pyrtl.Dead
open Pyrtl

def removedDestB (removed : List Net) (w : Nat) : Bool := removed.any (fun r => r.dest == w)

def keptNets (b : Block) (removed : List Net) : List Net := b.nets.filter (fun n => !removed.contains n)

def applyDead (b : Block) (removed : List Net) : Block := { b with nets := keptNets b removed }

/-- only combinational nets of the block are removed, none of them drives an Output, and no kept net (register and
    memory-write nets included) reads a removed destination -/
def deadOk (b : Block) (removed : List Net) : Bool :=
  removed.all (fun r => b.nets.contains r && r.op.isComb && !decide (b.kind r.dest = .output))
  && (keptNets b removed).all (fun n => n.args.all (fun a => !removedDestB removed a))

/-- side conditions of the run theorem, evaluated per block -/
def deadSchedsOkB (b : Block) (removed : List Net) : Bool :=
  deadOk b removed && Dco.orderOkB b && Dco.orderOkB (applyDead b removed)
  && (Dco.orderOf b).all (fun n => (Dco.orderOf b).all (fun m => !(n.dest == m.dest) || n == m))
  && b.nets.all (fun n => !(n.op == .reg) || n.args.length == 1)

end Pyrtl.Dead
