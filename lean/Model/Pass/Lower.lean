import Model.Core.Spec
import Model.Gen.GateRules
/-!
# Impl models of the restructuring passes (passes.py:714-906)
-/
namespace Pyrtl.Lower
open Pyrtl

/-- `two_way_concat`: `w = concat(a0, a1); for a in args[2:]: w = concat(w, a)`; every intermediate
    wire is `(width, value)` of a 2-operand `c` net at its natural width. -/
def twoWay : List (Nat × Nat) → Nat × Nat
  | [] => (0, 0)
  | p :: rest => rest.foldl (fun acc q => (acc.1 + q.1, Spec.comb .concat [acc, q] (acc.1 + q.1))) p

/-- `one_bit_selects`: `concat_list([arg[i] for i in op_param])`, i.e. a concat whose operands are
    the 1-bit selects, most significant first. -/
def oneBitSelects (idx : List Nat) (a : Nat) : List (Nat × Nat) :=
  idx.reverse.map fun i => (1, Spec.comb (.select [i]) [(0, a)] 1)

/-- `_make_tree`'s recursion `f(w, n)`: the shape of the fan-out tree of `w` nets. -/
inductive Tree where
  | leaf
  | node (l r : Tree)
  deriving Repr

def makeTree : Nat → Nat → Tree
  | 0, _ => .leaf
  | fuel + 1, n => if n ≤ 1 then .leaf else .node (makeTree fuel (n / 2)) (makeTree fuel (n - n / 2))

def Tree.leaves : Tree → Nat
  | .leaf => 1
  | .node l r => l.leaves + r.leaves

/-- every `w` net of the tree copies its argument: the value at each leaf given the root value -/
def Tree.leafVals (v : Nat) : Tree → List Nat
  | .leaf => [v]
  | .node l r => l.leafVals v ++ r.leafVals v

end Pyrtl.Lower
