import Model.Core.Spec
/-!
# The net-rewriting passes of passes.py on whole netlists

`nand_synth`, `and_inverter_synth`, `two_way_concat` and `one_bit_selects` are all instances of
`transform.net_transform`: every net is either kept or removed and replaced by a *gadget*, a short list of
nets over fresh temporaries that ends in a `w` net driving the original destination (`dest <<= expr`).

A `Rule` says which gadget a net gets.  `lowerBlock` applies a rule to every net of a block and allocates the
temporaries: the temporaries of the gadget for the net driving wire `d` are the wires
`size + stride * d + 0, 1, …` (wire ids are a modelling artefact: the correspondence check compares the model
output with the real pass output up to renaming of the temporaries).  No Mathlib.
-/
namespace Pyrtl.LowerNet
open Pyrtl

/-- the replacement of one net: widths of the temporaries, and the nets given the id of the first temporary -/
structure Gadget where
  tmps : List Nat
  nets : Nat → List Net

abbrev Rule := Block → Net → Option Gadget

def wNet (src dst : Nat) : Net := ⟨.w, [src], [dst]⟩

/-- `nand_synth` (passes.py): `&` → `~(a nand b)`, `|` → `(~a) nand (~b)`,
    `^` → `(t nand a) nand (t nand b)` with `t = a nand b`; every other op is kept. -/
def nandRule : Rule := fun b n =>
  match n.op, n.args with
  | .and, [a, c] =>
    let w := b.width a
    some ⟨[w, w], fun t => [⟨.nand, [a, c], [t]⟩, ⟨.inv, [t], [t + 1]⟩, wNet (t + 1) n.dest]⟩
  | .or, [a, c] =>
    let w := b.width a
    some ⟨[w, w, w], fun t => [⟨.inv, [a], [t]⟩, ⟨.inv, [c], [t + 1]⟩, ⟨.nand, [t, t + 1], [t + 2]⟩,
                               wNet (t + 2) n.dest]⟩
  | .xor, [a, c] =>
    let w := b.width a
    some ⟨[w, w, w, w], fun t => [⟨.nand, [a, c], [t]⟩, ⟨.nand, [t, a], [t + 1]⟩, ⟨.nand, [t, c], [t + 2]⟩,
                                  ⟨.nand, [t + 1, t + 2], [t + 3]⟩, wNet (t + 3) n.dest]⟩
  | _, _ => none

/-- `and_inverter_synth` (passes.py): `|` → `~(~a & ~b)`, `^` → `~(~a & ~b) & ~(a & b)`, `n` → `~(a & b)`. -/
def aigRule : Rule := fun b n =>
  match n.op, n.args with
  | .or, [a, c] =>
    let w := b.width a
    some ⟨[w, w, w, w], fun t => [⟨.inv, [a], [t]⟩, ⟨.inv, [c], [t + 1]⟩, ⟨.and, [t, t + 1], [t + 2]⟩,
                                  ⟨.inv, [t + 2], [t + 3]⟩, wNet (t + 3) n.dest]⟩
  | .xor, [a, c] =>
    let w := b.width a
    some ⟨[w, w, w, w, w, w, w], fun t =>
      [⟨.and, [a, c], [t]⟩, ⟨.inv, [a], [t + 1]⟩, ⟨.inv, [c], [t + 2]⟩, ⟨.and, [t + 1, t + 2], [t + 3]⟩,
       ⟨.inv, [t + 3], [t + 4]⟩, ⟨.inv, [t], [t + 5]⟩, ⟨.and, [t + 4, t + 5], [t + 6]⟩, wNet (t + 6) n.dest]⟩
  | .nand, [a, c] =>
    let w := b.width a
    some ⟨[w, w], fun t => [⟨.and, [a, c], [t]⟩, ⟨.inv, [t], [t + 1]⟩, wNet (t + 1) n.dest]⟩
  | _, _ => none

/-- the chain `w = concat(w, a)` for the remaining operands: the net for the k-th of them reads temporary
    `t + k` and writes temporary `t + k + 1` -/
def catChain (t : Nat) : List Nat → Nat → List Net
  | [], _ => []
  | a :: rest, k => ⟨.concat, [t + k, a], [t + k + 1]⟩ :: catChain t rest (k + 1)

/-- widths of the temporaries of the chain: running sums -/
def catWidths (b : Block) : List Nat → Nat → List Nat
  | [], _ => []
  | a :: rest, acc => (acc + b.width a) :: catWidths b rest (acc + b.width a)

/-- `two_way_concat` (passes.py): a concat of more than two operands becomes a chain of two-operand
    concats at their natural widths, then a `w` net. -/
def twoWayRule : Rule := fun b n =>
  match n.op, n.args with
  | .concat, a0 :: a1 :: a2 :: rest =>
    let ws := (b.width a0 + b.width a1) :: catWidths b (a2 :: rest) (b.width a0 + b.width a1)
    some ⟨ws, fun t => ⟨.concat, [a0, a1], [t]⟩ :: catChain t (a2 :: rest) 0
                        ++ [wNet (t + (rest.length + 1)) n.dest]⟩
  | _, _ => none

/-- the one-bit select nets: the k-th index is selected into temporary `t + k` -/
def bitNets (t a : Nat) : List Nat → Nat → List Net
  | [], _ => []
  | i :: rest, k => ⟨.select [i], [a], [t + k]⟩ :: bitNets t a rest (k + 1)

/-- the temporaries the one-bit selects write -/
def bitTmps (t : Nat) : List Nat → Nat → List Nat
  | [], _ => []
  | _ :: rest, k => (t + k) :: bitTmps t rest (k + 1)

/-- `one_bit_selects` (passes.py): `concat_list([arg[i] for i in op_param])`; a single index needs no concat. -/
def oneBitRule : Rule := fun _ n =>
  match n.op, n.args with
  | .select [i], [a] =>
    some ⟨[1], fun t => [⟨.select [i], [a], [t]⟩, wNet t n.dest]⟩
  | .select (i :: j :: idx), [a] =>
    let m := idx.length + 2
    some ⟨List.replicate m 1 ++ [m], fun t =>
      bitNets t a (i :: j :: idx) 0
        ++ [⟨.concat, (bitTmps t (i :: j :: idx) 0).reverse, [t + m]⟩, wNet (t + m) n.dest]⟩
  | _, _ => none

/-! ### applying a rule to a block -/

def tmpsLen (r : Rule) (b : Block) (n : Net) : Nat :=
  match r b n with
  | some g => g.tmps.length
  | none => 0

/-- one more than the largest number of temporaries any gadget needs -/
def stride (r : Rule) (b : Block) : Nat := (b.nets.map (tmpsLen r b)).foldr max 0 + 1

/-- first temporary of the gadget replacing the net that drives wire `d` -/
def base (r : Rule) (b : Block) (d : Nat) : Nat := b.wires.size + stride r b * d

def expand (r : Rule) (b : Block) (n : Net) : List Net :=
  match r b n with
  | some g => g.nets (base r b n.dest)
  | none => [n]

def driverOf (b : Block) (d : Nat) : Option Net := b.nets.find? (fun n => n.op.isComb && n.dest == d)

/-- width of the `i`-th temporary of the gadget for the net driving `d` -/
def tmpWidth (r : Rule) (b : Block) (d i : Nat) : Nat :=
  match driverOf b d with
  | some n => match r b n with
    | some g => g.tmps.getD i 0
    | none => 0
  | none => 0

def tmpWires (r : Rule) (b : Block) : List Wire :=
  (List.range (stride r b * b.wires.size)).map fun k =>
    ⟨"", tmpWidth r b (k / stride r b) (k % stride r b), .plain⟩

/-- the block after the pass -/
def lowerBlock (r : Rule) (b : Block) : Block :=
  { wires := b.wires ++ (tmpWires r b).toArray
    nets := b.nets.flatMap (expand r b)
    mems := b.mems }

/-- the schedule after the pass: every net of the schedule replaced by its gadget, in place -/
def lowerOrder (r : Rule) (b : Block) (order : List Net) : List Net := order.flatMap (expand r b)

/-! ### executable well-formedness (what the theorems assume; evaluated by the driver on every tested block) -/

def netOldB (b : Block) (n : Net) : Bool :=
  n.args.all (fun a => decide (a < b.wires.size)) && decide (n.dest < b.wires.size)

def drvB (b : Block) (n : Net) : Bool := !n.op.isComb || driverOf b n.dest == some n

/-- `sanity_check_net`: the destination of a bitwise net is not wider than its first operand -/
def bitPreB (b : Block) (n : Net) : Bool :=
  match n.op, n.args with
  | .and, [a, _] | .or, [a, _] | .xor, [a, _] | .nand, [a, _] => decide (b.width n.dest ≤ b.width a)
  | _, _ => true

/-- `sanity_check_net`: a concat's destination is not wider than its operands together, a select's not wider
    than its index tuple -/
def structPreB (b : Block) (n : Net) : Bool :=
  match n.op with
  | .concat => decide (b.width n.dest ≤ (n.args.map b.width).sum)
  | .select idx => decide (b.width n.dest ≤ idx.length)
  | _ => true

def wfB (pre : Block → Net → Bool) (b : Block) : Bool :=
  b.nets.all fun n => netOldB b n && drvB b n && pre b n

/-! ### the shape of a gadget (what makes the lowered schedule a dependency order) -/

/-- the body nets write the temporaries `t, t+1, …` in order, each reading only arguments of the replaced net or
    temporaries written before it -/
def bodyOk (nargs : List Nat) (t : Nat) : List Net → Nat → Bool
  | [], _ => true
  | m :: ms, i =>
    m.dests == [t + i] && m.op.isComb
      && m.args.all (fun a => nargs.contains a || (decide (t ≤ a) && decide (a < t + i)))
      && bodyOk nargs t ms (i + 1)

/-- a gadget is `k` body nets followed by the `w` net into the destination of the replaced net -/
def gadgetShape (n : Net) (t k : Nat) (nets : List Net) : Bool :=
  match nets.reverse with
  | last :: revbody =>
    last.op == .w && last.dests == [n.dest]
      && last.args.all (fun a => n.args.contains a || (decide (t ≤ a) && decide (a < t + k)))
      && revbody.length == k && bodyOk n.args t revbody.reverse 0
  | [] => false

end Pyrtl.LowerNet
