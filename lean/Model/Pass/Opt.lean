import Model.Core.Spec
import Model.Gen.ConstFold
/-!
# Impl model of the decision logic of constant propagation and CSE (passes.py:184-400)

`Gen.ConstFold` holds the folding lambdas and op-class tables regenerated from the source.
-/
namespace Pyrtl.Opt
open Pyrtl Pyrtl.Gen.ConstFold

/-- what a two-input gate with exactly one constant (1-bit) argument is replaced by -/
inductive Repl where
  | const (v : Int)     -- `replace_net_with_const(outputs[0])`
  | wire                -- `replace_net_with_wire(other_wire)`
  | inverter            -- a `~` net on the other wire
  deriving Repr, DecidableEq

/-- `outputs = [f(const, 0), f(const, 1)]`; equal → constant; `outputs[0] == 0` → wire; else `~` -/
def oneConst (f : Int → Int → Int) (c : Int) : Repl :=
  let o0 := f c 0
  let o1 := f c 1
  if o0 = o1 then .const o0 else if o0 = 0 then .wire else .inverter

/-- value of the replacement when the non-constant 1-bit input is `x` -/
def Repl.eval : Repl → Nat → Int
  | .const v, _ => v
  | .wire, x => x
  | .inverter, x => 1 - x

def opName : Op → String
  | .w => "w" | .inv => "inv" | .and => "and" | .or => "or" | .xor => "xor" | .nand => "nand"
  | .add => "add" | .sub => "sub" | .mul => "mul" | .lt => "lt" | .gt => "gt" | .eq => "eq"
  | .mux => "mux" | .concat => "concat" | .select _ => "select" | .reg => "reg"
  | .mread _ => "mread" | .mwrite _ => "mwrite"

/-- CSE sorts the argument tuple (by `hash`) unless the op is listed in
    `ops_where_arg_order_matters`; two nets are merged when the resulting keys are equal. -/
def sortsArgs (op : Op) : Bool := !(ops_where_arg_order_matters.contains (opName op))

end Pyrtl.Opt
