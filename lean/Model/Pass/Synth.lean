/-!
# Impl model of the bit-level generators used by `synthesize` (corecircuits.py:681-765)

Bit vectors are `List Bool`, least significant bit first (`wire[0]` is the head).
The recursion of `_add_helper` stops at length 1 in the source; here it stops at length 0 with the
carry passed through, which is the same function for the non-empty vectors PyRTL allows.
`or_all_bits` is a balanced tree of ORs in the source and `List.any` here.
-/
namespace Pyrtl.Synth

def b2n (b : Bool) : Nat := if b then 1 else 0

def toNat : List Bool → Nat
  | [] => 0
  | b :: bs => b2n b + 2 * toNat bs

/-- the `w` low bits of `n`, LSB first -/
def ofNat : Nat → Nat → List Bool
  | 0, _ => []
  | w + 1, n => (n % 2 == 1) :: ofNat w (n / 2)

/-- `_one_bit_add` -/
def oneBitAdd (a b c : Bool) : Bool × Bool :=
  (xor (xor a b) c, (a && b) || (a && c) || (b && c))

/-- `_add_helper` on equal-length vectors: (sum bits, carry out) -/
def addHelper : List Bool → List Bool → Bool → List Bool × Bool
  | a :: as, b :: bs, c =>
    let (s, r) := oneBitAdd a b c
    let (ms, co) := addHelper as bs r
    (s :: ms, co)
  | _, _, c => ([], c)

/-- `_basic_add`: `concat(carry_out, sumbits)` -/
def basicAdd (a b : List Bool) : List Bool :=
  let (s, c) := addHelper a b false
  s ++ [c]

/-- `_basic_sub`: `a + ~b + 1`; the top bit of the `len+1`-bit difference is the inverted carry -/
def basicSub (a b : List Bool) : List Bool :=
  let (s, c) := addHelper a (b.map not) true
  s ++ [!c]

/-- `_basic_eq`: `~ or_all_bits(a ^ b)` -/
def basicEq (a b : List Bool) : List Bool :=
  [!((List.zipWith xor a b).any id)]

/-- `_basic_lt`, unrolled from the least significant bit:
    `lt = (b_msb & ~a_msb) | (lt_of_lower_bits & ~(a_msb ^ b_msb))` -/
def ltAcc : List Bool → List Bool → Bool → Bool
  | a :: as, b :: bs, acc => ltAcc as bs ((b && !a) || (acc && !(xor a b)))
  | _, _, acc => acc

def basicLt (a b : List Bool) : List Bool := [ltAcc a b false]
def basicGt (a b : List Bool) : List Bool := basicLt b a

/-- `_basic_select`: `(a & ~s...) | (b & s...)` -/
def basicSelect (s : Bool) (a b : List Bool) : List Bool :=
  List.zipWith (fun x y => (x && !s) || (y && s)) a b

/-! ### `_basic_mult` -/

/-- add `x` to column `i` -/
def colPush (cols : List (List Bool)) (i : Nat) (x : Bool) : List (List Bool) :=
  cols.modify i (· ++ [x])

/-- partial products: `for i, a in enumerate(A): for j, b in enumerate(B): bits[i+j].append(a & b)` -/
def partials (A B : List Bool) : List (List Bool) :=
  let rb := A.length + B.length
  let init : List (List Bool) := List.replicate rb []
  (A.zipIdx).foldl (fun cols (a, i) =>
    (B.zipIdx).foldl (fun cols (b, j) => colPush cols (i + j) (a && b)) cols) init

/-- reduce one column: full adders on triples from the front, a half adder on a remaining pair;
    returns (what stays in this column, carries into the next column) -/
def reduceCol : Nat → List Bool → List Bool × List Bool
  | fuel + 1, a :: b :: c :: rest =>
    let (keep, carry) := reduceCol fuel rest
    (xor (xor a b) c :: keep, ((a && b) || (a && c) || (b && c)) :: carry)
  | _, [a, b] => ([xor a b], [a && b])
  | _, l => (l, [])

/-- one pass of the `while` body over all columns; `deferred[i]` receives the kept bits of column
    `i` *after* the carries that column `i-1` pushed into it. -/
def reducePass (cols : List (List Bool)) : List (List Bool) :=
  let rb := cols.length
  let step := fun (acc : List (List Bool) × List Bool) (col : List Bool) =>
    let (done, carryIn) := acc
    let (keep, carryOut) := reduceCol col.length col
    (done ++ [carryIn ++ keep], carryOut)
  ((cols.foldl step ([], [])).1).take rb

def allLe2 (cols : List (List Bool)) : Bool := cols.all (·.length ≤ 2)

def reduceLoop : Nat → List (List Bool) → List (List Bool)
  | 0, cols => cols
  | fuel + 1, cols => if allLe2 cols then cols else reduceLoop fuel (reducePass cols)

/-- `_basic_mult` -/
def basicMult (A B : List Bool) : List Bool :=
  let (A, B) := if B.length == 1 then (B, A) else (A, B)
  if A.length == 1 then
    (B.map (A.headD false && ·)) ++ [false]
  else
    let rb := A.length + B.length
    let cols := reduceLoop (4 * rb + 8) (partials A B)
    let row0 := cols.map (·.getD 0 false)
    let row1 := cols.map (·.getD 1 false)
    (basicAdd row0 row1).take rb

end Pyrtl.Synth
