/-!
# The C code CompiledSimulation emits for one combinational net, on 64-bit limbs

`emit op …` mirrors `CompiledSimulation._build_*` (compilesim.py): the same statements in the same
order, as an AST over the C fragment the generator uses (`uint64_t` arithmetic, comparisons yielding
0/1, `&&`/`||`, shifts by constants below 64, assignments to the limbs of the destination and to the
scalars `tmp`, `carry`, `tmplo`, `tmphi`, one `if`/`else`, and the `mul128` macro).  `exec` is the
semantics of that fragment.  Wires are arrays of limbs, least significant first.
-/
namespace Pyrtl.CLimb

def M : Nat := 2 ^ 64

inductive Var
  | arg (k : Nat) (limb : Nat)      -- limb of the k-th argument wire
  | dest (limb : Nat)
  | tmp | carry | tmplo | tmphi
deriving DecidableEq, Repr

inductive E
  | lit (n : Nat)
  | v (x : Var)
  | add (x y : E) | sub (x y : E)
  | band (x y : E) | bor (x y : E) | bxor (x y : E) | bnot (x : E)
  | shl (x : E) (k : Nat) | shr (x : E) (k : Nat)
  | lt (x y : E) | gt (x y : E) | eq (x y : E)
  | land (x y : E) | lor (x y : E)
deriving Repr, DecidableEq

inductive S
  | assign (x : Var) (e : E)
  | ite (c : E) (t e : List S)
  | mul128 (x y : E) (lo hi : Var)
deriving Repr

/-- variable store: the most recent binding wins; unbound variables read 0 -/
structure Env where
  m : List (Var × Nat) := []

def Env.get (σ : Env) (x : Var) : Nat := match σ.m.find? (fun p => p.1 == x) with
  | some p => p.2
  | none => 0

def Env.set (σ : Env) (x : Var) (n : Nat) : Env := ⟨(x, n) :: σ.m⟩

def b2n (b : Bool) : Nat := if b then 1 else 0

/-- bitwise operations on naturals below `2^64`, by the usual Nat functions -/
def E.eval (σ : Env) : E → Nat
  | .lit n => n % M
  | .v x => σ.get x
  | .add x y => (x.eval σ + y.eval σ) % M
  | .sub x y => (x.eval σ + M - y.eval σ % M) % M
  | .band x y => x.eval σ &&& y.eval σ
  | .bor x y => x.eval σ ||| y.eval σ
  | .bxor x y => x.eval σ ^^^ y.eval σ
  | .bnot x => M - 1 - x.eval σ % M
  | .shl x k => (x.eval σ * 2 ^ k) % M
  | .shr x k => x.eval σ / 2 ^ k
  | .lt x y => b2n (x.eval σ < y.eval σ)
  | .gt x y => b2n (x.eval σ > y.eval σ)
  | .eq x y => b2n (x.eval σ == y.eval σ)
  | .land x y => b2n (x.eval σ != 0 && y.eval σ != 0)
  | .lor x y => b2n (x.eval σ != 0 || y.eval σ != 0)


mutual
def S.exec (σ : Env) : S → Env
  | .assign x e => σ.set x (e.eval σ)
  | .ite c t e => if c.eval σ != 0 then execList σ t else execList σ e
  | .mul128 x y lo hi =>
    let p := x.eval σ * y.eval σ
    (σ.set lo (p % M)).set hi (p / M)
def execList (σ : Env) : List S → Env
  | [] => σ
  | s :: rest => execList (s.exec σ) rest
end

/-! ## emitters -/

def limbs (w : Nat) : Nat := (w + 63) / 64

/-- the condition of `_makemask(dest, res, pos)`; `res = none` is Python's `None` -/
def maskCond (wd : Nat) (res : Option Nat) (pos : Nat) : Bool :=
  (match res with | none => true | some r => decide (wd < r)) &&
    decide (0 < wd - 64 * pos) && decide (wd - 64 * pos < 64)

def mask (wd : Nat) (res : Option Nat) (pos : Nat) (e : E) : E :=
  if maskCond wd res pos then .band e (.lit (2 ^ (wd % 64) - 1)) else e

/-- `_getarglimb(arg, n)` -/
def argLimb (k w n : Nat) : E := if w > 64 * n then .v (.arg k n) else .lit 0

def emitWire (wa wd : Nat) : List S :=
  (List.range (limbs wd)).map fun n => .assign (.dest n) (mask wd (some wa) n (.v (.arg 0 n)))

def emitNot (wd : Nat) : List S :=
  (List.range (limbs wd)).map fun n => .assign (.dest n) (mask wd none n (.bnot (.v (.arg 0 n))))

inductive BitOp | and | or | xor
deriving Repr, DecidableEq

def emitBitwise (op : BitOp) (wa wb wd : Nat) : List S :=
  (List.range (limbs wd)).map fun n =>
    let a := argLimb 0 wa n
    let b := argLimb 1 wb n
    let e := match op with | .and => E.band a b | .or => E.bor a b | .xor => E.bxor a b
    .assign (.dest n) (mask wd (some (max wa wb)) n e)

def emitNand (wa wb wd : Nat) : List S :=
  (List.range (limbs wd)).map fun n =>
    .assign (.dest n) (mask wd none n (.bnot (.band (argLimb 0 wa n) (argLimb 1 wb n))))

/-- `'&&'.join(conds)` as C parses it (left associative) -/
def andAll : List E → E
  | [] => .lit 1
  | e :: rest => rest.foldl .land e

def emitEq (wa wb : Nat) : List S :=
  let conds := (List.range (max (limbs wa) (limbs wb))).map fun n => E.eq (argLimb 0 wa n) (argLimb 1 wb n)
  [.assign (.dest 0) (andAll conds)]

/-- `_build_cmp`: the condition is built from the least significant limb outwards -/
def emitCmp (isLt : Bool) (wa wb : Nat) : List S :=
  let step := fun (cond : Option E) (n : Nat) =>
    let a := argLimb 0 wa n
    let b := argLimb 1 wb n
    let c := if isLt then E.lt a b else E.gt a b
    match cond with
    | none => some c
    | some inner => some (.lor c (.land (.eq a b) inner))
  match (List.range (max (limbs wa) (limbs wb))).foldl step none with
  | some c => [.assign (.dest 0) c]
  | none => []

def emitMux (wf wt wd : Nat) : List S :=
  [.ite (.v (.arg 0 0))
    ((List.range (limbs wd)).map fun n => .assign (.dest n) (mask wd (some wt) n (.v (.arg 2 n))))
    ((List.range (limbs wd)).map fun n => .assign (.dest n) (mask wd (some wf) n (.v (.arg 1 n))))]

def emitAdd (wa wb wd : Nat) : List S :=
  .assign .carry (.lit 0) ::
  ((List.range (limbs wd)).map fun n =>
    let a := argLimb 0 wa n
    let b := argLimb 1 wb n
    [S.assign .tmp (.add a b),
     S.assign (.dest n) (mask wd (some (max wa wb + 1)) n (.add (.v .tmp) (.v .carry))),
     S.assign .carry (.bor (.lt (.v .tmp) a) (.lt (.v (.dest n)) (.v .tmp)))]).flatten

def emitSub (wa wb wd : Nat) : List S :=
  .assign .carry (.lit 0) ::
  ((List.range (limbs wd)).map fun n =>
    let a := argLimb 0 wa n
    let b := argLimb 1 wb n
    [S.assign .tmp (.sub a b),
     S.assign (.dest n) (mask wd none n (.sub (.v .tmp) (.v .carry))),
     S.assign .carry (.bor (.gt (.v .tmp) a) (.gt (.v (.dest n)) (.v .tmp)))]).flatten

def emitMul (wa wb wd : Nat) : List S :=
  let ld := limbs wd
  let la := limbs wa
  let lb := limbs wb
  ((List.range ld).map fun n => S.assign (.dest n) (.lit 0)) ++
  ((List.range la).map fun p0 =>
    let a := argLimb 0 wa p0
    [S.assign .carry (.lit 0)] ++
    (((List.range lb).filter fun p1 => p0 + p1 < ld).map fun p1 =>
      let b := argLimb 1 wb p1
      [S.mul128 a b .tmplo .tmphi,
       S.assign .tmp (.v (.dest (p0 + p1))),
       S.assign .tmplo (.add (.v .tmplo) (.v .carry)),
       S.assign .carry (.lt (.v .tmplo) (.v .carry)),
       S.assign .tmplo (.add (.v .tmplo) (.v .tmp)),
       S.assign .tmphi (.add (.v .tmphi) (.add (.v .carry) (.lt (.v .tmplo) (.v .tmp)))),
       S.assign .carry (.v .tmphi),
       S.assign (.dest (p0 + p1)) (mask wd (some (wa + wb)) (p0 + p1) (.v .tmplo))]).flatten ++
    (if ld > p0 + lb then
      [S.assign (.dest (p0 + lb)) (mask wd (some (wa + wb)) (p0 + lb) (.v .carry))]
     else [])).flatten

/-- `_build_select`: bit `en` of destination limb `n` is bit `b` of the source -/
def orAll : List E → E
  | [] => .lit 0
  | e :: rest => rest.foldl .bor e

def emitSelect (idx : List Nat) (wd : Nat) : List S :=
  (List.range (limbs wd)).map fun n =>
    let sl := (idx.drop (64 * n)).take (min wd (64 * (n + 1)) - 64 * n)
    .assign (.dest n) (orAll (sl.zipIdx.map fun (b, en) =>
      E.shl (.band (.lit 1) (.shr (.v (.arg 0 (b / 64))) (b % 64))) en))

/-! ### `_build_concat`: the arguments, least significant first, are cut into pieces of at most one limb; the
pieces are packed into the destination limbs, a piece that crosses a limb boundary being continued in the next limb -/

structure Piece where
  k : Nat        -- argument index
  limb : Nat
  start : Nat    -- first bit of the limb that is still to be placed
  size : Nat     -- number of bits still to be placed
deriving Repr

/-- `pieces`: `for a in reversed(args) for lx in range(limbs(a))` -/
def catPieces (ws : List Nat) : List Piece :=
  ((ws.zipIdx).reverse.map fun (w, k) =>
    (List.range (limbs w)).map fun lx => (⟨k, lx, 0, min 64 (w - 64 * lx)⟩ : Piece)).flatten

/-- the inner `while True:` for destination limb `n` (fuel: at most 65 pieces fit one limb) -/
def catInner (wd n : Nat) : Nat → Nat → List E → Piece → List Piece → List E × Piece × List Piece
  | 0, _, res, curr, rest => (res, curr, rest)
  | fuel + 1, dpos, res, curr, rest =>
    let res' := res ++ [E.shl (.shr (.v (.arg curr.k curr.limb)) curr.start) dpos]
    let dpos' := dpos + curr.size
    if dpos' > 64 then (res', ⟨curr.k, curr.limb, 64 - (dpos' - curr.size), dpos' - 64⟩, rest)
    else if dpos' ≥ wd - 64 * n then (res', curr, rest)
    else match rest with
      | [] => (res', curr, [])
      | nxt :: rest' => if dpos' == 64 then (res', nxt, rest') else catInner wd n fuel dpos' res' nxt rest'

def catOuter (wd cattotal : Nat) : List Nat → Piece → List Piece → List S
  | [], _, _ => []
  | n :: ns, curr, rest =>
    let (res, curr', rest') := catInner wd n 66 0 [] curr rest
    S.assign (.dest n) (mask wd (some cattotal) n (orAll res)) :: catOuter wd cattotal ns curr' rest'

def emitConcat (ws : List Nat) (wd : Nat) : List S :=
  match catPieces ws with
  | [] => []
  | p :: rest => catOuter wd ws.sum (List.range (limbs wd)) p rest

end Pyrtl.CLimb
