import Model.Sim.PySim
import Model.Sim.FastSim
/-!
# FastSimulation: one cycle and whole runs

`FastSimulation.step` has the skeleton of `Simulation.step`: registers show the value captured in the
previous cycle, the generated function evaluates every combinational net in the block's iteration
order (`d[dest] = mask & expr`, the expression being `FastSim.exec`), memory writes are applied afterwards,
the register inputs are captured.  `stepWith` is that skeleton over an arbitrary net function.
-/
namespace Pyrtl.FastSim
open Pyrtl Pyrtl.PySim Pyrtl.Gen.SimpleFunc

/-- one cycle over an arbitrary per-net function -/
def stepWith (nf : State → Net → List Nat → Nat) (b : Block) (order wrOrder : List Net) (s : Sim) (inp : Env) :
    Env × Sim :=
  let v1 : Env := fun i => if isInput b i then inp i else s.value i
  let v2 : Env := fun i => if isReg b i then s.regvalue i else v1 i
  let v3 := evalSeq (nf ⟨s.regvalue, s.mem⟩) order v2
  let mem' := memUpdate v3 wrOrder s.mem
  (v3, { value := v3, regvalue := regCapture b v3 s.regvalue, mem := mem' })

def runWith (nf : State → Net → List Nat → Nat) (b : Block) (order wrOrder : List Net) : Sim → List Env → List Env
  | _, [] => []
  | s, inp :: rest =>
    let (env, s') := stepWith nf b order wrOrder s inp
    env :: runWith nf b order wrOrder s' rest

/-- the value FastSimulation's generated statement stores for a net -/
def netFun (b : Block) (st : State) (n : Net) (vals : List Nat) : Nat :=
  let dw := b.width n.dest
  match n.op with
  | .mread m => (sanitize (memRead b st m (vals.headD 0) : Nat) (mask dw)).toNat
  | op => (exec op ((n.args.map b.width).zip (vals.map Int.ofNat)) dw).toNat

/-- `FastSimulation.step` -/
def step (b : Block) := stepWith (netFun b) b
/-- `FastSimulation` stepped through an input sequence -/
def run (b : Block) := runWith (netFun b) b

end Pyrtl.FastSim
