import Model.Core.Spec
import Model.Core.PyInt
import Model.Gen.FastEmit
/-!
# Impl model of `pyrtl.FastSimulation._compiled` (simulation.py:873-978)

For every simple op the Python expression that `_compiled` emits is regenerated from the source
(`Gen.FastEmit`: the expression template instantiated on placeholder operands, wrapped in the
statement template `res = mask & (expr)` exactly as emitted and parsed back with Python's
precedence).  The mask is elided when `len(dest) == _no_mask_bitwidth[op](net)`.
`c` is the emitted OR of shifted operands.
-/
namespace Pyrtl.FastSim
open Pyrtl Pyrtl.Gen.FastEmit

def widthSum (l : List (Nat × Int)) : Nat := (l.map (·.1)).sum

/-- `shift(value, '<<', amt)`: the bare value when `amt == 0`, else `(value << amt)`. -/
def shiftL (v : Int) (amt : Nat) : Int := if amt = 0 then v else pyShl v (amt : Int)

/-- `expr = a0 << (w1+..+wn) | a1 << (w2+..+wn) | ... | an` as one left-associated `|` chain. -/
def concatExpr : List (Nat × Int) → Int → Int
  | [], acc => acc
  | (_, v) :: rest, acc => concatExpr rest (pyOr acc (shiftL v (widthSum rest)))

/-- the first operand starts the chain (Python: `expr = ''` then `expr += ' | '` between items) -/
def concatStart : List (Nat × Int) → Int
  | [] => 0
  | (_, v) :: rest => concatExpr rest (shiftL v (widthSum rest))

/-- `len(net.dests[0]) == _no_mask_bitwidth[net.op](net)` -/
def eqW (dw : Nat) (v : Int) : Bool := decide ((dw : Int) = v)

/-! ### `s`: runs of consecutive ascending indices become one shifted, masked piece each -/

/-- one run: source bits `start … start+len-1` land at result bits `res … res+len-1` -/
structure Run where
  start : Nat
  len : Nat
  res : Nat
  deriving Repr, DecidableEq

/-- the `for i, b in enumerate(net.op_param)` loop with its three state variables -/
def runsFrom : List Nat → Nat → Nat → Nat → List Run
  | [], s, L, r => [⟨s, L, r⟩]
  | b :: rest, s, L, r =>
    if b = s + L then runsFrom rest s (L + 1) r else ⟨s, L, r⟩ :: runsFrom rest b 1 (r + L)

def runs : List Nat → List Run
  | [] => []
  | b :: rest => runsFrom rest b 1 0

/-- `make_split()`: the three emitted shapes (regenerated in `Gen.FastEmit`), then `shift(bit, '<<', res)` -/
def piece (arglen : Nat) (src : Int) (r : Run) : Int :=
  let bit :=
    if split_cond0 r.start r.len arglen then split_bit0 r.start r.len arglen src
    else if split_cond1 r.start r.len arglen then split_bit1 r.start r.len arglen src
    else split_bit2 r.start r.len arglen src
  shiftL bit r.res

/-- `expr = piece_1 + '|' + piece_2 + … ` (every piece is parenthesised) -/
def selectExpr (arglen : Nat) (src : Int) : List Run → Int
  | [] => 0
  | r :: rs => rs.foldl (fun acc q => pyOr acc (piece arglen src q)) (piece arglen src r)

/-- The value `sim_func` assigns to the destination variable of a net with op `op`. -/
def exec (op : Op) (args : List (Nat × Int)) (dw : Nat) : Int :=
  let aw (i : Nat) : Int := ((args.getD i (0, 0)).1 : Int)
  let sumw : Int := (widthSum args : Int)
  let nomaskP (f : Int → Int → Int → Int → Int → Int) (plen : Int) : Bool :=
    eqW dw (f (aw 0) (aw 1) (aw 2) sumw plen)
  let nomask (f : Int → Int → Int → Int → Int → Int) : Bool := nomaskP f 0
  match op, args with
  | .w,    [(_, x)] => if nomask noMask_w then plain_w x else masked_w (mask dw) x
  | .inv,  [(_, x)] => if nomask noMask_inv then plain_inv x else masked_inv (mask dw) x
  | .and,  [(_, a), (_, b)] => if nomask noMask_and then plain_and a b else masked_and (mask dw) a b
  | .or,   [(_, a), (_, b)] => if nomask noMask_or then plain_or a b else masked_or (mask dw) a b
  | .xor,  [(_, a), (_, b)] => if nomask noMask_xor then plain_xor a b else masked_xor (mask dw) a b
  | .nand, [(_, a), (_, b)] => if nomask noMask_nand then plain_nand a b else masked_nand (mask dw) a b
  | .add,  [(_, a), (_, b)] => if nomask noMask_add then plain_add a b else masked_add (mask dw) a b
  | .sub,  [(_, a), (_, b)] => if nomask noMask_sub then plain_sub a b else masked_sub (mask dw) a b
  | .mul,  [(_, a), (_, b)] => if nomask noMask_mul then plain_mul a b else masked_mul (mask dw) a b
  | .lt,   [(_, a), (_, b)] => if nomask noMask_lt then plain_lt a b else masked_lt (mask dw) a b
  | .gt,   [(_, a), (_, b)] => if nomask noMask_gt then plain_gt a b else masked_gt (mask dw) a b
  | .eq,   [(_, a), (_, b)] => if nomask noMask_eq then plain_eq a b else masked_eq (mask dw) a b
  | .mux,  [(_, s), (_, f), (_, t)] =>
      if nomask noMask_mux then plain_mux s f t else masked_mux (mask dw) s f t
  | .concat, l => if nomask noMask_concat then concatStart l else pyAnd (mask dw) (concatStart l)
  | .select idx, [(wa, x)] =>
      if nomaskP noMask_select (idx.length : Int) then selectExpr wa x (runs idx)
      else pyAnd (mask dw) (selectExpr wa x (runs idx))
  | _, _ => 0

end Pyrtl.FastSim
