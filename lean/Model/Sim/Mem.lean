import Model.Core.Spec
/-!
# Memory as an array of events; the chained hash map of the C backend

* `Evt`: one enabled write `(memory id, address, data)`; `applyEvts` applies them in order.
* `HMap`: impl model of the `hashmap_t` helpers emitted by `CompiledSimulation._declare_mem_helpers`
  (compilesim.py:680-760): `size` buckets of chained `(key, value)` nodes, `insert` overwrites in
  place or prepends a new node, `lookup` walks the chain and falls back to the all-zero default.
-/
namespace Pyrtl.Mem
open Pyrtl

structure Evt where
  m : Nat
  a : Nat
  d : Nat
  deriving Repr, DecidableEq

def applyEvts : List Evt → (Nat → Nat → Nat) → (Nat → Nat → Nat)
  | [], mm => mm
  | e :: es, mm => applyEvts es (fun m' a' => if m' = e.m ∧ a' = e.a then e.d else mm m' a')

/-- the enabled writes of a cycle, in port order -/
def evtsOf (env : Env) : List Net → List Evt
  | [] => []
  | n :: ns =>
    match n.op, n.args with
    | .mwrite m, [a, d, en] => if env en ≠ 0 then ⟨m, env a, env d⟩ :: evtsOf env ns else evtsOf env ns
    | _, _ => evtsOf env ns

/-- memory content seen by the reads of cycle `t` (0-based): initial content plus the enabled writes
    of all strictly earlier cycles -/
def contentAt (init : Nat → Nat → Nat) (cycles : List (List Evt)) (t : Nat) : Nat → Nat → Nat :=
  (cycles.take t).foldl (fun mm evs => applyEvts evs mm) init

/-! ### the C hash map -/

structure HMap where
  size : Nat
  chain : Nat → List (Nat × Nat)     -- bucket index ↦ chain of (key, value), newest first

def HMap.empty (size : Nat) : HMap := ⟨size, fun _ => []⟩

def chainSet : List (Nat × Nat) → Nat → Nat → Option (List (Nat × Nat))
  | [], _, _ => none
  | (k', v') :: rest, k, v =>
    if k' = k then some ((k, v) :: rest)
    else (chainSet rest k v).map ((k', v') :: ·)

/-- `insert(h, key, val)` -/
def HMap.insert (h : HMap) (k v : Nat) : HMap :=
  let pos := k % h.size
  match chainSet (h.chain pos) k v with
  | some c => { h with chain := fun i => if i = pos then c else h.chain i }
  | none => { h with chain := fun i => if i = pos then (k, v) :: h.chain pos else h.chain i }

/-- `lookup(h, key)`; the default value is all zeros -/
def HMap.lookup (h : HMap) (k : Nat) : Nat :=
  match (h.chain (k % h.size)).find? (·.1 = k) with
  | some p => p.2
  | none => 0

end Pyrtl.Mem
