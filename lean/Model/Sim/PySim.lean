import Model.Core.Spec
import Model.Core.PyInt
import Model.Gen.SimpleFunc
/-!
# Impl model of `pyrtl.Simulation` (simulation.py:128-264, 421-481)

Follows the code: Python-int arithmetic (`Gen.SimpleFunc`, regenerated from the source), the `c`
left-fold, the `s` reversed fold, `_sanitize` on every result, `value.update(regvalue)`,
`_execute` over `ordered_nets`, `_mem_update`, register capture with `_sanitize`.
-/
namespace Pyrtl.PySim
open Pyrtl Pyrtl.Gen.SimpleFunc

/-- `for arg in net.args: result = result << len(arg); result = result | value[arg]` -/
def concatLoop : List (Nat × Int) → Int → Int
  | [], r => r
  | (w, v) :: rest, r => concatLoop rest (pyOr (pyShl r (w : Int)) v)

/-- `for b in op_param[::-1]: result = (result << 1) | (0x1 & (source >> b))`
    (the list passed in is already reversed). -/
def selectLoop : List Nat → Int → Int → Int
  | [], _, r => r
  | b :: rest, src, r => selectLoop rest src (pyOr (pyShl r 1) (pyAnd 1 (pyShr src (b : Int))))

/-- The un-sanitized result of `_execute` for the simple ops, `c` and `s`. -/
def rawExec (op : Op) (args : List (Nat × Int)) : Int :=
  match op, args with
  | .w,    [(_, x)]          => f_w x
  | .inv,  [(_, x)]          => f_inv x
  | .and,  [(_, a), (_, b)]  => f_and a b
  | .or,   [(_, a), (_, b)]  => f_or a b
  | .xor,  [(_, a), (_, b)]  => f_xor a b
  | .nand, [(_, a), (_, b)]  => f_nand a b
  | .add,  [(_, a), (_, b)]  => f_add a b
  | .sub,  [(_, a), (_, b)]  => f_sub a b
  | .mul,  [(_, a), (_, b)]  => f_mul a b
  | .lt,   [(_, a), (_, b)]  => f_lt a b
  | .gt,   [(_, a), (_, b)]  => f_gt a b
  | .eq,   [(_, a), (_, b)]  => f_eq a b
  | .mux,  [(_, s), (_, f), (_, t)] => f_mux s f t
  | .concat, l               => concatLoop l 0
  | .select idx, [(_, src)]  => selectLoop idx.reverse src 0
  | _, _ => 0

/-- `_execute` then `_sanitize`: the value stored for the destination (width `dw`). -/
def exec (op : Op) (args : List (Nat × Int)) (dw : Nat) : Nat :=
  (sanitize (rawExec op args) (mask dw)).toNat

def netFun (b : Block) (st : State) (n : Net) (vals : List Nat) : Nat :=
  let dw := b.width n.dest
  match n.op with
  | .mread m => (sanitize (memRead b st m (vals.headD 0) : Nat) (mask dw)).toNat
  | op => exec op ((n.args.map b.width).zip (vals.map Int.ofNat)) dw

/-- `for net in self.ordered_nets: self._execute(net)` -/
def execNets (b : Block) (st : State) : List Net → Env → Env := evalSeq (netFun b st)

/-- simulator object state: `value`, `regvalue`, `memvalue` -/
structure Sim where
  value : Env
  regvalue : Nat → Nat
  mem : Nat → Nat → Nat

/-- `_mem_update` over `mem_update_nets` (an arbitrary order of the `@` nets). -/
def memUpdate (value : Env) : List Net → (Nat → Nat → Nat) → (Nat → Nat → Nat)
  | [], mm => mm
  | n :: ns, mm =>
    match n.op, n.args with
    | .mwrite m, [a, d, en] =>
      memUpdate value ns
        (if value en ≠ 0 then (fun m' a' => if m' = m ∧ a' = value a then value d else mm m' a')
         else mm)
    | _, _ => memUpdate value ns mm

def isReg (b : Block) (i : Nat) : Bool := match b.kind i with | .reg _ => true | _ => false
def isInput (b : Block) (i : Nat) : Bool := match b.kind i with | .input => true | _ => false

/-- register capture: `regvalue[dest] = _sanitize(value[arg], dest)` for every `r` net -/
def regCapture (b : Block) (value : Env) (old : Nat → Nat) : Nat → Nat := fun r =>
  match regNetOf b r with
  | some n => (sanitize (value (n.args.headD 0) : Nat) (mask (b.width r))).toNat
  | none => old r

/-- `Simulation.step` (inputs already validated). Returns the traced valuation and the new object. -/
def step (b : Block) (order wrOrder : List Net) (s : Sim) (inp : Env) : Env × Sim :=
  let v1 : Env := fun i => if isInput b i then inp i else s.value i
  let v2 : Env := fun i => if isReg b i then s.regvalue i else v1 i
  let v3 := execNets b ⟨s.regvalue, s.mem⟩ order v2
  let mem' := memUpdate v3 wrOrder s.mem
  (v3, { value := v3, regvalue := regCapture b v3 s.regvalue, mem := mem' })

/-- `_initialize`: registers, constants, everything else `default_value`. -/
def init (b : Block) (regMap : Nat → Option Nat) (memMap : Nat → Nat → Option Nat)
    (dflt : Nat) : Sim :=
  let st := initState b regMap memMap dflt
  { value := fun i => match b.kind i with
      | .reg _ => st.regs i
      | .const v => v
      | _ => dflt
    regvalue := st.regs
    mem := st.mems }

def run (b : Block) (order wrOrder : List Net) : Sim → List Env → List Env
  | _, [] => []
  | s, inp :: rest =>
    let (env, s') := step b order wrOrder s inp
    env :: run b order wrOrder s' rest

end Pyrtl.PySim
