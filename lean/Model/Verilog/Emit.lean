import Model.Verilog.Sem
/-!
# Model of `output_to_verilog`: the Verilog module emitted for a block

Hand-written from `pyrtl/importexport.py` (`_to_verilog_header/_combinational/_sequential/_memories`);
tied to the real emitter on every run by AST equality with the parsed text (tools/checks/c05.py).
`vn` is the sanitised name of each wire.  No Mathlib.
-/
namespace Pyrtl.Verilog
open Pyrtl

def memName (m : Nat) : String := "mem_" ++ toString m

/-- right-hand side of the continuous assignment emitted for a combinational net -/
def emitExpr (vn : Nat → String) (width : Nat → Nat) (n : Net) : Option VExpr :=
  match n.op, n.args with
  | .w, [a] => some (.id (vn a))
  | .inv, [a] => some (.not (.id (vn a)))
  | .and, [a, b] => some (.bin .and (.id (vn a)) (.id (vn b)))
  | .or, [a, b] => some (.bin .or (.id (vn a)) (.id (vn b)))
  | .xor, [a, b] => some (.bin .xor (.id (vn a)) (.id (vn b)))
  | .add, [a, b] => some (.bin .add (.id (vn a)) (.id (vn b)))
  | .sub, [a, b] => some (.bin .sub (.id (vn a)) (.id (vn b)))
  | .mul, [a, b] => some (.bin .mul (.id (vn a)) (.id (vn b)))
  | .lt, [a, b] => some (.cmp .lt (.id (vn a)) (.id (vn b)))
  | .gt, [a, b] => some (.cmp .gt (.id (vn a)) (.id (vn b)))
  | .eq, [a, b] => some (.cmp .eq (.id (vn a)) (.id (vn b)))
  | .mux, [s, f, t] => some (.tern (.id (vn s)) (.id (vn t)) (.id (vn f)))
  | .concat, args => some (.cat (args.map fun a => .id (vn a)))
  | .select idx, [a] =>
      some (.cat (idx.reverse.map fun i => if width a > 1 then VExpr.bit (vn a) i else .id (vn a)))
  | .mread m, [a] => some (.mem (memName m) (.id (vn a)))
  | _, _ => none

def romWord (tbl : List (Nat × Nat)) (a : Nat) : Option Nat := (tbl.find? (·.1 == a)).map (·.2)

/-- `reset`: 0 = `add_reset=False`, 1 = `True`, 2 = `'asynchronous'` -/
def emitModule (b : Block) (vn : Nat → String) (reset : Nat) : Option VModule := do
  let ids := List.range b.wires.size
  let comb := b.nets.filter fun n => n.op.isComb
  let rhs ← comb.mapM fun n => (emitExpr vn b.width n).map fun e => (vn n.dest, e)
  let consts := ids.filterMap fun i => match b.kind i with
    | .const v => some (vn i, VExpr.num none v)
    | _ => none
  let regNets := b.nets.filter fun n => n.op == .reg
  let usedMems := b.mems.filter fun m => b.nets.any fun n => n.op == .mread m.id || n.op == .mwrite m.id
  let romInit ← (usedMems.filter (·.rom.isSome)).mapM fun m =>
    (List.range (2 ^ m.addrW)).mapM fun a => (romWord (m.rom.getD []) a).map fun v => (memName m.id, a, m.dataW, v)
  let resetVal (i : Nat) : Nat := match b.kind i with
    | .reg (some v) => v
    | _ => 0
  let updates := regNets.map fun n => Stmt.nba (vn n.dest) none (.id (vn (n.args.headD 0)))
  let resets := regNets.map fun n => Stmt.nba (vn n.dest) none (.num none (resetVal n.dest))
  let regAlways : List (Bool × List Stmt) :=
    if regNets.isEmpty then []
    else if reset = 0 then [(false, updates)]
    else [(reset = 2, [Stmt.ite (.id "rst") resets updates])]
  let memAlways := usedMems.filterMap fun m =>
    let ws := b.nets.filter fun n => n.op == .mwrite m.id
    if ws.isEmpty then none
    else some (false, ws.map fun n =>
      Stmt.ite (.id (vn (n.args.getD 2 0)))
        [Stmt.nba (memName m.id) (some (.id (vn (n.args.getD 0 0)))) (.id (vn (n.args.getD 1 0)))] [])
  return {
    widths := ids.map fun i => (vn i, b.width i)
    inputs := (ids.filter fun i => b.kind i == .input).map vn
    outputs := (ids.filter fun i => b.kind i == .output).map vn
    regs := (ids.filter fun i => match b.kind i with | .reg _ => true | _ => false).map vn
    mems := usedMems.map fun m => (memName m.id, m.dataW, 2 ^ m.addrW)
    romInit := romInit.flatten
    assigns := consts ++ rhs
    always := regAlways ++ memAlways }

end Pyrtl.Verilog
