import Model.Core.Spec
import Model.Core.PyInt
/-!
# Semantics of the Verilog subset that `output_to_verilog` emits  (the specification side of C05)

Transcribed from IEEE 1364-2001: §4.4 expression bit lengths (Table 29: `+ - * & | ^ ~` and `?:` are
context-determined and take the larger of their operands and the assignment target; the operands of
relational and equality operators are sized to the larger of the two and the result is one bit; a
concatenation is the sum of its self-determined members; the condition of `?:` and an index are
self-determined), §4.5 (every operand here is unsigned; an unsized decimal literal is taken at its
mathematical value and "at least 32 bits"), §6.1 continuous assignment (truncation/zero extension to
the target), §9.2.2 non-blocking assignment (all right-hand sides are evaluated before any target
changes; the last assignment to a target wins).  No Mathlib.
-/
namespace Pyrtl.Verilog

inductive BinOp where
  | and | or | xor | add | sub | mul
  deriving DecidableEq, Repr, Inhabited

inductive CmpOp where
  | lt | gt | eq
  deriving DecidableEq, Repr, Inhabited

inductive VExpr where
  | id (n : String)
  | num (w : Option Nat) (v : Nat)
  | not (a : VExpr)
  | bin (op : BinOp) (a b : VExpr)
  | cmp (op : CmpOp) (a b : VExpr)
  | tern (c a b : VExpr)
  | cat (xs : List VExpr)
  | bit (n : String) (i : Nat)
  | mem (m : String) (a : VExpr)
  deriving Repr, Inhabited

/-- what an expression can see: declared vector widths and current values, memory word widths and
    contents -/
structure VEnv where
  width : String → Nat
  val   : String → Nat
  memW  : String → Nat
  memV  : String → Nat → Nat

def binop (op : BinOp) (a b W : Nat) : Nat :=
  match op with
  | .and => a &&& b
  | .or  => a ||| b
  | .xor => a ^^^ b
  | .add => (a + b) % 2 ^ W
  | .sub => (a + 2 ^ W - b) % 2 ^ W
  | .mul => (a * b) % 2 ^ W

def cmpop (op : CmpOp) (a b : Nat) : Nat :=
  match op with
  | .lt => if a < b then 1 else 0
  | .gt => if a > b then 1 else 0
  | .eq => if a = b then 1 else 0

mutual
/-- self-determined bit length (Table 29) -/
def selfW (E : VEnv) : VExpr → Nat
  | .id n => E.width n
  | .num (some w) _ => w
  | .num none v => max 32 (bitLen v)
  | .not a => selfW E a
  | .bin _ a b => max (selfW E a) (selfW E b)
  | .cmp _ _ _ => 1
  | .tern _ a b => max (selfW E a) (selfW E b)
  | .cat xs => selfWs E xs
  | .bit _ _ => 1
  | .mem m _ => E.memW m
def selfWs (E : VEnv) : List VExpr → Nat
  | [] => 0
  | x :: xs => selfW E x + selfWs E xs
end

mutual
/-- value of an expression evaluated in a context of `W` bits (`W` ≥ its self-determined length) -/
def eval (E : VEnv) (W : Nat) : VExpr → Nat
  | .id n => E.val n % 2 ^ W
  | .num _ v => v % 2 ^ W
  | .not a => 2 ^ W - 1 - eval E W a
  | .bin op a b => binop op (eval E W a) (eval E W b) W
  | .cmp op a b =>
      cmpop op (eval E (max (selfW E a) (selfW E b)) a) (eval E (max (selfW E a) (selfW E b)) b) % 2 ^ W
  | .tern c a b => if eval E (selfW E c) c ≠ 0 then eval E W a else eval E W b
  | .cat xs => evalCat E xs 0 % 2 ^ W
  | .bit n i => Spec.bit (E.val n) i % 2 ^ W
  | .mem m a => E.memV m (eval E (selfW E a) a) % 2 ^ W
/-- concatenation, first member most significant; every member self-determined -/
def evalCat (E : VEnv) : List VExpr → Nat → Nat
  | [], acc => acc
  | x :: xs, acc => evalCat E xs (acc * 2 ^ selfW E x + eval E (selfW E x) x)
end

/-- value stored by `assign lhs = rhs;` / `lhs <= rhs;` into a target of `tw` bits -/
def assignVal (E : VEnv) (tw : Nat) (rhs : VExpr) : Nat :=
  eval E (max (selfW E rhs) tw) rhs % 2 ^ tw

/-! ## statements, modules -/

inductive Stmt where
  | nba (lhs : String) (idx : Option VExpr) (rhs : VExpr)
  | ite (c : VExpr) (t e : List Stmt)
  deriving Repr, Inhabited

/-- a pending non-blocking update -/
inductive Upd where
  | reg (n : String) (v : Nat)
  | mem (m : String) (a v : Nat)
  deriving Repr, Inhabited

mutual
def exec (E : VEnv) : Stmt → List Upd
  | .nba lhs none rhs => [.reg lhs (assignVal E (E.width lhs) rhs)]
  | .nba lhs (some ix) rhs => [.mem lhs (eval E (selfW E ix) ix) (assignVal E (E.memW lhs) rhs)]
  | .ite c t e => if eval E (selfW E c) c ≠ 0 then execs E t else execs E e
def execs (E : VEnv) : List Stmt → List Upd
  | [] => []
  | s :: ss => exec E s ++ execs E ss
end

structure VModule where
  widths  : List (String × Nat)
  inputs  : List String
  outputs : List String
  regs    : List String
  mems    : List (String × Nat × Nat)          -- name, word width, number of words
  romInit : List (String × Nat × Nat × Nat)    -- memory, index, literal width, literal value
  assigns : List (String × VExpr)
  always  : List (Bool × List Stmt)            -- (sensitive to posedge rst too?, body)
  deriving Repr, Inhabited

end Pyrtl.Verilog
