import Model.Lib.Adders
import Proofs.Lemmas.Synth
namespace Pyrtl.Adders
open Pyrtl.Synth

theorem rippleHalfAdd_spec (xs : List Bool) (c : Bool) :
    toNat (rippleHalfAdd xs c) = toNat xs + b2n c := by
  fun_induction rippleHalfAdd xs c with
  | case1 c => simp [toNat]
  | case2 x c => cases x <;> cases c <;> rfl
  | case3 x xs c hne ih =>
    simp only [toNat, ih]
    cases x <;> cases c <;> simp [b2n] <;> omega

theorem rippleAddL_spec (a b : List Bool) (c : Bool) (h : b.length ≤ a.length) :
    toNat (rippleAddL a b c) = toNat a + toNat b + b2n c := by
  fun_induction rippleAddL a b c with
  | case1 x y c =>
    have := oneBitAdd_spec x y c
    simp only [toNat]; omega
  | case2 x xs y c hne =>
    have := oneBitAdd_spec x y c
    simp only [toNat, rippleHalfAdd_spec]; omega
  | case3 x xs y ys c hne1 hne2 ih =>
    have := oneBitAdd_spec x y c
    have ih' := ih (by simpa using h)
    simp only [toNat, ih']; omega
  | case4 xs c => simp [rippleHalfAdd_spec, toNat]
  | case5 b c h1 =>
    cases b with
    | nil => simp [toNat]
    | cons y ys => simp at h

/-- `ripple_add` for operands of any two lengths (the shorter one non-empty or not) -/
theorem rippleAdd_spec (a b : List Bool) (c : Bool) :
    toNat (rippleAdd a b c) = toNat a + toNat b + b2n c := by
  unfold rippleAdd
  split
  · rw [rippleAddL_spec b a c (by omega)]; omega
  · rw [rippleAddL_spec a b c (by omega)]

end Pyrtl.Adders

namespace Pyrtl.Adders
open Pyrtl.Synth

/-- the loop body of `_cla_adder_unit` -/
def claStep (st : List Bool × Bool × Bool × Bool) (gp : Bool × Bool) : List Bool × Bool × Bool × Bool :=
  (st.1 ++ [xor gp.2 st.2.1], gp.1 || (gp.2 && st.2.1), gp.1 || (gp.2 && st.2.2.1), st.2.2.2 && gp.2)

theorem claFold_spec (cin : Bool) (xs ys : List Bool) (h : xs.length = ys.length) :
    ∀ (sums : List Bool) (carry cg cp : Bool), (cg || (cp && cin)) = carry →
      let r := ((List.zipWith (· && ·) xs ys).zip (List.zipWith xor xs ys)).foldl claStep (sums, carry, cg, cp)
      toNat r.1 + 2 ^ (sums.length + xs.length) * b2n r.2.1
          = toNat sums + 2 ^ sums.length * (b2n carry + toNat xs + toNat ys) ∧
        (r.2.2.1 || (r.2.2.2 && cin)) = r.2.1 ∧ r.1.length = sums.length + xs.length := by
  induction xs generalizing ys with
  | nil =>
    intro sums carry cg cp hc
    cases ys with
    | nil => simp [toNat, hc]
    | cons _ _ => simp at h
  | cons x xs ih =>
    intro sums carry cg cp hc
    cases ys with
    | nil => simp at h
    | cons y ys =>
      have hl : xs.length = ys.length := by simpa using h
      simp only [List.zipWith_cons_cons, List.zip_cons_cons, List.foldl_cons]
      have hinv : ((x && y || (xor x y && cg)) || ((cp && xor x y) && cin)) = (x && y || (xor x y && carry)) := by
        subst hc; cases x <;> cases y <;> cases cg <;> cases cp <;> cases cin <;> rfl
      have := ih ys hl (sums ++ [xor (xor x y) carry]) (x && y || (xor x y && carry))
        (x && y || (xor x y && cg)) (cp && xor x y) hinv
      simp only [claStep] at this ⊢
      obtain ⟨h1, h2, h3⟩ := this
      refine ⟨?_, h2, ?_⟩
      · rw [List.length_append, List.length_singleton] at h1
        rw [show sums.length + (x :: xs).length = sums.length + 1 + xs.length by simp; omega, h1]
        rw [toNat_append]
        simp only [toNat, Nat.pow_succ]
        have hfa : b2n (xor (xor x y) carry) + 2 * b2n (x && y || (xor x y && carry)) = b2n x + b2n y + b2n carry := by
          cases x <;> cases y <;> cases carry <;> rfl
        generalize 2 ^ sums.length = P at *
        generalize toNat xs = X at *
        generalize toNat ys = Y at *
        generalize b2n (xor (xor x y) carry) = s at *
        generalize b2n (x && y || (xor x y && carry)) = co at *
        have e1 : P * 2 * (co + X + Y) = P * (2 * co) + P * (2 * X) + P * (2 * Y) := by
          rw [Nat.mul_assoc, Nat.mul_add, Nat.mul_add, Nat.mul_add, Nat.mul_add]
        have e2 : P * (b2n carry + (b2n x + 2 * X) + (b2n y + 2 * Y))
            = P * b2n carry + P * b2n x + P * (2 * X) + P * b2n y + P * (2 * Y) := by
          simp only [Nat.mul_add]; omega
        have e3 : P * (s + 2 * 0) = P * s := by simp
        have e4 : P * (2 * co) + P * s = P * b2n x + P * b2n y + P * b2n carry := by
          rw [← Nat.mul_add, ← Nat.mul_add, ← Nat.mul_add]; congr 1; omega
        rw [e1, e2, e3]; omega
      · rw [h3]; simp; omega

theorem claUnit_spec (a b : List Bool) (cin : Bool) (h : a.length = b.length) (hne : 0 < a.length) :
    toNat (claUnit a b cin).1 + 2 ^ a.length * b2n (claUnit a b cin).2 = toNat a + toNat b + b2n cin ∧
    (claUnit a b cin).1.length = a.length := by
  cases a with
  | nil => simp at hne
  | cons x xs =>
    cases b with
    | nil => simp at h
    | cons y ys =>
      have hl : xs.length = ys.length := by simpa using h
      have hc0 : ((x && y) || (xor x y && cin)) = ((x && y) || (xor x y && cin)) := rfl
      have := claFold_spec cin xs ys hl [xor (xor x y) cin] (x && y || (xor x y && cin)) (x && y) (xor x y) hc0
      simp only [claUnit, List.zipWith_cons_cons]
      have hstep : (fun (st : List Bool × Bool × Bool × Bool) (gp : Bool × Bool) =>
          (st.1 ++ [xor gp.2 st.2.1], gp.1 || (gp.2 && st.2.1), gp.1 || (gp.2 && st.2.2.1), st.2.2.2 && gp.2)) = claStep := rfl
      simp only [] at this
      obtain ⟨h1, h2, h3⟩ := this
      have hfa : b2n (xor (xor x y) cin) + 2 * b2n (x && y || (xor x y && cin)) = b2n x + b2n y + b2n cin := by
        cases x <;> cases y <;> cases cin <;> rfl
      refine ⟨?_, ?_⟩
      · show toNat (List.foldl claStep _ _).1 + _ * b2n ((List.foldl claStep _ _).2.2.1 || ((List.foldl claStep _ _).2.2.2 && cin)) = _
        rw [h2]
        simp only [List.length_singleton, List.length_cons, List.length_nil, Nat.zero_add, toNat,
          Nat.pow_one] at h1 ⊢
        rw [Nat.add_comm xs.length 1]
        omega
      · show (List.foldl claStep _ _).1.length = _
        rw [h3]; simp; omega

end Pyrtl.Adders

namespace Pyrtl.Adders
open Pyrtl.Synth

theorem toNat_take_drop (a : List Bool) (k : Nat) (h : k ≤ a.length) :
    toNat (a.take k) + 2 ^ k * toNat (a.drop k) = toNat a := by
  have := toNat_append (a.take k) (a.drop k)
  rw [List.take_append_drop, List.length_take, Nat.min_eq_left h] at this
  exact this.symm

theorem claUnit_nil (c : Bool) : claUnit [] [] c = ([], c) := rfl

theorem claLoop_spec (ul : Nat) (hul : 0 < ul) :
    ∀ (fuel : Nat) (a b : List Bool) (c : Bool), a.length = b.length → a.length < fuel →
      toNat (claLoop fuel ul a b c) = toNat a + toNat b + b2n c := by
  intro fuel
  induction fuel with
  | zero => intro a b c _ hf; omega
  | succ fuel ih =>
    intro a b c hl hf
    simp only [claLoop]
    split
    · rename_i hle
      by_cases hz : a.length = 0
      · have ha : a = [] := List.eq_nil_of_length_eq_zero hz
        have hb : b = [] := List.eq_nil_of_length_eq_zero (by omega)
        subst ha hb
        simp [claUnit_nil, toNat]
      · obtain ⟨h1, h2⟩ := claUnit_spec a b c hl (by omega)
        rw [toNat_append, h2]
        simp only [toNat]
        omega
    · rename_i hgt
      have hta : (a.take ul).length = ul := by rw [List.length_take]; omega
      have htb : (b.take ul).length = ul := by rw [List.length_take]; omega
      obtain ⟨h1, h2⟩ := claUnit_spec (a.take ul) (b.take ul) c (by rw [hta, htb]) (by omega)
      rw [toNat_append, h2, hta]
      rw [ih (a.drop ul) (b.drop ul) _ (by simp [hl]) (by rw [List.length_drop]; omega)]
      have e1 := toNat_take_drop a ul (by omega)
      have e2 := toNat_take_drop b ul (by omega)
      rw [hta] at h1
      generalize 2 ^ ul = P at *
      generalize toNat (List.drop ul a) = A1 at *
      generalize toNat (List.drop ul b) = B1 at *
      generalize b2n (claUnit (List.take ul a) (List.take ul b) c).2 = co at *
      rw [Nat.mul_add, Nat.mul_add]
      omega

theorem zext_length (l : List Bool) (n : Nat) (h : l.length ≤ n) : (zext l n).length = n := by
  simp [zext]; omega

theorem toNat_replicate_false (k : Nat) : toNat (List.replicate k false) = 0 := by
  induction k with
  | zero => rfl
  | succ k ih => simp [List.replicate_succ, toNat, ih, b2n]

theorem toNat_zext (l : List Bool) (n : Nat) : toNat (zext l n) = toNat l := by
  simp [zext, toNat_append, toNat_replicate_false]

end Pyrtl.Adders
