import Model.Pass.Alias
import Proofs.Lemmas.EvalOrder
import Proofs.Lemmas.LowerNet
import Proofs.Lemmas.Dco
/-!
# Alias elimination preserves the valuation of every kept wire (netlist level)
-/
namespace Pyrtl.Alias
open Pyrtl

/-- `w` is the destination of a removed net -/
def RemovedDest (c : Cert) (w : Nat) : Prop := ∃ r ∈ c.removed, r.dest = w

def removedDestB (c : Cert) (w : Nat) : Bool := c.removed.any (fun r => r.dest == w)

theorem removedDestB_iff (c : Cert) (w : Nat) : removedDestB c w = true ↔ RemovedDest c w := by
  simp [removedDestB, RemovedDest]

/-- the parts of `certOk`, as propositions -/
structure CertFacts (b : Block) (c : Cert) : Prop where
  mem : ∀ r ∈ c.removed, r ∈ b.nets ∧ r.op.isComb = true ∧ justified b c r = true
  keys : ∀ p ∈ c.sigma, RemovedDest c p.1
  total : ∀ r ∈ c.removed, (c.sigma.lookup r.dest).isSome = true
  image : ∀ p ∈ c.sigma, ¬ RemovedDest c p.2
  rew : ∀ p ∈ c.rewrites, p.1 ∈ b.nets ∧ p.1 ∉ c.removed ∧ p.1.op.isComb = true ∧ p.2.op.isComb = true ∧
    rewriteJustified b p.1 p.2 = true

theorem certOk_facts (b : Block) (c : Cert) (h : certOk b c = true) : CertFacts b c := by
  simp only [certOk, Bool.and_eq_true, List.all_eq_true, List.contains_eq_mem, decide_eq_true_eq,
    List.any_eq_true, beq_iff_eq, Bool.not_eq_true', List.any_eq_false] at h
  obtain ⟨⟨⟨⟨h1, h2⟩, h3⟩, h4⟩, h5⟩ := h
  refine ⟨fun r hr => ?_, fun p hp => ?_, h3, fun p hp => ?_, fun p hp => ?_⟩
  · obtain ⟨⟨a, b'⟩, c'⟩ := h1 r hr
    exact ⟨a, b', c'⟩
  · obtain ⟨r, hr, hd⟩ := h2 p hp
    exact ⟨r, hr, hd⟩
  · rintro ⟨r, hr, hd⟩
    exact h4 p hp r hr hd
  · obtain ⟨⟨⟨⟨a1, a2⟩, a3⟩, a4⟩, a5⟩ := h5 p hp
    exact ⟨a1, by simpa using a2, a3, a4, a5⟩

/-- a wire that is not a removed destination is its own replacement -/
theorem sub_of_not_removed (b : Block) (c : Cert) (hf : CertFacts b c) (a : Nat) (h : ¬ RemovedDest c a) :
    sub c.sigma a = a := by
  simp only [sub]
  cases hl : c.sigma.lookup a with
  | none => rfl
  | some x =>
    exfalso
    have hmem : (a, x) ∈ c.sigma := by
      have := List.lookup_eq_some_iff.mp hl
      obtain ⟨l1, l2, heq, _⟩ := this
      rw [heq]; simp
    exact h (hf.keys (a, x) hmem)

/-- the replacement of any wire is a kept wire -/
theorem sub_not_removed (b : Block) (c : Cert) (hf : CertFacts b c) (a : Nat) : ¬ RemovedDest c (sub c.sigma a) := by
  simp only [sub]
  cases hl : c.sigma.lookup a with
  | none =>
    simp only [Option.getD_none]
    intro ⟨r, hr, hd⟩
    have := hf.total r hr
    rw [hd, hl] at this
    simp at this
  | some x =>
    simp only [Option.getD_some]
    have hmem : (a, x) ∈ c.sigma := by
      obtain ⟨l1, l2, heq, _⟩ := List.lookup_eq_some_iff.mp hl
      rw [heq]; simp
    exact hf.image (a, x) hmem

/-! ### the three justifications -/

theorem selectVal_snoc (l : List Nat) (j a : Nat) :
    Spec.selectVal (l ++ [j]) a = Spec.selectVal l a + 2 ^ l.length * Spec.bit a j := by
  induction l with
  | nil => simp [Spec.selectVal]
  | cons x xs ih =>
    simp only [List.cons_append, Spec.selectVal, ih, List.length_cons, Nat.pow_succ]
    rw [Nat.mul_add, Nat.mul_comm (2 ^ xs.length) 2, Nat.mul_assoc]
    omega

/-- selecting every bit in order is the value modulo the width -/
theorem selectVal_range (w a : Nat) : Spec.selectVal (List.range w) a = a % 2 ^ w := by
  induction w with
  | zero => simp [Spec.selectVal, Nat.mod_one]
  | succ k ih =>
    rw [List.range_succ, selectVal_snoc, ih, List.length_range, Nat.mod_pow_succ]
    rfl

theorem comb_long (op : Op) (hc : commutative op = true) (x y z : Nat × Nat) (t : List (Nat × Nat)) (dw : Nat) :
    Spec.comb op (x :: y :: z :: t) dw = 0 := by
  cases op <;> simp_all [commutative, Spec.comb]

/-- a commutative primitive does not care about the order of its two operands (nor, vacuously, of any other number) -/
theorem comb_reverse (op : Op) (hc : commutative op = true) (l : List (Nat × Nat)) (dw : Nat) :
    Spec.comb op l.reverse dw = Spec.comb op l dw := by
  match l with
  | [] => rfl
  | [_] => rfl
  | [(w1, a), (w2, c)] =>
    cases op <;> simp_all [commutative, Spec.comb, Nat.and_comm, Nat.or_comm, Nat.xor_comm, Nat.add_comm, Nat.mul_comm, eq_comm]
  | x :: y :: z :: t =>
    rw [comb_long op hc x y z t dw]
    have hlen : 3 ≤ (x :: y :: z :: t).reverse.length := by simp
    match hrev : (x :: y :: z :: t).reverse, hlen with
    | x' :: y' :: z' :: t', _ => exact comb_long op hc x' y' z' t' dw

/-- interchangeable arguments carry the same value and have the same width, in any valuation that gives constants
    their value -/
theorem argsEq_spec (b : Block) (v : Env) (hconst : ∀ a val, b.kind a = .const val → v a = val)
    (l l' : List Nat) (h : argsEq b l l' = true) : l.map v = l'.map v ∧ l.map b.width = l'.map b.width := by
  simp only [argsEq, Bool.and_eq_true, beq_iff_eq, List.all_eq_true] at h
  obtain ⟨hlen, hall⟩ := h
  induction l generalizing l' with
  | nil =>
    cases l' with
    | nil => exact ⟨rfl, rfl⟩
    | cons _ _ => simp at hlen
  | cons a as ih =>
    cases l' with
    | nil => simp at hlen
    | cons a' as' =>
      simp only [List.length_cons, Nat.add_right_cancel_iff] at hlen
      have hhead := hall (a, a') (by simp)
      have htail := ih as' hlen (fun p hp => hall p (by simp only [List.zip_cons_cons, List.mem_cons]; exact Or.inr hp))
      have hpair : v a = v a' ∧ b.width a = b.width a' := by
        simp only [argEq, Bool.or_eq_true, beq_iff_eq] at hhead
        rcases hhead with rfl | hc
        · exact ⟨rfl, rfl⟩
        · split at hc
          · rename_i val val' hk hk'
            simp only [Bool.and_eq_true, beq_iff_eq] at hc
            exact ⟨by rw [hconst a val hk, hconst a' val' hk', hc.1], hc.2⟩
          · simp at hc
      simp only [List.map_cons, hpair.1, hpair.2, htail.1, htail.2, and_self]

theorem netFun_same (b : Block) (st : State) (k r : Net) (hop : k.op = r.op)
    (hw : b.width k.dest = b.width r.dest) (v : Env)
    (hvals : k.args.map v = r.args.map v) (hwids : k.args.map b.width = r.args.map b.width) :
    netFun b st k (k.args.map v) = netFun b st r (r.args.map v) := by
  simp only [netFun, hop, hw, hvals, hwids]

theorem netFun_swapped (b : Block) (st : State) (k r : Net) (hop : k.op = r.op) (hc : commutative k.op = true)
    (hw : b.width k.dest = b.width r.dest) (v : Env)
    (hvals : k.args.map v = r.args.reverse.map v) (hwids : k.args.map b.width = r.args.reverse.map b.width) :
    netFun b st k (k.args.map v) = netFun b st r (r.args.map v) := by
  have hz : (k.args.map b.width).zip (k.args.map v) = ((r.args.map b.width).zip (r.args.map v)).reverse := by
    rw [hvals, hwids, List.zip_map', List.zip_map', List.map_reverse]
  have hnm : ∀ m, r.op ≠ .mread m := by
    intro m hm
    rw [hop, hm] at hc
    simp [commutative] at hc
  simp only [netFun, hw]
  rw [hop] at hc ⊢
  cases hr : r.op with
  | mread m => exact absurd hr (hnm m)
  | _ =>
    simp only []
    rw [hz]
    rw [hr] at hc
    exact comb_reverse _ hc _ _

theorem constVals_spec (b : Block) (v : Env) (hconst : ∀ a val, b.kind a = .const val → v a = val) :
    ∀ (l : List Nat) (vs : List Nat), constVals b l = some vs → l.map v = vs := by
  intro l
  induction l with
  | nil => intro vs h; simp [constVals] at h; simp [h]
  | cons a rest ih =>
    intro vs h
    simp only [constVals] at h
    split at h
    · rename_i val vs' hk hrest
      simp only [Option.some.injEq] at h
      subst h
      simp [hconst a val hk, ih vs' hrest]
    · simp at h

/-- a net whose arguments are all constants computes `foldVal` -/
theorem foldVal_spec (b : Block) (st : State) (v : Env) (hconst : ∀ a val, b.kind a = .const val → v a = val)
    (n : Net) (fv : Nat) (h : foldVal b n = some fv) : netFun b st n (n.args.map v) = fv := by
  simp only [foldVal] at h
  cases hop : n.op with
  | mread m => simp [hop] at h
  | _ =>
    all_goals
      simp only [hop, Option.map_eq_some_iff] at h
      obtain ⟨vs, hvs, hfv⟩ := h
      simp only [netFun, hop, constVals_spec b v hconst n.args vs hvs]
      exact hfv

/-- a one-bit gate with one constant operand: its value is the table entry of its other operand -/
theorem oneConst_spec (b : Block) (st : State) (v : Env) (hconst : ∀ a val, b.kind a = .const val → v a = val)
    (hrange : ∀ a, v a < 2 ^ b.width a) (n : Net) (cv : Nat) (cf : Bool) (a : Nat)
    (h : oneConst? b n = some (cv, cf, a)) (g : Nat → Nat) (htv : twoVarOp n.op = true)
    (htab : oneConstTable n.op cv cf g = true) :
    a ∈ n.args ∧ b.width a = 1 ∧ b.width n.dest = 1 ∧ netFun b st n (n.args.map v) = g (v a) := by
  simp only [oneConst?] at h
  split at h
  · rename_i p q hargs
    split at h
    · rename_i hw
      simp only [Bool.and_eq_true, beq_iff_eq] at hw
      obtain ⟨⟨hwp, hwq⟩, hwd⟩ := hw
      have hnm : ∀ m, n.op ≠ .mread m := by
        intro m hm; rw [hm] at htv; simp [twoVarOp] at htv
      simp only [oneConstTable, List.all_cons, List.all_nil, Bool.and_true, Bool.and_eq_true, beq_iff_eq] at htab
      obtain ⟨ht0, ht1⟩ := htab
      split at h
      · simp at h
      · rename_i cv' hkp hq
        simp only [Option.some.injEq, Prod.mk.injEq] at h
        obtain ⟨rfl, rfl, rfl⟩ := h
        have hvq : v q < 2 := by have := hrange q; rwa [hwq] at this
        refine ⟨by simp [hargs], hwq, hwd, ?_⟩
        have hcomb : netFun b st n (n.args.map v) = Spec.comb n.op [(1, cv'), (1, v q)] 1 := by
          cases hop : n.op with
          | mread m => exact absurd hop (hnm m)
          | _ => simp [netFun, hop, hargs, hwp, hwq, hwd, hconst p cv' hkp]
        rw [hcomb]
        have : v q = 0 ∨ v q = 1 := by omega
        rcases this with h0 | h1
        · rw [h0]; simpa using ht0
        · rw [h1]; simpa using ht1
      · rename_i cv' hp hkq
        simp only [Option.some.injEq, Prod.mk.injEq] at h
        obtain ⟨rfl, rfl, rfl⟩ := h
        have hvp : v p < 2 := by have := hrange p; rwa [hwp] at this
        refine ⟨by simp [hargs], hwp, hwd, ?_⟩
        have hcomb : netFun b st n (n.args.map v) = Spec.comb n.op [(1, v p), (1, cv')] 1 := by
          cases hop : n.op with
          | mread m => exact absurd hop (hnm m)
          | _ => simp [netFun, hop, hargs, hwp, hwq, hwd, hconst q cv' hp]
        rw [hcomb]
        have : v p = 0 ∨ v p = 1 := by omega
        rcases this with h0 | h1
        · rw [h0]; simpa using ht0
        · rw [h1]; simpa using ht1
      · simp at h
    · simp at h
  · simp at h

/-- a justified removal: the removed destination always carries the value (and has the width) of its replacement,
    provided the same holds for those of its arguments that are removed destinations themselves -/
theorem good_of_justified (b : Block) (c : Cert) (st : State) (e v : Env) (order : List Net)
    (hf : CertFacts b c) (hcons : Consistent (netFun b st) order e v)
    (hord : ∀ n, n ∈ order ↔ (n ∈ b.nets ∧ n.op.isComb = true))
    (hrange : ∀ a, v a < 2 ^ b.width a) (hconst : ∀ a val, b.kind a = .const val → v a = val)
    (r : Net) (hr : r ∈ c.removed)
    (hargs : ∀ a ∈ r.args, RemovedDest c a →
      (v a = v (sub c.sigma a) ∧ b.width a = b.width (sub c.sigma a))) :
    v r.dest = v (sub c.sigma r.dest) ∧ b.width r.dest = b.width (sub c.sigma r.dest) := by
  obtain ⟨hrm, hrc, hj⟩ := hf.mem r hr
  have hrv : v r.dest = netFun b st r (r.args.map v) := hcons.1 r ((hord r).mpr ⟨hrm, hrc⟩)
  -- value and width of an argument under the replacement map
  have harg : ∀ a ∈ r.args, v a = v (sub c.sigma a) ∧ b.width a = b.width (sub c.sigma a) := by
    intro a ha
    by_cases hra : RemovedDest c a
    · exact hargs a ha hra
    · rw [sub_of_not_removed b c hf a hra]; exact ⟨rfl, rfl⟩
  simp only [justified, Bool.or_eq_true] at hj
  rcases hj with (((hA | hC) | hC1) | hI) | hB
  · simp only [justAlias] at hA
    split at hA
    · -- a `w` net of equal width
      rename_i a hop hra
      simp only [Bool.and_eq_true, beq_iff_eq] at hA
      obtain ⟨hsa, hwa⟩ := hA
      obtain ⟨hva, hwa'⟩ := harg a (by simp [hra])
      have hval : v r.dest = v a := by
        rw [hrv]
        simp only [netFun, hop, hra, List.map_cons, List.map_nil, List.zip_cons_cons, List.zip_nil_right, Spec.comb]
        rw [← hwa]
        exact Nat.mod_eq_of_lt (hrange a)
      exact ⟨by rw [hval, hva, hsa], by rw [← hwa, hwa', hsa]⟩
    · -- a select of all bits in order
      rename_i idx a hop hra
      simp only [Bool.and_eq_true, beq_iff_eq, fullSlice] at hA
      obtain ⟨⟨hidx, hsa⟩, hwa⟩ := hA
      obtain ⟨hva, hwa'⟩ := harg a (by simp [hra])
      have hval : v r.dest = v a := by
        rw [hrv]
        simp only [netFun, hop, hra, List.map_cons, List.map_nil, List.zip_cons_cons, List.zip_nil_right, Spec.comb]
        rw [hidx, selectVal_range, ← hwa, Nat.mod_mod, Nat.mod_eq_of_lt (hrange a)]
      exact ⟨by rw [hval, hva, hsa], by rw [← hwa, hwa', hsa]⟩
    · simp at hA
  · -- constant folding
    simp only [justConst] at hC
    split at hC
    · rename_i cv fv hk hfv
      simp only [Bool.and_eq_true, beq_iff_eq] at hC
      obtain ⟨hcv, hw⟩ := hC
      refine ⟨?_, hw.symm⟩
      rw [hrv, foldVal_spec b st v hconst r fv hfv, hconst _ cv hk, hcv]
    · simp at hC
  · -- a one-bit gate with one constant operand and a constant result
    simp only [justConst1, Bool.and_eq_true] at hC1
    obtain ⟨htv, hC1⟩ := hC1
    split at hC1
    · rename_i k cv cf a hk hone
      simp only [Bool.and_eq_true, beq_iff_eq] at hC1
      obtain ⟨htab, hw⟩ := hC1
      obtain ⟨_, _, hwd, hval⟩ := oneConst_spec b st v hconst hrange r cv cf a hone (fun _ => k) htv htab
      exact ⟨by rw [hrv, hval, hconst _ k hk], by rw [hwd, hw]⟩
    · simp at hC1
  · -- a one-bit gate passing its other operand through
    simp only [justIdent, Bool.and_eq_true] at hI
    obtain ⟨htv, hI⟩ := hI
    split at hI
    · rename_i cv cf a hone
      simp only [Bool.and_eq_true, beq_iff_eq] at hI
      obtain ⟨htab, hsa⟩ := hI
      obtain ⟨hmem, hwa, hwd, hval⟩ := oneConst_spec b st v hconst hrange r cv cf a hone (fun xv => xv) htv htab
      obtain ⟨hva, hwa'⟩ := harg a hmem
      exact ⟨by rw [hrv, hval, hva, hsa], by rw [hwd, ← hwa, hwa', hsa]⟩
    · simp at hI
  · -- the same computation is kept elsewhere
    simp only [justCse, List.any_eq_true, Bool.and_eq_true, Bool.not_eq_true', beq_iff_eq, Bool.or_eq_true,
      List.contains_eq_mem, decide_eq_false_iff_not] at hB
    obtain ⟨k, hkm, ⟨⟨⟨⟨⟨_, hkc⟩, hkd⟩, hkop⟩, hkw⟩, hkargs⟩⟩ := hB
    have hkv : v k.dest = netFun b st k (k.args.map v) := hcons.1 k ((hord k).mpr ⟨hkm, hkc⟩)
    have heq : netFun b st k (k.args.map v) = netFun b st r (r.args.map v) := by
      rcases hkargs with h1 | ⟨h2, h3⟩
      · obtain ⟨e1, e2⟩ := argsEq_spec b v hconst _ _ h1
        exact netFun_same b st k r hkop hkw v e1 e2
      · obtain ⟨e1, e2⟩ := argsEq_spec b v hconst _ _ h3
        exact netFun_swapped b st k r hkop h2 hkw v e1 e2
    exact ⟨by rw [hrv, ← heq, ← hkv, hkd], by rw [← hkw, hkd]⟩

/-- what holds of a removed net: its destination carries the value and has the width of its replacement -/
def Good (b : Block) (c : Cert) (v : Env) (r : Net) : Prop :=
  v r.dest = v (sub c.sigma r.dest) ∧ b.width r.dest = b.width (sub c.sigma r.dest)

theorem alias_values_aux (b : Block) (c : Cert) (st : State) (e v : Env) (order : List Net)
    (hf : CertFacts b c) (hcons : Consistent (netFun b st) order e v)
    (hord : ∀ n, n ∈ order ↔ (n ∈ b.nets ∧ n.op.isComb = true))
    (hrange : ∀ a, v a < 2 ^ b.width a) (hconst : ∀ a val, b.kind a = .const val → v a = val)
    (hsingle : ∀ n ∈ order, ∀ m ∈ order, n.dest = m.dest → n = m) :
    ∀ (ns : List Net) (done : List Nat), (∀ n ∈ ns, n ∈ order) → Topo order ns done →
      (∀ r ∈ c.removed, r.dest ∈ done → Good b c v r) → ∀ r ∈ c.removed, r ∈ ns → Good b c v r := by
  intro ns
  induction ns with
  | nil => intro _ _ _ _ r _ hr; simp at hr
  | cons m ms ih =>
    intro done hsub htopo hprev r hr hrin
    obtain ⟨hargsT, _, hrest⟩ := htopo
    have inOrder : ∀ r' ∈ c.removed, r' ∈ order := fun r' hr' =>
      (hord r').mpr ⟨(hf.mem r' hr').1, (hf.mem r' hr').2.1⟩
    have hGm : m ∈ c.removed → Good b c v m := fun hm =>
      good_of_justified b c st e v order hf hcons hord hrange hconst m hm (fun a ha hra => by
        obtain ⟨r', hr', hd'⟩ := hra
        rcases hargsT a ha with hdone | hund
        · have := hprev r' hr' (hd' ▸ hdone)
          simpa [Good, hd'] using this
        · exact absurd hd' (hund r' (inOrder r' hr')))
    rcases List.mem_cons.mp hrin with rfl | hrms
    · exact hGm hr
    · apply ih (m.dest :: done) (fun n hn => hsub n (by simp [hn])) hrest _ r hr hrms
      intro r' hr' hd'
      rcases List.mem_cons.mp hd' with heq | hdone
      · have : r' = m := hsingle r' (inOrder r' hr') m (hsub m (by simp)) heq
        subst this
        exact hGm hr'
      · exact hprev r' hr' hdone

/-- **every removed destination carries the value and has the width of its replacement** -/
theorem alias_values (b : Block) (c : Cert) (st : State) (e v : Env) (order : List Net)
    (hf : CertFacts b c) (hcons : Consistent (netFun b st) order e v)
    (hord : ∀ n, n ∈ order ↔ (n ∈ b.nets ∧ n.op.isComb = true)) (hto : Topo order order [])
    (hrange : ∀ a, v a < 2 ^ b.width a) (hconst : ∀ a val, b.kind a = .const val → v a = val)
    (hsingle : ∀ n ∈ order, ∀ m ∈ order, n.dest = m.dest → n = m) :
    ∀ r ∈ c.removed, Good b c v r := by
  intro r hr
  have hin : r ∈ order := (hord r).mpr ⟨(hf.mem r hr).1, (hf.mem r hr).2.1⟩
  exact alias_values_aux b c st e v order hf hcons hord hrange hconst hsingle order [] (fun _ h => h) hto
    (fun _ _ h => by simp at h) r hr hin

theorem netFun_applyCert (b : Block) (c : Cert) (st : State) : netFun (applyCert b c) st = netFun b st := rfl

theorem mem_applyCert (b : Block) (c : Cert) (n' : Net) (h : n' ∈ (applyCert b c).nets) :
    ∃ n ∈ b.nets, n ∉ c.removed ∧ n' = substNet c.sigma (rewritten c n) := by
  simp only [applyCert, keptNets, List.mem_map, List.mem_filter, Bool.not_eq_true', List.contains_eq_mem,
    decide_eq_false_iff_not] at h
  obtain ⟨n, ⟨hn, hnr⟩, rfl⟩ := h
  exact ⟨n, hn, hnr, rfl⟩

/-- a kept net stands for itself or for its justified rewrite -/
theorem rewritten_cases (c : Cert) (n : Net) :
    rewritten c n = n ∨ ∃ n', (n, n') ∈ c.rewrites ∧ rewritten c n = n' := by
  simp only [rewritten]
  cases hl : c.rewrites.lookup n with
  | none => exact Or.inl rfl
  | some n' =>
    right
    obtain ⟨l1, l2, heq, _⟩ := List.lookup_eq_some_iff.mp hl
    exact ⟨n', by rw [heq]; simp, rfl⟩

/-- a justified rewrite computes what the net it replaces computes, into the same destination -/
theorem rewrite_sound (b : Block) (st : State) (v : Env) (hconst : ∀ a val, b.kind a = .const val → v a = val)
    (hrange : ∀ a, v a < 2 ^ b.width a) (o n' : Net) (h : rewriteJustified b o n' = true) :
    n'.dest = o.dest ∧ netFun b st n' (n'.args.map v) = netFun b st o (o.args.map v) := by
  simp only [rewriteJustified, Bool.and_eq_true, beq_iff_eq, Bool.or_eq_true] at h
  obtain ⟨hd, hj⟩ := h
  have hdest : n'.dest = o.dest := by simp [Net.dest, hd]
  refine ⟨hdest, ?_⟩
  rcases hj with ((hW | hW1) | hWi) | hI
  · split at hW
    · rename_i cw fv hop hargs hfv
      split at hW
      · rename_i cv hk
        simp only [beq_iff_eq] at hW
        rw [foldVal_spec b st v hconst o fv hfv]
        simp only [netFun, hop, hargs, List.map_cons, List.map_nil, List.zip_cons_cons, List.zip_nil_right, Spec.comb,
          hconst cw cv hk, hdest]
        exact hW
      · simp at hW
    · simp at hW
  · split at hW1
    · rename_i cw hop hargs
      simp only [Bool.and_eq_true] at hW1
      obtain ⟨htv, hW1⟩ := hW1
      split at hW1
      · rename_i k cv cf a hk hone
        obtain ⟨_, _, hwd, hval⟩ := oneConst_spec b st v hconst hrange o cv cf a hone (fun _ => k % 2) htv hW1
        rw [hval]
        simp only [netFun, hop, hargs, List.map_cons, List.map_nil, List.zip_cons_cons, List.zip_nil_right, Spec.comb,
          hconst cw k hk, hdest, hwd]
      · simp at hW1
    · simp at hW1
  · split at hWi
    · rename_i a hop hargs
      simp only [Bool.and_eq_true] at hWi
      obtain ⟨htv, hWi⟩ := hWi
      split at hWi
      · rename_i cv cf a' hone
        simp only [Bool.and_eq_true, beq_iff_eq] at hWi
        obtain ⟨haa, htab⟩ := hWi
        subst haa
        obtain ⟨_, hwa, hwd, hval⟩ := oneConst_spec b st v hconst hrange o cv cf a' hone (fun xv => xv) htv htab
        rw [hval]
        have hva : v a' < 2 := by have := hrange a'; rwa [hwa] at this
        simp only [netFun, hop, hargs, List.map_cons, List.map_nil, List.zip_cons_cons, List.zip_nil_right, Spec.comb,
          hdest, hwd]
        omega
      · simp at hWi
    · simp at hWi
  · split at hI
    · rename_i a hop hargs
      simp only [Bool.and_eq_true] at hI
      obtain ⟨htv, hI⟩ := hI
      split at hI
      · rename_i cv cf a' hone
        simp only [Bool.and_eq_true, beq_iff_eq] at hI
        obtain ⟨haa, htab⟩ := hI
        subst haa
        obtain ⟨_, hwa, hwd, hval⟩ := oneConst_spec b st v hconst hrange o cv cf a' hone (fun xv => 1 - xv) htv htab
        rw [hval]
        have hva : v a' < 2 := by have := hrange a'; rwa [hwa] at this
        simp only [netFun, hop, hargs, List.map_cons, List.map_nil, List.zip_cons_cons, List.zip_nil_right, Spec.comb,
          hdest, hwd]
        have : v a' = 0 ∨ v a' = 1 := by omega
        rcases this with h0 | h1
        · simp [h0]
        · simp [h1]
      · simp at hI
    · simp at hI

/-- **alias elimination preserves the valuation of every kept wire**: for any dependency orders of the
    combinational nets before and after, any source valuation whose consistent extension is in range. -/
theorem alias_eval (b : Block) (c : Cert) (st : State) (e : Env) (order order' : List Net)
    (hok : certOk b c = true)
    (hord : ∀ n, n ∈ order ↔ (n ∈ b.nets ∧ n.op.isComb = true)) (hto : Topo order order [])
    (hsingle : ∀ n ∈ order, ∀ m ∈ order, n.dest = m.dest → n = m)
    (hord' : ∀ n, n ∈ order' ↔ (n ∈ (applyCert b c).nets ∧ n.op.isComb = true)) (hto' : Topo order' order' [])
    (hrange : ∀ a, evalNets b st order e a < 2 ^ b.width a)
    (hconst : ∀ a val, b.kind a = .const val → evalNets b st order e a = val) :
    ∀ x, ¬ RemovedDest c x → evalNets (applyCert b c) st order' e x = evalNets b st order e x := by
  intro x hx
  have hf := certOk_facts b c hok
  have cons := evalSeq_consistent (netFun b st) order e hto
  have cons' := evalSeq_consistent (netFun b st) order' e hto'
  let v := evalSeq (netFun b st) order e
  have hgood := alias_values b c st e v order hf cons hord hto hrange hconst hsingle
  let v' : Env := fun w => if removedDestB c w = true then e w else v w
  have hv'_of : ∀ w, ¬ RemovedDest c w → v' w = v w := by
    intro w hw
    have : removedDestB c w = false := by
      cases hb : removedDestB c w with
      | false => rfl
      | true => exact absurd ((removedDestB_iff c w).mp hb) hw
    simp [v', this]
  -- value / width of a wire under the replacement map
  have hsubst : ∀ a, v (sub c.sigma a) = v a ∧ b.width (sub c.sigma a) = b.width a := by
    intro a
    by_cases hra : RemovedDest c a
    · obtain ⟨r, hr, hd⟩ := hra
      have := hgood r hr
      simp only [Good, hd] at this
      exact ⟨this.1.symm, this.2.symm⟩
    · rw [sub_of_not_removed b c hf a hra]; exact ⟨rfl, rfl⟩
  have hcons : Consistent (netFun b st) order' e v' := by
    constructor
    · intro n' hn'
      obtain ⟨hmem', hc'⟩ := (hord' n').mp hn'
      obtain ⟨n, hn, hnr, rfl⟩ := mem_applyCert b c n' hmem'
      -- the net that stands for `n`: itself or its justified rewrite
      have hm : n.op.isComb = true ∧ (rewritten c n).dest = n.dest ∧
          netFun b st (rewritten c n) ((rewritten c n).args.map v) = netFun b st n (n.args.map v) := by
        rcases rewritten_cases c n with heq | ⟨m, hmem, heq⟩
        · rw [heq]
          exact ⟨by rw [heq] at hc'; exact hc', rfl, rfl⟩
        · obtain ⟨_, _, hoc, _, hj⟩ := hf.rew (n, m) hmem
          obtain ⟨hd, hv⟩ := rewrite_sound b st v hconst hrange n m hj
          rw [heq]
          exact ⟨hoc, hd, hv⟩
      obtain ⟨hnc, hmd, hmv⟩ := hm
      have hnin : n ∈ order := (hord n).mpr ⟨hn, hnc⟩
      -- the destination of a kept net is a kept wire
      have hdk : ¬ RemovedDest c n.dest := by
        rintro ⟨r, hr, hd⟩
        have hrin : r ∈ order := (hord r).mpr ⟨(hf.mem r hr).1, (hf.mem r hr).2.1⟩
        have : r = n := hsingle r hrin n hnin hd
        exact hnr (this ▸ hr)
      show v' (rewritten c n).dest = netFun b st (substNet c.sigma (rewritten c n))
        ((substNet c.sigma (rewritten c n)).args.map v')
      have hvn : v n.dest = netFun b st n (n.args.map v) := cons.1 n hnin
      rw [hmd, hv'_of _ hdk, hvn, ← hmv]
      have hvals : (substNet c.sigma (rewritten c n)).args.map v' = (rewritten c n).args.map v := by
        simp only [substNet, List.map_map]
        apply List.map_congr_left
        intro a _
        simp only [Function.comp]
        rw [hv'_of _ (sub_not_removed b c hf a), (hsubst a).1]
      have hwid : (substNet c.sigma (rewritten c n)).args.map b.width = (rewritten c n).args.map b.width := by
        simp only [substNet, List.map_map]
        apply List.map_congr_left
        intro a _
        simp only [Function.comp]
        exact (hsubst a).2
      rw [hvals]
      simp only [netFun, hwid]
      rfl
    · intro y hy
      by_cases hry : RemovedDest c y
      · have : removedDestB c y = true := (removedDestB_iff c y).mpr hry
        simp [v', this]
      · rw [hv'_of y hry]
        apply cons.2
        intro n hn hnd
        obtain ⟨hnm, hnc⟩ := (hord n).mp hn
        have hnr : n ∉ c.removed := fun h => hry ⟨n, h, hnd⟩
        have hmem' : substNet c.sigma (rewritten c n) ∈ (applyCert b c).nets := by
          simp only [applyCert, keptNets, List.mem_map, List.mem_filter, Bool.not_eq_true', List.contains_eq_mem,
            decide_eq_false_iff_not]
          exact ⟨n, ⟨hnm, hnr⟩, rfl⟩
        have hrc : (rewritten c n).op.isComb = true ∧ (rewritten c n).dest = n.dest := by
          rcases rewritten_cases c n with heq | ⟨m, hmem, heq⟩
          · rw [heq]; exact ⟨hnc, rfl⟩
          · obtain ⟨_, _, _, hmc, hj⟩ := hf.rew (n, m) hmem
            rw [heq]
            have hdj : m.dests = n.dests := by
              simp only [rewriteJustified, Bool.and_eq_true, beq_iff_eq] at hj
              exact hj.1
            exact ⟨hmc, by simp [Net.dest, hdj]⟩
        exact hy _ ((hord' _).mpr ⟨hmem', hrc.1⟩) (by show (rewritten c n).dest = y; rw [hrc.2]; exact hnd)
  have huniq := consistent_unique (netFun b st) order' e (evalSeq (netFun b st) order' e) v' hto' cons' hcons
  show evalSeq (netFun (applyCert b c) st) order' e x = evalSeq (netFun b st) order e x
  rw [netFun_applyCert, huniq x, hv'_of x hx]

/-! ### cycles and runs -/

theorem find_kept (g : Net → Net) (removed : List Net) (p : Net → Bool) (l : List Net)
    (hp : ∀ n ∈ l, p (g n) = p n) (hrm : ∀ n ∈ removed, p n = false) :
    ((l.filter (fun n => !removed.contains n)).map g).find? p = (l.find? p).map g := by
  induction l with
  | nil => rfl
  | cons n ns ih =>
    have ihn := ih (fun m hm => hp m (by simp [hm]))
    by_cases hmem : n ∈ removed
    · have hq : (!removed.contains n) = false := by simp [hmem]
      rw [List.filter_cons_of_neg (p := fun n => !removed.contains n) (by simpa using hq), List.find?_cons, hrm n hmem]
      exact ihn
    · have hq : (!removed.contains n) = true := by simp [hmem]
      rw [List.filter_cons_of_pos (p := fun n => !removed.contains n) hq, List.map_cons, List.find?_cons,
        List.find?_cons, hp n (by simp)]
      cases hpn : p n with
      | true => rfl
      | false => exact ihn

theorem filter_kept (g : Net → Net) (removed : List Net) (p : Net → Bool) (l : List Net)
    (hp : ∀ n ∈ l, p (g n) = p n) (hrm : ∀ n ∈ removed, p n = false) :
    ((l.filter (fun n => !removed.contains n)).map g).filter p = (l.filter p).map g := by
  induction l with
  | nil => rfl
  | cons n ns ih =>
    have ihn := ih (fun m hm => hp m (by simp [hm]))
    by_cases hmem : n ∈ removed
    · have hq : (!removed.contains n) = false := by simp [hmem]
      rw [List.filter_cons_of_neg (p := fun n => !removed.contains n) (by simpa using hq),
        List.filter_cons_of_neg (by simp [hrm n hmem])]
      exact ihn
    · have hq : (!removed.contains n) = true := by simp [hmem]
      rw [List.filter_cons_of_pos (p := fun n => !removed.contains n) hq, List.map_cons]
      cases hpn : p n with
      | true =>
        rw [List.filter_cons_of_pos (by rw [hp n (by simp)]; exact hpn), List.filter_cons_of_pos hpn, List.map_cons, ihn]
      | false =>
        rw [List.filter_cons_of_neg (by rw [hp n (by simp)]; simp [hpn]), List.filter_cons_of_neg (by simp [hpn])]
        exact ihn

/-- a net that is not combinational is never rewritten -/
theorem rewritten_noncomb (b : Block) (c : Cert) (hf : CertFacts b c) (n : Net) (h : n.op.isComb = false) :
    rewritten c n = n := by
  rcases rewritten_cases c n with heq | ⟨m, hmem, _⟩
  · exact heq
  · have := (hf.rew (n, m) hmem).2.2.1
    rw [h] at this
    simp at this

/-- what stands for a net has its class (combinational or not) -/
theorem rewritten_isComb (b : Block) (c : Cert) (hf : CertFacts b c) (n : Net) :
    (rewritten c n).op.isComb = n.op.isComb := by
  rcases rewritten_cases c n with heq | ⟨m, hmem, heq⟩
  · rw [heq]
  · obtain ⟨_, _, h1, h2, _⟩ := hf.rew (n, m) hmem
    rw [heq, h1, h2]

theorem regNetOf_applyCert (b : Block) (c : Cert) (hf : CertFacts b c) (r : Nat) :
    regNetOf (applyCert b c) r = (regNetOf b r).map (substNet c.sigma) := by
  have hg : (regNetOf b r).map (fun n => substNet c.sigma (rewritten c n)) = (regNetOf b r).map (substNet c.sigma) := by
    cases hreg : regNetOf b r with
    | none => rfl
    | some n =>
      have hp := List.find?_some hreg
      simp only [Bool.and_eq_true, beq_iff_eq] at hp
      have : rewritten c n = n := rewritten_noncomb b c hf n (by rw [hp.1]; rfl)
      simp [this]
  rw [← hg]
  simp only [regNetOf, applyCert, keptNets]
  apply find_kept (fun n => substNet c.sigma (rewritten c n)) c.removed _ b.nets
  · intro n _
    show ((rewritten c n).op == .reg && (rewritten c n).dests == [r]) = (n.op == .reg && n.dests == [r])
    cases hc : n.op.isComb with
    | false => rw [rewritten_noncomb b c hf n hc]
    | true =>
      have h1 := LowerNet.isComb_not_reg n hc r
      have h2 := LowerNet.isComb_not_reg (rewritten c n) (by rw [rewritten_isComb b c hf n]; exact hc) r
      rw [h1, h2]
  · exact fun n hn => LowerNet.isComb_not_reg n (hf.mem n hn).2.1 r

theorem writeNets_applyCert (b : Block) (c : Cert) (hf : CertFacts b c) :
    writeNets (applyCert b c) = (writeNets b).map (substNet c.sigma) := by
  have hg : (writeNets b).map (fun n => substNet c.sigma (rewritten c n)) = (writeNets b).map (substNet c.sigma) := by
    apply List.map_congr_left
    intro n hn
    have h2 := (List.mem_filter.mp hn).2
    have hc : n.op.isComb = false := by cases hop : n.op <;> simp_all [Op.isComb]
    rw [rewritten_noncomb b c hf n hc]
  rw [← hg]
  simp only [writeNets, applyCert, keptNets]
  apply filter_kept (fun n => substNet c.sigma (rewritten c n)) c.removed _ b.nets
  · intro n _
    show (match (rewritten c n).op with | .mwrite _ => true | _ => false) = (match n.op with | .mwrite _ => true | _ => false)
    cases hc : n.op.isComb with
    | false => rw [rewritten_noncomb b c hf n hc]
    | true =>
      have h1 := LowerNet.isComb_not_write n hc
      have h2 := LowerNet.isComb_not_write (rewritten c n) (by rw [rewritten_isComb b c hf n]; exact hc)
      exact h2.trans h1.symm
  · exact fun n hn => LowerNet.isComb_not_write n (hf.mem n hn).2.1

theorem applyWrites_subst (e e' : Env) (σ : List (Nat × Nat)) (ns : List Net) (mm : Nat → Nat → Nat)
    (h : ∀ a, e' (sub σ a) = e a) : applyWrites e' (ns.map (substNet σ)) mm = applyWrites e ns mm := by
  induction ns generalizing mm with
  | nil => rfl
  | cons n ns ih =>
    simp only [List.map_cons, applyWrites]
    cases hop : n.op with
    | mwrite m =>
      have hop' : (substNet σ n).op = .mwrite m := hop
      match hargs : n.args with
      | [a, d, en] =>
        have hargs' : (substNet σ n).args = [sub σ a, sub σ d, sub σ en] := by simp [substNet, hargs]
        simp only [hop', hargs', h, ih]
      | [] => simp [hop', substNet, hargs, ih]
      | [_] => simp [hop', substNet, hargs, ih]
      | [_, _] => simp [hop', substNet, hargs, ih]
      | _ :: _ :: _ :: _ :: _ => simp [hop', substNet, hargs, ih]
    | _ =>
      have hop' : (substNet σ n).op = n.op := rfl
      simp only [hop', hop, ih]

/-- the hypotheses about the two schedules -/
structure Scheds (b : Block) (c : Cert) (order order' : List Net) : Prop where
  ok : certOk b c = true
  ord : ∀ n, n ∈ order ↔ (n ∈ b.nets ∧ n.op.isComb = true)
  topo : Topo order order []
  single : ∀ n ∈ order, ∀ m ∈ order, n.dest = m.dest → n = m
  ord' : ∀ n, n ∈ order' ↔ (n ∈ (applyCert b c).nets ∧ n.op.isComb = true)
  topo' : Topo order' order' []
  regArity : ∀ n ∈ b.nets, n.op = .reg → ∃ a, n.args = [a]
  constUndriven : ∀ n ∈ b.nets, n.op.isComb = true → ∀ val, b.kind n.dest ≠ .const val

/-- **one cycle**: same value on every kept wire, same next state -/
theorem alias_step (b : Block) (c : Cert) (order order' : List Net) (H : Scheds b c order order')
    (st : State) (inp : Env)
    (hrange : ∀ a, evalNets b st order (baseEnv b st inp) a < 2 ^ b.width a) :
    (∀ x, ¬ RemovedDest c x → (step (applyCert b c) order' st inp).1 x = (step b order st inp).1 x) ∧
    (step (applyCert b c) order' st inp).2 = (step b order st inp).2 := by
  have hf := certOk_facts b c H.ok
  have hconst : ∀ a val, b.kind a = .const val → evalNets b st order (baseEnv b st inp) a = val := by
    intro a val hk
    have hoff : evalSeq (netFun b st) order (baseEnv b st inp) a = baseEnv b st inp a :=
      evalSeq_off (netFun b st) order _ a (fun n hn hd => by
        obtain ⟨hnm, hnc⟩ := (H.ord n).mp hn
        exact H.constUndriven n hnm hnc val (hd ▸ hk))
    show evalSeq (netFun b st) order (baseEnv b st inp) a = val
    rw [hoff]
    simp [baseEnv, hk]
  have henv := alias_eval b c st (baseEnv b st inp) order order' H.ok H.ord H.topo H.single H.ord' H.topo' hrange hconst
  refine ⟨henv, ?_⟩
  -- the value a kept net reads through the replacement map
  have hread : ∀ a, evalNets (applyCert b c) st order' (baseEnv b st inp) (sub c.sigma a)
      = evalNets b st order (baseEnv b st inp) a := by
    intro a
    rw [henv _ (sub_not_removed b c hf a)]
    have cons := evalSeq_consistent (netFun b st) order (baseEnv b st inp) H.topo
    by_cases hra : RemovedDest c a
    · obtain ⟨r, hr, hd⟩ := hra
      have := alias_values b c st _ _ order hf cons H.ord H.topo hrange hconst H.single r hr
      simp only [Good, hd] at this
      exact this.1.symm
    · rw [sub_of_not_removed b c hf a hra]
  simp only [step]
  have hbase : baseEnv (applyCert b c) st inp = baseEnv b st inp := rfl
  rw [hbase]
  congr 1
  · funext r
    simp only [nextRegs, regNetOf_applyCert b c hf]
    have hw : (applyCert b c).width r = b.width r := rfl
    cases hreg : regNetOf b r with
    | none => rfl
    | some n =>
      have hmem : n ∈ b.nets := List.mem_of_find?_eq_some hreg
      have hp := List.find?_some hreg
      simp only [Bool.and_eq_true, beq_iff_eq] at hp
      obtain ⟨a, ha⟩ := H.regArity n hmem hp.1
      simp only [Option.map_some, substNet, ha, List.map_cons, List.map_nil, List.headD_cons, hw]
      rw [hread a]
  · rw [writeNets_applyCert b c hf]
    exact applyWrites_subst _ _ c.sigma (writeNets b) st.mems hread

/-- every cycle of the original run shows only in-range values -/
def RangeRun (b : Block) (order : List Net) : State → List Env → Prop
  | _, [] => True
  | st, inp :: rest =>
    (∀ a, evalNets b st order (baseEnv b st inp) a < 2 ^ b.width a) ∧ RangeRun b order (step b order st inp).2 rest

/-- **every run**: the netlist after alias elimination shows, in every cycle, the value of the original on every
    kept wire -/
theorem alias_run (b : Block) (c : Cert) (order order' : List Net) (H : Scheds b c order order')
    (inps : List Env) (st : State) (hrange : RangeRun b order st inps) :
    Dco.AgreeOn (fun x => ¬ RemovedDest c x) (run (applyCert b c) order' st inps) (run b order st inps) := by
  induction inps generalizing st with
  | nil => simp [run, Dco.AgreeOn]
  | cons inp rest ih =>
    obtain ⟨hr0, hrest⟩ := hrange
    obtain ⟨h1, h2⟩ := alias_step b c order order' H st inp hr0
    simp only [run, Dco.AgreeOn]
    refine ⟨h1, ?_⟩
    rw [h2]
    exact ih _ hrest

theorem schedsOkB_sound (b : Block) (c : Cert) (h : schedsOkB b c = true) :
    Scheds b c (Dco.orderOf b) (Dco.orderOf (applyCert b c)) ∧ ∀ x, b.kind x = .output → ¬ RemovedDest c x := by
  simp only [schedsOkB, Bool.and_eq_true, List.all_eq_true] at h
  obtain ⟨⟨⟨⟨⟨⟨h1, h2⟩, h3⟩, h4⟩, h5⟩, h6⟩, h7⟩ := h
  obtain ⟨ho, hto⟩ := Dco.orderOkB_sound b h3
  obtain ⟨ho', hto'⟩ := Dco.orderOkB_sound (applyCert b c) h4
  refine ⟨⟨h1, ho, hto, ?_, ho', hto', ?_, ?_⟩, ?_⟩
  · intro n hn m hm hd
    have := h5 n hn m hm
    simpa [hd] using this
  · intro n hn hop
    have := h6 n hn
    simp only [hop, beq_self_eq_true, Bool.not_true, Bool.false_or, beq_iff_eq] at this
    match ha : n.args, this with
    | [a], _ => exact ⟨a, rfl⟩
  · intro n hn hc val hk
    have := h7 n hn
    simp [hc, hk] at this
  · rintro x hx ⟨r, hr, hd⟩
    have := h2 r hr
    simp [hd, hx] at this

end Pyrtl.Alias
