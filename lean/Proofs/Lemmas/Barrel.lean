import Model.Lib.Barrel
import Mathlib.Tactic.Ring
namespace Pyrtl.Barrel

theorem shiftSpec_length (bits : List Bool) (b d : Bool) (s : Nat) :
    (shiftSpec bits b d s).length = bits.length := by
  simp [shiftSpec]

theorem getD_shiftSpec (bits : List Bool) (b d : Bool) (s k : Nat) :
    (shiftSpec bits b d s).getD k b = if k < bits.length then shiftBit bits b d s k else b := by
  simp only [shiftSpec, List.getD_eq_getElem?_getD, List.getElem?_map, List.getElem?_range]
  split
  · rename_i h; simp [h]
  · rename_i h; simp [h]

theorem getD_ge (l : List Bool) (k : Nat) (b : Bool) (h : l.length ≤ k) : l.getD k b = b := by
  simp [List.getD_eq_getElem?_getD, List.getElem?_eq_none h]

/-- shifting by `s` and then by `t` is shifting by `s + t` -/
theorem shiftSpec_add (bits : List Bool) (b d : Bool) (s t : Nat) :
    shiftSpec (shiftSpec bits b d s) b d t = shiftSpec bits b d (s + t) := by
  have hl := shiftSpec_length bits b d s
  unfold shiftSpec
  rw [show (List.map (shiftBit bits b d s) (List.range bits.length)).length = bits.length by simp]
  apply List.map_congr_left
  intro j hj
  have hj' : j < bits.length := by simpa using hj
  have key : ∀ k, (List.map (shiftBit bits b d s) (List.range bits.length)).getD k b
      = if k < bits.length then shiftBit bits b d s k else b := getD_shiftSpec bits b d s
  cases d
  · simp only [shiftBit, Bool.false_eq_true, if_false, key]
    split
    · congr 1; omega
    · rw [getD_ge]; omega
  · simp only [shiftBit, if_true, key]
    by_cases c1 : j < t
    · have : j < s + t := by omega
      simp [c1, this]
    · have c2 : j - t < bits.length := by omega
      simp only [c1, if_false, c2, if_true]
      by_cases c3 : j - t < s
      · have : j < s + t := by omega
        simp [c3, this]
      · have : ¬ j < s + t := by omega
        simp only [c3, this, if_false]
        congr 1; omega

theorem shiftSpec_zero (bits : List Bool) (b d : Bool) : shiftSpec bits b d 0 = bits := by
  apply List.ext_getElem
  · simp [shiftSpec]
  · intro i h1 h2
    have h2' : i < bits.length := h2
    cases d <;> simp [shiftSpec, shiftBit, List.getD_eq_getElem?_getD, h2']

/-- `concat(val[:-amt], append_val)` with `append_val` = `amt` copies of the fill bit -/
theorem up_eq (val : List Bool) (b : Bool) (amt : Nat) (h : amt ≤ val.length) :
    List.replicate amt b ++ val.take (val.length - amt) = shiftSpec val b true amt := by
  apply List.ext_getElem?
  intro i
  simp only [shiftSpec, shiftBit, if_true, List.getElem?_map, List.getElem?_range,
    List.getElem?_append, List.length_replicate, List.getElem?_replicate, List.getElem?_take,
    List.getD_eq_getElem?_getD]
  by_cases c1 : i < amt
  · have : i < val.length := by omega
    simp [c1, this, shiftBit]
  · by_cases c2 : i < val.length
    · have : i - amt < val.length - amt := by omega
      have h3 : i - amt < val.length := by omega
      simp [c1, c2, this, shiftBit, List.getD_eq_getElem?_getD, List.getElem?_eq_getElem h3]
    · have : ¬ i - amt < val.length - amt := by omega
      simp [c1, c2, this]

/-- `concat(append_val, val[amt:])` -/
theorem down_eq (val : List Bool) (b : Bool) (amt : Nat) (h : amt ≤ val.length) :
    val.drop amt ++ List.replicate amt b = shiftSpec val b false amt := by
  apply List.ext_getElem?
  intro i
  simp only [shiftSpec, shiftBit, Bool.false_eq_true, if_false, List.getElem?_map, List.getElem?_range,
    List.getElem?_append, List.length_drop, List.getElem?_drop, List.getElem?_replicate,
    List.getD_eq_getElem?_getD]
  by_cases c1 : i < val.length - amt
  · have h3 : amt + i < val.length := by omega
    have : i < val.length := by omega
    have h3' : i + amt < val.length := by omega
    simp [c1, this, shiftBit, List.getD_eq_getElem?_getD, Nat.add_comm]
    rw [List.getElem?_eq_getElem h3]; rfl
  · by_cases c2 : i < val.length
    · have : i - (val.length - amt) < amt := by omega
      have h4 : val.length ≤ i + amt := by omega
      simp [c1, c2, this, shiftBit, List.getD_eq_getElem?_getD, List.getElem?_eq_none h4]
    · have : ¬ i - (val.length - amt) < amt := by omega
      simp [c1, c2, this]

end Pyrtl.Barrel

namespace Pyrtl.Barrel

theorem shiftSpec_ge (val : List Bool) (b d : Bool) (s : Nat) (h : val.length ≤ s) :
    shiftSpec val b d s = List.replicate val.length b := by
  apply List.ext_getElem?
  intro i
  simp only [shiftSpec, List.getElem?_map, List.getElem?_range, List.getElem?_replicate]
  by_cases c : i < val.length
  · have h1 : i < s := by omega
    have h2 : val.length ≤ i + s := by omega
    cases d <;> simp [c, shiftBit, h1, List.getD_eq_getElem?_getD, List.getElem?_eq_none h2]
  · simp [c]

theorem av_double (b : Bool) (n W : Nat) :
    (List.replicate n b ++ List.replicate n b).take W = List.replicate (min (2 * n) W) b := by
  rw [List.replicate_append_replicate, List.take_replicate]
  congr 1; omega

theorem stage_spec (W : Nat) (b d : Bool) (i : Nat) (sel : Bool) (val : List Bool)
    (hv : val.length = W) :
    stage W d i sel (val, List.replicate (min (2 ^ i) W) b)
      = (shiftSpec val b d (2 ^ i * (if sel then 1 else 0)), List.replicate (min (2 ^ (i + 1)) W) b) := by
  unfold stage
  simp only []
  split
  · rename_i hlt
    have hmin : min (2 ^ i) W = 2 ^ i := by omega
    rw [hmin, av_double]
    have hle : 2 ^ i ≤ val.length := by omega
    have hup := up_eq val b (2 ^ i) hle
    have hdn := down_eq val b (2 ^ i) hle
    rw [hv] at hup
    congr 1
    · cases sel
      · simp [shiftSpec_zero]
      · cases d
        · simp [hdn]
        · simp [hup]
    · rw [Nat.pow_succ]; congr 1; omega
  · rename_i hge
    have hmin : min (2 ^ i) W = W := by omega
    have hmin2 : min (2 ^ (i + 1)) W = W := by rw [Nat.pow_succ]; omega
    rw [hmin, hmin2]
    congr 1
    cases sel
    · simp [shiftSpec_zero]
    · simp only [if_true, Nat.mul_one]
      rw [shiftSpec_ge val b d (2 ^ i) (by omega), hv]

theorem loop_spec (W : Nat) (b d : Bool) (sd : List Bool) :
    ∀ (i : Nat) (val : List Bool), val.length = W →
      (loop W d i sd (val, List.replicate (min (2 ^ i) W) b)).1 = shiftSpec val b d (2 ^ i * dist sd) := by
  induction sd with
  | nil => intro i val _; simp [loop, dist, shiftSpec_zero]
  | cons sel rest ih =>
    intro i val hv
    simp only [loop]
    rw [stage_spec W b d i sel val hv, ih (i + 1) _ (by rw [shiftSpec_length]; exact hv), shiftSpec_add]
    congr 1
    simp only [dist, Nat.pow_succ]
    cases sel <;> simp <;> ring_nf

end Pyrtl.Barrel
