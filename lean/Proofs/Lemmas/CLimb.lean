import Model.Sim.CLimb
import Model.Core.Spec
import Mathlib.Tactic.Ring
import Mathlib.Tactic.Linarith
import Mathlib.Data.Nat.Bitwise
import Mathlib.Data.Nat.ModEq
/-! Semantics lemmas for the C-limb fragment: store lookups, limb encodings, sequencing. -/
namespace Pyrtl.CLimb

theorem M_pos : 0 < M := Nat.two_pow_pos 64

@[simp] theorem get_set_same (σ : Env) (x : Var) (n : Nat) : (σ.set x n).get x = n := by
  simp [Env.get, Env.set, List.find?_cons]

theorem get_set_ne (σ : Env) (x y : Var) (n : Nat) (h : y ≠ x) : (σ.set x n).get y = σ.get y := by
  have : ((x == y) = false) := by simpa using (fun e => h e.symm)
  simp [Env.get, Env.set, List.find?_cons, this]

theorem execList_append (σ : Env) (p q : List S) : execList σ (p ++ q) = execList (execList σ p) q := by
  induction p generalizing σ with
  | nil => rfl
  | cons s rest ih => simp only [List.cons_append, execList, ih]

/-- limb `n` of a value -/
def limbOf (V n : Nat) : Nat := V / 2 ^ (64 * n) % M

theorem limbOf_lt (V n : Nat) : limbOf V n < M := Nat.mod_lt _ M_pos

/-- argument `k` holds the value `V` -/
def Enc (σ : Env) (k V : Nat) : Prop := ∀ l, σ.get (.arg k l) = limbOf V l

theorem Enc_set (σ : Env) (k V : Nat) (x : Var) (n : Nat) (h : Enc σ k V) (hx : ∀ l, x ≠ .arg k l) :
    Enc (σ.set x n) k V := by
  intro l
  rw [get_set_ne _ _ _ _ (fun e => hx l e.symm)]
  exact h l

theorem limbOf_zero_of_lt (V w n : Nat) (hV : V < 2 ^ w) (h : w ≤ 64 * n) : limbOf V n = 0 := by
  unfold limbOf
  rw [Nat.div_eq_of_lt (lt_of_lt_of_le hV (Nat.pow_le_pow_right (by decide) h))]
  simp

/-- `_getarglimb` reads the limb of the encoded value, also beyond the argument's own limbs -/
theorem eval_argLimb (σ : Env) (k w n V : Nat) (hE : Enc σ k V) (hV : V < 2 ^ w) :
    (argLimb k w n).eval σ = limbOf V n := by
  unfold argLimb
  split
  · simp [E.eval, hE n]
  · rename_i h
    simp only [E.eval, Nat.zero_mod]
    exact (limbOf_zero_of_lt V w n hV (by omega)).symm

/-- value held by the first `L` limbs of the destination -/
def destVal (σ : Env) : Nat → Nat
  | 0 => 0
  | L + 1 => destVal σ L + σ.get (.dest L) * 2 ^ (64 * L)

theorem destVal_set_other (σ : Env) (x : Var) (v L : Nat) (hx : ∀ l, x ≠ .dest l) :
    destVal (σ.set x v) L = destVal σ L := by
  induction L with
  | zero => rfl
  | succ L ih => simp only [destVal, ih, get_set_ne _ _ _ _ (fun e => hx L e.symm)]

theorem destVal_set_dest_ge (σ : Env) (n v L : Nat) (h : L ≤ n) :
    destVal (σ.set (.dest n) v) L = destVal σ L := by
  induction L with
  | zero => rfl
  | succ L ih =>
    have hne : Var.dest L ≠ Var.dest n := by intro e; injection e with e; omega
    simp only [destVal, ih (by omega), get_set_ne _ _ _ _ hne]

theorem mod_succ_limb (V n : Nat) : V % 2 ^ (64 * (n + 1)) = V % 2 ^ (64 * n) + 2 ^ (64 * n) * limbOf V n := by
  unfold limbOf M
  rw [show 64 * (n + 1) = 64 * n + 64 by ring, Nat.pow_add, Nat.mod_mul]

theorem and_mask (x k : Nat) : x &&& (2 ^ k - 1) = x % 2 ^ k := Nat.and_two_pow_sub_one_eq_mod x k

end Pyrtl.CLimb

namespace Pyrtl.CLimb

/-! ### `_build_add` -/

theorem M_eq : M = 18446744073709551616 := by unfold M; norm_num

/-- carry detection by comparisons: `carry = (tmp < a) | (d < tmp)` -/
theorem add_carry (a b c : Nat) (ha : a < M) (hb : b < M) (hc : c ≤ 1) :
    (((a + b) % M + c) % M = (a + b + c) % M) ∧
    (b2n ((a + b) % M < a) ||| b2n (((a + b) % M + c) % M < (a + b) % M)) = (a + b + c) / M := by
  rw [M_eq] at *
  by_cases h1 : a + b < 18446744073709551616
  · rw [Nat.mod_eq_of_lt h1]
    refine ⟨rfl, ?_⟩
    have e1 : ¬ (a + b < a) := by omega
    by_cases h2 : a + b + c < 18446744073709551616
    · rw [Nat.mod_eq_of_lt h2, Nat.div_eq_of_lt h2]
      have e2 : ¬ (a + b + c < a + b) := by omega
      simp [b2n, e1, e2]
    · have e3 : a + b + c = 18446744073709551616 := by omega
      rw [e3]
      have e2 : 0 < a + b := by omega
      simp [b2n, e1, e2]
  · have et : (a + b) % 18446744073709551616 = a + b - 18446744073709551616 := by omega
    have ed : (a + b + c) % 18446744073709551616 = a + b + c - 18446744073709551616 := by omega
    have eq : (a + b + c) / 18446744073709551616 = 1 := by omega
    refine ⟨by omega, ?_⟩
    rw [et, eq, Nat.mod_eq_of_lt (by omega)]
    have e1 : a + b - 18446744073709551616 < a := by omega
    have e2 : ¬ (a + b - 18446744073709551616 + c < a + b - 18446744073709551616) := by omega
    simp [b2n, e1, e2]

/-- the three statements of one limb of `_build_add` -/
def addBody (wa wb wd n : Nat) : List S :=
  [S.assign .tmp (.add (argLimb 0 wa n) (argLimb 1 wb n)),
   S.assign (.dest n) (mask wd (some (max wa wb + 1)) n (.add (.v .tmp) (.v .carry))),
   S.assign .carry (.bor (.lt (.v .tmp) (argLimb 0 wa n)) (.lt (.v (.dest n)) (.v .tmp)))]

theorem emitAdd_eq (wa wb wd : Nat) :
    emitAdd wa wb wd = S.assign .carry (.lit 0) :: ((List.range (limbs wd)).map (addBody wa wb wd)).flatten := rfl

/-- what the mask does to a value -/
theorem eval_mask (σ : Env) (wd : Nat) (res : Option Nat) (pos : Nat) (e : E) :
    (mask wd res pos e).eval σ =
      if maskCond wd res pos = true then e.eval σ % 2 ^ (wd % 64) else e.eval σ := by
  unfold mask
  by_cases h : maskCond wd res pos = true
  · simp only [h, if_true, E.eval]
    have hlt : 2 ^ (wd % 64) - 1 < M := by
      unfold M
      have : 2 ^ (wd % 64) ≤ 2 ^ 64 := Nat.pow_le_pow_right (by decide) (by omega)
      have := Nat.two_pow_pos (wd % 64)
      omega
    rw [Nat.mod_eq_of_lt hlt, and_mask]
  · simp only [h, Bool.false_eq_true, if_false]

/-- one limb of `_build_add` -/
theorem addBody_exec (σ : Env) (wa wb wd n A B : Nat) (hA : A < 2 ^ wa) (hB : B < 2 ^ wb)
    (h0 : Enc σ 0 A) (h1 : Enc σ 1 B) (hc : σ.get .carry ≤ 1) :
    let σ' := execList σ (addBody wa wb wd n)
    let t := limbOf A n + limbOf B n + σ.get .carry
    Enc σ' 0 A ∧ Enc σ' 1 B ∧
    σ'.get (.dest n) = (if maskCond wd (some (max wa wb + 1)) n = true then (t % M) % 2 ^ (wd % 64) else t % M) ∧
    (maskCond wd (some (max wa wb + 1)) n = false → σ'.get .carry = t / M) ∧
    (∀ l, l ≠ n → σ'.get (.dest l) = σ.get (.dest l)) := by
  intro σ' t
  have ea := eval_argLimb σ 0 wa n A h0 hA
  have eb := eval_argLimb σ 1 wb n B h1 hB
  have hla := limbOf_lt A n
  have hlb := limbOf_lt B n
  obtain ⟨hsum, hcar⟩ := add_carry (limbOf A n) (limbOf B n) (σ.get .carry) hla hlb hc
  -- after `tmp = a + b`
  set σ1 := σ.set .tmp ((limbOf A n + limbOf B n) % M) with hσ1
  have e1 : Enc σ1 0 A := Enc_set _ _ _ _ _ h0 (by intro l; simp)
  have e1' : Enc σ1 1 B := Enc_set _ _ _ _ _ h1 (by intro l; simp)
  have ht1 : σ1.get .tmp = (limbOf A n + limbOf B n) % M := by simp [hσ1]
  have hc1 : σ1.get .carry = σ.get .carry := get_set_ne _ _ _ _ (by simp)
  -- after `dest[n] = (tmp + carry) mask`
  set d := (if maskCond wd (some (max wa wb + 1)) n = true then (t % M) % 2 ^ (wd % 64) else t % M) with hd
  set σ2 := σ1.set (.dest n) d with hσ2
  have e2 : Enc σ2 0 A := Enc_set _ _ _ _ _ e1 (by intro l; simp)
  have e2' : Enc σ2 1 B := Enc_set _ _ _ _ _ e1' (by intro l; simp)
  have hstep : σ' = (σ2.set .carry
      (b2n (σ2.get .tmp < limbOf A n) ||| b2n (σ2.get (.dest n) < σ2.get .tmp))) := by
    show execList σ (addBody wa wb wd n) = _
    simp only [addBody, execList, S.exec, E.eval, ea, eb]
    have hm : (mask wd (some (max wa wb + 1)) n (.add (.v .tmp) (.v .carry))).eval σ1 = d := by
      rw [eval_mask]
      simp only [E.eval, ht1, hc1, hsum, hd]
      rfl
    rw [← hσ1, hm, ← hσ2]
    have ea2 := eval_argLimb σ2 0 wa n A e2 hA
    rw [ea2]
  have ht2 : σ2.get .tmp = (limbOf A n + limbOf B n) % M := by
    rw [hσ2, get_set_ne _ _ _ _ (by simp)]; exact ht1
  have hd2 : σ2.get (.dest n) = d := by simp [hσ2]
  refine ⟨?_, ?_, ?_, ?_, ?_⟩
  · rw [hstep]; exact Enc_set _ _ _ _ _ e2 (by intro l; simp)
  · rw [hstep]; exact Enc_set _ _ _ _ _ e2' (by intro l; simp)
  · rw [hstep, get_set_ne _ _ _ _ (by simp)]; exact hd2
  · intro hm
    rw [hstep, get_set_same, ht2, hd2]
    simp only [hd, hm, Bool.false_eq_true, if_false]
    rw [← hsum]
    exact hcar
  · intro l hl
    have hne : Var.dest l ≠ Var.dest n := by intro e; injection e with e; exact hl e
    rw [hstep, get_set_ne _ _ _ _ (by simp), hσ2, get_set_ne _ _ _ _ hne, hσ1, get_set_ne _ _ _ _ (by simp)]

theorem destVal_congr (σ σ' : Env) (n : Nat) (h : ∀ l, l < n → σ'.get (.dest l) = σ.get (.dest l)) :
    destVal σ' n = destVal σ n := by
  induction n with
  | zero => rfl
  | succ n ih =>
    simp only [destVal, ih (fun l hl => h l (by omega)), h n (by omega)]

theorem maskCond_false_of_lt (wd : Nat) (res : Option Nat) (n : Nat) (h : n + 1 < limbs wd) :
    maskCond wd res n = false := by
  unfold limbs at h
  have : ¬ (wd - 64 * n < 64) := by omega
  simp [maskCond, this]

theorem flatten_map_range_succ {α : Type} (f : Nat → List α) (n : Nat) :
    ((List.range (n + 1)).map f).flatten = ((List.range n).map f).flatten ++ f n := by
  simp [List.range_succ]

/-- invariant of the `_build_add` loop over the limbs below the top one -/
theorem add_prefix (σ0 : Env) (wa wb wd A B : Nat) (hA : A < 2 ^ wa) (hB : B < 2 ^ wb)
    (h0 : Enc σ0 0 A) (h1 : Enc σ0 1 B) (hc0 : σ0.get .carry = 0) (n : Nat) (hn : n < limbs wd) :
    let σ := execList σ0 (((List.range n).map (addBody wa wb wd)).flatten)
    Enc σ 0 A ∧ Enc σ 1 B ∧ σ.get .carry ≤ 1 ∧ destVal σ n < 2 ^ (64 * n) ∧
    destVal σ n + σ.get .carry * 2 ^ (64 * n) = A % 2 ^ (64 * n) + B % 2 ^ (64 * n) := by
  induction n with
  | zero =>
    simp only [List.range_zero, List.map_nil, List.flatten_nil, execList, destVal, hc0]
    exact ⟨h0, h1, by omega, by simp, by simp [Nat.mod_one]⟩
  | succ n ih =>
    obtain ⟨e0, e1, hc, hlt, hinv⟩ := ih (by omega)
    simp only [flatten_map_range_succ, execList_append]
    set σ := execList σ0 (((List.range n).map (addBody wa wb wd)).flatten) with hσ
    obtain ⟨e0', e1', hd, hcar, hoth⟩ := addBody_exec σ wa wb wd n A B hA hB e0 e1 hc
    have hm := maskCond_false_of_lt wd (some (max wa wb + 1)) n hn
    simp only [hm, Bool.false_eq_true, if_false] at hd
    have hcar' := hcar hm
    set σ' := execList σ (addBody wa wb wd n)
    set t := limbOf A n + limbOf B n + σ.get .carry with ht
    have hla := limbOf_lt A n
    have hlb := limbOf_lt B n
    have htlt : t < 2 * M := by omega
    have hdv : destVal σ' n = destVal σ n := destVal_congr σ σ' n (fun l hl => hoth l (by omega))
    refine ⟨e0', e1', ?_, ?_, ?_⟩
    · rw [hcar']
      have : t / M < 2 := Nat.div_lt_of_lt_mul (by omega)
      omega
    · simp only [destVal, hdv, hd]
      have hP : 2 ^ (64 * (n + 1)) = 2 ^ (64 * n) * M := by
        unfold M; rw [← Nat.pow_add]; congr 1
      rw [hP]
      have hmod := Nat.mod_lt t M_pos
      have hPpos := Nat.two_pow_pos (64 * n)
      generalize 2 ^ (64 * n) = P at *
      calc destVal σ n + t % M * P < P + t % M * P := by omega
        _ = (t % M + 1) * P := by ring
        _ ≤ M * P := Nat.mul_le_mul_right _ (by omega)
        _ = P * M := Nat.mul_comm _ _
    · simp only [destVal, hdv, hd, hcar']
      rw [mod_succ_limb A n, mod_succ_limb B n]
      have hP : 2 ^ (64 * (n + 1)) = 2 ^ (64 * n) * M := by
        unfold M; rw [← Nat.pow_add]; congr 1
      rw [hP]
      have hdm := Nat.div_add_mod t M
      generalize 2 ^ (64 * n) = P at *
      have e : t % M * P + t / M * (P * M) = P * t := by
        calc t % M * P + t / M * (P * M) = P * (M * (t / M) + t % M) := by ring
          _ = P * t := by rw [hdm]
      have e2 : P * t = P * limbOf A n + P * limbOf B n + σ.get .carry * P := by rw [ht]; ring
      omega

/-- `x = dv + P*Y` with `dv < P`: reduction modulo `P * Q` -/
theorem mod_split (dv P Y Q : Nat) (hdv : dv < P) : (dv + P * Y) % (P * Q) = dv + P * (Y % Q) := by
  rw [Nat.mod_mul]
  have h1 : (dv + P * Y) % P = dv := by rw [Nat.add_mul_mod_self_left, Nat.mod_eq_of_lt hdv]
  have h2 : (dv + P * Y) / P = Y := by
    rw [Nat.add_mul_div_left _ _ (by omega : 0 < P), Nat.div_eq_of_lt hdv, Nat.zero_add]
  rw [h1, h2]

/-- **`_build_add`**: for operands of any widths (any number of limbs) the destination limbs hold
    `(A + B) mod 2^wd`, for every destination width up to the natural `max(wa, wb) + 1` -/
theorem emitAdd_correct (σ0 : Env) (wa wb wd A B : Nat) (hA : A < 2 ^ wa) (hB : B < 2 ^ wb)
    (h0 : Enc σ0 0 A) (h1 : Enc σ0 1 B) (hwd1 : 0 < wd) (hwd : wd ≤ max wa wb + 1) :
    destVal (execList σ0 (emitAdd wa wb wd)) (limbs wd) = (A + B) % 2 ^ wd := by
  rw [emitAdd_eq]
  simp only [execList, S.exec, E.eval, Nat.zero_mod]
  set σc := σ0.set .carry 0 with hσc
  have c0 : Enc σc 0 A := Enc_set _ _ _ _ _ h0 (by intro l; simp)
  have c1 : Enc σc 1 B := Enc_set _ _ _ _ _ h1 (by intro l; simp)
  have cc : σc.get .carry = 0 := by simp [hσc]
  obtain ⟨n0, hL⟩ : ∃ n0, limbs wd = n0 + 1 := ⟨limbs wd - 1, by unfold limbs; omega⟩
  rw [hL, flatten_map_range_succ, execList_append]
  obtain ⟨e0, e1, hc, hlt, hinv⟩ := add_prefix σc wa wb wd A B hA hB c0 c1 cc n0 (by omega)
  set σ := execList σc (((List.range n0).map (addBody wa wb wd)).flatten) with hσ
  obtain ⟨_, _, hd, _, hoth⟩ := addBody_exec σ wa wb wd n0 A B hA hB e0 e1 hc
  set σ' := execList σ (addBody wa wb wd n0)
  set t := limbOf A n0 + limbOf B n0 + σ.get .carry with ht
  have hdv : destVal σ' n0 = destVal σ n0 := destVal_congr σ σ' n0 (fun l hl => hoth l (by omega))
  simp only [destVal, hdv, hd]
  -- the top limb holds `r` bits
  obtain ⟨r, hr⟩ : ∃ r, wd = 64 * n0 + r ∧ 0 < r ∧ r ≤ 64 := ⟨wd - 64 * n0, by unfold limbs at hL; omega⟩
  obtain ⟨hwr, hr0, hr64⟩ := hr
  have hPQ : 2 ^ wd = 2 ^ (64 * n0) * 2 ^ r := by rw [hwr, Nat.pow_add]
  have hdvdM : 2 ^ r ∣ M := by unfold M; exact Nat.pow_dvd_pow 2 hr64
  -- A + B in terms of the low part and the limb sums
  have hA' := Nat.div_add_mod A (2 ^ (64 * n0))
  have hB' := Nat.div_add_mod B (2 ^ (64 * n0))
  set P := 2 ^ (64 * n0) with hP
  set Y := σ.get .carry + A / P + B / P with hY
  have hX : A + B = destVal σ n0 + P * Y := by
    have : P * Y = σ.get .carry * P + P * (A / P) + P * (B / P) := by rw [hY]; ring
    omega
  -- the limb sum agrees with Y modulo 2^r
  have htY : t % 2 ^ r = Y % 2 ^ r := by
    have ea : limbOf A n0 % 2 ^ r = (A / P) % 2 ^ r := by
      unfold limbOf; exact Nat.mod_mod_of_dvd _ hdvdM
    have eb : limbOf B n0 % 2 ^ r = (B / P) % 2 ^ r := by
      unfold limbOf; exact Nat.mod_mod_of_dvd _ hdvdM
    rw [ht, hY]
    have : (limbOf A n0 + limbOf B n0 + σ.get .carry) % 2 ^ r =
        ((limbOf A n0 % 2 ^ r + limbOf B n0 % 2 ^ r) % 2 ^ r + σ.get .carry % 2 ^ r) % 2 ^ r := by
      rw [Nat.add_mod, Nat.add_mod (limbOf A n0)]
    rw [this, ea, eb, ← Nat.add_mod (A / P), ← Nat.add_mod]
    congr 1; omega
  -- the stored top limb is `t mod 2^r`
  have hd' : (if maskCond wd (some (max wa wb + 1)) n0 = true then t % M % 2 ^ (wd % 64) else t % M) = t % 2 ^ r := by
    by_cases hm : maskCond wd (some (max wa wb + 1)) n0 = true
    · simp only [hm, if_true]
      have hr' : wd % 64 = r := by
        simp only [maskCond, Bool.and_eq_true, decide_eq_true_eq] at hm
        omega
      rw [hr', Nat.mod_mod_of_dvd _ hdvdM]
    · simp only [hm, Bool.false_eq_true, if_false]
      by_cases hr' : r = 64
      · subst hr'; rfl
      · -- no mask although the limb is partial: the destination has the natural width, so nothing overflows
        have hnat : wd = max wa wb + 1 := by
          simp only [maskCond, Bool.and_eq_true, decide_eq_true_eq, not_and, Bool.not_eq_true] at hm
          by_contra hne
          have h1' : wd < max wa wb + 1 := by omega
          have := hm ⟨h1', by omega⟩
          omega
        have hsum : A + B < 2 ^ wd := by
          have ha' : A < 2 ^ max wa wb := lt_of_lt_of_le hA (Nat.pow_le_pow_right (by decide) (Nat.le_max_left _ _))
          have hb' : B < 2 ^ max wa wb := lt_of_lt_of_le hB (Nat.pow_le_pow_right (by decide) (Nat.le_max_right _ _))
          rw [hnat, Nat.pow_succ]; omega
        have hYlt : Y < 2 ^ r := by
          rw [hX, hPQ] at hsum
          have hPpos : 0 < P := Nat.two_pow_pos _
          by_contra hge
          have : P * 2 ^ r ≤ P * Y := Nat.mul_le_mul_left _ (by omega)
          omega
        have hle : 2 ^ r ≤ M := Nat.le_of_dvd M_pos hdvdM
        -- then the limbs are the quotients themselves
        have hAq : A / P < M := by
          have : A / P ≤ Y := by rw [hY]; exact Nat.le_trans (Nat.le_add_left _ _) (Nat.le_add_right _ _)
          omega
        have hBq : B / P < M := by
          have : B / P ≤ Y := by rw [hY]; exact Nat.le_add_left _ _
          omega
        have ea : limbOf A n0 = A / P := by unfold limbOf; exact Nat.mod_eq_of_lt hAq
        have eb : limbOf B n0 = B / P := by unfold limbOf; exact Nat.mod_eq_of_lt hBq
        have htY' : t = Y := by rw [ht, hY, ea, eb]; omega
        rw [htY', Nat.mod_eq_of_lt (by omega), Nat.mod_eq_of_lt hYlt]
  rw [hd', htY, hX, hPQ, mod_split _ _ _ _ hlt]
  ring

/-! ### operations computed limb by limb (`w`, `&`, `|`, `^`, the branches of `x`) -/

/-- arguments are not assigned to -/
def SameArgs (σ σ0 : Env) : Prop := ∀ k l, σ.get (.arg k l) = σ0.get (.arg k l)

theorem limbwise_prefix (σ0 : Env) (wd : Nat) (res : Option Nat) (f : Nat → E) (V : Nat)
    (hf : ∀ n σ, n < limbs wd → SameArgs σ σ0 → (f n).eval σ = limbOf V n) (n : Nat) (hn : n < limbs wd) :
    let σ := execList σ0 ((List.range n).map fun i => S.assign (.dest i) (mask wd res i (f i)))
    SameArgs σ σ0 ∧ destVal σ n = V % 2 ^ (64 * n) := by
  induction n with
  | zero => exact ⟨fun _ _ => rfl, by simp [destVal, Nat.mod_one, execList]⟩
  | succ n ih =>
    obtain ⟨hs, hv⟩ := ih (by omega)
    simp only [List.range_succ, List.map_append, List.map_cons, List.map_nil, execList_append, execList, S.exec]
    set σ := execList σ0 ((List.range n).map fun i => S.assign (.dest i) (mask wd res i (f i))) with hσ
    have hm := maskCond_false_of_lt wd res n hn
    rw [eval_mask, hm]
    simp only [Bool.false_eq_true, if_false, hf n σ (by omega) hs]
    refine ⟨fun k l => by rw [get_set_ne _ _ _ _ (by simp)]; exact hs k l, ?_⟩
    simp only [destVal, get_set_same, destVal_set_dest_ge _ _ _ _ (le_refl n), hv]
    rw [mod_succ_limb]; ring

/-- a program that stores limb `n` of `V` (masked like `_makemask` does) into destination limb `n`
    leaves `V mod 2^wd` in the destination, provided an unmasked partial top limb cannot overflow -/
theorem limbwise_correct (σ0 : Env) (wd : Nat) (res : Option Nat) (f : Nat → E) (V : Nat) (hwd : 0 < wd)
    (hf : ∀ n σ, n < limbs wd → SameArgs σ σ0 → (f n).eval σ = limbOf V n)
    (htop : maskCond wd res (limbs wd - 1) = false → wd % 64 ≠ 0 → V < 2 ^ wd) :
    destVal (execList σ0 ((List.range (limbs wd)).map fun i => S.assign (.dest i) (mask wd res i (f i))))
      (limbs wd) = V % 2 ^ wd := by
  obtain ⟨n0, hL⟩ : ∃ n0, limbs wd = n0 + 1 := ⟨limbs wd - 1, by unfold limbs; omega⟩
  have hn0 : n0 < limbs wd := by omega
  obtain ⟨hs, hv⟩ := limbwise_prefix σ0 wd res f V hf n0 hn0
  rw [hL, List.range_succ, List.map_append, execList_append]
  simp only [List.map_cons, List.map_nil, execList, S.exec]
  set σ := execList σ0 ((List.range n0).map fun i => S.assign (.dest i) (mask wd res i (f i))) with hσ
  rw [eval_mask, hf n0 σ hn0 hs]
  simp only [destVal, get_set_same, destVal_set_dest_ge _ _ _ _ (le_refl n0), hv]
  obtain ⟨r, hwr, hr0, hr64⟩ : ∃ r, wd = 64 * n0 + r ∧ 0 < r ∧ r ≤ 64 := ⟨wd - 64 * n0, by unfold limbs at hL; omega⟩
  have hPQ : 2 ^ wd = 2 ^ (64 * n0) * 2 ^ r := by rw [hwr, Nat.pow_add]
  have hdvdM : 2 ^ r ∣ M := by unfold M; exact Nat.pow_dvd_pow 2 hr64
  have hn0' : limbs wd - 1 = n0 := by omega
  rw [hn0'] at htop
  have key : (if maskCond wd res n0 = true then limbOf V n0 % 2 ^ (wd % 64) else limbOf V n0)
      = V / 2 ^ (64 * n0) % 2 ^ r := by
    by_cases hm : maskCond wd res n0 = true
    · simp only [hm, if_true]
      have hr' : wd % 64 = r := by
        simp only [maskCond, Bool.and_eq_true, decide_eq_true_eq] at hm
        omega
      rw [hr']; unfold limbOf; exact Nat.mod_mod_of_dvd _ hdvdM
    · simp only [hm, Bool.false_eq_true, if_false]
      by_cases hr' : r = 64
      · subst hr'; rfl
      · have hVlt := htop (by simpa using hm) (by omega)
        rw [hPQ] at hVlt
        have hq : V / 2 ^ (64 * n0) < 2 ^ r := Nat.div_lt_of_lt_mul hVlt
        have hle : 2 ^ r ≤ M := Nat.le_of_dvd M_pos hdvdM
        unfold limbOf
        rw [Nat.mod_eq_of_lt (by omega), Nat.mod_eq_of_lt hq]
  rw [key, hPQ, Nat.mod_mul]
  ring

theorem Enc_of_same (σ σ0 : Env) (k V : Nat) (h : Enc σ0 k V) (hs : SameArgs σ σ0) : Enc σ k V :=
  fun l => by rw [hs k l]; exact h l

/-- **`_build_wire`** (also the truncating raw form): `A mod 2^wd` -/
theorem emitWire_correct (σ0 : Env) (wa wd A : Nat) (hA : A < 2 ^ wa) (h0 : Enc σ0 0 A) (hwd : 0 < wd) :
    destVal (execList σ0 (emitWire wa wd)) (limbs wd) = A % 2 ^ wd := by
  unfold emitWire
  apply limbwise_correct σ0 wd (some wa) (fun n => .v (.arg 0 n)) A hwd
  · intro n σ _ hs
    simp only [E.eval, hs 0 n, h0 n]
  · intro hm hpart
    have hge : wa ≤ wd := by
      simp only [maskCond, Bool.and_eq_false_iff, decide_eq_false_iff_not] at hm
      unfold limbs at hm
      by_contra hlt
      rcases hm with (hm | hm) | hm <;> omega
    exact lt_of_lt_of_le hA (Nat.pow_le_pow_right (by decide) hge)

theorem limbOf_and (A B n : Nat) : limbOf (A &&& B) n = limbOf A n &&& limbOf B n := by
  unfold limbOf M; rw [Nat.and_div_two_pow, Nat.and_mod_two_pow]
theorem limbOf_or (A B n : Nat) : limbOf (A ||| B) n = limbOf A n ||| limbOf B n := by
  unfold limbOf M; rw [Nat.or_div_two_pow, Nat.or_mod_two_pow]
theorem limbOf_xor (A B n : Nat) : limbOf (A ^^^ B) n = limbOf A n ^^^ limbOf B n := by
  unfold limbOf M; rw [Nat.xor_div_two_pow, Nat.xor_mod_two_pow]

def BitOp.fn : BitOp → Nat → Nat → Nat
  | .and => (· &&& ·) | .or => (· ||| ·) | .xor => (· ^^^ ·)

theorem bitop_lt (op : BitOp) (A B w : Nat) (hA : A < 2 ^ w) (hB : B < 2 ^ w) : op.fn A B < 2 ^ w := by
  cases op
  · exact Nat.and_lt_two_pow A hB
  · exact Nat.or_lt_two_pow hA hB
  · exact Nat.xor_lt_two_pow hA hB

/-- **`_build_bitwise`** (`&`, `|`, `^`): the bitwise operation of the two (zero-extended) operands, modulo `2^wd` -/
theorem emitBitwise_correct (op : BitOp) (σ0 : Env) (wa wb wd A B : Nat) (hA : A < 2 ^ wa) (hB : B < 2 ^ wb)
    (h0 : Enc σ0 0 A) (h1 : Enc σ0 1 B) (hwd : 0 < wd) :
    destVal (execList σ0 (emitBitwise op wa wb wd)) (limbs wd) = op.fn A B % 2 ^ wd := by
  unfold emitBitwise
  simp only []
  apply limbwise_correct σ0 wd (some (max wa wb)) _ (op.fn A B) hwd
  · intro n σ _ hs
    have ea := eval_argLimb σ 0 wa n A (Enc_of_same σ σ0 0 A h0 hs) hA
    have eb := eval_argLimb σ 1 wb n B (Enc_of_same σ σ0 1 B h1 hs) hB
    cases op <;> simp only [E.eval, ea, eb, BitOp.fn, limbOf_and, limbOf_or, limbOf_xor]
  · intro hm hpart
    have hge : max wa wb ≤ wd := by
      simp only [maskCond, Bool.and_eq_false_iff, decide_eq_false_iff_not] at hm
      unfold limbs at hm
      by_contra hlt
      rcases hm with (hm | hm) | hm <;> omega
    have ha' : A < 2 ^ max wa wb := lt_of_lt_of_le hA (Nat.pow_le_pow_right (by decide) (Nat.le_max_left _ _))
    have hb' : B < 2 ^ max wa wb := lt_of_lt_of_le hB (Nat.pow_le_pow_right (by decide) (Nat.le_max_right _ _))
    exact lt_of_lt_of_le (bitop_lt op A B _ ha' hb') (Nat.pow_le_pow_right (by decide) hge)

/-! ### comparisons (`=`, `<`, `>`): one destination limb -/

theorem b2n_le_one (b : Bool) : b2n b ≤ 1 := by cases b <;> simp [b2n]

/-- left-nested `&&` chain of 0/1-valued conditions -/
theorem foldl_land_eval (σ : Env) (rest : List E) (e : E) :
    (rest.foldl .land e).eval σ =
      (if rest = [] then e.eval σ else b2n (decide (e.eval σ ≠ 0) && rest.all fun x => decide (x.eval σ ≠ 0))) := by
  induction rest generalizing e with
  | nil => simp
  | cons x xs ih =>
    simp only [List.foldl_cons, ih, reduceCtorEq, if_false, List.all_cons]
    by_cases hx : xs = []
    · subst hx; simp [E.eval, b2n]
    · simp only [hx, if_false, E.eval]
      congr 1
      by_cases h1 : e.eval σ ≠ 0 <;> by_cases h2 : x.eval σ ≠ 0 <;> simp [b2n, h1, h2]

/-- the low `n` limbs determine the value modulo `2^(64 n)` -/
theorem mod_eq_of_limbs (A B n : Nat) (h : ∀ i, i < n → limbOf A i = limbOf B i) :
    A % 2 ^ (64 * n) = B % 2 ^ (64 * n) := by
  induction n with
  | zero => simp [Nat.mod_one]
  | succ n ih =>
    rw [mod_succ_limb, mod_succ_limb, ih (fun i hi => h i (by omega)), h n (by omega)]

theorem lt_pow_limbs (V w : Nat) (hV : V < 2 ^ w) (n : Nat) (h : limbs w ≤ n) : V < 2 ^ (64 * n) := by
  refine lt_of_lt_of_le hV (Nat.pow_le_pow_right (by decide) ?_)
  unfold limbs at h; omega

theorem eq_iff_limbs (A B wa wb : Nat) (hA : A < 2 ^ wa) (hB : B < 2 ^ wb) :
    A = B ↔ ∀ i, i < max (limbs wa) (limbs wb) → limbOf A i = limbOf B i := by
  constructor
  · intro h i _; rw [h]
  · intro h
    have := mod_eq_of_limbs A B _ h
    rw [Nat.mod_eq_of_lt (lt_pow_limbs A wa hA _ (Nat.le_max_left _ _)),
      Nat.mod_eq_of_lt (lt_pow_limbs B wb hB _ (Nat.le_max_right _ _))] at this
    exact this

theorem limbs_pos (w : Nat) (h : 0 < w) : 0 < limbs w := by unfold limbs; omega

/-- **`_build_eq`** -/
theorem emitEq_correct (σ0 : Env) (wa wb A B : Nat) (hA : A < 2 ^ wa) (hB : B < 2 ^ wb)
    (h0 : Enc σ0 0 A) (h1 : Enc σ0 1 B) (hwa : 0 < wa) :
    (execList σ0 (emitEq wa wb)).get (.dest 0) = b2n (decide (A = B)) := by
  unfold emitEq
  simp only [execList, S.exec, get_set_same]
  obtain ⟨n0, hL⟩ : ∃ n0, max (limbs wa) (limbs wb) = n0 + 1 :=
    ⟨max (limbs wa) (limbs wb) - 1, by have := limbs_pos wa hwa; omega⟩
  have hev : ∀ n, (E.eq (argLimb 0 wa n) (argLimb 1 wb n)).eval σ0 = b2n (limbOf A n == limbOf B n) := by
    intro n
    simp only [E.eval, eval_argLimb σ0 0 wa n A h0 hA, eval_argLimb σ0 1 wb n B h1 hB]
  rw [hL, List.range_succ_eq_map, List.map_cons, andAll, foldl_land_eval]
  have hiff := eq_iff_limbs A B wa wb hA hB
  rw [hL] at hiff
  by_cases hn : n0 = 0
  · subst hn
    simp only [List.range_zero, List.map_nil, if_true, hev]
    congr 1
    have : A = B ↔ limbOf A 0 = limbOf B 0 := by
      rw [hiff]; constructor
      · intro h; exact h 0 (by omega)
      · intro h i hi; have : i = 0 := by omega
        subst this; exact h
    by_cases hab : A = B <;> simp [hab, (not_congr this).mp]
  · have hne : ((List.range n0).map Nat.succ).map (fun n => E.eq (argLimb 0 wa n) (argLimb 1 wb n)) ≠ [] := by
      simp; omega
    simp only [hne, if_false, hev]
    congr 1
    rw [Bool.eq_iff_iff]
    simp only [Bool.and_eq_true, decide_eq_true_eq, List.all_eq_true, List.mem_map, List.mem_range,
      forall_exists_index, and_imp, forall_apply_eq_imp_iff₂, hev, ne_eq]
    have hb : ∀ n, b2n (limbOf A n == limbOf B n) ≠ 0 ↔ limbOf A n = limbOf B n := by
      intro n; by_cases h : limbOf A n = limbOf B n <;> simp [b2n, h]
    rw [hiff]
    constructor
    · rintro ⟨h0', hrest⟩ i hi
      cases i with
      | zero => exact (hb 0).mp h0'
      | succ i => exact (hb _).mp (hrest i (by omega))
    · intro h
      exact ⟨(hb 0).mpr (h 0 (by omega)), fun i hi => (hb _).mpr (h (i + 1) (by omega))⟩

/-- lexicographic comparison of (high, low) pairs -/
theorem lex_lt (P x y a b : Nat) (hx : x < P) (hy : y < P) :
    x + P * a < y + P * b ↔ a < b ∨ (a = b ∧ x < y) := by
  constructor
  · intro h
    by_contra hc
    push_neg at hc
    obtain ⟨h1, h2⟩ := hc
    rcases Nat.lt_or_ge b a with hba | hab
    · have : P * (b + 1) ≤ P * a := Nat.mul_le_mul_left _ hba
      rw [Nat.mul_add, Nat.mul_one] at this
      omega
    · have hab' : a = b := by omega
      subst hab'
      have := h2 rfl
      omega
  · rintro (h | ⟨rfl, h⟩)
    · have : P * (a + 1) ≤ P * b := Nat.mul_le_mul_left _ h
      rw [Nat.mul_add, Nat.mul_one] at this
      omega
    · omega

/-- the fold of `_build_cmp` over the limbs `0 .. n-1` -/
def cmpStep (isLt : Bool) (wa wb : Nat) (cond : Option E) (n : Nat) : Option E :=
  let a := argLimb 0 wa n
  let b := argLimb 1 wb n
  let c := if isLt then E.lt a b else E.gt a b
  match cond with
  | none => some c
  | some inner => some (.lor c (.land (.eq a b) inner))

theorem emitCmp_eq (isLt : Bool) (wa wb : Nat) :
    emitCmp isLt wa wb = match (List.range (max (limbs wa) (limbs wb))).foldl (cmpStep isLt wa wb) none with
      | some c => [.assign (.dest 0) c]
      | none => [] := rfl

theorem cmp_fold (isLt : Bool) (σ0 : Env) (wa wb A B : Nat) (hA : A < 2 ^ wa) (hB : B < 2 ^ wb)
    (h0 : Enc σ0 0 A) (h1 : Enc σ0 1 B) (n : Nat) :
    ∃ e, (List.range (n + 1)).foldl (cmpStep isLt wa wb) none = some e ∧
      e.eval σ0 = b2n (if isLt then decide (A % 2 ^ (64 * (n + 1)) < B % 2 ^ (64 * (n + 1)))
                       else decide (A % 2 ^ (64 * (n + 1)) > B % 2 ^ (64 * (n + 1)))) := by
  induction n with
  | zero =>
    refine ⟨_, rfl, ?_⟩
    have ea := eval_argLimb σ0 0 wa 0 A h0 hA
    have eb := eval_argLimb σ0 1 wb 0 B h1 hB
    have hA0 : A % 2 ^ (64 * (0 + 1)) = limbOf A 0 := by rw [mod_succ_limb]; simp [Nat.mod_one]
    have hB0 : B % 2 ^ (64 * (0 + 1)) = limbOf B 0 := by rw [mod_succ_limb]; simp [Nat.mod_one]
    rw [hA0, hB0]
    cases isLt <;> simp [E.eval, ea, eb]
  | succ n ih =>
    obtain ⟨e, he, hv⟩ := ih
    rw [List.range_succ, List.foldl_append, he]
    refine ⟨_, rfl, ?_⟩
    have ea := eval_argLimb σ0 0 wa (n + 1) A h0 hA
    have eb := eval_argLimb σ0 1 wb (n + 1) B h1 hB
    rw [mod_succ_limb A (n + 1), mod_succ_limb B (n + 1)]
    have hx := Nat.mod_lt A (Nat.two_pow_pos (64 * (n + 1)))
    have hy := Nat.mod_lt B (Nat.two_pow_pos (64 * (n + 1)))
    generalize A % 2 ^ (64 * (n + 1)) = x at *
    generalize B % 2 ^ (64 * (n + 1)) = y at *
    generalize 2 ^ (64 * (n + 1)) = P at *
    cases isLt
    · -- `>`
      simp only [Bool.false_eq_true, if_false, E.eval, ea, eb, hv, gt_iff_lt]
      congr 1
      rw [Bool.eq_iff_iff]
      simp only [Bool.or_eq_true, Bool.and_eq_true, bne_iff_ne, ne_eq, decide_eq_true_eq]
      rw [lex_lt P y x _ _ hy hx]
      by_cases c1 : limbOf B (n + 1) < limbOf A (n + 1) <;> by_cases c2 : limbOf A (n + 1) = limbOf B (n + 1) <;>
        by_cases c3 : y < x <;> simp [b2n, c1, c2, c3] <;> omega
    · simp only [if_true, E.eval, ea, eb, hv]
      congr 1
      rw [Bool.eq_iff_iff]
      simp only [Bool.or_eq_true, Bool.and_eq_true, bne_iff_ne, ne_eq, decide_eq_true_eq]
      rw [lex_lt P x y _ _ hx hy]
      by_cases c1 : limbOf A (n + 1) < limbOf B (n + 1) <;> by_cases c2 : limbOf A (n + 1) = limbOf B (n + 1) <;>
        by_cases c3 : x < y <;> simp [b2n, c1, c2, c3] <;> omega

/-- **`_build_cmp`** (`<` and `>`): the chain over the limbs is the comparison of the values -/
theorem emitCmp_correct (isLt : Bool) (σ0 : Env) (wa wb A B : Nat) (hA : A < 2 ^ wa) (hB : B < 2 ^ wb)
    (h0 : Enc σ0 0 A) (h1 : Enc σ0 1 B) (hwa : 0 < wa) :
    (execList σ0 (emitCmp isLt wa wb)).get (.dest 0) = b2n (if isLt then decide (A < B) else decide (A > B)) := by
  obtain ⟨n0, hL⟩ : ∃ n0, max (limbs wa) (limbs wb) = n0 + 1 :=
    ⟨max (limbs wa) (limbs wb) - 1, by have := limbs_pos wa hwa; omega⟩
  obtain ⟨e, he, hv⟩ := cmp_fold isLt σ0 wa wb A B hA hB h0 h1 n0
  rw [emitCmp_eq, hL, he]
  simp only [execList, S.exec, get_set_same, hv]
  rw [Nat.mod_eq_of_lt (lt_pow_limbs A wa hA _ (by rw [← hL]; exact Nat.le_max_left _ _)),
    Nat.mod_eq_of_lt (lt_pow_limbs B wb hB _ (by rw [← hL]; exact Nat.le_max_right _ _))]

/-! ### `_build_mux` -/

/-- copying argument `k` (of width `w`) into the destination, masked as `_makemask(dest, w, n)` -/
theorem copyArg_correct (σ0 : Env) (k w wd V : Nat) (hV : V < 2 ^ w) (hE : Enc σ0 k V) (hwd : 0 < wd) :
    destVal (execList σ0 ((List.range (limbs wd)).map fun n =>
      S.assign (.dest n) (mask wd (some w) n (.v (.arg k n))))) (limbs wd) = V % 2 ^ wd := by
  apply limbwise_correct σ0 wd (some w) (fun n => .v (.arg k n)) V hwd
  · intro n σ _ hs
    simp only [E.eval, hs k n, hE n]
  · intro hm hpart
    have hge : w ≤ wd := by
      simp only [maskCond, Bool.and_eq_false_iff, decide_eq_false_iff_not] at hm
      unfold limbs at hm
      by_contra hlt
      rcases hm with (hm | hm) | hm <;> omega
    exact lt_of_lt_of_le hV (Nat.pow_le_pow_right (by decide) hge)

/-- **`_build_mux`**: the true case (argument 2) when the select limb is non-zero, else the false case -/
theorem emitMux_correct (σ0 : Env) (wf wt wd Sv F T : Nat) (hS : Sv < 2 ^ 1) (hF : F < 2 ^ wf) (hT : T < 2 ^ wt)
    (hs : Enc σ0 0 Sv) (h1 : Enc σ0 1 F) (h2 : Enc σ0 2 T) (hwd : 0 < wd) :
    destVal (execList σ0 (emitMux wf wt wd)) (limbs wd) = (if Sv = 0 then F else T) % 2 ^ wd := by
  unfold emitMux
  simp only [execList, S.exec, E.eval, hs 0]
  have hl : limbOf Sv 0 = Sv := by
    unfold limbOf M; simp only [Nat.mul_zero, Nat.pow_zero, Nat.div_one]
    exact Nat.mod_eq_of_lt (by omega)
  rw [hl]
  by_cases h0 : Sv = 0
  · simp only [h0, bne_self_eq_false, Bool.false_eq_true, if_false, if_true]
    exact copyArg_correct σ0 1 wf wd F hF h1 hwd
  · have : (Sv != 0) = true := by simpa using h0
    simp only [this, if_true, h0, if_false]
    exact copyArg_correct σ0 2 wt wd T hT h2 hwd

/-! ### `_build_sub` -/

/-- borrow detection by comparisons: `carry = (tmp > a) | (d > tmp)` with `tmp = a - b`, `d = tmp - c` -/
theorem sub_borrow (a b c : Nat) (ha : a < M) (hb : b < M) (hc : c ≤ 1) :
    ∃ c', c' ≤ 1 ∧
      (b2n ((a + M - b % M) % M > a) ||| b2n (((a + M - b % M) % M + M - c % M) % M > (a + M - b % M) % M)) = c' ∧
      ((a + M - b % M) % M + M - c % M) % M + b + c = a + c' * M := by
  rw [M_eq] at *
  have hbm : b % 18446744073709551616 = b := Nat.mod_eq_of_lt hb
  have hcm : c % 18446744073709551616 = c := Nat.mod_eq_of_lt (by omega)
  rw [hbm, hcm]
  by_cases h1 : b ≤ a
  · have et : (a + 18446744073709551616 - b) % 18446744073709551616 = a - b := by omega
    rw [et]
    have e1 : ¬ (a - b > a) := by omega
    by_cases h2 : c ≤ a - b
    · have ed : (a - b + 18446744073709551616 - c) % 18446744073709551616 = a - b - c := by omega
      rw [ed]
      have e2 : ¬ (a - b - c > a - b) := by omega
      exact ⟨0, by omega, by simp [b2n, e1, e2], by omega⟩
    · have ed : (a - b + 18446744073709551616 - c) % 18446744073709551616 = 18446744073709551616 - 1 := by omega
      rw [ed]
      have e2 : 18446744073709551616 - 1 > a - b := by omega
      exact ⟨1, by omega, by simp [b2n, e1, e2], by omega⟩
  · have et : (a + 18446744073709551616 - b) % 18446744073709551616 = a + 18446744073709551616 - b := by omega
    rw [et]
    have e1 : a + 18446744073709551616 - b > a := by omega
    have ed : (a + 18446744073709551616 - b + 18446744073709551616 - c) % 18446744073709551616
        = a + 18446744073709551616 - b - c := by omega
    rw [ed]
    have e2 : ¬ (a + 18446744073709551616 - b - c > a + 18446744073709551616 - b) := by omega
    exact ⟨1, by omega, by simp [b2n, e1, e2], by omega⟩

def subBody (wa wb wd n : Nat) : List S :=
  [S.assign .tmp (.sub (argLimb 0 wa n) (argLimb 1 wb n)),
   S.assign (.dest n) (mask wd none n (.sub (.v .tmp) (.v .carry))),
   S.assign .carry (.bor (.gt (.v .tmp) (argLimb 0 wa n)) (.gt (.v (.dest n)) (.v .tmp)))]

theorem emitSub_eq (wa wb wd : Nat) :
    emitSub wa wb wd = S.assign .carry (.lit 0) :: ((List.range (limbs wd)).map (subBody wa wb wd)).flatten := rfl

/-- one limb of `_build_sub` -/
theorem subBody_exec (σ : Env) (wa wb wd n A B : Nat) (hA : A < 2 ^ wa) (hB : B < 2 ^ wb)
    (h0 : Enc σ 0 A) (h1 : Enc σ 1 B) (hc : σ.get .carry ≤ 1) :
    let σ' := execList σ (subBody wa wb wd n)
    ∃ dfull c', c' ≤ 1 ∧ dfull < M ∧ dfull + limbOf B n + σ.get .carry = limbOf A n + c' * M ∧
    Enc σ' 0 A ∧ Enc σ' 1 B ∧
    σ'.get (.dest n) = (if maskCond wd none n = true then dfull % 2 ^ (wd % 64) else dfull) ∧
    (maskCond wd none n = false → σ'.get .carry = c') ∧
    (∀ l, l ≠ n → σ'.get (.dest l) = σ.get (.dest l)) := by
  intro σ'
  have ea := eval_argLimb σ 0 wa n A h0 hA
  have eb := eval_argLimb σ 1 wb n B h1 hB
  have hla := limbOf_lt A n
  have hlb := limbOf_lt B n
  obtain ⟨c', hc', hbor, hrel⟩ := sub_borrow (limbOf A n) (limbOf B n) (σ.get .carry) hla hlb hc
  set tmpv := (limbOf A n + M - limbOf B n % M) % M with htmp
  set dfull := (tmpv + M - σ.get .carry % M) % M with hdf
  refine ⟨dfull, c', hc', Nat.mod_lt _ M_pos, hrel, ?_⟩
  set σ1 := σ.set .tmp tmpv with hσ1
  have e1 : Enc σ1 0 A := Enc_set _ _ _ _ _ h0 (by intro l; simp)
  have e1' : Enc σ1 1 B := Enc_set _ _ _ _ _ h1 (by intro l; simp)
  have ht1 : σ1.get .tmp = tmpv := by simp [hσ1]
  have hc1 : σ1.get .carry = σ.get .carry := get_set_ne _ _ _ _ (by simp)
  set d := (if maskCond wd none n = true then dfull % 2 ^ (wd % 64) else dfull) with hd
  set σ2 := σ1.set (.dest n) d with hσ2
  have e2 : Enc σ2 0 A := Enc_set _ _ _ _ _ e1 (by intro l; simp)
  have e2' : Enc σ2 1 B := Enc_set _ _ _ _ _ e1' (by intro l; simp)
  have hstep : σ' = (σ2.set .carry
      (b2n (σ2.get .tmp > limbOf A n) ||| b2n (σ2.get (.dest n) > σ2.get .tmp))) := by
    show execList σ (subBody wa wb wd n) = _
    simp only [subBody, execList, S.exec, E.eval, ea, eb]
    have hm : (mask wd none n (.sub (.v .tmp) (.v .carry))).eval σ1 = d := by
      rw [eval_mask]
      simp only [E.eval, ht1, hc1, hd]
      rfl
    rw [← htmp, ← hσ1, hm, ← hσ2]
    have ea2 := eval_argLimb σ2 0 wa n A e2 hA
    rw [ea2]
  have ht2 : σ2.get .tmp = tmpv := by
    rw [hσ2, get_set_ne _ _ _ _ (by simp)]; exact ht1
  have hd2 : σ2.get (.dest n) = d := by simp [hσ2]
  refine ⟨?_, ?_, ?_, ?_, ?_⟩
  · rw [hstep]; exact Enc_set _ _ _ _ _ e2 (by intro l; simp)
  · rw [hstep]; exact Enc_set _ _ _ _ _ e2' (by intro l; simp)
  · rw [hstep, get_set_ne _ _ _ _ (by simp)]; exact hd2
  · intro hm
    rw [hstep, get_set_same, ht2, hd2]
    simp only [hd, hm, Bool.false_eq_true, if_false]
    exact hbor
  · intro l hl
    have hne : Var.dest l ≠ Var.dest n := by intro e; injection e with e; exact hl e
    rw [hstep, get_set_ne _ _ _ _ (by simp), hσ2, get_set_ne _ _ _ _ hne, hσ1, get_set_ne _ _ _ _ (by simp)]

theorem sub_prefix (σ0 : Env) (wa wb wd A B : Nat) (hA : A < 2 ^ wa) (hB : B < 2 ^ wb)
    (h0 : Enc σ0 0 A) (h1 : Enc σ0 1 B) (hc0 : σ0.get .carry = 0) (n : Nat) (hn : n < limbs wd) :
    let σ := execList σ0 (((List.range n).map (subBody wa wb wd)).flatten)
    Enc σ 0 A ∧ Enc σ 1 B ∧ σ.get .carry ≤ 1 ∧ destVal σ n < 2 ^ (64 * n) ∧
    destVal σ n + B % 2 ^ (64 * n) = A % 2 ^ (64 * n) + σ.get .carry * 2 ^ (64 * n) := by
  induction n with
  | zero =>
    simp only [List.range_zero, List.map_nil, List.flatten_nil, execList, destVal, hc0]
    exact ⟨h0, h1, by omega, by simp, by simp [Nat.mod_one]⟩
  | succ n ih =>
    obtain ⟨e0, e1, hc, hlt, hinv⟩ := ih (by omega)
    simp only [flatten_map_range_succ, execList_append]
    set σ := execList σ0 (((List.range n).map (subBody wa wb wd)).flatten) with hσ
    obtain ⟨dfull, c', hc', hdlt, hrel, e0', e1', hd, hcar, hoth⟩ := subBody_exec σ wa wb wd n A B hA hB e0 e1 hc
    have hm := maskCond_false_of_lt wd none n hn
    simp only [hm, Bool.false_eq_true, if_false] at hd
    have hcar' := hcar hm
    set σ' := execList σ (subBody wa wb wd n)
    have hdv : destVal σ' n = destVal σ n := destVal_congr σ σ' n (fun l hl => hoth l (by omega))
    have hP : 2 ^ (64 * (n + 1)) = 2 ^ (64 * n) * M := by
      unfold M; rw [← Nat.pow_add]; congr 1
    refine ⟨e0', e1', by rw [hcar']; exact hc', ?_, ?_⟩
    · simp only [destVal, hdv, hd]
      rw [hP]
      have hPpos := Nat.two_pow_pos (64 * n)
      generalize 2 ^ (64 * n) = P at *
      calc destVal σ n + dfull * P < P + dfull * P := by omega
        _ = (dfull + 1) * P := by ring
        _ ≤ M * P := Nat.mul_le_mul_right _ (by omega)
        _ = P * M := Nat.mul_comm _ _
    · simp only [destVal, hdv, hd, hcar']
      rw [mod_succ_limb A n, mod_succ_limb B n, hP]
      generalize 2 ^ (64 * n) = P at *
      have e : P * (dfull + limbOf B n + σ.get .carry) = P * (limbOf A n + c' * M) := by rw [hrel]
      have e1x : P * (dfull + limbOf B n + σ.get .carry) = dfull * P + P * limbOf B n + σ.get .carry * P := by ring
      have e2x : P * (limbOf A n + c' * M) = P * limbOf A n + c' * (P * M) := by ring
      omega

/-- **`_build_sub`**: the destination limbs hold the difference modulo `2^wd` -/
theorem emitSub_correct (σ0 : Env) (wa wb wd A B : Nat) (hA : A < 2 ^ wa) (hB : B < 2 ^ wb)
    (h0 : Enc σ0 0 A) (h1 : Enc σ0 1 B) (hwd1 : 0 < wd) :
    destVal (execList σ0 (emitSub wa wb wd)) (limbs wd) < 2 ^ wd ∧
    (destVal (execList σ0 (emitSub wa wb wd)) (limbs wd) + B) % 2 ^ wd = A % 2 ^ wd := by
  rw [emitSub_eq]
  simp only [execList, S.exec, E.eval, Nat.zero_mod]
  set σc := σ0.set .carry 0 with hσc
  have c0 : Enc σc 0 A := Enc_set _ _ _ _ _ h0 (by intro l; simp)
  have c1 : Enc σc 1 B := Enc_set _ _ _ _ _ h1 (by intro l; simp)
  have cc : σc.get .carry = 0 := by simp [hσc]
  obtain ⟨n0, hL⟩ : ∃ n0, limbs wd = n0 + 1 := ⟨limbs wd - 1, by unfold limbs; omega⟩
  rw [hL, flatten_map_range_succ, execList_append]
  obtain ⟨e0, e1, hc, hlt, hinv⟩ := sub_prefix σc wa wb wd A B hA hB c0 c1 cc n0 (by omega)
  set σ := execList σc (((List.range n0).map (subBody wa wb wd)).flatten) with hσ
  obtain ⟨dfull, c', hc', hdlt, hrel, _, _, hd, _, hoth⟩ := subBody_exec σ wa wb wd n0 A B hA hB e0 e1 hc
  set σ' := execList σ (subBody wa wb wd n0)
  have hdv : destVal σ' n0 = destVal σ n0 := destVal_congr σ σ' n0 (fun l hl => hoth l (by omega))
  simp only [destVal, hdv, hd]
  obtain ⟨r, hwr, hr0, hr64⟩ : ∃ r, wd = 64 * n0 + r ∧ 0 < r ∧ r ≤ 64 := ⟨wd - 64 * n0, by unfold limbs at hL; omega⟩
  have hPQ : 2 ^ wd = 2 ^ (64 * n0) * 2 ^ r := by rw [hwr, Nat.pow_add]
  have hdvdM : 2 ^ r ∣ M := by unfold M; exact Nat.pow_dvd_pow 2 hr64
  have hd' : (if maskCond wd none n0 = true then dfull % 2 ^ (wd % 64) else dfull) = dfull % 2 ^ r := by
    by_cases hm : maskCond wd none n0 = true
    · simp only [hm, if_true]
      have hr' : wd % 64 = r := by
        simp only [maskCond, Bool.and_eq_true, decide_eq_true_eq] at hm
        omega
      rw [hr']
    · simp only [hm, Bool.false_eq_true, if_false]
      have hr' : r = 64 := by
        simp only [maskCond, Bool.true_and, Bool.and_eq_true, decide_eq_true_eq, not_and] at hm
        have := hm (by omega)
        omega
      subst hr'
      exact (Nat.mod_eq_of_lt hdlt).symm
  rw [hd', hPQ]
  set P := 2 ^ (64 * n0) with hP
  have hPpos : 0 < P := Nat.two_pow_pos _
  have hQpos : 0 < 2 ^ r := Nat.two_pow_pos _
  have hmodlt := Nat.mod_lt dfull hQpos
  refine ⟨?_, ?_⟩
  · calc destVal σ n0 + dfull % 2 ^ r * P < P + dfull % 2 ^ r * P := by omega
      _ = (dfull % 2 ^ r + 1) * P := by ring
      _ ≤ 2 ^ r * P := Nat.mul_le_mul_right _ (by omega)
      _ = P * 2 ^ r := Nat.mul_comm _ _
  · -- congruence of the top limbs modulo 2^r
    have hA' := Nat.div_add_mod A P
    have hB' := Nat.div_add_mod B P
    have hcong : (σ.get .carry + dfull % 2 ^ r + B / P) % 2 ^ r = (A / P) % 2 ^ r := by
      have hA1 : limbOf A n0 ≡ A / P [MOD 2 ^ r] := by unfold limbOf; exact Nat.mod_mod_of_dvd _ hdvdM
      have hB1 : limbOf B n0 ≡ B / P [MOD 2 ^ r] := by unfold limbOf; exact Nat.mod_mod_of_dvd _ hdvdM
      have hD : dfull % 2 ^ r ≡ dfull [MOD 2 ^ r] := Nat.mod_modEq _ _
      have hM0 : c' * M ≡ 0 [MOD 2 ^ r] := (Nat.modEq_zero_iff_dvd).mpr (dvd_mul_of_dvd_right hdvdM _)
      have h1 : dfull + limbOf B n0 + σ.get .carry ≡ limbOf A n0 + c' * M [MOD 2 ^ r] := by rw [hrel]
      show σ.get .carry + dfull % 2 ^ r + B / P ≡ A / P [MOD 2 ^ r]
      calc σ.get .carry + dfull % 2 ^ r + B / P ≡ σ.get .carry + dfull + limbOf B n0 [MOD 2 ^ r] :=
            ((Nat.ModEq.refl _).add hD).add hB1.symm
        _ = dfull + limbOf B n0 + σ.get .carry := by ring
        _ ≡ limbOf A n0 + c' * M [MOD 2 ^ r] := h1
        _ ≡ A / P + 0 [MOD 2 ^ r] := hA1.add hM0
        _ = A / P := by simp
    -- assemble
    have hlhs : destVal σ n0 + dfull % 2 ^ r * P + B = A % P + P * (σ.get .carry + dfull % 2 ^ r + B / P) := by
      have : P * (σ.get .carry + dfull % 2 ^ r + B / P) = σ.get .carry * P + dfull % 2 ^ r * P + P * (B / P) := by ring
      omega
    have hAm : A % P < P := Nat.mod_lt _ hPpos
    rw [hlhs, mod_split _ _ _ _ hAm, hcong]
    have : A = A % P + P * (A / P) := by omega
    conv_rhs => rw [this]
    rw [mod_split _ _ _ _ hAm]

/-! ### `_build_not`, `_build_nand`: complement limb by limb, top limb always masked -/

/-- limb `n` of the complement within `2^(64 K)` -/
theorem limbOf_compl (X K n : Nat) (hX : X < 2 ^ (64 * K)) (hn : n < K) :
    limbOf (2 ^ (64 * K) - 1 - X) n = M - 1 - limbOf X n := by
  unfold limbOf
  obtain ⟨j, hj⟩ : ∃ j, K = n + 1 + j := ⟨K - n - 1, by omega⟩
  have hK : 2 ^ (64 * K) = 2 ^ (64 * n) * (M * 2 ^ (64 * j)) := by
    unfold M; rw [← Nat.pow_add, ← Nat.pow_add]; congr 1; omega
  set P := 2 ^ (64 * n) with hP
  set Q := 2 ^ (64 * j) with hQ
  have hPpos : 0 < P := Nat.two_pow_pos _
  have hQpos : 0 < Q := Nat.two_pow_pos _
  have hX' := Nat.div_add_mod X P
  have hr := Nat.mod_lt X hPpos
  have hq : X / P < M * Q := by
    apply Nat.div_lt_of_lt_mul; rw [← hK]; exact hX
  -- (K' - 1 - X) = P * (M*Q - 1 - X/P) + (P - 1 - X % P)
  have e : 2 ^ (64 * K) - 1 - X = (P - 1 - X % P) + P * (M * Q - 1 - X / P) := by
    rw [hK]
    have : P * (M * Q - 1 - X / P) = P * (M * Q) - P - P * (X / P) := by
      rw [Nat.mul_sub, Nat.mul_sub, Nat.mul_one]
    have hle : P * (X / P) + P ≤ P * (M * Q) := by
      calc P * (X / P) + P = P * (X / P + 1) := by ring
        _ ≤ P * (M * Q) := Nat.mul_le_mul_left _ (by omega)
    omega
  rw [e, Nat.add_mul_div_left _ _ hPpos, Nat.div_eq_of_lt (by omega), Nat.zero_add]
  -- (M*Q - 1 - q) % M = M - 1 - q % M
  have hq' := Nat.div_add_mod (X / P) M
  have hqm := Nat.mod_lt (X / P) M_pos
  have hqd : X / P / M < Q := Nat.div_lt_of_lt_mul hq
  have e2 : M * Q - 1 - X / P = (M - 1 - X / P % M) + M * (Q - 1 - X / P / M) := by
    have : M * (Q - 1 - X / P / M) = M * Q - M - M * (X / P / M) := by
      rw [Nat.mul_sub, Nat.mul_sub, Nat.mul_one]
    have hle : M * (X / P / M) + M ≤ M * Q := by
      calc M * (X / P / M) + M = M * (X / P / M + 1) := by ring
        _ ≤ M * Q := Nat.mul_le_mul_left _ (by omega)
    omega
  rw [e2, Nat.add_mul_mod_self_left, Nat.mod_eq_of_lt (by omega)]

/-- complement modulo `2^wd` -/
theorem compl_mod (X K wd : Nat) (hX : X < 2 ^ (64 * K)) (hwd : wd ≤ 64 * K) :
    (2 ^ (64 * K) - 1 - X) % 2 ^ wd = 2 ^ wd - 1 - X % 2 ^ wd := by
  obtain ⟨j, hj⟩ : ∃ j, 64 * K = wd + j := ⟨64 * K - wd, by omega⟩
  have hK : 2 ^ (64 * K) = 2 ^ wd * 2 ^ j := by rw [hj, Nat.pow_add]
  set N := 2 ^ wd with hN
  set Q := 2 ^ j with hQ
  have hNpos : 0 < N := Nat.two_pow_pos _
  have hX' := Nat.div_add_mod X N
  have hr := Nat.mod_lt X hNpos
  have hq : X / N < Q := by apply Nat.div_lt_of_lt_mul; rw [← hK]; exact hX
  have e : 2 ^ (64 * K) - 1 - X = (N - 1 - X % N) + N * (Q - 1 - X / N) := by
    rw [hK]
    have : N * (Q - 1 - X / N) = N * Q - N - N * (X / N) := by
      rw [Nat.mul_sub, Nat.mul_sub, Nat.mul_one]
    have hle : N * (X / N) + N ≤ N * Q := by
      calc N * (X / N) + N = N * (X / N + 1) := by ring
        _ ≤ N * Q := Nat.mul_le_mul_left _ (by omega)
    omega
  rw [e, Nat.add_mul_mod_self_left, Nat.mod_eq_of_lt (by omega)]

theorem maskCond_none_top (wd : Nat) (h : wd % 64 ≠ 0) : maskCond wd none (limbs wd - 1) = true := by
  unfold maskCond limbs
  simp only [Bool.true_and, Bool.and_eq_true, decide_eq_true_eq]
  omega

/-- **`_build_not`**: `2^wd - 1 - A mod 2^wd` -/
theorem emitNot_correct (σ0 : Env) (wa wd A : Nat) (hA : A < 2 ^ wa) (h0 : Enc σ0 0 A) (hwd : 0 < wd) :
    destVal (execList σ0 (emitNot wd)) (limbs wd) = 2 ^ wd - 1 - A % 2 ^ wd := by
  unfold emitNot
  set K := max (limbs wa) (limbs wd) with hK
  have hAK : A < 2 ^ (64 * K) := lt_pow_limbs A wa hA K (Nat.le_max_left _ _)
  rw [limbwise_correct σ0 wd none (fun n => .bnot (.v (.arg 0 n))) (2 ^ (64 * K) - 1 - A) hwd]
  · exact compl_mod A K wd hAK (by have : limbs wd ≤ K := Nat.le_max_right _ _
                                   unfold limbs at this; omega)
  · intro n σ hn hs
    simp only [E.eval, hs 0 n, h0 n, Nat.mod_eq_of_lt (limbOf_lt A n)]
    exact (limbOf_compl A K n hAK (by have : limbs wd ≤ K := Nat.le_max_right _ _
                                      omega)).symm
  · intro hm hpart
    rw [maskCond_none_top wd hpart] at hm
    exact absurd hm (by simp)

/-- **`_build_nand`** -/
theorem emitNand_correct (σ0 : Env) (wa wb wd A B : Nat) (hA : A < 2 ^ wa) (hB : B < 2 ^ wb)
    (h0 : Enc σ0 0 A) (h1 : Enc σ0 1 B) (hwd : 0 < wd) :
    destVal (execList σ0 (emitNand wa wb wd)) (limbs wd) = 2 ^ wd - 1 - (A &&& B) % 2 ^ wd := by
  unfold emitNand
  set K := max (limbs wa) (limbs wd) with hK
  have hAK : A < 2 ^ (64 * K) := lt_pow_limbs A wa hA K (Nat.le_max_left _ _)
  have hXK : A &&& B < 2 ^ (64 * K) := lt_of_le_of_lt Nat.and_le_left hAK
  rw [limbwise_correct σ0 wd none _ (2 ^ (64 * K) - 1 - (A &&& B)) hwd]
  · exact compl_mod (A &&& B) K wd hXK (by have : limbs wd ≤ K := Nat.le_max_right _ _
                                           unfold limbs at this; omega)
  · intro n σ hn hs
    have ea := eval_argLimb σ 0 wa n A (Enc_of_same σ σ0 0 A h0 hs) hA
    have eb := eval_argLimb σ 1 wb n B (Enc_of_same σ σ0 1 B h1 hs) hB
    simp only [E.eval, ea, eb]
    rw [← limbOf_and, Nat.mod_eq_of_lt (limbOf_lt _ n)]
    exact (limbOf_compl (A &&& B) K n hXK (by have : limbs wd ≤ K := Nat.le_max_right _ _
                                              omega)).symm
  · intro hm hpart
    rw [maskCond_none_top wd hpart] at hm
    exact absurd hm (by simp)

/-! ### `_build_mul` (destination of the natural width `wa + wb`: no mask is ever applied) -/

/-- the arithmetic of one cell: `lo + hi*M = a*b`; add the running carry and the limb already there -/
theorem mul_cell_arith (a b c t : Nat) (ha : a < M) (hb : b < M) (hc : c < M) (ht : t < M) :
    let lo := a * b % M
    let hi := a * b / M
    let lo1 := (lo + c) % M
    let c1 := b2n (lo1 < c)
    let lo2 := (lo1 + t) % M
    let hi' := (hi + (c1 + b2n (lo2 < t)) % M) % M
    lo2 < M ∧ hi' < M ∧ lo2 + hi' * M = a * b + c + t := by
  intro lo hi lo1 c1 lo2 hi'
  have hM := M_pos
  have hdm := Nat.div_add_mod (a * b) M
  have hlo : lo < M := Nat.mod_lt _ hM
  have hab : a * b ≤ (M - 1) * (M - 1) := Nat.mul_le_mul (by omega) (by omega)
  have hhi : hi ≤ M - 2 := by
    have h1 : (M - 1) * (M - 1) < (M - 1) * M := Nat.mul_lt_mul_of_pos_left (by unfold M; norm_num) (by unfold M; norm_num)
    have : a * b / M < M - 1 := by
      apply Nat.div_lt_of_lt_mul
      calc a * b ≤ (M - 1) * (M - 1) := hab
        _ < (M - 1) * M := h1
        _ = M * (M - 1) := Nat.mul_comm _ _
    omega
  -- first addition
  have e1 : lo1 + c1 * M = lo + c := by
    show (lo + c) % M + b2n (decide ((lo + c) % M < c)) * M = lo + c
    by_cases h : lo + c < M
    · rw [Nat.mod_eq_of_lt h]
      have : ¬ (lo + c < c) := by omega
      simp [b2n, this]
    · have e : (lo + c) % M = lo + c - M := by
        rw [Nat.mod_eq_sub_mod (by omega), Nat.mod_eq_of_lt (by omega)]
      rw [e]
      have : lo + c - M < c := by omega
      simp [b2n, this]; omega
  have hlo1 : lo1 < M := Nat.mod_lt _ hM
  have e2 : lo2 + b2n (decide (lo2 < t)) * M = lo1 + t := by
    show (lo1 + t) % M + b2n (decide ((lo1 + t) % M < t)) * M = lo1 + t
    by_cases h : lo1 + t < M
    · rw [Nat.mod_eq_of_lt h]
      have : ¬ (lo1 + t < t) := by omega
      simp [b2n, this]
    · have e : (lo1 + t) % M = lo1 + t - M := by
        rw [Nat.mod_eq_sub_mod (by omega), Nat.mod_eq_of_lt (by omega)]
      rw [e]
      have : lo1 + t - M < t := by omega
      simp [b2n, this]; omega
  have hc1 : c1 ≤ 1 := b2n_le_one _
  have hc2 : b2n (decide (lo2 < t)) ≤ 1 := b2n_le_one _
  have hsmall : (c1 + b2n (decide (lo2 < t))) % M = c1 + b2n (decide (lo2 < t)) :=
    Nat.mod_eq_of_lt (by unfold M at *; omega)
  -- no overflow of the high word: the total is below M^2
  have htot : a * b + c + t < M * M := by
    have : (M - 1) * (M - 1) + (M - 1) + (M - 1) < M * M := by unfold M; norm_num
    omega
  have hsum : lo2 + (hi + (c1 + b2n (decide (lo2 < t)))) * M = a * b + c + t := by
    have h3 : (hi + (c1 + b2n (decide (lo2 < t)))) * M = hi * M + c1 * M + b2n (decide (lo2 < t)) * M := by ring
    have hm : M * hi = hi * M := Nat.mul_comm _ _
    have hdm' : hi * M + lo = a * b := by rw [← hm]; exact hdm
    rw [h3]
    generalize hi * M = X at *
    generalize c1 * M = Y at *
    generalize b2n (decide (lo2 < t)) * M = Z at *
    omega
  have hhi' : hi + (c1 + b2n (decide (lo2 < t))) < M := by
    by_contra hge
    have : M * M ≤ (hi + (c1 + b2n (decide (lo2 < t)))) * M := Nat.mul_le_mul_right _ (by omega)
    omega
  refine ⟨Nat.mod_lt _ hM, Nat.mod_lt _ hM, ?_⟩
  show lo2 + (hi + (c1 + b2n (decide (lo2 < t))) % M) % M * M = a * b + c + t
  rw [hsmall, Nat.mod_eq_of_lt hhi']
  exact hsum

/-- the eight statements of one cell `(p0, p1)` -/
def mulCell (wa wb wd p0 p1 : Nat) : List S :=
  [S.mul128 (argLimb 0 wa p0) (argLimb 1 wb p1) .tmplo .tmphi,
   S.assign .tmp (.v (.dest (p0 + p1))),
   S.assign .tmplo (.add (.v .tmplo) (.v .carry)),
   S.assign .carry (.lt (.v .tmplo) (.v .carry)),
   S.assign .tmplo (.add (.v .tmplo) (.v .tmp)),
   S.assign .tmphi (.add (.v .tmphi) (.add (.v .carry) (.lt (.v .tmplo) (.v .tmp)))),
   S.assign .carry (.v .tmphi),
   S.assign (.dest (p0 + p1)) (mask wd (some (wa + wb)) (p0 + p1) (.v .tmplo))]

theorem maskCond_natural (wd n : Nat) : maskCond wd (some wd) n = false := by
  simp [maskCond]

/-- one cell adds `a_p0 * b_p1` and the running carry into limb `p0 + p1`; the new carry is the high word -/
theorem mulCell_exec (σ : Env) (wa wb p0 p1 A B : Nat) (hA : A < 2 ^ wa) (hB : B < 2 ^ wb)
    (h0 : Enc σ 0 A) (h1 : Enc σ 1 B) (hc : σ.get .carry < M) (ht : σ.get (.dest (p0 + p1)) < M) :
    let σ' := execList σ (mulCell wa wb (wa + wb) p0 p1)
    Enc σ' 0 A ∧ Enc σ' 1 B ∧ σ'.get .carry < M ∧ σ'.get (.dest (p0 + p1)) < M ∧
    σ'.get (.dest (p0 + p1)) + σ'.get .carry * M
      = limbOf A p0 * limbOf B p1 + σ.get .carry + σ.get (.dest (p0 + p1)) ∧
    (∀ l, l ≠ p0 + p1 → σ'.get (.dest l) = σ.get (.dest l)) := by
  intro σ'
  have ea := eval_argLimb σ 0 wa p0 A h0 hA
  have eb := eval_argLimb σ 1 wb p1 B h1 hB
  obtain ⟨hlo2, hhi', hsum⟩ := mul_cell_arith (limbOf A p0) (limbOf B p1) (σ.get .carry) (σ.get (.dest (p0 + p1)))
    (limbOf_lt A p0) (limbOf_lt B p1) hc ht
  set a := limbOf A p0
  set b := limbOf B p1
  set c := σ.get .carry
  set t := σ.get (.dest (p0 + p1))
  set lo1 := (a * b % M + c) % M
  set lo2 := (lo1 + t) % M
  set hi' := (a * b / M + (b2n (decide (lo1 < c)) + b2n (decide (lo2 < t))) % M) % M
  have hexec : σ' = ((((((((σ.set .tmplo (a * b % M)).set .tmphi (a * b / M)).set .tmp t).set .tmplo lo1).set .carry
      (b2n (decide (lo1 < c)))).set .tmplo lo2).set .tmphi hi').set .carry hi').set (.dest (p0 + p1)) lo2 := by
    show execList σ (mulCell wa wb (wa + wb) p0 p1) = _
    simp only [mulCell, execList, S.exec, E.eval, ea, eb, eval_mask, maskCond_natural, Bool.false_eq_true, if_false,
      get_set_same, get_set_ne, ne_eq, reduceCtorEq, not_false_eq_true]
    rfl
  have hdne : ∀ (x : Var), (∀ l, x ≠ .dest l) → ∀ l, Var.dest l ≠ x := fun x h l e => h l e.symm
  refine ⟨?_, ?_, ?_, ?_, ?_, ?_⟩
  · rw [hexec]
    repeat (first | apply Enc_set _ _ _ _ _ _ (by intro l; simp) | exact h0)
  · rw [hexec]
    repeat (first | apply Enc_set _ _ _ _ _ _ (by intro l; simp) | exact h1)
  · rw [hexec, get_set_ne _ _ _ _ (by simp), get_set_same]; exact hhi'
  · rw [hexec, get_set_same]; exact hlo2
  · rw [hexec, get_set_same, get_set_ne _ _ _ _ (by simp), get_set_same]; exact hsum
  · intro l hl
    have hne : Var.dest l ≠ Var.dest (p0 + p1) := by intro e; injection e with e; exact hl e
    rw [hexec, get_set_ne _ _ _ _ hne]
    simp only [get_set_ne, ne_eq, reduceCtorEq, not_false_eq_true]

/-- replacing limb `i` changes the value by the difference of that limb -/
theorem destVal_replace (σ σ' : Env) (i L : Nat) (hi : i < L)
    (h : ∀ l, l ≠ i → σ'.get (.dest l) = σ.get (.dest l)) :
    destVal σ' L + σ.get (.dest i) * 2 ^ (64 * i) = destVal σ L + σ'.get (.dest i) * 2 ^ (64 * i) := by
  induction L with
  | zero => omega
  | succ L ih =>
    simp only [destVal]
    by_cases hL : i = L
    · subst hL
      rw [destVal_congr σ σ' i (fun l hl => h l (by omega))]
      omega
    · have := ih (by omega)
      rw [h L (fun e => hL e.symm)]
      omega

/-- state facts carried through a row of `_build_mul` -/
structure MulInv (σ : Env) (A B L : Nat) : Prop where
  e0 : Enc σ 0 A
  e1 : Enc σ 1 B
  carry : σ.get .carry < M
  limbs_lt : ∀ l, l < L → σ.get (.dest l) < M

theorem mul_step_arith (DV DV' D0 a b c c' d' t P0 P1 Bm Mx : Nat)
    (hrep : DV' + t * (P0 * P1) = DV + d' * (P0 * P1))
    (hsum : d' + c' * Mx = a * b + c + t)
    (hV : DV + c * (P0 * P1) = D0 + a * P0 * Bm) :
    DV' + c' * (P0 * P1 * Mx) = D0 + a * P0 * (Bm + P1 * b) := by
  have hs : (d' + c' * Mx) * (P0 * P1) = (a * b + c + t) * (P0 * P1) := by rw [hsum]
  have e1 : (d' + c' * Mx) * (P0 * P1) = d' * (P0 * P1) + c' * (P0 * P1 * Mx) := by ring
  have e2 : (a * b + c + t) * (P0 * P1) = a * P0 * (P1 * b) + c * (P0 * P1) + t * (P0 * P1) := by ring
  have e3 : a * P0 * (Bm + P1 * b) = a * P0 * Bm + a * P0 * (P1 * b) := by ring
  rw [e1, e2] at hs
  rw [e3]
  omega

theorem mul_inner (σr : Env) (wa wb p0 A B : Nat) (hA : A < 2 ^ wa) (hB : B < 2 ^ wb)
    (hinv : MulInv σr A B (limbs (wa + wb))) (hc0 : σr.get .carry = 0) (hp0 : p0 + limbs wb ≤ limbs (wa + wb))
    (hz : ∀ l, p0 + limbs wb ≤ l → l < limbs (wa + wb) → σr.get (.dest l) = 0) (p1 : Nat) (hp1 : p1 ≤ limbs wb) :
    let σ := execList σr (((List.range p1).map (mulCell wa wb (wa + wb) p0)).flatten)
    MulInv σ A B (limbs (wa + wb)) ∧ (∀ l, p0 + limbs wb ≤ l → l < limbs (wa + wb) → σ.get (.dest l) = 0) ∧
    destVal σ (limbs (wa + wb)) + σ.get .carry * 2 ^ (64 * (p0 + p1))
      = destVal σr (limbs (wa + wb)) + limbOf A p0 * 2 ^ (64 * p0) * (B % 2 ^ (64 * p1)) := by
  induction p1 with
  | zero =>
    simp only [List.range_zero, List.map_nil, List.flatten_nil, execList, hc0, Nat.mul_zero, Nat.pow_zero, Nat.mod_one]
    exact ⟨hinv, hz, by omega⟩
  | succ p1 ih =>
    obtain ⟨hI, hZ, hV⟩ := ih (by omega)
    simp only [flatten_map_range_succ, execList_append]
    set σ := execList σr (((List.range p1).map (mulCell wa wb (wa + wb) p0)).flatten) with hσ
    obtain ⟨e0', e1', hc', hl', hsum, hoth⟩ :=
      mulCell_exec σ wa wb p0 p1 A B hA hB hI.e0 hI.e1 hI.carry (hI.limbs_lt _ (by omega))
    set σ' := execList σ (mulCell wa wb (wa + wb) p0 p1)
    refine ⟨⟨e0', e1', hc', ?_⟩, ?_, ?_⟩
    · intro l hlL
      by_cases hl : l = p0 + p1
      · subst hl; exact hl'
      · rw [hoth l hl]; exact hI.limbs_lt l hlL
    · intro l hl hlL
      rw [hoth l (by omega)]; exact hZ l hl hlL
    · have hrep := destVal_replace σ σ' (p0 + p1) (limbs (wa + wb)) (by omega) hoth
      have hPos : 2 ^ (64 * (p0 + (p1 + 1))) = 2 ^ (64 * p0) * 2 ^ (64 * p1) * M := by
        unfold M
        rw [show 64 * (p0 + (p1 + 1)) = 64 * p0 + 64 * p1 + 64 by omega, Nat.pow_add, Nat.pow_add]
      have hPP : 2 ^ (64 * (p0 + p1)) = 2 ^ (64 * p0) * 2 ^ (64 * p1) := by
        rw [Nat.mul_add, Nat.pow_add]
      rw [hPP] at hrep hV
      rw [hPos, mod_succ_limb B p1]
      exact mul_step_arith _ _ _ _ _ _ _ _ _ _ _ _ _ hrep hsum hV

/-- one row of `_build_mul` -/
def mulRow (wa wb wd p0 : Nat) : List S :=
  [S.assign .carry (.lit 0)] ++
  (((List.range (limbs wb)).filter fun p1 => p0 + p1 < limbs wd).map (mulCell wa wb wd p0)).flatten ++
  (if limbs wd > p0 + limbs wb then
    [S.assign (.dest (p0 + limbs wb)) (mask wd (some (wa + wb)) (p0 + limbs wb) (.v .carry))]
   else [])

theorem emitMul_eq (wa wb wd : Nat) :
    emitMul wa wb wd = ((List.range (limbs wd)).map fun n => S.assign (.dest n) (.lit 0)) ++
      ((List.range (limbs wa)).map (mulRow wa wb wd)).flatten := rfl

theorem limbs_add_le (wa wb : Nat) (ha : 0 < wa) (hb : 0 < wb) : limbs wa + limbs wb ≤ limbs (wa + wb) + 1 := by
  unfold limbs; omega

theorem filter_all {α : Type} (l : List α) (p : α → Bool) (h : ∀ x ∈ l, p x = true) : l.filter p = l :=
  List.filter_eq_self.mpr h

/-- state at the start of row `p0` -/
structure MulRowInv (σ : Env) (wa wb A B p0 : Nat) : Prop where
  e0 : Enc σ 0 A
  e1 : Enc σ 1 B
  limbs_lt : ∀ l, l < limbs (wa + wb) → σ.get (.dest l) < M
  zeros : ∀ l, p0 + limbs wb ≤ l → l < limbs (wa + wb) → σ.get (.dest l) = 0
  val : destVal σ (limbs (wa + wb)) = A % 2 ^ (64 * p0) * B

theorem mulRow_exec (σ : Env) (wa wb A B p0 : Nat) (hwa : 0 < wa) (hwb : 0 < wb) (hA : A < 2 ^ wa) (hB : B < 2 ^ wb)
    (hp0 : p0 < limbs wa) (hI : MulRowInv σ wa wb A B p0) :
    MulRowInv (execList σ (mulRow wa wb (wa + wb) p0)) wa wb A B (p0 + 1) := by
  have hll := limbs_add_le wa wb hwa hwb
  have hfit : p0 + limbs wb ≤ limbs (wa + wb) := by omega
  unfold mulRow
  rw [filter_all _ _ (by intro x hx; simp only [List.mem_range] at hx; simp; omega)]
  simp only [execList_append, execList, S.exec, E.eval, Nat.zero_mod]
  set σr := σ.set .carry 0 with hσr
  have hinv : MulInv σr A B (limbs (wa + wb)) :=
    ⟨Enc_set _ _ _ _ _ hI.e0 (by intro l; simp), Enc_set _ _ _ _ _ hI.e1 (by intro l; simp),
     by rw [hσr, get_set_same]; exact M_pos,
     fun l hl => by rw [hσr, get_set_ne _ _ _ _ (by simp)]; exact hI.limbs_lt l hl⟩
  have hz : ∀ l, p0 + limbs wb ≤ l → l < limbs (wa + wb) → σr.get (.dest l) = 0 :=
    fun l hl hlL => by rw [hσr, get_set_ne _ _ _ _ (by simp)]; exact hI.zeros l hl hlL
  have hdv0 : destVal σr (limbs (wa + wb)) = destVal σ (limbs (wa + wb)) := destVal_set_other _ _ _ _ (by intro l; simp)
  obtain ⟨hJ, hZ, hV⟩ := mul_inner σr wa wb p0 A B hA hB hinv (by simp [hσr]) hfit hz (limbs wb) (le_refl _)
  set σ2 := execList σr (((List.range (limbs wb)).map (mulCell wa wb (wa + wb) p0)).flatten) with hσ2
  rw [hdv0, hI.val, Nat.mod_eq_of_lt (lt_pow_limbs B wb hB _ (le_refl _))] at hV
  have hsucc : A % 2 ^ (64 * (p0 + 1)) * B = A % 2 ^ (64 * p0) * B + limbOf A p0 * 2 ^ (64 * p0) * B := by
    rw [mod_succ_limb]; ring
  by_cases hst : limbs (wa + wb) > p0 + limbs wb
  · simp only [hst, if_true, execList, S.exec, eval_mask, maskCond_natural, Bool.false_eq_true, if_false, E.eval]
    set σ3 := σ2.set (.dest (p0 + limbs wb)) (σ2.get .carry) with hσ3
    have hoth : ∀ l, l ≠ p0 + limbs wb → σ3.get (.dest l) = σ2.get (.dest l) := by
      intro l hl
      have hne : Var.dest l ≠ Var.dest (p0 + limbs wb) := by intro e; injection e with e; exact hl e
      rw [hσ3, get_set_ne _ _ _ _ hne]
    have hrep := destVal_replace σ2 σ3 (p0 + limbs wb) (limbs (wa + wb)) hst hoth
    rw [hZ _ (le_refl _) hst, hσ3, get_set_same] at hrep
    refine ⟨Enc_set _ _ _ _ _ hJ.e0 (by intro l; simp), Enc_set _ _ _ _ _ hJ.e1 (by intro l; simp), ?_, ?_, ?_⟩
    · intro l hl
      by_cases hle : l = p0 + limbs wb
      · subst hle; rw [hσ3, get_set_same]; exact hJ.carry
      · rw [hoth l hle]; exact hJ.limbs_lt l hl
    · intro l hl hlL
      rw [hoth l (by omega)]; exact hZ l (by omega) hlL
    · rw [hσ3, hsucc]; omega
  · simp only [hst, if_false, execList]
    have heq : limbs (wa + wb) = p0 + limbs wb := by omega
    -- the carry that is dropped is zero: the product fits
    have hprod : A % 2 ^ (64 * (p0 + 1)) * B < 2 ^ (64 * (p0 + limbs wb)) := by
      have h1 : A % 2 ^ (64 * (p0 + 1)) ≤ A := Nat.mod_le _ _
      have h2 : A * B < 2 ^ (wa + wb) := by rw [Nat.pow_add]; exact Nat.mul_lt_mul'' hA hB
      have h3 : 2 ^ (wa + wb) ≤ 2 ^ (64 * (p0 + limbs wb)) := by
        apply Nat.pow_le_pow_right (by decide)
        rw [← heq]; unfold limbs; omega
      calc A % 2 ^ (64 * (p0 + 1)) * B ≤ A * B := Nat.mul_le_mul_right _ h1
        _ < 2 ^ (wa + wb) := h2
        _ ≤ _ := h3
    have hc0 : σ2.get .carry = 0 := by
      by_contra hne
      have : 2 ^ (64 * (p0 + limbs wb)) ≤ σ2.get .carry * 2 ^ (64 * (p0 + limbs wb)) :=
        Nat.le_mul_of_pos_left _ (by omega)
      rw [← hsucc] at hV
      omega
    refine ⟨hJ.e0, hJ.e1, hJ.limbs_lt, ?_, ?_⟩
    · intro l hl hlL; omega
    · rw [hc0] at hV
      rw [hsucc]; omega

/-- after the zeroing loop every destination limb below `L` is 0 and nothing else changed -/
theorem zero_init (σ0 : Env) (L : Nat) :
    let σ := execList σ0 ((List.range L).map fun n => S.assign (.dest n) (.lit 0))
    (∀ l, l < L → σ.get (.dest l) = 0) ∧ (∀ x, (∀ l, x ≠ .dest l) → σ.get x = σ0.get x) := by
  induction L with
  | zero => exact ⟨fun l hl => by omega, fun x _ => rfl⟩
  | succ L ih =>
    obtain ⟨hz, hs⟩ := ih
    simp only [List.range_succ, List.map_append, List.map_cons, List.map_nil, execList_append, execList, S.exec,
      E.eval, Nat.zero_mod]
    refine ⟨fun l hl => ?_, fun x hx => ?_⟩
    · by_cases h : l = L
      · subst h; simp
      · have hne : Var.dest l ≠ Var.dest L := by intro e; injection e with e; exact h e
        rw [get_set_ne _ _ _ _ hne]; exact hz l (by omega)
    · rw [get_set_ne _ _ _ _ (hx L)]; exact hs x hx

theorem destVal_zero (σ : Env) (L : Nat) (h : ∀ l, l < L → σ.get (.dest l) = 0) : destVal σ L = 0 := by
  induction L with
  | zero => rfl
  | succ L ih => simp only [destVal, ih (fun l hl => h l (by omega)), h L (by omega)]; omega

theorem mul_rows (σ : Env) (wa wb A B : Nat) (hwa : 0 < wa) (hwb : 0 < wb) (hA : A < 2 ^ wa) (hB : B < 2 ^ wb)
    (hI : MulRowInv σ wa wb A B 0) (n : Nat) (hn : n ≤ limbs wa) :
    MulRowInv (execList σ (((List.range n).map (mulRow wa wb (wa + wb))).flatten)) wa wb A B n := by
  induction n with
  | zero => simpa [execList] using hI
  | succ n ih =>
    rw [flatten_map_range_succ, execList_append]
    exact mulRow_exec _ wa wb A B n hwa hwb hA hB (by omega) (ih (by omega))

/-- **`_build_mul`** with a destination of the natural width `len(a) + len(b)`: schoolbook multiplication on
    64-bit limbs with the carries of the 128-bit partial products; the destination holds exactly `A * B` -/
theorem emitMul_correct (σ0 : Env) (wa wb A B : Nat) (hwa : 0 < wa) (hwb : 0 < wb) (hA : A < 2 ^ wa) (hB : B < 2 ^ wb)
    (h0 : Enc σ0 0 A) (h1 : Enc σ0 1 B) :
    destVal (execList σ0 (emitMul wa wb (wa + wb))) (limbs (wa + wb)) = A * B := by
  rw [emitMul_eq, execList_append]
  obtain ⟨hz, hs⟩ := zero_init σ0 (limbs (wa + wb))
  set σz := execList σ0 ((List.range (limbs (wa + wb))).map fun n => S.assign (.dest n) (.lit 0)) with hσz
  have hI : MulRowInv σz wa wb A B 0 :=
    ⟨fun l => by rw [hs _ (by intro l'; simp)]; exact h0 l,
     fun l => by rw [hs _ (by intro l'; simp)]; exact h1 l,
     fun l hl => by rw [hz l hl]; exact M_pos,
     fun l _ hl => hz l hl,
     by rw [destVal_zero σz _ hz]; simp [Nat.mod_one]⟩
  have := (mul_rows σz wa wb A B hwa hwb hA hB hI (limbs wa) (le_refl _)).val
  rw [this, Nat.mod_eq_of_lt (lt_pow_limbs A wa hA _ (le_refl _))]

/-! ### `_build_select` -/
open Pyrtl.Spec in
theorem selectVal_lt (l : List Nat) (a : Nat) : selectVal l a < 2 ^ l.length := by
  induction l with
  | nil => simp [selectVal]
  | cons i rest ih =>
    simp only [selectVal, List.length_cons, Nat.pow_succ]
    have : bit a i < 2 := Nat.mod_lt _ (by decide)
    omega

open Pyrtl.Spec in
theorem selectVal_append (l1 l2 : List Nat) (a : Nat) :
    selectVal (l1 ++ l2) a = selectVal l1 a + 2 ^ l1.length * selectVal l2 a := by
  induction l1 with
  | nil => simp [selectVal]
  | cons i rest ih => simp only [List.cons_append, selectVal, ih, List.length_cons, Nat.pow_succ]; ring

theorem limb_bit (x q r : Nat) (hr : r < 64) :
    (x / 2 ^ (64 * q) % 2 ^ 64) / 2 ^ r % 2 = x / 2 ^ (64 * q + r) % 2 := by
  rw [Nat.pow_add, ← Nat.div_div_eq_div_mul]
  generalize x / 2 ^ (64 * q) = y
  have h : 2 ^ 64 = 2 ^ r * 2 ^ (64 - r) := by rw [← Nat.pow_add]; congr 1; omega
  rw [h, Nat.mod_mul_right_div_self]
  have : 2 ∣ 2 ^ (64 - r) := dvd_pow_self 2 (by omega)
  exact Nat.mod_mod_of_dvd _ this

/-- bit `b` of the encoded value, read from limb `b / 64` -/
theorem bit_of_limb (A b : Nat) : (limbOf A (b / 64) / 2 ^ (b % 64)) % 2 = Spec.bit A b := by
  unfold limbOf Spec.bit M
  rw [limb_bit A (b / 64) (b % 64) (Nat.mod_lt _ (by decide)), Nat.div_add_mod]

/-- one term of a destination limb: `((1 & (src[b/64] >> (b%64))) << en)` -/
theorem eval_selTerm (σ : Env) (A b en : Nat) (h0 : Enc σ 0 A) (hen : en < 64) :
    (E.shl (.band (.lit 1) (.shr (.v (.arg 0 (b / 64))) (b % 64))) en).eval σ = Spec.bit A b * 2 ^ en := by
  simp only [E.eval, h0 (b / 64)]
  have h1 : (1 : Nat) % M = 1 := Nat.mod_eq_of_lt (by unfold M; norm_num)
  rw [h1, Nat.one_and_eq_mod_two, bit_of_limb]
  apply Nat.mod_eq_of_lt
  have hb : Spec.bit A b < 2 := Nat.mod_lt _ (by decide)
  have : 2 ^ en * 2 ≤ M := by
    unfold M; rw [← Nat.pow_succ]; exact Nat.pow_le_pow_right (by decide) (by omega)
  calc Spec.bit A b * 2 ^ en ≤ 1 * 2 ^ en := Nat.mul_le_mul_right _ (by omega)
    _ < 2 ^ en * 2 := by have := Nat.two_pow_pos en; omega
    _ ≤ M := this

/-- OR of single-bit terms at increasing positions is their sum: the chunk of the selected value -/
theorem eval_orAll_sel (σ : Env) (A : Nat) (h0 : Enc σ 0 A) (sl : List Nat) (k : Nat) (hk : k + sl.length ≤ 64)
    (e : E) (s : Nat) (he : e.eval σ = s) (hs : s < 2 ^ k) :
    ((sl.zipIdx k).map (fun (p : Nat × Nat) =>
        E.shl (.band (.lit 1) (.shr (.v (.arg 0 (p.1 / 64))) (p.1 % 64))) p.2) |>.foldl .bor e).eval σ
      = s + 2 ^ k * Spec.selectVal sl A := by
  induction sl generalizing k e s with
  | nil => simp [Spec.selectVal, he]
  | cons b rest ih =>
    simp only [List.zipIdx_cons, List.map_cons, List.foldl_cons, List.length_cons] at hk ⊢
    have ht := eval_selTerm σ A b k h0 (by omega)
    have hb : Spec.bit A b < 2 := Nat.mod_lt _ (by decide)
    have hor : (E.bor e (E.shl (.band (.lit 1) (.shr (.v (.arg 0 (b / 64))) (b % 64))) k)).eval σ
        = s + 2 ^ k * Spec.bit A b := by
      simp only [E.eval] at ht ⊢
      rw [he, ht, Nat.mul_comm (Spec.bit A b), Nat.or_comm, ← Nat.two_pow_add_eq_or_of_lt hs]
      omega
    rw [ih (k + 1) (by omega) _ _ hor (by rw [Nat.pow_succ]; nlinarith [Nat.two_pow_pos k])]
    simp only [Spec.selectVal, Nat.pow_succ]
    ring

theorem limbwise_nomask (σ0 : Env) (f : Nat → E) (V L : Nat)
    (hf : ∀ n σ, n < L → SameArgs σ σ0 → (f n).eval σ = limbOf V n) :
    let σ := execList σ0 ((List.range L).map fun i => S.assign (.dest i) (f i))
    SameArgs σ σ0 ∧ destVal σ L = V % 2 ^ (64 * L) := by
  induction L with
  | zero => exact ⟨fun _ _ => rfl, by simp [destVal, Nat.mod_one, execList]⟩
  | succ n ih =>
    obtain ⟨hs, hv⟩ := ih (fun m σ hm => hf m σ (by omega))
    simp only [List.range_succ, List.map_append, List.map_cons, List.map_nil, execList_append, execList, S.exec]
    set σ := execList σ0 ((List.range n).map fun i => S.assign (.dest i) (f i)) with hσ
    rw [hf n σ (by omega) hs]
    refine ⟨fun k l => by rw [get_set_ne _ _ _ _ (by simp)]; exact hs k l, ?_⟩
    simp only [destVal, get_set_same, destVal_set_dest_ge _ _ _ _ (le_refl n), hv]
    rw [mod_succ_limb]; ring

theorem eval_orAll_chunk (σ : Env) (A : Nat) (h0 : Enc σ 0 A) (sl : List Nat) (hlen : sl.length ≤ 64) :
    (orAll (sl.zipIdx.map fun (p : Nat × Nat) =>
        E.shl (.band (.lit 1) (.shr (.v (.arg 0 (p.1 / 64))) (p.1 % 64))) p.2)).eval σ = Spec.selectVal sl A := by
  cases sl with
  | nil => simp [orAll, E.eval, Spec.selectVal]
  | cons b rest =>
    simp only [List.zipIdx_cons, List.map_cons, orAll, Nat.zero_add]
    have ht := eval_selTerm σ A b 0 h0 (by omega)
    simp only [Nat.pow_zero, Nat.mul_one] at ht
    have hb : Spec.bit A b < 2 ^ 1 := by
      have : Spec.bit A b < 2 := Nat.mod_lt _ (by decide)
      simpa using this
    simp only [List.length_cons] at hlen
    rw [eval_orAll_sel σ A h0 rest 1 (by omega) _ _ ht hb]
    simp [Spec.selectVal]

/-- chunks of a selected value -/
theorem limbOf_selectVal (l : List Nat) (A n : Nat) :
    limbOf (Spec.selectVal l A) n = Spec.selectVal ((l.drop (64 * n)).take 64) A := by
  unfold limbOf M
  -- split at 64 n
  have h1 : Spec.selectVal l A = Spec.selectVal (l.take (64 * n)) A
      + 2 ^ (l.take (64 * n)).length * Spec.selectVal (l.drop (64 * n)) A := by
    rw [← selectVal_append, List.take_append_drop]
  by_cases hl : 64 * n ≤ l.length
  · have hlen : (l.take (64 * n)).length = 64 * n := by simp [hl]
    rw [h1, hlen]
    have hlt := selectVal_lt (l.take (64 * n)) A
    rw [hlen] at hlt
    rw [Nat.add_mul_div_left _ _ (Nat.two_pow_pos _), Nat.div_eq_of_lt hlt, Nat.zero_add]
    -- now the low 64 bits of the rest
    set d := l.drop (64 * n) with hd
    have h2 : Spec.selectVal d A = Spec.selectVal (d.take 64) A + 2 ^ (d.take 64).length * Spec.selectVal (d.drop 64) A := by
      rw [← selectVal_append, List.take_append_drop]
    by_cases hd64 : 64 ≤ d.length
    · have hl2 : (d.take 64).length = 64 := by simp [hd64]
      have hlt2 := selectVal_lt (d.take 64) A
      rw [hl2] at hlt2
      rw [h2, hl2, Nat.add_mul_mod_self_left, Nat.mod_eq_of_lt hlt2]
    · have : d.take 64 = d := List.take_of_length_le (by omega)
      rw [this]
      apply Nat.mod_eq_of_lt
      exact lt_of_lt_of_le (selectVal_lt d A) (Nat.pow_le_pow_right (by decide) (by omega))
  · have hdrop : l.drop (64 * n) = [] := List.drop_of_length_le (by omega)
    rw [hdrop]
    have hlt := selectVal_lt l A
    have : Spec.selectVal l A < 2 ^ (64 * n) := lt_of_lt_of_le hlt (Nat.pow_le_pow_right (by decide) (by omega))
    rw [Nat.div_eq_of_lt this]
    simp [Spec.selectVal]

/-- **`_build_select`**: bit `k` of the destination is bit `idx[k]` of the source, for every index tuple
    (runs, reversals, repeats) and any number of limbs on either side -/
theorem emitSelect_correct (σ0 : Env) (idx : List Nat) (wd A : Nat) (h0 : Enc σ0 0 A) (hwd : wd ≤ idx.length) :
    destVal (execList σ0 (emitSelect idx wd)) (limbs wd) = Spec.selectVal (idx.take wd) A := by
  unfold emitSelect
  obtain ⟨_, hv⟩ := limbwise_nomask σ0 (fun n =>
      orAll (((idx.drop (64 * n)).take (min wd (64 * (n + 1)) - 64 * n)).zipIdx.map fun (p : Nat × Nat) =>
        E.shl (.band (.lit 1) (.shr (.v (.arg 0 (p.1 / 64))) (p.1 % 64))) p.2))
    (Spec.selectVal (idx.take wd) A) (limbs wd) (by
      intro n σ hn hs
      have hE : Enc σ 0 A := Enc_of_same σ σ0 0 A h0 hs
      rw [eval_orAll_chunk σ A hE _ (by simp only [List.length_take]; omega), limbOf_selectVal]
      congr 1
      rw [List.drop_take, List.take_take]
      congr 1
      unfold limbs at hn
      omega)
  rw [hv]
  apply Nat.mod_eq_of_lt
  refine lt_of_lt_of_le (selectVal_lt _ A) (Nat.pow_le_pow_right (by decide) ?_)
  simp only [List.length_take]
  unfold limbs; omega

end Pyrtl.CLimb
