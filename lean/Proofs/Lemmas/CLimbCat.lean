import Proofs.Lemmas.CLimb
/-! `_build_concat` at the natural destination width: packing pieces into limbs is concatenation. -/
namespace Pyrtl.CLimb

/-- value of the OR of the collected terms (`'|'.join(res)`) -/
def evalOr (σ : Env) : List E → Nat
  | [] => 0
  | e :: rest => rest.foldl (fun acc x => acc ||| x.eval σ) (e.eval σ)

theorem foldl_bor_eval (σ : Env) (rest : List E) (e : E) :
    (rest.foldl .bor e).eval σ = rest.foldl (fun acc x => acc ||| x.eval σ) (e.eval σ) := by
  induction rest generalizing e with
  | nil => rfl
  | cons x xs ih => simp only [List.foldl_cons, ih, E.eval]

theorem eval_orAll (σ : Env) (res : List E) : (orAll res).eval σ = evalOr σ res := by
  cases res with
  | nil => simp [orAll, evalOr, E.eval]
  | cons e rest => simp only [orAll, evalOr, foldl_bor_eval]

theorem evalOr_snoc (σ : Env) (res : List E) (t : E) : evalOr σ (res ++ [t]) = evalOr σ res ||| t.eval σ := by
  cases res with
  | nil => simp [evalOr]
  | cons e rest => simp only [List.cons_append, evalOr, List.foldl_append, List.foldl_cons, List.foldl_nil]

/-- the values of the argument wires -/
structure CatArgs (σ : Env) (ws : List Nat) (Vs : Nat → Nat) : Prop where
  enc : ∀ k, Enc σ k (Vs k)
  lt : ∀ k, k < ws.length → Vs k < 2 ^ (ws.getD k 0)

/-- the bits of a piece that are still to be placed -/
def pv (Vs : Nat → Nat) (p : Piece) : Nat := limbOf (Vs p.k) p.limb / 2 ^ p.start

structure PieceOk (Vs : Nat → Nat) (p : Piece) : Prop where
  pos : 0 < p.size
  fit : p.start + p.size ≤ 64
  bound : limbOf (Vs p.k) p.limb < 2 ^ (p.start + p.size)

theorem pv_lt (Vs : Nat → Nat) (p : Piece) (h : PieceOk Vs p) : pv Vs p < 2 ^ p.size := by
  unfold pv
  apply Nat.div_lt_of_lt_mul
  rw [← Nat.pow_add]; exact h.bound

/-- value of a stream of pieces, least significant first -/
def SV (Vs : Nat → Nat) : List Piece → Nat
  | [] => 0
  | p :: rest => pv Vs p + 2 ^ p.size * SV Vs rest

def bitsOf : List Piece → Nat
  | [] => 0
  | p :: rest => p.size + bitsOf rest

theorem SV_lt (Vs : Nat → Nat) (ps : List Piece) (h : ∀ p ∈ ps, PieceOk Vs p) : SV Vs ps < 2 ^ bitsOf ps := by
  induction ps with
  | nil => simp [SV, bitsOf]
  | cons p rest ih =>
    have h1 := pv_lt Vs p (h p (by simp))
    have h2 := ih (fun q hq => h q (by simp [hq]))
    simp only [SV, bitsOf, Nat.pow_add]
    have : 2 ^ p.size * SV Vs rest + 2 ^ p.size ≤ 2 ^ p.size * 2 ^ bitsOf rest := by
      calc 2 ^ p.size * SV Vs rest + 2 ^ p.size = 2 ^ p.size * (SV Vs rest + 1) := by ring
        _ ≤ 2 ^ p.size * 2 ^ bitsOf rest := Nat.mul_le_mul_left _ (by omega)
    omega

/-- the term appended for a piece: `((arg[limb] >> start) << dpos)` -/
theorem eval_catTerm (σ : Env) (Vs : Nat → Nat) (p : Piece) (dpos : Nat) (henc : ∀ k, Enc σ k (Vs k)) :
    (E.shl (.shr (.v (.arg p.k p.limb)) p.start) dpos).eval σ = (pv Vs p * 2 ^ dpos) % M := by
  simp only [E.eval, henc p.k p.limb, pv]

theorem bitsOf_pos (Vs : Nat → Nat) (ps : List Piece) (h : ∀ p ∈ ps, PieceOk Vs p) (hne : ps ≠ []) : 0 < bitsOf ps := by
  cases ps with
  | nil => exact absurd rfl hne
  | cons p rest => simp only [bitsOf]; have := (h p (by simp)).pos; omega

/-- OR with a term placed above everything collected so far is addition -/
theorem or_place (R x dpos : Nat) (hR : R < 2 ^ dpos) : R ||| 2 ^ dpos * x = R + 2 ^ dpos * x := by
  rw [Nat.or_comm, ← Nat.two_pow_add_eq_or_of_lt hR]; omega

/-- the inner `while True:` of `_build_concat` for one destination limb -/
theorem catInner_spec (σ : Env) (Vs : Nat → Nat) (henc : ∀ k, Enc σ k (Vs k)) (wd n : Nat) :
    ∀ (fuel dpos : Nat) (res : List E) (curr : Piece) (rest : List Piece),
      66 ≤ fuel + dpos → dpos < 64 →
      (∀ p ∈ curr :: rest, PieceOk Vs p) → (∀ p ∈ rest, p.start = 0) → (curr.start ≠ 0 → dpos = 0) →
      evalOr σ res < 2 ^ dpos →
      dpos + bitsOf (curr :: rest) = wd - 64 * n →
      (wd - 64 * n ≤ 64 →
        evalOr σ (catInner wd n fuel dpos res curr rest).1 = evalOr σ res + 2 ^ dpos * SV Vs (curr :: rest)) ∧
      (64 < wd - 64 * n →
        evalOr σ (catInner wd n fuel dpos res curr rest).1 < 2 ^ 64 ∧
        evalOr σ (catInner wd n fuel dpos res curr rest).1
            + 2 ^ 64 * SV Vs ((catInner wd n fuel dpos res curr rest).2.1 :: (catInner wd n fuel dpos res curr rest).2.2)
          = evalOr σ res + 2 ^ dpos * SV Vs (curr :: rest) ∧
        (∀ p ∈ (catInner wd n fuel dpos res curr rest).2.1 :: (catInner wd n fuel dpos res curr rest).2.2, PieceOk Vs p) ∧
        (∀ p ∈ (catInner wd n fuel dpos res curr rest).2.2, p.start = 0) ∧
        bitsOf ((catInner wd n fuel dpos res curr rest).2.1 :: (catInner wd n fuel dpos res curr rest).2.2) + 64
          = wd - 64 * n) := by
  intro fuel
  induction fuel with
  | zero => intro dpos _ _ _ h1 h2; omega
  | succ f ih =>
    intro dpos res curr rest hfuel hd hok hst hcs hR hbits
    have hcok := hok curr (by simp)
    have hpv := pv_lt Vs curr hcok
    have hterm := eval_catTerm σ Vs curr dpos henc
    simp only [bitsOf] at hbits
    unfold catInner
    simp only []
    by_cases hcross : dpos + curr.size > 64
    · -- the piece crosses the limb boundary
      simp only [hcross, if_true]
      have hs0 : curr.start = 0 := by
        by_contra hne
        have := hcs hne
        have := hcok.fit
        omega
      set c := 64 - dpos with hc
      have hM : M = 2 ^ dpos * 2 ^ c := by unfold M; rw [← Nat.pow_add]; congr 1; omega
      have ht : (pv Vs curr * 2 ^ dpos) % M = 2 ^ dpos * (pv Vs curr % 2 ^ c) := by
        rw [hM, Nat.mul_comm (pv Vs curr), Nat.mul_mod_mul_left]
      have hval : evalOr σ (res ++ [E.shl (.shr (.v (.arg curr.k curr.limb)) curr.start) dpos])
          = evalOr σ res + 2 ^ dpos * (pv Vs curr % 2 ^ c) := by
        rw [evalOr_snoc, hterm, ht, or_place _ _ _ hR]
      refine ⟨fun hle => by omega, fun _ => ⟨?_, ?_, ?_, hst, ?_⟩⟩
      · rw [hval]
        have h1 : pv Vs curr % 2 ^ c < 2 ^ c := Nat.mod_lt _ (Nat.two_pow_pos _)
        have h64 : (2 : Nat) ^ 64 = 2 ^ dpos * 2 ^ c := by rw [← Nat.pow_add]; congr 1; omega
        rw [h64]
        calc evalOr σ res + 2 ^ dpos * (pv Vs curr % 2 ^ c) < 2 ^ dpos + 2 ^ dpos * (pv Vs curr % 2 ^ c) := by omega
          _ = 2 ^ dpos * (pv Vs curr % 2 ^ c + 1) := by ring
          _ ≤ 2 ^ dpos * 2 ^ c := Nat.mul_le_mul_left _ (by omega)
      · rw [hval]
        simp only [SV]
        have hpc : pv Vs ⟨curr.k, curr.limb, 64 - (dpos + curr.size - curr.size), dpos + curr.size - 64⟩
            = pv Vs curr / 2 ^ c := by
          simp only [pv, hs0, Nat.pow_zero, Nat.div_one]
          congr 2; omega
        rw [hpc]
        have h64 : (2 : Nat) ^ 64 = 2 ^ dpos * 2 ^ c := by rw [← Nat.pow_add]; congr 1; omega
        have hsz : (2 : Nat) ^ curr.size = 2 ^ c * 2 ^ (dpos + curr.size - 64) := by
          rw [← Nat.pow_add]; congr 1; omega
        have hdm := Nat.div_add_mod (pv Vs curr) (2 ^ c)
        rw [h64, hsz]
        generalize SV Vs rest = X at *
        generalize 2 ^ (dpos + curr.size - 64) = Q at *
        generalize 2 ^ dpos = D at *
        generalize 2 ^ c = C at *
        have e1 : D * C * (pv Vs curr / C + Q * X) = D * (C * (pv Vs curr / C)) + D * (C * Q * X) := by ring
        have e2 : D * (pv Vs curr + C * Q * X) = D * (C * (pv Vs curr / C) + pv Vs curr % C) + D * (C * Q * X) := by
          rw [hdm]; ring
        rw [e1, e2]; ring
      · intro p hp
        simp only [List.mem_cons] at hp
        rcases hp with rfl | hp
        · refine ⟨by simp only []; omega, by simp only []; have := hcok.fit; omega, ?_⟩
          simp only []
          have := hcok.bound
          rw [hs0, Nat.zero_add] at this
          refine lt_of_lt_of_le this (Nat.pow_le_pow_right (by decide) (by omega))
        · exact hok p (by simp [hp])
      · simp only [bitsOf]; omega
    · simp only [hcross, if_false]
      -- the piece fits into this limb
      have hfit : dpos + curr.size ≤ 64 := by omega
      have hnoov : pv Vs curr * 2 ^ dpos < M := by
        unfold M
        calc pv Vs curr * 2 ^ dpos < 2 ^ curr.size * 2 ^ dpos := Nat.mul_lt_mul_of_pos_right hpv (Nat.two_pow_pos _)
          _ = 2 ^ (curr.size + dpos) := by rw [← Nat.pow_add]
          _ ≤ 2 ^ 64 := Nat.pow_le_pow_right (by decide) (by omega)
      have hval : evalOr σ (res ++ [E.shl (.shr (.v (.arg curr.k curr.limb)) curr.start) dpos])
          = evalOr σ res + 2 ^ dpos * pv Vs curr := by
        rw [evalOr_snoc, hterm, Nat.mod_eq_of_lt hnoov, Nat.mul_comm (pv Vs curr), or_place _ _ _ hR]
      have hR' : evalOr σ res + 2 ^ dpos * pv Vs curr < 2 ^ (dpos + curr.size) := by
        rw [Nat.pow_add]
        calc evalOr σ res + 2 ^ dpos * pv Vs curr < 2 ^ dpos + 2 ^ dpos * pv Vs curr := by omega
          _ = 2 ^ dpos * (pv Vs curr + 1) := by ring
          _ ≤ 2 ^ dpos * 2 ^ curr.size := Nat.mul_le_mul_left _ (by omega)
      by_cases hlast : dpos + curr.size ≥ wd - 64 * n
      · -- nothing is left: this was the last piece
        simp only [hlast, if_true]
        have hrest : rest = [] := by
          by_contra hne
          have := bitsOf_pos Vs rest (fun p hp => hok p (by simp [hp])) hne
          omega
        subst hrest
        refine ⟨fun _ => ?_, fun hgt => by omega⟩
        rw [hval]; simp [SV]
      · simp only [hlast, if_false]
        have hrne : rest ≠ [] := by
          intro he; subst he; simp only [bitsOf] at hbits; omega
        obtain ⟨nxt, rest', hr⟩ : ∃ nxt rest', rest = nxt :: rest' := by
          cases rest with
          | nil => exact absurd rfl hrne
          | cons a b => exact ⟨a, b, rfl⟩
        subst hr
        simp only []
        by_cases h64 : (dpos + curr.size == 64) = true
        · simp only [h64, if_true]
          have h64' : dpos + curr.size = 64 := by simpa using h64
          refine ⟨fun hle => by omega, fun _ => ⟨?_, ?_, fun p hp => hok p (by simp at hp ⊢; tauto),
            fun p hp => hst p (by simp [hp]), ?_⟩⟩
          · rw [hval]; rw [h64'] at hR'; exact hR'
          · rw [hval]
            simp only [SV]
            have : (2 : Nat) ^ 64 = 2 ^ dpos * 2 ^ curr.size := by rw [← Nat.pow_add, h64']
            rw [this]; ring
          · simp only [bitsOf] at hbits ⊢; omega
        · simp only [h64, Bool.false_eq_true, if_false]
          have h64' : dpos + curr.size ≠ 64 := by simpa using h64
          have hlt64 : dpos + curr.size < 64 := by omega
          have hnx := hst nxt (by simp)
          obtain ⟨ihA, ihB⟩ := ih (dpos + curr.size) (res ++ [E.shl (.shr (.v (.arg curr.k curr.limb)) curr.start) dpos])
            nxt rest' (by have := hcok.pos; omega) hlt64 (fun p hp => hok p (by simp at hp ⊢; tauto))
            (fun p hp => hst p (by simp [hp])) (fun hne => absurd hnx hne) (by rw [hval]; exact hR')
            (by simp only [bitsOf] at hbits ⊢; omega)
          have hcomb : evalOr σ (res ++ [E.shl (.shr (.v (.arg curr.k curr.limb)) curr.start) dpos])
              + 2 ^ (dpos + curr.size) * SV Vs (nxt :: rest')
              = evalOr σ res + 2 ^ dpos * SV Vs (curr :: nxt :: rest') := by
            rw [hval, Nat.pow_add]
            simp only [SV]; ring
          refine ⟨fun hle => by rw [ihA hle, hcomb], fun hgt => ?_⟩
          obtain ⟨b1, b2, b3, b4, b5⟩ := ihB hgt
          exact ⟨b1, by rw [b2, hcomb], b3, b4, b5⟩

theorem evalOr_congr (σ σ' : Env) (res : List E) (h : ∀ e ∈ res, e.eval σ' = e.eval σ) :
    evalOr σ' res = evalOr σ res := by
  cases res with
  | nil => rfl
  | cons e rest =>
    simp only [evalOr]
    rw [h e (by simp)]
    generalize e.eval σ = a
    induction rest generalizing a with
    | nil => rfl
    | cons x xs ih =>
      simp only [List.foldl_cons]
      rw [h x (by simp)]
      exact ih (fun y hy => h y (by simp at hy ⊢; tauto)) _

/-- the outer `for n in range(limbs(dest))` of `_build_concat` (destination of the natural width) -/
theorem catOuter_spec (Vs : Nat → Nat) (wd : Nat) :
    ∀ (k n : Nat) (σ : Env) (curr : Piece) (rest : List Piece),
      n + k = limbs wd → 0 < k → (∀ j, Enc σ j (Vs j)) →
      (∀ p ∈ curr :: rest, PieceOk Vs p) → (∀ p ∈ rest, p.start = 0) →
      bitsOf (curr :: rest) = wd - 64 * n →
      destVal (execList σ (catOuter wd wd (List.range' n k) curr rest)) (n + k)
        = destVal σ n + 2 ^ (64 * n) * SV Vs (curr :: rest) := by
  intro k
  induction k with
  | zero => intro _ _ _ _ _ h; omega
  | succ k ih =>
    intro n σ curr rest hL _ henc hok hst hbits
    simp only [List.range'_succ, catOuter]
    obtain ⟨hlastc, hmorec⟩ := catInner_spec σ Vs henc wd n 66 0 [] curr rest (by omega) (by omega) hok hst
      (fun _ => rfl) (by simp [evalOr]) (by omega)
    simp only [execList, S.exec, eval_mask, maskCond_natural, Bool.false_eq_true, if_false, eval_orAll]
    have e0 : evalOr σ ([] : List E) = 0 := rfl
    simp only [e0, Nat.pow_zero, Nat.one_mul, Nat.zero_add] at hlastc hmorec
    by_cases hk : k = 0
    · -- the last limb
      subst hk
      have hrem : wd - 64 * n ≤ 64 := by unfold limbs at hL; omega
      simp only [List.range'_zero, catOuter, execList]
      rw [show n + (0 + 1) = n + 1 by omega]
      simp only [destVal, get_set_same, destVal_set_dest_ge _ _ _ _ (le_refl n), hlastc hrem]
      ring
    · have hrem : 64 < wd - 64 * n := by unfold limbs at hL; omega
      obtain ⟨hlt, hsum, hok', hst', hbits'⟩ := hmorec hrem
      set out := catInner wd n 66 0 [] curr rest with hout
      set σ1 := σ.set (.dest n) (evalOr σ out.1) with hσ1
      have henc1 : ∀ j, Enc σ1 j (Vs j) := fun j => Enc_set _ _ _ _ _ (henc j) (by intro l; simp)
      have := ih (n + 1) σ1 out.2.1 out.2.2 (by omega) (by omega) henc1 hok' hst' (by omega)
      rw [show n + (k + 1) = n + 1 + k by omega, this]
      simp only [destVal, hσ1, get_set_same, destVal_set_dest_ge _ _ _ _ (le_refl n)]
      have hP : 2 ^ (64 * (n + 1)) = 2 ^ (64 * n) * 2 ^ 64 := by
        rw [show 64 * (n + 1) = 64 * n + 64 by omega, Nat.pow_add]
      rw [hP, ← hsum]
      ring

/-! ### the piece list of the arguments -/

theorem SV_append (Vs : Nat → Nat) (ps qs : List Piece) :
    SV Vs (ps ++ qs) = SV Vs ps + 2 ^ bitsOf ps * SV Vs qs := by
  induction ps with
  | nil => simp [SV, bitsOf]
  | cons p rest ih => simp only [List.cons_append, SV, bitsOf, ih, Nat.pow_add]; ring

theorem bitsOf_append (ps qs : List Piece) : bitsOf (ps ++ qs) = bitsOf ps + bitsOf qs := by
  induction ps with
  | nil => simp [bitsOf]
  | cons p rest ih => simp only [List.cons_append, bitsOf, ih]; omega

/-- the pieces of one argument from limb `j` on -/
def argPieces (w k : Nat) (j cnt : Nat) : List Piece :=
  (List.range' j cnt).map fun lx => (⟨k, lx, 0, min 64 (w - 64 * lx)⟩ : Piece)

theorem argPieces_spec (Vs : Nat → Nat) (w k : Nat) (hV : Vs k < 2 ^ w) :
    ∀ (cnt j : Nat), j + cnt = limbs w →
      SV Vs (argPieces w k j cnt) = Vs k / 2 ^ (64 * j) ∧ bitsOf (argPieces w k j cnt) = w - 64 * j ∧
      (∀ p ∈ argPieces w k j cnt, PieceOk Vs p ∧ p.start = 0) := by
  intro cnt
  induction cnt with
  | zero =>
    intro j hj
    simp only [argPieces, List.range'_zero, List.map_nil, SV, bitsOf]
    refine ⟨?_, by unfold limbs at hj; omega, by simp⟩
    have : Vs k < 2 ^ (64 * j) := lt_of_lt_of_le hV (Nat.pow_le_pow_right (by decide) (by unfold limbs at hj; omega))
    rw [Nat.div_eq_of_lt this]
  | succ cnt ih =>
    intro j hj
    obtain ⟨h1, h2, h3⟩ := ih (j + 1) (by omega)
    simp only [argPieces, List.range'_succ, List.map_cons] at h1 h2 h3 ⊢
    have hjw : 64 * j < w := by unfold limbs at hj; omega
    -- the quotient at limb j
    have hq : Vs k / 2 ^ (64 * (j + 1)) = Vs k / 2 ^ (64 * j) / M := by
      unfold M; rw [Nat.div_div_eq_div_mul, ← Nat.pow_add]; congr 2
    refine ⟨?_, ?_, ?_⟩
    · simp only [SV, pv, Nat.pow_zero, Nat.div_one, h1, hq]
      by_cases hfull : 64 ≤ w - 64 * j
      · rw [Nat.min_eq_left hfull]
        unfold limbOf
        have := Nat.div_add_mod (Vs k / 2 ^ (64 * j)) M
        unfold M at this ⊢
        omega
      · rw [Nat.min_eq_right (by omega)]
        have hsmall : Vs k / 2 ^ (64 * j) < 2 ^ (w - 64 * j) := by
          apply Nat.div_lt_of_lt_mul
          rw [← Nat.pow_add]
          exact lt_of_lt_of_le hV (Nat.pow_le_pow_right (by decide) (by omega))
        have hle : 2 ^ (w - 64 * j) ≤ M := by unfold M; exact Nat.pow_le_pow_right (by decide) (by omega)
        have hz : Vs k / 2 ^ (64 * j) / M = 0 := Nat.div_eq_of_lt (by omega)
        unfold limbOf
        rw [hz, Nat.mod_eq_of_lt (by omega)]; simp
    · simp only [bitsOf, h2]
      by_cases hfull : 64 ≤ w - 64 * j
      · rw [Nat.min_eq_left hfull]; omega
      · rw [Nat.min_eq_right (by omega)]; omega
    · intro p hp
      simp only [List.mem_cons] at hp
      rcases hp with rfl | hp
      · refine ⟨⟨?_, ?_, ?_⟩, rfl⟩
        · simp only []; omega
        · simp only []; omega
        · simp only [Nat.zero_add]
          by_cases hfull : 64 ≤ w - 64 * j
          · rw [Nat.min_eq_left hfull]; exact limbOf_lt _ _
          · rw [Nat.min_eq_right (by omega)]
            unfold limbOf
            have hsmall : Vs k / 2 ^ (64 * j) < 2 ^ (w - 64 * j) := by
              apply Nat.div_lt_of_lt_mul
              rw [← Nat.pow_add]
              exact lt_of_lt_of_le hV (Nat.pow_le_pow_right (by decide) (by omega))
            exact lt_of_le_of_lt (Nat.mod_le _ _) hsmall
      · exact h3 p hp

/-- value of (width, value) pairs listed least significant first -/
def lsbP : List (Nat × Nat) → Nat
  | [] => 0
  | (w, v) :: r => v + 2 ^ w * lsbP r

def sumW : List (Nat × Nat) → Nat
  | [] => 0
  | (w, _) :: r => w + sumW r

theorem lsbP_snoc (a : List (Nat × Nat)) (w v : Nat) : lsbP (a ++ [(w, v)]) = lsbP a + 2 ^ sumW a * v := by
  induction a with
  | nil => simp [lsbP, sumW]
  | cons x xs ih =>
    obtain ⟨w', v'⟩ := x
    simp only [List.cons_append, lsbP, sumW, ih, Nat.pow_add]; ring

theorem sumW_reverse (l : List (Nat × Nat)) : sumW l.reverse = sumW l := by
  induction l with
  | nil => rfl
  | cons x xs ih =>
    obtain ⟨w, v⟩ := x
    have happ : ∀ a : List (Nat × Nat), sumW (a ++ [(w, v)]) = sumW a + w := by
      intro a; induction a with
      | nil => simp [sumW]
      | cons y ys ih2 => obtain ⟨w', v'⟩ := y; simp only [List.cons_append, sumW, ih2]; omega
    simp only [List.reverse_cons, happ, ih, sumW]; omega

/-- `c`: the documented concatenation (first argument most significant) read from the least significant end -/
theorem concatVal_eq (l : List (Nat × Nat)) (acc : Nat) :
    Spec.concatVal l acc = acc * 2 ^ sumW l + lsbP l.reverse := by
  induction l generalizing acc with
  | nil => simp [Spec.concatVal, sumW, lsbP]
  | cons x xs ih =>
    obtain ⟨w, v⟩ := x
    simp only [Spec.concatVal, ih, List.reverse_cons, lsbP_snoc, sumW, sumW_reverse, Nat.pow_add]
    ring

/-- the pieces of a list of (width, argument index) pairs, least significant argument first -/
theorem pieces_of_args (Vs : Nat → Nat) (l : List (Nat × Nat)) (h : ∀ p ∈ l, Vs p.2 < 2 ^ p.1) :
    SV Vs ((l.map fun (p : Nat × Nat) => argPieces p.1 p.2 0 (limbs p.1)).flatten)
        = lsbP (l.map fun p => (p.1, Vs p.2)) ∧
    bitsOf ((l.map fun (p : Nat × Nat) => argPieces p.1 p.2 0 (limbs p.1)).flatten)
        = sumW (l.map fun p => (p.1, Vs p.2)) ∧
    (∀ q ∈ (l.map fun (p : Nat × Nat) => argPieces p.1 p.2 0 (limbs p.1)).flatten, PieceOk Vs q ∧ q.start = 0) := by
  induction l with
  | nil => simp [SV, bitsOf, lsbP, sumW]
  | cons x xs ih =>
    obtain ⟨w, k⟩ := x
    obtain ⟨i1, i2, i3⟩ := ih (fun p hp => h p (by simp [hp]))
    obtain ⟨a1, a2, a3⟩ := argPieces_spec Vs w k (h (w, k) (by simp)) (limbs w) 0 (by omega)
    simp only [List.map_cons, List.flatten_cons, SV_append, bitsOf_append, lsbP, sumW, i1, i2, a1, a2,
      Nat.mul_zero, Nat.pow_zero, Nat.div_one, Nat.sub_zero]
    refine ⟨trivial, trivial, ?_⟩
    intro q hq
    simp only [List.mem_append] at hq
    rcases hq with hq | hq
    · exact a3 q hq
    · exact i3 q hq

theorem catPieces_eq (ws : List Nat) :
    catPieces ws = ((ws.zipIdx.reverse).map fun (p : Nat × Nat) => argPieces p.1 p.2 0 (limbs p.1)).flatten := by
  unfold catPieces argPieces
  simp only [List.range_eq_range']

theorem sumW_map (Vs : Nat → Nat) (l : List (Nat × Nat)) : sumW (l.map fun p => (p.1, Vs p.2)) = (l.map (·.1)).sum := by
  induction l with
  | nil => rfl
  | cons x xs ih => obtain ⟨w, k⟩ := x; simp only [List.map_cons, sumW, ih, List.sum_cons]

theorem zipIdx_fst_sum (ws : List Nat) : ((ws.zipIdx.reverse).map (·.1)).sum = ws.sum := by
  rw [List.map_reverse, List.sum_reverse]
  congr 1
  have : ∀ (l : List Nat) (k : Nat), (l.zipIdx k).map (·.1) = l := by
    intro l; induction l with
    | nil => intro k; rfl
    | cons x xs ih => intro k; simp only [List.zipIdx_cons, List.map_cons, ih]
  exact this ws 0

/-- **`_build_concat`** with a destination as wide as its arguments together: the pieces packed into the limbs
    are the documented concatenation (first argument most significant), for any number of arguments of any
    widths — pieces crossing limb boundaries included -/
theorem emitConcat_correct (σ0 : Env) (ws : List Nat) (Vs : Nat → Nat) (hne : ws ≠ [])
    (hpos : ∀ w ∈ ws, 0 < w) (henc : ∀ k, Enc σ0 k (Vs k))
    (hlt : ∀ p ∈ ws.zipIdx, Vs p.2 < 2 ^ p.1) :
    destVal (execList σ0 (emitConcat ws ws.sum)) (limbs ws.sum)
      = Spec.concatVal (ws.zipIdx.map fun p => (p.1, Vs p.2)) 0 := by
  obtain ⟨s1, s2, s3⟩ := pieces_of_args Vs ws.zipIdx.reverse (fun p hp => hlt p (by simpa using hp))
  rw [← catPieces_eq] at s1 s2 s3
  rw [sumW_map, zipIdx_fst_sum] at s2
  have hsum : 0 < ws.sum := by
    cases ws with
    | nil => exact absurd rfl hne
    | cons w r => have := hpos w (by simp); simp only [List.sum_cons]; omega
  unfold emitConcat
  cases hp : catPieces ws with
  | nil => rw [hp] at s2; simp only [bitsOf] at s2; omega
  | cons p rest =>
    rw [hp] at s1 s2 s3
    simp only []
    have hL : 0 < limbs ws.sum := limbs_pos _ hsum
    rw [List.range_eq_range']
    have := catOuter_spec Vs ws.sum (limbs ws.sum) 0 σ0 p rest (by omega) hL henc
      (fun q hq => (s3 q hq).1) (fun q hq => (s3 q (by simp [hq])).2) (by rw [s2]; omega)
    simp only [Nat.zero_add, destVal, Nat.mul_zero, Nat.pow_zero, Nat.one_mul] at this
    rw [this, s1, concatVal_eq, Nat.zero_mul, Nat.zero_add, List.map_reverse]

end Pyrtl.CLimb
