import Model.Pass.Dco
import Proofs.Lemmas.LowerGates
import Proofs.Lemmas.EvalOrder
/-!
# `direct_connect_outputs` preserves every valuation (netlist level)
-/
namespace Pyrtl.Dco
open Pyrtl Pyrtl.LowerNet

theorem emod_toNat_mod (z : Int) (M m : Nat) (hM : 0 < M) (hm : 0 < m) (hdvd : m ∣ M) :
    (z % (M : Int)).toNat % m = (z % (m : Int)).toNat := by
  have hM' : (0 : Int) < (M : Int) := by exact_mod_cast hM
  have hm' : (0 : Int) < (m : Int) := by exact_mod_cast hm
  have h0 : 0 ≤ z % (M : Int) := Int.emod_nonneg z (Int.ne_of_gt hM')
  have hd : (m : Int) ∣ (M : Int) := by exact_mod_cast hdvd
  have : (z % (M : Int)) % (m : Int) = z % (m : Int) := Int.emod_emod_of_dvd z hd
  rw [← this, Int.toNat_emod h0 (Int.le_of_lt hm'), Int.toNat_natCast]

theorem sub_trunc (a b wx wo : Nat) (h : wo ≤ wx) :
    (((a : Int) - (b : Int)) % ((2 ^ wx : Nat) : Int)).toNat % 2 ^ wo
      = (((a : Int) - (b : Int)) % ((2 ^ wo : Nat) : Int)).toNat :=
  emod_toNat_mod _ _ _ (Nat.two_pow_pos _) (Nat.two_pow_pos _) (Nat.pow_dvd_pow 2 h)

/-- truncating the documented result of a primitive to a narrower destination is the primitive at that width -/
theorem comb_trunc (op : Op) (args : List (Nat × Nat)) (wx wo : Nat) (h : wo ≤ wx) :
    Spec.comb op args wx % 2 ^ wo = Spec.comb op args wo := by
  unfold Spec.comb
  split <;> first
    | exact mod_mod_le _ _ _ h
    | exact inv_trunc _ _ _ h
    | exact sub_trunc _ _ _ _ h
    | simp

theorem netFun_trunc (b : Block) (st : State) (p : Net) (o : Nat) (vals : List Nat)
    (h : b.width o ≤ b.width p.dest) :
    netFun b st { p with dests := [o] } vals = netFun b st p vals % 2 ^ b.width o := by
  simp only [netFun, Net.dest, List.headD_cons]
  cases hop : p.op with
  | mread m =>
    simp only []
    exact (mod_mod_le _ _ _ h).symm
  | _ => simp only []; exact (comb_trunc _ _ _ _ h).symm

/-! ### one round -/

theorem outW_spec (b : Block) (p w : Net) (h : outW? b p = some w) :
    p.op.isComb = true ∧ w ∈ b.nets ∧ readers b p.dest = [w] ∧ w.op = .w ∧ w.args = [p.dest] ∧
      b.kind w.dest = .output := by
  unfold outW? at h
  split at h
  · rename_i hc
    split at h
    · rename_i w' hr
      split at h
      · rename_i hcond
        simp only [Option.some.injEq] at h
        subst h
        simp only [Bool.and_eq_true, beq_iff_eq, decide_eq_true_eq] at hcond
        have hmem : w' ∈ readers b p.dest := by rw [hr]; simp
        exact ⟨hc, (List.mem_filter.mp hmem).1, hr, hcond.1.1, hcond.1.2, hcond.2⟩
      · simp at h
    · simp at h
  · simp at h

/-- what the proofs need from the block (all enforced by `Block.sanity_check`) -/
structure DcoWF (b : Block) : Prop where
  outputs_not_read : ∀ n ∈ b.nets, ∀ a ∈ n.args, b.kind a ≠ .output
  single_driver : ∀ n ∈ b.nets, ∀ m ∈ b.nets, n.op.isComb = true → m.op.isComb = true → n.dest = m.dest → n = m
  wwidth : ∀ n ∈ b.nets, n.op = .w → ∀ a, n.args = [a] → b.width n.dest ≤ b.width a
  one_dest : ∀ n ∈ b.nets, n.op.isComb = true → ∃ d, n.dests = [d]
  reg_arity : ∀ n ∈ b.nets, n.op = .reg → ∃ a, n.args = [a]

theorem netFun_round (b : Block) (st : State) : netFun (round b) st = netFun b st := rfl

theorem mem_readers (b : Block) (n : Net) (a : Nat) (hn : n ∈ b.nets) (ha : a ∈ n.args) : n ∈ readers b a := by
  simp [readers, hn, ha]

/-- a net that reads a wire which disappears is the dropped `w` net -/
theorem reader_of_removed (b : Block) (n : Net) (a : Nat) (hn : n ∈ b.nets) (ha : a ∈ n.args)
    (hr : removedWire b a = true) : dropped b n = true := by
  simp only [removedWire, List.any_eq_true, Bool.and_eq_true, beq_iff_eq] at hr
  obtain ⟨p, hp, hsome, hpa⟩ := hr
  obtain ⟨w, hw⟩ := Option.isSome_iff_exists.mp hsome
  obtain ⟨_, _, hread, _⟩ := outW_spec b p w hw
  have : n ∈ readers b p.dest := by rw [hpa]; exact mem_readers b n a hn ha
  rw [hread] at this
  simp only [List.mem_cons, List.not_mem_nil, or_false] at this
  subst this
  simp only [dropped, List.any_eq_true, beq_iff_eq]
  exact ⟨p, hp, hw⟩

/-- the destination of an Output-driving `w` net is never a removed wire -/
theorem output_not_removed (b : Block) (hwf : DcoWF b) (o : Nat) (ho : b.kind o = .output) :
    removedWire b o = false := by
  cases hc : removedWire b o with
  | false => rfl
  | true =>
    exfalso
    simp only [removedWire, List.any_eq_true, Bool.and_eq_true, beq_iff_eq] at hc
    obtain ⟨p, hp, hsome, hpo⟩ := hc
    obtain ⟨w, hw⟩ := Option.isSome_iff_exists.mp hsome
    obtain ⟨_, hwm, hread, _, hargs, _⟩ := outW_spec b p w hw
    exact hwf.outputs_not_read w hwm p.dest (by simp [hargs]) (hpo ▸ ho)

/-- the destination of a net that is kept unchanged is not a removed wire -/
theorem kept_dest_not_removed (b : Block) (hwf : DcoWF b) (n : Net) (hn : n ∈ b.nets) (hc : n.op.isComb = true)
    (hnone : outW? b n = none) : removedWire b n.dest = false := by
  cases hr : removedWire b n.dest with
  | false => rfl
  | true =>
    exfalso
    simp only [removedWire, List.any_eq_true, Bool.and_eq_true, beq_iff_eq] at hr
    obtain ⟨p, hp, hsome, hpd⟩ := hr
    obtain ⟨w, hw⟩ := Option.isSome_iff_exists.mp hsome
    have hpc := (outW_spec b p w hw).1
    have : p = n := hwf.single_driver p hp n hn hpc hc hpd
    subst this
    rw [hnone] at hsome
    simp at hsome

theorem args_not_removed (b : Block) (n : Net) (hn : n ∈ b.nets) (hnd : dropped b n = false) :
    ∀ a ∈ n.args, removedWire b a = false := by
  intro a ha
  cases hr : removedWire b a with
  | false => rfl
  | true =>
    have := reader_of_removed b n a hn ha hr
    rw [hnd] at this
    simp at this

/-- membership in the nets of the round -/
theorem mem_round (b : Block) (n' : Net) (h : n' ∈ (round b).nets) :
    ∃ n ∈ b.nets, roundNet b n = some n' := by
  simpa [round, List.mem_filterMap] using h

/-- **one round of `direct_connect_outputs` preserves the valuation of every wire that is kept**: for any
    dependency orders of the combinational nets before and after the round and any valuation of the sources. -/
theorem round_eval (b : Block) (hwf : DcoWF b) (st : State) (order order' : List Net) (e : Env)
    (ho : ∀ n, n ∈ order ↔ (n ∈ b.nets ∧ n.op.isComb = true)) (hto : Topo order order [])
    (ho' : ∀ n, n ∈ order' ↔ (n ∈ (round b).nets ∧ n.op.isComb = true)) (hto' : Topo order' order' []) :
    ∀ x, removedWire b x = false → evalNets (round b) st order' e x = evalNets b st order e x := by
  intro x hx
  have c := evalSeq_consistent (netFun b st) order e hto
  have c' := evalSeq_consistent (netFun b st) order' e hto'
  -- the original valuation, reset to the source valuation on the removed wires, is consistent for the new nets
  let v := evalSeq (netFun b st) order e
  let v' : Env := fun w => if removedWire b w = true then e w else v w
  have hv'_of : ∀ w, removedWire b w = false → v' w = v w := by
    intro w hw; simp [v', hw]
  have hcons : Consistent (netFun b st) order' e v' := by
    constructor
    · intro n' hn'
      obtain ⟨hmem', hc'⟩ := (ho' n').mp hn'
      obtain ⟨n, hn, hrn⟩ := mem_round b n' hmem'
      simp only [roundNet] at hrn
      cases hd : dropped b n with
      | true => simp [hd] at hrn
      | false =>
        simp only [hd, Bool.false_eq_true, ↓reduceIte] at hrn
        have hargs_nr := args_not_removed b n hn hd
        cases hout : outW? b n with
        | none =>
          simp only [hout, Option.some.injEq] at hrn
          subst hrn
          have hmap : n.args.map v' = n.args.map v :=
            List.map_congr_left (fun a ha => hv'_of a (hargs_nr a ha))
          rw [hv'_of _ (kept_dest_not_removed b hwf n hn hc' hout), hmap]
          exact c.1 n ((ho n).mpr ⟨hn, hc'⟩)
        | some w =>
          simp only [hout, Option.some.injEq] at hrn
          obtain ⟨hnc, hwm, _, hwop, hwargs, hwout⟩ := outW_spec b n w hout
          have hwc : w.op.isComb = true := by rw [hwop]; rfl
          obtain ⟨o, hwd⟩ := hwf.one_dest w hwm hwc
          have hwdest : w.dest = o := by simp [Net.dest, hwd]
          subst hrn
          have hmap : n.args.map v' = n.args.map v :=
            List.map_congr_left (fun a ha => hv'_of a (hargs_nr a ha))
          have hdest' : ({ n with dests := w.dests } : Net).dest = o := by simp [Net.dest, hwd]
          have hwidth : b.width o ≤ b.width n.dest := by
            have := hwf.wwidth w hwm hwop n.dest hwargs
            rwa [hwdest] at this
          show v' ({ n with dests := w.dests } : Net).dest = netFun b st { n with dests := w.dests } (n.args.map v')
          rw [hdest', hmap, hwd, netFun_trunc b st n o _ hwidth,
            hv'_of o (output_not_removed b hwf o (hwdest ▸ hwout))]
          -- consistency at the `w` net and at the producer
          have hw_c : v w.dest = netFun b st w (w.args.map v) := c.1 w ((ho w).mpr ⟨hwm, hwc⟩)
          have hn_c : v n.dest = netFun b st n (n.args.map v) := c.1 n ((ho n).mpr ⟨hn, hnc⟩)
          rw [hwdest] at hw_c
          rw [hw_c, ← hn_c]
          simp [netFun, Spec.comb, hwop, hwargs, Net.dest, hwd]
    · intro y hy
      cases hry : removedWire b y with
      | true => simp [v', hry]
      | false =>
        rw [hv'_of y hry]
        apply c.2
        intro n hn hnd
        obtain ⟨hnm, hnc⟩ := (ho n).mp hn
        cases hd : dropped b n with
        | true =>
          -- n is the dropped `w` net: its producer, retargeted, drives y in the new netlist
          simp only [dropped, List.any_eq_true, beq_iff_eq] at hd
          obtain ⟨p, hp, hpw⟩ := hd
          obtain ⟨hpc, _, _, _, _, _⟩ := outW_spec b p n hpw
          have hpd : dropped b p = false := by
            cases hdp : dropped b p with
            | false => rfl
            | true =>
              exfalso
              simp only [dropped, List.any_eq_true, beq_iff_eq] at hdp
              obtain ⟨q, hq, hqp⟩ := hdp
              obtain ⟨_, _, _, _, _, hpout⟩ := outW_spec b q p hqp
              -- p's destination is an Output, yet the `w` net n reads it
              obtain ⟨_, hnm', _, _, hnargs, _⟩ := outW_spec b p n hpw
              exact hwf.outputs_not_read n hnm' p.dest (by simp [hnargs]) hpout
          have hmem' : ({ p with dests := n.dests } : Net) ∈ (round b).nets := by
            simp only [round, List.mem_filterMap]
            exact ⟨p, hp, by simp [roundNet, hpd, hpw]⟩
          have hin : ({ p with dests := n.dests } : Net) ∈ order' := (ho' _).mpr ⟨hmem', hpc⟩
          exact hy _ hin (by simpa [Net.dest] using hnd)
        | false =>
          cases hout : outW? b n with
          | none =>
            have hmem' : n ∈ (round b).nets := by
              simp only [round, List.mem_filterMap]
              exact ⟨n, hnm, by simp [roundNet, hd, hout]⟩
            exact hy n ((ho' n).mpr ⟨hmem', hnc⟩) hnd
          | some w =>
            -- then y = n.dest is a removed wire
            have : removedWire b y = true := by
              simp only [removedWire, List.any_eq_true, Bool.and_eq_true, beq_iff_eq]
              exact ⟨n, hnm, by simp [hout], hnd⟩
            rw [hry] at this
            simp at this
  have huniq := consistent_unique (netFun b st) order' e (evalSeq (netFun b st) order' e) v' hto' c' hcons
  show evalSeq (netFun (round b) st) order' e x = evalSeq (netFun b st) order e x
  rw [netFun_round, huniq x, hv'_of x hx]

/-! ### one round, cycle by cycle -/

theorem roundNet_noncomb (b : Block) (n : Net) (hn : n ∈ b.nets) (hc : n.op.isComb = false) :
    roundNet b n = some n := by
  have hd : dropped b n = false := by
    cases hd : dropped b n with
    | false => rfl
    | true =>
      exfalso
      simp only [dropped, List.any_eq_true, beq_iff_eq] at hd
      obtain ⟨p, _, hpw⟩ := hd
      have := (outW_spec b p n hpw).2.2.2.1
      rw [this] at hc
      simp [Op.isComb] at hc
  have ho : outW? b n = none := by simp [outW?, hc]
  simp [roundNet, hd, ho]

theorem roundNet_comb (b : Block) (n n' : Net) (h : roundNet b n = some n') : n'.op = n.op ∧ n'.args = n.args := by
  simp only [roundNet] at h
  split at h
  · simp at h
  · split at h <;> (simp only [Option.some.injEq] at h; subst h; exact ⟨rfl, rfl⟩)

theorem find_filterMap_round (b : Block) (p : Net → Bool) (hp : ∀ n : Net, n.op.isComb = true → p n = false)
    (l : List Net) (hl : ∀ n ∈ l, n ∈ b.nets) : (l.filterMap (roundNet b)).find? p = l.find? p := by
  induction l with
  | nil => rfl
  | cons n ns ih =>
    have ihn := ih (fun m hm => hl m (by simp [hm]))
    cases hc : n.op.isComb with
    | false =>
      rw [List.filterMap_cons_some (roundNet_noncomb b n (hl n (by simp)) hc)]
      simp only [List.find?_cons, ihn]
    | true =>
      cases hr : roundNet b n with
      | none =>
        rw [List.filterMap_cons_none hr, List.find?_cons, hp n hc]
        exact ihn
      | some n' =>
        have hop := (roundNet_comb b n n' hr).1
        have hc' : n'.op.isComb = true := by rw [hop]; exact hc
        rw [List.filterMap_cons_some hr, List.find?_cons, List.find?_cons, hp n hc, hp n' hc']
        exact ihn

theorem filter_filterMap_round (b : Block) (p : Net → Bool) (hp : ∀ n : Net, n.op.isComb = true → p n = false)
    (l : List Net) (hl : ∀ n ∈ l, n ∈ b.nets) : (l.filterMap (roundNet b)).filter p = l.filter p := by
  induction l with
  | nil => rfl
  | cons n ns ih =>
    have ihn := ih (fun m hm => hl m (by simp [hm]))
    cases hc : n.op.isComb with
    | false =>
      rw [List.filterMap_cons_some (roundNet_noncomb b n (hl n (by simp)) hc)]
      simp only [List.filter_cons, ihn]
    | true =>
      cases hr : roundNet b n with
      | none =>
        rw [List.filterMap_cons_none hr, List.filter_cons, hp n hc]
        simpa using ihn
      | some n' =>
        have hop := (roundNet_comb b n n' hr).1
        have hc' : n'.op.isComb = true := by rw [hop]; exact hc
        rw [List.filterMap_cons_some hr, List.filter_cons, List.filter_cons, hp n hc, hp n' hc']
        simpa using ihn

/-- register nets survive a round untouched -/
theorem regNetOf_round (b : Block) (r : Nat) : regNetOf (round b) r = regNetOf b r := by
  simp only [regNetOf, round]
  exact find_filterMap_round b _ (fun n hc => isComb_not_reg n hc r) b.nets (fun _ h => h)

theorem writeNets_round (b : Block) : writeNets (round b) = writeNets b := by
  simp only [writeNets, round]
  exact filter_filterMap_round b _ (fun n hc => isComb_not_write n hc) b.nets (fun _ h => h)

/-- wires read by the state-holding nets are never removed -/
theorem state_args_kept (b : Block) (n : Net) (hn : n ∈ b.nets) (hc : n.op.isComb = false) :
    ∀ a ∈ n.args, removedWire b a = false := by
  apply args_not_removed b n hn
  have := roundNet_noncomb b n hn hc
  cases hd : dropped b n with
  | false => rfl
  | true => simp [roundNet, hd] at this

/-- **one round, one cycle**: same values on every kept wire, same next state -/
theorem round_step (b : Block) (hwf : DcoWF b) (order order' : List Net)
    (ho : ∀ n, n ∈ order ↔ (n ∈ b.nets ∧ n.op.isComb = true)) (hto : Topo order order [])
    (ho' : ∀ n, n ∈ order' ↔ (n ∈ (round b).nets ∧ n.op.isComb = true)) (hto' : Topo order' order' [])
    (st : State) (inp : Env) :
    (∀ x, removedWire b x = false → (step (round b) order' st inp).1 x = (step b order st inp).1 x) ∧
    (step (round b) order' st inp).2 = (step b order st inp).2 := by
  have henv : ∀ x, removedWire b x = false →
      evalNets (round b) st order' (baseEnv b st inp) x = evalNets b st order (baseEnv b st inp) x :=
    round_eval b hwf st order order' _ ho hto ho' hto'
  refine ⟨henv, ?_⟩
  simp only [step]
  have hbase : baseEnv (round b) st inp = baseEnv b st inp := rfl
  rw [hbase]
  congr 1
  · funext r
    simp only [nextRegs, regNetOf_round]
    cases hreg : regNetOf b r with
    | none => rfl
    | some n =>
      have hmem : n ∈ b.nets := List.mem_of_find?_eq_some hreg
      have hp := List.find?_some hreg
      simp only [Bool.and_eq_true, beq_iff_eq] at hp
      have hc : n.op.isComb = false := by rw [hp.1]; rfl
      have hw : (round b).width r = b.width r := rfl
      simp only [hw]
      cases hargs : n.args with
      | nil =>
        obtain ⟨a, ha⟩ := hwf.reg_arity n hmem hp.1
        rw [hargs] at ha
        simp at ha
      | cons a rest =>
        simp only [List.headD_cons]
        rw [henv a (state_args_kept b n hmem hc a (by simp [hargs]))]
  · rw [writeNets_round]
    apply applyWrites_congr
    intro n hn a ha
    have hmem : n ∈ b.nets := (List.mem_filter.mp hn).1
    have hc : n.op.isComb = false := by
      have := (List.mem_filter.mp hn).2
      cases hop : n.op <;> simp_all [Op.isComb]
    exact henv a (state_args_kept b n hmem hc a ha)

/-! ### executable side conditions are sound -/

theorem dcoWfB_sound (b : Block) (h : dcoWfB b = true) : DcoWF b := by
  simp only [dcoWfB, Bool.and_eq_true, List.all_eq_true] at h
  obtain ⟨⟨⟨⟨h1, h2⟩, h3⟩, h4⟩, h5⟩ := h
  refine ⟨?_, ?_, ?_, ?_, ?_⟩
  · intro n hn a ha hk
    have := h1 n hn a ha
    simp [hk] at this
  · intro n hn m hm hnc hmc hd
    have := h2 n hn m hm
    simpa [hnc, hmc, hd] using this
  · intro n hn hop a hargs
    have := h3 n hn
    simpa [hop, hargs] using this
  · intro n hn hc
    have := h4 n hn
    simp only [hc, Bool.not_true, Bool.false_or, beq_iff_eq] at this
    match hd : n.dests, this with
    | [d], _ => exact ⟨d, rfl⟩
  · intro n hn hop
    have := h5 n hn
    simp only [hop, beq_self_eq_true, Bool.not_true, Bool.false_or, beq_iff_eq] at this
    match ha : n.args, this with
    | [a], _ => exact ⟨a, rfl⟩

theorem orderOkB_sound (b : Block) (h : orderOkB b = true) :
    (∀ n, n ∈ orderOf b ↔ (n ∈ b.nets ∧ n.op.isComb = true)) ∧ Topo (orderOf b) (orderOf b) [] := by
  simp only [orderOkB, Bool.and_eq_true, List.all_eq_true, List.contains_eq_mem, decide_eq_true_eq] at h
  obtain ⟨⟨h1, h2⟩, h3⟩ := h
  refine ⟨fun n => ⟨fun hn => ?_, fun ⟨hn, hc⟩ => ?_⟩, isTopo_sound _ h1⟩
  · exact h2 n hn
  · have := h3 n hn
    simpa [hc] using this

/-! ### runs, and the whole pass -/

/-- two traces have the same length and agree, cycle by cycle, on the wires satisfying `P` -/
def AgreeOn (P : Nat → Prop) : List Env → List Env → Prop
  | [], [] => True
  | e' :: r', e :: r => (∀ w, P w → e' w = e w) ∧ AgreeOn P r' r
  | _, _ => False

theorem AgreeOn.refl (P : Nat → Prop) (l : List Env) : AgreeOn P l l := by
  induction l with
  | nil => trivial
  | cons e r ih => exact ⟨fun _ _ => rfl, ih⟩

theorem AgreeOn.trans (P : Nat → Prop) : ∀ (l1 l2 l3 : List Env), AgreeOn P l1 l2 → AgreeOn P l2 l3 → AgreeOn P l1 l3
  | [], [], [], _, _ => trivial
  | _ :: r1, _ :: r2, _ :: r3, h12, h23 =>
    ⟨fun w hw => (h12.1 w hw).trans (h23.1 w hw), AgreeOn.trans P r1 r2 r3 h12.2 h23.2⟩
  | [], [], _ :: _, _, h => h.elim
  | [], _ :: _, _, h, _ => h.elim
  | _ :: _, [], _, h, _ => h.elim
  | _ :: _, _ :: _, [], _, h => h.elim

theorem AgreeOn.mono (P Q : Nat → Prop) (hPQ : ∀ w, Q w → P w) : ∀ (l1 l2 : List Env), AgreeOn P l1 l2 → AgreeOn Q l1 l2
  | [], [], _ => trivial
  | _ :: r1, _ :: r2, h => ⟨fun w hw => h.1 w (hPQ w hw), AgreeOn.mono P Q hPQ r1 r2 h.2⟩
  | [], _ :: _, h => h.elim
  | _ :: _, [], h => h.elim

/-- **one round, every run** -/
theorem round_run (b : Block) (hwf : DcoWF b) (order order' : List Net)
    (ho : ∀ n, n ∈ order ↔ (n ∈ b.nets ∧ n.op.isComb = true)) (hto : Topo order order [])
    (ho' : ∀ n, n ∈ order' ↔ (n ∈ (round b).nets ∧ n.op.isComb = true)) (hto' : Topo order' order' [])
    (inps : List Env) (st : State) :
    AgreeOn (fun x => removedWire b x = false) (run (round b) order' st inps) (run b order st inps) := by
  induction inps generalizing st with
  | nil => simp [run, AgreeOn]
  | cons inp rest ih =>
    obtain ⟨h1, h2⟩ := round_step b hwf order order' ho hto ho' hto' st inp
    simp only [run, AgreeOn]
    refine ⟨h1, ?_⟩
    rw [h2]
    exact ih _

/-- **the whole pass, every run**: if every block the pass goes through is well formed and schedulable
    (`chainOkB`, evaluated per block), then under the scheduler's orders the block after the pass shows, in every
    cycle of every run from every initial state, the same value on every Output as the block before. -/
theorem dco_run (fuel : Nat) (b : Block) (h : chainOkB fuel b = true) (st : State) (inps : List Env) :
    AgreeOn (fun x => b.kind x = .output)
      (run (dco fuel b) (orderOf (dco fuel b)) st inps) (run b (orderOf b) st inps) := by
  induction fuel generalizing b with
  | zero => exact AgreeOn.refl _ _
  | succ f ih =>
    simp only [chainOkB, Bool.and_eq_true] at h
    obtain ⟨⟨hwfB, hordB⟩, hrest⟩ := h
    simp only [dco]
    split
    · exact AgreeOn.refl _ _
    · rename_i hlen
      have hrest' : chainOkB f (round b) = true := by simpa [hlen] using hrest
      -- the round itself
      have hwf := dcoWfB_sound b hwfB
      obtain ⟨ho, hto⟩ := orderOkB_sound b hordB
      have hnext : dcoWfB (round b) = true ∧ orderOkB (round b) = true := by
        cases f with
        | zero => simpa [chainOkB] using hrest'
        | succ f' =>
          simp only [chainOkB, Bool.and_eq_true] at hrest'
          exact hrest'.1
      obtain ⟨ho', hto'⟩ := orderOkB_sound (round b) hnext.2
      have hround := round_run b hwf (orderOf b) (orderOf (round b)) ho hto ho' hto' inps st
      have hround' : AgreeOn (fun x => b.kind x = .output) (run (round b) (orderOf (round b)) st inps)
          (run b (orderOf b) st inps) :=
        AgreeOn.mono _ _ (fun w hw => output_not_removed b hwf w hw) _ _ hround
      -- the remaining rounds (the wires, hence the Outputs, are those of `b`)
      have hrec := ih (round b) hrest'
      exact AgreeOn.trans _ _ _ _ hrec hround'

/-! ### postcondition: the pass stops at a block without an eligible `w` net -/

theorem filterMap_length_eq {α β : Type} (f : α → Option β) (l : List α) (h : (l.filterMap f).length = l.length) :
    ∀ x ∈ l, (f x).isSome = true := by
  induction l with
  | nil => intro x hx; simp at hx
  | cons a as ih =>
    intro x hx
    cases hfa : f a with
    | none =>
      rw [List.filterMap_cons_none hfa] at h
      have := List.length_filterMap_le f as
      simp only [List.length_cons] at h
      omega
    | some y =>
      rw [List.filterMap_cons_some hfa] at h
      simp only [List.length_cons, Nat.add_right_cancel_iff] at h
      rcases List.mem_cons.mp hx with rfl | hx'
      · simp [hfa]
      · exact ih h x hx'

/-- with enough fuel the pass ends at a block on which a further round changes nothing -/
theorem dco_fixpoint (fuel : Nat) (b : Block) (h : b.nets.length < fuel) :
    (round (dco fuel b)).nets.length = (dco fuel b).nets.length := by
  induction fuel generalizing b with
  | zero => omega
  | succ f ih =>
    simp only [dco]
    split
    · rename_i heq
      simpa using heq
    · rename_i hne
      have hle : (round b).nets.length ≤ b.nets.length := by
        simp only [round]
        exact List.length_filterMap_le _ _
      have hne' : (round b).nets.length ≠ b.nets.length := by simpa using hne
      exact ih (round b) (by omega)

/-- **postcondition**: in the block the pass returns, no net's destination is read only by a `w` net into an
    Output (the "redundant wire net before an Output") -/
theorem dco_post (b : Block) :
    ∀ p ∈ (directConnectOutputs b).nets, outW? (directConnectOutputs b) p = none := by
  intro p hp
  have hfix := dco_fixpoint (b.nets.length + 1) b (by omega)
  change (round (directConnectOutputs b)).nets.length = (directConnectOutputs b).nets.length at hfix
  cases hout : outW? (directConnectOutputs b) p with
  | none => rfl
  | some w =>
    exfalso
    obtain ⟨_, hwm, _⟩ := outW_spec _ p w hout
    have hsome := filterMap_length_eq (roundNet (directConnectOutputs b)) _ hfix w hwm
    have hd : dropped (directConnectOutputs b) w = true := by
      simp only [dropped, List.any_eq_true, beq_iff_eq]
      exact ⟨p, hp, hout⟩
    simp [roundNet, hd] at hsome

end Pyrtl.Dco
