import Model.Pass.Dead
import Proofs.Lemmas.Alias
/-!
# Dead-logic removal preserves the valuation of every kept wire
-/
namespace Pyrtl.Dead
open Pyrtl

def RemovedDest (removed : List Net) (w : Nat) : Prop := ∃ r ∈ removed, r.dest = w

theorem removedDestB_iff (removed : List Net) (w : Nat) : removedDestB removed w = true ↔ RemovedDest removed w := by
  simp [removedDestB, RemovedDest]

structure DeadFacts (b : Block) (removed : List Net) : Prop where
  mem : ∀ r ∈ removed, r ∈ b.nets ∧ r.op.isComb = true ∧ b.kind r.dest ≠ .output
  closed : ∀ n ∈ b.nets, n ∉ removed → ∀ a ∈ n.args, ¬ RemovedDest removed a

theorem deadOk_facts (b : Block) (removed : List Net) (h : deadOk b removed = true) : DeadFacts b removed := by
  simp only [deadOk, keptNets, Bool.and_eq_true, List.all_eq_true, List.contains_eq_mem, decide_eq_true_eq,
    Bool.not_eq_true', decide_eq_false_iff_not, List.mem_filter] at h
  obtain ⟨h1, h2⟩ := h
  refine ⟨fun r hr => ?_, fun n hn hnr a ha hra => ?_⟩
  · obtain ⟨⟨a, c⟩, d⟩ := h1 r hr
    exact ⟨a, c, d⟩
  · have := h2 n ⟨hn, hnr⟩ a ha
    rw [(removedDestB_iff removed a).mpr hra] at this
    simp at this

theorem netFun_applyDead (b : Block) (removed : List Net) (st : State) :
    netFun (applyDead b removed) st = netFun b st := rfl

/-- **dead-logic removal preserves the valuation of every kept wire**, for any dependency orders before and after -/
theorem dead_eval (b : Block) (removed : List Net) (st : State) (e : Env) (order order' : List Net)
    (hok : deadOk b removed = true)
    (hord : ∀ n, n ∈ order ↔ (n ∈ b.nets ∧ n.op.isComb = true)) (hto : Topo order order [])
    (hsingle : ∀ n ∈ order, ∀ m ∈ order, n.dest = m.dest → n = m)
    (hord' : ∀ n, n ∈ order' ↔ (n ∈ (applyDead b removed).nets ∧ n.op.isComb = true)) (hto' : Topo order' order' []) :
    ∀ x, ¬ RemovedDest removed x → evalNets (applyDead b removed) st order' e x = evalNets b st order e x := by
  intro x hx
  have hf := deadOk_facts b removed hok
  have cons := evalSeq_consistent (netFun b st) order e hto
  have cons' := evalSeq_consistent (netFun b st) order' e hto'
  let v := evalSeq (netFun b st) order e
  let v' : Env := fun w => if removedDestB removed w = true then e w else v w
  have hv'_of : ∀ w, ¬ RemovedDest removed w → v' w = v w := by
    intro w hw
    have : removedDestB removed w = false := by
      cases hb : removedDestB removed w with
      | false => rfl
      | true => exact absurd ((removedDestB_iff removed w).mp hb) hw
    simp [v', this]
  have hkept : ∀ n, n ∈ (applyDead b removed).nets ↔ (n ∈ b.nets ∧ n ∉ removed) := by
    intro n
    simp [applyDead, keptNets]
  have hcons : Consistent (netFun b st) order' e v' := by
    constructor
    · intro n hn
      obtain ⟨hmem', hc⟩ := (hord' n).mp hn
      obtain ⟨hnm, hnr⟩ := (hkept n).mp hmem'
      have hnin : n ∈ order := (hord n).mpr ⟨hnm, hc⟩
      have hdk : ¬ RemovedDest removed n.dest := by
        rintro ⟨r, hr, hd⟩
        have hrin : r ∈ order := (hord r).mpr ⟨(hf.mem r hr).1, (hf.mem r hr).2.1⟩
        exact hnr ((hsingle r hrin n hnin hd) ▸ hr)
      have hvn : v n.dest = netFun b st n (n.args.map v) := cons.1 n hnin
      have hvals : n.args.map v' = n.args.map v :=
        List.map_congr_left (fun a ha => hv'_of a (hf.closed n hnm hnr a ha))
      rw [hv'_of _ hdk, hvals, hvn]
    · intro y hy
      by_cases hry : RemovedDest removed y
      · have : removedDestB removed y = true := (removedDestB_iff removed y).mpr hry
        simp [v', this]
      · rw [hv'_of y hry]
        apply cons.2
        intro n hn hnd
        obtain ⟨hnm, hnc⟩ := (hord n).mp hn
        have hnr : n ∉ removed := fun h => hry ⟨n, h, hnd⟩
        exact hy n ((hord' n).mpr ⟨(hkept n).mpr ⟨hnm, hnr⟩, hnc⟩) hnd
  have huniq := consistent_unique (netFun b st) order' e (evalSeq (netFun b st) order' e) v' hto' cons' hcons
  show evalSeq (netFun (applyDead b removed) st) order' e x = evalSeq (netFun b st) order e x
  rw [netFun_applyDead, huniq x, hv'_of x hx]

/-! ### cycles and runs -/

theorem find_filter_kept (removed : List Net) (p : Net → Bool) (hrm : ∀ n ∈ removed, p n = false) (l : List Net) :
    (l.filter (fun n => !removed.contains n)).find? p = l.find? p := by
  induction l with
  | nil => rfl
  | cons n ns ih =>
    by_cases hmem : n ∈ removed
    · have hq : (!removed.contains n) = false := by simp [hmem]
      rw [List.filter_cons_of_neg (p := fun n => !removed.contains n) (by simpa using hq), List.find?_cons, hrm n hmem]
      exact ih
    · have hq : (!removed.contains n) = true := by simp [hmem]
      rw [List.filter_cons_of_pos (p := fun n => !removed.contains n) hq, List.find?_cons, List.find?_cons]
      cases hpn : p n with
      | true => rfl
      | false => exact ih

theorem filter_filter_kept (removed : List Net) (p : Net → Bool) (hrm : ∀ n ∈ removed, p n = false) (l : List Net) :
    (l.filter (fun n => !removed.contains n)).filter p = l.filter p := by
  induction l with
  | nil => rfl
  | cons n ns ih =>
    by_cases hmem : n ∈ removed
    · have hq : (!removed.contains n) = false := by simp [hmem]
      rw [List.filter_cons_of_neg (p := fun n => !removed.contains n) (by simpa using hq),
        List.filter_cons_of_neg (by simp [hrm n hmem])]
      exact ih
    · have hq : (!removed.contains n) = true := by simp [hmem]
      rw [List.filter_cons_of_pos (p := fun n => !removed.contains n) hq]
      cases hpn : p n with
      | true => rw [List.filter_cons_of_pos hpn, List.filter_cons_of_pos hpn, ih]
      | false => rw [List.filter_cons_of_neg (by simp [hpn]), List.filter_cons_of_neg (by simp [hpn])]; exact ih

structure Scheds (b : Block) (removed : List Net) (order order' : List Net) : Prop where
  ok : deadOk b removed = true
  ord : ∀ n, n ∈ order ↔ (n ∈ b.nets ∧ n.op.isComb = true)
  topo : Topo order order []
  single : ∀ n ∈ order, ∀ m ∈ order, n.dest = m.dest → n = m
  ord' : ∀ n, n ∈ order' ↔ (n ∈ (applyDead b removed).nets ∧ n.op.isComb = true)
  topo' : Topo order' order' []
  regArity : ∀ n ∈ b.nets, n.op = .reg → ∃ a, n.args = [a]

/-- **one cycle**: same value on every kept wire, same next state -/
theorem dead_step (b : Block) (removed : List Net) (order order' : List Net) (H : Scheds b removed order order')
    (st : State) (inp : Env) :
    (∀ x, ¬ RemovedDest removed x → (step (applyDead b removed) order' st inp).1 x = (step b order st inp).1 x) ∧
    (step (applyDead b removed) order' st inp).2 = (step b order st inp).2 := by
  have hf := deadOk_facts b removed H.ok
  have henv := dead_eval b removed st (baseEnv b st inp) order order' H.ok H.ord H.topo H.single H.ord' H.topo'
  refine ⟨henv, ?_⟩
  have hnoncomb : ∀ n ∈ removed, n.op.isComb = true := fun n hn => (hf.mem n hn).2.1
  simp only [step]
  have hbase : baseEnv (applyDead b removed) st inp = baseEnv b st inp := rfl
  rw [hbase]
  congr 1
  · funext r
    have hreg : regNetOf (applyDead b removed) r = regNetOf b r := by
      simp only [regNetOf, applyDead, keptNets]
      exact find_filter_kept removed _ (fun n hn => LowerNet.isComb_not_reg n (hnoncomb n hn) r) b.nets
    have hw : (applyDead b removed).width r = b.width r := rfl
    simp only [nextRegs, hreg, hw]
    cases hrn : regNetOf b r with
    | none => rfl
    | some n =>
      have hmem : n ∈ b.nets := List.mem_of_find?_eq_some hrn
      have hp := List.find?_some hrn
      simp only [Bool.and_eq_true, beq_iff_eq] at hp
      have hnr : n ∉ removed := fun h => by
        have := hnoncomb n h
        rw [hp.1] at this
        simp [Op.isComb] at this
      obtain ⟨a, ha⟩ := H.regArity n hmem hp.1
      simp only [ha, List.headD_cons]
      rw [henv a (hf.closed n hmem hnr a (by simp [ha]))]
  · have hwr : writeNets (applyDead b removed) = writeNets b := by
      simp only [writeNets, applyDead, keptNets]
      exact filter_filter_kept removed _ (fun n hn => LowerNet.isComb_not_write n (hnoncomb n hn)) b.nets
    rw [hwr]
    apply LowerNet.applyWrites_congr
    intro n hn a ha
    have hmem : n ∈ b.nets := (List.mem_filter.mp hn).1
    have hnr : n ∉ removed := fun h => by
      have h1 := hnoncomb n h
      have h2 := (List.mem_filter.mp hn).2
      cases hop : n.op <;> simp_all [Op.isComb]
    exact henv a (hf.closed n hmem hnr a ha)

/-- **every run** -/
theorem dead_run (b : Block) (removed : List Net) (order order' : List Net) (H : Scheds b removed order order')
    (inps : List Env) (st : State) :
    Dco.AgreeOn (fun x => ¬ RemovedDest removed x) (run (applyDead b removed) order' st inps) (run b order st inps) := by
  induction inps generalizing st with
  | nil => simp [run, Dco.AgreeOn]
  | cons inp rest ih =>
    obtain ⟨h1, h2⟩ := dead_step b removed order order' H st inp
    simp only [run, Dco.AgreeOn]
    refine ⟨h1, ?_⟩
    rw [h2]
    exact ih _

theorem deadSchedsOkB_sound (b : Block) (removed : List Net) (h : deadSchedsOkB b removed = true) :
    Scheds b removed (Dco.orderOf b) (Dco.orderOf (applyDead b removed)) ∧
      ∀ x, b.kind x = .output → ¬ RemovedDest removed x := by
  simp only [deadSchedsOkB, Bool.and_eq_true, List.all_eq_true] at h
  obtain ⟨⟨⟨⟨h1, h2⟩, h3⟩, h4⟩, h5⟩ := h
  obtain ⟨ho, hto⟩ := Dco.orderOkB_sound b h2
  obtain ⟨ho', hto'⟩ := Dco.orderOkB_sound (applyDead b removed) h3
  have hf := deadOk_facts b removed h1
  refine ⟨⟨h1, ho, hto, ?_, ho', hto', ?_⟩, ?_⟩
  · intro n hn m hm hd
    have := h4 n hn m hm
    simpa [hd] using this
  · intro n hn hop
    have := h5 n hn
    simp only [hop, beq_self_eq_true, Bool.not_true, Bool.false_or, beq_iff_eq] at this
    match ha : n.args, this with
    | [a], _ => exact ⟨a, rfl⟩
  · rintro x hx ⟨r, hr, hd⟩
    exact (hf.mem r hr).2.2 (hd ▸ hx)

end Pyrtl.Dead
