import Model.Core.Topo
/-!
# Order-independence of sequential netlist evaluation

Existence and uniqueness of the consistent valuation of an acyclic netlist, and: evaluating the nets
one after another in *any* dependency order yields that valuation.
-/
namespace Pyrtl

/-- `v` solves the net equations and agrees with `e` off the destinations. -/
def Consistent (f : Net → List Nat → Nat) (nets : List Net) (e v : Env) : Prop :=
  (∀ n ∈ nets, v n.dest = f n (n.args.map v)) ∧ (∀ w, (∀ n ∈ nets, n.dest ≠ w) → v w = e w)

theorem evalSeq_off (f : Net → List Nat → Nat) (ns : List Net) (e : Env) (w : Nat)
    (h : ∀ n ∈ ns, n.dest ≠ w) : evalSeq f ns e w = e w := by
  induction ns generalizing e with
  | nil => rfl
  | cons n ns ih =>
    have hn : n.dest ≠ w := h n (by simp)
    rw [evalSeq, ih _ (fun m hm => h m (by simp [hm]))]
    simp [upd, Ne.symm hn]

theorem consistent_unique_aux (f : Net → List Nat → Nat) (all : List Net) (e v1 v2 : Env)
    (h1 : Consistent f all e v1) (h2 : Consistent f all e v2) :
    ∀ (ns : List Net) (done : List Nat), (∀ n ∈ ns, n ∈ all) → Topo all ns done →
      (∀ w ∈ done, v1 w = v2 w) → ∀ n ∈ ns, v1 n.dest = v2 n.dest := by
  intro ns
  induction ns with
  | nil => intro _ _ _ _ n hn; simp at hn
  | cons m ms ih =>
    intro done hsub htopo hdone n hn
    obtain ⟨hargs, _, hrest⟩ := htopo
    have hm_all : m ∈ all := hsub m (by simp)
    have hargs_eq : m.args.map v1 = m.args.map v2 := by
      apply List.map_congr_left
      intro a ha
      rcases hargs a ha with hd | hsrc
      · exact hdone a hd
      · rw [h1.2 a hsrc, h2.2 a hsrc]
    have hm : v1 m.dest = v2 m.dest := by
      rw [h1.1 m hm_all, h2.1 m hm_all, hargs_eq]
    rcases List.mem_cons.mp hn with rfl | hn'
    · exact hm
    · exact ih (m.dest :: done) (fun k hk => hsub k (by simp [hk])) hrest
        (by intro w hw; rcases List.mem_cons.mp hw with rfl | hw'
            · exact hm
            · exact hdone w hw') n hn'

/-- Uniqueness: two consistent valuations of a netlist that has a dependency order agree. -/
theorem consistent_unique (f : Net → List Nat → Nat) (all : List Net) (e v1 v2 : Env)
    (htopo : Topo all all []) (h1 : Consistent f all e v1) (h2 : Consistent f all e v2) :
    ∀ w, v1 w = v2 w := by
  intro w
  by_cases hw : ∃ n ∈ all, n.dest = w
  · obtain ⟨n, hn, rfl⟩ := hw
    exact consistent_unique_aux f all e v1 v2 h1 h2 all [] (fun _ h => h) htopo (by simp) n hn
  · have : ∀ n ∈ all, n.dest ≠ w := fun n hn h => hw ⟨n, hn, h⟩
    rw [h1.2 w this, h2.2 w this]

theorem topo_dest_not_done (all : List Net) : ∀ (ns : List Net) (done : List Nat),
    Topo all ns done → ∀ k ∈ ns, k.dest ∉ done := by
  intro ns
  induction ns with
  | nil => intro _ _ k hk; simp at hk
  | cons m ms ih =>
    intro done h k hk
    obtain ⟨_, hmd, hrest⟩ := h
    rcases List.mem_cons.mp hk with rfl | hk'
    · exact hmd
    · intro hmem
      exact ih (m.dest :: done) hrest k hk' (by simp [hmem])

theorem evalSeq_consistent_aux (f : Net → List Nat → Nat) (all : List Net) :
    ∀ (ns : List Net) (done : List Nat) (e : Env),
    (∀ n ∈ ns, n ∈ all) → Topo all ns done →
    ∀ n ∈ ns, evalSeq f ns e n.dest = f n (n.args.map (evalSeq f ns e)) := by
  intro ns
  induction ns with
  | nil => intro _ _ _ _ n hn; simp at hn
  | cons m ms ih =>
    intro done e hsub htopo n hn
    obtain ⟨hargs, hmd, hrest⟩ := htopo
    have hlater : ∀ k ∈ ms, k.dest ∉ (m.dest :: done) := topo_dest_not_done all ms _ hrest
    rcases List.mem_cons.mp hn with rfl | hn'
    · have hdest : evalSeq f (n :: ms) e n.dest = f n (n.args.map e) := by
        rw [evalSeq, evalSeq_off f ms _ n.dest (fun k hk h => hlater k hk (by simp [h]))]
        simp [upd]
      have hargs_eq : n.args.map (evalSeq f (n :: ms) e) = n.args.map e := by
        apply List.map_congr_left
        intro a ha
        have hne : ∀ k ∈ (n :: ms), k.dest ≠ a := by
          intro k hk hka
          rcases hargs a ha with hd | hsrc
          · rcases List.mem_cons.mp hk with rfl | hk'
            · exact hmd (hka ▸ hd)
            · exact hlater k hk' (by simp [hka, hd])
          · exact hsrc k (hsub k hk) hka
        exact evalSeq_off f (n :: ms) e a hne
      rw [hdest, hargs_eq]
    · exact ih (m.dest :: done) _ (fun k hk => hsub k (by simp [hk])) hrest n hn'

/-- Existence: sequential evaluation along a dependency order produces a consistent valuation. -/
theorem evalSeq_consistent (f : Net → List Nat → Nat) (all : List Net) (e : Env)
    (htopo : Topo all all []) : Consistent f all e (evalSeq f all e) :=
  ⟨evalSeq_consistent_aux f all all [] e (fun _ h => h) htopo, fun w hw => evalSeq_off f all e w hw⟩

/-- Any two dependency orders of the same net set give the same valuation. -/
theorem eval_any_topo_order (f : Net → List Nat → Nat) (l1 l2 : List Net) (e : Env)
    (hp : ∀ n, n ∈ l1 ↔ n ∈ l2) (h1 : Topo l1 l1 []) (h2 : Topo l2 l2 []) :
    ∀ w, evalSeq f l1 e w = evalSeq f l2 e w := by
  have c1 := evalSeq_consistent f l1 e h1
  have c2 := evalSeq_consistent f l2 e h2
  have c2' : Consistent f l1 e (evalSeq f l2 e) :=
    ⟨fun n hn => c2.1 n ((hp n).mp hn), fun w hw => c2.2 w (fun n hn => hw n ((hp n).mpr hn))⟩
  exact consistent_unique f l1 e _ _ h1 c1 c2'

/-- The executable checker is sound for the `Topo` predicate. -/
theorem isTopoFrom_sound (all : List Net) : ∀ (ns : List Net) (done : List Nat),
    isTopoFrom (all.map Net.dest) ns done = true → Topo all ns done := by
  intro ns
  induction ns with
  | nil => intro _ _; trivial
  | cons n ns ih =>
    intro done h
    simp only [isTopoFrom, Bool.and_eq_true, List.all_eq_true, Bool.or_eq_true,
      Bool.not_eq_true', List.contains_eq_mem, decide_eq_true_eq, decide_eq_false_iff_not] at h
    obtain ⟨⟨hargs, hnd⟩, hrest⟩ := h
    refine ⟨?_, hnd, ih _ hrest⟩
    intro a ha
    rcases hargs a ha with hd | hsrc
    · exact Or.inl hd
    · right
      intro m hm hma
      exact hsrc (List.mem_map.mpr ⟨m, hm, hma⟩)

theorem isTopo_sound (order : List Net) (h : isTopo order = true) : Topo order order [] :=
  isTopoFrom_sound order order [] h

end Pyrtl

namespace Pyrtl

theorem isTopoFastFrom_eq (driven : Std.HashSet Nat) (drivenL : List Nat)
    (hd : ∀ x, driven.contains x = drivenL.contains x) :
    ∀ (ns : List Net) (done : Std.HashSet Nat) (doneL : List Nat),
      (∀ x, done.contains x = doneL.contains x) →
      isTopoFastFrom driven ns done = isTopoFrom drivenL ns doneL := by
  intro ns
  induction ns with
  | nil => intro _ _ _; rfl
  | cons n ns ih =>
    intro done doneL h
    simp only [isTopoFastFrom, isTopoFrom]
    rw [ih (done.insert n.dest) (n.dest :: doneL) (by
      intro x
      rw [Std.HashSet.contains_insert, List.contains_cons, h x]
      have : (n.dest == x) = (x == n.dest) := BEq.comm
      rw [this])]
    simp only [h, hd]

/-- the linear-time checker the driver runs is the checker `isTopo_sound` is about -/
theorem isTopoFast_eq (order : List Net) : isTopoFast order = isTopo order := by
  unfold isTopoFast isTopo
  exact isTopoFastFrom_eq _ _ (fun x => Std.HashSet.contains_ofList) order {} []
    (fun x => by simp)

end Pyrtl
