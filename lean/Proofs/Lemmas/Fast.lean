import Model.Core.Fast
/-! Refinement: the hash-map evaluator computes the same valuation as the closure evaluator. -/
namespace Pyrtl.Fast

theorem look_insert (m : FEnv) (base : Env) (k v : Nat) :
    look (m.insert k v) base = upd (look m base) k v := by
  funext x
  simp only [look, upd, Std.HashMap.getD_insert]
  by_cases h : k = x
  · simp [h]
  · have h' : ¬ x = k := fun e => h e.symm
    simp [h, h']

theorem evalSeq_look (f : Net → List Nat → Nat) (base : Env) (ns : List Net) (m : FEnv) :
    look (evalSeq f base ns m) base = Pyrtl.evalSeq f ns (look m base) := by
  induction ns generalizing m with
  | nil => rfl
  | cons n ns ih =>
    simp only [evalSeq, Pyrtl.evalSeq]
    rw [ih, look_insert]

end Pyrtl.Fast
