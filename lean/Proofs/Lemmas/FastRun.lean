import Proofs.Props.C01
import Model.Sim.FastRun
/-!
# Run-level refinement for any simulator with `Simulation.step`'s skeleton

If the per-net function agrees with the documented one on in-range arguments (for the nets of the
schedule), one cycle and whole runs agree with the specification — the argument of `C01.pysim_step_eq_spec`
with the net function abstracted.
-/
namespace Pyrtl.FastRun
open Pyrtl Pyrtl.PySim Pyrtl.RunRefine Pyrtl.C01 Pyrtl.FastSim

theorem evalSeq_agree_gen (b : Block) (nf : Net → List Nat → Nat) (sp ss : State) (hm : sp.mems = ss.mems) :
    ∀ (ns : List Net) (done : List Nat) (ep es : Env),
      (∀ n ∈ ns, ∀ vals : List Nat, vals.length = n.args.length →
        (∀ p ∈ (n.args.map b.width).zip vals, p.2 < 2 ^ p.1) → nf n vals = Pyrtl.netFun b sp n vals) →
      Sched b ns done →
      AgreeOn b (fun w => Src b w ∨ w ∈ done) ep es →
      AgreeOn b (fun w => Src b w ∨ w ∈ done ∨ w ∈ ns.map Net.dest)
        (evalSeq nf ns ep) (evalSeq (Pyrtl.netFun b ss) ns es) := by
  intro ns
  induction ns with
  | nil =>
    intro done ep es _ _ h w hw
    rcases hw with h1 | h1 | h1
    · exact h w (Or.inl h1)
    · exact h w (Or.inr h1)
    · simp at h1
  | cons n ns ih =>
    intro done ep es hexec hs h
    obtain ⟨hargs, hrest⟩ := hs
    have hvals : n.args.map ep = n.args.map es := by
      apply List.map_congr_left
      intro a ha
      rcases hargs a ha with hd | hsrc
      · exact (h a (Or.inr hd)).1
      · exact (h a (Or.inl hsrc)).1
    have hrange : ∀ a ∈ n.args, es a < 2 ^ b.width a := by
      intro a ha
      rcases hargs a ha with hd | hsrc
      · exact (h a (Or.inr hd)).2
      · exact (h a (Or.inl hsrc)).2
    have hir := zip_inRange b es n.args hrange
    have hfun : nf n (n.args.map ep) = Pyrtl.netFun b ss n (n.args.map es) := by
      rw [hvals, hexec n (by simp) _ (by simp) hir, spec_netFun_congr b sp ss hm]
    have hlt : Pyrtl.netFun b ss n (n.args.map es) < 2 ^ b.width n.dest := by
      rw [← spec_netFun_congr b sp ss hm, ← pysim_netFun_eq_spec b sp n _ hir]
      exact netFun_lt b sp n _
    have hnew : AgreeOn b (fun w => Src b w ∨ w ∈ n.dest :: done)
        (upd ep n.dest (nf n (n.args.map ep)))
        (upd es n.dest (Pyrtl.netFun b ss n (n.args.map es))) := by
      intro w hw
      by_cases hwd : w = n.dest
      · subst hwd
        simp only [upd, ↓reduceIte]
        exact ⟨hfun, hlt⟩
      · simp only [upd, hwd, ↓reduceIte]
        rcases hw with h1 | h1
        · exact h w (Or.inl h1)
        · rcases List.mem_cons.mp h1 with h2 | h2
          · exact absurd h2 hwd
          · exact h w (Or.inr h2)
    have := ih (n.dest :: done) _ _ (fun m hm => hexec m (by simp [hm])) hrest hnew
    intro w hw
    apply this w
    rcases hw with h1 | h1 | h1
    · exact Or.inl h1
    · exact Or.inr (Or.inl (List.mem_cons_of_mem _ h1))
    · simp only [List.map_cons, List.mem_cons] at h1
      rcases h1 with h2 | h2
      · exact Or.inr (Or.inl (by rw [h2]; exact List.mem_cons_self ..))
      · exact Or.inr (Or.inr h2)

/-- the net function agrees with the documented one on the nets of the schedule -/
def NfOk (b : Block) (order : List Net) (nf : State → Net → List Nat → Nat) : Prop :=
  ∀ (st : State), ∀ n ∈ order, ∀ vals : List Nat, vals.length = n.args.length →
    (∀ p ∈ (n.args.map b.width).zip vals, p.2 < 2 ^ p.1) → nf st n vals = Pyrtl.netFun b st n vals

/-- **One cycle**, for any simulator built on `stepWith` -/
theorem stepWith_eq_spec (b : Block) (order : List Net) (nf : State → Net → List Nat → Nat) (hnf : NfOk b order nf)
    (hwf : WF b order) (s : Sim) (st : State) (hinv : Inv b s st) (inp : Env) (hin : InputsOk b inp) :
    (∀ w, Good b order w →
        (stepWith nf b order (writeNets b) s inp).1 w = (Pyrtl.step b order st inp).1 w ∧
        (Pyrtl.step b order st inp).1 w < 2 ^ b.width w) ∧
    Inv b (stepWith nf b order (writeNets b) s inp).2 (Pyrtl.step b order st inp).2 := by
  have hbase := base_agree b s st hinv hwf.consts inp hin
  have hmain := evalSeq_agree_gen b (nf ⟨s.regvalue, s.mem⟩) ⟨s.regvalue, s.mem⟩ st hinv.mems order [] _ _
    (fun n hn vals hl h => hnf _ n hn vals hl h) hwf.sched hbase
  have hgood : ∀ w, Good b order w →
      (stepWith nf b order (writeNets b) s inp).1 w = (Pyrtl.step b order st inp).1 w ∧
      (Pyrtl.step b order st inp).1 w < 2 ^ b.width w := by
    intro w hw
    apply hmain w
    rcases hw with h | h
    · exact Or.inl h
    · exact Or.inr (Or.inr h)
  refine ⟨hgood, ?_⟩
  constructor
  · intro r
    simp only [stepWith, Pyrtl.step, regCapture, nextRegs]
    cases hrn : regNetOf b r with
    | none => exact hinv.regs r
    | some n =>
      simp only []
      rw [san_nat]
      have hmem : n ∈ b.nets := List.mem_of_find?_eq_some hrn
      have hp := List.find?_some hrn
      simp only [Bool.and_eq_true, beq_iff_eq] at hp
      have := (hgood _ (hwf.regArg n hmem hp.1)).1
      simp only [stepWith, Pyrtl.step] at this
      rw [this]
  · intro r hr
    simp only [Pyrtl.step, nextRegs]
    cases hrn : regNetOf b r with
    | none => exact hinv.regs_lt r hr
    | some n => exact Nat.mod_lt _ (Nat.two_pow_pos _)
  · simp only [stepWith, Pyrtl.step]
    rw [← hinv.mems]
    apply writes_congr
    intro n hn a ha
    have := (hgood a (hwf.wrArgs n hn a ha)).1
    simpa only [stepWith, Pyrtl.step] using this
  · intro c v hk
    simp only [stepWith]
    have hsrc : Src b c := by unfold Src; rw [hk]; trivial
    rw [evalSeq_off _ order _ c (fun n hn hd => hwf.dests n hn (hd ▸ hsrc))]
    simp only [isReg, isInput, hk]
    exact hinv.consts c v hk

/-- **Whole runs** -/
theorem runWith_eq_spec (b : Block) (order : List Net) (nf : State → Net → List Nat → Nat) (hnf : NfOk b order nf)
    (hwf : WF b order) :
    ∀ (inps : List Env) (s : Sim) (st : State), Inv b s st → (∀ inp ∈ inps, InputsOk b inp) →
      RunsAgree b order (runWith nf b order (writeNets b) s inps) (Pyrtl.run b order st inps) := by
  intro inps
  induction inps with
  | nil => intro _ _ _ _; trivial
  | cons inp rest ih =>
    intro s st hinv hin
    have hstep := stepWith_eq_spec b order nf hnf hwf s st hinv inp (hin inp (by simp))
    simp only [runWith, Pyrtl.run, RunsAgree]
    exact ⟨hstep.1, ih _ _ hstep.2 (fun i hi => hin i (by simp [hi]))⟩

end Pyrtl.FastRun
