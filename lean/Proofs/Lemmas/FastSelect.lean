import Proofs.Lemmas.FastSimOps
import Mathlib.Tactic.Ring
import Mathlib.Tactic.NormNum
/-!
# FastSimulation's `s` emitter: OR of shifted, masked runs = the documented bit selection
-/
namespace Pyrtl.FastSim
open Pyrtl Pyrtl.Gen.FastEmit

/-- value of one run: `len` bits of `a` from bit `s`, placed at bit `r` -/
def runVal (a s L r : Nat) : Nat := ((a / 2 ^ s) % 2 ^ L) * 2 ^ r

def sumRuns (a : Nat) : List Run → Nat
  | [] => 0
  | q :: qs => runVal a q.start q.len q.res + sumRuns a qs

theorem shl_one_sub (L : Nat) : pyShl (1 : Int) (L : Int) - 1 = mask L := by
  have h1 : 1 ≤ 2 ^ L := Nat.one_le_two_pow
  unfold pyShl mask
  simp only [Int.toNat_natCast, Int.one_mul]
  push_cast [h1]
  rfl

theorem piece_nat (arglen a : Nat) (q : Run) (ha : a < 2 ^ arglen) (hq : q.start + q.len ≤ arglen) :
    piece arglen (a : Int) q = ((runVal a q.start q.len q.res : Nat) : Int) := by
  obtain ⟨s, L, r⟩ := q
  simp only at hq
  unfold piece runVal
  simp only []
  by_cases h0 : s = 0
  · subst h0
    have hc0 : split_cond0 ((0 : Nat) : Int) L arglen = true := by simp [split_cond0]
    simp only [hc0, ↓reduceIte, split_bit0, shl_one_sub, mask_and_nat, shiftL_nat, Nat.pow_zero,
      Nat.div_one]
  · have hc0 : split_cond0 (s : Int) L arglen = false := by
      simp only [split_cond0, decide_eq_false_iff_not]; exact_mod_cast h0
    by_cases h1 : arglen - s = L
    · have hc1 : split_cond1 (s : Int) L arglen = true := by
        simp only [split_cond1, decide_eq_true_eq]; omega
      simp only [hc0, hc1, Bool.false_eq_true, ↓reduceIte, split_bit1, pyShr_nat, shiftL_nat]
      have hlt : a / 2 ^ s < 2 ^ L := by
        apply Nat.div_lt_of_lt_mul
        rw [← Nat.pow_add]
        exact Nat.lt_of_lt_of_le ha (Nat.pow_le_pow_right (by decide) (by omega))
      rw [Nat.mod_eq_of_lt hlt]
    · have hc1 : split_cond1 (s : Int) L arglen = false := by
        simp only [split_cond1, decide_eq_false_iff_not]; omega
      simp only [hc0, hc1, Bool.false_eq_true, ↓reduceIte, split_bit2, shl_one_sub, pyShr_nat,
        mask_and_nat, shiftL_nat]

theorem runVal_lt (a s L r : Nat) : runVal a s L r < 2 ^ (r + L) := by
  unfold runVal
  have := Nat.mod_lt (a / 2 ^ s) (Nat.two_pow_pos L)
  rw [Nat.pow_add, Nat.mul_comm (2 ^ r)]
  exact Nat.mul_lt_mul_of_pos_right this (Nat.two_pow_pos r)

theorem or_piece (acc a s L r : Nat) (hacc : acc < 2 ^ r) :
    pyOr (acc : Int) ((runVal a s L r : Nat) : Int) = ((acc + runVal a s L r : Nat) : Int) := by
  rw [pyOr_nat]
  congr 1
  unfold runVal
  rw [Nat.or_comm, shl_or_eq_add _ _ _ hacc, Nat.add_comm]

/-- the OR of the pieces of the loop's runs is their sum (each piece sits above everything before it) -/
theorem foldl_runs (arglen a : Nat) (ha : a < 2 ^ arglen) :
    ∀ (rest : List Nat) (s L r acc : Nat), acc < 2 ^ r → s + L ≤ arglen → (∀ b ∈ rest, b < arglen) →
      (runsFrom rest s L r).foldl (fun acc q => pyOr acc (piece arglen (a : Int) q)) (acc : Int)
        = ((acc + sumRuns a (runsFrom rest s L r) : Nat) : Int) := by
  intro rest
  induction rest with
  | nil =>
    intro s L r acc hacc hsl _
    simp only [runsFrom, List.foldl_cons, List.foldl_nil, sumRuns, Nat.add_zero]
    rw [piece_nat arglen a ⟨s, L, r⟩ ha hsl]
    exact or_piece acc a s L r hacc
  | cons b rest ih =>
    intro s L r acc hacc hsl hb
    have hb' : ∀ x ∈ rest, x < arglen := fun x hx => hb x (by simp [hx])
    unfold runsFrom
    by_cases hbs : b = s + L
    · simp only [hbs, ↓reduceIte]
      exact ih s (L + 1) r acc hacc (by have := hb b (by simp); omega) hb'
    · simp only [hbs, ↓reduceIte, List.foldl_cons, sumRuns]
      rw [piece_nat arglen a ⟨s, L, r⟩ ha hsl, or_piece acc a s L r hacc]
      have hlt : acc + runVal a s L r < 2 ^ (r + L) := by
        have h1 := runVal_lt a s L r
        have h2 : runVal a s L r % 2 ^ r = 0 := by unfold runVal; exact Nat.mul_mod_left _ _
        -- acc < 2^r and runVal is a multiple of 2^r below 2^(r+L)
        unfold runVal at h1 ⊢
        generalize (a / 2 ^ s) % 2 ^ L = m at *
        rw [Nat.pow_add, Nat.mul_comm (2 ^ r)] at h1 ⊢
        have hm : m < 2 ^ L := Nat.lt_of_mul_lt_mul_right h1
        calc acc + m * 2 ^ r < 2 ^ r + m * 2 ^ r := by omega
          _ = (m + 1) * 2 ^ r := by rw [Nat.add_mul, Nat.one_mul, Nat.add_comm]
          _ ≤ 2 ^ L * 2 ^ r := Nat.mul_le_mul_right _ hm
      have := ih b 1 (r + L) (acc + runVal a s L r) hlt (by have := hb b (by simp); omega) hb'
      rw [this]
      congr 1
      omega

/-- the runs of the loop carry exactly the selected bits -/
theorem sumRuns_eq (a : Nat) :
    ∀ (rest : List Nat) (s L r : Nat),
      sumRuns a (runsFrom rest s L r) = runVal a s L r + 2 ^ (r + L) * Spec.selectVal rest a := by
  intro rest
  induction rest with
  | nil => intro s L r; simp [runsFrom, sumRuns, Spec.selectVal]
  | cons b rest ih =>
    intro s L r
    unfold runsFrom
    by_cases hbs : b = s + L
    · simp only [hbs, ↓reduceIte, ih, Spec.selectVal]
      have hstep : runVal a s (L + 1) r = runVal a s L r + Spec.bit a (s + L) * 2 ^ (r + L) := by
        unfold runVal Spec.bit
        rw [Nat.mod_pow_succ, Nat.div_div_eq_div_mul, ← Nat.pow_add, Nat.pow_add 2 r L]
        ring
      rw [hstep, show r + (L + 1) = (r + L) + 1 by omega, Nat.pow_succ]
      ring
    · simp only [hbs, ↓reduceIte, sumRuns, ih, Spec.selectVal]
      have h1 : runVal a b 1 (r + L) = Spec.bit a b * 2 ^ (r + L) := by
        unfold runVal Spec.bit; simp
      rw [h1, show r + L + 1 = (r + L) + 1 by omega, Nat.pow_succ]
      ring

theorem selectVal_lt (idx : List Nat) (a : Nat) : Spec.selectVal idx a < 2 ^ idx.length := by
  induction idx with
  | nil => simp [Spec.selectVal]
  | cons i rest ih =>
    simp only [Spec.selectVal, List.length_cons, Nat.pow_succ]
    have : Spec.bit a i < 2 := by unfold Spec.bit; exact Nat.mod_lt _ (by decide)
    omega

theorem pyOr_zero_left (x : Int) : pyOr 0 x = x := by
  cases x with
  | ofNat n => show pyOr (Int.ofNat 0) (Int.ofNat n) = _; simp [pyOr]
  | negSucc n => show pyOr (Int.ofNat 0) (Int.negSucc n) = _; simp [pyOr]

/-- the emitted select expression is the documented selection, for every index list -/
theorem selectExpr_eq (arglen a : Nat) (idx : List Nat) (ha : a < 2 ^ arglen) (hi : ∀ b ∈ idx, b < arglen) :
    selectExpr arglen (a : Int) (runs idx) = ((Spec.selectVal idx a : Nat) : Int) := by
  cases idx with
  | nil => simp [runs, selectExpr, Spec.selectVal]
  | cons b rest =>
    have hb : b < arglen := hi b (by simp)
    have hrest : ∀ x ∈ rest, x < arglen := fun x hx => hi x (by simp [hx])
    have hfold := foldl_runs arglen a ha rest b 1 0 0 (by simp) (by omega) hrest
    simp only [Nat.zero_add] at hfold
    have hsel : selectExpr arglen (a : Int) (runs (b :: rest))
        = (runsFrom rest b 1 0).foldl (fun acc q => pyOr acc (piece arglen (a : Int) q)) ((0 : Nat) : Int) := by
      show selectExpr arglen (a : Int) (runsFrom rest b 1 0) = _
      cases runsFrom rest b 1 0 with
      | nil => simp [selectExpr]
      | cons q qs =>
        simp only [selectExpr, List.foldl_cons]
        congr 1
        exact (pyOr_zero_left _).symm
    rw [hsel, hfold, sumRuns_eq]
    congr 1
    simp only [runVal, Spec.selectVal, Spec.bit, Nat.pow_zero, Nat.mul_one, Nat.zero_add, Nat.pow_one]

end Pyrtl.FastSim
