import Model.Sim.FastSim
import Proofs.Lemmas.PySimOps
/-! Per-op lemmas: the expression `FastSimulation` emits equals the documented op table. -/
namespace Pyrtl.FastSim
open Pyrtl Pyrtl.Gen.FastEmit

theorem pyAnd_comm (x y : Int) : pyAnd x y = pyAnd y x := by
  cases x <;> cases y <;> simp [pyAnd, Nat.and_comm, Nat.or_comm]

theorem mask_and (x : Int) (w : Nat) : pyAnd (mask w) x = x % ((2 ^ w : Nat) : Int) := by
  rw [pyAnd_comm, pyAnd_mask]

theorem mask_and_nat (a w : Nat) : pyAnd (mask w) (a : Int) = ((a % 2 ^ w : Nat) : Int) := by
  rw [pyAnd_comm, pyAnd_mask_nonneg]

theorem mask_and_toNat (x : Int) (w : Nat) :
    pyAnd (mask w) x = (((x % ((2 ^ w : Nat) : Int)).toNat : Nat) : Int) := by
  rw [mask_and, Int.toNat_of_nonneg]
  exact Int.emod_nonneg _ (by have := Nat.two_pow_pos w; omega)

theorem mask_not_nat (a w : Nat) :
    pyAnd (mask w) (pyNot (a : Int)) = ((2 ^ w - 1 - a % 2 ^ w : Nat) : Int) := by
  rw [pyAnd_comm]
  have h := pyNot_mask_toNat a w
  have hn : 0 ≤ pyAnd (pyNot (a : Int)) (mask w) := by
    rw [pyAnd_mask]; exact Int.emod_nonneg _ (by have := Nat.two_pow_pos w; omega)
  rw [← h, Int.toNat_of_nonneg hn]

theorem eqW_neg (dw : Nat) : eqW dw (-1) = false := by
  simp only [eqW, decide_eq_false_iff_not]; omega

theorem eqW_true {dw : Nat} {v : Int} (h : eqW dw v = true) : (dw : Int) = v := of_decide_eq_true h

theorem fexec_w (w1 a dw : Nat) (h : a < 2 ^ w1) :
    exec .w [(w1, (a : Int))] dw = ((Spec.comb .w [(w1, a)] dw : Nat) : Int) := by
  simp only [exec, Spec.comb, noMask_w, plain_w, masked_w, List.getD_cons_zero]
  split
  · rename_i hd
    have : dw = w1 := by have := eqW_true hd; omega
    subst this; rw [Nat.mod_eq_of_lt h]
  · exact mask_and_nat a dw

theorem fexec_inv (w1 a dw : Nat) :
    exec .inv [(w1, (a : Int))] dw = ((Spec.comb .inv [(w1, a)] dw : Nat) : Int) := by
  simp only [exec, Spec.comb, noMask_inv, plain_inv, masked_inv]
  simp only [eqW_neg, Bool.false_eq_true, if_false]
  exact mask_not_nat a dw

theorem and_lt (a b w : Nat) (ha : a < 2 ^ w) : a &&& b < 2 ^ w :=
  Nat.lt_of_le_of_lt Nat.and_le_left ha

theorem fexec_and (w1 w2 a b dw : Nat) (ha : a < 2 ^ w1) :
    exec .and [(w1, (a : Int)), (w2, (b : Int))] dw
      = ((Spec.comb .and [(w1, a), (w2, b)] dw : Nat) : Int) := by
  simp only [exec, Spec.comb, noMask_and, plain_and, masked_and, List.getD_cons_zero, pyAnd_nat]
  split
  · rename_i hd
    have : dw = w1 := by have := eqW_true hd; omega
    subst this; rw [Nat.mod_eq_of_lt (and_lt a b dw ha)]
  · exact mask_and_nat _ dw

theorem fexec_or (w1 w2 a b dw : Nat) (ha : a < 2 ^ w1) (hb : b < 2 ^ w1) :
    exec .or [(w1, (a : Int)), (w2, (b : Int))] dw
      = ((Spec.comb .or [(w1, a), (w2, b)] dw : Nat) : Int) := by
  simp only [exec, Spec.comb, noMask_or, plain_or, masked_or, List.getD_cons_zero, pyOr_nat]
  split
  · rename_i hd
    have : dw = w1 := by have := eqW_true hd; omega
    subst this; rw [Nat.mod_eq_of_lt (Nat.or_lt_two_pow ha hb)]
  · exact mask_and_nat _ dw

theorem fexec_xor (w1 w2 a b dw : Nat) (ha : a < 2 ^ w1) (hb : b < 2 ^ w1) :
    exec .xor [(w1, (a : Int)), (w2, (b : Int))] dw
      = ((Spec.comb .xor [(w1, a), (w2, b)] dw : Nat) : Int) := by
  simp only [exec, Spec.comb, noMask_xor, plain_xor, masked_xor, List.getD_cons_zero, pyXor_nat]
  split
  · rename_i hd
    have : dw = w1 := by have := eqW_true hd; omega
    subst this; rw [Nat.mod_eq_of_lt (Nat.xor_lt_two_pow ha hb)]
  · exact mask_and_nat _ dw

theorem fexec_nand (w1 w2 a b dw : Nat) :
    exec .nand [(w1, (a : Int)), (w2, (b : Int))] dw
      = ((Spec.comb .nand [(w1, a), (w2, b)] dw : Nat) : Int) := by
  simp only [exec, Spec.comb, noMask_nand, plain_nand, masked_nand, pyAnd_nat]
  simp only [eqW_neg, Bool.false_eq_true, if_false]
  exact mask_not_nat _ dw

theorem fexec_add (w1 w2 a b dw : Nat) (ha : a < 2 ^ w1) (hb : b < 2 ^ w1) :
    exec .add [(w1, (a : Int)), (w2, (b : Int))] dw
      = ((Spec.comb .add [(w1, a), (w2, b)] dw : Nat) : Int) := by
  simp only [exec, Spec.comb, noMask_add, plain_add, masked_add, List.getD_cons_zero]
  rw [show (a : Int) + (b : Int) = ((a + b : Nat) : Int) by push_cast; rfl]
  split
  · rename_i hd
    have : dw = w1 + 1 := by have := eqW_true hd; omega
    subst this
    rw [Nat.mod_eq_of_lt (by rw [Nat.pow_succ]; omega)]
  · exact mask_and_nat _ dw

theorem fexec_sub (w1 w2 a b dw : Nat) :
    exec .sub [(w1, (a : Int)), (w2, (b : Int))] dw
      = ((Spec.comb .sub [(w1, a), (w2, b)] dw : Nat) : Int) := by
  simp only [exec, Spec.comb, noMask_sub, plain_sub, masked_sub]
  simp only [eqW_neg, Bool.false_eq_true, if_false]
  exact mask_and_toNat _ dw

theorem fexec_mul (w1 w2 a b dw : Nat) (ha : a < 2 ^ w1) (hb : b < 2 ^ w2) :
    exec .mul [(w1, (a : Int)), (w2, (b : Int))] dw
      = ((Spec.comb .mul [(w1, a), (w2, b)] dw : Nat) : Int) := by
  simp only [exec, Spec.comb, noMask_mul, plain_mul, masked_mul, List.getD_cons_zero,
    List.getD_cons_succ]
  rw [show (a : Int) * (b : Int) = ((a * b : Nat) : Int) by push_cast; rfl]
  split
  · rename_i hd
    have : dw = w1 + w2 := by have := eqW_true hd; omega
    subst this
    rw [Nat.mod_eq_of_lt (by rw [Nat.pow_add]; exact Nat.mul_lt_mul'' ha hb)]
  · exact mask_and_nat _ dw

theorem ite_lt_two (p : Prop) [Decidable p] : (if p then 1 else 0 : Nat) < 2 ^ 1 := by
  split <;> decide

theorem fexec_lt (w1 w2 a b dw : Nat) :
    exec .lt [(w1, (a : Int)), (w2, (b : Int))] dw
      = ((Spec.comb .lt [(w1, a), (w2, b)] dw : Nat) : Int) := by
  simp only [exec, Spec.comb, noMask_lt, plain_lt, masked_lt, PySim.ofBool_nat, Int.ofNat_lt]
  split
  · rename_i hd
    have : dw = 1 := by have := eqW_true hd; omega
    subst this; rw [Nat.mod_eq_of_lt (ite_lt_two _)]
  · exact mask_and_nat _ dw

theorem fexec_gt (w1 w2 a b dw : Nat) :
    exec .gt [(w1, (a : Int)), (w2, (b : Int))] dw
      = ((Spec.comb .gt [(w1, a), (w2, b)] dw : Nat) : Int) := by
  simp only [exec, Spec.comb, noMask_gt, plain_gt, masked_gt, PySim.ofBool_nat, GT.gt, Int.ofNat_lt]
  split
  · rename_i hd
    have : dw = 1 := by have := eqW_true hd; omega
    subst this; rw [Nat.mod_eq_of_lt (ite_lt_two _)]
  · exact mask_and_nat _ dw

theorem fexec_eq (w1 w2 a b dw : Nat) :
    exec .eq [(w1, (a : Int)), (w2, (b : Int))] dw
      = ((Spec.comb .eq [(w1, a), (w2, b)] dw : Nat) : Int) := by
  simp only [exec, Spec.comb, noMask_eq, plain_eq, masked_eq, PySim.ofBool_nat, Int.natCast_inj]
  split
  · rename_i hd
    have : dw = 1 := by have := eqW_true hd; omega
    subst this; rw [Nat.mod_eq_of_lt (ite_lt_two _)]
  · exact mask_and_nat _ dw

theorem fexec_mux (ws wf wt s f t dw : Nat) (hf : f < 2 ^ wf) (ht : t < 2 ^ wf) :
    exec .mux [(ws, (s : Int)), (wf, (f : Int)), (wt, (t : Int))] dw
      = ((Spec.comb .mux [(ws, s), (wf, f), (wt, t)] dw : Nat) : Int) := by
  simp only [exec, Spec.comb, noMask_mux, plain_mux, masked_mux, List.getD_cons_zero,
    List.getD_cons_succ]
  have hsel : (if decide ((s : Int) = 0) = true then (f : Int) else (t : Int))
      = (((if s = 0 then f else t) : Nat) : Int) := by
    by_cases h : s = 0
    · subst h; simp
    · have h' : ¬ ((s : Int) = 0) := by exact_mod_cast h
      simp [h]
  rw [hsel]
  split
  · rename_i hd
    have : dw = wf := by have := eqW_true hd; omega
    subst this
    rw [Nat.mod_eq_of_lt (by split <;> assumption)]
  · exact mask_and_nat _ dw

end Pyrtl.FastSim

namespace Pyrtl.FastSim
open Pyrtl Pyrtl.Gen.FastEmit

def nwidthSum (l : List (Nat × Nat)) : Nat := (l.map (·.1)).sum

theorem widthSum_cast (l : List (Nat × Nat)) :
    widthSum (l.map fun p => (p.1, (p.2 : Int))) = nwidthSum l := by
  simp [widthSum, nwidthSum, List.map_map, Function.comp_def]

theorem shiftL_nat (v S : Nat) : shiftL (v : Int) S = ((v * 2 ^ S : Nat) : Int) := by
  unfold shiftL
  split
  · rename_i h; subst h; simp
  · exact pyShl_nat v S

theorem or_shift (x y S : Nat) : (x * 2 ^ S) ||| (y * 2 ^ S) = (x ||| y) * 2 ^ S := by
  have := @Nat.shiftLeft_or_distrib S x y
  simp only [Nat.shiftLeft_eq] at this
  exact this.symm

theorem concatExpr_eq (rest : List (Nat × Nat)) (A : Nat) (hr : ∀ p ∈ rest, p.2 < 2 ^ p.1) :
    concatExpr (rest.map fun p => (p.1, (p.2 : Int))) ((A * 2 ^ nwidthSum rest : Nat) : Int)
      = ((Spec.concatVal rest A : Nat) : Int) := by
  induction rest generalizing A with
  | nil => simp [concatExpr, Spec.concatVal, nwidthSum]
  | cons p r ih =>
    obtain ⟨w, v⟩ := p
    simp only [List.map_cons, concatExpr, Spec.concatVal]
    rw [widthSum_cast, shiftL_nat, pyOr_nat]
    have hv : v < 2 ^ w := hr (w, v) (by simp)
    have hS : nwidthSum ((w, v) :: r) = w + nwidthSum r := by simp [nwidthSum]
    rw [hS, Nat.pow_add, ← Nat.mul_assoc, or_shift, shl_or_eq_add _ _ _ hv]
    exact ih _ (fun q hq => hr q (by simp [hq]))

theorem concatStart_eq (l : List (Nat × Nat)) (hr : ∀ p ∈ l, p.2 < 2 ^ p.1) :
    concatStart (l.map fun p => (p.1, (p.2 : Int))) = ((Spec.concatVal l 0 : Nat) : Int) := by
  cases l with
  | nil => simp [concatStart, Spec.concatVal]
  | cons p r =>
    obtain ⟨w, v⟩ := p
    simp only [List.map_cons, concatStart, Spec.concatVal]
    rw [widthSum_cast, shiftL_nat]
    have := concatExpr_eq r v (fun q hq => hr q (by simp [hq]))
    simpa using this

theorem concatVal_lt (l : List (Nat × Nat)) (A : Nat) (hr : ∀ p ∈ l, p.2 < 2 ^ p.1) :
    Spec.concatVal l A < (A + 1) * 2 ^ nwidthSum l := by
  induction l generalizing A with
  | nil => simp [Spec.concatVal, nwidthSum]
  | cons p r ih =>
    obtain ⟨w, v⟩ := p
    have hv : v < 2 ^ w := hr (w, v) (by simp)
    have h1 := ih (A * 2 ^ w + v) (fun q hq => hr q (by simp [hq]))
    have hS : nwidthSum ((w, v) :: r) = w + nwidthSum r := by simp [nwidthSum]
    simp only [Spec.concatVal]
    rw [hS, Nat.pow_add, ← Nat.mul_assoc]
    refine Nat.lt_of_lt_of_le h1 (Nat.mul_le_mul_right _ ?_)
    rw [Nat.add_mul]; omega

theorem fexec_concat (l : List (Nat × Nat)) (dw : Nat) (hr : ∀ p ∈ l, p.2 < 2 ^ p.1) :
    exec .concat (l.map fun p => (p.1, (p.2 : Int))) dw = ((Spec.comb .concat l dw : Nat) : Int) := by
  simp only [exec, Spec.comb, noMask_concat, concatStart_eq l hr, widthSum_cast]
  split
  · rename_i hd
    have : dw = nwidthSum l := by have := eqW_true hd; omega
    subst this
    have := concatVal_lt l 0 hr
    rw [Nat.mod_eq_of_lt (by simpa using this)]
  · exact mask_and_nat _ dw

end Pyrtl.FastSim
