import Proofs.Lemmas.Adders
import Mathlib.Data.List.GetD
/-!
# Kogge-Stone: the parallel-prefix carry computation equals the rippled carry, every width
-/
namespace Pyrtl.Adders.KS
open Pyrtl.Synth Pyrtl.Adders

variable (α β : Nat → Bool)

/-- propagate / generate of one position -/
def p (i : Nat) : Bool := xor (α i) (β i)
def g (i : Nat) : Bool := α i && β i

/-- carry out of positions `lo, …, lo+k-1` entered with carry `c` -/
def chain (lo : Nat) : Nat → Bool → Bool
  | 0, c => c
  | k + 1, c => g α β (lo + k) || (p α β (lo + k) && chain lo k c)

/-- all of positions `lo, …, lo+k-1` propagate -/
def pall (lo : Nat) : Nat → Bool
  | 0 => true
  | k + 1 => p α β (lo + k) && pall lo k

theorem chain_split (lo k : Nat) (c : Bool) :
    chain α β lo k c = (chain α β lo k false || (pall α β lo k && c)) := by
  induction k with
  | zero => simp [chain, pall]
  | succ k ih =>
    simp only [chain, pall]
    rw [ih]
    cases g α β (lo + k) <;> cases p α β (lo + k) <;> cases chain α β lo k false <;>
      cases pall α β lo k <;> cases c <;> rfl

theorem chain_add (lo k1 k2 : Nat) (c : Bool) :
    chain α β lo (k1 + k2) c = chain α β (lo + k1) k2 (chain α β lo k1 c) := by
  induction k2 with
  | zero => simp [chain]
  | succ k2 ih =>
    rw [← Nat.add_assoc]
    simp only [chain, ih, Nat.add_assoc]

theorem pall_add (lo k1 k2 : Nat) :
    pall α β lo (k1 + k2) = (pall α β (lo + k1) k2 && pall α β lo k1) := by
  induction k2 with
  | zero => simp [pall]
  | succ k2 ih =>
    rw [← Nat.add_assoc]
    simp only [pall, ih, Nat.add_assoc, Bool.and_assoc]

/-- what `gen_bits[i]` holds when the prefix distance is `s` -/
def Gw (cin : Bool) (s i : Nat) : Bool :=
  if i + 1 ≤ s then chain α β 0 (i + 1) cin else chain α β (i + 1 - s) s false

/-- one round: combining the span-`s` values at `i` and `i - s` gives the span-`2s` value -/
theorem round_gen (cin : Bool) (s i : Nat) (hs : 0 < s) (hi : s ≤ i) :
    (Gw α β cin s i || (pall α β (i + 1 - s) s && Gw α β cin s (i - s))) = Gw α β cin (2 * s) i := by
  unfold Gw
  have h1 : ¬ (i + 1 ≤ s) := by omega
  simp only [h1, ↓reduceIte]
  by_cases h2 : i + 1 ≤ 2 * s
  · have h3 : i - s + 1 ≤ s := by omega
    simp only [h2, h3, ↓reduceIte]
    have := chain_add α β 0 (i + 1 - s) s cin
    rw [show i + 1 - s + s = i + 1 by omega, Nat.zero_add] at this
    rw [this, chain_split α β (i + 1 - s) s (chain α β 0 (i + 1 - s) cin),
      show i - s + 1 = i + 1 - s by omega]
  · have h3 : ¬ (i - s + 1 ≤ s) := by omega
    simp only [h2, h3, ↓reduceIte]
    have := chain_add α β (i + 1 - 2 * s) s s false
    rw [show s + s = 2 * s by omega, show i + 1 - 2 * s + s = i + 1 - s by omega] at this
    rw [this, chain_split α β (i + 1 - s) s (chain α β (i + 1 - 2 * s) s false),
      show i - s + 1 - s = i + 1 - 2 * s by omega]

theorem round_gen_low (cin : Bool) (s i : Nat) (hi : i < s) : Gw α β cin s i = Gw α β cin (2 * s) i := by
  unfold Gw
  have h1 : i + 1 ≤ s := by omega
  have h2 : i + 1 ≤ 2 * s := by omega
  simp only [h1, h2, ↓reduceIte]

theorem round_prop (s i : Nat) (hi : 2 * s ≤ i) :
    (pall α β (i + 1 - s) s && pall α β (i - s + 1 - s) s) = pall α β (i + 1 - 2 * s) (2 * s) := by
  have := pall_add α β (i + 1 - 2 * s) s s
  rw [show s + s = 2 * s by omega, show i + 1 - 2 * s + s = i + 1 - s by omega] at this
  rw [this, show i - s + 1 - s = i + 1 - 2 * s by omega]


/-! ### the list model -/

theorem getD_map_range (n : Nat) (f : Nat → Bool) (i : Nat) (h : i < n) :
    ((List.range n).map f).getD i false = f i := by
  simp [List.getD, h]

/-- the state of the loop at prefix distance `s` -/
structure KInv (cin : Bool) (n s : Nat) (gen prop : List Bool) : Prop where
  glen : gen.length = n
  plen : prop.length = n
  gen_eq : ∀ i, i < n → gen.getD i false = Gw α β cin s i
  prop_eq : ∀ i, s ≤ i → i < n → prop.getD i false = pall α β (i + 1 - s) s

theorem ksRound_inv (cin : Bool) (n s : Nat) (gen prop : List Bool) (hs : 0 < s)
    (h : KInv α β cin n s gen prop) :
    KInv α β cin n (2 * s) (ksRound s gen prop).1 (ksRound s gen prop).2 := by
  obtain ⟨hg, hp, hge, hpe⟩ := h
  refine ⟨by simp [ksRound, hg], by simp [ksRound, hg], ?_, ?_⟩
  · intro i hi
    simp only [ksRound, hg]
    rw [getD_map_range n _ i hi]
    by_cases his : i ≥ s
    · simp only [his, ↓reduceIte]
      rw [hge i hi, hpe i his hi, hge (i - s) (by omega)]
      exact round_gen α β cin s i hs his
    · simp only [his, ↓reduceIte]
      rw [hge i hi]
      exact round_gen_low α β cin s i (by omega)
  · intro i his hi
    simp only [ksRound, hg]
    rw [getD_map_range n _ i hi]
    have h2 : i ≥ 2 * s := his
    simp only [h2, ↓reduceIte]
    rw [hpe i (by omega) hi, hpe (i - s) (by omega) (by omega)]
    exact round_prop α β s i his

theorem ksLoop_spec (cin : Bool) (n : Nat) :
    ∀ (fuel d : Nat) (gen prop : List Bool), KInv α β cin n d gen prop → 0 < d → n + 1 ≤ fuel + d →
      (ksLoop fuel d gen prop).length = n ∧
      ∀ i, i < n → (ksLoop fuel d gen prop).getD i false = chain α β 0 (i + 1) cin := by
  intro fuel
  induction fuel with
  | zero =>
    intro d gen prop h _ hf
    simp only [ksLoop]
    refine ⟨h.glen, fun i hi => ?_⟩
    rw [h.gen_eq i hi]
    unfold Gw
    have : i + 1 ≤ d := by omega
    simp only [this, ↓reduceIte]
  | succ fuel ih =>
    intro d gen prop h hd hf
    unfold ksLoop
    by_cases hlt : d < gen.length
    · simp only [hlt, ↓reduceIte]
      have hinv := ksRound_inv α β cin n d gen prop hd h
      rw [Nat.mul_comm] at hinv
      exact ih (d * 2) _ _ hinv (by omega) (by omega)
    · simp only [hlt, ↓reduceIte]
      refine ⟨h.glen, fun i hi => ?_⟩
      rw [h.gen_eq i hi]
      unfold Gw
      have : i + 1 ≤ d := by have := h.glen; omega
      simp only [this, ↓reduceIte]


theorem getD_zipWith (f : Bool → Bool → Bool) (hf : f false false = false) (a b : List Bool)
    (h : a.length = b.length) (i : Nat) :
    (List.zipWith f a b).getD i false = f (a.getD i false) (b.getD i false) := by
  induction a generalizing b i with
  | nil =>
    cases b with
    | nil => simp [hf]
    | cons _ _ => simp at h
  | cons x xs ih =>
    cases b with
    | nil => simp at h
    | cons y ys =>
      cases i with
      | zero => simp
      | succ i => simpa using ih ys (by simpa using h) i

theorem eq_map_range_getD (l : List Bool) : l = (List.range l.length).map (l.getD · false) := by
  apply List.ext_getElem
  · simp
  · intro i h1 h2
    simp [List.getD, h1]

/-- a rippled sum written with position functions: sum bits and the final carry are exact -/
theorem ripple_fun (cin : Bool) (n : Nat) :
    toNat ((List.range n).map (fun i => xor (chain α β 0 i cin) (p α β i)))
        + 2 ^ n * b2n (chain α β 0 n cin)
      = toNat ((List.range n).map α) + toNat ((List.range n).map β) + b2n cin := by
  induction n with
  | zero => simp [toNat, chain]
  | succ n ih =>
    simp only [List.range_succ, List.map_append, List.map_cons, List.map_nil, toNat_append,
      List.length_map, List.length_range, toNat, Nat.mul_zero, Nat.add_zero, chain, Nat.zero_add,
      Nat.pow_succ]
    have hfa : b2n (xor (chain α β 0 n cin) (p α β n))
        + 2 * b2n (g α β n || (p α β n && chain α β 0 n cin))
        = b2n (α n) + b2n (β n) + b2n (chain α β 0 n cin) := by
      unfold p g
      cases α n <;> cases β n <;> cases chain α β 0 n cin <;> rfl
    generalize chain α β 0 n cin = c at *
    generalize toNat ((List.range n).map (fun i => xor (chain α β 0 i cin) (p α β i))) = S at *
    generalize b2n (xor c (p α β n)) = s0 at *
    generalize b2n (g α β n || (p α β n && c)) = c1 at *
    have e1 : 2 ^ n * 2 * c1 = 2 ^ n * (2 * c1) := by rw [Nat.mul_assoc]
    rw [e1]
    have e2 : 2 ^ n * (2 * c1) + 2 ^ n * s0 = 2 ^ n * (b2n (α n) + b2n (β n) + b2n c) := by
      rw [← Nat.mul_add]; congr 1; omega
    have e3 : 2 ^ n * (b2n (α n) + b2n (β n) + b2n c)
        = 2 ^ n * b2n (α n) + 2 ^ n * b2n (β n) + 2 ^ n * b2n c := by
      rw [Nat.mul_add, Nat.mul_add]
    omega


/-- **Kogge-Stone on equal-length operands**: exact `a + b + cin`, every length -/
theorem ks_core (a b : List Bool) (cin : Bool) (h : a.length = b.length) :
    let prop := List.zipWith xor a b
    let gen0 := List.zipWith (· && ·) a b
    let gen := match gen0, prop with
      | g :: gs, p :: _ => (g || (p && cin)) :: gs
      | l, _ => l
    toNat (List.zipWith xor (cin :: ksLoop (a.length + 1) 1 gen prop) (prop ++ [false]))
      = toNat a + toNat b + b2n cin := by
  intro prop gen0 gen
  let α : Nat → Bool := fun i => a.getD i false
  let β : Nat → Bool := fun i => b.getD i false
  have hpl : prop.length = a.length := by simp [prop, h]
  have hpe : ∀ i, prop.getD i false = p α β i := fun i => getD_zipWith xor rfl a b h i
  have hg0 : ∀ i, gen0.getD i false = g α β i := fun i => getD_zipWith (· && ·) rfl a b h i
  have hg0l : gen0.length = a.length := by simp [gen0, h]
  -- initial invariant
  have hinv : KInv α β cin a.length 1 gen prop := by
    cases ha : a with
    | nil =>
      have hb : b = [] := by cases b with
        | nil => rfl
        | cons _ _ => simp [ha] at h
      refine ⟨?_, ?_, fun i hi => absurd hi (by simp), fun i _ hi => absurd hi (by simp)⟩ <;>
        simp [gen, gen0, prop, ha, hb]
    | cons x xs =>
      cases hb : b with
      | nil => simp [ha, hb] at h
      | cons y ys =>
        have hgen : gen = ((x && y) || (xor x y && cin)) :: List.zipWith (· && ·) xs ys := by
          simp [gen, gen0, prop, ha, hb]
        refine ⟨?_, ?_, ?_, ?_⟩
        · rw [hgen]; simp [ha, hb] at h ⊢; omega
        · rw [← ha]; exact hpl
        · intro i hi
          unfold Gw
          cases i with
          | zero =>
            simp only [Nat.zero_add, Nat.le_refl, ↓reduceIte, chain, hgen, List.getD_cons_zero]
            simp [g, p, α, β, ha, hb]
          | succ i =>
            have : ¬ (i + 1 + 1 ≤ 1) := by omega
            simp only [this, ↓reduceIte, chain, Nat.add_sub_cancel, Nat.add_zero, Bool.and_false,
              Bool.or_false, hgen, List.getD_cons_succ]
            have := hg0 (i + 1)
            simp only [gen0, ha, hb, List.zipWith_cons_cons, List.getD_cons_succ] at this
            rw [this]
        · intro i _ _
          rw [hpe i]
          simp [pall]
  obtain ⟨hGl, hGe⟩ := ksLoop_spec α β cin a.length (a.length + 1) 1 gen prop hinv (by omega) (by omega)
  -- the result, bit by bit
  have hres : List.zipWith xor (cin :: ksLoop (a.length + 1) 1 gen prop) (prop ++ [false])
      = (List.range a.length).map (fun i => xor (chain α β 0 i cin) (p α β i)) ++ [chain α β 0 a.length cin] := by
    apply List.ext_getElem
    · simp [hGl, hpl]
    · intro i h1 h2
      have hi : i < a.length + 1 := by simpa [hGl, hpl] using h1
      have e1 := getD_zipWith xor rfl (cin :: ksLoop (a.length + 1) 1 gen prop) (prop ++ [false])
        (by simp [hGl, hpl]) i
      rw [List.getD_eq_getElem _ false h1] at e1
      rw [e1]
      by_cases hlt : i < a.length
      · rw [List.getElem_append_left (by simpa using hlt)]
        simp only [List.getElem_map, List.getElem_range]
        have hy : (prop ++ [false]).getD i false = p α β i := by
          rw [List.getD_append _ _ _ _ (by rw [hpl]; exact hlt)]; exact hpe i
        rw [hy]
        cases i with
        | zero => simp [chain]
        | succ i => rw [List.getD_cons_succ, hGe i (by omega)]
      · have hie : i = a.length := by omega
        subst hie
        rw [List.getElem_append_right (by simp)]
        simp only [List.length_map, List.length_range, Nat.sub_self, List.getElem_cons_zero]
        have hy : (prop ++ [false]).getD a.length false = false := by
          rw [List.getD_append_right _ _ _ _ (by rw [hpl]; exact Nat.le_refl _)]; simp [hpl]
        rw [hy, Bool.xor_false]
        have hk : ∀ k, k = a.length →
            (cin :: ksLoop (a.length + 1) 1 gen prop).getD k false = chain α β 0 k cin := by
          intro k hk
          cases k with
          | zero => simp [chain]
          | succ m => rw [List.getD_cons_succ, hGe m (by omega)]
        exact hk a.length rfl
  rw [hres, toNat_append]
  simp only [List.length_map, List.length_range, toNat, Nat.mul_zero, Nat.add_zero]
  have := ripple_fun α β cin a.length
  rw [this]
  have ea := eq_map_range_getD a
  have eb := eq_map_range_getD b
  rw [← h] at eb
  rw [← ea, ← eb]

end Pyrtl.Adders.KS
