import Proofs.Lemmas.LowerNet
/-!
# The gate-basis rules (`nand_synth`, `and_inverter_synth`) are sound on whole netlists
-/
namespace Pyrtl.LowerNet
open Pyrtl

/-- precondition of the gate-basis passes on a net: a bitwise net's destination is not wider than its operand
    (`sanity_check_net`: "upper bits of destination unassigned") -/
def BitPre (b : Block) (n : Net) : Prop :=
  ∀ a c, n.args = [a, c] → (n.op = .and ∨ n.op = .or ∨ n.op = .xor ∨ n.op = .nand) → b.width n.dest ≤ b.width a

theorem inv_testBit (w x i : Nat) :
    (2 ^ w - 1 - x % 2 ^ w).testBit i = (decide (i < w) && !x.testBit i) := by
  have hx : x % 2 ^ w < 2 ^ w := Nat.mod_lt _ (Nat.two_pow_pos _)
  have : 2 ^ w - 1 - x % 2 ^ w = 2 ^ w - (x % 2 ^ w + 1) := by omega
  rw [this, Nat.testBit_two_pow_sub_succ hx, Nat.testBit_mod_two_pow]
  cases decide (i < w) <;> simp

theorem inv_lt (w x : Nat) : 2 ^ w - 1 - x % 2 ^ w < 2 ^ w := by
  have := Nat.two_pow_pos w
  omega

theorem mod_mod_le (x w dw : Nat) (h : dw ≤ w) : x % 2 ^ w % 2 ^ dw = x % 2 ^ dw :=
  Nat.mod_mod_of_dvd x (Nat.pow_dvd_pow 2 h)

/-- `~(a nand c)` -/
theorem gate_and (w x y : Nat) :
    2 ^ w - 1 - (2 ^ w - 1 - (x &&& y) % 2 ^ w) % 2 ^ w = (x &&& y) % 2 ^ w := by
  apply Nat.eq_of_testBit_eq
  intro i
  simp only [inv_testBit, Nat.testBit_mod_two_pow, Nat.testBit_and]
  cases decide (i < w) <;> cases x.testBit i <;> cases y.testBit i <;> rfl

/-- `(~a) nand (~c)` -/
theorem gate_or_nand (w x y : Nat) :
    2 ^ w - 1 - ((2 ^ w - 1 - x % 2 ^ w) &&& (2 ^ w - 1 - y % 2 ^ w)) % 2 ^ w = (x ||| y) % 2 ^ w := by
  apply Nat.eq_of_testBit_eq
  intro i
  simp only [inv_testBit, Nat.testBit_mod_two_pow, Nat.testBit_and, Nat.testBit_or]
  cases decide (i < w) <;> cases x.testBit i <;> cases y.testBit i <;> rfl

/-- `(t nand a) nand (t nand c)` with `t = a nand c` -/
theorem gate_xor_nand (w x y : Nat) :
    2 ^ w - 1 - ((2 ^ w - 1 - ((2 ^ w - 1 - (x &&& y) % 2 ^ w) &&& x) % 2 ^ w) &&&
                 (2 ^ w - 1 - ((2 ^ w - 1 - (x &&& y) % 2 ^ w) &&& y) % 2 ^ w)) % 2 ^ w
      = (x ^^^ y) % 2 ^ w := by
  apply Nat.eq_of_testBit_eq
  intro i
  simp only [inv_testBit, Nat.testBit_mod_two_pow, Nat.testBit_and, Nat.testBit_xor]
  cases decide (i < w) <;> cases x.testBit i <;> cases y.testBit i <;> rfl

/-- `~(~a & ~c)` -/
theorem gate_or_aig (w x y : Nat) :
    2 ^ w - 1 - (((2 ^ w - 1 - x % 2 ^ w) &&& (2 ^ w - 1 - y % 2 ^ w)) % 2 ^ w) % 2 ^ w = (x ||| y) % 2 ^ w := by
  apply Nat.eq_of_testBit_eq
  intro i
  simp only [inv_testBit, Nat.testBit_mod_two_pow, Nat.testBit_and, Nat.testBit_or]
  cases decide (i < w) <;> cases x.testBit i <;> cases y.testBit i <;> rfl

/-- `~(~a & ~c) & ~(a & c)` -/
theorem gate_xor_aig (w x y : Nat) :
    ((2 ^ w - 1 - (((2 ^ w - 1 - x % 2 ^ w) &&& (2 ^ w - 1 - y % 2 ^ w)) % 2 ^ w) % 2 ^ w) &&&
     (2 ^ w - 1 - ((x &&& y) % 2 ^ w) % 2 ^ w)) % 2 ^ w = (x ^^^ y) % 2 ^ w := by
  apply Nat.eq_of_testBit_eq
  intro i
  simp only [inv_testBit, Nat.testBit_mod_two_pow, Nat.testBit_and, Nat.testBit_xor]
  cases decide (i < w) <;> cases x.testBit i <;> cases y.testBit i <;> rfl

theorem inv_trunc (w dw x : Nat) (h : dw ≤ w) : (2 ^ w - 1 - x % 2 ^ w) % 2 ^ dw = 2 ^ dw - 1 - x % 2 ^ dw := by
  apply Nat.eq_of_testBit_eq
  intro i
  simp only [inv_testBit, Nat.testBit_mod_two_pow]
  by_cases h1 : i < dw
  · have : i < w := by omega
    simp [h1, this]
  · simp [h1]

/-- `~(a & c)` -/
theorem gate_nand_aig (w x y : Nat) :
    2 ^ w - 1 - ((x &&& y) % 2 ^ w) % 2 ^ w = 2 ^ w - 1 - (x &&& y) % 2 ^ w := by
  rw [Nat.mod_mod]

theorem upd_ne (e : Env) (k v x : Nat) (h : x ≠ k) : upd e k v x = e x := by simp [upd, h]
theorem upd_eq (e : Env) (k v : Nat) : upd e k v k = v := by simp [upd]

theorem nand_sound : RuleSound nandRule BitPre where
  comb := fun b n g h => by
    unfold nandRule at h
    split at h <;> simp_all [Op.isComb]
  ops := fun b n g t h m hm => by
    unfold nandRule at h
    split at h
    all_goals first
      | (simp only [Option.some.injEq] at h; subst h; simp only [wNet, List.mem_cons, List.not_mem_nil, or_false] at hm
         rcases hm with rfl | rfl | rfl | rfl | rfl <;> rfl)
      | (simp only [Option.some.injEq] at h; subst h; simp only [wNet, List.mem_cons, List.not_mem_nil, or_false] at hm
         rcases hm with rfl | rfl | rfl | rfl <;> rfl)
      | (simp only [Option.some.injEq] at h; subst h; simp only [wNet, List.mem_cons, List.not_mem_nil, or_false] at hm
         rcases hm with rfl | rfl | rfl <;> rfl)
      | simp at h
  sound := fun b b' n g t st e' hg hext hold hpre ht hw => by
    have hd := hold.2
    have hdw : b'.width (n.dests.headD 0) = b.width (n.dests.headD 0) := by
      have := hext.wire _ hd
      simp only [Net.dest] at this
      simp only [Block.width, this]
    unfold nandRule at hg
    split at hg
    · rename_i a c hop hargs
      simp only [Option.some.injEq] at hg
      subst hg
      have ha : a < b.wires.size := hold.1 a (by simp [hargs])
      have hc : c < b.wires.size := hold.1 c (by simp [hargs])
      have hw0 := hw 0 (by simp)
      have hw1 := hw 1 (by simp)
      simp only [List.getD_cons_zero, List.getD_cons_succ, Nat.add_zero] at hw0 hw1
      have hle := hpre a c hargs (by simp [hop])
      constructor
      · intro w hwo hwd
        simp only [Net.dest] at hwd
        simp (disch := omega) only [evalSeq, wNet, Net.dest, List.headD_cons, upd_ne]
      · simp (disch := omega) only [evalSeq, wNet, Net.dest, List.headD_cons, netFun, List.map_cons, List.map_nil,
          List.zip_cons_cons, List.zip_nil_right, Spec.comb, upd_eq, hop, hargs, hw0, hw1, hdw]
        rw [gate_and]
        exact mod_mod_le _ _ _ hle
    · rename_i a c hop hargs
      simp only [Option.some.injEq] at hg
      subst hg
      have ha : a < b.wires.size := hold.1 a (by simp [hargs])
      have hc : c < b.wires.size := hold.1 c (by simp [hargs])
      have hw0 := hw 0 (by simp)
      have hw1 := hw 1 (by simp)
      have hw2 := hw 2 (by simp)
      simp only [List.getD_cons_zero, List.getD_cons_succ, Nat.add_zero] at hw0 hw1 hw2
      have hle := hpre a c hargs (by simp [hop])
      constructor
      · intro w hwo hwd
        simp only [Net.dest] at hwd
        simp (disch := omega) only [evalSeq, wNet, Net.dest, List.headD_cons, upd_ne]
      · simp (disch := omega) only [evalSeq, wNet, Net.dest, List.headD_cons, netFun, List.map_cons, List.map_nil,
          List.zip_cons_cons, List.zip_nil_right, Spec.comb, upd_eq, upd_ne, hop, hargs, hw0, hw1, hw2, hdw]
        rw [gate_or_nand]
        exact mod_mod_le _ _ _ hle
    · rename_i a c hop hargs
      simp only [Option.some.injEq] at hg
      subst hg
      have ha : a < b.wires.size := hold.1 a (by simp [hargs])
      have hc : c < b.wires.size := hold.1 c (by simp [hargs])
      have hw0 := hw 0 (by simp)
      have hw1 := hw 1 (by simp)
      have hw2 := hw 2 (by simp)
      have hw3 := hw 3 (by simp)
      simp only [List.getD_cons_zero, List.getD_cons_succ, Nat.add_zero] at hw0 hw1 hw2 hw3
      have hle := hpre a c hargs (by simp [hop])
      constructor
      · intro w hwo hwd
        simp only [Net.dest] at hwd
        simp (disch := omega) only [evalSeq, wNet, Net.dest, List.headD_cons, upd_ne]
      · simp (disch := omega) only [evalSeq, wNet, Net.dest, List.headD_cons, netFun, List.map_cons, List.map_nil,
          List.zip_cons_cons, List.zip_nil_right, Spec.comb, upd_eq, upd_ne, hop, hargs, hw0, hw1, hw2, hw3, hdw]
        rw [gate_xor_nand]
        exact mod_mod_le _ _ _ hle
    · simp at hg

theorem aig_sound : RuleSound aigRule BitPre where
  comb := fun b n g h => by
    unfold aigRule at h
    split at h <;> simp_all [Op.isComb]
  ops := fun b n g t h m hm => by
    unfold aigRule at h
    split at h
    all_goals first
      | (simp only [Option.some.injEq] at h; subst h; simp only [wNet, List.mem_cons, List.not_mem_nil, or_false] at hm
         rcases hm with rfl | rfl | rfl | rfl | rfl | rfl | rfl | rfl <;> rfl)
      | (simp only [Option.some.injEq] at h; subst h; simp only [wNet, List.mem_cons, List.not_mem_nil, or_false] at hm
         rcases hm with rfl | rfl | rfl | rfl | rfl <;> rfl)
      | (simp only [Option.some.injEq] at h; subst h; simp only [wNet, List.mem_cons, List.not_mem_nil, or_false] at hm
         rcases hm with rfl | rfl | rfl <;> rfl)
      | simp at h
  sound := fun b b' n g t st e' hg hext hold hpre ht hw => by
    have hd := hold.2
    have hdw : b'.width (n.dests.headD 0) = b.width (n.dests.headD 0) := by
      have := hext.wire _ hd
      simp only [Net.dest] at this
      simp only [Block.width, this]
    unfold aigRule at hg
    split at hg
    · rename_i a c hop hargs
      simp only [Option.some.injEq] at hg
      subst hg
      have ha : a < b.wires.size := hold.1 a (by simp [hargs])
      have hc : c < b.wires.size := hold.1 c (by simp [hargs])
      have hw0 := hw 0 (by simp)
      have hw1 := hw 1 (by simp)
      have hw2 := hw 2 (by simp)
      have hw3 := hw 3 (by simp)
      simp only [List.getD_cons_zero, List.getD_cons_succ, Nat.add_zero] at hw0 hw1 hw2 hw3
      have hle := hpre a c hargs (by simp [hop])
      constructor
      · intro w hwo hwd
        simp only [Net.dest] at hwd
        simp (disch := omega) only [evalSeq, wNet, Net.dest, List.headD_cons, upd_ne]
      · simp (disch := omega) only [evalSeq, wNet, Net.dest, List.headD_cons, netFun, List.map_cons, List.map_nil,
          List.zip_cons_cons, List.zip_nil_right, Spec.comb, upd_eq, upd_ne, hop, hargs, hw0, hw1, hw2, hw3, hdw]
        rw [gate_or_aig]
        exact mod_mod_le _ _ _ hle
    · rename_i a c hop hargs
      simp only [Option.some.injEq] at hg
      subst hg
      have ha : a < b.wires.size := hold.1 a (by simp [hargs])
      have hc : c < b.wires.size := hold.1 c (by simp [hargs])
      have hw0 := hw 0 (by simp)
      have hw1 := hw 1 (by simp)
      have hw2 := hw 2 (by simp)
      have hw3 := hw 3 (by simp)
      have hw4 := hw 4 (by simp)
      have hw5 := hw 5 (by simp)
      have hw6 := hw 6 (by simp)
      simp only [List.getD_cons_zero, List.getD_cons_succ, Nat.add_zero] at hw0 hw1 hw2 hw3 hw4 hw5 hw6
      have hle := hpre a c hargs (by simp [hop])
      constructor
      · intro w hwo hwd
        simp only [Net.dest] at hwd
        simp (disch := omega) only [evalSeq, wNet, Net.dest, List.headD_cons, upd_ne]
      · simp (disch := omega) only [evalSeq, wNet, Net.dest, List.headD_cons, netFun, List.map_cons, List.map_nil,
          List.zip_cons_cons, List.zip_nil_right, Spec.comb, upd_eq, upd_ne, hop, hargs, hw0, hw1, hw2, hw3, hw4, hw5, hw6, hdw]
        rw [gate_xor_aig]
        exact mod_mod_le _ _ _ hle
    · rename_i a c hop hargs
      simp only [Option.some.injEq] at hg
      subst hg
      have ha : a < b.wires.size := hold.1 a (by simp [hargs])
      have hc : c < b.wires.size := hold.1 c (by simp [hargs])
      have hw0 := hw 0 (by simp)
      have hw1 := hw 1 (by simp)
      simp only [List.getD_cons_zero, List.getD_cons_succ, Nat.add_zero] at hw0 hw1
      have hle := hpre a c hargs (by simp [hop])
      constructor
      · intro w hwo hwd
        simp only [Net.dest] at hwd
        simp (disch := omega) only [evalSeq, wNet, Net.dest, List.headD_cons, upd_ne]
      · simp (disch := omega) only [evalSeq, wNet, Net.dest, List.headD_cons, netFun, List.map_cons, List.map_nil,
          List.zip_cons_cons, List.zip_nil_right, Spec.comb, upd_eq, hop, hargs, hw0, hw1, hdw]
        rw [Nat.mod_mod]
        exact inv_trunc _ _ _ hle
    · simp at hg

end Pyrtl.LowerNet
