import Model.Pass.LowerNet
import Proofs.Lemmas.Rewrite
/-!
# Whole-netlist refinement for the net-rewriting passes

Generic part: if every gadget recomputes the value of the net it replaces (from *any* valuation, touching only
its destination and fresh wires), then the lowered schedule of the lowered block yields, cycle after cycle and
for every input history, the values of the original block on all original wires and the same architectural state.
-/
namespace Pyrtl.LowerNet
open Pyrtl Pyrtl.Rewrite

/-! ### schedules -/

/-- every net of `ns` replaced by `ex n`: valuations that agree off `F` keep agreeing off `F` -/
theorem flatMap_preserves (f f' : Net → List Nat → Nat) (F : Nat → Prop) (ex : Net → List Net)
    (ns : List Net)
    (hargs : ∀ n ∈ ns, ∀ a ∈ n.args, ¬ F a)
    (hg : ∀ n ∈ ns, ∀ e' : Env, (∀ w, ¬ F w → w ≠ n.dest → evalSeq f' (ex n) e' w = e' w) ∧
                      evalSeq f' (ex n) e' n.dest = f n (n.args.map e'))
    (e1 e2 : Env) (h : ∀ w, ¬ F w → e1 w = e2 w) :
    ∀ w, ¬ F w → evalSeq f' (ns.flatMap ex) e1 w = evalSeq f ns e2 w := by
  induction ns generalizing e1 e2 with
  | nil => simpa [evalSeq] using h
  | cons n ns ih =>
    rw [List.flatMap_cons, evalSeq_append]
    simp only [evalSeq]
    apply ih (fun m hm => hargs m (by simp [hm])) (fun m hm => hg m (by simp [hm]))
    intro w hw
    obtain ⟨h1, h2⟩ := hg n (by simp) e1
    by_cases hwd : w = n.dest
    · subst hwd
      rw [h2]
      have : n.args.map e1 = n.args.map e2 :=
        List.map_congr_left (fun a ha => h a (hargs n (by simp) a ha))
      simp [upd, this]
    · rw [h1 w hw hwd]
      simp [upd, hwd, h w hw]

/-! ### blocks -/

/-- `b'` extends `b`: same wires below `b.wires.size`, same memories -/
structure Extends (b b' : Block) : Prop where
  wire : ∀ i, i < b.wires.size → b'.wire i = b.wire i
  mems : b'.mems = b.mems

/-- all wires a net mentions are wires of `b` -/
def NetOld (b : Block) (n : Net) : Prop :=
  (∀ a ∈ n.args, a < b.wires.size) ∧ n.dest < b.wires.size

theorem netFun_extends (b b' : Block) (h : Extends b b') (st : State) (n : Net) (hn : NetOld b n)
    (vals : List Nat) : netFun b' st n vals = netFun b st n vals := by
  have hw : ∀ i, i < b.wires.size → b'.width i = b.width i := fun i hi => by
    simp only [Block.width, h.wire i hi]
  have hargs : n.args.map b'.width = n.args.map b.width :=
    List.map_congr_left (fun a ha => hw a (hn.1 a ha))
  have hmem : ∀ m a, memRead b' st m a = memRead b st m a := by
    intro m a
    simp only [memRead, Block.mem?, h.mems]
  simp only [netFun, hw n.dest hn.2, hargs, hmem]

theorem baseEnv_extends (b b' : Block) (h : Extends b b') (st : State) (inp : Env) (w : Nat)
    (hw : w < b.wires.size) : baseEnv b' st inp w = baseEnv b st inp w := by
  simp only [baseEnv, Block.kind, h.wire w hw]

theorem applyWrites_congr (e1 e2 : Env) (ns : List Net) (mm : Nat → Nat → Nat)
    (h : ∀ n ∈ ns, ∀ a ∈ n.args, e1 a = e2 a) : applyWrites e1 ns mm = applyWrites e2 ns mm := by
  induction ns generalizing mm with
  | nil => rfl
  | cons n ns ih =>
    have ihn := fun mm => ih mm (fun m hm => h m (by simp [hm]))
    simp only [applyWrites]
    split
    · rename_i m a d en hop hargs
      have ha : e1 a = e2 a := h n (by simp) a (by simp [hargs])
      have hd : e1 d = e2 d := h n (by simp) d (by simp [hargs])
      have hen : e1 en = e2 en := h n (by simp) en (by simp [hargs])
      rw [ha, hd, hen]
      exact ihn _
    · exact ihn _

/-- what the step theorem needs to know about the lowered block and schedule -/
structure StepHyp (b b' : Block) (order order' : List Net) (ex : Net → List Net) : Prop where
  ext : Extends b b'
  ord : order' = order.flatMap ex
  old : ∀ n ∈ order, NetOld b n
  regs : ∀ r, regNetOf b' r = regNetOf b r
  regOld : ∀ r n, regNetOf b r = some n → r < b.wires.size ∧ ∀ a ∈ n.args, a < b.wires.size
  writes : writeNets b' = writeNets b
  writeOld : ∀ n ∈ writeNets b, ∀ a ∈ n.args, a < b.wires.size
  gadget : ∀ st : State, ∀ n ∈ order, ∀ e' : Env,
    (∀ w, w < b.wires.size → w ≠ n.dest → evalSeq (netFun b' st) (ex n) e' w = e' w) ∧
    evalSeq (netFun b' st) (ex n) e' n.dest = netFun b st n (n.args.map e')

/-- **one cycle**: same values on all original wires, same next state -/
theorem step_preserves (b b' : Block) (order order' : List Net) (ex : Net → List Net)
    (H : StepHyp b b' order order' ex) (st : State) (inp : Env) :
    (∀ w, w < b.wires.size → (step b' order' st inp).1 w = (step b order st inp).1 w) ∧
    (step b' order' st inp).2 = (step b order st inp).2 := by
  have henv : ∀ w, w < b.wires.size →
      evalNets b' st order' (baseEnv b' st inp) w = evalNets b st order (baseEnv b st inp) w := by
    intro w hw
    rw [H.ord]
    apply flatMap_preserves (netFun b st) (netFun b' st) (fun w => ¬ w < b.wires.size) ex order
    · intro n hn a ha; simpa using (H.old n hn).1 a ha
    · intro n hn e'
      obtain ⟨h1, h2⟩ := H.gadget st n hn e'
      exact ⟨fun w hw hwd => h1 w (by simpa using hw) hwd, h2⟩
    · intro w hw
      exact baseEnv_extends b b' H.ext st inp w (by simpa using hw)
    · simpa using hw
  refine ⟨henv, ?_⟩
  simp only [step]
  congr 1
  · funext r
    simp only [nextRegs, H.regs r]
    cases hreg : regNetOf b r with
    | none => rfl
    | some n =>
      obtain ⟨hr, ha⟩ := H.regOld r n hreg
      have hwr : b'.width r = b.width r := by simp only [Block.width, H.ext.wire r hr]
      simp only [hwr]
      cases hargs : n.args with
      | nil =>
        -- no argument: `headD 0` reads wire 0 in both
        simp only [List.headD_nil]
        by_cases h0 : 0 < b.wires.size
        · rw [henv 0 h0]
        · -- an empty block has no register net
          exact absurd hr (by omega)
      | cons a rest =>
        simp only [List.headD_cons]
        rw [henv a (ha a (by simp [hargs]))]
  · rw [H.writes]
    apply applyWrites_congr
    intro n hn a ha
    exact henv a (H.writeOld n hn a ha)

/-- two traces agree, cycle by cycle, on the wires below `size` -/
def AgreeRuns (size : Nat) : List Env → List Env → Prop
  | [], [] => True
  | e' :: r', e :: r => (∀ w, w < size → e' w = e w) ∧ AgreeRuns size r' r
  | _, _ => False

/-- **every cycle of every run** -/
theorem run_preserves (b b' : Block) (order order' : List Net) (ex : Net → List Net)
    (H : StepHyp b b' order order' ex) (inps : List Env) (st : State) :
    AgreeRuns b.wires.size (run b' order' st inps) (run b order st inps) := by
  induction inps generalizing st with
  | nil => simp [run, AgreeRuns]
  | cons inp rest ih =>
    obtain ⟨h1, h2⟩ := step_preserves b b' order order' ex H st inp
    simp only [run, AgreeRuns]
    refine ⟨h1, ?_⟩
    rw [h2]
    exact ih _

/-! ### the concrete lowered block -/

/-- what a rule has to guarantee (proved per pass): it rewrites only combinational nets into combinational nets,
    and each gadget recomputes the replaced net's value from any valuation -/
structure RuleSound (r : Rule) (Pre : Block → Net → Prop) : Prop where
  comb : ∀ b n g, r b n = some g → n.op.isComb = true
  ops : ∀ b n g t, r b n = some g → ∀ m ∈ g.nets t, m.op.isComb = true
  sound : ∀ (b b' : Block) (n : Net) (g : Gadget) (t : Nat) (st : State) (e' : Env),
    r b n = some g → Extends b b' → NetOld b n → Pre b n → b.wires.size ≤ t →
    (∀ j, j < g.tmps.length → b'.width (t + j) = g.tmps.getD j 0) →
    (∀ w, w < b.wires.size → w ≠ n.dest → evalSeq (netFun b' st) (g.nets t) e' w = e' w) ∧
    evalSeq (netFun b' st) (g.nets t) e' n.dest = netFun b st n (n.args.map e')

/-- well-formedness the passes rely on: nets mention wires of the block, every wire has at most one
    combinational driver, and the pass's precondition on each net -/
structure WF (Pre : Block → Net → Prop) (b : Block) : Prop where
  old : ∀ n ∈ b.nets, NetOld b n
  drv : ∀ n ∈ b.nets, n.op.isComb = true → driverOf b n.dest = some n
  pre : ∀ n ∈ b.nets, Pre b n

theorem le_foldr_max (l : List Nat) (x : Nat) (h : x ∈ l) : x ≤ l.foldr max 0 := by
  induction l with
  | nil => simp at h
  | cons y ys ih =>
    simp only [List.foldr_cons]
    rcases List.mem_cons.mp h with rfl | h'
    · exact Nat.le_max_left _ _
    · exact Nat.le_trans (ih h') (Nat.le_max_right _ _)

theorem tmps_lt_stride (r : Rule) (b : Block) (n : Net) (g : Gadget) (hn : n ∈ b.nets) (hg : r b n = some g) :
    g.tmps.length < stride r b := by
  have : tmpsLen r b n ≤ (b.nets.map (tmpsLen r b)).foldr max 0 :=
    le_foldr_max _ _ (List.mem_map.mpr ⟨n, hn, rfl⟩)
  simp only [tmpsLen, hg] at this
  simp only [stride]
  omega

theorem lower_extends (r : Rule) (b : Block) : Extends b (lowerBlock r b) := by
  refine ⟨fun i hi => ?_, rfl⟩
  simp [Block.wire, lowerBlock, Array.getD, hi, Array.getElem_append_left, Nat.lt_add_right]

theorem lower_tmp_width (r : Rule) (b : Block) (d j : Nat) (hd : d < b.wires.size) (hj : j < stride r b) :
    (lowerBlock r b).width (base r b d + j) = tmpWidth r b d j := by
  have hS : 0 < stride r b := by simp [stride]
  have hk : stride r b * d + j < (tmpWires r b).length := by
    simp only [tmpWires, List.length_map, List.length_range]
    calc stride r b * d + j < stride r b * d + stride r b := by omega
      _ = stride r b * (d + 1) := by rw [Nat.mul_add, Nat.mul_one]
      _ ≤ stride r b * b.wires.size := Nat.mul_le_mul_left _ hd
  have hdiv : (stride r b * d + j) / stride r b = d := by
    rw [Nat.mul_add_div hS, Nat.div_eq_of_lt hj]; simp
  have hmod : (stride r b * d + j) % stride r b = j := by
    rw [Nat.mul_add_mod, Nat.mod_eq_of_lt hj]
  have hidx : base r b d + j = b.wires.size + (stride r b * d + j) := by simp [base]; omega
  simp only [Block.width, Block.wire, lowerBlock, hidx]
  have hk' : stride r b * d + j < stride r b * b.wires.size := by
    simpa [tmpWires] using hk
  simp [Array.getD, hk', Array.getElem_append_right, tmpWires, hdiv, hmod]

theorem find_flatMap (p : Net → Bool) (ex : Net → List Net) (ns : List Net)
    (h : ∀ n ∈ ns, ex n = [n] ∨ (p n = false ∧ ∀ m ∈ ex n, p m = false)) :
    (ns.flatMap ex).find? p = ns.find? p := by
  induction ns with
  | nil => rfl
  | cons n ns ih =>
    have ihn := ih (fun m hm => h m (by simp [hm]))
    rw [List.flatMap_cons, List.find?_append]
    rcases h n (by simp) with hk | ⟨hp, hall⟩
    · rw [hk]
      simp only [List.find?_cons]
      cases hpn : p n with
      | true => simp
      | false => simp [ihn]
    · have hnone : (ex n).find? p = none := List.find?_eq_none.mpr (fun m hm => by simp [hall m hm])
      rw [hnone, List.find?_cons, hp]
      simpa using ihn

theorem filter_flatMap (p : Net → Bool) (ex : Net → List Net) (ns : List Net)
    (h : ∀ n ∈ ns, ex n = [n] ∨ (p n = false ∧ ∀ m ∈ ex n, p m = false)) :
    (ns.flatMap ex).filter p = ns.filter p := by
  induction ns with
  | nil => rfl
  | cons n ns ih =>
    have ihn := ih (fun m hm => h m (by simp [hm]))
    rw [List.flatMap_cons, List.filter_append, ihn]
    rcases h n (by simp) with hk | ⟨hp, hall⟩
    · rw [hk]
      cases hpn : p n <;> simp [List.filter_cons, hpn]
    · have hnil : (ex n).filter p = [] := List.filter_eq_nil_iff.mpr (fun m hm => by simp [hall m hm])
      rw [hnil, List.filter_cons, hp]
      simp

theorem isComb_not_reg (m : Net) (h : m.op.isComb = true) (r : Nat) :
    (m.op == .reg && m.dests == [r]) = false := by
  cases hop : m.op <;> simp_all [Op.isComb]

theorem isComb_not_write (m : Net) (h : m.op.isComb = true) :
    (match m.op with | .mwrite _ => true | _ => false) = false := by
  cases hop : m.op <;> simp_all [Op.isComb]

theorem expand_cases (r : Rule) (Pre : Block → Net → Prop) (hr : RuleSound r Pre) (b : Block) (p : Net → Bool)
    (hp : ∀ m : Net, m.op.isComb = true → p m = false) (n : Net) :
    expand r b n = [n] ∨ (p n = false ∧ ∀ m ∈ expand r b n, p m = false) := by
  simp only [expand]
  cases hg : r b n with
  | none => exact Or.inl rfl
  | some g =>
    refine Or.inr ⟨hp n (hr.comb b n g hg), fun m hm => hp m (hr.ops b n g _ hg m hm)⟩

/-- the lowered block and the lowered schedule satisfy everything the step theorem needs -/
theorem lower_stepHyp (r : Rule) (Pre : Block → Net → Prop) (hr : RuleSound r Pre) (b : Block) (hwf : WF Pre b)
    (order : List Net) (hord : ∀ n ∈ order, n ∈ b.nets) :
    StepHyp b (lowerBlock r b) order (lowerOrder r b order) (expand r b) where
  ext := lower_extends r b
  ord := rfl
  old := fun n hn => hwf.old n (hord n hn)
  regs := fun r' => by
    simp only [regNetOf, lowerBlock]
    exact find_flatMap _ _ _ (fun n _ => expand_cases r Pre hr b _ (fun m hm => isComb_not_reg m hm r') n)
  regOld := fun r' n h => by
    have hmem : n ∈ b.nets := List.mem_of_find?_eq_some h
    have hp := List.find?_some h
    simp only [Bool.and_eq_true, beq_iff_eq] at hp
    have hd : n.dest = r' := by simp [Net.dest, hp.2]
    obtain ⟨ha, hdo⟩ := hwf.old n hmem
    exact ⟨hd ▸ hdo, ha⟩
  writes := by
    simp only [writeNets, lowerBlock]
    exact filter_flatMap _ _ _ (fun n _ => expand_cases r Pre hr b _ (fun m hm => isComb_not_write m hm) n)
  writeOld := fun n hn => (hwf.old n (List.mem_filter.mp hn).1).1
  gadget := fun st n hn e' => by
    have hnb := hord n hn
    simp only [expand]
    cases hg : r b n with
    | none =>
      simp only [evalSeq]
      refine ⟨fun w _ hwd => by simp [upd, hwd], ?_⟩
      simp only [upd, ↓reduceIte]
      exact netFun_extends b _ (lower_extends r b) st n (hwf.old n hnb) _
    | some g =>
      have hcomb := hr.comb b n g hg
      have hold := hwf.old n hnb
      apply hr.sound b (lowerBlock r b) n g (base r b n.dest) st e' hg (lower_extends r b) hold
        (hwf.pre n hnb) (by simp [base])
      intro j hj
      have hjS : j < stride r b := Nat.lt_trans hj (tmps_lt_stride r b n g hnb hg)
      rw [lower_tmp_width r b n.dest j hold.2 hjS]
      simp only [tmpWidth, hwf.drv n hnb hcomb, hg]

/-- **the pass preserves every run**: for a sound rule, a well-formed block, any schedule of its nets, any
    initial state and any input history, the lowered block under the lowered schedule shows on every original
    wire (in particular on every Output), in every cycle, the value the original block shows. -/
theorem lower_run_preserves (r : Rule) (Pre : Block → Net → Prop) (hr : RuleSound r Pre) (b : Block)
    (hwf : WF Pre b) (order : List Net) (hord : ∀ n ∈ order, n ∈ b.nets) (st : State) (inps : List Env) :
    AgreeRuns b.wires.size (run (lowerBlock r b) (lowerOrder r b order) st inps) (run b order st inps) :=
  run_preserves b _ order _ _ (lower_stepHyp r Pre hr b hwf order hord) inps st

end Pyrtl.LowerNet
