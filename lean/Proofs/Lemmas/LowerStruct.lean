import Proofs.Lemmas.LowerGates
import Mathlib.Data.Nat.ModEq
import Mathlib.Tactic.Ring
/-!
# `two_way_concat` and `one_bit_selects` are sound on whole netlists
-/
namespace Pyrtl.LowerNet
open Pyrtl

/-! ### two-way concat -/

/-- one link of the chain: widths add, the value is the two-operand concat at the natural width -/
def catStep (acc q : Nat × Nat) : Nat × Nat := (acc.1 + q.1, Spec.comb .concat [acc, q] (acc.1 + q.1))

theorem catStep_val (acc q : Nat × Nat) : (catStep acc q).2 = (acc.2 * 2 ^ q.1 + q.2) % 2 ^ (acc.1 + q.1) := by
  simp [catStep, Spec.comb, Spec.concatVal]

/-- the chain carries the n-operand concat modulo its width, whatever the operand values are -/
theorem chain_modEq (l : List (Nat × Nat)) (acc : Nat × Nat) (y : Nat)
    (h : acc.2 ≡ y [MOD 2 ^ acc.1]) :
    (l.foldl catStep acc).1 = acc.1 + (l.map (·.1)).sum ∧
    (l.foldl catStep acc).2 ≡ Spec.concatVal l y [MOD 2 ^ (acc.1 + (l.map (·.1)).sum)] := by
  induction l generalizing acc y with
  | nil => simpa [Spec.concatVal] using h
  | cons q rest ih =>
    have hstep : (catStep acc q).2 ≡ y * 2 ^ q.1 + q.2 [MOD 2 ^ (catStep acc q).1] := by
      rw [catStep_val]
      show _ ≡ _ [MOD 2 ^ (acc.1 + q.1)]
      have h1 : acc.2 * 2 ^ q.1 ≡ y * 2 ^ q.1 [MOD 2 ^ acc.1 * 2 ^ q.1] := Nat.ModEq.mul_right' _ h
      rw [← Nat.pow_add] at h1
      exact (Nat.mod_modEq _ _).trans (Nat.ModEq.add_right _ h1)
    obtain ⟨i1, i2⟩ := ih (catStep acc q) (y * 2 ^ q.1 + q.2) hstep
    simp only [List.foldl_cons, List.map_cons, List.sum_cons, Spec.concatVal]
    have hw : (catStep acc q).1 = acc.1 + q.1 := rfl
    rw [hw] at i1 i2
    rw [← Nat.add_assoc]
    exact ⟨i1, i2⟩

theorem width_ext (b b' : Block) (hext : Extends b b') (a : Nat) (ha : a < b.wires.size) :
    b'.width a = b.width a := by simp only [Block.width, hext.wire a ha]

/-- evaluating the chain: earlier wires are untouched and the last temporary holds the folded value -/
theorem chain_eval (b b' : Block) (st : State) (t : Nat) (hext : Extends b b') (ht : b.wires.size ≤ t)
    (rest : List Nat) (k : Nat) (e : Env)
    (hold : ∀ a ∈ rest, a < b.wires.size)
    (hw : ∀ j, j < rest.length → b'.width (t + k + 1 + j) = (catWidths b rest (b'.width (t + k))).getD j 0) :
    (∀ w, w ≤ t + k → evalSeq (netFun b' st) (catChain t rest k) e w = e w) ∧
    (b'.width (t + k + rest.length), evalSeq (netFun b' st) (catChain t rest k) e (t + k + rest.length))
      = (rest.map (fun a => (b.width a, e a))).foldl catStep (b'.width (t + k), e (t + k)) := by
  induction rest generalizing k e with
  | nil => simp [catChain, evalSeq]
  | cons a rest ih =>
    have ha : a < b.wires.size := hold a (by simp)
    have hwa : b'.width a = b.width a := width_ext b b' hext a ha
    have hw0 : b'.width (t + k + 1) = b'.width (t + k) + b.width a := by
      have := hw 0 (by simp)
      simpa [catWidths] using this
    have hw' : ∀ j, j < rest.length →
        b'.width (t + (k + 1) + 1 + j) = (catWidths b rest (b'.width (t + (k + 1)))).getD j 0 := by
      intro j hj
      have := hw (j + 1) (by simp; omega)
      have e1 : t + (k + 1) + 1 + j = t + k + 1 + (j + 1) := by omega
      have e2 : t + (k + 1) = t + k + 1 := by omega
      rw [e1, e2, hw0, this]
      simp [catWidths]
    simp only [catChain, evalSeq, Net.dest, List.headD_cons]
    obtain ⟨i1, i2⟩ := ih (k + 1) (upd e (t + k + 1) (netFun b' st ⟨.concat, [t + k, a], [t + k + 1]⟩
      (List.map e [t + k, a]))) (fun x hx => hold x (by simp [hx])) hw'
    constructor
    · intro w hwle
      have e2 : t + (k + 1) = t + k + 1 := by omega
      rw [e2] at i1
      rw [i1 w (by omega), upd_ne _ _ _ _ (by omega)]
    · have e3 : t + k + (a :: rest).length = t + (k + 1) + rest.length := by simp; omega
      rw [e3, i2]
      have e2 : t + (k + 1) = t + k + 1 := by omega
      rw [e2, upd_eq]
      have hmap : rest.map (fun x => (b.width x, upd e (t + k + 1) (netFun b' st ⟨.concat, [t + k, a], [t + k + 1]⟩
          (List.map e [t + k, a])) x)) = rest.map (fun x => (b.width x, e x)) := by
        apply List.map_congr_left
        intro x hx
        have : x < b.wires.size := hold x (by simp [hx])
        rw [upd_ne _ _ _ _ (by omega)]
      rw [hmap]
      simp only [List.map_cons, List.foldl_cons]
      congr 1
      simp only [catStep, netFun, Net.dest, List.headD_cons, List.map_cons, List.map_nil, List.zip_cons_cons,
        List.zip_nil_right, hw0, hwa]

/-- precondition of `two_way_concat` / `one_bit_selects` on a net (`sanity_check_net`): the destination of a
    concat is not wider than its operands together, that of a select not wider than its index tuple -/
def StructPre (b : Block) (n : Net) : Prop :=
  (n.op = .concat → b.width n.dest ≤ (n.args.map b.width).sum) ∧
  (∀ idx, n.op = .select idx → b.width n.dest ≤ idx.length)

theorem modEq_trunc (x y W dw : Nat) (h : x ≡ y [MOD 2 ^ W]) (hle : dw ≤ W) : x % 2 ^ dw = y % 2 ^ dw :=
  Nat.ModEq.of_dvd (Nat.pow_dvd_pow 2 hle) h

theorem catChain_op (t : Nat) (rest : List Nat) (k : Nat) : ∀ m ∈ catChain t rest k, m.op = .concat := by
  induction rest generalizing k with
  | nil => simp [catChain]
  | cons a rest ih =>
    intro m hm
    simp only [catChain, List.mem_cons] at hm
    rcases hm with rfl | hm
    · rfl
    · exact ih _ m hm

theorem catWidths_length (b : Block) (l : List Nat) (acc : Nat) : (catWidths b l acc).length = l.length := by
  induction l generalizing acc with
  | nil => rfl
  | cons a rest ih => simp [catWidths, ih]

theorem twoWay_sound : RuleSound twoWayRule StructPre where
  comb := fun b n g h => by
    unfold twoWayRule at h
    split at h <;> simp_all [Op.isComb]
  ops := fun b n g t h m hm => by
    unfold twoWayRule at h
    split at h
    · simp only [Option.some.injEq] at h
      subst h
      simp only [List.mem_cons, List.mem_append, List.not_mem_nil, or_false] at hm
      rcases hm with (rfl | hm) | rfl
      · rfl
      · rw [catChain_op _ _ _ m hm]; rfl
      · rfl
    · simp at h
  sound := fun b b' n g t st e' hg hext hold hpre ht hw => by
    have hd := hold.2
    have hdw : b'.width (n.dests.headD 0) = b.width (n.dests.headD 0) := by
      have := hext.wire _ hd
      simp only [Net.dest] at this
      simp only [Block.width, this]
    unfold twoWayRule at hg
    split at hg
    · rename_i a0 a1 a2 rest hop hargs
      simp only [Option.some.injEq] at hg
      subst hg
      have h0 : a0 < b.wires.size := hold.1 a0 (by simp [hargs])
      have h1 : a1 < b.wires.size := hold.1 a1 (by simp [hargs])
      have hrest : ∀ a ∈ a2 :: rest, a < b.wires.size := fun a ha => hold.1 a (by
        simp only [hargs, List.mem_cons] at ha ⊢
        tauto)
      have hwt : b'.width t = b.width a0 + b.width a1 := by
        have := hw 0 (by simp)
        simpa using this
      -- the valuation after the first net
      let v0 := netFun b' st ⟨.concat, [a0, a1], [t]⟩ (List.map e' [a0, a1])
      have hv0 : (b'.width t, v0) = catStep (b.width a0, e' a0) (b.width a1, e' a1) := by
        simp only [v0, catStep, netFun, Net.dest, List.headD_cons, List.map_cons, List.map_nil,
          List.zip_cons_cons, List.zip_nil_right, hwt, width_ext b b' hext a0 h0, width_ext b b' hext a1 h1]
      have hchain := chain_eval b b' st t hext ht (a2 :: rest) 0 (upd e' t v0) hrest (by
        intro j hj
        have := hw (j + 1) (by simp [catWidths_length] at hj ⊢; omega)
        simp only [List.getD_cons_succ] at this
        have e1 : t + 0 + 1 + j = t + (j + 1) := by omega
        rw [e1, this, Nat.add_zero, hwt])
      obtain ⟨c1, c2⟩ := hchain
      simp only [Nat.add_zero, upd_eq] at c1 c2
      have hmap : (a2 :: rest).map (fun x => (b.width x, upd e' t v0 x)) = (a2 :: rest).map (fun x => (b.width x, e' x)) := by
        apply List.map_congr_left
        intro x hx
        have := hrest x hx
        rw [upd_ne _ _ _ _ (by omega)]
      rw [hmap, hv0] at c2
      have hlen : t + (a2 :: rest).length = t + (rest.length + 1) := by simp
      rw [hlen] at c2
      constructor
      · intro w hwo hwd
        simp only [Net.dest] at hwd
        simp only [evalSeq, List.cons_append]
        rw [Rewrite.evalSeq_append]
        simp only [evalSeq, wNet, Net.dest, List.headD_cons]
        rw [upd_ne _ _ _ _ hwd, c1 w (by omega), upd_ne _ _ _ _ (by omega)]
      · simp only [evalSeq, List.cons_append]
        rw [Rewrite.evalSeq_append]
        simp only [evalSeq, wNet, Net.dest, List.headD_cons, upd_eq, List.map_cons, List.map_nil]
        change netFun b' st _ [evalSeq (netFun b' st) (catChain t (a2 :: rest) 0) (upd e' t v0)
          (t + (rest.length + 1))] = _
        -- value and width of the last temporary
        have hfold := chain_modEq (((a1 :: a2 :: rest).map fun x => (b.width x, e' x))) (b.width a0, e' a0) (e' a0)
          (Nat.ModEq.refl _)
        simp only [List.map_cons, List.foldl_cons] at hfold c2
        obtain ⟨f1, f2⟩ := hfold
        have hW := congrArg Prod.fst c2
        have hX := congrArg Prod.snd c2
        simp only at hW hX
        have hsum : b.width (n.dests.headD 0) ≤
            b.width a0 + (b.width a1 + (b.width a2 + (List.map (fun x => b.width x) rest).sum)) := by
          have := hpre.1 hop
          simpa [hargs, Net.dest] using this
        rw [hX]
        simp only [netFun, List.map_cons, List.map_nil, List.zip_cons_cons, List.zip_nil_right, Spec.comb,
          hop, hargs, Net.dest, List.headD_cons, hdw]
        simp only [List.map_map, Function.comp_def, List.map_cons, List.sum_cons] at f1 f2
        have hcv : Spec.concatVal ((b.width a0, e' a0) :: (b.width a1, e' a1) :: (b.width a2, e' a2) ::
            (List.map b.width rest).zip (List.map e' rest)) 0
            = Spec.concatVal ((b.width a1, e' a1) :: (b.width a2, e' a2) :: rest.map (fun x => (b.width x, e' x))) (e' a0) := by
          simp [Spec.concatVal, List.zip_map']
        rw [hcv]
        refine modEq_trunc _ _ _ _ f2 ?_
        simpa [List.map_map, Function.comp_def] using hsum
    · simp at hg

/-! ### one-bit selects -/

theorem bitNets_op (t a : Nat) (idx : List Nat) (k : Nat) : ∀ m ∈ bitNets t a idx k, m.op.isComb = true := by
  induction idx generalizing k with
  | nil => simp [bitNets]
  | cons i rest ih =>
    intro m hm
    simp only [bitNets, List.mem_cons] at hm
    rcases hm with rfl | hm
    · rfl
    · exact ih _ m hm

theorem mem_bitTmps (t : Nat) (idx : List Nat) (k x : Nat) (h : x ∈ bitTmps t idx k) :
    ∃ j, k ≤ j ∧ j < k + idx.length ∧ x = t + j := by
  induction idx generalizing k with
  | nil => simp [bitTmps] at h
  | cons i rest ih =>
    simp only [bitTmps, List.mem_cons] at h
    rcases h with rfl | h
    · exact ⟨k, Nat.le_refl _, by simp, rfl⟩
    · obtain ⟨j, h1, h2, h3⟩ := ih (k + 1) h
      exact ⟨j, by omega, by simp; omega, h3⟩

/-- the value of a one-bit select net (the operand width plays no role) -/
def selBit (i v : Nat) : Nat := Spec.comb (.select [i]) [(0, v)] 1

/-- evaluating the one-bit selects: earlier wires are untouched, temporary `k` holds bit `idx[k]` of the operand -/
theorem bits_eval (b' : Block) (st : State) (t a : Nat) (hat : a < t) (idx : List Nat) (k : Nat) (e : Env)
    (hw : ∀ x ∈ bitTmps t idx k, b'.width x = 1) :
    (∀ w, w < t + k → evalSeq (netFun b' st) (bitNets t a idx k) e w = e w) ∧
    (bitTmps t idx k).map (evalSeq (netFun b' st) (bitNets t a idx k) e) = idx.map (fun i => selBit i (e a)) := by
  induction idx generalizing k e with
  | nil => simp [bitNets, bitTmps, evalSeq]
  | cons i rest ih =>
    have hwk : b'.width (t + k) = 1 := hw (t + k) (by simp [bitTmps])
    simp only [bitNets, bitTmps, evalSeq, Net.dest, List.headD_cons, List.map_cons, List.map_nil]
    obtain ⟨i1, i2⟩ := ih (k + 1) (upd e (t + k) (netFun b' st ⟨.select [i], [a], [t + k]⟩ [e a]))
      (fun x hx => hw x (by simp [bitTmps, hx]))
    constructor
    · intro w hwlt
      rw [i1 w (by omega), upd_ne _ _ _ _ (by omega)]
    · rw [i2, i1 (t + k) (by omega), upd_eq, upd_ne _ _ _ _ (by omega)]
      congr 1
      simp [netFun, Net.dest, selBit, Spec.comb, hwk]

theorem selectVal_single' (i a : Nat) : Spec.selectVal [i] a % 2 ^ 1 = Spec.bit a i := by
  simp only [Spec.selectVal, Spec.bit]
  omega

theorem concat_bits' (idx : List Nat) (a acc : Nat) :
    Spec.concatVal (idx.map fun i => (1, Spec.bit a i)) acc
      = acc * 2 ^ idx.length + Spec.selectVal idx.reverse a := by
  induction idx generalizing acc with
  | nil => simp [Spec.concatVal, Spec.selectVal]
  | cons i rest ih =>
    simp only [List.map_cons, Spec.concatVal, ih, List.length_cons, List.reverse_cons]
    have hsel : ∀ (l : List Nat) (j : Nat), Spec.selectVal (l ++ [j]) a
        = Spec.selectVal l a + 2 ^ l.length * Spec.bit a j := by
      intro l j
      induction l with
      | nil => simp [Spec.selectVal]
      | cons x xs ihx =>
        simp only [List.cons_append, Spec.selectVal, ihx, List.length_cons, Nat.pow_succ]
        rw [Nat.mul_add, Nat.mul_comm (2 ^ xs.length) 2, Nat.mul_assoc]
        omega
    rw [hsel, List.length_reverse]
    ring

/-- the concat of the one-bit selects (most significant first) is the select -/
theorem concat_selBits (idx : List Nat) (a : Nat) :
    Spec.comb .concat (idx.reverse.map fun i => (1, selBit i a)) idx.length
      = Spec.selectVal idx a % 2 ^ idx.length := by
  simp only [Spec.comb, selBit, selectVal_single']
  have := concat_bits' idx.reverse a 0
  simp only [List.reverse_reverse, Nat.zero_mul, Nat.zero_add] at this
  rw [this]

theorem bitTmps_map_const (t : Nat) (idx : List Nat) (k c : Nat) (f : Nat → Nat)
    (h : ∀ x ∈ bitTmps t idx k, f x = c) : (bitTmps t idx k).map f = idx.map (fun _ => c) := by
  induction idx generalizing k with
  | nil => simp [bitTmps]
  | cons i rest ih =>
    simp only [bitTmps, List.map_cons]
    rw [h (t + k) (by simp [bitTmps]), ih (k + 1) (fun x hx => h x (by simp [bitTmps, hx]))]

theorem oneBit_sound : RuleSound oneBitRule StructPre where
  comb := fun b n g h => by
    unfold oneBitRule at h
    split at h <;> simp_all [Op.isComb]
  ops := fun b n g t h m hm => by
    unfold oneBitRule at h
    split at h
    · simp only [Option.some.injEq] at h
      subst h
      simp only [wNet, List.mem_cons, List.not_mem_nil, or_false] at hm
      rcases hm with rfl | rfl <;> rfl
    · simp only [Option.some.injEq] at h
      subst h
      simp only [List.mem_cons, List.mem_append, List.not_mem_nil, or_false] at hm
      rcases hm with hm | rfl | rfl
      · exact bitNets_op _ _ _ _ m hm
      · rfl
      · rfl
    · simp at h
  sound := fun b b' n g t st e' hg hext hold hpre ht hw => by
    have hd := hold.2
    have hdw : b'.width (n.dests.headD 0) = b.width (n.dests.headD 0) := by
      have := hext.wire _ hd
      simp only [Net.dest] at this
      simp only [Block.width, this]
    unfold oneBitRule at hg
    split at hg
    · rename_i i a hop hargs
      simp only [Option.some.injEq] at hg
      subst hg
      have ha : a < b.wires.size := hold.1 a (by simp [hargs])
      have hw0 := hw 0 (by simp)
      simp only [List.getD_cons_zero, Nat.add_zero] at hw0
      have hle : b.width (n.dests.headD 0) ≤ 1 := by
        have := hpre.2 [i] hop
        simpa [Net.dest] using this
      constructor
      · intro w hwo hwd
        simp only [Net.dest] at hwd
        simp (disch := omega) only [evalSeq, wNet, Net.dest, List.headD_cons, upd_ne]
      · simp (disch := omega) only [evalSeq, wNet, Net.dest, List.headD_cons, netFun, List.map_cons, List.map_nil,
          List.zip_cons_cons, List.zip_nil_right, Spec.comb, upd_eq, hop, hargs, hw0, hdw]
        exact mod_mod_le _ _ _ hle
    · rename_i i j idx a hop hargs
      simp only [Option.some.injEq] at hg
      subst hg
      have ha : a < b.wires.size := hold.1 a (by simp [hargs])
      have hle : b.width (n.dests.headD 0) ≤ idx.length + 2 := by
        have := hpre.2 (i :: j :: idx) hop
        simpa [Net.dest] using this
      have hw1 : ∀ x ∈ bitTmps t (i :: j :: idx) 0, b'.width x = 1 := by
        intro x hx
        obtain ⟨q, _, hq, rfl⟩ := mem_bitTmps t _ 0 x hx
        simp only [List.length_cons, Nat.zero_add] at hq
        have := hw q (by simp; omega)
        rw [this]
        simp [List.getD_eq_getElem?_getD, List.getElem?_append_left, hq, List.getElem?_replicate]
      have hwm : b'.width (t + (idx.length + 2)) = idx.length + 2 := by
        have := hw (idx.length + 2) (by simp)
        rw [this]
        simp [List.getD_eq_getElem?_getD, List.getElem?_append_right]
      obtain ⟨b1, b2⟩ := bits_eval b' st t a (by omega) (i :: j :: idx) 0 e' hw1
      constructor
      · intro w hwo hwd
        simp only [Net.dest] at hwd
        rw [Rewrite.evalSeq_append]
        simp only [evalSeq, wNet, Net.dest, List.headD_cons]
        rw [upd_ne _ _ _ _ hwd, upd_ne _ _ _ _ (by omega), b1 w (by omega)]
      · rw [Rewrite.evalSeq_append]
        simp only [evalSeq, wNet, Net.dest, List.headD_cons, upd_eq, List.map_cons, List.map_nil]
        have hvals : (bitTmps t (i :: j :: idx) 0).reverse.map
            (evalSeq (netFun b' st) (bitNets t a (i :: j :: idx) 0) e')
            = (i :: j :: idx).reverse.map (fun i => selBit i (e' a)) := by
          rw [List.map_reverse, b2, List.map_reverse]
        have hwid : (bitTmps t (i :: j :: idx) 0).reverse.map b'.width
            = (i :: j :: idx).reverse.map (fun _ => 1) := by
          rw [List.map_reverse, bitTmps_map_const t _ 0 1 b'.width hw1, List.map_reverse]
        have hcat : netFun b' st ⟨.concat, (bitTmps t (i :: j :: idx) 0).reverse, [t + (idx.length + 2)]⟩
            ((bitTmps t (i :: j :: idx) 0).reverse.map (evalSeq (netFun b' st) (bitNets t a (i :: j :: idx) 0) e'))
            = Spec.selectVal (i :: j :: idx) (e' a) % 2 ^ (idx.length + 2) := by
          simp only [netFun, Net.dest, List.headD_cons, hvals, hwid, hwm, List.zip_map']
          have := concat_selBits (i :: j :: idx) (e' a)
          simpa using this
        rw [hcat]
        simp only [netFun, List.map_cons, List.map_nil, List.zip_cons_cons, List.zip_nil_right, Spec.comb,
          hop, hargs, Net.dest, List.headD_cons, hdw]
        exact mod_mod_le _ _ _ hle
    · simp at hg

/-! ### the executable well-formedness check implies the hypotheses of the theorems -/

theorem wfB_bit (b : Block) (h : wfB bitPreB b = true) : WF BitPre b := by
  simp only [wfB, List.all_eq_true, Bool.and_eq_true] at h
  refine ⟨fun n hn => ?_, fun n hn hc => ?_, fun n hn => ?_⟩
  · obtain ⟨⟨h1, _⟩, _⟩ := h n hn
    simp only [netOldB, Bool.and_eq_true, List.all_eq_true, decide_eq_true_eq] at h1
    exact ⟨h1.1, h1.2⟩
  · obtain ⟨⟨_, h2⟩, _⟩ := h n hn
    simp only [drvB, hc, Bool.not_true, Bool.false_or, beq_iff_eq] at h2
    exact h2
  · obtain ⟨_, h3⟩ := h n hn
    intro a c hargs hop
    rcases hop with hop | hop | hop | hop <;> simpa [bitPreB, hargs, hop] using h3

theorem wfB_struct (b : Block) (h : wfB structPreB b = true) : WF StructPre b := by
  simp only [wfB, List.all_eq_true, Bool.and_eq_true] at h
  refine ⟨fun n hn => ?_, fun n hn hc => ?_, fun n hn => ?_⟩
  · obtain ⟨⟨h1, _⟩, _⟩ := h n hn
    simp only [netOldB, Bool.and_eq_true, List.all_eq_true, decide_eq_true_eq] at h1
    exact ⟨h1.1, h1.2⟩
  · obtain ⟨⟨_, h2⟩, _⟩ := h n hn
    simp only [drvB, hc, Bool.not_true, Bool.false_or, beq_iff_eq] at h2
    exact h2
  · obtain ⟨_, h3⟩ := h n hn
    constructor
    · intro hop
      simpa [structPreB, hop] using h3
    · intro idx hop
      simpa [structPreB, hop] using h3

end Pyrtl.LowerNet
