import Proofs.Lemmas.LowerStruct
/-!
# The lowered schedule is a dependency order of the lowered block
-/
namespace Pyrtl.LowerNet
open Pyrtl

/-- a dependency order may be built in two parts -/
theorem topo_append (all : List Net) (l1 l2 : List Net) (done : List Nat)
    (h1 : Topo all l1 done) (h2 : Topo all l2 ((l1.map Net.dest).reverse ++ done)) : Topo all (l1 ++ l2) done := by
  induction l1 generalizing done with
  | nil => simpa using h2
  | cons m ms ih =>
    obtain ⟨ha, hd, hrest⟩ := h1
    refine ⟨ha, hd, ih (m.dest :: done) hrest ?_⟩
    simpa [List.map_cons, List.reverse_cons, List.append_assoc] using h2

/-- more wires done never hurts the argument condition; here: the body of a gadget -/
theorem body_topo (all' : List Net) (nargs : List Nat) (t : Nat) :
    ∀ (body : List Net) (i : Nat) (done : List Nat), bodyOk nargs t body i = true →
      (∀ a ∈ nargs, a ∈ done ∨ ∀ m ∈ all', m.dest ≠ a) →
      (∀ j, i ≤ j → j < i + body.length → t + j ∉ done) →
      (∀ j, j < i → t + j ∈ done) →
      Topo all' body done := by
  intro body
  induction body with
  | nil => intro _ _ _ _ _ _; trivial
  | cons m ms ih =>
    intro i done hok hargs hfresh hprev
    simp only [bodyOk, Bool.and_eq_true, beq_iff_eq, List.all_eq_true, Bool.or_eq_true, List.contains_eq_mem,
      decide_eq_true_eq] at hok
    obtain ⟨⟨⟨hd, _⟩, hma⟩, hrest⟩ := hok
    have hdest : m.dest = t + i := by simp [Net.dest, hd]
    refine ⟨?_, ?_, ?_⟩
    · intro a ha
      rcases hma a ha with hin | ⟨h1, h2⟩
      · exact hargs a hin
      · left
        have : a = t + (a - t) := by omega
        rw [this]
        exact hprev (a - t) (by omega)
    · rw [hdest]
      exact hfresh i (Nat.le_refl _) (by simp)
    · apply ih (i + 1) (m.dest :: done) hrest
      · intro a ha
        rcases hargs a ha with h | h
        · exact Or.inl (List.mem_cons_of_mem _ h)
        · exact Or.inr h
      · intro j hj1 hj2
        simp only [List.mem_cons, not_or]
        refine ⟨by rw [hdest]; omega, hfresh j (by omega) (by simp; omega)⟩
      · intro j hj
        rw [hdest]
        by_cases hji : j = i
        · subst hji; exact List.mem_cons_self
        · exact List.mem_cons_of_mem _ (hprev j (by omega))

/-- destinations of the body nets -/
theorem body_dests (nargs : List Nat) (t : Nat) :
    ∀ (body : List Net) (i : Nat), bodyOk nargs t body i = true →
      ∀ x, x ∈ body.map Net.dest ↔ (t + i ≤ x ∧ x < t + i + body.length) := by
  intro body
  induction body with
  | nil => intro i _ x; simp
  | cons m ms ih =>
    intro i hok x
    simp only [bodyOk, Bool.and_eq_true, beq_iff_eq] at hok
    obtain ⟨⟨⟨hd, _⟩, _⟩, hrest⟩ := hok
    have hdest : m.dest = t + i := by simp [Net.dest, hd]
    simp only [List.map_cons, List.mem_cons, List.length_cons, ih (i + 1) hrest x, hdest]
    omega

theorem gadgetShape_spec (n : Net) (t k : Nat) (nets : List Net) (h : gadgetShape n t k nets = true) :
    ∃ body last, nets = body ++ [last] ∧ last.dest = n.dest ∧
      (∀ a ∈ last.args, a ∈ n.args ∨ (t ≤ a ∧ a < t + k)) ∧ body.length = k ∧ bodyOk n.args t body 0 = true := by
  unfold gadgetShape at h
  split at h
  · rename_i last revbody hrev
    simp only [Bool.and_eq_true, beq_iff_eq, List.all_eq_true, Bool.or_eq_true, List.contains_eq_mem,
      decide_eq_true_eq, List.length_reverse] at h
    obtain ⟨⟨⟨⟨_, hd⟩, ha⟩, hl⟩, hb⟩ := h
    refine ⟨revbody.reverse, last, ?_, by simp [Net.dest, hd], ha, by simpa using hl, hb⟩
    have := congrArg List.reverse hrev
    simpa using this
  · simp at h

/-- a gadget of the right shape can be scheduled as a block: its temporaries are fresh, the arguments of the replaced net
    are available -/
theorem gadget_topo (all' : List Net) (n : Net) (t k : Nat) (nets : List Net) (done : List Nat)
    (hs : gadgetShape n t k nets = true)
    (hargs : ∀ a ∈ n.args, a ∈ done ∨ ∀ m ∈ all', m.dest ≠ a)
    (hfresh : ∀ j, j < k → t + j ∉ done) (hdest : n.dest ∉ done) (hnd : ∀ j, j < k → n.dest ≠ t + j) :
    Topo all' nets done ∧
    (∀ x, x ∈ nets.map Net.dest ↔ (x = n.dest ∨ (t ≤ x ∧ x < t + k))) := by
  obtain ⟨body, last, rfl, hld, hla, hlen, hb⟩ := gadgetShape_spec n t k nets hs
  have hbd := body_dests n.args t body 0 hb
  constructor
  · apply topo_append
    · exact body_topo all' n.args t body 0 done hb hargs (fun j _ hj => hfresh j (by simpa [hlen] using hj))
        (fun j hj => by omega)
    · refine ⟨?_, ?_, trivial⟩
      · intro a ha
        rcases hla a ha with hin | ⟨h1, h2⟩
        · rcases hargs a hin with h | h
          · exact Or.inl (List.mem_append_right _ h)
          · exact Or.inr h
        · left
          apply List.mem_append_left
          rw [List.mem_reverse, hbd a]
          omega
      · rw [hld]
        intro hmem
        rcases List.mem_append.mp hmem with h | h
        · rw [List.mem_reverse, hbd n.dest] at h
          exact hnd (n.dest - t) (by omega) (by omega)
        · exact hdest h
  · intro x
    simp only [List.map_append, List.map_cons, List.map_nil, List.mem_append, List.mem_singleton, hbd x, hld]
    omega

theorem gadget_dests (n : Net) (t k : Nat) (nets : List Net) (hs : gadgetShape n t k nets = true) :
    ∀ x, x ∈ nets.map Net.dest ↔ (x = n.dest ∨ (t ≤ x ∧ x < t + k)) := by
  obtain ⟨body, last, rfl, hld, _, hlen, hb⟩ := gadgetShape_spec n t k nets hs
  have hbd := body_dests n.args t body 0 hb
  intro x
  simp only [List.map_append, List.map_cons, List.map_nil, List.mem_append, List.mem_singleton, hbd x, hld]
  omega

/-- every gadget a rule produces has the shape above -/
def RuleShape (r : Rule) : Prop :=
  ∀ b n g t, r b n = some g → gadgetShape n t g.tmps.length (g.nets t) = true

/-- what is known about the wires done so far in the lowered schedule -/
structure TInv (b : Block) (S : Nat) (done done' : List Nat) : Prop where
  sub : ∀ d ∈ done, d ∈ done'
  sup : ∀ x ∈ done', x ∈ done ∨ ∃ d ∈ done, b.wires.size + S * d ≤ x ∧ x < b.wires.size + S * d + S
  old : ∀ d ∈ done, d < b.wires.size

theorem range_unique (S d d' j x : Nat) (hj : j < S) (h1 : S * d ≤ S * d' + j) (h2 : S * d' + j < S * d + S) : d = d' := by
  rcases Nat.lt_trichotomy d d' with hlt | heq | hgt
  · exfalso
    have : S * (d + 1) ≤ S * d' := Nat.mul_le_mul_left S hlt
    rw [Nat.mul_add, Nat.mul_one] at this
    omega
  · exact heq
  · exfalso
    have : S * (d' + 1) ≤ S * d := Nat.mul_le_mul_left S hgt
    rw [Nat.mul_add, Nat.mul_one] at this
    omega

theorem lower_topo_aux (r : Rule) (hshape : RuleShape r) (b : Block) (order : List Net)
    (hmem : ∀ n ∈ order, n ∈ b.nets) (hold : ∀ n ∈ order, NetOld b n) :
    ∀ (ns : List Net) (done done' : List Nat), (∀ n ∈ ns, n ∈ order) → Topo order ns done →
      TInv b (stride r b) done done' →
      Topo (order.flatMap (expand r b)) (ns.flatMap (expand r b)) done' := by
  have hS : 0 < stride r b := by simp [stride]
  -- a wire of the block that no original net drives is driven by no lowered net either
  have hundriven : ∀ a, a < b.wires.size → (∀ m ∈ order, m.dest ≠ a) →
      ∀ m' ∈ order.flatMap (expand r b), m'.dest ≠ a := by
    intro a ha hno m' hm'
    obtain ⟨n, hn, hmn⟩ := List.mem_flatMap.mp hm'
    simp only [expand] at hmn
    cases hg : r b n with
    | none =>
      rw [hg] at hmn
      simp only [List.mem_cons, List.not_mem_nil, or_false] at hmn
      subst hmn
      exact hno _ hn
    | some g =>
      rw [hg] at hmn
      have hd := (gadget_dests n (base r b n.dest) g.tmps.length _ (hshape b n g _ hg) m'.dest).mp
        (List.mem_map.mpr ⟨m', hmn, rfl⟩)
      rcases hd with h | ⟨h1, _⟩
      · rw [h]; exact hno n hn
      · simp only [base] at h1
        omega
  intro ns
  induction ns with
  | nil => intro _ _ _ _ _; trivial
  | cons n ns ih =>
    intro done done' hsub htopo hinv
    obtain ⟨hargsT, hnd, hrest⟩ := htopo
    have hnin := hsub n (by simp)
    obtain ⟨holdA, holdD⟩ := hold n hnin
    have hargs' : ∀ a ∈ n.args, a ∈ done' ∨ ∀ m ∈ order.flatMap (expand r b), m.dest ≠ a := by
      intro a ha
      rcases hargsT a ha with h | h
      · exact Or.inl (hinv.sub a h)
      · exact Or.inr (hundriven a (holdA a ha) h)
    have hdest' : n.dest ∉ done' := by
      intro hmem'
      rcases hinv.sup _ hmem' with h | ⟨d, _, h1, _⟩
      · exact hnd h
      · omega
    rw [List.flatMap_cons]
    simp only [expand]
    cases hg : r b n with
    | none =>
      simp only [List.cons_append, List.nil_append]
      refine ⟨hargs', hdest', ?_⟩
      apply ih (n.dest :: done) (n.dest :: done') (fun m hm => hsub m (by simp [hm])) hrest
      refine ⟨?_, ?_, ?_⟩
      · intro d hd
        rcases List.mem_cons.mp hd with rfl | hd'
        · simp
        · exact List.mem_cons_of_mem _ (hinv.sub d hd')
      · intro x hx
        rcases List.mem_cons.mp hx with rfl | hx'
        · exact Or.inl (by simp)
        · rcases hinv.sup x hx' with h | ⟨d, hd, h1, h2⟩
          · exact Or.inl (List.mem_cons_of_mem _ h)
          · exact Or.inr ⟨d, List.mem_cons_of_mem _ hd, h1, h2⟩
      · intro d hd
        rcases List.mem_cons.mp hd with rfl | hd'
        · exact holdD
        · exact hinv.old d hd'
    | some g =>
      have hk : g.tmps.length < stride r b := tmps_lt_stride r b n g (hmem n hnin) hg
      have hsh := hshape b n g (base r b n.dest) hg
      have hfresh : ∀ j, j < g.tmps.length → base r b n.dest + j ∉ done' := by
        intro j hj hmem'
        rcases hinv.sup _ hmem' with h | ⟨d, hd, h1, h2⟩
        · have := hinv.old _ h
          simp only [base] at this
          omega
        · simp only [base] at h1 h2
          have : d = n.dest := range_unique (stride r b) d n.dest j 0 (by omega) (by omega) (by omega)
          exact hnd (this ▸ hd)
      have hnd' : ∀ j, j < g.tmps.length → n.dest ≠ base r b n.dest + j := by
        intro j _
        simp only [base]
        omega
      obtain ⟨htg, hdests⟩ := gadget_topo (order.flatMap (expand r b)) n (base r b n.dest) g.tmps.length _ done'
        hsh hargs' hfresh hdest' hnd'
      apply topo_append _ _ _ _ htg
      apply ih (n.dest :: done) _ (fun m hm => hsub m (by simp [hm])) hrest
      refine ⟨?_, ?_, ?_⟩
      · intro d hd
        apply List.mem_append.mpr
        rcases List.mem_cons.mp hd with rfl | hd'
        · left
          rw [List.mem_reverse, hdests]
          exact Or.inl rfl
        · exact Or.inr (hinv.sub d hd')
      · intro x hx
        rcases List.mem_append.mp hx with hx1 | hx2
        · rw [List.mem_reverse, hdests] at hx1
          rcases hx1 with rfl | ⟨h1, h2⟩
          · exact Or.inl (by simp)
          · refine Or.inr ⟨n.dest, by simp, ?_, ?_⟩
            · simpa [base] using h1
            · simp only [base] at h2; omega
        · rcases hinv.sup x hx2 with h | ⟨d, hd, h1, h2⟩
          · exact Or.inl (List.mem_cons_of_mem _ h)
          · exact Or.inr ⟨d, List.mem_cons_of_mem _ hd, h1, h2⟩
      · intro d hd
        rcases List.mem_cons.mp hd with rfl | hd'
        · exact holdD
        · exact hinv.old d hd'

/-- **the lowered schedule is a dependency order of its own nets** -/
theorem lowerOrder_topo (r : Rule) (hshape : RuleShape r) (b : Block) (order : List Net)
    (hmem : ∀ n ∈ order, n ∈ b.nets) (hold : ∀ n ∈ order, NetOld b n) (hto : Topo order order []) :
    Topo (lowerOrder r b order) (lowerOrder r b order) [] :=
  lower_topo_aux r hshape b order hmem hold order [] [] (fun _ h => h) hto
    ⟨fun _ h => by simp at h, fun _ h => by simp at h, fun _ h => by simp at h⟩

theorem nand_shape : RuleShape nandRule := by
  intro b n g t hg
  unfold nandRule at hg
  split at hg
  all_goals first
    | (rename_i a c hop hargs
       simp only [Option.some.injEq] at hg
       subst hg
       simp [gadgetShape, bodyOk, wNet, Net.dest, hargs, Op.isComb])
    | simp at hg

theorem aig_shape : RuleShape aigRule := by
  intro b n g t hg
  unfold aigRule at hg
  split at hg
  all_goals first
    | (rename_i a c hop hargs
       simp only [Option.some.injEq] at hg
       subst hg
       simp [gadgetShape, bodyOk, wNet, Net.dest, hargs, Op.isComb])
    | simp at hg

theorem bodyOk_append (nargs : List Nat) (t : Nat) (l1 l2 : List Net) (i : Nat) :
    bodyOk nargs t (l1 ++ l2) i = (bodyOk nargs t l1 i && bodyOk nargs t l2 (i + l1.length)) := by
  induction l1 generalizing i with
  | nil => simp [bodyOk]
  | cons m ms ih =>
    simp only [List.cons_append, bodyOk, ih (i + 1), List.length_cons, Bool.and_assoc]
    have : i + 1 + ms.length = i + (ms.length + 1) := by omega
    rw [this]

theorem chain_bodyOk (nargs : List Nat) (t : Nat) (l : List Nat) (j : Nat) (h : ∀ a ∈ l, a ∈ nargs) :
    bodyOk nargs t (catChain t l j) (j + 1) = true := by
  induction l generalizing j with
  | nil => simp [catChain, bodyOk]
  | cons a rest ih =>
    simp only [catChain, bodyOk, Bool.and_eq_true, beq_iff_eq, List.all_eq_true, Bool.or_eq_true,
      List.contains_eq_mem, decide_eq_true_eq]
    refine ⟨⟨⟨by simp [Nat.add_assoc], rfl⟩, ?_⟩, ih (j + 1) (fun x hx => h x (by simp [hx]))⟩
    intro x hx
    simp only [List.mem_cons, List.not_mem_nil, or_false] at hx
    rcases hx with rfl | rfl
    · right; omega
    · left; exact h _ (by simp)

theorem catChain_length (t : Nat) (l : List Nat) (j : Nat) : (catChain t l j).length = l.length := by
  induction l generalizing j with
  | nil => rfl
  | cons a rest ih => simp [catChain, ih]

theorem twoWay_shape : RuleShape twoWayRule := by
  intro b n g t hg
  unfold twoWayRule at hg
  split at hg
  · rename_i a0 a1 a2 rest hop hargs
    simp only [Option.some.injEq] at hg
    subst hg
    have hchain := chain_bodyOk n.args t (a2 :: rest) 0 (fun x hx => by
      simp only [hargs, List.mem_cons] at hx ⊢
      tauto)
    simp only [gadgetShape, List.reverse_append, List.reverse_cons, List.reverse_nil, List.nil_append,
      List.singleton_append, List.cons_append, List.length_cons, catWidths_length]
    simp only [List.reverse_append, List.reverse_reverse, List.reverse_cons, List.reverse_nil, List.nil_append,
      List.length_append, List.length_reverse, catChain_length, List.length_cons, List.length_nil]
    rw [hargs] at hchain
    simp only [Nat.zero_add] at hchain
    simp [bodyOk, wNet, Net.dest, hargs, Op.isComb, hchain]
  · simp at hg

theorem gadgetShape_intro (n : Net) (t k : Nat) (body : List Net) (last : Net)
    (hop : last.op = .w) (hld : last.dests = [n.dest])
    (hla : ∀ a ∈ last.args, a ∈ n.args ∨ (t ≤ a ∧ a < t + k))
    (hlen : body.length = k) (hb : bodyOk n.args t body 0 = true) :
    gadgetShape n t k (body ++ [last]) = true := by
  simp only [gadgetShape, List.reverse_append, List.reverse_cons, List.reverse_nil, List.nil_append,
    List.singleton_append, List.reverse_reverse, List.length_reverse, Bool.and_eq_true, beq_iff_eq,
    List.all_eq_true, Bool.or_eq_true, List.contains_eq_mem, decide_eq_true_eq]
  exact ⟨⟨⟨⟨hop, hld⟩, hla⟩, hlen⟩, hb⟩

theorem bitNets_bodyOk (nargs : List Nat) (t a : Nat) (ha : a ∈ nargs) (idx : List Nat) (j : Nat) :
    bodyOk nargs t (bitNets t a idx j) j = true := by
  induction idx generalizing j with
  | nil => simp [bitNets, bodyOk]
  | cons i rest ih =>
    simp only [bitNets, bodyOk, Bool.and_eq_true]
    exact ⟨⟨⟨by simp, rfl⟩, by simp [ha]⟩, ih (j + 1)⟩

theorem bitNets_length (t a : Nat) (idx : List Nat) (j : Nat) : (bitNets t a idx j).length = idx.length := by
  induction idx generalizing j with
  | nil => rfl
  | cons i rest ih => simp [bitNets, ih]

theorem oneBit_shape : RuleShape oneBitRule := by
  intro b n g t hg
  unfold oneBitRule at hg
  split at hg
  · rename_i i a hop hargs
    simp only [Option.some.injEq] at hg
    subst hg
    simp [gadgetShape, bodyOk, wNet, Net.dest, hargs, Op.isComb]
  · rename_i i j idx a hop hargs
    simp only [Option.some.injEq] at hg
    subst hg
    have ha : a ∈ n.args := by simp [hargs]
    have hbits := bitNets_bodyOk n.args t a ha (i :: j :: idx) 0
    have hcat : ∀ x ∈ (bitTmps t (i :: j :: idx) 0).reverse, t ≤ x ∧ x < t + (idx.length + 2) := by
      intro x hx
      obtain ⟨q, _, hq, rfl⟩ := mem_bitTmps t _ 0 x (List.mem_reverse.mp hx)
      simp only [List.length_cons, Nat.zero_add] at hq
      omega
    have hsplit : bitNets t a (i :: j :: idx) 0 ++
        [⟨.concat, (bitTmps t (i :: j :: idx) 0).reverse, [t + (idx.length + 2)]⟩, wNet (t + (idx.length + 2)) n.dest]
        = (bitNets t a (i :: j :: idx) 0 ++ [⟨.concat, (bitTmps t (i :: j :: idx) 0).reverse, [t + (idx.length + 2)]⟩])
          ++ [wNet (t + (idx.length + 2)) n.dest] := by simp
    show gadgetShape n t (List.replicate (idx.length + 2) 1 ++ [idx.length + 2]).length
      (bitNets t a (i :: j :: idx) 0 ++
        [⟨.concat, (bitTmps t (i :: j :: idx) 0).reverse, [t + (idx.length + 2)]⟩, wNet (t + (idx.length + 2)) n.dest]) = true
    rw [hsplit]
    apply gadgetShape_intro
    · rfl
    · rfl
    · intro x hx
      simp only [wNet, List.mem_cons, List.not_mem_nil, or_false] at hx
      subst hx
      right
      simp
    · simp [bitNets_length]
    · rw [bodyOk_append, hbits, Bool.true_and, bitNets_length]
      simp only [bodyOk, Bool.and_true, Bool.and_eq_true, beq_iff_eq, List.all_eq_true, Bool.or_eq_true,
        List.contains_eq_mem, decide_eq_true_eq, List.length_cons, Nat.zero_add]
      refine ⟨⟨trivial, rfl⟩, ?_⟩
      intro x hx
      right
      have := hcat x hx
      omega
  · simp at hg

/-! ### any dependency order of the lowered block -/

/-- two dependency orders of the same nets give the same run -/
theorem run_any_topo_order (b : Block) (o1 o2 : List Net) (hp : ∀ n, n ∈ o1 ↔ n ∈ o2)
    (h1 : Topo o1 o1 []) (h2 : Topo o2 o2 []) (inps : List Env) (st : State) :
    run b o1 st inps = run b o2 st inps := by
  induction inps generalizing st with
  | nil => rfl
  | cons inp rest ih =>
    have henv : evalNets b st o1 (baseEnv b st inp) = evalNets b st o2 (baseEnv b st inp) :=
      funext (eval_any_topo_order (netFun b st) o1 o2 _ hp h1 h2)
    simp only [run, step, henv, ih]

/-- **the pass preserves every run under ANY dependency order of the lowered nets** (the order a simulator of the
    lowered block picks), not only under the lowered schedule -/
theorem lower_run_preserves_any_order (r : Rule) (Pre : Block → Net → Prop) (hr : RuleSound r Pre)
    (hshape : RuleShape r) (b : Block) (hwf : WF Pre b) (order : List Net) (hord : ∀ n ∈ order, n ∈ b.nets)
    (hto : Topo order order [])
    (order' : List Net) (hp : ∀ n, n ∈ order' ↔ n ∈ lowerOrder r b order) (hto' : Topo order' order' [])
    (st : State) (inps : List Env) :
    AgreeRuns b.wires.size (run (lowerBlock r b) order' st inps) (run b order st inps) := by
  have hlo := lowerOrder_topo r hshape b order hord (fun n hn => hwf.old n (hord n hn)) hto
  rw [run_any_topo_order (lowerBlock r b) order' (lowerOrder r b order) hp hto' hlo]
  exact lower_run_preserves r Pre hr b hwf order hord st inps

end Pyrtl.LowerNet
