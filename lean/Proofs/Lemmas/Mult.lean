import Proofs.Lemmas.Synth
import Mathlib.Tactic.Ring
/-! Correctness of the column-compression multiplier `_basic_mult` (Wallace-style), every length. -/
namespace Pyrtl.Synth

/-- number of set bits in a column -/
def colVal : List Bool → Nat
  | [] => 0
  | b :: bs => b2n b + colVal bs

/-- value of a list of weighted columns (column `i` has weight `2^i`) -/
def colsVal : List (List Bool) → Nat
  | [] => 0
  | c :: cs => colVal c + 2 * colsVal cs

theorem colVal_append (a b : List Bool) : colVal (a ++ b) = colVal a + colVal b := by
  induction a with
  | nil => simp [colVal]
  | cons x xs ih => simp only [List.cons_append, colVal, ih]; omega

theorem colsVal_replicate (n : Nat) : colsVal (List.replicate n []) = 0 := by
  induction n with
  | zero => rfl
  | succ n ih => simp [List.replicate_succ, colsVal, colVal, ih]

theorem colPush_length (cols : List (List Bool)) (i : Nat) (x : Bool) :
    (colPush cols i x).length = cols.length := by
  simp [colPush]

theorem colPush_val (cols : List (List Bool)) (i : Nat) (x : Bool) (h : i < cols.length) :
    colsVal (colPush cols i x) = colsVal cols + 2 ^ i * b2n x := by
  induction cols generalizing i with
  | nil => simp at h
  | cons c cs ih =>
    cases i with
    | zero => simp [colPush, List.modify, colsVal, colVal_append, colVal]; omega
    | succ i =>
      have := ih i (by simpa using h)
      simp only [colPush] at this ⊢
      simp only [List.modify_succ_cons, colsVal, this, Nat.pow_succ]
      ring

/-- inner loop: `for j, b in enumerate(B): bits[i + j].append(a & b)` -/
theorem inner_val (a : Bool) (i : Nat) (B : List Bool) (k : Nat) (cols : List (List Bool))
    (h : i + k + B.length ≤ cols.length) :
    let r := (B.zipIdx k).foldl (fun cols (bj : Bool × Nat) => colPush cols (i + bj.2) (a && bj.1)) cols
    r.length = cols.length ∧ colsVal r = colsVal cols + 2 ^ (i + k) * (b2n a * toNat B) := by
  induction B generalizing k cols with
  | nil => simp [toNat]
  | cons b bs ih =>
    simp only [List.zipIdx_cons, List.foldl_cons]
    have hlen : i + k < cols.length := by simp at h; omega
    have h1 := colPush_val cols (i + k) (a && b) hlen
    have h2 := colPush_length cols (i + k) (a && b)
    have := ih (k + 1) (colPush cols (i + k) (a && b)) (by rw [h2]; simp at h; omega)
    obtain ⟨hl, hv⟩ := this
    refine ⟨by rw [hl, h2], ?_⟩
    rw [hv, h1]
    simp only [toNat]
    have hab : b2n (a && b) = b2n a * b2n b := by cases a <;> cases b <;> rfl
    rw [hab, show i + (k + 1) = (i + k) + 1 by omega, Nat.pow_succ]
    ring


/-- one row of partial products -/
def pushRow (B : List Bool) (cols : List (List Bool)) (ai : Bool × Nat) : List (List Bool) :=
  (B.zipIdx).foldl (fun cols (bj : Bool × Nat) => colPush cols (ai.2 + bj.2) (ai.1 && bj.1)) cols

theorem outer_val (A B : List Bool) (k : Nat) (cols : List (List Bool))
    (h : k + A.length + B.length ≤ cols.length + 1) (hA : A ≠ [] ∨ True) :
    let r := (A.zipIdx k).foldl (pushRow B) cols
    r.length = cols.length ∧ colsVal r = colsVal cols + 2 ^ k * (toNat A * toNat B) := by
  induction A generalizing k cols with
  | nil => simp [toNat]
  | cons a as ih =>
    simp only [List.zipIdx_cons, List.foldl_cons]
    have hin := inner_val a k B 0 cols (by simp at h ⊢; omega)
    simp only [Nat.add_zero] at hin
    obtain ⟨hl1, hv1⟩ := hin
    have := ih (k + 1) (pushRow B cols (a, k)) (by simp only [pushRow]; rw [hl1]; simp at h ⊢; omega) (Or.inr trivial)
    obtain ⟨hl2, hv2⟩ := this
    simp only [pushRow] at hl2 hv2 ⊢
    refine ⟨by rw [hl2, hl1], ?_⟩
    rw [hv2, hv1]
    simp only [toNat, Nat.pow_succ]
    ring

theorem partials_eq (A B : List Bool) :
    partials A B = (A.zipIdx).foldl (pushRow B) (List.replicate (A.length + B.length) []) := rfl

/-- the partial-product array has the value of the product -/
theorem partials_val (A B : List Bool) (hA : A ≠ []) :
    (partials A B).length = A.length + B.length ∧ colsVal (partials A B) = toNat A * toNat B := by
  have := outer_val A B 0 (List.replicate (A.length + B.length) []) (by simp) (Or.inr trivial)
  rw [partials_eq]
  simp only [List.length_replicate, colsVal_replicate, Nat.pow_zero, Nat.one_mul, Nat.zero_add] at this
  exact this


theorem half_adder_val (a b : Bool) : b2n (xor a b) + 2 * b2n (a && b) = b2n a + b2n b := by
  cases a <;> cases b <;> rfl

theorem full_adder_val (a b c : Bool) :
    b2n (xor (xor a b) c) + 2 * b2n ((a && b) || (a && c) || (b && c)) = b2n a + b2n b + b2n c := by
  cases a <;> cases b <;> cases c <;> rfl

/-- full/half adders on a column keep its count: kept bits + 2 · carries = the column -/
theorem reduceCol_val (fuel : Nat) (col : List Bool) :
    colVal (reduceCol fuel col).1 + 2 * colVal (reduceCol fuel col).2 = colVal col := by
  fun_induction reduceCol fuel col with
  | case1 fuel a b c rest keep carry hrec ih =>
    have := full_adder_val a b c
    simp only [hrec] at ih
    simp only [colVal]
    omega
  | case2 x a b =>
    have := half_adder_val a b
    simp only [colVal]
    omega
  | case3 x l h1 h2 => simp [colVal]

/-- the fold of `reducePass`, written recursively: new columns and the carry out of the last one -/
def passRec : List (List Bool) → List Bool → List (List Bool) × List Bool
  | [], cin => ([], cin)
  | col :: rest, cin =>
    let kc := reduceCol col.length col
    let r := passRec rest kc.2
    ((cin ++ kc.1) :: r.1, r.2)

theorem passRec_val (cols : List (List Bool)) (cin : List Bool) :
    colsVal (passRec cols cin).1 + 2 ^ cols.length * colVal (passRec cols cin).2
      = colVal cin + colsVal cols ∧ (passRec cols cin).1.length = cols.length := by
  induction cols generalizing cin with
  | nil => simp [passRec, colsVal]
  | cons col rest ih =>
    have h1 := reduceCol_val col.length col
    obtain ⟨h2, h3⟩ := ih (reduceCol col.length col).2
    simp only [passRec, colsVal, colVal_append, List.length_cons, Nat.pow_succ, h3]
    refine ⟨?_, trivial⟩
    have : 2 ^ rest.length * 2 * colVal (passRec rest (reduceCol col.length col).2).2
        = 2 * (2 ^ rest.length * colVal (passRec rest (reduceCol col.length col).2).2) := by ring
    rw [this]
    omega

theorem foldl_passRec (cols done : List (List Bool)) (cin : List Bool) :
    cols.foldl (fun (acc : List (List Bool) × List Bool) (col : List Bool) =>
        let (done, carryIn) := acc
        let (keep, carryOut) := reduceCol col.length col
        (done ++ [carryIn ++ keep], carryOut)) (done, cin)
      = (done ++ (passRec cols cin).1, (passRec cols cin).2) := by
  induction cols generalizing done cin with
  | nil => simp [passRec]
  | cons col rest ih =>
    simp only [List.foldl_cons, passRec]
    rw [ih]
    simp

theorem reducePass_eq (cols : List (List Bool)) : reducePass cols = (passRec cols []).1 := by
  unfold reducePass
  simp only []
  rw [foldl_passRec cols [] []]
  simp only [List.nil_append]
  rw [List.take_of_length_le (by rw [(passRec_val cols []).2])]

/-- one reduction pass keeps the length and the value modulo `2^(number of columns)` -/
theorem reducePass_val (cols : List (List Bool)) :
    (reducePass cols).length = cols.length ∧
    colsVal (reducePass cols) % 2 ^ cols.length = colsVal cols % 2 ^ cols.length := by
  rw [reducePass_eq]
  obtain ⟨hv, hl⟩ := passRec_val cols []
  refine ⟨hl, ?_⟩
  simp only [colVal, Nat.zero_add] at hv
  rw [← hv, Nat.add_mul_mod_self_left]

theorem reduceLoop_val (fuel : Nat) (cols : List (List Bool)) :
    (reduceLoop fuel cols).length = cols.length ∧
    colsVal (reduceLoop fuel cols) % 2 ^ cols.length = colsVal cols % 2 ^ cols.length := by
  induction fuel generalizing cols with
  | zero => simp [reduceLoop]
  | succ fuel ih =>
    unfold reduceLoop
    split
    · simp
    · obtain ⟨hl, hv⟩ := reducePass_val cols
      obtain ⟨hl2, hv2⟩ := ih (reducePass cols)
      rw [hl] at hl2 hv2
      exact ⟨hl2, hv2.trans hv⟩


/-- with at most two bits per column, the columns are two binary numbers -/
theorem rows_val (cols : List (List Bool)) (h : allLe2 cols = true) :
    toNat (cols.map (·.getD 0 false)) + toNat (cols.map (·.getD 1 false)) = colsVal cols := by
  induction cols with
  | nil => rfl
  | cons c cs ih =>
    simp only [allLe2, List.all_cons, Bool.and_eq_true, decide_eq_true_eq] at h
    have := ih (by simpa [allLe2] using h.2)
    simp only [List.map_cons, toNat, colsVal]
    have hc : b2n (c.getD 0 false) + b2n (c.getD 1 false) = colVal c := by
      match c, h.1 with
      | [], _ => rfl
      | [x], _ => simp [colVal, b2n]
      | [x, y], _ => simp [colVal]
    omega

theorem toNat_take (l : List Bool) (n : Nat) : toNat (l.take n) = toNat l % 2 ^ n := by
  induction l generalizing n with
  | nil => simp [toNat]
  | cons b bs ih =>
    cases n with
    | zero => simp [toNat, Nat.mod_one]
    | succ n =>
      simp only [List.take_succ_cons, toNat, ih, Nat.pow_succ]
      have hb : b2n b < 2 := by cases b <;> simp [b2n]
      have := Nat.div_add_mod (toNat bs) (2 ^ n)
      have hlt := Nat.mod_lt (toNat bs) (Nat.two_pow_pos n)
      generalize toNat bs % 2 ^ n = r at *
      generalize toNat bs / 2 ^ n = q at *
      rw [← this, Nat.mul_add, ← Nat.add_assoc, Nat.add_comm (b2n b) (2 * (2 ^ n * q)),
        Nat.add_assoc, show 2 * (2 ^ n * q) = (2 ^ n * 2) * q by ring, Nat.mul_add_mod,
        Nat.mod_eq_of_lt (by omega)]


theorem toNat_map_and (a : Bool) (B : List Bool) : toNat (B.map (a && ·)) = b2n a * toNat B := by
  induction B with
  | nil => simp [toNat]
  | cons b bs ih =>
    simp only [List.map_cons, toNat, ih]
    cases a <;> cases b <;> simp [b2n]

theorem toNat_single (A : List Bool) (h : A.length = 1) : toNat A = b2n (A.headD false) := by
  match A, h with
  | [a], _ => simp [toNat]

/-- the general (column-compression) branch: exact product, provided the reduction loop reached columns
    of height ≤ 2 within its fuel (the Python loop runs until it does) -/
theorem mult_general (A B : List Bool) (hA : A ≠ []) (fuel : Nat)
    (hdone : allLe2 (reduceLoop fuel (partials A B)) = true) :
    let cols := reduceLoop fuel (partials A B)
    toNat ((basicAdd (cols.map (·.getD 0 false)) (cols.map (·.getD 1 false))).take (A.length + B.length))
      = toNat A * toNat B := by
  intro cols
  obtain ⟨hpl, hpv⟩ := partials_val A B hA
  obtain ⟨hl, hv⟩ := reduceLoop_val fuel (partials A B)
  rw [toNat_take, basicAdd_spec _ _ (by simp), rows_val cols hdone]
  rw [hpl] at hv
  show colsVal (reduceLoop fuel (partials A B)) % 2 ^ (A.length + B.length) = _
  rw [hv, hpv]
  apply Nat.mod_eq_of_lt
  have h1 := toNat_lt A
  have h2 := toNat_lt B
  rw [Nat.pow_add]
  exact Nat.mul_lt_mul'' h1 h2


/-! ### termination of the reduction loop: column heights -/

/-- every column has at most `M` bits -/
def AllLe (M : Nat) (cols : List (List Bool)) : Prop := ∀ c ∈ cols, c.length ≤ M

theorem reduceCol_len (fuel : Nat) (col : List Bool) (h : col.length ≤ fuel) :
    (reduceCol fuel col).1.length = (col.length + 2) / 3 ∧
    (reduceCol fuel col).2.length = (col.length + 1) / 3 := by
  fun_induction reduceCol fuel col with
  | case1 fuel a b c rest keep carry hrec ih =>
    simp only [hrec] at ih
    have := ih (by simp at h; omega)
    simp only [List.length_cons] at *
    omega
  | case2 x a b => simp
  | case3 x l h2 h1 =>
    match l, h1, h2, h with
    | [], _, _, _ => simp
    | [a], _, _, _ => simp
    | [a, b], _, h2, _ => exact absurd rfl (h2 a b)
    | a :: b :: c :: rest, h1, _, h =>
      simp only [List.length_cons] at h
      obtain ⟨f, rfl⟩ : ∃ f, x = f + 1 := ⟨x - 1, by omega⟩
      exact absurd rfl (h1 f a b c rest rfl)

theorem passRec_heights (M : Nat) (cols : List (List Bool)) (cin : List Bool)
    (hc : AllLe M cols) (hcin : cin.length ≤ (M + 1) / 3) :
    AllLe ((M + 1) / 3 + (M + 2) / 3) (passRec cols cin).1 := by
  induction cols generalizing cin with
  | nil => intro c hc'; simp [passRec] at hc'
  | cons col rest ih =>
    have hcol : col.length ≤ M := hc col (by simp)
    obtain ⟨hk, hcarry⟩ := reduceCol_len col.length col (Nat.le_refl _)
    intro c hc'
    simp only [passRec, List.mem_cons] at hc'
    rcases hc' with rfl | hc'
    · simp only [List.length_append, hk]
      have : (col.length + 2) / 3 ≤ (M + 2) / 3 := Nat.div_le_div_right (by omega)
      omega
    · exact ih _ (fun c' hc'' => hc c' (by simp [hc''])) (by
        rw [hcarry]; exact Nat.div_le_div_right (by omega)) c hc'

theorem reducePass_heights (M : Nat) (cols : List (List Bool)) (hM : 3 ≤ M) (hc : AllLe M cols) :
    AllLe (M - 1) (reducePass cols) := by
  rw [reducePass_eq]
  have := passRec_heights M cols [] hc (by simp)
  intro c hc'
  have := this c hc'
  omega

theorem allLe2_of_AllLe (cols : List (List Bool)) (h : AllLe 2 cols) : allLe2 cols = true := by
  simp only [allLe2, List.all_eq_true, decide_eq_true_eq]
  exact h

theorem AllLe_mono {M N : Nat} (cols : List (List Bool)) (h : AllLe M cols) (hMN : M ≤ N) : AllLe N cols :=
  fun c hc => Nat.le_trans (h c hc) hMN

/-- the loop ends with columns of height ≤ 2 whenever its fuel is at least the tallest column -/
theorem reduceLoop_done (fuel M : Nat) (cols : List (List Bool)) (hc : AllLe M cols) (hf : M ≤ fuel) :
    allLe2 (reduceLoop fuel cols) = true := by
  induction fuel generalizing M cols with
  | zero =>
    simp only [reduceLoop]
    exact allLe2_of_AllLe cols (AllLe_mono cols hc (by omega))
  | succ fuel ih =>
    unfold reduceLoop
    split
    · assumption
    · rename_i hnot
      by_cases hM : M ≤ 2
      · exact absurd (allLe2_of_AllLe cols (AllLe_mono cols hc hM)) hnot
      · exact ih (M - 1) _ (reducePass_heights M cols (by omega) hc) (by omega)


/-- height of column `c` (0 beyond the array) -/
def H (cols : List (List Bool)) (c : Nat) : Nat := ((cols[c]?).getD []).length

theorem colPush_H (cols : List (List Bool)) (i : Nat) (x : Bool) (c : Nat) :
    H (colPush cols i x) c ≤ H cols c + (if c = i then 1 else 0) := by
  unfold H colPush
  rw [List.getElem?_modify]
  by_cases hci : i = c
  · subst hci
    cases hx : cols[i]? <;> simp [hx]
  · have : ¬ c = i := fun h => hci h.symm
    cases hx : cols[c]? <;> simp [hx, hci, this]

theorem inner_H (a : Bool) (i : Nat) (B : List Bool) (k : Nat) (cols : List (List Bool)) (c : Nat) :
    H ((B.zipIdx k).foldl (fun cols (bj : Bool × Nat) => colPush cols (i + bj.2) (a && bj.1)) cols) c
      ≤ H cols c + (if i + k ≤ c then 1 else 0) := by
  induction B generalizing k cols with
  | nil => simp
  | cons b bs ih =>
    simp only [List.zipIdx_cons, List.foldl_cons]
    have h1 := colPush_H cols (i + k) (a && b) c
    have h2 := ih (k + 1) (colPush cols (i + k) (a && b))
    split at h1 <;> split at h2 <;> split <;> omega

theorem outer_H (A B : List Bool) (k : Nat) (cols : List (List Bool)) (c : Nat) :
    H ((A.zipIdx k).foldl (pushRow B) cols) c ≤ H cols c + A.length := by
  induction A generalizing k cols with
  | nil => simp
  | cons a as ih =>
    simp only [List.zipIdx_cons, List.foldl_cons, List.length_cons]
    have h1 := inner_H a k B 0 cols c
    have h2 := ih (k + 1) (pushRow B cols (a, k))
    simp only [pushRow] at h2 ⊢
    split at h1 <;> omega

theorem partials_heights (A B : List Bool) : AllLe A.length (partials A B) := by
  intro col hcol
  obtain ⟨c, hc⟩ := List.mem_iff_getElem?.1 hcol
  have := outer_H A B 0 (List.replicate (A.length + B.length) []) c
  rw [← partials_eq] at this
  have h0 : H (List.replicate (A.length + B.length) ([] : List Bool)) c = 0 := by
    unfold H
    by_cases hlt : c < A.length + B.length
    · simp [List.getElem?_replicate, hlt]
    · simp [List.getElem?_replicate, hlt]
  have hH : H (partials A B) c = col.length := by unfold H; rw [hc]; rfl
  omega

/-- the model's fuel is always enough: the loop of `_basic_mult` ends with columns of height ≤ 2 -/
theorem mult_loop_done (A B : List Bool) :
    allLe2 (reduceLoop (4 * (A.length + B.length) + 8) (partials A B)) = true :=
  reduceLoop_done _ A.length _ (partials_heights A B) (by omega)

end Pyrtl.Synth
