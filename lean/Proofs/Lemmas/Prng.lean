import Model.Lib.Prng
import Mathlib.Data.Nat.ModEq
/-! Leap-ahead by concatenation, truncated to the register, equals `bw` single LFSR steps. -/
namespace Pyrtl.Prng

theorem fb_mod (y w : Nat) (hw : 127 ≤ w) : fb (y % 2 ^ w) = fb y := by
  unfold fb
  rw [Nat.testBit_mod_two_pow, Nat.testBit_mod_two_pow]
  have h1 : (125 < w) := by omega
  have h2 : (126 < w) := by omega
  simp [h1, h2]

theorem grow_mod (w : Nat) (hw : 127 ≤ w) (n x : Nat) :
    grow n x % 2 ^ w = iter (step1 w) n x % 2 ^ w := by
  induction n with
  | zero => rfl
  | succ n ih =>
    simp only [grow, iter, grow1, step1, Nat.mod_mod]
    have e : fb (grow n x) = fb (iter (step1 w) n x) := by
      rw [← fb_mod _ w hw, ih, fb_mod _ w hw]
    rw [e]
    have : 2 * grow n x ≡ 2 * iter (step1 w) n x [MOD 2 ^ w] := Nat.ModEq.mul_left 2 ih
    exact Nat.ModEq.add_right _ this

theorem iter_step1_lt (w n x : Nat) (hx : x < 2 ^ w) : iter (step1 w) n x < 2 ^ w := by
  cases n with
  | zero => exact hx
  | succ n => exact Nat.mod_lt _ (Nat.two_pow_pos _)

theorem regW_ge (bw : Nat) : 127 ≤ regW bw := by unfold regW; split <;> omega

end Pyrtl.Prng
