import Model.Core.PyInt
/-! Lemmas relating the Python-int operations to `Nat` arithmetic. -/
namespace Pyrtl

theorem pyAnd_nat (a b : Nat) : pyAnd (a : Int) (b : Int) = ((a &&& b : Nat) : Int) := rfl
theorem pyOr_nat (a b : Nat) : pyOr (a : Int) (b : Int) = ((a ||| b : Nat) : Int) := rfl
theorem pyXor_nat (a b : Nat) : pyXor (a : Int) (b : Int) = ((a ^^^ b : Nat) : Int) := rfl

theorem pyAnd_mask_nonneg (a w : Nat) : pyAnd (a : Int) (mask w) = ((a % 2 ^ w : Nat) : Int) := by
  show pyAnd (Int.ofNat a) (Int.ofNat (2^w-1)) = _
  simp only [pyAnd]
  rw [Nat.and_two_pow_sub_one_eq_mod]

theorem pyAnd_mask_neg (a w : Nat) :
    pyAnd (Int.negSucc a) (mask w) = ((2 ^ w - 1 - a % 2 ^ w : Nat) : Int) := by
  show pyAnd (Int.negSucc a) (Int.ofNat (2^w-1)) = _
  simp only [pyAnd]
  rw [Nat.and_comm, Nat.and_two_pow_sub_one_eq_mod]

/-- `x & ((1 << w) - 1)` is `x mod 2^w` for every Python integer `x`, negative ones included. -/
theorem pyAnd_mask (x : Int) (w : Nat) : pyAnd x (mask w) = x % ((2 ^ w : Nat) : Int) := by
  cases x with
  | ofNat a =>
    rw [show Int.ofNat a = (a : Int) from rfl, pyAnd_mask_nonneg, Int.natCast_emod]
  | negSucc a =>
    rw [pyAnd_mask_neg]
    have h : (0:Nat) < 2 ^ w := Nat.two_pow_pos w
    have hm := Nat.mod_lt a h
    rw [Int.negSucc_emod _ (by exact_mod_cast h)]
    have : ((a % 2 ^ w : Nat) : Int) = (a : Int) % ((2 ^ w : Nat) : Int) := Int.natCast_emod _ _
    omega

theorem pyAnd_mask_toNat_nat (a w : Nat) : (pyAnd (a : Int) (mask w)).toNat = a % 2 ^ w := by
  rw [pyAnd_mask_nonneg, Int.toNat_natCast]

/-- `(-x - 1) mod m = m - 1 - x mod m` -/
theorem neg_sub_one_emod (x m : Int) (hm : 0 < m) : (-x - 1) % m = m - 1 - x % m := by
  have h1 : 0 ≤ x % m := Int.emod_nonneg x (by omega)
  have h2 : x % m < m := Int.emod_lt_of_pos x hm
  have hx : x = x % m + m * (x / m) := by
    have := Int.emod_add_mul_ediv x m
    omega
  have : -x - 1 = (m - 1 - x % m) + m * (-(x / m) - 1) := by
    rw [Int.mul_sub, Int.mul_neg]
    omega
  rw [this, Int.add_mul_emod_self_left]
  exact Int.emod_eq_of_lt (by omega) (by omega)

theorem pyNot_mask_toNat (a w : Nat) :
    (pyAnd (pyNot (a : Int)) (mask w)).toNat = 2 ^ w - 1 - a % 2 ^ w := by
  rw [pyAnd_mask, pyNot, neg_sub_one_emod _ _ (by exact_mod_cast Nat.two_pow_pos w)]
  have h : (0:Nat) < 2 ^ w := Nat.two_pow_pos w
  have hm := Nat.mod_lt a h
  have : ((a % 2 ^ w : Nat) : Int) = (a : Int) % ((2 ^ w : Nat) : Int) := Int.natCast_emod _ _
  omega

theorem pyShl_nat (a n : Nat) : pyShl (a : Int) (n : Int) = ((a * 2 ^ n : Nat) : Int) := by
  simp [pyShl, Int.natCast_mul, Int.natCast_pow]

theorem pyShr_nat (a n : Nat) : pyShr (a : Int) (n : Int) = ((a / 2 ^ n : Nat) : Int) := by
  simp [pyShr, Int.natCast_ediv, Int.natCast_pow]

/-- `(r << w) | v = r * 2^w + v` when `v < 2^w`. -/
theorem shl_or_eq_add (r v w : Nat) (hv : v < 2 ^ w) : (r * 2 ^ w) ||| v = r * 2 ^ w + v := by
  have := Nat.shiftLeft_add_eq_or_of_lt hv r
  rw [Nat.shiftLeft_eq] at this
  exact this.symm

end Pyrtl
