import Model.Sim.PySim
import Proofs.Lemmas.PyInt
/-! Per-op lemmas: `_execute` + `_sanitize` of `pyrtl.Simulation` equals the documented op table. -/
namespace Pyrtl.PySim
open Pyrtl Pyrtl.Gen.SimpleFunc

theorem san_nat (a dw : Nat) : (sanitize (a : Int) (mask dw)).toNat = a % 2 ^ dw := by
  simp only [sanitize]; exact pyAnd_mask_toNat_nat a dw

theorem san_int (x : Int) (dw : Nat) :
    (sanitize x (mask dw)).toNat = (x % ((2 ^ dw : Nat) : Int)).toNat := by
  simp only [sanitize, pyAnd_mask]

theorem exec_w (wa a dw : Nat) : exec .w [(wa, (a : Int))] dw = Spec.comb .w [(wa, a)] dw := by
  simp only [exec, rawExec, Spec.comb, f_w]; exact san_nat a dw

theorem exec_inv (wa a dw : Nat) : exec .inv [(wa, (a : Int))] dw = Spec.comb .inv [(wa, a)] dw := by
  simp only [exec, rawExec, Spec.comb, f_inv, sanitize]; exact pyNot_mask_toNat a dw

theorem exec_and (wa wb a b dw : Nat) :
    exec .and [(wa, (a : Int)), (wb, (b : Int))] dw = Spec.comb .and [(wa, a), (wb, b)] dw := by
  simp only [exec, rawExec, Spec.comb, f_and, pyAnd_nat]; exact san_nat _ dw

theorem exec_or (wa wb a b dw : Nat) :
    exec .or [(wa, (a : Int)), (wb, (b : Int))] dw = Spec.comb .or [(wa, a), (wb, b)] dw := by
  simp only [exec, rawExec, Spec.comb, f_or, pyOr_nat]; exact san_nat _ dw

theorem exec_xor (wa wb a b dw : Nat) :
    exec .xor [(wa, (a : Int)), (wb, (b : Int))] dw = Spec.comb .xor [(wa, a), (wb, b)] dw := by
  simp only [exec, rawExec, Spec.comb, f_xor, pyXor_nat]; exact san_nat _ dw

theorem exec_nand (wa wb a b dw : Nat) :
    exec .nand [(wa, (a : Int)), (wb, (b : Int))] dw = Spec.comb .nand [(wa, a), (wb, b)] dw := by
  simp only [exec, rawExec, Spec.comb, f_nand, pyAnd_nat, sanitize]; exact pyNot_mask_toNat _ dw

theorem exec_add (wa wb a b dw : Nat) :
    exec .add [(wa, (a : Int)), (wb, (b : Int))] dw = Spec.comb .add [(wa, a), (wb, b)] dw := by
  simp only [exec, rawExec, Spec.comb, f_add]
  rw [show (a : Int) + (b : Int) = ((a + b : Nat) : Int) by push_cast; rfl]; exact san_nat _ dw

theorem exec_sub (wa wb a b dw : Nat) :
    exec .sub [(wa, (a : Int)), (wb, (b : Int))] dw = Spec.comb .sub [(wa, a), (wb, b)] dw := by
  simp only [exec, rawExec, Spec.comb, f_sub]; exact san_int _ dw

theorem exec_mul (wa wb a b dw : Nat) :
    exec .mul [(wa, (a : Int)), (wb, (b : Int))] dw = Spec.comb .mul [(wa, a), (wb, b)] dw := by
  simp only [exec, rawExec, Spec.comb, f_mul]
  rw [show (a : Int) * (b : Int) = ((a * b : Nat) : Int) by push_cast; rfl]; exact san_nat _ dw

theorem ofBool_nat (p : Prop) [Decidable p] : pyOfBool (decide p) = ((if p then 1 else 0 : Nat) : Int) := by
  by_cases h : p <;> simp [pyOfBool, h]

theorem exec_lt (wa wb a b dw : Nat) :
    exec .lt [(wa, (a : Int)), (wb, (b : Int))] dw = Spec.comb .lt [(wa, a), (wb, b)] dw := by
  simp only [exec, rawExec, Spec.comb, f_lt, ofBool_nat, Int.ofNat_lt]; exact san_nat _ dw

theorem exec_gt (wa wb a b dw : Nat) :
    exec .gt [(wa, (a : Int)), (wb, (b : Int))] dw = Spec.comb .gt [(wa, a), (wb, b)] dw := by
  simp only [exec, rawExec, Spec.comb, f_gt, ofBool_nat, GT.gt, Int.ofNat_lt]; exact san_nat _ dw

theorem exec_eq (wa wb a b dw : Nat) :
    exec .eq [(wa, (a : Int)), (wb, (b : Int))] dw = Spec.comb .eq [(wa, a), (wb, b)] dw := by
  simp only [exec, rawExec, Spec.comb, f_eq, ofBool_nat, Int.natCast_inj]; exact san_nat _ dw

theorem exec_mux (ws wf wt s f t dw : Nat) :
    exec .mux [(ws, (s : Int)), (wf, (f : Int)), (wt, (t : Int))] dw
      = Spec.comb .mux [(ws, s), (wf, f), (wt, t)] dw := by
  simp only [exec, rawExec, Spec.comb, f_mux]
  by_cases h : s = 0
  · subst h; simp only [Int.natCast_zero, decide_true, if_true]; exact san_nat _ dw
  · have h' : ¬ ((s : Int) = 0) := by exact_mod_cast h
    simp only [h, h', decide_false, if_false]; exact san_nat _ dw

/-- the `c` loop keeps a natural number and equals `concatVal` when every piece fits its width -/
theorem concatLoop_eq (l : List (Nat × Nat)) (r : Nat) (hr : ∀ p ∈ l, p.2 < 2 ^ p.1) :
    concatLoop (l.map fun p => (p.1, (p.2 : Int))) (r : Int) = ((Spec.concatVal l r : Nat) : Int) := by
  induction l generalizing r with
  | nil => rfl
  | cons p rest ih =>
    obtain ⟨w, v⟩ := p
    simp only [List.map_cons, concatLoop, Spec.concatVal]
    rw [pyShl_nat, pyOr_nat, shl_or_eq_add _ _ _ (hr (w, v) (by simp))]
    exact ih _ (fun q hq => hr q (by simp [hq]))

theorem exec_concat (l : List (Nat × Nat)) (dw : Nat) (hr : ∀ p ∈ l, p.2 < 2 ^ p.1) :
    exec .concat (l.map fun p => (p.1, (p.2 : Int))) dw = Spec.comb .concat l dw := by
  simp only [exec, rawExec, Spec.comb]
  have := concatLoop_eq l 0 hr
  simp only [Int.natCast_zero] at this
  rw [this]; exact san_nat _ dw

theorem selectLoop_foldl (l : List Nat) (src r : Int) :
    selectLoop l src r = l.foldl (fun (r : Int) (b : Nat) => pyOr (pyShl r 1) (pyAnd 1 (pyShr src (b : Int)))) r := by
  induction l generalizing r with
  | nil => rfl
  | cons b rest ih => simp only [selectLoop, List.foldl_cons]; exact ih _

theorem select_step (r src b : Nat) :
    pyOr (pyShl (r : Int) 1) (pyAnd 1 (pyShr (src : Int) (b : Int)))
      = ((Spec.bit src b + 2 * r : Nat) : Int) := by
  have h1 : pyShl (r : Int) 1 = ((r * 2 ^ 1 : Nat) : Int) := pyShl_nat r 1
  rw [h1, pyShr_nat, show (1 : Int) = ((1 : Nat) : Int) from rfl, pyAnd_nat, pyOr_nat,
    Nat.one_and_eq_mod_two]
  have hb : src / 2 ^ b % 2 < 2 ^ 1 := by have := Nat.mod_lt (src / 2 ^ b) (by decide : 0 < 2); simpa using this
  rw [shl_or_eq_add _ _ _ hb]
  simp only [Spec.bit]; congr 1; omega

theorem selectLoop_reverse (idx : List Nat) (src : Nat) :
    selectLoop idx.reverse (src : Int) 0 = ((Spec.selectVal idx src : Nat) : Int) := by
  rw [selectLoop_foldl, List.foldl_reverse]
  induction idx with
  | nil => rfl
  | cons i rest ih =>
    simp only [List.foldr_cons, Spec.selectVal]
    rw [ih]; exact select_step _ _ _

theorem exec_select (idx : List Nat) (wa a dw : Nat) :
    exec (.select idx) [(wa, (a : Int))] dw = Spec.comb (.select idx) [(wa, a)] dw := by
  simp only [exec, rawExec, Spec.comb, selectLoop_reverse]; exact san_nat _ dw

end Pyrtl.PySim
