import Proofs.Lemmas.EvalOrder
/-!
# Local rewrites of a netlist

Replacing one net by a "gadget" (a short list of nets over fresh internal wires that computes the same
value at the same destination) leaves every wire outside the fresh ones with the value it had.
This is the netlist-level shape of the lowering and folding passes (C04, C09).
-/
namespace Pyrtl.Rewrite
open Pyrtl

theorem evalSeq_append (f : Net → List Nat → Nat) (a b : List Net) (e : Env) :
    evalSeq f (a ++ b) e = evalSeq f b (evalSeq f a e) := by
  induction a generalizing e with
  | nil => rfl
  | cons n ns ih => simp only [List.cons_append, evalSeq, ih]

/-- nets that neither read nor write the wires in `F` cannot tell two valuations apart that agree off `F` -/
theorem evalSeq_agree_off (f : Net → List Nat → Nat) (F : Nat → Prop) (ns : List Net) (e1 e2 : Env)
    (hargs : ∀ n ∈ ns, ∀ a ∈ n.args, ¬ F a) (h : ∀ w, ¬ F w → e1 w = e2 w) :
    ∀ w, ¬ F w → evalSeq f ns e1 w = evalSeq f ns e2 w := by
  induction ns generalizing e1 e2 with
  | nil => exact h
  | cons n ns ih =>
    have hvals : n.args.map e1 = n.args.map e2 :=
      List.map_congr_left (fun a ha => h a (hargs n (by simp) a ha))
    simp only [evalSeq]
    apply ih _ _ (fun m hm => hargs m (by simp [hm]))
    intro w hw
    simp only [upd, hvals]
    split
    · rfl
    · exact h w hw

/-- **local rewrite**: if, from every valuation, the gadget leaves all non-fresh wires but `n.dest` alone
    and gives `n.dest` the value `n` would, and the nets after it do not read fresh wires, then the
    rewritten schedule gives every non-fresh wire the value of the original schedule -/
theorem rewrite_preserves (f : Net → List Nat → Nat) (F : Nat → Prop) (pre post gadget : List Net) (n : Net)
    (e : Env) (hnF : ¬ F n.dest)
    (hg : ∀ e' : Env, (∀ w, ¬ F w → w ≠ n.dest → evalSeq f gadget e' w = e' w) ∧
                      evalSeq f gadget e' n.dest = f n (n.args.map e'))
    (hpost : ∀ m ∈ post, ∀ a ∈ m.args, ¬ F a) :
    ∀ w, ¬ F w → evalSeq f (pre ++ gadget ++ post) e w = evalSeq f (pre ++ n :: post) e w := by
  intro w hw
  rw [List.append_assoc, evalSeq_append, evalSeq_append, evalSeq_append]
  simp only [evalSeq]
  apply evalSeq_agree_off f F post _ _ hpost _ w hw
  intro v hv
  obtain ⟨h1, h2⟩ := hg (evalSeq f pre e)
  by_cases hvd : v = n.dest
  · subst hvd
    rw [h2]
    simp [upd]
  · rw [h1 v hv hvd]
    simp [upd, hvd]

end Pyrtl.Rewrite
