import Proofs.Lemmas.PySimOps
import Proofs.Lemmas.EvalOrder
/-!
# Run-level refinement: `Simulation.step` repeated = the specification's cycle semantics

Helper lemmas for `C01.pysim_run_eq_spec`.
-/
namespace Pyrtl.RunRefine
open Pyrtl Pyrtl.PySim

/-- wires whose value in a cycle does not come from a combinational net -/
def Src (b : Block) (w : Nat) : Prop :=
  match b.kind w with
  | .input | .const _ | .reg _ => True
  | _ => False

/-- walking `ns`, every argument is already computed or is a source -/
def Sched (b : Block) : List Net → List Nat → Prop
  | [], _ => True
  | n :: ns, done => (∀ a ∈ n.args, a ∈ done ∨ Src b a) ∧ Sched b ns (n.dest :: done)

/-- a dependency order whose undriven arguments are all sources is a schedule -/
theorem sched_of_topo (b : Block) (all : List Net)
    (hsrc : ∀ n ∈ all, ∀ a ∈ n.args, (∀ m ∈ all, m.dest ≠ a) → Src b a) :
    ∀ (ns : List Net) (done : List Nat), (∀ n ∈ ns, n ∈ all) → Topo all ns done → Sched b ns done := by
  intro ns
  induction ns with
  | nil => intro _ _ _; trivial
  | cons n ns ih =>
    intro done hsub ht
    obtain ⟨ha, _, hrest⟩ := ht
    refine ⟨fun a haa => ?_, ih _ (fun m hm => hsub m (by simp [hm])) hrest⟩
    rcases ha a haa with h | h
    · exact Or.inl h
    · exact Or.inr (hsrc n (hsub n (by simp)) a haa h)

/-- the two valuations agree on `S`, and the values there fit their wires -/
def AgreeOn (b : Block) (S : Nat → Prop) (ep es : Env) : Prop :=
  ∀ w, S w → ep w = es w ∧ es w < 2 ^ b.width w

theorem emod_toNat_lt (x : Int) (dw : Nat) : (x % ((2 ^ dw : Nat) : Int)).toNat < 2 ^ dw := by
  have hpos : (0 : Int) < ((2 ^ dw : Nat) : Int) := by exact_mod_cast Nat.two_pow_pos dw
  have h1 := Int.emod_lt_of_pos x hpos
  have h0 := Int.emod_nonneg x (Int.ne_of_gt hpos)
  omega

theorem netFun_lt (b : Block) (st : State) (n : Net) (vals : List Nat) :
    PySim.netFun b st n vals < 2 ^ b.width n.dest := by
  unfold PySim.netFun
  cases hop : n.op with
  | mread m =>
    simp only []
    rw [san_nat]
    exact Nat.mod_lt _ (Nat.two_pow_pos _)
  | _ =>
    simp only [PySim.exec]
    rw [san_int]
    exact emod_toNat_lt _ _

theorem spec_netFun_congr (b : Block) (s1 s2 : State) (h : s1.mems = s2.mems) (n : Net) (vals : List Nat) :
    Pyrtl.netFun b s1 n vals = Pyrtl.netFun b s2 n vals := by
  unfold Pyrtl.netFun memRead
  rw [h]

theorem pysim_netFun_congr (b : Block) (s1 s2 : State) (h : s1.mems = s2.mems) (n : Net) (vals : List Nat) :
    PySim.netFun b s1 n vals = PySim.netFun b s2 n vals := by
  unfold PySim.netFun memRead
  rw [h]


theorem zip_inRange (b : Block) (es : Env) (args : List Nat)
    (h : ∀ a ∈ args, es a < 2 ^ b.width a) :
    ∀ p ∈ (args.map b.width).zip (args.map es), p.2 < 2 ^ p.1 := by
  induction args with
  | nil => intro p hp; simp at hp
  | cons a rest ih =>
    intro p hp
    simp only [List.map_cons, List.zip_cons_cons, List.mem_cons] at hp
    rcases hp with rfl | hp
    · exact h a (by simp)
    · exact ih (fun x hx => h x (by simp [hx])) p hp

/-- evaluating a schedule with the implementation's net function and with the specification's, from
    valuations that agree on the sources, gives valuations that agree on sources and destinations -/
theorem evalSeq_agree (b : Block) (sp ss : State) (hm : sp.mems = ss.mems)
    (hexec : ∀ (n : Net) (vals : List Nat), (∀ p ∈ (n.args.map b.width).zip vals, p.2 < 2 ^ p.1) →
      PySim.netFun b sp n vals = Pyrtl.netFun b sp n vals) :
    ∀ (ns : List Net) (done : List Nat) (ep es : Env), Sched b ns done →
      AgreeOn b (fun w => Src b w ∨ w ∈ done) ep es →
      AgreeOn b (fun w => Src b w ∨ w ∈ done ∨ w ∈ ns.map Net.dest)
        (evalSeq (PySim.netFun b sp) ns ep) (evalSeq (Pyrtl.netFun b ss) ns es) := by
  intro ns
  induction ns with
  | nil =>
    intro done ep es _ h w hw
    rcases hw with h1 | h1 | h1
    · exact h w (Or.inl h1)
    · exact h w (Or.inr h1)
    · simp at h1
  | cons n ns ih =>
    intro done ep es hs h
    obtain ⟨hargs, hrest⟩ := hs
    have hvals : n.args.map ep = n.args.map es := by
      apply List.map_congr_left
      intro a ha
      rcases hargs a ha with hd | hsrc
      · exact (h a (Or.inr hd)).1
      · exact (h a (Or.inl hsrc)).1
    have hrange : ∀ a ∈ n.args, es a < 2 ^ b.width a := by
      intro a ha
      rcases hargs a ha with hd | hsrc
      · exact (h a (Or.inr hd)).2
      · exact (h a (Or.inl hsrc)).2
    have hfun : PySim.netFun b sp n (n.args.map ep) = Pyrtl.netFun b ss n (n.args.map es) := by
      rw [hvals, hexec n _ (zip_inRange b es n.args hrange), spec_netFun_congr b sp ss hm]
    have hlt : Pyrtl.netFun b ss n (n.args.map es) < 2 ^ b.width n.dest := by
      rw [← hfun]; exact netFun_lt b sp n _
    have hnew : AgreeOn b (fun w => Src b w ∨ w ∈ n.dest :: done)
        (upd ep n.dest (PySim.netFun b sp n (n.args.map ep)))
        (upd es n.dest (Pyrtl.netFun b ss n (n.args.map es))) := by
      intro w hw
      by_cases hwd : w = n.dest
      · subst hwd
        simp only [upd, ↓reduceIte]
        exact ⟨hfun, hlt⟩
      · simp only [upd, hwd, ↓reduceIte]
        rcases hw with h1 | h1
        · exact h w (Or.inl h1)
        · rcases List.mem_cons.mp h1 with h2 | h2
          · exact absurd h2 hwd
          · exact h w (Or.inr h2)
    have := ih (n.dest :: done) _ _ hrest hnew
    intro w hw
    apply this w
    rcases hw with h1 | h1 | h1
    · exact Or.inl h1
    · exact Or.inr (Or.inl (List.mem_cons_of_mem _ h1))
    · simp only [List.map_cons, List.mem_cons] at h1
      rcases h1 with h2 | h2
      · exact Or.inr (Or.inl (by rw [h2]; exact List.mem_cons_self ..))
      · exact Or.inr (Or.inr h2)

/-- memory-write application depends only on the values of the write ports' arguments -/
theorem writes_congr (ep es : Env) (ws : List Net) (mm : Nat → Nat → Nat)
    (h : ∀ n ∈ ws, ∀ a ∈ n.args, ep a = es a) :
    PySim.memUpdate ep ws mm = applyWrites es ws mm := by
  induction ws generalizing mm with
  | nil => rfl
  | cons n ns ih =>
    have hn := h n (by simp)
    have ih' := fun mm => ih mm (fun m hm => h m (by simp [hm]))
    unfold PySim.memUpdate applyWrites
    split
    · rename_i m a d en hop hargs
      have ha : ep a = es a := hn a (by rw [hargs]; simp)
      have hd : ep d = es d := hn d (by rw [hargs]; simp)
      have he : ep en = es en := hn en (by rw [hargs]; simp)
      simp only [hop, hargs, ha, hd, he]
      exact ih' _
    · rename_i hne
      split
      · rename_i m a d en hop hargs
        exact absurd hargs (hne m a d en hop)
      · exact ih' _

end Pyrtl.RunRefine
