import Model.Lib.SeqMult
import Mathlib.Tactic.Ring
import Mathlib.Tactic.Linarith
/-! Invariant of the shift-and-add multiplier: after `j` shift steps from a start with operands `A`, `B`
the registers hold `A / 2^(s j)`, `B * 2^(s j)` and `(A % 2^(s j)) * B` (the latter two modulo the
register width). -/
namespace Pyrtl.SeqMult

/-- the state `j` shift steps after a start -/
def shape (alen blen s A B j : Nat) : St :=
  ⟨A / 2 ^ (s * j), (B * 2 ^ (s * j)) % 2 ^ (alen + blen), ((A % 2 ^ (s * j)) * B) % 2 ^ (alen + blen)⟩

theorem shape_zero (alen blen s A B : Nat) (hB : B < 2 ^ blen) :
    shape alen blen s A B 0 = ⟨A, B, 0⟩ := by
  have hW : B < 2 ^ (alen + blen) :=
    lt_of_lt_of_le hB (Nat.pow_le_pow_right (by norm_num) (Nat.le_add_left _ _))
  simp [shape, Nat.mod_one, Nat.mod_eq_of_lt hW]

/-- one shift step moves `shape j` to `shape (j+1)` -/
theorem shape_step (alen blen s A B j : Nat) (h : (shape alen blen s A B j).a ≠ 0) :
    step alen blen s (shape alen blen s A B j) false 0 0 = shape alen blen s A B (j + 1) := by
  unfold step
  simp only [Bool.false_eq_true, if_false, h, ne_eq, not_false_eq_true, if_true]
  have e : s * (j + 1) = s * j + s := by ring
  simp only [shape, e, pow_add]
  congr 1
  · rw [Nat.div_div_eq_div_mul]
  · rw [Nat.mod_mul_mod, Nat.mul_assoc]
  · -- accumulator
    rw [Nat.mod_mul (x := A) (a := 2 ^ (s * j)) (b := 2 ^ s)]
    rw [Nat.add_mul, Nat.add_mod, Nat.mod_mod]
    conv_rhs => rw [Nat.add_mod]
    congr 2
    rw [Nat.mul_mod, Nat.mod_mod, ← Nat.mul_mod]
    congr 1
    ring

end Pyrtl.SeqMult

namespace Pyrtl.SeqMult

theorem step_idle_irrel (alen blen s : Nat) (st : St) (x y : Nat) :
    step alen blen s st false x y = step alen blen s st false 0 0 := by
  unfold step; simp

theorem shape_a_zero_iff (alen blen s A B j : Nat) :
    (shape alen blen s A B j).a = 0 ↔ A < 2 ^ (s * j) := by
  simp only [shape]
  exact Nat.div_eq_zero_iff_lt (Nat.two_pow_pos _)

theorem shape_a_mono (alen blen s A B j j' : Nat) (h : j ≤ j')
    (hz : (shape alen blen s A B j).a = 0) : (shape alen blen s A B j').a = 0 := by
  rw [shape_a_zero_iff] at *
  exact lt_of_lt_of_le hz (Nat.pow_le_pow_right (by norm_num) (Nat.mul_le_mul_left s h))

/-- idle cycles move a shaped state along the shapes, one index per cycle until the `a` register is 0 -/
theorem idle_from_shape (alen blen s A B : Nat) (ops : List (Nat × Nat)) :
    ∀ j, ∃ j', j ≤ j' ∧ j' ≤ j + ops.length ∧
      idle alen blen s (shape alen blen s A B j) ops = shape alen blen s A B j' ∧
      (j' < j + ops.length → (shape alen blen s A B j').a = 0) := by
  induction ops with
  | nil => intro j; exact ⟨j, le_refl _, by simp, by simp [idle], by simp⟩
  | cons o rest ih =>
    intro j
    by_cases hz : (shape alen blen s A B j).a = 0
    · -- finished: the cycle changes nothing
      have hst : step alen blen s (shape alen blen s A B j) false o.1 o.2 = shape alen blen s A B j := by
        unfold step; simp [hz]
      obtain ⟨j', h1, h2, h3, _⟩ := ih j
      refine ⟨j', h1, by simp only [List.length_cons]; omega, ?_, fun _ => shape_a_mono _ _ _ _ _ _ _ h1 hz⟩
      simp only [idle, List.foldl_cons] at h3 ⊢
      rw [hst]; exact h3
    · have hst : step alen blen s (shape alen blen s A B j) false o.1 o.2 = shape alen blen s A B (j + 1) := by
        rw [step_idle_irrel]; exact shape_step _ _ _ _ _ _ hz
      obtain ⟨j', h1, h2, h3, h4⟩ := ih (j + 1)
      refine ⟨j', by omega, by simp only [List.length_cons]; omega, ?_, fun hlt => h4 (by simp only [List.length_cons] at hlt; omega)⟩
      simp only [idle, List.foldl_cons] at h3 ⊢
      rw [hst]; exact h3

/-- a finished shaped state holds the product -/
theorem shape_done_acc (alen blen s A B j : Nat) (hA : A < 2 ^ alen) (hB : B < 2 ^ blen)
    (hz : (shape alen blen s A B j).a = 0) : (shape alen blen s A B j).acc = A * B := by
  rw [shape_a_zero_iff] at hz
  simp only [shape, Nat.mod_eq_of_lt hz]
  apply Nat.mod_eq_of_lt
  rw [pow_add]
  exact Nat.mul_lt_mul'' hA hB

end Pyrtl.SeqMult
