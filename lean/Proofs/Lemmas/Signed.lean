import Model.Lib.Ops
import Mathlib.Tactic.Ring
import Mathlib.Tactic.NormNum
import Mathlib.Tactic.Linarith
/-!
# Two's-complement helpers: sign extension keeps the signed value; the signed comparison trick
-/
namespace Pyrtl.Ops
open Pyrtl

theorem selectVal_replicate' (k x : Nat) :
    Spec.selectVal (List.replicate k 0) x = (x % 2) * (2 ^ k - 1) := by
  induction k with
  | zero => simp [Spec.selectVal]
  | succ k ih =>
    simp only [List.replicate_succ, Spec.selectVal, ih, Spec.bit, Nat.pow_zero, Nat.div_one]
    have h : 1 ≤ 2 ^ k := Nat.one_le_two_pow
    have h2 : 2 ^ (k + 1) = 2 * 2 ^ k := by rw [Nat.pow_succ, Nat.mul_comm]
    rw [h2]
    rcases Nat.mod_two_eq_zero_or_one x with e | e <;> rw [e] <;> omega

/-- the top bit of an in-range value says whether it reaches the upper half -/
theorem msb_eq (w a : Nat) (hw : 0 < w) (ha : a < 2 ^ w) :
    msb (w, a) = if 2 ^ (w - 1) ≤ a then 1 else 0 := by
  unfold msb Spec.bit
  simp only []
  obtain ⟨k, rfl⟩ : ∃ k, w = k + 1 := ⟨w - 1, by omega⟩
  simp only [Nat.add_sub_cancel]
  rw [Nat.pow_succ] at ha
  have hp : 0 < 2 ^ k := Nat.two_pow_pos k
  by_cases h : 2 ^ k ≤ a
  · simp only [h, ↓reduceIte]
    have : a / 2 ^ k = 1 := by
      apply Nat.div_eq_of_lt_le <;> omega
    rw [this]
  · simp only [h, ↓reduceIte]
    rw [Nat.div_eq_of_lt (by omega)]

/-- two's-complement reading through `msb_eq` -/
theorem toSigned_eq (w a : Nat) (hw : 0 < w) (ha : a < 2 ^ w) :
    toSigned (w, a) = if 2 ^ (w - 1) ≤ a then (a : Int) - (2 ^ w : Nat) else (a : Int) := by
  unfold toSigned
  rw [msb_eq w a hw ha]
  by_cases h : 2 ^ (w - 1) ≤ a <;> simp [h]

/-- **sign extension**: the result has the requested width, stays in range, and reads as the same
    signed integer -/
theorem sign_extend_value (w a n : Nat) (hw : 0 < w) (ha : a < 2 ^ w) (hn : w ≤ n) :
    (signExtended (w, a) n).1 = n ∧ (signExtended (w, a) n).2 < 2 ^ n ∧
    toSigned (signExtended (w, a) n) = toSigned (w, a) := by
  unfold signExtended extendWithBit
  simp only []
  by_cases hk : n - w = 0
  · have : n = w := by omega
    subst this
    simp [hk, ha]
  · simp only [hk, ↓reduceIte]
    have hnw : n - w + w = n := by omega
    obtain ⟨k, hkk⟩ : ∃ k, n = w + (k + 1) := ⟨n - w - 1, by omega⟩
    have hm := msb_eq w a hw ha
    simp only [Spec.comb, selectVal_replicate', Spec.concatVal, Nat.zero_mul, Nat.zero_add, hnw]
    have hpw : 2 ^ n = 2 ^ w * 2 ^ (k + 1) := by rw [hkk, Nat.pow_add]
    have hsub : n - w = k + 1 := by omega
    have h1 : 1 ≤ 2 ^ (k + 1) := Nat.one_le_two_pow
    by_cases hs : 2 ^ (w - 1) ≤ a
    · -- negative: ones are shifted in
      rw [hm]
      simp only [hs, ↓reduceIte, Nat.one_mod, Nat.one_mul, hsub]
      have hv : (2 ^ (k + 1) - 1) % 2 ^ (k + 1) * 2 ^ w + a = 2 ^ n - 2 ^ w + a := by
        rw [Nat.mod_eq_of_lt (by omega), Nat.sub_mul, Nat.one_mul, hpw, Nat.mul_comm]
      rw [hv]
      have hwn : 2 ^ w ≤ 2 ^ n := Nat.pow_le_pow_right (by decide) hn
      have hlt : 2 ^ n - 2 ^ w + a < 2 ^ n := by omega
      refine ⟨trivial, by rw [Nat.mod_eq_of_lt hlt]; exact hlt, ?_⟩
      rw [Nat.mod_eq_of_lt hlt, toSigned_eq n _ (by omega) hlt, toSigned_eq w a hw ha]
      have hhalf : 2 ^ (n - 1) ≤ 2 ^ n - 2 ^ w + a := by
        have e1 : 2 ^ n = 2 * 2 ^ (n - 1) := by
          rw [show n = (n - 1) + 1 by omega, Nat.pow_succ]; simp; ring
        have e2 : 2 ^ w = 2 * 2 ^ (w - 1) := by
          rw [show w = (w - 1) + 1 by omega, Nat.pow_succ]; simp; ring
        have e3 : 2 ^ w ≤ 2 ^ (n - 1) := Nat.pow_le_pow_right (by decide) (by omega)
        omega
      simp only [hhalf, hs, ↓reduceIte]
      push_cast [hwn]
      ring
    · -- non-negative: zeros are shifted in
      rw [hm]
      simp only [hs, ↓reduceIte, Nat.zero_mod, Nat.zero_mul, Nat.zero_add]
      have hwn : 2 ^ w ≤ 2 ^ n := Nat.pow_le_pow_right (by decide) hn
      have hlt : a < 2 ^ n := Nat.lt_of_lt_of_le ha hwn
      refine ⟨trivial, by rw [Nat.mod_eq_of_lt hlt]; exact hlt, ?_⟩
      rw [Nat.mod_eq_of_lt hlt, toSigned_eq n a (by omega) hlt, toSigned_eq w a hw ha]
      have hnot : ¬ 2 ^ (n - 1) ≤ a := by
        have : 2 ^ (w - 1) ≤ 2 ^ (n - 1) := Nat.pow_le_pow_right (by decide) (by omega)
        omega
      simp only [hnot, hs, ↓reduceIte]


theorem zeroExtended_self (w a : Nat) : zeroExtended (w, a) w = (w, a) := by
  unfold zeroExtended extendWithBit
  simp

theorem emod_rep (B A M k : Int) (h : B = A + M * k) (h0 : 0 ≤ A) (h1 : A < M) : B % M = A := by
  subst h
  rw [Int.add_mul_emod_self_left]
  exact Int.emod_eq_of_lt h0 h1

/-- the `(W+1)`-bit difference of two `W`-bit values has its top bit set exactly when it is negative -/
theorem sub_msb (W x y : Nat) (hx : x < 2 ^ W) (hy : y < 2 ^ W) :
    msb (twoVarOp .sub (W, x) (W, y)) = if x < y then 1 else 0 := by
  unfold twoVarOp
  simp only [Nat.max_self, zeroExtended_self, Spec.comb]
  have hpos : (0 : Int) < ((2 ^ (W + 1) : Nat) : Int) := by exact_mod_cast Nat.two_pow_pos (W + 1)
  have h2 : 2 ^ (W + 1) = 2 * 2 ^ W := by rw [Nat.pow_succ, Nat.mul_comm]
  have key : ∀ v : Nat, (v : Int) = ((x : Int) - y) % ((2 ^ (W + 1) : Nat) : Int) →
      msb (W + 1, v) = if x < y then 1 else 0 := by
    intro v hv
    have hvlt : v < 2 ^ (W + 1) := by
      have := Int.emod_lt_of_pos ((x : Int) - y) hpos
      rw [← hv] at this
      exact_mod_cast this
    rw [msb_eq (W + 1) v (by omega) hvlt]
    simp only [Nat.add_sub_cancel]
    by_cases hlt : x < y
    · have e : ((x : Int) - y) % ((2 ^ (W + 1) : Nat) : Int) = (x : Int) - y + ((2 ^ (W + 1) : Nat) : Int) :=
        emod_rep _ _ _ (-1) (by ring) (by omega) (by omega)
      rw [e] at hv
      have : 2 ^ W ≤ v := by omega
      simp [hlt, this]
    · have e : ((x : Int) - y) % ((2 ^ (W + 1) : Nat) : Int) = (x : Int) - y :=
        emod_rep _ _ _ 0 (by ring) (by omega) (by omega)
      rw [e] at hv
      have : ¬ 2 ^ W ≤ v := by omega
      simp [hlt, this]
  apply key
  rw [Int.toNat_of_nonneg (Int.emod_nonneg _ (Int.ne_of_gt hpos))]

/-- **`signed_lt`**: the one-bit result of `r[-1] ^ ~a[-1] ^ ~b[-1]` on the sign-matched operands is
    the comparison of the two's-complement values, for operands of any two widths -/
theorem signedLt_correct (wa a wb b : Nat) (hwa : 0 < wa) (hwb : 0 < wb) (ha : a < 2 ^ wa) (hb : b < 2 ^ wb) :
    signedLt (wa, a) (wb, b) = if toSigned (wa, a) < toSigned (wb, b) then 1 else 0 := by
  unfold signedLt
  simp only []
  obtain ⟨ha1, hax, has⟩ := sign_extend_value wa a (max wa wb) hwa ha (Nat.le_max_left _ _)
  obtain ⟨hb1, hbx, hbs⟩ := sign_extend_value wb b (max wa wb) hwb hb (Nat.le_max_right _ _)
  generalize hA : signExtended (wa, a) (max wa wb) = A at *
  generalize hB : signExtended (wb, b) (max wa wb) = B at *
  obtain ⟨Aw, x⟩ := A
  obtain ⟨Bw, y⟩ := B
  simp only at ha1 hb1 hax hbx
  subst ha1 hb1
  have hW : 0 < max wa wb := by omega
  rw [← has, ← hbs, sub_msb _ x y hax hbx, msb_eq _ x hW hax, msb_eq _ y hW hbx,
    toSigned_eq _ x hW hax, toSigned_eq _ y hW hbx]
  have h2 : 2 ^ max wa wb = 2 * 2 ^ (max wa wb - 1) := by
    rw [show max wa wb = (max wa wb - 1) + 1 by omega, Nat.pow_succ]; simp; ring
  generalize 2 ^ (max wa wb - 1) = H at *
  generalize 2 ^ max wa wb = P at *
  subst h2
  by_cases h1 : x < y <;> by_cases h3 : H ≤ x <;> by_cases h4 : H ≤ y <;>
    simp only [h1, h3, h4, ↓reduceIte] <;> push_cast <;> split <;> omega


theorem selectVal_range_shift (n k v : Nat) :
    Spec.selectVal ((List.range n).map (· + k)) v = (v / 2 ^ k) % 2 ^ n := by
  induction n generalizing k with
  | zero => simp [Spec.selectVal, Nat.mod_one]
  | succ n ih =>
    rw [List.range_succ_eq_map, List.map_cons, List.map_map]
    have : ((fun x => x + k) ∘ Nat.succ) = (· + (k + 1)) := by funext x; simp; omega
    simp only [Spec.selectVal, this, ih (k + 1), Nat.zero_add, Spec.bit]
    rw [Nat.pow_succ 2 k, ← Nat.div_div_eq_div_mul]
    generalize v / 2 ^ k = u
    rw [show 2 ^ (n + 1) = 2 * 2 ^ n by rw [Nat.pow_succ, Nat.mul_comm], Nat.mod_mul]

theorem selectVal_range (n v : Nat) : Spec.selectVal (List.range n) v = v % 2 ^ n := by
  have := selectVal_range_shift n 0 v
  simpa using this


/-- range of a `w`-bit two's-complement value -/
theorem toSigned_range (w a : Nat) (hw : 0 < w) (ha : a < 2 ^ w) :
    -((2 ^ (w - 1) : Nat) : Int) ≤ toSigned (w, a) ∧ toSigned (w, a) < ((2 ^ (w - 1) : Nat) : Int) := by
  rw [toSigned_eq w a hw ha]
  have h2 : 2 ^ w = 2 * 2 ^ (w - 1) := by
    rw [show w = (w - 1) + 1 by omega, Nat.pow_succ]; simp; ring
  by_cases h : 2 ^ (w - 1) ≤ a <;> simp only [h, ↓reduceIte] <;> omega

/-- **`signed_add`**: sign-match to `max`, extend by one more bit, add, keep `max+1` bits: the result
    is the exact sum of the two's-complement values (it always fits) -/
theorem signedAdd_exact (wa a wb b : Nat) (hwa : 0 < wa) (hwb : 0 < wb) (ha : a < 2 ^ wa) (hb : b < 2 ^ wb) :
    (signedAdd (wa, a) (wb, b)).1 = max wa wb + 1 ∧
    toSigned (signedAdd (wa, a) (wb, b)) = toSigned (wa, a) + toSigned (wb, b) := by
  unfold signedAdd
  simp only []
  obtain ⟨ha1, hax, has⟩ := sign_extend_value wa a (max wa wb) hwa ha (Nat.le_max_left _ _)
  obtain ⟨hb1, hbx, hbs⟩ := sign_extend_value wb b (max wa wb) hwb hb (Nat.le_max_right _ _)
  generalize hA : signExtended (wa, a) (max wa wb) = A at *
  generalize hB : signExtended (wb, b) (max wa wb) = B at *
  obtain ⟨Aw, x0⟩ := A
  obtain ⟨Bw, y0⟩ := B
  simp only at ha1 hb1 hax hbx
  subst ha1 hb1
  have hW : 0 < max wa wb := by omega
  generalize max wa wb = W at *
  have hra := toSigned_range W x0 hW hax
  have hrb := toSigned_range W y0 hW hbx
  obtain ⟨hx1, hxx, hxs⟩ := sign_extend_value W x0 (W + 1) hW hax (by omega)
  obtain ⟨hy1, hyy, hys⟩ := sign_extend_value W y0 (W + 1) hW hbx (by omega)
  generalize hX : signExtended (W, x0) (W + 1) = X at *
  generalize hY : signExtended (W, y0) (W + 1) = Y at *
  obtain ⟨Xw, x⟩ := X
  obtain ⟨Yw, y⟩ := Y
  simp only at hx1 hy1 hxx hyy
  subst hx1 hy1
  have hsa : toSigned (wa, a) = toSigned (W + 1, x) := (hxs.trans has).symm
  have hsb : toSigned (wb, b) = toSigned (W + 1, y) := (hys.trans hbs).symm
  rw [← hxs] at hra
  rw [← hys] at hrb
  rw [hsa, hsb]
  -- the (W+2)-bit sum is exact, the low W+1 bits are the sum modulo 2^(W+1)
  have hP : 2 ^ (W + 1 + 1) = 2 * 2 ^ (W + 1) := by rw [Nat.pow_succ, Nat.mul_comm]
  have hsum : twoVarOp .add (W + 1, x) (W + 1, y) = (W + 1 + 1, x + y) := by
    simp only [twoVarOp, Nat.max_self, zeroExtended_self, Spec.comb]
    rw [Nat.mod_eq_of_lt (by omega)]
  rw [hsum]
  simp only [lowBits, Spec.comb, selectVal_range, Nat.mod_mod]
  refine ⟨trivial, ?_⟩
  have hH : 2 ^ (W + 1) = 2 * 2 ^ W := by rw [Nat.pow_succ, Nat.mul_comm]
  have hQ : 2 ^ W = 2 * 2 ^ (W - 1) := by
    rw [show W = (W - 1) + 1 by omega, Nat.pow_succ]; simp; ring
  have hrlt : (x + y) % 2 ^ (W + 1) < 2 ^ (W + 1) := Nat.mod_lt _ (Nat.two_pow_pos _)
  rw [toSigned_eq (W + 1) x (by omega) hxx] at hra ⊢
  rw [toSigned_eq (W + 1) y (by omega) hyy] at hrb ⊢
  rw [toSigned_eq (W + 1) _ (by omega) hrlt]
  simp only [Nat.add_sub_cancel] at *
  clear hsum hsa hsb hxs hys has hbs hX hY hA hB
  by_cases hov : x + y < 2 ^ (W + 1)
  · rw [Nat.mod_eq_of_lt hov]
    generalize 2 ^ (W - 1) = Q at *
    generalize 2 ^ W = H at *
    generalize 2 ^ (W + 1) = P at *
    subst hQ hH
    by_cases h1 : 2 * Q ≤ x <;> by_cases h2 : 2 * Q ≤ y <;> by_cases h3 : 2 * Q ≤ x + y <;>
      simp only [h1, h2, h3, ↓reduceIte] at hra hrb ⊢ <;> push_cast at hra hrb ⊢ <;> omega
  · have hmod : (x + y) % 2 ^ (W + 1) = x + y - 2 ^ (W + 1) := by
      rw [Nat.mod_eq_sub_mod (by omega), Nat.mod_eq_of_lt (by omega)]
    rw [hmod]
    generalize 2 ^ (W - 1) = Q at *
    generalize 2 ^ W = H at *
    generalize 2 ^ (W + 1) = P at *
    subst hQ hH
    have hge : 2 * (2 * Q) ≤ x + y := by omega
    by_cases h1 : 2 * Q ≤ x <;> by_cases h2 : 2 * Q ≤ y <;> by_cases h3 : 2 * Q ≤ x + y - 2 * (2 * Q) <;>
      simp only [h1, h2, h3, ↓reduceIte] at hra hrb ⊢ <;> push_cast [hge] at hra hrb ⊢ <;> omega


/-- an in-range value congruent to a signed number that fits reads as that number -/
theorem toSigned_congr (n r : Nat) (s k : Int) (hn : 0 < n) (hr : r < 2 ^ n)
    (h : (r : Int) = s + ((2 ^ n : Nat) : Int) * k)
    (hlo : -((2 ^ (n - 1) : Nat) : Int) ≤ s) (hhi : s < ((2 ^ (n - 1) : Nat) : Int)) :
    toSigned (n, r) = s := by
  rw [toSigned_eq n r hn hr]
  have h2 : 2 ^ n = 2 * 2 ^ (n - 1) := by
    rw [show n = (n - 1) + 1 by omega, Nat.pow_succ]; simp; ring
  have hP : (0 : Int) < ((2 ^ n : Nat) : Int) := by exact_mod_cast Nat.two_pow_pos n
  have hr' : (r : Int) < ((2 ^ n : Nat) : Int) := by exact_mod_cast hr
  have hr0 : (0 : Int) ≤ (r : Int) := Int.natCast_nonneg r
  have hk0 : 0 ≤ k := by
    by_contra hneg
    have : k ≤ -1 := by omega
    have : ((2 ^ n : Nat) : Int) * k ≤ ((2 ^ n : Nat) : Int) * (-1) := Int.mul_le_mul_of_nonneg_left this (le_of_lt hP)
    push_cast [h2] at *
    omega
  have hk1 : k ≤ 1 := by
    by_contra hbig
    have : 2 ≤ k := by omega
    have : ((2 ^ n : Nat) : Int) * 2 ≤ ((2 ^ n : Nat) : Int) * k := Int.mul_le_mul_of_nonneg_left this (le_of_lt hP)
    push_cast [h2] at *
    omega
  have hk : k = 0 ∨ k = 1 := by omega
  rcases hk with rfl | rfl
  · simp only [Int.mul_zero, Int.add_zero] at h
    have : ¬ 2 ^ (n - 1) ≤ r := by
      intro hc
      have : ((2 ^ (n - 1) : Nat) : Int) ≤ (r : Int) := by exact_mod_cast hc
      omega
    simp only [this, ↓reduceIte]; exact h
  · simp only [Int.mul_one] at h
    have : 2 ^ (n - 1) ≤ r := by
      have : ((2 ^ (n - 1) : Nat) : Int) ≤ (r : Int) := by push_cast [h2] at *; omega
      exact_mod_cast this
    simp only [this, ↓reduceIte]; omega

/-- **`signed_mult`**: sign-extend both to `len(a)+len(b)` bits, multiply, keep that many bits: exactly the
    product of the two's-complement values -/
theorem signedMult_exact (wa a wb b : Nat) (hwa : 0 < wa) (hwb : 0 < wb) (ha : a < 2 ^ wa) (hb : b < 2 ^ wb) :
    (signedMult (wa, a) (wb, b)).1 = wa + wb ∧
    toSigned (signedMult (wa, a) (wb, b)) = toSigned (wa, a) * toSigned (wb, b) := by
  unfold signedMult
  simp only []
  obtain ⟨hx1, hxx, hxs⟩ := sign_extend_value wa a (wa + wb) hwa ha (by omega)
  obtain ⟨hy1, hyy, hys⟩ := sign_extend_value wb b (wa + wb) hwb hb (by omega)
  have hra := toSigned_range wa a hwa ha
  have hrb := toSigned_range wb b hwb hb
  generalize hX : signExtended (wa, a) (wa + wb) = X at *
  generalize hY : signExtended (wb, b) (wa + wb) = Y at *
  obtain ⟨Xw, x⟩ := X
  obtain ⟨Yw, y⟩ := Y
  simp only at hx1 hy1 hxx hyy
  subst hx1 hy1
  rw [← hxs] at hra
  rw [← hys] at hrb
  rw [← hxs, ← hys]
  generalize hfl : wa + wb = fl at *
  have hfl0 : 0 < fl := by omega
  -- the 2·fl-bit product is exact; the low fl bits are the product modulo 2^fl
  have hprod : twoVarOp .mul (fl, x) (fl, y) = (fl * 2, x * y) := by
    simp only [twoVarOp, Nat.max_self, zeroExtended_self, Spec.comb]
    rw [Nat.mod_eq_of_lt (by rw [Nat.pow_mul, Nat.pow_two]; exact Nat.mul_lt_mul'' hxx hyy)]
  rw [hprod]
  simp only [lowBits, Spec.comb, selectVal_range, Nat.mod_mod]
  refine ⟨trivial, ?_⟩
  have hrlt : (x * y) % 2 ^ fl < 2 ^ fl := Nat.mod_lt _ (Nat.two_pow_pos _)
  -- x ≡ sx, y ≡ sy (mod 2^fl)
  have ex := toSigned_eq fl x hfl0 hxx
  have ey := toSigned_eq fl y hfl0 hyy
  set sx := toSigned (fl, x) with hsx
  set sy := toSigned (fl, y) with hsy
  obtain ⟨i, hi⟩ : ∃ i : Int, (x : Int) = sx + ((2 ^ fl : Nat) : Int) * i := by
    by_cases h : 2 ^ (fl - 1) ≤ x
    · exact ⟨1, by rw [ex]; simp only [h, ↓reduceIte]; ring⟩
    · exact ⟨0, by rw [ex]; simp only [h, ↓reduceIte]; ring⟩
  obtain ⟨j, hj⟩ : ∃ j : Int, (y : Int) = sy + ((2 ^ fl : Nat) : Int) * j := by
    by_cases h : 2 ^ (fl - 1) ≤ y
    · exact ⟨1, by rw [ey]; simp only [h, ↓reduceIte]; ring⟩
    · exact ⟨0, by rw [ey]; simp only [h, ↓reduceIte]; ring⟩
  have hdiv := Nat.div_add_mod (x * y) (2 ^ fl)
  apply toSigned_congr fl _ (sx * sy) (i * sy + j * sx + ((2 ^ fl : Nat) : Int) * i * j - ((x * y / 2 ^ fl : Nat) : Int)) hfl0 hrlt
  · have : ((x * y % 2 ^ fl : Nat) : Int) = (x : Int) * y - ((2 ^ fl : Nat) : Int) * ((x * y / 2 ^ fl : Nat) : Int) := by
      have := congrArg (fun n : Nat => (n : Int)) hdiv
      push_cast at this ⊢
      linarith
    rw [this, hi, hj]
    ring
  all_goals
    -- |sx·sy| ≤ 2^(wa-1)·2^(wb-1) = 2^(fl-2) < 2^(fl-1)
    have hA : (0 : Int) ≤ ((2 ^ (wa - 1) : Nat) : Int) := Int.natCast_nonneg _
    have hB : (0 : Int) ≤ ((2 ^ (wb - 1) : Nat) : Int) := Int.natCast_nonneg _
    have hAB : 2 * (2 ^ (wa - 1) * 2 ^ (wb - 1)) = 2 ^ (fl - 1) := by
      rw [← Nat.pow_add, ← Nat.pow_succ']
      congr 1; omega
    have hABi : 2 * (((2 ^ (wa - 1) : Nat) : Int) * ((2 ^ (wb - 1) : Nat) : Int)) = ((2 ^ (fl - 1) : Nat) : Int) := by
      exact_mod_cast hAB
    have hpos : (0 : Int) < ((2 ^ (wa - 1) : Nat) : Int) * ((2 ^ (wb - 1) : Nat) : Int) := by
      have h1 : (0 : Int) < ((2 ^ (wa - 1) : Nat) : Int) := by exact_mod_cast Nat.two_pow_pos _
      have h2 : (0 : Int) < ((2 ^ (wb - 1) : Nat) : Int) := by exact_mod_cast Nat.two_pow_pos _
      exact Int.mul_pos h1 h2
    obtain ⟨h1, h2⟩ := hra
    obtain ⟨h3, h4⟩ := hrb
    nlinarith [mul_nonneg (sub_nonneg.2 (le_of_lt h2)) (sub_nonneg.2 (le_of_lt h4)), mul_nonneg (sub_nonneg.2 h1) (sub_nonneg.2 h3),
      mul_nonneg (sub_nonneg.2 (le_of_lt h2)) (sub_nonneg.2 h3), mul_nonneg (sub_nonneg.2 h1) (sub_nonneg.2 (le_of_lt h4))]


/-! ### `rtllib.multipliers.signed_tree_multiplier` -/

/-- the magnitude that `_twos_comp_conditional(w, msb w)` produces -/
theorem twosComp_magnitude (w a : Nat) (hw : 0 < w) (ha : a < 2 ^ w) :
    (twosCompCond (w, a) (msb (w, a) == 1)).1 = w ∧
    (twosCompCond (w, a) (msb (w, a) == 1)).2 ≤ 2 ^ (w - 1) ∧
    (((twosCompCond (w, a) (msb (w, a) == 1)).2 : Nat) : Int) =
      (if 2 ^ (w - 1) ≤ a then -toSigned (w, a) else toSigned (w, a)) := by
  have h2 : 2 ^ w = 2 * 2 ^ (w - 1) := by
    rw [show w = (w - 1) + 1 by omega, Nat.pow_succ]; simp; ring
  have hp : 0 < 2 ^ (w - 1) := Nat.two_pow_pos _
  rw [toSigned_eq w a hw ha, msb_eq w a hw ha]
  by_cases h : 2 ^ (w - 1) ≤ a
  · simp only [h, ↓reduceIte, twosCompCond, beq_self_eq_true]
    have e : (2 ^ w - 1 - a + 1) % 2 ^ w = 2 ^ w - a := by
      rw [show 2 ^ w - 1 - a + 1 = 2 ^ w - a by omega]
      exact Nat.mod_eq_of_lt (by omega)
    rw [e]
    refine ⟨trivial, by omega, ?_⟩
    push_cast [Nat.cast_sub (le_of_lt ha)]
    ring
  · simp only [h, ↓reduceIte, twosCompCond]
    refine ⟨?_, ?_, ?_⟩ <;> simp <;> omega

theorem ite_one_beq (P : Prop) [Decidable P] : ((if P then (1 : Nat) else 0) == 1) = decide P := by
  by_cases h : P <;> simp [h]

/-- a small non-negative value reads as itself -/
theorem toSigned_small (W p : Nat) (hW : 2 ≤ W) (hp : p ≤ 2 ^ (W - 2)) : toSigned (W, p) = (p : Int) := by
  have h4 : 2 ^ W = 4 * 2 ^ (W - 2) := by
    rw [show W = (W - 2) + 2 by omega, Nat.pow_add]; simp; ring
  have h2 : 2 ^ (W - 1) = 2 * 2 ^ (W - 2) := by
    rw [show W - 1 = (W - 2) + 1 by omega, Nat.pow_succ]; ring
  have hq : 0 < 2 ^ (W - 2) := Nat.two_pow_pos _
  have h2i : ((2 ^ (W - 1) : Nat) : Int) = 2 * ((2 ^ (W - 2) : Nat) : Int) := by exact_mod_cast h2
  have hpi : (p : Int) ≤ ((2 ^ (W - 2) : Nat) : Int) := by exact_mod_cast hp
  have hqi : (0 : Int) < ((2 ^ (W - 2) : Nat) : Int) := by exact_mod_cast hq
  apply toSigned_congr W p (p : Int) 0 (by omega) (by omega)
  · simp
  · rw [h2i]; omega
  · rw [h2i]; omega

/-- the conditional two's complement of a small value reads as its negation -/
theorem toSigned_neg_small (W p : Nat) (hW : 2 ≤ W) (hp : p ≤ 2 ^ (W - 2)) :
    toSigned (W, (2 ^ W - 1 - p + 1) % 2 ^ W) = -(p : Int) := by
  have h4 : 2 ^ W = 4 * 2 ^ (W - 2) := by
    rw [show W = (W - 2) + 2 by omega, Nat.pow_add]; simp; ring
  have h2 : 2 ^ (W - 1) = 2 * 2 ^ (W - 2) := by
    rw [show W - 1 = (W - 2) + 1 by omega, Nat.pow_succ]; ring
  have hq : 0 < 2 ^ (W - 2) := Nat.two_pow_pos _
  have h2i : ((2 ^ (W - 1) : Nat) : Int) = 2 * ((2 ^ (W - 2) : Nat) : Int) := by exact_mod_cast h2
  have hpi : (p : Int) ≤ ((2 ^ (W - 2) : Nat) : Int) := by exact_mod_cast hp
  have hqi : (0 : Int) < ((2 ^ (W - 2) : Nat) : Int) := by exact_mod_cast hq
  have hp0 : (0 : Int) ≤ (p : Int) := Int.natCast_nonneg p
  have e : 2 ^ W - 1 - p + 1 = 2 ^ W - p := by omega
  rw [e]
  by_cases h0 : p = 0
  · subst h0
    simp only [Nat.sub_zero, Nat.mod_self]
    apply toSigned_congr W 0 _ 0 (by omega) (Nat.two_pow_pos _)
    · simp
    · rw [h2i]; simp
    · rw [h2i]; simp
  · rw [Nat.mod_eq_of_lt (by omega)]
    apply toSigned_congr W _ _ 1 (by omega) (by omega)
    · rw [Nat.cast_sub (by omega : p ≤ 2 ^ W)]; ring
    · rw [h2i]; omega
    · rw [h2i]; omega

theorem signedTreeMult_exact (mul : Sig → Sig → Sig) (hmul : ∀ x y : Sig, mul x y = (x.1 + y.1, x.2 * y.2))
    (wa a wb b : Nat) (hwa : 0 < wa) (hwb : 0 < wb) (ha : a < 2 ^ wa) (hb : b < 2 ^ wb) :
    (signedTreeMult mul (wa, a) (wb, b)).1 = wa + wb ∧
    toSigned (signedTreeMult mul (wa, a) (wb, b)) = toSigned (wa, a) * toSigned (wb, b) := by
  unfold signedTreeMult
  simp only []
  obtain ⟨hA1, hAle, hAv⟩ := twosComp_magnitude wa a hwa ha
  obtain ⟨hB1, hBle, hBv⟩ := twosComp_magnitude wb b hwb hb
  generalize twosCompCond (wa, a) (msb (wa, a) == 1) = X at *
  generalize twosCompCond (wb, b) (msb (wb, b) == 1) = Y at *
  obtain ⟨Xw, x⟩ := X
  obtain ⟨Yw, y⟩ := Y
  simp only at hA1 hB1 hAle hBle hAv hBv
  subst hA1 hB1
  rw [hmul]
  simp only [zeroExtended_self]
  have hW2 : 2 ≤ Xw + Yw := by omega
  have hpw : 2 ^ (Xw - 1) * 2 ^ (Yw - 1) = 2 ^ (Xw + Yw - 2) := by
    rw [← Nat.pow_add]; congr 1; omega
  have hple : x * y ≤ 2 ^ (Xw + Yw - 2) := by rw [← hpw]; exact Nat.mul_le_mul hAle hBle
  rw [msb_eq Xw a hwa ha, msb_eq Yw b hwb hb, ite_one_beq, ite_one_beq]
  have hxy : (((x * y : Nat)) : Int) = (x : Int) * (y : Int) := by push_cast; ring
  by_cases h1 : 2 ^ (Xw - 1) ≤ a <;> by_cases h2 : 2 ^ (Yw - 1) ≤ b <;>
    simp only [h1, h2, ↓reduceIte, decide_true, decide_false, bne_self_eq_false, Bool.true_bne, Bool.false_bne,
      Bool.not_true, Bool.not_false, twosCompCond, Bool.false_eq_true] at hAv hBv ⊢
  · exact ⟨trivial, by rw [toSigned_small _ _ hW2 hple, hxy, hAv, hBv]; ring⟩
  · exact ⟨trivial, by rw [toSigned_neg_small _ _ hW2 hple, hxy, hAv, hBv]; ring⟩
  · exact ⟨trivial, by rw [toSigned_neg_small _ _ hW2 hple, hxy, hAv, hBv]; ring⟩
  · exact ⟨trivial, by rw [toSigned_small _ _ hW2 hple, hxy, hAv, hBv]⟩

end Pyrtl.Ops
