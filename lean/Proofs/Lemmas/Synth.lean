import Model.Pass.Synth
/-! Correctness of the bit-level generators for every length. -/
namespace Pyrtl.Synth

theorem oneBitAdd_spec (a b c : Bool) :
    b2n (oneBitAdd a b c).1 + 2 * b2n (oneBitAdd a b c).2 = b2n a + b2n b + b2n c := by
  cases a <;> cases b <;> cases c <;> rfl

theorem toNat_lt (l : List Bool) : toNat l < 2 ^ l.length := by
  induction l with
  | nil => simp [toNat]
  | cons b bs ih =>
    simp only [toNat, List.length_cons, Nat.pow_succ]
    have : b2n b ≤ 1 := by cases b <;> simp [b2n]
    omega

theorem toNat_append (l m : List Bool) : toNat (l ++ m) = toNat l + 2 ^ l.length * toNat m := by
  induction l with
  | nil => simp [toNat]
  | cons b bs ih =>
    simp only [List.cons_append, toNat, ih, List.length_cons, Nat.pow_succ]
    rw [Nat.mul_add, Nat.mul_comm (2 ^ bs.length) 2, Nat.mul_assoc]
    omega

theorem addHelper_length (a b : List Bool) (c : Bool) (h : a.length = b.length) :
    (addHelper a b c).1.length = a.length := by
  induction a generalizing b c with
  | nil => simp [addHelper]
  | cons x xs ih =>
    cases b with
    | nil => simp at h
    | cons y ys =>
      simp only [addHelper, List.length_cons]
      rw [ih ys _ (by simpa using h)]

/-- ripple-carry adder: sum bits and carry out represent `a + b + cin` exactly, for every length -/
theorem addHelper_spec (a b : List Bool) (c : Bool) (h : a.length = b.length) :
    toNat (addHelper a b c).1 + 2 ^ a.length * b2n (addHelper a b c).2
      = toNat a + toNat b + b2n c := by
  induction a generalizing b c with
  | nil =>
    cases b with
    | nil => simp [addHelper, toNat]
    | cons _ _ => simp at h
  | cons x xs ih =>
    cases b with
    | nil => simp at h
    | cons y ys =>
      have hl : xs.length = ys.length := by simpa using h
      have h1 := oneBitAdd_spec x y c
      have h2 := ih ys (oneBitAdd x y c).2 hl
      simp only [addHelper, toNat, List.length_cons, Nat.pow_succ]
      rw [Nat.mul_comm (2 ^ xs.length) 2, Nat.mul_assoc]
      omega

theorem basicAdd_spec (a b : List Bool) (h : a.length = b.length) :
    toNat (basicAdd a b) = toNat a + toNat b := by
  have := addHelper_spec a b false h
  simp only [basicAdd, toNat_append, addHelper_length a b false h]
  cases hc : (addHelper a b false).2 <;> simp [hc, b2n, toNat] at this ⊢ <;> omega

theorem basicAdd_length (a b : List Bool) (h : a.length = b.length) :
    (basicAdd a b).length = a.length + 1 := by
  simp [basicAdd, addHelper_length a b false h]

theorem emod_eq_of_rep (B A M k : Int) (h : B = A + M * k) (h0 : 0 ≤ A) (h1 : A < M) :
    A = B % M := by
  rw [h, Int.add_mul_emod_self_left, Int.emod_eq_of_lt h0 h1]

theorem toNat_map_not (b : List Bool) : toNat (b.map not) = 2 ^ b.length - 1 - toNat b := by
  induction b with
  | nil => simp [toNat]
  | cons x xs ih =>
    have hlt := toNat_lt xs
    simp only [List.map_cons, toNat, ih, List.length_cons, Nat.pow_succ]
    cases x <;> simp [b2n] <;> omega

/-- `_basic_sub`: the `len+1`-bit result is `a - b` modulo `2^(len+1)` (two's-complement wrap) -/
theorem basicSub_spec (a b : List Bool) (h : a.length = b.length) :
    (toNat (basicSub a b) : Int) = ((toNat a : Int) - (toNat b : Int)) % ((2 ^ (a.length + 1) : Nat) : Int) := by
  have hb : (b.map not).length = b.length := by simp
  have hs := addHelper_spec a (b.map not) true (by rw [hb]; exact h)
  have hlen := addHelper_length a (b.map not) true (by rw [hb]; exact h)
  rw [toNat_map_not] at hs
  have hla := toNat_lt a
  have hlb := toNat_lt b
  rw [← h] at hlb hs
  have hsl := toNat_lt (addHelper a (b.map not) true).1
  rw [hlen] at hsl
  simp only [basicSub, toNat_append, hlen, toNat]
  generalize hP : 2 ^ a.length = P at *
  have hP2 : 2 ^ (a.length + 1) = 2 * P := by rw [Nat.pow_succ, hP, Nat.mul_comm]
  rw [hP2]
  generalize toNat (addHelper a (b.map not) true).1 = s at *
  generalize toNat a = x at *
  generalize toNat b = y at *
  cases hc : (addHelper a (b.map not) true).2 <;> simp [hc, b2n] at hs
  · -- no carry: a < b, the result is s + P and a - b is negative
    apply emod_eq_of_rep _ _ _ (-1)
    · simp [b2n]; push_cast; omega
    · simp [b2n]; omega
    · simp [b2n]; push_cast; omega
  · apply emod_eq_of_rep _ _ _ 0
    · simp [b2n]; push_cast; omega
    · simp [b2n]
    · simp [b2n]; push_cast; omega

theorem xor_any_false_iff (a b : List Bool) (h : a.length = b.length) :
    (List.zipWith xor a b).any id = false ↔ a = b := by
  induction a generalizing b with
  | nil => cases b <;> simp_all
  | cons x xs ih =>
    cases b with
    | nil => simp at h
    | cons y ys =>
      have hl : xs.length = ys.length := by simpa using h
      simp only [List.zipWith_cons_cons, List.any_cons, id, Bool.or_eq_false_iff, ih ys hl,
        List.cons.injEq]
      cases x <;> cases y <;> simp

theorem toNat_inj (a b : List Bool) (h : a.length = b.length) (e : toNat a = toNat b) : a = b := by
  induction a generalizing b with
  | nil => cases b <;> simp_all
  | cons x xs ih =>
    cases b with
    | nil => simp at h
    | cons y ys =>
      have hl : xs.length = ys.length := by simpa using h
      simp only [toNat] at e
      have hx : b2n x = b2n y := by cases x <;> cases y <;> simp [b2n] at e ⊢ <;> omega
      have : toNat xs = toNat ys := by omega
      rw [ih ys hl this]
      cases x <;> cases y <;> simp_all [b2n]

theorem basicEq_spec (a b : List Bool) (h : a.length = b.length) :
    toNat (basicEq a b) = if toNat a = toNat b then 1 else 0 := by
  simp only [basicEq, toNat]
  by_cases e : a = b
  · subst e
    have := (xor_any_false_iff a a rfl).mpr rfl
    simp [this, b2n]
  · have hne : toNat a ≠ toNat b := fun q => e (toNat_inj a b h q)
    have : (List.zipWith xor a b).any id = true := by
      cases hc : (List.zipWith xor a b).any id
      · exact absurd ((xor_any_false_iff a b h).mp hc) e
      · rfl
    simp [this, b2n, hne]

/-- invariant of the MSB-wards comparison chain -/
theorem ltAcc_spec (a b : List Bool) (acc : Bool) (h : a.length = b.length) :
    ltAcc a b acc = decide (toNat a < toNat b ∨ (toNat a = toNat b ∧ acc = true)) := by
  induction a generalizing b acc with
  | nil => cases b <;> simp_all [ltAcc, toNat]
  | cons x xs ih =>
    cases b with
    | nil => simp at h
    | cons y ys =>
      have hl : xs.length = ys.length := by simpa using h
      simp only [ltAcc, toNat]
      rw [ih ys _ hl]
      clear ih h hl
      apply decide_eq_decide.mpr
      cases x <;> cases y <;> cases acc <;> simp [b2n] <;> omega

theorem basicLt_spec (a b : List Bool) (h : a.length = b.length) :
    toNat (basicLt a b) = if toNat a < toNat b then 1 else 0 := by
  simp only [basicLt, toNat, ltAcc_spec a b false h]
  by_cases e : toNat a < toNat b <;> simp [e, b2n]

theorem basicGt_spec (a b : List Bool) (h : a.length = b.length) :
    toNat (basicGt a b) = if toNat a > toNat b then 1 else 0 :=
  basicLt_spec b a h.symm

theorem basicSelect_spec (s : Bool) (a b : List Bool) (h : a.length = b.length) :
    basicSelect s a b = if s then b else a := by
  induction a generalizing b with
  | nil => cases b <;> simp_all [basicSelect]
  | cons x xs ih =>
    cases b with
    | nil => simp at h
    | cons y ys =>
      have hl : xs.length = ys.length := by simpa using h
      have := ih ys hl
      simp only [basicSelect, List.zipWith_cons_cons] at this ⊢
      rw [this]
      cases s <;> simp

end Pyrtl.Synth
