import Model.Lib.Wallace
import Proofs.Lemmas.Mult
import Proofs.Lemmas.Adders
/-! The Wallace reducer returns the weighted column sum modulo `2^result_bitwidth`. -/
namespace Pyrtl.Adders
open Pyrtl.Synth

theorem colsVal_append_nils (cols : List (List Bool)) (k : Nat) :
    colsVal (cols ++ List.replicate k []) = colsVal cols := by
  induction cols with
  | nil => simpa [colsVal] using colsVal_replicate k
  | cons c cs ih => simp [colsVal, ih]

theorem padCols_val (cols : List (List Bool)) (W : Nat) : colsVal (padCols cols W) = colsVal cols :=
  colsVal_append_nils _ _

theorem padCols_length (cols : List (List Bool)) (W : Nat) (h : cols.length ≤ W) :
    (padCols cols W).length = W := by
  simp [padCols]; omega

theorem AllLe_maxHeight (cols : List (List Bool)) : AllLe (maxHeight cols) cols := by
  induction cols with
  | nil => intro c hc; simp at hc
  | cons c cs ih =>
    intro x hx
    simp only [List.mem_cons] at hx
    rcases hx with rfl | hx
    · exact Nat.le_max_left _ _
    · exact Nat.le_trans (ih x hx) (Nat.le_max_right _ _)

theorem AllLe_pad (M : Nat) (cols : List (List Bool)) (W : Nat) (h : AllLe M cols) : AllLe M (padCols cols W) := by
  intro c hc
  simp only [padCols, List.mem_append, List.mem_replicate] at hc
  rcases hc with hc | ⟨_, rfl⟩
  · exact h c hc
  · simp

/-- `_sparse_adder` with an exact final adder returns the weighted column sum -/
theorem sparseAdd_val (adder : List Bool → List Bool → List Bool)
    (hadd : ∀ a b, toNat (adder a b) = toNat a + toNat b) (cols : List (List Bool))
    (h : allLe2 cols = true) : toNat (sparseAdd adder cols) = colsVal cols := by
  induction cols with
  | nil => rfl
  | cons c cs ih =>
    unfold sparseAdd
    split
    · rw [hadd, rows_val _ h]
    · rename_i hne
      have h' : allLe2 cs = true := by
        simp only [allLe2, List.all_cons, Bool.and_eq_true] at h ⊢; exact h.2
      have hc : c.length ≤ 2 := by
        simp only [allLe2, List.all_cons, Bool.and_eq_true, decide_eq_true_eq] at h; exact h.1
      simp only [toNat, colsVal, ih h']
      have : b2n (c.getD 0 false) = colVal c := by
        match c, hc, hne with
        | [], _, _ => rfl
        | [x], _, _ => simp [colVal]
        | [x, y], _, hne => simp at hne
      omega

theorem toNat_lt_of_length_le (l : List Bool) (W : Nat) (h : l.length ≤ W) : toNat l < 2 ^ W :=
  lt_of_lt_of_le (toNat_lt l) (Nat.pow_le_pow_right (by decide) h)

/-- **`wallace_reducer`** returns the weighted sum of its columns modulo `2^result_bitwidth` -/
theorem wallaceReducer_val (adder : List Bool → List Bool → List Bool)
    (hadd : ∀ a b, toNat (adder a b) = toNat a + toNat b)
    (cols : List (List Bool)) (W : Nat) (hW : cols.length ≤ W) :
    toNat (wallaceReducer adder cols W) = colsVal cols % 2 ^ W := by
  unfold wallaceReducer
  -- the reduced array: height ≤ 2, same value modulo 2^W
  have key : ∀ red, red = (if allLe2 cols then cols else reduceLoop (maxHeight cols + 1) (padCols cols W)) →
      allLe2 red = true ∧ colsVal red % 2 ^ W = colsVal cols % 2 ^ W := by
    intro red hred
    by_cases h2 : allLe2 cols = true
    · simp only [h2, if_true] at hred; subst hred; exact ⟨h2, rfl⟩
    · simp only [h2] at hred
      subst hred
      refine ⟨reduceLoop_done _ (maxHeight cols) _ (AllLe_pad _ _ _ (AllLe_maxHeight cols)) (by omega), ?_⟩
      have := (reduceLoop_val (maxHeight cols + 1) (padCols cols W)).2
      rw [padCols_length _ _ hW, padCols_val] at this
      exact this
  simp only []
  generalize hred : (if allLe2 cols then cols else reduceLoop (maxHeight cols + 1) (padCols cols W)) = red
  obtain ⟨hle, hval⟩ := key red hred.symm
  have hs := sparseAdd_val adder hadd red hle
  by_cases hlen : (sparseAdd adder red).length > W
  · rw [if_pos hlen, toNat_take, hs, hval]
  · rw [if_neg hlen]
    have hlt := toNat_lt_of_length_le (sparseAdd adder red) W (by omega)
    rw [← Nat.mod_eq_of_lt hlt, hs, hval]

/-! ### columns built from whole wires (`fast_group_adder`) -/

theorem pushWire_length (cols : List (List Bool)) (w : List Bool) : (pushWire cols w).length = cols.length := by
  induction cols generalizing w with
  | nil => cases w <;> rfl
  | cons c cs ih => cases w with
    | nil => rfl
    | cons b bs => simp [pushWire, ih]

theorem colVal_snoc (c : List Bool) (b : Bool) : colVal (c ++ [b]) = colVal c + b2n b := by
  rw [colVal_append]; simp [colVal]

theorem pushWire_val (cols : List (List Bool)) (w : List Bool) (h : w.length ≤ cols.length) :
    colsVal (pushWire cols w) = colsVal cols + toNat w := by
  induction cols generalizing w with
  | nil => cases w with
    | nil => rfl
    | cons b bs => simp at h
  | cons c cs ih => cases w with
    | nil => simp [pushWire, toNat]
    | cons b bs =>
      simp only [List.length_cons, Nat.add_le_add_iff_right] at h
      simp only [pushWire, colsVal, colVal_snoc, ih bs h, toNat]
      omega

theorem foldl_pushWire (ws : List (List Bool)) (cols : List (List Bool))
    (h : ∀ w ∈ ws, w.length ≤ cols.length) :
    (ws.foldl pushWire cols).length = cols.length ∧
    colsVal (ws.foldl pushWire cols) = colsVal cols + (ws.map toNat).sum := by
  induction ws generalizing cols with
  | nil => simp
  | cons w ws ih =>
    simp only [List.foldl_cons, List.map_cons, List.sum_cons]
    have hw := h w (by simp)
    obtain ⟨hl, hv⟩ := ih (pushWire cols w) (fun x hx => by
      rw [pushWire_length]; exact h x (by simp [hx]))
    rw [pushWire_length] at hl
    refine ⟨hl, ?_⟩
    rw [hv, pushWire_val _ _ hw]; omega

theorem le_maxLen (ws : List (List Bool)) : ∀ w ∈ ws, w.length ≤ maxLen ws := by
  induction ws with
  | nil => intro w hw; simp at hw
  | cons x xs ih =>
    intro w hw
    simp only [List.mem_cons] at hw
    rcases hw with rfl | hw
    · exact Nat.le_max_left _ _
    · exact Nat.le_trans (ih w hw) (Nat.le_max_right _ _)

theorem le_two_pow_clog2 (n : Nat) : n ≤ 2 ^ clog2 n := by
  unfold clog2
  cases h : (List.range (n + 1)).find? (fun k => n ≤ 2 ^ k) with
  | none => simp only [Option.getD_none]; exact Nat.le_of_lt Nat.lt_two_pow_self
  | some k =>
    simp only [Option.getD_some]
    have := List.find?_some h
    simpa using this

theorem sum_toNat_lt (ws : List (List Bool)) (L : Nat) (h : ∀ w ∈ ws, w.length ≤ L) :
    (ws.map toNat).sum + ws.length ≤ ws.length * 2 ^ L := by
  induction ws with
  | nil => simp
  | cons w ws ih =>
    have hw := toNat_lt_of_length_le w L (h w (by simp))
    have := ih (fun x hx => h x (by simp [hx]))
    simp only [List.map_cons, List.sum_cons, List.length_cons, Nat.succ_mul]
    omega

/-! ### `generalized_fma`: columns from products and addends -/

theorem pushProd_eq (cols : List (List Bool)) (ab : List Bool × List Bool) :
    pushProd cols ab = (ab.1.zipIdx).foldl (pushRow ab.2) cols := rfl

theorem pushProd_val (cols : List (List Bool)) (ab : List Bool × List Bool)
    (h : ab.1.length + ab.2.length ≤ cols.length + 1) :
    (pushProd cols ab).length = cols.length ∧
    colsVal (pushProd cols ab) = colsVal cols + toNat ab.1 * toNat ab.2 := by
  have := outer_val ab.1 ab.2 0 cols (by omega) (Or.inr trivial)
  rw [pushProd_eq]
  simpa using this

theorem foldl_pushProd (pairs : List (List Bool × List Bool)) (cols : List (List Bool))
    (h : ∀ p ∈ pairs, p.1.length + p.2.length ≤ cols.length + 1) :
    (pairs.foldl pushProd cols).length = cols.length ∧
    colsVal (pairs.foldl pushProd cols) = colsVal cols + (pairs.map fun p => toNat p.1 * toNat p.2).sum := by
  induction pairs generalizing cols with
  | nil => simp
  | cons p ps ih =>
    simp only [List.foldl_cons, List.map_cons, List.sum_cons]
    obtain ⟨hl1, hv1⟩ := pushProd_val cols p (h p (by simp))
    obtain ⟨hl, hv⟩ := ih (pushProd cols p) (fun x hx => by rw [hl1]; exact h x (by simp [hx]))
    rw [hl1] at hl
    refine ⟨hl, ?_⟩
    rw [hv, hv1]; omega

theorem le_maxList (xs : List Nat) : ∀ x ∈ xs, x ≤ maxList xs := by
  induction xs with
  | nil => intro x hx; simp at hx
  | cons y ys ih =>
    intro x hx
    simp only [List.mem_cons] at hx
    rcases hx with rfl | hx
    · exact Nat.le_max_left _ _
    · exact Nat.le_trans (ih x hx) (Nat.le_max_right _ _)

theorem lt_two_pow_bitLength (n : Nat) : n < 2 ^ bitLength n := by
  unfold bitLength
  cases h : (List.range (n + 1)).find? (fun k => n < 2 ^ k) with
  | none => simp only [Option.getD_none]; exact Nat.lt_two_pow_self
  | some k =>
    simp only [Option.getD_some]
    have := List.find?_some h
    simpa using this

theorem sum_prod_le (pairs : List (List Bool × List Bool)) :
    (pairs.map fun p => toNat p.1 * toNat p.2).sum ≤
      (pairs.map fun p => (2 ^ p.1.length - 1) * (2 ^ p.2.length - 1)).sum := by
  induction pairs with
  | nil => simp
  | cons p ps ih =>
    simp only [List.map_cons, List.sum_cons]
    have h1 := toNat_lt p.1
    have h2 := toNat_lt p.2
    have : toNat p.1 * toNat p.2 ≤ (2 ^ p.1.length - 1) * (2 ^ p.2.length - 1) :=
      Nat.mul_le_mul (by omega) (by omega)
    omega

theorem sum_add_le (adds : List (List Bool)) :
    (adds.map toNat).sum ≤ (adds.map fun w => 2 ^ w.length - 1).sum := by
  induction adds with
  | nil => simp
  | cons w ws ih =>
    simp only [List.map_cons, List.sum_cons]
    have := toNat_lt w
    omega

/-! ### `carrysave_adder` -/

theorem carrysave_bits (a b c : List Bool) (h1 : a.length = b.length) (h2 : b.length = c.length) :
    toNat (List.zipWith (fun x yz => xor (xor x yz.1) yz.2) a (List.zip b c)) +
    2 * toNat (List.zipWith (fun x yz => (x || yz.1) && (x || yz.2) && (yz.1 || yz.2)) a (List.zip b c))
      = toNat a + toNat b + toNat c := by
  induction a generalizing b c with
  | nil => cases b <;> cases c <;> simp_all [toNat]
  | cons x xs ih =>
    match b, c, h1, h2 with
    | y :: ys, z :: zs, h1, h2 =>
      simp only [List.length_cons, Nat.add_right_cancel_iff] at h1 h2
      have := ih ys zs h1 h2
      simp only [List.zip_cons_cons, List.zipWith_cons_cons, toNat]
      have hb : b2n (xor (xor x y) z) + 2 * b2n ((x || y) && (x || z) && (y || z)) = b2n x + b2n y + b2n z := by
        cases x <;> cases y <;> cases z <;> rfl
      omega

end Pyrtl.Adders
