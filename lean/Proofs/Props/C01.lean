import Model.Sim.PySim
namespace Pyrtl.C01
theorem placeholder : True := trivial
end Pyrtl.C01
