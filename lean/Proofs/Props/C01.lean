import Proofs.Lemmas.PySimOps
import Proofs.Lemmas.EvalOrder
import Proofs.Lemmas.Fast
/-!
# C01 — `pyrtl.Simulation` computes the documented cycle semantics

Property theorems only (helper lemmas live in `Proofs/Lemmas`).
`PySim` is the impl model of `simulation.py` (its per-op arithmetic is *regenerated from the source*
into `Model/Gen/SimpleFunc.lean` on every run); `Spec` is the documented op table.
-/
namespace Pyrtl.C01
open Pyrtl Pyrtl.PySim

/-- every argument value fits its wire's bitwidth -/
def InRange (args : List (Nat × Nat)) : Prop := ∀ p ∈ args, p.2 < 2 ^ p.1

/-- the argument list as Python ints -/
def castArgs (args : List (Nat × Nat)) : List (Nat × Int) := args.map fun p => (p.1, (p.2 : Int))

theorem exec_zero (dw : Nat) : (Gen.SimpleFunc.sanitize 0 (mask dw)).toNat = 0 := by
  have := san_nat 0 dw; simpa using this

local macro "shape_other" : tactic =>
  `(tactic| simp [castArgs, PySim.exec, PySim.rawExec, Spec.comb, exec_zero])

/-- **Per-net semantics, every op, all widths, all in-range values**: what `_execute` followed by
    `_sanitize` stores equals the documented integer function truncated to the destination width.
    (`~x & mask`, `(l - r) & mask` on a negative difference, the carry-out of `+`, mux polarity,
    `c` argument order and repeated / reversed `s` indices are all settled here.)  For an argument
    list of the wrong length both sides are 0 (such nets are rejected by `sanity_check`, C10). -/
theorem pysim_exec_eq_spec (op : Op) (args : List (Nat × Nat)) (dw : Nat) (hr : InRange args) :
    PySim.exec op (castArgs args) dw = Spec.comb op args dw := by
  cases op with
  | concat => exact exec_concat args dw hr
  | select idx =>
    rcases args with _ | ⟨⟨w1, a1⟩, _ | ⟨⟨w2, a2⟩, rest⟩⟩
    · shape_other
    · exact exec_select idx w1 a1 dw
    · shape_other
  | w =>
    rcases args with _ | ⟨⟨w1, a1⟩, _ | ⟨⟨w2, a2⟩, rest⟩⟩
    · shape_other
    · exact exec_w w1 a1 dw
    · shape_other
  | inv =>
    rcases args with _ | ⟨⟨w1, a1⟩, _ | ⟨⟨w2, a2⟩, rest⟩⟩
    · shape_other
    · exact exec_inv w1 a1 dw
    · shape_other
  | mux =>
    rcases args with _ | ⟨⟨w1, a1⟩, _ | ⟨⟨w2, a2⟩, _ | ⟨⟨w3, a3⟩, _ | ⟨⟨w4, a4⟩, rest⟩⟩⟩⟩
    · shape_other
    · shape_other
    · shape_other
    · exact exec_mux w1 w2 w3 a1 a2 a3 dw
    · shape_other
  | reg => shape_other
  | mread m => shape_other
  | mwrite m => shape_other
  | and =>
    rcases args with _ | ⟨⟨w1, a1⟩, _ | ⟨⟨w2, a2⟩, _ | ⟨⟨w3, a3⟩, rest⟩⟩⟩
    · shape_other
    · shape_other
    · exact exec_and w1 w2 a1 a2 dw
    · shape_other
  | or =>
    rcases args with _ | ⟨⟨w1, a1⟩, _ | ⟨⟨w2, a2⟩, _ | ⟨⟨w3, a3⟩, rest⟩⟩⟩
    · shape_other
    · shape_other
    · exact exec_or w1 w2 a1 a2 dw
    · shape_other
  | xor =>
    rcases args with _ | ⟨⟨w1, a1⟩, _ | ⟨⟨w2, a2⟩, _ | ⟨⟨w3, a3⟩, rest⟩⟩⟩
    · shape_other
    · shape_other
    · exact exec_xor w1 w2 a1 a2 dw
    · shape_other
  | nand =>
    rcases args with _ | ⟨⟨w1, a1⟩, _ | ⟨⟨w2, a2⟩, _ | ⟨⟨w3, a3⟩, rest⟩⟩⟩
    · shape_other
    · shape_other
    · exact exec_nand w1 w2 a1 a2 dw
    · shape_other
  | add =>
    rcases args with _ | ⟨⟨w1, a1⟩, _ | ⟨⟨w2, a2⟩, _ | ⟨⟨w3, a3⟩, rest⟩⟩⟩
    · shape_other
    · shape_other
    · exact exec_add w1 w2 a1 a2 dw
    · shape_other
  | sub =>
    rcases args with _ | ⟨⟨w1, a1⟩, _ | ⟨⟨w2, a2⟩, _ | ⟨⟨w3, a3⟩, rest⟩⟩⟩
    · shape_other
    · shape_other
    · exact exec_sub w1 w2 a1 a2 dw
    · shape_other
  | mul =>
    rcases args with _ | ⟨⟨w1, a1⟩, _ | ⟨⟨w2, a2⟩, _ | ⟨⟨w3, a3⟩, rest⟩⟩⟩
    · shape_other
    · shape_other
    · exact exec_mul w1 w2 a1 a2 dw
    · shape_other
  | lt =>
    rcases args with _ | ⟨⟨w1, a1⟩, _ | ⟨⟨w2, a2⟩, _ | ⟨⟨w3, a3⟩, rest⟩⟩⟩
    · shape_other
    · shape_other
    · exact exec_lt w1 w2 a1 a2 dw
    · shape_other
  | gt =>
    rcases args with _ | ⟨⟨w1, a1⟩, _ | ⟨⟨w2, a2⟩, _ | ⟨⟨w3, a3⟩, rest⟩⟩⟩
    · shape_other
    · shape_other
    · exact exec_gt w1 w2 a1 a2 dw
    · shape_other
  | eq =>
    rcases args with _ | ⟨⟨w1, a1⟩, _ | ⟨⟨w2, a2⟩, _ | ⟨⟨w3, a3⟩, rest⟩⟩⟩
    · shape_other
    · shape_other
    · exact exec_eq w1 w2 a1 a2 dw
    · shape_other

/-- Every value `Simulation` stores for a net destination lies in `[0, 2^bitwidth)`. -/
theorem pysim_value_lt (op : Op) (args : List (Nat × Int)) (dw : Nat) :
    PySim.exec op args dw < 2 ^ dw := by
  unfold PySim.exec
  rw [san_int]
  have hpos : (0 : Int) < ((2 ^ dw : Nat) : Int) := by exact_mod_cast Nat.two_pow_pos dw
  have h1 := Int.emod_lt_of_pos (PySim.rawExec op args) hpos
  have h0 := Int.emod_nonneg (PySim.rawExec op args) (Int.ne_of_gt hpos)
  omega

/-- `_execute` of a whole net (memory reads included) equals the documented net function whenever
    the argument values fit the argument wires. -/
theorem pysim_netFun_eq_spec (b : Block) (st : State) (n : Net) (vals : List Nat)
    (hr : InRange ((n.args.map b.width).zip vals)) :
    PySim.netFun b st n vals = Pyrtl.netFun b st n vals := by
  unfold PySim.netFun Pyrtl.netFun
  cases hop : n.op with
  | mread m => simp only []; exact san_nat _ _
  | _ =>
    simp only []
    rw [show (n.args.map b.width).zip (vals.map Int.ofNat) = castArgs ((n.args.map b.width).zip vals) by
      simp [castArgs, List.zip_map_right]]
    exact pysim_exec_eq_spec _ _ _ hr

/-- **Whichever way ties are broken**: `Simulation` evaluates `ordered_nets` in whatever dependency
    order `Block.__iter__` produced; any two dependency orders of the same nets give every wire the
    same value (so the traced values do not depend on set/dict iteration order). -/
theorem pysim_order_independent (b : Block) (st : State) (o1 o2 : List Net) (e : Env)
    (hp : ∀ n, n ∈ o1 ↔ n ∈ o2) (h1 : isTopo o1 = true) (h2 : isTopo o2 = true) :
    ∀ w, PySim.execNets b st o1 e w = PySim.execNets b st o2 e w :=
  eval_any_topo_order _ o1 o2 e hp (isTopo_sound o1 h1) (isTopo_sound o2 h2)

/-- The same for the specification evaluator, plus: the value it computes is *the* consistent
    valuation (every net destination equals the documented function of its arguments), which
    exists and is unique for every netlist that has a dependency order. -/
theorem spec_order_independent (b : Block) (st : State) (o1 o2 : List Net) (e : Env)
    (hp : ∀ n, n ∈ o1 ↔ n ∈ o2) (h1 : isTopo o1 = true) (h2 : isTopo o2 = true) :
    ∀ w, evalNets b st o1 e w = evalNets b st o2 e w :=
  eval_any_topo_order _ o1 o2 e hp (isTopo_sound o1 h1) (isTopo_sound o2 h2)

theorem spec_consistent_exists_unique (b : Block) (st : State) (order : List Net) (e : Env)
    (h : isTopo order = true) :
    Consistent (Pyrtl.netFun b st) order e (evalNets b st order e) ∧
    ∀ v, Consistent (Pyrtl.netFun b st) order e v → ∀ w, v w = evalNets b st order e w :=
  ⟨evalSeq_consistent _ order e (isTopo_sound order h),
   fun v hv => consistent_unique _ order e v _ (isTopo_sound order h) hv
     (evalSeq_consistent _ order e (isTopo_sound order h))⟩

/-- The hash-map evaluator the compiled driver runs computes exactly `evalSeq` (so correspondence
    runs exercise the function the theorems are about). -/
theorem driver_evaluator_refines (f : Net → List Nat → Nat) (base : Env) (ns : List Net) :
    Fast.look (Fast.evalSeq f base ns {}) base = evalSeq f ns base := by
  rw [Fast.evalSeq_look]
  congr 1
  funext x
  simp [Fast.look]

-- non-vacuity: a concrete in-range argument list
example : InRange [(3, 5), (2, 3)] := by
  intro p hp; simp at hp; rcases hp with rfl | rfl <;> decide

-- the witness that decides subtraction order and two's-complement wrap: 2 - 5 at width 4 is 13
example : PySim.exec .sub (castArgs [(3, 2), (3, 5)]) 4 = 13 := by decide

end Pyrtl.C01
