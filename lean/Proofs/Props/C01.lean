import Proofs.Lemmas.PySimOps
import Proofs.Lemmas.EvalOrder
import Proofs.Lemmas.Fast
import Proofs.Lemmas.RunRefine
/-!
# C01 — `pyrtl.Simulation` computes the documented cycle semantics

Property theorems only (helper lemmas live in `Proofs/Lemmas`).
`PySim` is the impl model of `simulation.py` (its per-op arithmetic is *regenerated from the source*
into `Model/Gen/SimpleFunc.lean` on every run); `Spec` is the documented op table.
-/
namespace Pyrtl.C01
open Pyrtl Pyrtl.PySim

/-- every argument value fits its wire's bitwidth -/
def InRange (args : List (Nat × Nat)) : Prop := ∀ p ∈ args, p.2 < 2 ^ p.1

/-- the argument list as Python ints -/
def castArgs (args : List (Nat × Nat)) : List (Nat × Int) := args.map fun p => (p.1, (p.2 : Int))

theorem exec_zero (dw : Nat) : (Gen.SimpleFunc.sanitize 0 (mask dw)).toNat = 0 := by
  have := san_nat 0 dw; simpa using this

local macro "shape_other" : tactic =>
  `(tactic| simp [castArgs, PySim.exec, PySim.rawExec, Spec.comb, exec_zero])

/-- **Per-net semantics, every op, all widths, all in-range values**: what `_execute` followed by
    `_sanitize` stores equals the documented integer function truncated to the destination width.
    (`~x & mask`, `(l - r) & mask` on a negative difference, the carry-out of `+`, mux polarity,
    `c` argument order and repeated / reversed `s` indices are all settled here.)  For an argument
    list of the wrong length both sides are 0 (such nets are rejected by `sanity_check`, C10). -/
theorem pysim_exec_eq_spec (op : Op) (args : List (Nat × Nat)) (dw : Nat) (hr : InRange args) :
    PySim.exec op (castArgs args) dw = Spec.comb op args dw := by
  cases op with
  | concat => exact exec_concat args dw hr
  | select idx =>
    rcases args with _ | ⟨⟨w1, a1⟩, _ | ⟨⟨w2, a2⟩, rest⟩⟩
    · shape_other
    · exact exec_select idx w1 a1 dw
    · shape_other
  | w =>
    rcases args with _ | ⟨⟨w1, a1⟩, _ | ⟨⟨w2, a2⟩, rest⟩⟩
    · shape_other
    · exact exec_w w1 a1 dw
    · shape_other
  | inv =>
    rcases args with _ | ⟨⟨w1, a1⟩, _ | ⟨⟨w2, a2⟩, rest⟩⟩
    · shape_other
    · exact exec_inv w1 a1 dw
    · shape_other
  | mux =>
    rcases args with _ | ⟨⟨w1, a1⟩, _ | ⟨⟨w2, a2⟩, _ | ⟨⟨w3, a3⟩, _ | ⟨⟨w4, a4⟩, rest⟩⟩⟩⟩
    · shape_other
    · shape_other
    · shape_other
    · exact exec_mux w1 w2 w3 a1 a2 a3 dw
    · shape_other
  | reg => shape_other
  | mread m => shape_other
  | mwrite m => shape_other
  | and =>
    rcases args with _ | ⟨⟨w1, a1⟩, _ | ⟨⟨w2, a2⟩, _ | ⟨⟨w3, a3⟩, rest⟩⟩⟩
    · shape_other
    · shape_other
    · exact exec_and w1 w2 a1 a2 dw
    · shape_other
  | or =>
    rcases args with _ | ⟨⟨w1, a1⟩, _ | ⟨⟨w2, a2⟩, _ | ⟨⟨w3, a3⟩, rest⟩⟩⟩
    · shape_other
    · shape_other
    · exact exec_or w1 w2 a1 a2 dw
    · shape_other
  | xor =>
    rcases args with _ | ⟨⟨w1, a1⟩, _ | ⟨⟨w2, a2⟩, _ | ⟨⟨w3, a3⟩, rest⟩⟩⟩
    · shape_other
    · shape_other
    · exact exec_xor w1 w2 a1 a2 dw
    · shape_other
  | nand =>
    rcases args with _ | ⟨⟨w1, a1⟩, _ | ⟨⟨w2, a2⟩, _ | ⟨⟨w3, a3⟩, rest⟩⟩⟩
    · shape_other
    · shape_other
    · exact exec_nand w1 w2 a1 a2 dw
    · shape_other
  | add =>
    rcases args with _ | ⟨⟨w1, a1⟩, _ | ⟨⟨w2, a2⟩, _ | ⟨⟨w3, a3⟩, rest⟩⟩⟩
    · shape_other
    · shape_other
    · exact exec_add w1 w2 a1 a2 dw
    · shape_other
  | sub =>
    rcases args with _ | ⟨⟨w1, a1⟩, _ | ⟨⟨w2, a2⟩, _ | ⟨⟨w3, a3⟩, rest⟩⟩⟩
    · shape_other
    · shape_other
    · exact exec_sub w1 w2 a1 a2 dw
    · shape_other
  | mul =>
    rcases args with _ | ⟨⟨w1, a1⟩, _ | ⟨⟨w2, a2⟩, _ | ⟨⟨w3, a3⟩, rest⟩⟩⟩
    · shape_other
    · shape_other
    · exact exec_mul w1 w2 a1 a2 dw
    · shape_other
  | lt =>
    rcases args with _ | ⟨⟨w1, a1⟩, _ | ⟨⟨w2, a2⟩, _ | ⟨⟨w3, a3⟩, rest⟩⟩⟩
    · shape_other
    · shape_other
    · exact exec_lt w1 w2 a1 a2 dw
    · shape_other
  | gt =>
    rcases args with _ | ⟨⟨w1, a1⟩, _ | ⟨⟨w2, a2⟩, _ | ⟨⟨w3, a3⟩, rest⟩⟩⟩
    · shape_other
    · shape_other
    · exact exec_gt w1 w2 a1 a2 dw
    · shape_other
  | eq =>
    rcases args with _ | ⟨⟨w1, a1⟩, _ | ⟨⟨w2, a2⟩, _ | ⟨⟨w3, a3⟩, rest⟩⟩⟩
    · shape_other
    · shape_other
    · exact exec_eq w1 w2 a1 a2 dw
    · shape_other

/-- Every value `Simulation` stores for a net destination lies in `[0, 2^bitwidth)`. -/
theorem pysim_value_lt (op : Op) (args : List (Nat × Int)) (dw : Nat) :
    PySim.exec op args dw < 2 ^ dw := by
  unfold PySim.exec
  rw [san_int]
  have hpos : (0 : Int) < ((2 ^ dw : Nat) : Int) := by exact_mod_cast Nat.two_pow_pos dw
  have h1 := Int.emod_lt_of_pos (PySim.rawExec op args) hpos
  have h0 := Int.emod_nonneg (PySim.rawExec op args) (Int.ne_of_gt hpos)
  omega

/-- `_execute` of a whole net (memory reads included) equals the documented net function whenever
    the argument values fit the argument wires. -/
theorem pysim_netFun_eq_spec (b : Block) (st : State) (n : Net) (vals : List Nat)
    (hr : InRange ((n.args.map b.width).zip vals)) :
    PySim.netFun b st n vals = Pyrtl.netFun b st n vals := by
  unfold PySim.netFun Pyrtl.netFun
  cases hop : n.op with
  | mread m => simp only []; exact san_nat _ _
  | _ =>
    simp only []
    rw [show (n.args.map b.width).zip (vals.map Int.ofNat) = castArgs ((n.args.map b.width).zip vals) by
      simp [castArgs, List.zip_map_right]]
    exact pysim_exec_eq_spec _ _ _ hr

/-- **Whichever way ties are broken**: `Simulation` evaluates `ordered_nets` in whatever dependency
    order `Block.__iter__` produced; any two dependency orders of the same nets give every wire the
    same value (so the traced values do not depend on set/dict iteration order). -/
theorem pysim_order_independent (b : Block) (st : State) (o1 o2 : List Net) (e : Env)
    (hp : ∀ n, n ∈ o1 ↔ n ∈ o2) (h1 : isTopo o1 = true) (h2 : isTopo o2 = true) :
    ∀ w, PySim.execNets b st o1 e w = PySim.execNets b st o2 e w :=
  eval_any_topo_order _ o1 o2 e hp (isTopo_sound o1 h1) (isTopo_sound o2 h2)

/-- The same for the specification evaluator, plus: the value it computes is *the* consistent
    valuation (every net destination equals the documented function of its arguments), which
    exists and is unique for every netlist that has a dependency order. -/
theorem spec_order_independent (b : Block) (st : State) (o1 o2 : List Net) (e : Env)
    (hp : ∀ n, n ∈ o1 ↔ n ∈ o2) (h1 : isTopo o1 = true) (h2 : isTopo o2 = true) :
    ∀ w, evalNets b st o1 e w = evalNets b st o2 e w :=
  eval_any_topo_order _ o1 o2 e hp (isTopo_sound o1 h1) (isTopo_sound o2 h2)

theorem spec_consistent_exists_unique (b : Block) (st : State) (order : List Net) (e : Env)
    (h : isTopo order = true) :
    Consistent (Pyrtl.netFun b st) order e (evalNets b st order e) ∧
    ∀ v, Consistent (Pyrtl.netFun b st) order e v → ∀ w, v w = evalNets b st order e w :=
  ⟨evalSeq_consistent _ order e (isTopo_sound order h),
   fun v hv => consistent_unique _ order e v _ (isTopo_sound order h) hv
     (evalSeq_consistent _ order e (isTopo_sound order h))⟩

/-! ### whole runs -/
open RunRefine

/-- wires that carry a meaningful value in a cycle: sources and destinations of scheduled nets -/
def Good (b : Block) (order : List Net) (w : Nat) : Prop := Src b w ∨ w ∈ order.map Net.dest

/-- what `sanity_check` guarantees about a block and its iteration order (C10): the order is a
    schedule, no combinational net drives an Input/Const/Register, constants fit their wires, and
    register next-inputs and memory write ports only read wires that carry a value -/
structure WF (b : Block) (order : List Net) : Prop where
  sched : Sched b order []
  dests : ∀ n ∈ order, ¬ Src b n.dest
  consts : ∀ c v, b.kind c = .const v → v < 2 ^ b.width c
  regArg : ∀ n ∈ b.nets, n.op = .reg → Good b order (n.args.headD 0)
  wrArgs : ∀ n ∈ writeNets b, ∀ a ∈ n.args, Good b order a

/-- the simulator object and the specification state describe the same architectural state -/
structure Inv (b : Block) (s : Sim) (st : State) : Prop where
  regs : ∀ r, s.regvalue r = st.regs r
  regs_lt : ∀ r, isReg b r = true → st.regs r < 2 ^ b.width r
  mems : s.mem = st.mems
  consts : ∀ c v, b.kind c = .const v → s.value c = v

/-- the inputs of a cycle fit their wires (what `step` checks before using them, C15) -/
def InputsOk (b : Block) (inp : Env) : Prop := ∀ i, isInput b i = true → inp i < 2 ^ b.width i

theorem base_agree (b : Block) (s : Sim) (st : State) (hinv : Inv b s st) (hc : ∀ c v, b.kind c = .const v → v < 2 ^ b.width c)
    (inp : Env) (hin : InputsOk b inp) :
    AgreeOn b (fun w => Src b w ∨ w ∈ ([] : List Nat))
      (fun i => if isReg b i then s.regvalue i else (if isInput b i then inp i else s.value i))
      (baseEnv b st inp) := by
  intro w hw
  rcases hw with hsrc | h
  · unfold Src at hsrc
    cases hk : b.kind w with
    | input =>
      have hi : isInput b w = true := by simp [isInput, hk]
      simp only [isReg, isInput, baseEnv, hk]
      exact ⟨by simp, hin w hi⟩
    | const v =>
      simp only [isReg, isInput, baseEnv, hk]
      exact ⟨by simpa using hinv.consts w v hk, hc w v hk⟩
    | reg rv =>
      have hr : isReg b w = true := by simp [isReg, hk]
      simp only [isReg, isInput, baseEnv, hk]
      exact ⟨by simpa using hinv.regs w, hinv.regs_lt w hr⟩
    | output => rw [hk] at hsrc; exact absurd hsrc (by simp)
    | plain => rw [hk] at hsrc; exact absurd hsrc (by simp)
  · simp at h

/-- **One cycle.**  From corresponding states and in-range inputs, `Simulation.step` gives every
    meaningful wire the value the specification gives it (and that value fits the wire), and leaves
    corresponding states: registers latch the truncated next-input, enabled write ports land, constants
    keep their value. -/
theorem pysim_step_eq_spec (b : Block) (order : List Net) (hwf : WF b order) (s : Sim) (st : State)
    (hinv : Inv b s st) (inp : Env) (hin : InputsOk b inp) :
    (∀ w, Good b order w →
        (PySim.step b order (writeNets b) s inp).1 w = (Pyrtl.step b order st inp).1 w ∧
        (Pyrtl.step b order st inp).1 w < 2 ^ b.width w) ∧
    Inv b (PySim.step b order (writeNets b) s inp).2 (Pyrtl.step b order st inp).2 := by
  have hbase := base_agree b s st hinv hwf.consts inp hin
  have hmain := evalSeq_agree b ⟨s.regvalue, s.mem⟩ st hinv.mems
    (fun n vals h => pysim_netFun_eq_spec b _ n vals h) order [] _ _ hwf.sched hbase
  have hgood : ∀ w, Good b order w →
      (PySim.step b order (writeNets b) s inp).1 w = (Pyrtl.step b order st inp).1 w ∧
      (Pyrtl.step b order st inp).1 w < 2 ^ b.width w := by
    intro w hw
    apply hmain w
    rcases hw with h | h
    · exact Or.inl h
    · exact Or.inr (Or.inr h)
  refine ⟨hgood, ?_⟩
  constructor
  · -- registers
    intro r
    simp only [PySim.step, Pyrtl.step, regCapture, nextRegs]
    cases hrn : regNetOf b r with
    | none => exact hinv.regs r
    | some n =>
      simp only []
      rw [san_nat]
      have hmem : n ∈ b.nets := List.mem_of_find?_eq_some hrn
      have hp := List.find?_some hrn
      simp only [Bool.and_eq_true, beq_iff_eq] at hp
      have := (hgood _ (hwf.regArg n hmem hp.1)).1
      simp only [PySim.step, Pyrtl.step] at this
      rw [this]
  · intro r hr
    simp only [Pyrtl.step, nextRegs]
    cases hrn : regNetOf b r with
    | none => exact hinv.regs_lt r hr
    | some n => exact Nat.mod_lt _ (Nat.two_pow_pos _)
  · simp only [PySim.step, Pyrtl.step]
    rw [← hinv.mems]
    apply writes_congr
    intro n hn a ha
    have := (hgood a (hwf.wrArgs n hn a ha)).1
    simpa only [PySim.step, Pyrtl.step] using this
  · intro c v hk
    simp only [PySim.step, execNets]
    have hsrc : Src b c := by unfold Src; rw [hk]; trivial
    rw [evalSeq_off _ order _ c (fun n hn hd => hwf.dests n hn (hd ▸ hsrc))]
    simp only [isReg, isInput, hk]
    exact hinv.consts c v hk

/-- two traces have the same length and agree, cycle by cycle, on every meaningful wire -/
def RunsAgree (b : Block) (order : List Net) : List Env → List Env → Prop
  | [], [] => True
  | ep :: ps, es :: ss => (∀ w, Good b order w → ep w = es w ∧ es w < 2 ^ b.width w) ∧ RunsAgree b order ps ss
  | _, _ => False

/-- **Whole runs, any number of cycles.**  Started from corresponding states, `Simulation` stepped
    through any input sequence traces, in every cycle and for every meaningful wire, exactly the value
    of the documented cycle semantics: combinational functions of the current inputs and state,
    registers one cycle late and truncated, reads before writes, writes at the end of the cycle. -/
theorem pysim_run_eq_spec (b : Block) (order : List Net) (hwf : WF b order) :
    ∀ (inps : List Env) (s : Sim) (st : State), Inv b s st → (∀ inp ∈ inps, InputsOk b inp) →
      RunsAgree b order (PySim.run b order (writeNets b) s inps) (Pyrtl.run b order st inps) := by
  intro inps
  induction inps with
  | nil => intro _ _ _ _; trivial
  | cons inp rest ih =>
    intro s st hinv hin
    have hstep := pysim_step_eq_spec b order hwf s st hinv inp (hin inp (by simp))
    simp only [PySim.run, Pyrtl.run, RunsAgree]
    exact ⟨hstep.1, ih _ _ hstep.2 (fun i hi => hin i (by simp [hi]))⟩

/-- the simulator's initial object corresponds to the specification's initial state
    (`register_value_map`, else `reset_value`, else `default_value`; memories likewise) -/
theorem pysim_init_inv (b : Block) (regMap : Nat → Option Nat) (memMap : Nat → Nat → Option Nat) (dflt : Nat)
    (hr : ∀ r, isReg b r = true → (initState b regMap memMap dflt).regs r < 2 ^ b.width r) :
    Inv b (PySim.init b regMap memMap dflt) (initState b regMap memMap dflt) := by
  constructor
  · intro r; rfl
  · exact hr
  · rfl
  · intro c v hk
    simp only [PySim.init, hk]

/-- non-vacuity of `WF`/`Inv`: a 2-bit accumulator `r.next = (i + r)[..]` -/
def exB : Block :=
  ⟨#[⟨"i", 2, .input⟩, ⟨"r", 2, .reg none⟩, ⟨"t", 3, .plain⟩],
   [⟨.add, [0, 1], [2]⟩, ⟨.reg, [2], [1]⟩], []⟩

example : WF exB [⟨.add, [0, 1], [2]⟩] := by
  refine ⟨⟨?_, trivial⟩, ?_, ?_, ?_, ?_⟩
  · intro a ha
    simp only [List.mem_cons, List.not_mem_nil, or_false] at ha
    rcases ha with rfl | rfl <;> exact Or.inr (by simp [Src, Block.kind, Block.wire, exB])
  · intro n hn
    simp only [List.mem_cons, List.not_mem_nil, or_false] at hn
    subst hn
    simp [Src, Block.kind, Block.wire, exB, Net.dest]
  · intro c v hk
    rcases c with _ | _ | _ | c <;> simp [Block.kind, Block.wire, exB] at hk
  · intro n hn hop
    simp only [exB, List.mem_cons, List.not_mem_nil, or_false] at hn
    rcases hn with rfl | rfl
    · simp at hop
    · exact Or.inr (by simp [Net.dest])
  · intro n hn
    simp [writeNets, exB] at hn

/-- The hash-map evaluator the compiled driver runs computes exactly `evalSeq` (so correspondence
    runs exercise the function the theorems are about). -/
theorem driver_evaluator_refines (f : Net → List Nat → Nat) (base : Env) (ns : List Net) :
    Fast.look (Fast.evalSeq f base ns {}) base = evalSeq f ns base := by
  rw [Fast.evalSeq_look]
  congr 1
  funext x
  simp [Fast.look]

-- non-vacuity: a concrete in-range argument list
example : InRange [(3, 5), (2, 3)] := by
  intro p hp; simp at hp; rcases hp with rfl | rfl <;> decide

-- the witness that decides subtraction order and two's-complement wrap: 2 - 5 at width 4 is 13
example : PySim.exec .sub (castArgs [(3, 2), (3, 5)]) 4 = 13 := by decide

end Pyrtl.C01
