import Proofs.Lemmas.FastSimOps
import Proofs.Lemmas.FastSelect
import Proofs.Props.C01
import Proofs.Lemmas.CLimb
import Proofs.Lemmas.CLimbCat
import Proofs.Lemmas.Signed
import Proofs.Lemmas.FastRun
/-!
# C02 — FastSimulation and CompiledSimulation are observably identical to Simulation

`FastSim.exec` is the value of the Python expression `FastSimulation._compiled` emits for a net; the
per-op expression templates, the statement template `res = mask & (expr)` and the
`_no_mask_bitwidth` table are regenerated from simulation.py on every run (`Gen.FastEmit`).
-/
namespace Pyrtl.C02
open Pyrtl Pyrtl.FastSim Pyrtl.C01

/-- The bitwidth agreements `sanity_check_net` enforces on a net's arguments (core.py:760-775):
    two-operand ops have equal argument widths, both mux data inputs have equal widths. -/
def SaneWidths (op : Op) (args : List (Nat × Nat)) : Prop :=
  match op, args with
  | .mux, [_, (wf, _), (wt, _)] => wf = wt
  | .concat, _ => True
  | _, [(w1, _), (w2, _)] => w1 = w2
  | _, _ => True

local macro "shape_other" : tactic =>
  `(tactic| simp [castArgs, FastSim.exec, Spec.comb])

/-- **FastSimulation, per net, every simple op and `c`, all widths, all in-range values**: the
    emitted expression — including the decision to drop the mask — evaluates to the documented
    function truncated to the destination width.  The mask may be dropped only because the
    arguments are in range and `sanity_check` guarantees matching widths; both facts are explicit
    hypotheses.  (`s` is `fast_select_eq_spec` below; `m`/`@`/`r` are state, see C08.) -/
theorem fast_exec_eq_spec (op : Op) (args : List (Nat × Nat)) (dw : Nat)
    (hr : InRange args) (hs : SaneWidths op args) (hsel : ∀ idx, op ≠ .select idx) :
    FastSim.exec op (castArgs args) dw = ((Spec.comb op args dw : Nat) : Int) := by
  cases op with
  | concat => exact fexec_concat args dw hr
  | select idx => exact absurd rfl (hsel idx)
  | reg => shape_other
  | mread m => shape_other
  | mwrite m => shape_other
  | w =>
    rcases args with _ | ⟨⟨w1, a1⟩, _ | ⟨⟨w2, a2⟩, rest⟩⟩
    · shape_other
    · exact fexec_w w1 a1 dw (hr (w1, a1) (by simp))
    · shape_other
  | inv =>
    rcases args with _ | ⟨⟨w1, a1⟩, _ | ⟨⟨w2, a2⟩, rest⟩⟩
    · shape_other
    · exact fexec_inv w1 a1 dw
    · shape_other
  | mux =>
    rcases args with _ | ⟨⟨w1, a1⟩, _ | ⟨⟨w2, a2⟩, _ | ⟨⟨w3, a3⟩, _ | ⟨⟨w4, a4⟩, rest⟩⟩⟩⟩
    · shape_other
    · shape_other
    · shape_other
    · have h23 : w2 = w3 := hs
      exact fexec_mux w1 w2 w3 a1 a2 a3 dw (hr (w2, a2) (by simp)) (h23 ▸ hr (w3, a3) (by simp))
    · shape_other
  | and =>
    rcases args with _ | ⟨⟨w1, a1⟩, _ | ⟨⟨w2, a2⟩, _ | ⟨⟨w3, a3⟩, rest⟩⟩⟩
    · shape_other
    · shape_other
    · exact fexec_and w1 w2 a1 a2 dw (hr (w1, a1) (by simp))
    · shape_other
  | or =>
    rcases args with _ | ⟨⟨w1, a1⟩, _ | ⟨⟨w2, a2⟩, _ | ⟨⟨w3, a3⟩, rest⟩⟩⟩
    · shape_other
    · shape_other
    · have h12 : w1 = w2 := hs
      exact fexec_or w1 w2 a1 a2 dw (hr (w1, a1) (by simp)) (h12 ▸ hr (w2, a2) (by simp))
    · shape_other
  | xor =>
    rcases args with _ | ⟨⟨w1, a1⟩, _ | ⟨⟨w2, a2⟩, _ | ⟨⟨w3, a3⟩, rest⟩⟩⟩
    · shape_other
    · shape_other
    · have h12 : w1 = w2 := hs
      exact fexec_xor w1 w2 a1 a2 dw (hr (w1, a1) (by simp)) (h12 ▸ hr (w2, a2) (by simp))
    · shape_other
  | nand =>
    rcases args with _ | ⟨⟨w1, a1⟩, _ | ⟨⟨w2, a2⟩, _ | ⟨⟨w3, a3⟩, rest⟩⟩⟩
    · shape_other
    · shape_other
    · exact fexec_nand w1 w2 a1 a2 dw
    · shape_other
  | add =>
    rcases args with _ | ⟨⟨w1, a1⟩, _ | ⟨⟨w2, a2⟩, _ | ⟨⟨w3, a3⟩, rest⟩⟩⟩
    · shape_other
    · shape_other
    · have h12 : w1 = w2 := hs
      exact fexec_add w1 w2 a1 a2 dw (hr (w1, a1) (by simp)) (h12 ▸ hr (w2, a2) (by simp))
    · shape_other
  | sub =>
    rcases args with _ | ⟨⟨w1, a1⟩, _ | ⟨⟨w2, a2⟩, _ | ⟨⟨w3, a3⟩, rest⟩⟩⟩
    · shape_other
    · shape_other
    · exact fexec_sub w1 w2 a1 a2 dw
    · shape_other
  | mul =>
    rcases args with _ | ⟨⟨w1, a1⟩, _ | ⟨⟨w2, a2⟩, _ | ⟨⟨w3, a3⟩, rest⟩⟩⟩
    · shape_other
    · shape_other
    · exact fexec_mul w1 w2 a1 a2 dw (hr (w1, a1) (by simp)) (hr (w2, a2) (by simp))
    · shape_other
  | lt =>
    rcases args with _ | ⟨⟨w1, a1⟩, _ | ⟨⟨w2, a2⟩, _ | ⟨⟨w3, a3⟩, rest⟩⟩⟩
    · shape_other
    · shape_other
    · exact fexec_lt w1 w2 a1 a2 dw
    · shape_other
  | gt =>
    rcases args with _ | ⟨⟨w1, a1⟩, _ | ⟨⟨w2, a2⟩, _ | ⟨⟨w3, a3⟩, rest⟩⟩⟩
    · shape_other
    · shape_other
    · exact fexec_gt w1 w2 a1 a2 dw
    · shape_other
  | eq =>
    rcases args with _ | ⟨⟨w1, a1⟩, _ | ⟨⟨w2, a2⟩, _ | ⟨⟨w3, a3⟩, rest⟩⟩⟩
    · shape_other
    · shape_other
    · exact fexec_eq w1 w2 a1 a2 dw
    · shape_other

/-- Hence FastSimulation and Simulation store the same value for every such net. -/
theorem fast_exec_eq_pysim (op : Op) (args : List (Nat × Nat)) (dw : Nat)
    (hr : InRange args) (hs : SaneWidths op args) (hsel : ∀ idx, op ≠ .select idx) :
    FastSim.exec op (castArgs args) dw = ((PySim.exec op (castArgs args) dw : Nat) : Int) := by
  rw [fast_exec_eq_spec op args dw hr hs hsel, pysim_exec_eq_spec op args dw hr]

/-- **`s` nets**: FastSimulation splits the index tuple into runs of consecutive ascending bits and
    emits, per run, one of three shifted/masked shapes (regenerated from `make_split` on every run)
    joined by `|`; for every index tuple within the argument (repeats, reversals, gaps), every argument
    and destination width and every in-range value this is the documented bit selection — including
    the elision of the outer mask when the destination is as wide as the tuple, and of the inner mask
    when a run ends at the argument's top bit. -/
theorem fast_select_eq_spec (idx : List Nat) (wa a dw : Nat) (ha : a < 2 ^ wa) (hi : ∀ b ∈ idx, b < wa) :
    FastSim.exec (.select idx) (castArgs [(wa, a)]) dw
      = ((Spec.comb (.select idx) [(wa, a)] dw : Nat) : Int) := by
  simp only [castArgs, List.map_cons, List.map_nil, FastSim.exec, Spec.comb,
    selectExpr_eq wa a idx ha hi, Gen.FastEmit.noMask_select]
  by_cases h : eqW dw (idx.length : Int) = true
  · simp only [h, ↓reduceIte]
    have hdw : dw = idx.length := by exact_mod_cast eqW_true h
    rw [Nat.mod_eq_of_lt (hdw ▸ selectVal_lt idx a)]
  · simp only [h, Bool.false_eq_true, ↓reduceIte]
    exact mask_and_nat _ _

/-- … so FastSimulation and Simulation agree on select nets too -/
theorem fast_select_eq_pysim (idx : List Nat) (wa a dw : Nat) (ha : a < 2 ^ wa) (hi : ∀ b ∈ idx, b < wa) :
    FastSim.exec (.select idx) (castArgs [(wa, a)]) dw
      = ((PySim.exec (.select idx) (castArgs [(wa, a)]) dw : Nat) : Int) := by
  rw [fast_select_eq_spec idx wa a dw ha hi,
    pysim_exec_eq_spec (.select idx) [(wa, a)] dw (by intro p hp; simp at hp; subst hp; exact ha)]

-- a reversed partial select whose run ends at the top bit of a wider source (the mask matters)
example : FastSim.exec (.select [5, 4, 3, 2, 1, 0]) (castArgs [(8, 0xC0)]) 6 = 0 := by decide

-- the precedence witness: a mux net with a 2-bit destination and 4-bit data inputs
example : FastSim.exec .mux (castArgs [(1, 1), (4, 9), (4, 15)]) 2 = 3 := by decide
example : SaneWidths .mux [(1, 1), (4, 9), (4, 15)] := rfl


/-! ## FastSimulation: whole runs

`FastSim.step` is `FastSimulation.step` over the per-net expressions above (`FastSim.stepWith`, the skeleton
`Simulation.step` also has: `C01.pysim_step_eq_spec` is the same statement for `PySim.netFun`). -/

/-- what `sanity_check_net` guarantees for a net: argument widths agree, a select has one argument and its
    indices lie inside it -/
def NetSane (b : Block) (n : Net) : Prop :=
  match n.op with
  | .select idx => ∃ a, n.args = [a] ∧ ∀ i ∈ idx, i < b.width a
  | op => SaneWidths op ((n.args.map b.width).zip (n.args.map b.width))

/-- the statement FastSimulation generates for a net stores the documented value -/
theorem fast_netFun_eq_spec (b : Block) (st : State) (n : Net) (vals : List Nat)
    (hlen : vals.length = n.args.length)
    (hs : match n.op with
          | .select idx => ∃ a, n.args = [a] ∧ ∀ i ∈ idx, i < b.width a
          | op => SaneWidths op ((n.args.map b.width).zip vals))
    (hr : InRange ((n.args.map b.width).zip vals)) :
    FastSim.netFun b st n vals = Pyrtl.netFun b st n vals := by
  unfold FastSim.netFun Pyrtl.netFun
  have hcast : (n.args.map b.width).zip (vals.map Int.ofNat) = castArgs ((n.args.map b.width).zip vals) := by
    simp [castArgs, List.zip_map_right]
  cases hop : n.op with
  | mread m => simp only []; exact PySim.san_nat _ _
  | select idx =>
    simp only [hop] at hs
    obtain ⟨a, ha, hidx⟩ := hs
    simp only []
    rw [hcast]
    obtain ⟨v, hv⟩ : ∃ v, vals = [v] := by
      rw [ha] at hlen
      match vals, hlen with
      | [v], _ => exact ⟨v, rfl⟩
    subst hv
    simp only [ha, List.map_cons, List.map_nil, List.zip_cons_cons, List.zip_nil_right]
    have hav : v < 2 ^ b.width a := by
      have := hr (b.width a, v) (by simp [ha])
      exact this
    rw [fast_select_eq_spec idx (b.width a) v _ hav hidx]
    simp
  | _ =>
    simp only [hop] at hs
    simp only []
    rw [hcast, fast_exec_eq_spec _ _ _ hr hs (by intro idx h; simp at h)]
    simp

theorem saneWidths_vals (op : Op) (ws : List Nat) (vals vals' : List Nat) (h1 : vals.length = ws.length)
    (h2 : vals'.length = ws.length) (h : SaneWidths op (ws.zip vals)) : SaneWidths op (ws.zip vals') := by
  match ws, vals, vals', h1, h2 with
  | [], [], [], _, _ => exact h
  | [w], [v], [v'], _, _ => cases op <;> simpa [SaneWidths] using h
  | [w1, w2], [v1, v2], [v1', v2'], _, _ => cases op <;> simpa [SaneWidths] using h
  | [w1, w2, w3], [v1, v2, v3], [v1', v2', v3'], _, _ => cases op <;> simpa [SaneWidths] using h
  | w1 :: w2 :: w3 :: w4 :: ws, v1 :: v2 :: v3 :: v4 :: vs, v1' :: v2' :: v3' :: v4' :: vs', _, _ =>
    cases op <;> simp [SaneWidths] at h ⊢

/-- FastSimulation's net function is the documented one on every sane net -/
theorem fast_nfOk (b : Block) (order : List Net) (hs : ∀ n ∈ order, NetSane b n) :
    FastRun.NfOk b order (FastSim.netFun b) := by
  intro st n hn vals hlen hr
  apply fast_netFun_eq_spec b st n vals hlen _ hr
  have := hs n hn
  unfold NetSane at this
  cases hop : n.op with
  | select idx => simpa [hop] using this
  | _ =>
    simp only [hop] at this ⊢
    exact saneWidths_vals _ _ _ _ (by simp) (by simp [hlen]) this

/-- **One cycle of FastSimulation** = the documented cycle semantics, state correspondence kept -/
theorem fastsim_step_eq_spec (b : Block) (order : List Net) (hwf : C01.WF b order) (hs : ∀ n ∈ order, NetSane b n)
    (s : PySim.Sim) (st : State) (hinv : C01.Inv b s st) (inp : Env) (hin : C01.InputsOk b inp) :
    (∀ w, C01.Good b order w →
        (FastSim.step b order (writeNets b) s inp).1 w = (Pyrtl.step b order st inp).1 w ∧
        (Pyrtl.step b order st inp).1 w < 2 ^ b.width w) ∧
    C01.Inv b (FastSim.step b order (writeNets b) s inp).2 (Pyrtl.step b order st inp).2 :=
  FastRun.stepWith_eq_spec b order (FastSim.netFun b) (fast_nfOk b order hs) hwf s st hinv inp hin

/-- **Whole runs of FastSimulation**, any number of cycles: every meaningful wire, every cycle, has the value of
    the documented semantics — hence the value `Simulation` traces (`C01.pysim_run_eq_spec`) -/
theorem fastsim_run_eq_spec (b : Block) (order : List Net) (hwf : C01.WF b order) (hs : ∀ n ∈ order, NetSane b n) :
    ∀ (inps : List Env) (s : PySim.Sim) (st : State), C01.Inv b s st → (∀ inp ∈ inps, C01.InputsOk b inp) →
      C01.RunsAgree b order (FastSim.run b order (writeNets b) s inps) (Pyrtl.run b order st inps) :=
  FastRun.runWith_eq_spec b order (FastSim.netFun b) (fast_nfOk b order hs) hwf

/-- `Simulation.step` is the same skeleton over its own net function -/
theorem pysim_step_is_stepWith (b : Block) (order wr : List Net) (s : PySim.Sim) (inp : Env) :
    PySim.step b order wr s inp = FastSim.stepWith (PySim.netFun b) b order wr s inp := rfl

/-! ## CompiledSimulation: the C statements of a net on 64-bit limbs

`CLimb.emit*` are the statements `CompiledSimulation._build_*` writes for one net (the generated text is
parsed and compared with these programs, statement by statement, on every run: tools/checks/c02.py
`climb_tie`); `CLimb.execList` is the semantics of that C fragment; `CLimb.Enc σ k V` says that argument
`k` is stored as the limbs of `V`; `CLimb.destVal σ L` is the number held by the `L` destination limbs. -/

/-- **`+` in the C backend**: for operands of any widths — any number of limbs, carries detected by the
    two comparisons, top limb masked only when the destination is narrower than the natural width — the
    destination holds exactly what the documented semantics give. -/
theorem compiled_add_eq_spec (σ0 : CLimb.Env) (wa wb wd A B : Nat) (hA : A < 2 ^ wa) (hB : B < 2 ^ wb)
    (h0 : CLimb.Enc σ0 0 A) (h1 : CLimb.Enc σ0 1 B) (hwd1 : 0 < wd) (hwd : wd ≤ max wa wb + 1) :
    CLimb.destVal (CLimb.execList σ0 (CLimb.emitAdd wa wb wd)) (CLimb.limbs wd)
      = Spec.comb .add [(wa, A), (wb, B)] wd := by
  rw [CLimb.emitAdd_correct σ0 wa wb wd A B hA hB h0 h1 hwd1 hwd]
  rfl

/-- **`w`** (also the truncating raw form) -/
theorem compiled_wire_eq_spec (σ0 : CLimb.Env) (wa wd A : Nat) (hA : A < 2 ^ wa) (h0 : CLimb.Enc σ0 0 A) (hwd : 0 < wd) :
    CLimb.destVal (CLimb.execList σ0 (CLimb.emitWire wa wd)) (CLimb.limbs wd) = Spec.comb .w [(wa, A)] wd :=
  CLimb.emitWire_correct σ0 wa wd A hA h0 hwd

/-- **`&`, `|`, `^`** on operands of any (also different) numbers of limbs -/
theorem compiled_and_eq_spec (σ0 : CLimb.Env) (wa wb wd A B : Nat) (hA : A < 2 ^ wa) (hB : B < 2 ^ wb)
    (h0 : CLimb.Enc σ0 0 A) (h1 : CLimb.Enc σ0 1 B) (hwd : 0 < wd) :
    CLimb.destVal (CLimb.execList σ0 (CLimb.emitBitwise .and wa wb wd)) (CLimb.limbs wd)
      = Spec.comb .and [(wa, A), (wb, B)] wd :=
  CLimb.emitBitwise_correct .and σ0 wa wb wd A B hA hB h0 h1 hwd

theorem compiled_or_eq_spec (σ0 : CLimb.Env) (wa wb wd A B : Nat) (hA : A < 2 ^ wa) (hB : B < 2 ^ wb)
    (h0 : CLimb.Enc σ0 0 A) (h1 : CLimb.Enc σ0 1 B) (hwd : 0 < wd) :
    CLimb.destVal (CLimb.execList σ0 (CLimb.emitBitwise .or wa wb wd)) (CLimb.limbs wd)
      = Spec.comb .or [(wa, A), (wb, B)] wd :=
  CLimb.emitBitwise_correct .or σ0 wa wb wd A B hA hB h0 h1 hwd

theorem compiled_xor_eq_spec (σ0 : CLimb.Env) (wa wb wd A B : Nat) (hA : A < 2 ^ wa) (hB : B < 2 ^ wb)
    (h0 : CLimb.Enc σ0 0 A) (h1 : CLimb.Enc σ0 1 B) (hwd : 0 < wd) :
    CLimb.destVal (CLimb.execList σ0 (CLimb.emitBitwise .xor wa wb wd)) (CLimb.limbs wd)
      = Spec.comb .xor [(wa, A), (wb, B)] wd :=
  CLimb.emitBitwise_correct .xor σ0 wa wb wd A B hA hB h0 h1 hwd

/-- **`=`**: the `&&` chain over the limbs is the equality of the values -/
theorem compiled_eq_eq_spec (σ0 : CLimb.Env) (wa wb A B : Nat) (hA : A < 2 ^ wa) (hB : B < 2 ^ wb)
    (h0 : CLimb.Enc σ0 0 A) (h1 : CLimb.Enc σ0 1 B) (hwa : 0 < wa) :
    (CLimb.execList σ0 (CLimb.emitEq wa wb)).get (.dest 0) = Spec.comb .eq [(wa, A), (wb, B)] 1 := by
  rw [CLimb.emitEq_correct σ0 wa wb A B hA hB h0 h1 hwa]
  by_cases h : A = B <;> simp [Spec.comb, CLimb.b2n, h]

/-- **`<`, `>`**: the chain `c_n || (eq_n && inner)` built from the least significant limb outwards is the
    comparison of the values -/
theorem compiled_lt_eq_spec (σ0 : CLimb.Env) (wa wb A B : Nat) (hA : A < 2 ^ wa) (hB : B < 2 ^ wb)
    (h0 : CLimb.Enc σ0 0 A) (h1 : CLimb.Enc σ0 1 B) (hwa : 0 < wa) :
    (CLimb.execList σ0 (CLimb.emitCmp true wa wb)).get (.dest 0) = Spec.comb .lt [(wa, A), (wb, B)] 1 := by
  rw [CLimb.emitCmp_correct true σ0 wa wb A B hA hB h0 h1 hwa]
  by_cases h : A < B <;> simp [Spec.comb, CLimb.b2n, h]

theorem compiled_gt_eq_spec (σ0 : CLimb.Env) (wa wb A B : Nat) (hA : A < 2 ^ wa) (hB : B < 2 ^ wb)
    (h0 : CLimb.Enc σ0 0 A) (h1 : CLimb.Enc σ0 1 B) (hwa : 0 < wa) :
    (CLimb.execList σ0 (CLimb.emitCmp false wa wb)).get (.dest 0) = Spec.comb .gt [(wa, A), (wb, B)] 1 := by
  rw [CLimb.emitCmp_correct false σ0 wa wb A B hA hB h0 h1 hwa]
  by_cases h : B < A <;> simp [Spec.comb, CLimb.b2n, h]

/-- **`x`** (multiplexer) -/
theorem compiled_mux_eq_spec (σ0 : CLimb.Env) (wf wt wd Sv F T : Nat) (hS : Sv < 2 ^ 1) (hF : F < 2 ^ wf)
    (hT : T < 2 ^ wt) (hs : CLimb.Enc σ0 0 Sv) (h1 : CLimb.Enc σ0 1 F) (h2 : CLimb.Enc σ0 2 T) (hwd : 0 < wd) :
    CLimb.destVal (CLimb.execList σ0 (CLimb.emitMux wf wt wd)) (CLimb.limbs wd)
      = Spec.comb .mux [(1, Sv), (wf, F), (wt, T)] wd :=
  CLimb.emitMux_correct σ0 wf wt wd Sv F T hS hF hT hs h1 h2 hwd

/-- **`-`**: borrows detected by the two comparisons; the destination holds the difference modulo `2^wd` -/
theorem compiled_sub_eq_spec (σ0 : CLimb.Env) (wa wb wd A B : Nat) (hA : A < 2 ^ wa) (hB : B < 2 ^ wb)
    (h0 : CLimb.Enc σ0 0 A) (h1 : CLimb.Enc σ0 1 B) (hwd1 : 0 < wd) :
    CLimb.destVal (CLimb.execList σ0 (CLimb.emitSub wa wb wd)) (CLimb.limbs wd)
      = Spec.comb .sub [(wa, A), (wb, B)] wd := by
  obtain ⟨hlt, hcong⟩ := CLimb.emitSub_correct σ0 wa wb wd A B hA hB h0 h1 hwd1
  generalize CLimb.destVal (CLimb.execList σ0 (CLimb.emitSub wa wb wd)) (CLimb.limbs wd) = D at *
  simp only [Spec.comb]
  have h1' := Nat.div_add_mod (D + B) (2 ^ wd)
  have h2' := Nat.div_add_mod A (2 ^ wd)
  rw [hcong] at h1'
  have key : ((A : Int) - (B : Int)) % ((2 ^ wd : Nat) : Int) = (D : Int) := by
    apply Ops.emod_rep _ _ _ (((A / 2 ^ wd : Nat) : Int) - (((D + B) / 2 ^ wd : Nat) : Int))
    · have e1 : ((2 ^ wd * ((D + B) / 2 ^ wd) + A % 2 ^ wd : Nat) : Int) = ((D + B : Nat) : Int) := by rw [h1']
      have e2 : ((2 ^ wd * (A / 2 ^ wd) + A % 2 ^ wd : Nat) : Int) = (A : Int) := by rw [h2']
      push_cast at e1 e2 ⊢
      linarith
    · exact Int.natCast_nonneg D
    · exact_mod_cast hlt
  rw [key]; simp

/-- **`~`**: every limb complemented, the partial top limb always masked -/
theorem compiled_not_eq_spec (σ0 : CLimb.Env) (wa wd A : Nat) (hA : A < 2 ^ wa) (h0 : CLimb.Enc σ0 0 A) (hwd : 0 < wd) :
    CLimb.destVal (CLimb.execList σ0 (CLimb.emitNot wd)) (CLimb.limbs wd) = Spec.comb .inv [(wa, A)] wd :=
  CLimb.emitNot_correct σ0 wa wd A hA h0 hwd

/-- **`nand`** -/
theorem compiled_nand_eq_spec (σ0 : CLimb.Env) (wa wb wd A B : Nat) (hA : A < 2 ^ wa) (hB : B < 2 ^ wb)
    (h0 : CLimb.Enc σ0 0 A) (h1 : CLimb.Enc σ0 1 B) (hwd : 0 < wd) :
    CLimb.destVal (CLimb.execList σ0 (CLimb.emitNand wa wb wd)) (CLimb.limbs wd)
      = Spec.comb .nand [(wa, A), (wb, B)] wd :=
  CLimb.emitNand_correct σ0 wa wb wd A B hA hB h0 h1 hwd

/-- **`*`** at the natural destination width `len(a) + len(b)` (what every API-built multiplication has):
    schoolbook multiplication over 64-bit limbs — 128-bit partial products through `mul128`, the two carry
    detections per cell, the row carry stored in (or, when the product cannot reach it, dropped from) the next
    limb — leaves exactly `A * B` in the destination, for operands of any number of limbs.
    PARTIAL: raw nets whose destination is narrower than `len(a)+len(b)` (masked/truncated rows) are covered
    by the text tie and the value comparison only. -/
theorem compiled_mul_eq_spec_partial (σ0 : CLimb.Env) (wa wb A B : Nat) (hwa : 0 < wa) (hwb : 0 < wb)
    (hA : A < 2 ^ wa) (hB : B < 2 ^ wb) (h0 : CLimb.Enc σ0 0 A) (h1 : CLimb.Enc σ0 1 B) :
    CLimb.destVal (CLimb.execList σ0 (CLimb.emitMul wa wb (wa + wb))) (CLimb.limbs (wa + wb))
      = Spec.comb .mul [(wa, A), (wb, B)] (wa + wb) := by
  rw [CLimb.emitMul_correct σ0 wa wb A B hwa hwb hA hB h0 h1]
  simp only [Spec.comb]
  exact (Nat.mod_eq_of_lt (by rw [Nat.pow_add]; exact Nat.mul_lt_mul'' hA hB)).symm

/-- **`s`** (select): every index tuple, source and destination of any number of limbs; a destination narrower
    than the tuple keeps the low bits -/
theorem compiled_select_eq_spec (σ0 : CLimb.Env) (idx : List Nat) (wa wd A : Nat) (h0 : CLimb.Enc σ0 0 A)
    (hwd : wd ≤ idx.length) :
    CLimb.destVal (CLimb.execList σ0 (CLimb.emitSelect idx wd)) (CLimb.limbs wd)
      = Spec.comb (.select idx) [(wa, A)] wd := by
  rw [CLimb.emitSelect_correct σ0 idx wd A h0 hwd]
  simp only [Spec.comb]
  have h := CLimb.selectVal_append (idx.take wd) (idx.drop wd) A
  rw [List.take_append_drop] at h
  have hlen : (idx.take wd).length = wd := by simp [hwd]
  rw [h, hlen, Nat.add_mul_mod_self_left]
  have hlt := CLimb.selectVal_lt (idx.take wd) A
  rw [hlen] at hlt
  exact (Nat.mod_eq_of_lt hlt).symm

/-- **`c`** (concat) at the natural destination width (the sum of the argument widths): the arguments are cut
    into pieces of at most one limb, packed into the destination limbs, pieces that cross a limb boundary being
    continued in the next limb; the destination holds the documented concatenation, first argument most
    significant.  PARTIAL: a raw destination narrower than the arguments together is covered by the text tie
    and the value comparison only. -/
theorem compiled_concat_eq_spec_partial (σ0 : CLimb.Env) (ws : List Nat) (Vs : Nat → Nat) (hne : ws ≠ [])
    (hpos : ∀ w ∈ ws, 0 < w) (henc : ∀ k, CLimb.Enc σ0 k (Vs k)) (hlt : ∀ p ∈ ws.zipIdx, Vs p.2 < 2 ^ p.1) :
    CLimb.destVal (CLimb.execList σ0 (CLimb.emitConcat ws ws.sum)) (CLimb.limbs ws.sum)
      = Spec.comb .concat (ws.zipIdx.map fun p => (p.1, Vs p.2)) ws.sum := by
  rw [CLimb.emitConcat_correct σ0 ws Vs hne hpos henc hlt]
  simp only [Spec.comb]
  -- the concatenation fits the destination
  have h := CLimb.concatVal_eq (ws.zipIdx.map fun p => (p.1, Vs p.2)) 0
  obtain ⟨s1, s2, s3⟩ := CLimb.pieces_of_args Vs ws.zipIdx.reverse (fun p hp => hlt p (by simpa using hp))
  have hlt' := CLimb.SV_lt Vs _ (fun q hq => (s3 q hq).1)
  rw [s2, CLimb.sumW_map, CLimb.zipIdx_fst_sum, s1] at hlt'
  rw [h, Nat.zero_mul, Nat.zero_add, List.map_reverse] at *
  exact (Nat.mod_eq_of_lt hlt').symm

-- the hypotheses are satisfiable; a two-limb addition with a carry across the limb boundary
example : CLimb.destVal (CLimb.execList ⟨[(.arg 0 0, 2 ^ 64 - 1), (.arg 0 1, 1), (.arg 1 0, 1), (.arg 1 1, 0)]⟩
    (CLimb.emitAdd 65 65 66)) (CLimb.limbs 66) = (2 ^ 64 - 1 + 2 ^ 64) + 1 := by decide +kernel

end Pyrtl.C02
