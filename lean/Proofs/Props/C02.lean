import Proofs.Lemmas.FastSimOps
import Proofs.Lemmas.FastSelect
import Proofs.Props.C01
/-!
# C02 — FastSimulation and CompiledSimulation are observably identical to Simulation

`FastSim.exec` is the value of the Python expression `FastSimulation._compiled` emits for a net; the
per-op expression templates, the statement template `res = mask & (expr)` and the
`_no_mask_bitwidth` table are regenerated from simulation.py on every run (`Gen.FastEmit`).
-/
namespace Pyrtl.C02
open Pyrtl Pyrtl.FastSim Pyrtl.C01

/-- The bitwidth agreements `sanity_check_net` enforces on a net's arguments (core.py:760-775):
    two-operand ops have equal argument widths, both mux data inputs have equal widths. -/
def SaneWidths (op : Op) (args : List (Nat × Nat)) : Prop :=
  match op, args with
  | .mux, [_, (wf, _), (wt, _)] => wf = wt
  | .concat, _ => True
  | _, [(w1, _), (w2, _)] => w1 = w2
  | _, _ => True

local macro "shape_other" : tactic =>
  `(tactic| simp [castArgs, FastSim.exec, Spec.comb])

/-- **FastSimulation, per net, every simple op and `c`, all widths, all in-range values**: the
    emitted expression — including the decision to drop the mask — evaluates to the documented
    function truncated to the destination width.  The mask may be dropped only because the
    arguments are in range and `sanity_check` guarantees matching widths; both facts are explicit
    hypotheses.  (`s` is `fast_select_eq_spec` below; `m`/`@`/`r` are state, see C08.) -/
theorem fast_exec_eq_spec (op : Op) (args : List (Nat × Nat)) (dw : Nat)
    (hr : InRange args) (hs : SaneWidths op args) (hsel : ∀ idx, op ≠ .select idx) :
    FastSim.exec op (castArgs args) dw = ((Spec.comb op args dw : Nat) : Int) := by
  cases op with
  | concat => exact fexec_concat args dw hr
  | select idx => exact absurd rfl (hsel idx)
  | reg => shape_other
  | mread m => shape_other
  | mwrite m => shape_other
  | w =>
    rcases args with _ | ⟨⟨w1, a1⟩, _ | ⟨⟨w2, a2⟩, rest⟩⟩
    · shape_other
    · exact fexec_w w1 a1 dw (hr (w1, a1) (by simp))
    · shape_other
  | inv =>
    rcases args with _ | ⟨⟨w1, a1⟩, _ | ⟨⟨w2, a2⟩, rest⟩⟩
    · shape_other
    · exact fexec_inv w1 a1 dw
    · shape_other
  | mux =>
    rcases args with _ | ⟨⟨w1, a1⟩, _ | ⟨⟨w2, a2⟩, _ | ⟨⟨w3, a3⟩, _ | ⟨⟨w4, a4⟩, rest⟩⟩⟩⟩
    · shape_other
    · shape_other
    · shape_other
    · have h23 : w2 = w3 := hs
      exact fexec_mux w1 w2 w3 a1 a2 a3 dw (hr (w2, a2) (by simp)) (h23 ▸ hr (w3, a3) (by simp))
    · shape_other
  | and =>
    rcases args with _ | ⟨⟨w1, a1⟩, _ | ⟨⟨w2, a2⟩, _ | ⟨⟨w3, a3⟩, rest⟩⟩⟩
    · shape_other
    · shape_other
    · exact fexec_and w1 w2 a1 a2 dw (hr (w1, a1) (by simp))
    · shape_other
  | or =>
    rcases args with _ | ⟨⟨w1, a1⟩, _ | ⟨⟨w2, a2⟩, _ | ⟨⟨w3, a3⟩, rest⟩⟩⟩
    · shape_other
    · shape_other
    · have h12 : w1 = w2 := hs
      exact fexec_or w1 w2 a1 a2 dw (hr (w1, a1) (by simp)) (h12 ▸ hr (w2, a2) (by simp))
    · shape_other
  | xor =>
    rcases args with _ | ⟨⟨w1, a1⟩, _ | ⟨⟨w2, a2⟩, _ | ⟨⟨w3, a3⟩, rest⟩⟩⟩
    · shape_other
    · shape_other
    · have h12 : w1 = w2 := hs
      exact fexec_xor w1 w2 a1 a2 dw (hr (w1, a1) (by simp)) (h12 ▸ hr (w2, a2) (by simp))
    · shape_other
  | nand =>
    rcases args with _ | ⟨⟨w1, a1⟩, _ | ⟨⟨w2, a2⟩, _ | ⟨⟨w3, a3⟩, rest⟩⟩⟩
    · shape_other
    · shape_other
    · exact fexec_nand w1 w2 a1 a2 dw
    · shape_other
  | add =>
    rcases args with _ | ⟨⟨w1, a1⟩, _ | ⟨⟨w2, a2⟩, _ | ⟨⟨w3, a3⟩, rest⟩⟩⟩
    · shape_other
    · shape_other
    · have h12 : w1 = w2 := hs
      exact fexec_add w1 w2 a1 a2 dw (hr (w1, a1) (by simp)) (h12 ▸ hr (w2, a2) (by simp))
    · shape_other
  | sub =>
    rcases args with _ | ⟨⟨w1, a1⟩, _ | ⟨⟨w2, a2⟩, _ | ⟨⟨w3, a3⟩, rest⟩⟩⟩
    · shape_other
    · shape_other
    · exact fexec_sub w1 w2 a1 a2 dw
    · shape_other
  | mul =>
    rcases args with _ | ⟨⟨w1, a1⟩, _ | ⟨⟨w2, a2⟩, _ | ⟨⟨w3, a3⟩, rest⟩⟩⟩
    · shape_other
    · shape_other
    · exact fexec_mul w1 w2 a1 a2 dw (hr (w1, a1) (by simp)) (hr (w2, a2) (by simp))
    · shape_other
  | lt =>
    rcases args with _ | ⟨⟨w1, a1⟩, _ | ⟨⟨w2, a2⟩, _ | ⟨⟨w3, a3⟩, rest⟩⟩⟩
    · shape_other
    · shape_other
    · exact fexec_lt w1 w2 a1 a2 dw
    · shape_other
  | gt =>
    rcases args with _ | ⟨⟨w1, a1⟩, _ | ⟨⟨w2, a2⟩, _ | ⟨⟨w3, a3⟩, rest⟩⟩⟩
    · shape_other
    · shape_other
    · exact fexec_gt w1 w2 a1 a2 dw
    · shape_other
  | eq =>
    rcases args with _ | ⟨⟨w1, a1⟩, _ | ⟨⟨w2, a2⟩, _ | ⟨⟨w3, a3⟩, rest⟩⟩⟩
    · shape_other
    · shape_other
    · exact fexec_eq w1 w2 a1 a2 dw
    · shape_other

/-- Hence FastSimulation and Simulation store the same value for every such net. -/
theorem fast_exec_eq_pysim (op : Op) (args : List (Nat × Nat)) (dw : Nat)
    (hr : InRange args) (hs : SaneWidths op args) (hsel : ∀ idx, op ≠ .select idx) :
    FastSim.exec op (castArgs args) dw = ((PySim.exec op (castArgs args) dw : Nat) : Int) := by
  rw [fast_exec_eq_spec op args dw hr hs hsel, pysim_exec_eq_spec op args dw hr]

/-- **`s` nets**: FastSimulation splits the index tuple into runs of consecutive ascending bits and
    emits, per run, one of three shifted/masked shapes (regenerated from `make_split` on every run)
    joined by `|`; for every index tuple within the argument (repeats, reversals, gaps), every argument
    and destination width and every in-range value this is the documented bit selection — including
    the elision of the outer mask when the destination is as wide as the tuple, and of the inner mask
    when a run ends at the argument's top bit. -/
theorem fast_select_eq_spec (idx : List Nat) (wa a dw : Nat) (ha : a < 2 ^ wa) (hi : ∀ b ∈ idx, b < wa) :
    FastSim.exec (.select idx) (castArgs [(wa, a)]) dw
      = ((Spec.comb (.select idx) [(wa, a)] dw : Nat) : Int) := by
  simp only [castArgs, List.map_cons, List.map_nil, FastSim.exec, Spec.comb,
    selectExpr_eq wa a idx ha hi, Gen.FastEmit.noMask_select]
  by_cases h : eqW dw (idx.length : Int) = true
  · simp only [h, ↓reduceIte]
    have hdw : dw = idx.length := by exact_mod_cast eqW_true h
    rw [Nat.mod_eq_of_lt (hdw ▸ selectVal_lt idx a)]
  · simp only [h, Bool.false_eq_true, ↓reduceIte]
    exact mask_and_nat _ _

/-- … so FastSimulation and Simulation agree on select nets too -/
theorem fast_select_eq_pysim (idx : List Nat) (wa a dw : Nat) (ha : a < 2 ^ wa) (hi : ∀ b ∈ idx, b < wa) :
    FastSim.exec (.select idx) (castArgs [(wa, a)]) dw
      = ((PySim.exec (.select idx) (castArgs [(wa, a)]) dw : Nat) : Int) := by
  rw [fast_select_eq_spec idx wa a dw ha hi,
    pysim_exec_eq_spec (.select idx) [(wa, a)] dw (by intro p hp; simp at hp; subst hp; exact ha)]

-- a reversed partial select whose run ends at the top bit of a wider source (the mask matters)
example : FastSim.exec (.select [5, 4, 3, 2, 1, 0]) (castArgs [(8, 0xC0)]) 6 = 0 := by decide

-- the precedence witness: a mux net with a 2-bit destination and 4-bit data inputs
example : FastSim.exec .mux (castArgs [(1, 1), (4, 9), (4, 15)]) 2 = 3 := by decide
example : SaneWidths .mux [(1, 1), (4, 9), (4, 15)] := rfl

end Pyrtl.C02
