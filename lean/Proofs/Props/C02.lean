import Proofs.Lemmas.FastSimOps
import Proofs.Props.C01
/-!
# C02 — FastSimulation and CompiledSimulation are observably identical to Simulation

`FastSim.exec` is the value of the Python expression `FastSimulation._compiled` emits for a net; the
per-op expression templates, the statement template `res = mask & (expr)` and the
`_no_mask_bitwidth` table are regenerated from simulation.py on every run (`Gen.FastEmit`).
-/
namespace Pyrtl.C02
open Pyrtl Pyrtl.FastSim Pyrtl.C01

/-- The bitwidth agreements `sanity_check_net` enforces on a net's arguments (core.py:760-775):
    two-operand ops have equal argument widths, both mux data inputs have equal widths. -/
def SaneWidths (op : Op) (args : List (Nat × Nat)) : Prop :=
  match op, args with
  | .mux, [_, (wf, _), (wt, _)] => wf = wt
  | .concat, _ => True
  | _, [(w1, _), (w2, _)] => w1 = w2
  | _, _ => True

local macro "shape_other" : tactic =>
  `(tactic| simp [castArgs, FastSim.exec, Spec.comb])

/-- **FastSimulation, per net, every simple op and `c`, all widths, all in-range values**: the
    emitted expression — including the decision to drop the mask — evaluates to the documented
    function truncated to the destination width.  The mask may be dropped only because the
    arguments are in range and `sanity_check` guarantees matching widths; both facts are explicit
    hypotheses.  (`s` is handled by `fast_select_*` below; `m`/`@`/`r` are state, see C08.) -/
theorem fast_exec_eq_spec (op : Op) (args : List (Nat × Nat)) (dw : Nat)
    (hr : InRange args) (hs : SaneWidths op args) (hsel : ∀ idx, op ≠ .select idx) :
    FastSim.exec op (castArgs args) dw = ((Spec.comb op args dw : Nat) : Int) := by
  cases op with
  | concat => exact fexec_concat args dw hr
  | select idx => exact absurd rfl (hsel idx)
  | reg => shape_other
  | mread m => shape_other
  | mwrite m => shape_other
  | w =>
    rcases args with _ | ⟨⟨w1, a1⟩, _ | ⟨⟨w2, a2⟩, rest⟩⟩
    · shape_other
    · exact fexec_w w1 a1 dw (hr (w1, a1) (by simp))
    · shape_other
  | inv =>
    rcases args with _ | ⟨⟨w1, a1⟩, _ | ⟨⟨w2, a2⟩, rest⟩⟩
    · shape_other
    · exact fexec_inv w1 a1 dw
    · shape_other
  | mux =>
    rcases args with _ | ⟨⟨w1, a1⟩, _ | ⟨⟨w2, a2⟩, _ | ⟨⟨w3, a3⟩, _ | ⟨⟨w4, a4⟩, rest⟩⟩⟩⟩
    · shape_other
    · shape_other
    · shape_other
    · have h23 : w2 = w3 := hs
      exact fexec_mux w1 w2 w3 a1 a2 a3 dw (hr (w2, a2) (by simp)) (h23 ▸ hr (w3, a3) (by simp))
    · shape_other
  | and =>
    rcases args with _ | ⟨⟨w1, a1⟩, _ | ⟨⟨w2, a2⟩, _ | ⟨⟨w3, a3⟩, rest⟩⟩⟩
    · shape_other
    · shape_other
    · exact fexec_and w1 w2 a1 a2 dw (hr (w1, a1) (by simp))
    · shape_other
  | or =>
    rcases args with _ | ⟨⟨w1, a1⟩, _ | ⟨⟨w2, a2⟩, _ | ⟨⟨w3, a3⟩, rest⟩⟩⟩
    · shape_other
    · shape_other
    · have h12 : w1 = w2 := hs
      exact fexec_or w1 w2 a1 a2 dw (hr (w1, a1) (by simp)) (h12 ▸ hr (w2, a2) (by simp))
    · shape_other
  | xor =>
    rcases args with _ | ⟨⟨w1, a1⟩, _ | ⟨⟨w2, a2⟩, _ | ⟨⟨w3, a3⟩, rest⟩⟩⟩
    · shape_other
    · shape_other
    · have h12 : w1 = w2 := hs
      exact fexec_xor w1 w2 a1 a2 dw (hr (w1, a1) (by simp)) (h12 ▸ hr (w2, a2) (by simp))
    · shape_other
  | nand =>
    rcases args with _ | ⟨⟨w1, a1⟩, _ | ⟨⟨w2, a2⟩, _ | ⟨⟨w3, a3⟩, rest⟩⟩⟩
    · shape_other
    · shape_other
    · exact fexec_nand w1 w2 a1 a2 dw
    · shape_other
  | add =>
    rcases args with _ | ⟨⟨w1, a1⟩, _ | ⟨⟨w2, a2⟩, _ | ⟨⟨w3, a3⟩, rest⟩⟩⟩
    · shape_other
    · shape_other
    · have h12 : w1 = w2 := hs
      exact fexec_add w1 w2 a1 a2 dw (hr (w1, a1) (by simp)) (h12 ▸ hr (w2, a2) (by simp))
    · shape_other
  | sub =>
    rcases args with _ | ⟨⟨w1, a1⟩, _ | ⟨⟨w2, a2⟩, _ | ⟨⟨w3, a3⟩, rest⟩⟩⟩
    · shape_other
    · shape_other
    · exact fexec_sub w1 w2 a1 a2 dw
    · shape_other
  | mul =>
    rcases args with _ | ⟨⟨w1, a1⟩, _ | ⟨⟨w2, a2⟩, _ | ⟨⟨w3, a3⟩, rest⟩⟩⟩
    · shape_other
    · shape_other
    · exact fexec_mul w1 w2 a1 a2 dw (hr (w1, a1) (by simp)) (hr (w2, a2) (by simp))
    · shape_other
  | lt =>
    rcases args with _ | ⟨⟨w1, a1⟩, _ | ⟨⟨w2, a2⟩, _ | ⟨⟨w3, a3⟩, rest⟩⟩⟩
    · shape_other
    · shape_other
    · exact fexec_lt w1 w2 a1 a2 dw
    · shape_other
  | gt =>
    rcases args with _ | ⟨⟨w1, a1⟩, _ | ⟨⟨w2, a2⟩, _ | ⟨⟨w3, a3⟩, rest⟩⟩⟩
    · shape_other
    · shape_other
    · exact fexec_gt w1 w2 a1 a2 dw
    · shape_other
  | eq =>
    rcases args with _ | ⟨⟨w1, a1⟩, _ | ⟨⟨w2, a2⟩, _ | ⟨⟨w3, a3⟩, rest⟩⟩⟩
    · shape_other
    · shape_other
    · exact fexec_eq w1 w2 a1 a2 dw
    · shape_other

/-- Hence FastSimulation and Simulation store the same value for every such net. -/
theorem fast_exec_eq_pysim (op : Op) (args : List (Nat × Nat)) (dw : Nat)
    (hr : InRange args) (hs : SaneWidths op args) (hsel : ∀ idx, op ≠ .select idx) :
    FastSim.exec op (castArgs args) dw = ((PySim.exec op (castArgs args) dw : Nat) : Int) := by
  rw [fast_exec_eq_spec op args dw hr hs hsel, pysim_exec_eq_spec op args dw hr]

-- the precedence witness: a mux net with a 2-bit destination and 4-bit data inputs
example : FastSim.exec .mux (castArgs [(1, 1), (4, 9), (4, 15)]) 2 = 3 := by decide
example : SaneWidths .mux [(1, 1), (4, 9), (4, 15)] := rfl

end Pyrtl.C02
