import Proofs.Lemmas.Synth
import Model.Core.Spec
/-!
# C03 — synthesize() preserves behaviour

`Synth.basic*` are the impl models of the gate-level generators `synthesize` substitutes for the
word-level primitives (`corecircuits._basic_*`); bit vectors are LSB-first `List Bool`.
Each theorem: for **every** operand length and value the generated gates compute the documented
primitive (`Spec.comb`) at the primitive's natural result width.
The tie of these functions to the real generators is the exhaustive truth-table comparison run by
tools/checks/c03.py on every run.
-/
namespace Pyrtl.C03
open Pyrtl Pyrtl.Synth

/-- `+` : `len+1` result bits hold the exact sum. -/
theorem basicAdd_eq_spec (a b : List Bool) (h : a.length = b.length) :
    toNat (basicAdd a b) = Spec.comb .add [(a.length, toNat a), (b.length, toNat b)] (a.length + 1) ∧
    (basicAdd a b).length = a.length + 1 := by
  refine ⟨?_, basicAdd_length a b h⟩
  simp only [Spec.comb, basicAdd_spec a b h]
  have ha := toNat_lt a
  have hb := toNat_lt b
  rw [← h] at hb
  rw [Nat.mod_eq_of_lt (by rw [Nat.pow_succ]; omega)]

/-- `-` : `len+1` result bits hold the difference modulo `2^(len+1)` (two's complement).
    (False of the tree as first given: the carry was not inverted; repaired by the `fix:` commit
    recorded in known_findings.json, after which the truth-table tie agrees with this model.) -/
theorem basicSub_eq_spec (a b : List Bool) (h : a.length = b.length) :
    toNat (basicSub a b) = Spec.comb .sub [(a.length, toNat a), (b.length, toNat b)] (a.length + 1) := by
  simp only [Spec.comb]
  have := basicSub_spec a b h
  rw [← this, Int.toNat_natCast]

theorem basicEq_eq_spec (a b : List Bool) (h : a.length = b.length) :
    toNat (basicEq a b) = Spec.comb .eq [(a.length, toNat a), (b.length, toNat b)] 1 := by
  simp only [Spec.comb, basicEq_spec a b h]
  split <;> rfl

theorem basicLt_eq_spec (a b : List Bool) (h : a.length = b.length) :
    toNat (basicLt a b) = Spec.comb .lt [(a.length, toNat a), (b.length, toNat b)] 1 := by
  simp only [Spec.comb, basicLt_spec a b h]
  split <;> rfl

theorem basicGt_eq_spec (a b : List Bool) (h : a.length = b.length) :
    toNat (basicGt a b) = Spec.comb .gt [(a.length, toNat a), (b.length, toNat b)] 1 := by
  simp only [Spec.comb, basicGt_spec a b h]
  split <;> rfl

/-- `x` : select 0 passes the first data input, select 1 the second. -/
theorem basicSelect_eq_spec (s : Bool) (a b : List Bool) (h : a.length = b.length) :
    toNat (basicSelect s a b)
      = Spec.comb .mux [(1, b2n s), (a.length, toNat a), (b.length, toNat b)] a.length := by
  simp only [Spec.comb, basicSelect_spec s a b h]
  have ha := toNat_lt a
  have hb := toNat_lt b
  rw [← h] at hb
  cases s <;> simp [b2n, Nat.mod_eq_of_lt, ha, hb]

-- non-vacuity and the F4 witness: 0 - 0 at width 2 is 0 (the unrepaired generator gave 4)
example : toNat (basicSub [false, false] [false, false]) = 0 := by decide
example : toNat (basicSub [true, false] [false, true]) = 7 := by decide   -- 1 - 2 = -1 = 7 mod 8

end Pyrtl.C03
