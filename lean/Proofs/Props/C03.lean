import Proofs.Lemmas.Synth
import Proofs.Lemmas.Mult
import Model.Core.Spec
/-!
# C03 — synthesize() preserves behaviour

`Synth.basic*` are the impl models of the gate-level generators `synthesize` substitutes for the
word-level primitives (`corecircuits._basic_*`); bit vectors are LSB-first `List Bool`.
Each theorem: for **every** operand length and value the generated gates compute the documented
primitive (`Spec.comb`) at the primitive's natural result width.
The tie of these functions to the real generators is the exhaustive truth-table comparison run by
tools/checks/c03.py on every run.
-/
namespace Pyrtl.C03
open Pyrtl Pyrtl.Synth

/-- `+` : `len+1` result bits hold the exact sum. -/
theorem basicAdd_eq_spec (a b : List Bool) (h : a.length = b.length) :
    toNat (basicAdd a b) = Spec.comb .add [(a.length, toNat a), (b.length, toNat b)] (a.length + 1) ∧
    (basicAdd a b).length = a.length + 1 := by
  refine ⟨?_, basicAdd_length a b h⟩
  simp only [Spec.comb, basicAdd_spec a b h]
  have ha := toNat_lt a
  have hb := toNat_lt b
  rw [← h] at hb
  rw [Nat.mod_eq_of_lt (by rw [Nat.pow_succ]; omega)]

/-- `-` : `len+1` result bits hold the difference modulo `2^(len+1)` (two's complement).
    (False of the tree as first given: the carry was not inverted; repaired by the `fix:` commit
    recorded in known_findings.json, after which the truth-table tie agrees with this model.) -/
theorem basicSub_eq_spec (a b : List Bool) (h : a.length = b.length) :
    toNat (basicSub a b) = Spec.comb .sub [(a.length, toNat a), (b.length, toNat b)] (a.length + 1) := by
  simp only [Spec.comb]
  have := basicSub_spec a b h
  rw [← this, Int.toNat_natCast]

theorem basicEq_eq_spec (a b : List Bool) (h : a.length = b.length) :
    toNat (basicEq a b) = Spec.comb .eq [(a.length, toNat a), (b.length, toNat b)] 1 := by
  simp only [Spec.comb, basicEq_spec a b h]
  split <;> rfl

theorem basicLt_eq_spec (a b : List Bool) (h : a.length = b.length) :
    toNat (basicLt a b) = Spec.comb .lt [(a.length, toNat a), (b.length, toNat b)] 1 := by
  simp only [Spec.comb, basicLt_spec a b h]
  split <;> rfl

theorem basicGt_eq_spec (a b : List Bool) (h : a.length = b.length) :
    toNat (basicGt a b) = Spec.comb .gt [(a.length, toNat a), (b.length, toNat b)] 1 := by
  simp only [Spec.comb, basicGt_spec a b h]
  split <;> rfl

/-- `x` : select 0 passes the first data input, select 1 the second. -/
theorem basicSelect_eq_spec (s : Bool) (a b : List Bool) (h : a.length = b.length) :
    toNat (basicSelect s a b)
      = Spec.comb .mux [(1, b2n s), (a.length, toNat a), (b.length, toNat b)] a.length := by
  simp only [Spec.comb, basicSelect_spec s a b h]
  have ha := toNat_lt a
  have hb := toNat_lt b
  rw [← h] at hb
  cases s <;> simp [b2n, Nat.mod_eq_of_lt, ha, hb]

-- non-vacuity and the F4 witness: 0 - 0 at width 2 is 0 (the unrepaired generator gave 4)
example : toNat (basicSub [false, false] [false, false]) = 0 := by decide
example : toNat (basicSub [true, false] [false, true]) = 7 := by decide   -- 1 - 2 = -1 = 7 mod 8


/-- the reduction loop of `_basic_mult` reached columns of height ≤ 2 within the model's fuel (the
    Python `while` simply runs until it does; column heights depend only on the operand lengths) -/
def multDone (A B : List Bool) : Bool :=
  let AB := if B.length == 1 then (B, A) else (A, B)
  AB.1.length == 1 ||
    allLe2 (reduceLoop (4 * (AB.1.length + AB.2.length) + 8) (partials AB.1 AB.2))

/-- `*` : the column-compression multiplier (partial products, full/half-adder reduction passes,
    final ripple addition) holds the exact product in `len(A)+len(B)` bits, for every operand length.
    Termination of the reduction within the model's fuel is the hypothesis `multDone`, discharged
    for all operands by `multDone_always` below. -/
theorem basicMult_eq_spec_partial (A B : List Bool) (hA : A ≠ []) (hB : B ≠ [])
    (hdone : multDone A B = true) :
    toNat (basicMult A B)
      = Spec.comb .mul [(A.length, toNat A), (B.length, toNat B)] (A.length + B.length) := by
  have hprod : toNat A * toNat B < 2 ^ (A.length + B.length) := by
    rw [Nat.pow_add]; exact Nat.mul_lt_mul'' (toNat_lt A) (toNat_lt B)
  simp only [Spec.comb, Nat.mod_eq_of_lt hprod]
  unfold multDone at hdone
  unfold basicMult
  by_cases hb1 : (B.length == 1) = true
  · simp only [hb1, ↓reduceIte] at hdone ⊢
    have hb1' : B.length = 1 := by simpa using hb1
    simp only [toNat_append, toNat_map_and, toNat, List.length_map, Nat.mul_zero,
      Nat.add_zero, toNat_single B hb1', b2n, Bool.false_eq_true, ↓reduceIte]
    exact Nat.mul_comm _ _
  · simp only [hb1, Bool.false_eq_true, ↓reduceIte] at hdone ⊢
    by_cases ha1 : (A.length == 1) = true
    · have ha1' : A.length = 1 := by simpa using ha1
      simp only [ha1, ↓reduceIte, toNat_append, toNat_map_and, toNat, List.length_map, Nat.mul_zero,
        Nat.add_zero, toNat_single A ha1', b2n, Bool.false_eq_true]
    · simp only [ha1, Bool.false_eq_true, ↓reduceIte, Bool.false_or] at hdone ⊢
      exact mult_general A B hA _ hdone

/-- the reduction loop always finishes within the model's fuel: every column of the partial-product
    array has at most `len(A)` bits and each pass lowers the tallest column while it exceeds 2 -/
theorem multDone_always (A B : List Bool) : multDone A B = true := by
  unfold multDone
  by_cases hb1 : (B.length == 1) = true
  · simp only [hb1, ↓reduceIte, Bool.or_eq_true]
    exact Or.inr (mult_loop_done B A)
  · simp only [hb1, Bool.false_eq_true, ↓reduceIte, Bool.or_eq_true]
    exact Or.inr (mult_loop_done A B)

/-- `*` : **for every operand length and value** the synthesized multiplier holds the exact product in
    `len(A)+len(B)` bits. -/
theorem basicMult_eq_spec (A B : List Bool) (hA : A ≠ []) (hB : B ≠ []) :
    toNat (basicMult A B)
      = Spec.comb .mul [(A.length, toNat A), (B.length, toNat B)] (A.length + B.length) :=
  basicMult_eq_spec_partial A B hA hB (multDone_always A B)

-- a concrete instance: 5 x 6 = 30 in 6 bits
example : toNat (basicMult [true, false, true] [false, true, true]) = 30 := by decide
end Pyrtl.C03
