import Model.Pass.Opt
import Proofs.Lemmas.PyInt
import Proofs.Lemmas.Alias
import Proofs.Lemmas.Dead
/-!
# C04 — optimize() and its passes preserve observable behaviour

The folding tables and op-class strings are regenerated from passes.py on every run
(`Gen.ConstFold`); these theorems are re-checked against them.
-/
namespace Pyrtl.C04
open Pyrtl Pyrtl.Opt Pyrtl.Gen.ConstFold

theorem nat_toNat (x : Int) (n : Nat) (h : x = (n : Int)) : x.toNat = n := by subst h; simp

/-- Both arguments constant, **any width**: the folded value is the documented result and fits the
    destination, for `&`, `|`, `^`. -/
theorem constfold_both_and (w a b : Nat) (ha : a < 2 ^ w) :
    foldBoth_and a b (mask w) = ((Spec.comb .and [(w, a), (w, b)] w : Nat) : Int) := by
  simp only [foldBoth_and, fold2_and, pyAnd_nat, Spec.comb]
  rw [Nat.mod_eq_of_lt (Nat.lt_of_le_of_lt Nat.and_le_left ha)]

theorem constfold_both_or (w a b : Nat) (ha : a < 2 ^ w) (hb : b < 2 ^ w) :
    foldBoth_or a b (mask w) = ((Spec.comb .or [(w, a), (w, b)] w : Nat) : Int) := by
  simp only [foldBoth_or, fold2_or, pyOr_nat, Spec.comb]
  rw [Nat.mod_eq_of_lt (Nat.or_lt_two_pow ha hb)]

theorem constfold_both_xor (w a b : Nat) (ha : a < 2 ^ w) (hb : b < 2 ^ w) :
    foldBoth_xor a b (mask w) = ((Spec.comb .xor [(w, a), (w, b)] w : Nat) : Int) := by
  simp only [foldBoth_xor, fold2_xor, pyXor_nat, Spec.comb]
  rw [Nat.mod_eq_of_lt (Nat.xor_lt_two_pow ha hb)]

/-- NAND of two constants, any width (false of the tree as first given, which folded
    `1 - (l & r)`: witness 12958 nand 29479 at 17 bits; repaired by a `fix:` commit). -/
theorem constfold_both_nand (w a b : Nat) :
    foldBoth_nand a b (mask w) = ((Spec.comb .nand [(w, a), (w, b)] w : Nat) : Int) := by
  simp only [foldBoth_nand, pyAnd_nat, Spec.comb]
  have h := pyNot_mask_toNat (a &&& b) w
  have hn : 0 ≤ pyAnd (pyNot ((a &&& b : Nat) : Int)) (mask w) := by
    rw [pyAnd_mask]; exact Int.emod_nonneg _ (by have := Nat.two_pow_pos w; omega)
  rw [← h, Int.toNat_of_nonneg hn]

/-- `~` of a constant, any width. -/
theorem constfold_inv (w a : Nat) :
    fold1_inv a (mask w) = ((Spec.comb .inv [(w, a)] w : Nat) : Int) := by
  simp only [fold1_inv, Spec.comb]
  have h := pyNot_mask_toNat a w
  have hn : 0 ≤ pyAnd (pyNot (a : Int)) (mask w) := by
    rw [pyAnd_mask]; exact Int.emod_nonneg _ (by have := Nat.two_pow_pos w; omega)
  rw [← h, Int.toNat_of_nonneg hn]

/-- Exactly one constant argument (the code requires all wires 1 bit wide): whatever the constant
    and whatever the other input, the replacement chosen (constant / the other wire / an inverter
    on it) has the gate's value.  Whole table, kernel-checked. -/
theorem constfold_one_sound :
    ∀ c ∈ [0, 1], ∀ x ∈ [0, 1],
      (oneConst fold2_and (c : Nat)).eval x = ((Spec.comb .and [(1, c), (1, x)] 1 : Nat) : Int) ∧
      (oneConst fold2_or (c : Nat)).eval x = ((Spec.comb .or [(1, c), (1, x)] 1 : Nat) : Int) ∧
      (oneConst fold2_xor (c : Nat)).eval x = ((Spec.comb .xor [(1, c), (1, x)] 1 : Nat) : Int) ∧
      (oneConst fold2_nand (c : Nat)).eval x = ((Spec.comb .nand [(1, c), (1, x)] 1 : Nat) : Int) := by
  decide

/-- and it does not matter on which side the constant sits -/
theorem constfold_one_side :
    ∀ c ∈ [0, 1], ∀ x ∈ [0, 1],
      Spec.comb .and [(1, x), (1, c)] 1 = Spec.comb .and [(1, c), (1, x)] 1 ∧
      Spec.comb .or [(1, x), (1, c)] 1 = Spec.comb .or [(1, c), (1, x)] 1 ∧
      Spec.comb .xor [(1, x), (1, c)] 1 = Spec.comb .xor [(1, c), (1, x)] 1 ∧
      Spec.comb .nand [(1, x), (1, c)] 1 = Spec.comb .nand [(1, c), (1, x)] 1 := by
  decide

/-- **CSE may reorder arguments only of commutative ops**: every op that is *not* listed in
    `ops_where_arg_order_matters` computes the same value with its two arguments swapped. -/
theorem cse_sorted_args_commute (op : Op) (h : sortsArgs op = true)
    (w1 w2 a b dw : Nat) :
    Spec.comb op [(w1, a), (w2, b)] dw = Spec.comb op [(w2, b), (w1, a)] dw := by
  cases op <;> first
    | (exfalso; revert h; decide)
    | simp [Spec.comb, Nat.and_comm, Nat.or_comm, Nat.xor_comm, Nat.add_comm, Nat.mul_comm, eq_comm]

/-- the same for three-argument nets (the only one is the mux, whose argument order is its meaning): an
    op whose arguments CSE sorts must be invariant under both adjacent transpositions, hence under every
    permutation of its three arguments -/
theorem cse_sorted_args_commute3 (op : Op) (h : sortsArgs op = true)
    (w1 w2 w3 a b c dw : Nat) :
    Spec.comb op [(w1, a), (w2, b), (w3, c)] dw = Spec.comb op [(w2, b), (w1, a), (w3, c)] dw ∧
    Spec.comb op [(w1, a), (w2, b), (w3, c)] dw = Spec.comb op [(w1, a), (w3, c), (w2, b)] dw := by
  cases op <;> first
    | (exfalso; revert h; decide)
    | simp [Spec.comb]

/-- memory write ports (address, data, enable) are never argument-sorted -/
theorem cse_keeps_write_port_order (m : Nat) : sortsArgs (.mwrite m) = false ∧ sortsArgs .concat = false := by
  constructor <;> simp [sortsArgs, opName] <;> decide

/-- ops whose folding is skipped are exactly the structural ones; every op with a folding rule is
    among the valid ones (table consistency, so no rule is silently unreachable). -/
theorem fold_tables_consistent :
    (∀ k ∈ one_var_keys ++ two_var_keys, k ∈ valid_net_ops) ∧
    (∀ k ∈ one_var_keys ++ two_var_keys, k ∉ no_optimization_ops) := by
  decide

example : sortsArgs .and = true := by decide
example : sortsArgs .sub = false := by decide

/-! ### alias elimination on whole netlists, for every run

`_remove_wire_nets`, `_remove_slice_nets` and each round of `common_subexp_elimination` remove a set of nets and let every
reader of a removed destination read a replacement wire instead (`Model/Pass/Alias.lean`).  A certificate (removed nets,
replacement map) is *justified* (`Alias.certOk`, decidable) when every removed net is a `w` net or an all-bits-in-order
select of equal width, or has the same op and arguments — two arguments of a commutative op possibly swapped — and the
same destination width as a kept net.  On every run the correspondence check derives the certificate from the real
pass's input and output, has the driver evaluate `schedsOkB` and compares `Alias.applyCert` with the real output. -/
open Alias in
/-- **a justified alias elimination preserves every Output (and every other kept wire) in every cycle of every run**,
    from any initial state whose run shows only in-range values (C01: every reported value lies in [0, 2^bitwidth)),
    under the scheduler's dependency orders of both netlists. -/
theorem alias_elimination_run_eq (b : Block) (c : Cert) (h : schedsOkB b c = true) (st : State) (inps : List Env)
    (hrange : RangeRun b (Dco.orderOf b) st inps) :
    Dco.AgreeOn (fun x => b.kind x = .output)
      (run (applyCert b c) (Dco.orderOf (applyCert b c)) st inps) (run b (Dco.orderOf b) st inps) ∧
    Dco.AgreeOn (fun x => ¬ RemovedDest c x)
      (run (applyCert b c) (Dco.orderOf (applyCert b c)) st inps) (run b (Dco.orderOf b) st inps) := by
  obtain ⟨hs, hout⟩ := schedsOkB_sound b c h
  have hrun := alias_run b c _ _ hs inps st hrange
  exact ⟨Dco.AgreeOn.mono _ _ hout _ _ hrun, hrun⟩

/-- the architectural state after every cycle is equal as well -/
theorem alias_elimination_state_eq (b : Block) (c : Alias.Cert) (h : Alias.schedsOkB b c = true) (st : State) (inp : Env)
    (hrange : ∀ a, evalNets b st (Dco.orderOf b) (baseEnv b st inp) a < 2 ^ b.width a) :
    (step (Alias.applyCert b c) (Dco.orderOf (Alias.applyCert b c)) st inp).2 = (step b (Dco.orderOf b) st inp).2 :=
  (Alias.alias_step b c _ _ (Alias.schedsOkB_sound b c h).1 st inp hrange).2

/-- **dead-logic removal (`_remove_unlistened_nets`) preserves every Output and every kept wire in every cycle of
    every run**, from any state: `Dead.deadOk` (decidable, evaluated on every intercepted call) says that only
    combinational nets that drive no Output are removed and that nothing kept — register and memory-write nets
    included — reads a removed destination. -/
theorem dead_logic_removal_run_eq (b : Block) (removed : List Net) (h : Dead.deadSchedsOkB b removed = true)
    (st : State) (inps : List Env) :
    Dco.AgreeOn (fun x => b.kind x = .output)
      (run (Dead.applyDead b removed) (Dco.orderOf (Dead.applyDead b removed)) st inps) (run b (Dco.orderOf b) st inps) ∧
    Dco.AgreeOn (fun x => ¬ Dead.RemovedDest removed x)
      (run (Dead.applyDead b removed) (Dco.orderOf (Dead.applyDead b removed)) st inps) (run b (Dco.orderOf b) st inps) := by
  obtain ⟨hs, hout⟩ := Dead.deadSchedsOkB_sound b removed h
  have hrun := Dead.dead_run b removed _ _ hs inps st
  exact ⟨Dco.AgreeOn.mono _ _ hout _ _ hrun, hrun⟩

/-- non-vacuity: `t = a + c; y = t (w net); u = c + a; o1 = y; o2 = u` — the `w` net goes (readers of `y` read `t`) and
    the swapped addition is merged into the first -/
def exAlias : Block :=
  { wires := #[⟨"a", 3, .input⟩, ⟨"c", 3, .input⟩, ⟨"t", 4, .plain⟩, ⟨"y", 4, .plain⟩, ⟨"u", 4, .plain⟩,
               ⟨"o1", 4, .output⟩, ⟨"o2", 4, .output⟩]
    nets := [⟨.add, [0, 1], [2]⟩, ⟨.w, [2], [3]⟩, ⟨.add, [1, 0], [4]⟩, ⟨.w, [3], [5]⟩, ⟨.w, [4], [6]⟩]
    mems := [] }

def exCert : Alias.Cert := { removed := [⟨.w, [2], [3]⟩, ⟨.add, [1, 0], [4]⟩], sigma := [(3, 2), (4, 2)] }

example : Alias.schedsOkB exAlias exCert = true ∧
    (Alias.applyCert exAlias exCert).nets = [⟨.add, [0, 1], [2]⟩, ⟨.w, [2], [5]⟩, ⟨.w, [2], [6]⟩] := by decide

/-- **constant propagation** (`_constant_prop_pass`) is the same transformation with three more justifications
    (`Alias.justConst`, `justConst1`, `justIdent`, `rewriteJustified`): a net whose arguments are all constants is replaced
    by a constant wire of the value the documented semantics gives (`Alias.foldVal` — the folding is *computed from the
    specification*, not from the pass's tables); a one-bit gate with one constant operand is removed in favour of a
    constant or of its other operand, or rewritten into an inverter of it, according to its two-row truth table
    (`oneConstTable`); a net driving an Output is rewritten into a `w` net instead of being removed.  The statement is
    `alias_elimination_run_eq` for certificates with `rewrites`; registers folded to constants (the sanctioned
    difference of the property) are outside the model.  Example: `x = 1 & 1` folds to the constant 1, `y = a ^ x` reads the
    constant instead of `x`, `z = a ^ 1` becomes `~a`, `o = b & 0` becomes `o = w 0`. -/
def exConst : Block :=
  { wires := #[⟨"a", 1, .input⟩, ⟨"b", 1, .input⟩, ⟨"k1", 1, .const 1⟩, ⟨"k0", 1, .const 0⟩, ⟨"x", 1, .plain⟩,
               ⟨"y", 1, .plain⟩, ⟨"z", 1, .plain⟩, ⟨"o", 1, .output⟩, ⟨"oy", 1, .output⟩, ⟨"oz", 1, .output⟩,
               ⟨"c1", 1, .const 1⟩, ⟨"c0", 1, .const 0⟩]
    nets := [⟨.and, [2, 2], [4]⟩, ⟨.xor, [0, 4], [5]⟩, ⟨.xor, [0, 2], [6]⟩, ⟨.and, [1, 3], [7]⟩,
             ⟨.w, [5], [8]⟩, ⟨.w, [6], [9]⟩]
    mems := [] }

def exConstCert : Alias.Cert :=
  { removed := [⟨.and, [2, 2], [4]⟩], sigma := [(4, 10)],
    rewrites := [(⟨.xor, [0, 2], [6]⟩, ⟨.inv, [0], [6]⟩), (⟨.and, [1, 3], [7]⟩, ⟨.w, [11], [7]⟩)] }

example : Alias.schedsOkB exConst exConstCert = true ∧
    (Alias.applyCert exConst exConstCert).nets =
      [⟨.xor, [0, 10], [5]⟩, ⟨.inv, [0], [6]⟩, ⟨.w, [11], [7]⟩, ⟨.w, [5], [8]⟩, ⟨.w, [6], [9]⟩] := by decide

/-- non-vacuity for dead-logic removal: the unread `u = c + a` of `exAlias` may go -/
example : Dead.deadSchedsOkB { exAlias with nets := exAlias.nets.filter (fun n => n.dests != [6]) } [⟨.add, [1, 0], [4]⟩] = true := by
  decide

end Pyrtl.C04
