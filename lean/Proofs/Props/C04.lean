import Model.Pass.Opt
import Proofs.Lemmas.PyInt
/-!
# C04 — optimize() and its passes preserve observable behaviour

The folding tables and op-class strings are regenerated from passes.py on every run
(`Gen.ConstFold`); these theorems are re-checked against them.
-/
namespace Pyrtl.C04
open Pyrtl Pyrtl.Opt Pyrtl.Gen.ConstFold

theorem nat_toNat (x : Int) (n : Nat) (h : x = (n : Int)) : x.toNat = n := by subst h; simp

/-- Both arguments constant, **any width**: the folded value is the documented result and fits the
    destination, for `&`, `|`, `^`. -/
theorem constfold_both_and (w a b : Nat) (ha : a < 2 ^ w) :
    foldBoth_and a b (mask w) = ((Spec.comb .and [(w, a), (w, b)] w : Nat) : Int) := by
  simp only [foldBoth_and, fold2_and, pyAnd_nat, Spec.comb]
  rw [Nat.mod_eq_of_lt (Nat.lt_of_le_of_lt Nat.and_le_left ha)]

theorem constfold_both_or (w a b : Nat) (ha : a < 2 ^ w) (hb : b < 2 ^ w) :
    foldBoth_or a b (mask w) = ((Spec.comb .or [(w, a), (w, b)] w : Nat) : Int) := by
  simp only [foldBoth_or, fold2_or, pyOr_nat, Spec.comb]
  rw [Nat.mod_eq_of_lt (Nat.or_lt_two_pow ha hb)]

theorem constfold_both_xor (w a b : Nat) (ha : a < 2 ^ w) (hb : b < 2 ^ w) :
    foldBoth_xor a b (mask w) = ((Spec.comb .xor [(w, a), (w, b)] w : Nat) : Int) := by
  simp only [foldBoth_xor, fold2_xor, pyXor_nat, Spec.comb]
  rw [Nat.mod_eq_of_lt (Nat.xor_lt_two_pow ha hb)]

/-- NAND of two constants, any width (false of the tree as first given, which folded
    `1 - (l & r)`: witness 12958 nand 29479 at 17 bits; repaired by a `fix:` commit). -/
theorem constfold_both_nand (w a b : Nat) :
    foldBoth_nand a b (mask w) = ((Spec.comb .nand [(w, a), (w, b)] w : Nat) : Int) := by
  simp only [foldBoth_nand, pyAnd_nat, Spec.comb]
  have h := pyNot_mask_toNat (a &&& b) w
  have hn : 0 ≤ pyAnd (pyNot ((a &&& b : Nat) : Int)) (mask w) := by
    rw [pyAnd_mask]; exact Int.emod_nonneg _ (by have := Nat.two_pow_pos w; omega)
  rw [← h, Int.toNat_of_nonneg hn]

/-- `~` of a constant, any width. -/
theorem constfold_inv (w a : Nat) :
    fold1_inv a (mask w) = ((Spec.comb .inv [(w, a)] w : Nat) : Int) := by
  simp only [fold1_inv, Spec.comb]
  have h := pyNot_mask_toNat a w
  have hn : 0 ≤ pyAnd (pyNot (a : Int)) (mask w) := by
    rw [pyAnd_mask]; exact Int.emod_nonneg _ (by have := Nat.two_pow_pos w; omega)
  rw [← h, Int.toNat_of_nonneg hn]

/-- Exactly one constant argument (the code requires all wires 1 bit wide): whatever the constant
    and whatever the other input, the replacement chosen (constant / the other wire / an inverter
    on it) has the gate's value.  Whole table, kernel-checked. -/
theorem constfold_one_sound :
    ∀ c ∈ [0, 1], ∀ x ∈ [0, 1],
      (oneConst fold2_and (c : Nat)).eval x = ((Spec.comb .and [(1, c), (1, x)] 1 : Nat) : Int) ∧
      (oneConst fold2_or (c : Nat)).eval x = ((Spec.comb .or [(1, c), (1, x)] 1 : Nat) : Int) ∧
      (oneConst fold2_xor (c : Nat)).eval x = ((Spec.comb .xor [(1, c), (1, x)] 1 : Nat) : Int) ∧
      (oneConst fold2_nand (c : Nat)).eval x = ((Spec.comb .nand [(1, c), (1, x)] 1 : Nat) : Int) := by
  decide

/-- and it does not matter on which side the constant sits -/
theorem constfold_one_side :
    ∀ c ∈ [0, 1], ∀ x ∈ [0, 1],
      Spec.comb .and [(1, x), (1, c)] 1 = Spec.comb .and [(1, c), (1, x)] 1 ∧
      Spec.comb .or [(1, x), (1, c)] 1 = Spec.comb .or [(1, c), (1, x)] 1 ∧
      Spec.comb .xor [(1, x), (1, c)] 1 = Spec.comb .xor [(1, c), (1, x)] 1 ∧
      Spec.comb .nand [(1, x), (1, c)] 1 = Spec.comb .nand [(1, c), (1, x)] 1 := by
  decide

/-- **CSE may reorder arguments only of commutative ops**: every op that is *not* listed in
    `ops_where_arg_order_matters` computes the same value with its two arguments swapped. -/
theorem cse_sorted_args_commute (op : Op) (h : sortsArgs op = true)
    (w1 w2 a b dw : Nat) :
    Spec.comb op [(w1, a), (w2, b)] dw = Spec.comb op [(w2, b), (w1, a)] dw := by
  cases op <;> first
    | (exfalso; revert h; decide)
    | simp [Spec.comb, Nat.and_comm, Nat.or_comm, Nat.xor_comm, Nat.add_comm, Nat.mul_comm, eq_comm]

/-- the same for three-argument nets (the only one is the mux, whose argument order is its meaning): an
    op whose arguments CSE sorts must be invariant under both adjacent transpositions, hence under every
    permutation of its three arguments -/
theorem cse_sorted_args_commute3 (op : Op) (h : sortsArgs op = true)
    (w1 w2 w3 a b c dw : Nat) :
    Spec.comb op [(w1, a), (w2, b), (w3, c)] dw = Spec.comb op [(w2, b), (w1, a), (w3, c)] dw ∧
    Spec.comb op [(w1, a), (w2, b), (w3, c)] dw = Spec.comb op [(w1, a), (w3, c), (w2, b)] dw := by
  cases op <;> first
    | (exfalso; revert h; decide)
    | simp [Spec.comb]

/-- memory write ports (address, data, enable) are never argument-sorted -/
theorem cse_keeps_write_port_order (m : Nat) : sortsArgs (.mwrite m) = false ∧ sortsArgs .concat = false := by
  constructor <;> simp [sortsArgs, opName] <;> decide

/-- ops whose folding is skipped are exactly the structural ones; every op with a folding rule is
    among the valid ones (table consistency, so no rule is silently unreachable). -/
theorem fold_tables_consistent :
    (∀ k ∈ one_var_keys ++ two_var_keys, k ∈ valid_net_ops) ∧
    (∀ k ∈ one_var_keys ++ two_var_keys, k ∉ no_optimization_ops) := by
  decide

example : sortsArgs .and = true := by decide
example : sortsArgs .sub = false := by decide

end Pyrtl.C04
