import Model.Verilog.Emit
import Proofs.Props.C01
import Mathlib.Tactic.Ring
/-!
# C05 — the Verilog that `output_to_verilog` emits means what the netlist means

`Verilog.emitExpr` is the model of `_to_verilog_combinational` (tied to the real emitter by AST equality
on every run); `Verilog.assignVal` is IEEE 1364-2001 continuous-assignment semantics with its
expression-width rules.  The theorems say: for every primitive, all operand widths, all destination
widths and all in-range values, the emitted assignment stores exactly `Spec.comb`.
-/
namespace Pyrtl.C05
open Pyrtl Pyrtl.Verilog

variable (E : VEnv)

/-- values are inside their declared vectors -/
def InRange (E : VEnv) (a : String) : Prop := E.val a < 2 ^ E.width a

theorem pow_le_max_left (a b : Nat) : 2 ^ a ≤ 2 ^ max a b := Nat.pow_le_pow_right (by decide) (Nat.le_max_left _ _)
theorem pow_le_max_right (a b : Nat) : 2 ^ b ≤ 2 ^ max a b := Nat.pow_le_pow_right (by decide) (Nat.le_max_right _ _)

theorem mod_mod_pow (x W w : Nat) (h : w ≤ W) : x % 2 ^ W % 2 ^ w = x % 2 ^ w :=
  Nat.mod_mod_of_dvd x (Nat.pow_dvd_pow 2 h)

/-- `~` computed in a wider context and then truncated is `~` at the target width -/
theorem not_trunc (x W w : Nat) (h : w ≤ W) (hx : x < 2 ^ W) :
    (2 ^ W - 1 - x) % 2 ^ w = 2 ^ w - 1 - x % 2 ^ w := by
  obtain ⟨k, rfl⟩ := Nat.exists_eq_add_of_le h
  have hm : 0 < 2 ^ w := Nat.two_pow_pos _
  rw [Nat.pow_add] at hx ⊢
  generalize 2 ^ w = m at *
  generalize 2 ^ k = K at *
  have hq : x / m < K := (Nat.div_lt_iff_lt_mul hm).2 (by rw [Nat.mul_comm]; exact hx)
  have hx' := Nat.div_add_mod x m
  have hr := Nat.mod_lt x hm
  obtain ⟨j, hj⟩ : ∃ j, K = x / m + 1 + j := ⟨K - (x / m + 1), by omega⟩
  have : m * K - 1 - x = (m - 1 - x % m) + m * j := by
    rw [hj, Nat.mul_add, Nat.mul_add, Nat.mul_one]
    generalize m * (x / m) = A at *
    generalize m * j = B
    omega
  rw [this, Nat.add_mul_mod_self_left, Nat.mod_eq_of_lt (by omega)]

theorem assign_w (a : String) (wd : Nat) (ha : InRange E a) :
    assignVal E wd (.id a) = Spec.comb .w [(E.width a, E.val a)] wd := by
  simp only [assignVal, eval, selfW, Spec.comb]
  rw [Nat.mod_eq_of_lt (Nat.lt_of_lt_of_le ha (pow_le_max_left _ _))]

theorem assign_inv (a : String) (wd : Nat) (ha : InRange E a) :
    assignVal E wd (.not (.id a)) = Spec.comb .inv [(E.width a, E.val a)] wd := by
  simp only [assignVal, eval, selfW, Spec.comb]
  have hlt : E.val a < 2 ^ max (E.width a) wd := Nat.lt_of_lt_of_le ha (pow_le_max_left _ _)
  rw [Nat.mod_eq_of_lt hlt]
  exact not_trunc _ _ _ (Nat.le_max_right _ _) hlt

theorem ctx_val (a b : String) (wd : Nat) (ha : InRange E a) :
    E.val a % 2 ^ max (max (E.width a) (E.width b)) wd = E.val a :=
  Nat.mod_eq_of_lt (Nat.lt_of_lt_of_le ha
    (Nat.pow_le_pow_right (by decide) (Nat.le_trans (Nat.le_max_left _ _) (Nat.le_max_left _ _))))

theorem ctx_val' (a b : String) (wd : Nat) (hb : InRange E b) :
    E.val b % 2 ^ max (max (E.width a) (E.width b)) wd = E.val b :=
  Nat.mod_eq_of_lt (Nat.lt_of_lt_of_le hb
    (Nat.pow_le_pow_right (by decide) (Nat.le_trans (Nat.le_max_right _ _) (Nat.le_max_left _ _))))

/-- `& | ^` -/
theorem assign_bitwise (a b : String) (wd : Nat) (ha : InRange E a) (hb : InRange E b) :
    assignVal E wd (.bin .and (.id a) (.id b)) = Spec.comb .and [(E.width a, E.val a), (E.width b, E.val b)] wd ∧
    assignVal E wd (.bin .or (.id a) (.id b)) = Spec.comb .or [(E.width a, E.val a), (E.width b, E.val b)] wd ∧
    assignVal E wd (.bin .xor (.id a) (.id b)) = Spec.comb .xor [(E.width a, E.val a), (E.width b, E.val b)] wd := by
  simp only [assignVal, eval, selfW, Spec.comb, binop, ctx_val E a b wd ha, ctx_val' E a b wd hb, and_self]

/-- `+` and `*` at any destination width (PyRTL uses `max+1` and `wa+wb`; narrower raw nets truncate) -/
theorem assign_add_mul (a b : String) (wd : Nat) (ha : InRange E a) (hb : InRange E b) :
    assignVal E wd (.bin .add (.id a) (.id b)) = Spec.comb .add [(E.width a, E.val a), (E.width b, E.val b)] wd ∧
    assignVal E wd (.bin .mul (.id a) (.id b)) = Spec.comb .mul [(E.width a, E.val a), (E.width b, E.val b)] wd := by
  simp only [assignVal, eval, selfW, Spec.comb, binop, ctx_val E a b wd ha, ctx_val' E a b wd hb]
  exact ⟨mod_mod_pow _ _ _ (Nat.le_max_right _ _), mod_mod_pow _ _ _ (Nat.le_max_right _ _)⟩

/-- `-`: Verilog computes `a - b` modulo `2^W` in the context width; truncated, that is the two's
    complement difference modulo `2^wd` -/
theorem assign_sub (a b : String) (wd : Nat) (ha : InRange E a) (hb : InRange E b) :
    assignVal E wd (.bin .sub (.id a) (.id b)) = Spec.comb .sub [(E.width a, E.val a), (E.width b, E.val b)] wd := by
  simp only [assignVal, eval, selfW, Spec.comb, binop, ctx_val E a b wd ha, ctx_val' E a b wd hb]
  rw [mod_mod_pow _ _ _ (Nat.le_max_right _ _)]
  have hbW : E.val b < 2 ^ max (max (E.width a) (E.width b)) wd := by
    have := ctx_val' E a b wd hb
    exact this ▸ Nat.mod_lt _ (Nat.two_pow_pos _)
  obtain ⟨k, hk⟩ := Nat.exists_eq_add_of_le (Nat.le_max_right (max (E.width a) (E.width b)) wd)
  rw [hk] at hbW ⊢
  generalize E.val a = x at *
  generalize E.val b = y at *
  apply Int.ofNat.inj
  have hpos : (0 : Int) < ((2 ^ wd : Nat) : Int) := by exact_mod_cast Nat.two_pow_pos _
  rw [Int.ofNat_eq_natCast, Int.ofNat_eq_natCast, Int.toNat_of_nonneg (Int.emod_nonneg _ (ne_of_gt hpos))]
  rw [Int.natCast_mod, Nat.cast_sub (by omega), Nat.cast_add, Nat.pow_add, Nat.cast_mul]
  have : (x : Int) + ((2 ^ wd : Nat) : Int) * ((2 ^ k : Nat) : Int) - (y : Int)
      = ((x : Int) - y) + ((2 ^ wd : Nat) : Int) * ((2 ^ k : Nat) : Int) := by ring
  rw [this, Int.add_mul_emod_self_left]

/-- `< > ==`: operands sized to the larger of the two, one-bit result zero-extended -/
theorem assign_cmp (a b : String) (wd : Nat) (ha : InRange E a) (hb : InRange E b) :
    assignVal E wd (.cmp .lt (.id a) (.id b)) = Spec.comb .lt [(E.width a, E.val a), (E.width b, E.val b)] wd ∧
    assignVal E wd (.cmp .gt (.id a) (.id b)) = Spec.comb .gt [(E.width a, E.val a), (E.width b, E.val b)] wd ∧
    assignVal E wd (.cmp .eq (.id a) (.id b)) = Spec.comb .eq [(E.width a, E.val a), (E.width b, E.val b)] wd := by
  have h1 : E.val a % 2 ^ max (E.width a) (E.width b) = E.val a :=
    Nat.mod_eq_of_lt (Nat.lt_of_lt_of_le ha (pow_le_max_left _ _))
  have h2 : E.val b % 2 ^ max (E.width a) (E.width b) = E.val b :=
    Nat.mod_eq_of_lt (Nat.lt_of_lt_of_le hb (pow_le_max_right _ _))
  simp only [assignVal, eval, selfW, Spec.comb, cmpop, h1, h2]
  exact ⟨mod_mod_pow _ _ _ (Nat.le_max_right _ _), mod_mod_pow _ _ _ (Nat.le_max_right _ _),
    mod_mod_pow _ _ _ (Nat.le_max_right _ _)⟩

/-- mux: PyRTL's argument order `(select, when-0, when-1)` is emitted as `s ? t : f` -/
theorem assign_mux (s f t : String) (wd : Nat) (hs : InRange E s) (hf : InRange E f) (ht : InRange E t) :
    assignVal E wd (.tern (.id s) (.id t) (.id f))
      = Spec.comb .mux [(E.width s, E.val s), (E.width f, E.val f), (E.width t, E.val t)] wd := by
  simp only [assignVal, eval, selfW, Spec.comb, Nat.mod_eq_of_lt hs]
  have h1 := ctx_val E t f wd ht
  have h2 := ctx_val' E t f wd hf
  by_cases h : E.val s = 0
  · simp only [h, ne_eq, not_true_eq_false, ↓reduceIte, h2]
  · simp only [h, ne_eq, not_false_eq_true, ↓reduceIte, h1]

/-- concatenation of identifiers -/
theorem evalCat_ids (args : List String) (acc : Nat) (h : ∀ a ∈ args, InRange E a) :
    evalCat E (args.map .id) acc = Spec.concatVal (args.map fun a => (E.width a, E.val a)) acc := by
  induction args generalizing acc with
  | nil => rfl
  | cons a rest ih =>
    simp only [List.map_cons, evalCat, Spec.concatVal, selfW, eval]
    rw [Nat.mod_eq_of_lt (h a (by simp))]
    exact ih _ (fun x hx => h x (by simp [hx]))

theorem assign_concat (args : List String) (wd : Nat) (h : ∀ a ∈ args, InRange E a) :
    assignVal E wd (.cat (args.map .id)) = Spec.comb .concat (args.map fun a => (E.width a, E.val a)) wd := by
  simp only [assignVal, eval, Spec.comb, evalCat_ids E args 0 h]
  exact mod_mod_pow _ _ _ (Nat.le_max_right _ _)

/-- the member emitted for one selected bit -/
def selMember (a : String) (wa : Nat) : Nat → VExpr := fun i => if wa > 1 then .bit a i else .id a

theorem selMember_val (a : String) (i : Nat) (ha : InRange E a) (hi : i < E.width a) :
    selfW E (selMember a (E.width a) i) = 1 ∧
    eval E 1 (selMember a (E.width a) i) = Spec.bit (E.val a) i := by
  unfold selMember
  by_cases h : E.width a > 1
  · simp only [h, ↓reduceIte, selfW, eval, Spec.bit, true_and]
    exact Nat.mod_eq_of_lt (Nat.mod_lt _ (by decide))
  · have hw : E.width a = 1 := by omega
    have hi0 : i = 0 := by omega
    unfold InRange at ha
    rw [hw] at ha ⊢
    simp only [gt_iff_lt, Nat.lt_irrefl, ↓reduceIte, selfW, eval, hw, true_and, Spec.bit, hi0]
    omega

theorem evalCat_append (xs : List VExpr) (x : VExpr) (acc : Nat) :
    evalCat E (xs ++ [x]) acc = evalCat E xs acc * 2 ^ selfW E x + eval E (selfW E x) x := by
  induction xs generalizing acc with
  | nil => simp [evalCat]
  | cons y ys ih => simp only [List.cons_append, evalCat, ih]

/-- select: `{a[i_k], …, a[i_0]}` (indices reversed, scalars without an index) is `selectVal` -/
theorem evalCat_select (a : String) (idx : List Nat) (ha : InRange E a) (hi : ∀ i ∈ idx, i < E.width a) :
    evalCat E (idx.reverse.map (selMember a (E.width a))) 0 = Spec.selectVal idx (E.val a) := by
  induction idx with
  | nil => rfl
  | cons i rest ih =>
    have hm := selMember_val E a i ha (hi i (by simp))
    simp only [List.reverse_cons, List.map_append, List.map_cons, List.map_nil, evalCat_append, hm.1,
      hm.2, Spec.selectVal, ih (fun j hj => hi j (by simp [hj]))]
    omega

theorem assign_select (a : String) (idx : List Nat) (wd : Nat) (ha : InRange E a)
    (hi : ∀ i ∈ idx, i < E.width a) :
    assignVal E wd (.cat (idx.reverse.map (selMember a (E.width a))))
      = Spec.comb (.select idx) [(E.width a, E.val a)] wd := by
  simp only [assignVal, eval, Spec.comb, evalCat_select E a idx ha hi]
  exact mod_mod_pow _ _ _ (Nat.le_max_right _ _)

/-- asynchronous memory read port -/
theorem assign_mread (m a : String) (wd : Nat) (ha : InRange E a) :
    assignVal E wd (.mem m (.id a)) = E.memV m (E.val a) % 2 ^ wd := by
  simp only [assignVal, eval, selfW, Nat.mod_eq_of_lt ha]
  exact mod_mod_pow _ _ _ (Nat.le_max_right _ _)

/-- constants: `assign c = <decimal>` stores the constant (unsized literal, mathematical value) -/
theorem assign_const (v wd : Nat) (hv : v < 2 ^ wd) : assignVal E wd (.num none v) = v := by
  simp only [assignVal, eval]
  rw [mod_mod_pow _ _ _ (Nat.le_max_right _ _), Nat.mod_eq_of_lt hv]

/-! ### what `emitExpr` produces is one of the shapes above -/

theorem emit_shapes (vn : Nat → String) (width : Nat → Nat) (a b c : Nat) (idx : List Nat) (args : List Nat) :
    emitExpr vn width ⟨.w, [a], [c]⟩ = some (.id (vn a)) ∧
    emitExpr vn width ⟨.inv, [a], [c]⟩ = some (.not (.id (vn a))) ∧
    emitExpr vn width ⟨.sub, [a, b], [c]⟩ = some (.bin .sub (.id (vn a)) (.id (vn b))) ∧
    emitExpr vn width ⟨.mux, [a, b, c], [c]⟩ = some (.tern (.id (vn a)) (.id (vn c)) (.id (vn b))) ∧
    emitExpr vn width ⟨.concat, args, [c]⟩ = some (.cat (args.map fun x => .id (vn x))) ∧
    emitExpr vn width ⟨.select idx, [a], [c]⟩ = some (.cat (idx.reverse.map (selMember (vn a) (width a)))) ∧
    emitExpr vn width ⟨.nand, [a, b], [c]⟩ = none := by
  refine ⟨rfl, rfl, rfl, rfl, ?_, rfl, rfl⟩
  cases args with
  | nil => rfl
  | cons x xs => cases xs <;> rfl

/-! ### net level: every combinational net the exporter accepts -/

/-- **For every exportable combinational net** (all primitives but `nand`; memory reads in
    `assign_mread`), all operand and destination widths and all in-range values: the assignment
    emitted for the net stores, under Verilog's rules, exactly the value the netlist semantics gives
    the destination.  `vn` is the (sanitised) naming of wires; the environment declares each wire with
    its PyRTL width. -/
theorem emit_assign_eq_spec (b : Block) (vn : Nat → String) (n : Net) (e : VExpr)
    (hw : ∀ i, E.width (vn i) = b.width i)
    (hr : ∀ i ∈ n.args, InRange E (vn i))
    (hsel : ∀ idx, n.op = .select idx → ∀ a ∈ n.args, ∀ i ∈ idx, i < b.width a)
    (hm : ∀ m, n.op ≠ .mread m)
    (he : emitExpr vn b.width n = some e) :
    assignVal E (b.width n.dest) e
      = Spec.comb n.op (n.args.map fun i => (b.width i, E.val (vn i))) (b.width n.dest) := by
  obtain ⟨op, args, dests⟩ := n
  simp only at hr hsel hm he ⊢
  unfold emitExpr at he
  split at he <;> simp only [Option.some.injEq, reduceCtorEq] at he <;> subst_vars <;>
    simp only [List.map_cons, List.map_nil, ← hw]
  · exact assign_w E _ _ (hr _ (by simp))
  · exact assign_inv E _ _ (hr _ (by simp))
  · exact (assign_bitwise E _ _ _ (hr _ (by simp)) (hr _ (by simp))).1
  · exact (assign_bitwise E _ _ _ (hr _ (by simp)) (hr _ (by simp))).2.1
  · exact (assign_bitwise E _ _ _ (hr _ (by simp)) (hr _ (by simp))).2.2
  · exact (assign_add_mul E _ _ _ (hr _ (by simp)) (hr _ (by simp))).1
  · exact assign_sub E _ _ _ (hr _ (by simp)) (hr _ (by simp))
  · exact (assign_add_mul E _ _ _ (hr _ (by simp)) (hr _ (by simp))).2
  · exact (assign_cmp E _ _ _ (hr _ (by simp)) (hr _ (by simp))).1
  · exact (assign_cmp E _ _ _ (hr _ (by simp)) (hr _ (by simp))).2.1
  · exact (assign_cmp E _ _ _ (hr _ (by simp)) (hr _ (by simp))).2.2
  · exact assign_mux E _ _ _ _ (hr _ (by simp)) (hr _ (by simp)) (hr _ (by simp))
  · have := assign_concat E (args.map vn) (E.width (vn (Net.dest ⟨.concat, args, dests⟩)))
      (fun a ha => by
        obtain ⟨i, hi, rfl⟩ := List.mem_map.1 ha
        exact hr i hi)
    simpa only [List.map_map, Function.comp_def] using this
  · rename_i idx a
    have := assign_select E (vn a) idx (E.width (vn (Net.dest ⟨.select idx, [a], dests⟩))) (hr _ (by simp))
      (fun i hi => by rw [hw]; exact hsel idx rfl a (by simp) i hi)
    unfold selMember at this
    simpa only [hw] using this
  · rename_i m a
    exact absurd rfl (hm m)

/-! ### module level: the netlist's valuation solves the emitted assignment system -/
open RunRefine in
theorem sched_args_good (b : Block) : ∀ (ns : List Net) (done : List Nat), Sched b ns done →
    ∀ n ∈ ns, ∀ a ∈ n.args, Src b a ∨ a ∈ done ∨ a ∈ ns.map Net.dest := by
  intro ns
  induction ns with
  | nil => intro _ _ n hn; simp at hn
  | cons m ms ih =>
    intro done hs n hn a ha
    obtain ⟨hargs, hrest⟩ := hs
    rcases List.mem_cons.mp hn with rfl | hn'
    · rcases hargs a ha with h | h
      · exact Or.inr (Or.inl h)
      · exact Or.inl h
    · rcases ih (m.dest :: done) hrest n hn' a ha with h | h | h
      · exact Or.inl h
      · rcases List.mem_cons.mp h with rfl | h'
        · exact Or.inr (Or.inr (by simp))
        · exact Or.inr (Or.inl h')
      · exact Or.inr (Or.inr (by simp [h]))

/-- **Whole module, combinational part.**  Take any well-formed block (`C01.WF`: what sanity_check and
    the iteration order guarantee), any in-range state and inputs, and the valuation the documented
    cycle semantics gives every wire.  Read that valuation as a Verilog environment (each wire under its
    emitted name and declared width, each memory under `mem_<id>`).  Then **every continuous assignment
    the exporter emits is satisfied**: evaluating its right-hand side under IEEE 1364 width rules and
    truncating to the target yields exactly the value of the target.  Since the assignment system of an
    acyclic netlist has a unique solution (`C01.spec_consistent_exists_unique`), the emitted module's nets
    carry the netlist's values in every cycle. -/
theorem verilog_assigns_hold (b : Block) (order : List Net) (hwf : C01.WF b order) (htopo : isTopo order = true)
    (st : State) (hst : ∀ r, PySim.isReg b r = true → st.regs r < 2 ^ b.width r)
    (inp : Env) (hin : C01.InputsOk b inp) (vn : Nat → String)
    (hw : ∀ i, E.width (vn i) = b.width i)
    (hv : ∀ i, E.val (vn i) = (Pyrtl.step b order st inp).1 i)
    (hmem : ∀ m a, E.memV (memName m) a = memRead b st m a)
    (hsel : ∀ n ∈ order, ∀ idx, n.op = .select idx → ∀ a ∈ n.args, ∀ i ∈ idx, i < b.width a) :
    ∀ n ∈ order, ∀ e, emitExpr vn b.width n = some e →
      assignVal E (b.width n.dest) e = E.val (vn n.dest) := by
  intro n hn e he
  -- the Spec valuation, its consistency and the range of its values
  let s0 : PySim.Sim := { value := fun i => match b.kind i with | .const v => v | _ => 0, regvalue := st.regs, mem := st.mems }
  have hinv : C01.Inv b s0 st := ⟨fun _ => rfl, hst, rfl, fun c v hk => by simp [s0, hk]⟩
  have hstep := (C01.pysim_step_eq_spec b order hwf s0 st hinv inp hin).1
  have hcons := (evalSeq_consistent (Pyrtl.netFun b st) order (baseEnv b st inp) (isTopo_sound order htopo)).1 n hn
  have hgood : ∀ a ∈ n.args, C01.Good b order a := by
    intro a ha
    rcases sched_args_good b order [] hwf.sched n hn a ha with h | h | h
    · exact Or.inl h
    · simp at h
    · exact Or.inr h
  have hrange : ∀ a ∈ n.args, InRange E (vn a) := by
    intro a ha
    unfold InRange
    rw [hv a, hw a]
    exact (hstep a (hgood a ha)).2
  rw [hv n.dest]
  show _ = evalSeq (Pyrtl.netFun b st) order (baseEnv b st inp) n.dest
  rw [hcons]
  by_cases hmr : ∃ m, n.op = .mread m
  · -- asynchronous read port
    obtain ⟨m, hop⟩ := hmr
    unfold emitExpr at he
    rw [hop] at he
    obtain ⟨_, args, _⟩ := n
    simp only at he hop hrange ⊢
    match args, he with
    | [a], he =>
      simp only [Option.some.injEq] at he
      subst he
      rw [assign_mread E (memName m) (vn a) _ (hrange a (by simp)), hmem, hv a]
      simp only [Pyrtl.netFun, hop, Pyrtl.step, evalNets, List.map_cons, List.map_nil, List.headD_cons]
  · have hm' : ∀ m, n.op ≠ .mread m := fun m h => hmr ⟨m, h⟩
    rw [emit_assign_eq_spec E b vn n e hw hrange (hsel n hn) hm' he]
    have hv' : ∀ i, E.val (vn i) = evalSeq (Pyrtl.netFun b st) order (baseEnv b st inp) i := hv
    generalize evalSeq (Pyrtl.netFun b st) order (baseEnv b st inp) = env at hv' ⊢
    have hzip : ∀ l : List Nat, (l.map b.width).zip (l.map env) = l.map (fun i => (b.width i, E.val (vn i))) := by
      intro l
      induction l with
      | nil => rfl
      | cons x xs ih => simp only [List.map_cons, List.zip_cons_cons, ih, hv' x]
    unfold Pyrtl.netFun
    split
    · rename_i m heq
      exact absurd heq (hm' m)
    · simp only [hzip]

/-! ### statements -/

/-- the register block: with `rst` low every register takes its next value truncated to its width;
    with `rst` high it takes its reset value -/
theorem reg_block (r src : String) (rv : Nat) (hs : InRange E src) :
    (E.val "rst" % 2 ^ E.width "rst" = 0 →
      exec E (.ite (.id "rst") [.nba r none (.num none rv)] [.nba r none (.id src)])
        = [.reg r (E.val src % 2 ^ E.width r)]) ∧
    (E.val "rst" % 2 ^ E.width "rst" ≠ 0 →
      exec E (.ite (.id "rst") [.nba r none (.num none rv)] [.nba r none (.id src)])
        = [.reg r (rv % 2 ^ E.width r)]) := by
  constructor
  · intro h
    simp only [exec, execs, eval, selfW, h, ne_eq, not_true_eq_false, ↓reduceIte, List.append_nil,
      assign_w E src _ hs, Spec.comb]
  · intro h
    simp only [exec, execs, eval, selfW, h, ne_eq, not_false_eq_true, ↓reduceIte, List.append_nil, assignVal]
    rw [mod_mod_pow _ _ _ (Nat.le_max_right _ _)]

/-- a memory write port: nothing when the enable is 0, else one word update at the addressed word -/
theorem mem_write (m we addr data : String) (hwe : InRange E we) (ha : InRange E addr) (hd : InRange E data) :
    exec E (.ite (.id we) [.nba m (some (.id addr)) (.id data)] [])
      = if E.val we = 0 then [] else [.mem m (E.val addr) (E.val data % 2 ^ E.memW m)] := by
  simp only [exec, execs, eval, selfW, Nat.mod_eq_of_lt hwe, Nat.mod_eq_of_lt ha, List.append_nil,
    assign_w E data _ hd, Spec.comb]
  by_cases h : E.val we = 0 <;> simp [h]

/-- non-vacuity: an 8-bit `a - b` into a 9-bit target wraps as PyRTL's `-` does -/
def exE : VEnv := { width := fun n => if n = "d" then 9 else 8, val := fun n => if n = "a" then 3 else 5,
                    memW := fun _ => 0, memV := fun _ _ => 0 }
example : assignVal exE 9 (.bin .sub (.id "a") (.id "b")) = 510 ∧ exE.val "a" < 2 ^ exE.width "a" := by decide

end Pyrtl.C05
