import Model.Lib.Ops
import Proofs.Lemmas.Barrel
import Proofs.Lemmas.Synth
import Proofs.Lemmas.Signed
import Mathlib.Tactic.Ring
/-!
# C06 — hardware operators compute exact integer results at the documented widths

`Ops.*` compose the primitive nets exactly as wire.py / corecircuits.py do; `Barrel.*` is the
barrel shifter the wire-amount shifts are built from.  The real operator netlists are compared with
these functions on every run (tools/checks/c06.py).
-/
namespace Pyrtl.C06
open Pyrtl Pyrtl.Ops

theorem selectVal_replicate (k x : Nat) :
    Spec.selectVal (List.replicate k 0) x = (x % 2) * (2 ^ k - 1) := by
  induction k with
  | zero => simp [Spec.selectVal]
  | succ k ih =>
    simp only [List.replicate_succ, Spec.selectVal, ih, Spec.bit, Nat.pow_zero, Nat.div_one]
    have h : 1 ≤ 2 ^ k := Nat.one_le_two_pow
    have h2 : 2 ^ (k + 1) = 2 * 2 ^ k := by rw [Nat.pow_succ, Nat.mul_comm]
    rw [h2]
    rcases Nat.mod_two_eq_zero_or_one x with e | e <;> rw [e] <;> omega

/-- **Zero extension keeps the value** (any target width ≥ the wire's). -/
theorem zero_extend_value (w a n : Nat) (ha : a < 2 ^ w) (hn : w ≤ n) :
    zeroExtended (w, a) n = (n, a) := by
  unfold zeroExtended extendWithBit
  simp only []
  split
  · rename_i h; have : n = w := by omega
    subst this; rfl
  · rename_i h
    have hk : n - w + w = n := by omega
    simp only [Spec.comb, selectVal_replicate, Nat.zero_mod, Nat.zero_mul, Spec.concatVal, Nat.zero_add,
      hk]
    rw [Nat.mod_eq_of_lt (Nat.lt_of_lt_of_le ha (Nat.pow_le_pow_right (by decide) hn))]

/-- `+` : result width `max+1`, exact sum. -/
theorem add_exact (wa a wb b : Nat) (ha : a < 2 ^ wa) (hb : b < 2 ^ wb) :
    twoVarOp .add (wa, a) (wb, b) = (max wa wb + 1, a + b) := by
  simp only [twoVarOp, zero_extend_value wa a _ ha (Nat.le_max_left _ _),
    zero_extend_value wb b _ hb (Nat.le_max_right _ _), Spec.comb]
  have h1 : a < 2 ^ max wa wb := Nat.lt_of_lt_of_le ha (Nat.pow_le_pow_right (by decide) (Nat.le_max_left _ _))
  have h2 : b < 2 ^ max wa wb := Nat.lt_of_lt_of_le hb (Nat.pow_le_pow_right (by decide) (Nat.le_max_right _ _))
  rw [Nat.mod_eq_of_lt (by rw [Nat.pow_succ]; omega)]

/-- `-` : result width `max+1`, the difference modulo `2^(max+1)` (two's-complement wrap). -/
theorem sub_wrap (wa a wb b : Nat) (ha : a < 2 ^ wa) (hb : b < 2 ^ wb) :
    twoVarOp .sub (wa, a) (wb, b)
      = (max wa wb + 1, (((a : Int) - (b : Int)) % ((2 ^ (max wa wb + 1) : Nat) : Int)).toNat) := by
  simp only [twoVarOp, zero_extend_value wa a _ ha (Nat.le_max_left _ _),
    zero_extend_value wb b _ hb (Nat.le_max_right _ _), Spec.comb]

/-- `*` : result width `2·max` (the sum of the matched operand widths), exact product. -/
theorem mul_exact (wa a wb b : Nat) (ha : a < 2 ^ wa) (hb : b < 2 ^ wb) :
    twoVarOp .mul (wa, a) (wb, b) = (max wa wb * 2, a * b) := by
  simp only [twoVarOp, zero_extend_value wa a _ ha (Nat.le_max_left _ _),
    zero_extend_value wb b _ hb (Nat.le_max_right _ _), Spec.comb]
  have h1 : a < 2 ^ max wa wb := Nat.lt_of_lt_of_le ha (Nat.pow_le_pow_right (by decide) (Nat.le_max_left _ _))
  have h2 : b < 2 ^ max wa wb := Nat.lt_of_lt_of_le hb (Nat.pow_le_pow_right (by decide) (Nat.le_max_right _ _))
  rw [Nat.mod_eq_of_lt (by rw [Nat.pow_mul, Nat.pow_two]; exact Nat.mul_lt_mul'' h1 h2)]

/-- unsigned comparisons: 1 bit, the truth value -/
theorem cmp_unsigned (wa a wb b : Nat) (ha : a < 2 ^ wa) (hb : b < 2 ^ wb) :
    twoVarOp .lt (wa, a) (wb, b) = (1, if a < b then 1 else 0) ∧
    twoVarOp .gt (wa, a) (wb, b) = (1, if a > b then 1 else 0) ∧
    twoVarOp .eq (wa, a) (wb, b) = (1, if a = b then 1 else 0) := by
  simp only [twoVarOp, zero_extend_value wa a _ ha (Nat.le_max_left _ _),
    zero_extend_value wb b _ hb (Nat.le_max_right _ _), Spec.comb]
  refine ⟨?_, ?_, ?_⟩ <;> split <;> rfl

/-- bitwise ops after zero-extension, width `max` -/
theorem bitwise_zero_ext (wa a wb b : Nat) (ha : a < 2 ^ wa) (hb : b < 2 ^ wb) :
    twoVarOp .and (wa, a) (wb, b) = (max wa wb, a &&& b) ∧
    twoVarOp .or (wa, a) (wb, b) = (max wa wb, a ||| b) ∧
    twoVarOp .xor (wa, a) (wb, b) = (max wa wb, a ^^^ b) := by
  simp only [twoVarOp, zero_extend_value wa a _ ha (Nat.le_max_left _ _),
    zero_extend_value wb b _ hb (Nat.le_max_right _ _), Spec.comb]
  have h1 : a < 2 ^ max wa wb := Nat.lt_of_lt_of_le ha (Nat.pow_le_pow_right (by decide) (Nat.le_max_left _ _))
  have h2 : b < 2 ^ max wa wb := Nat.lt_of_lt_of_le hb (Nat.pow_le_pow_right (by decide) (Nat.le_max_right _ _))
  refine ⟨?_, ?_, ?_⟩
  · rw [Nat.mod_eq_of_lt (Nat.lt_of_le_of_lt Nat.and_le_left h1)]
  · rw [Nat.mod_eq_of_lt (Nat.or_lt_two_pow h1 h2)]
  · rw [Nat.mod_eq_of_lt (Nat.xor_lt_two_pow h1 h2)]

/-- concat: the first argument is the most significant -/
theorem concat_msb_first (wa a wb b : Nat) (ha : a < 2 ^ wa) (hb : b < 2 ^ wb) :
    Spec.comb .concat [(wa, a), (wb, b)] (wa + wb) = a * 2 ^ wb + b := by
  simp only [Spec.comb, Spec.concatVal, Nat.zero_mul, Nat.zero_add]
  apply Nat.mod_eq_of_lt
  rw [Nat.pow_add]
  have : (a + 1) * 2 ^ wb ≤ 2 ^ wa * 2 ^ wb := Nat.mul_le_mul_right _ ha
  rw [Nat.add_mul] at this
  omega

/-- slicing / indexing: bit `k` of the result is bit `idx[k]` of the operand, where `idx` is
    `range(width)[item]` (Python index semantics are CPython's own; PyRTL passes them to the `s` net) -/
theorem select_bits (idx : List Nat) (a k : Nat) (hk : k < idx.length) :
    Spec.bit (Spec.selectVal idx a) k = Spec.bit a (idx.getD k 0) := by
  induction idx generalizing k with
  | nil => simp at hk
  | cons i rest ih =>
    simp only [Spec.selectVal]
    have hb : Spec.bit a i < 2 := by unfold Spec.bit; omega
    cases k with
    | zero =>
      simp only [List.getD_cons_zero, Spec.bit, Nat.pow_zero, Nat.div_one] at *
      omega
    | succ k =>
      have := ih k (by simpa using hk)
      simp only [List.getD_cons_succ]
      rw [← this]
      have hdiv : (Spec.bit a i + 2 * Spec.selectVal rest a) / 2 = Spec.selectVal rest a := by omega
      unfold Spec.bit
      rw [Nat.pow_succ, Nat.mul_comm (2 ^ k) 2, ← Nat.div_div_eq_div_mul]
      unfold Spec.bit at hdiv
      rw [hdiv]

/-- **Shifts by a wire amount of any width**: the barrel shifter moves the data by the full amount in
    the chosen direction, filling with `bit_in` — for every data width, every shift-amount width
    (amounts ≥ the data width leave only fill bits). -/
theorem barrel_shift_eq (bits : List Bool) (bitIn dir : Bool) (sd : List Bool) (h : 0 < bits.length) :
    Barrel.barrelShifter bits bitIn dir sd = Barrel.shiftSpec bits bitIn dir (Barrel.dist sd) := by
  unfold Barrel.barrelShifter
  have := Barrel.loop_spec bits.length bitIn dir sd 0 bits rfl
  have hmin : min (2 ^ 0) bits.length = 1 := by simp; omega
  rw [hmin] at this
  simpa using this

example : zeroExtended (3, 5) 8 = (8, 5) := by decide
example : Barrel.barrelShifter [true, false, true, true] false true [true, false, false]
    = [false, true, false, true] := by decide

/-- **Sign extension** (`sign_extended`, and `match_bitwidth(signed=True)`): for every width `w ≥ 1`,
    target `n ≥ w` and in-range value, the result is `n` bits wide, in range, and is the same
    two's-complement integer. -/
theorem sign_extend_keeps_signed_value (w a n : Nat) (hw : 0 < w) (ha : a < 2 ^ w) (hn : w ≤ n) :
    (signExtended (w, a) n).1 = n ∧ (signExtended (w, a) n).2 < 2 ^ n ∧
    toSigned (signExtended (w, a) n) = toSigned (w, a) :=
  sign_extend_value w a n hw ha hn

/-- **`signed_lt`** for operands of any two widths: sign-match, subtract at one more bit, and
    `r[-1] ^ ~a[-1] ^ ~b[-1]` is exactly `a <ₛ b` on the two's-complement values. -/
theorem signed_lt_correct (wa a wb b : Nat) (hwa : 0 < wa) (hwb : 0 < wb) (ha : a < 2 ^ wa) (hb : b < 2 ^ wb) :
    signedLt (wa, a) (wb, b) = if toSigned (wa, a) < toSigned (wb, b) then 1 else 0 :=
  signedLt_correct wa a wb b hwa hwb ha hb

/-- **`signed_add`** for operands of any two widths: `max+1` result bits hold exactly the sum of the two
    two's-complement values (no overflow is possible at that width). -/
theorem signed_add_exact (wa a wb b : Nat) (hwa : 0 < wa) (hwb : 0 < wb) (ha : a < 2 ^ wa) (hb : b < 2 ^ wb) :
    (signedAdd (wa, a) (wb, b)).1 = max wa wb + 1 ∧
    toSigned (signedAdd (wa, a) (wb, b)) = toSigned (wa, a) + toSigned (wb, b) :=
  signedAdd_exact wa a wb b hwa hwb ha hb

/-- **`signed_mult`** for operands of any two widths: `len(a)+len(b)` result bits hold exactly the product of
    the two two's-complement values. -/
theorem signed_mult_exact (wa a wb b : Nat) (hwa : 0 < wa) (hwb : 0 < wb) (ha : a < 2 ^ wa) (hb : b < 2 ^ wb) :
    (signedMult (wa, a) (wb, b)).1 = wa + wb ∧
    toSigned (signedMult (wa, a) (wb, b)) = toSigned (wa, a) * toSigned (wb, b) :=
  signedMult_exact wa a wb b hwa hwb ha hb

-- -1 (1 bit) is not less than -1 (2 bits); -2 (2 bits) is less than 1 (3 bits)
example : signedLt (1, 1) (2, 3) = 0 ∧ signedLt (2, 2) (3, 1) = 1 := by decide

end Pyrtl.C06
