import Model.Pass.Cond
/-!
# C07 — conditional_assignment gives each target its unique active branch's value

`Cond.currentSelect` mirrors `_current_select`, `Cond.inConflict` mirrors
`_pred_sets_are_in_conflict`, `Cond.chain` mirrors the select chain built by `_finalize`.
The real elaboration is compared with these on every generated program (tools/checks/c07.py).
-/
namespace Pyrtl.C07
open Pyrtl.Cond

/-- **Accepted ⇒ exclusive**: if two assignments are not in conflict (they share a predicate with
    opposite polarity) then under no valuation are both active. -/
theorem accepted_implies_exclusive (ρ : Nat → Bool) (a b : List Lit) (h : inConflict a b = false) :
    ¬ (holds ρ a = true ∧ holds ρ b = true) := by
  intro ⟨ha, hb⟩
  simp only [inConflict, Bool.not_eq_false', List.any_eq_true, Bool.and_eq_true, beq_iff_eq, bne_iff_ne] at h
  obtain ⟨la, hla, lb, hlb, hp, hn⟩ := h
  simp only [holds, List.all_eq_true, bne_iff_ne] at ha hb
  have h1 := ha la hla
  have h2 := hb lb hlb
  rw [hp] at h1
  cases hq : ρ lb.pred <;> cases hx : la.neg <;> cases hy : lb.neg <;> simp_all

/-- and the rejection test is symmetric, so the order of the two assignments does not matter -/
theorem inConflict_symm (a b : List Lit) : inConflict a b = inConflict b a := by
  simp only [inConflict]
  congr 1
  apply Bool.eq_iff_iff.mpr
  simp only [List.any_eq_true, Bool.and_eq_true, beq_iff_eq, bne_iff_ne]
  constructor
  · rintro ⟨x, hx, y, hy, e, n⟩; exact ⟨y, hy, x, hx, e.symm, fun q => n q.symm⟩
  · rintro ⟨x, hx, y, hy, e, n⟩; exact ⟨y, hy, x, hx, e.symm, fun q => n q.symm⟩

theorem chain_none (ρ : Nat → Bool) (d : Nat) (asgs : List (List Lit × Nat))
    (h : ∀ a ∈ asgs, holds ρ a.1 = false) : chain ρ d asgs = d := by
  induction asgs generalizing d with
  | nil => rfl
  | cons a rest ih =>
    simp only [chain, List.foldl_cons, h a (by simp), Bool.false_eq_true, if_false]
    exact ih d (fun x hx => h x (by simp [hx]))

/-- **When no assigning branch is active the target takes its default** (0 / the register itself /
    the declared default, whichever `_finalize` starts the chain with). -/
theorem no_active_gives_default (ρ : Nat → Bool) (d : Nat) (asgs : List (List Lit × Nat))
    (h : ∀ a ∈ asgs, holds ρ a.1 = false) : chain ρ d asgs = d := chain_none ρ d asgs h

/-- **The select chain yields the rhs of the unique active branch**, wherever it sits in program
    order, provided the program was accepted (no two assignments to the target in conflict). -/
theorem select_chain_eq_active (ρ : Nat → Bool) (d : Nat) (asgs : List (List Lit × Nat))
    (hacc : anyConflict (asgs.map (·.1)) = false) (a : List Lit × Nat) (ha : a ∈ asgs)
    (hact : holds ρ a.1 = true) : chain ρ d asgs = a.2 := by
  induction asgs generalizing d with
  | nil => simp at ha
  | cons x rest ih =>
    simp only [List.map_cons, anyConflict, Bool.or_eq_false_iff] at hacc
    obtain ⟨hx, hrest⟩ := hacc
    simp only [chain, List.foldl_cons]
    rcases List.mem_cons.mp ha with rfl | hin
    · -- the active assignment is the head: everything after it is inactive
      simp only [hact, if_true]
      apply chain_none
      intro y hy
      have hc : inConflict a.1 y.1 = false := by
        have := List.any_eq_false.mp hx y.1 (List.mem_map.mpr ⟨y, hy, rfl⟩)
        simpa using this
      cases hh : holds ρ y.1
      · rfl
      · exact absurd ⟨hact, hh⟩ (accepted_implies_exclusive ρ a.1 y.1 hc)
    · -- the head is inactive (it does not conflict with the active one)
      have hc : inConflict x.1 a.1 = false := by
        have := List.any_eq_false.mp hx a.1 (List.mem_map.mpr ⟨a, hin, rfl⟩)
        simpa using this
      have hxi : holds ρ x.1 = false := by
        cases hh : holds ρ x.1
        · rfl
        · exact absurd ⟨hh, hact⟩ (accepted_implies_exclusive ρ x.1 a.1 hc)
      simp only [hxi, Bool.false_eq_true, if_false]
      exact ih d hrest hin

theorem holds_append (ρ : Nat → Bool) (a b : List Lit) : holds ρ (a ++ b) = (holds ρ a && holds ρ b) := by
  simp [holds, List.all_append]

theorem holds_guardLits_neg (ρ : Nat → Bool) (gs : List Guard) (hno : ∀ g ∈ gs, g ≠ Guard.otherwise) :
    holds ρ (guardLits gs true) = gs.all (fun g => !guardHolds ρ g) := by
  induction gs with
  | nil => rfl
  | cons g rest ih =>
    have ih' := ih (fun x hx => hno x (by simp [hx]))
    cases g with
    | otherwise => exact absurd rfl (hno _ (by simp))
    | pred i =>
      simp only [guardLits, List.filterMap_cons, holds, List.all_cons, guardHolds] at ih' ⊢
      rw [ih']
      cases ρ i <;> simp

theorem betweenAux_no_otherwise (pl acc : List Guard) (hacc : ∀ g ∈ acc, g ≠ Guard.otherwise) :
    ∀ g ∈ betweenAux pl acc, g ≠ Guard.otherwise := by
  induction pl generalizing acc with
  | nil => intro g hg; simp only [betweenAux, List.mem_reverse] at hg; exact hacc g hg
  | cons x rest ih =>
    cases x with
    | otherwise => simp only [betweenAux]; exact ih [] (by simp)
    | pred i =>
      simp only [betweenAux]
      apply ih
      intro g hg
      rcases List.mem_cons.mp hg with rfl | h
      · simp
      · exact hacc g h

/-- **The conjunction the code builds is the statement's "active"**: a branch is active exactly
    when, at every enclosing level, its guard holds and no earlier sibling since the last
    `otherwise` at that level was taken. -/
theorem current_select_eq_active (ρ : Nat → Bool) (stack : List (List Guard)) :
    holds ρ (currentSelect stack) = activeSpec ρ stack := by
  induction stack with
  | nil => rfl
  | cons pl rest ih =>
    simp only [currentSelect, List.flatMap_cons, activeSpec, List.all_cons] at ih ⊢
    rw [holds_append, holds_append, ih]
    congr 1
    simp only [levelActive]
    rw [holds_guardLits_neg ρ (between pl) (betweenAux_no_otherwise _ [] (by simp))]
    congr 1
    cases pl.getLast? with
    | none => rfl
    | some g =>
      cases g with
      | otherwise => rfl
      | pred i => simp [guardLits, holds, guardHolds]

/-- **`otherwise` resets the chain**: siblings entered before an `otherwise` are not negated in
    the branches that follow it. -/
theorem otherwise_resets_chain (before after : List Guard) (cur : Guard)
    (h : ∀ g ∈ after, g ≠ Guard.otherwise) :
    between (before ++ [Guard.otherwise] ++ after ++ [cur]) = after := by
  unfold between
  rw [List.dropLast_concat]
  have aux : ∀ (l acc : List Guard), (∀ g ∈ l, g ≠ Guard.otherwise) → betweenAux l acc = acc.reverse ++ l := by
    intro l
    induction l with
    | nil => intro acc _; simp [betweenAux]
    | cons x rest ih =>
      intro acc hl
      cases x with
      | otherwise => exact absurd rfl (hl _ (by simp))
      | pred i =>
        simp only [betweenAux]
        rw [ih _ (fun g hg => hl g (by simp [hg]))]
        simp
  have pre : ∀ (l acc : List Guard), betweenAux (l ++ [Guard.otherwise] ++ after) acc = after := by
    intro l
    induction l with
    | nil => intro acc; simp only [List.nil_append, List.cons_append, betweenAux]; rw [aux after [] h]; simp
    | cons x rest ih =>
      intro acc
      cases x with
      | otherwise => simp only [List.cons_append, betweenAux]; exact ih []
      | pred i => simp only [List.cons_append, betweenAux]; exact ih _
  exact pre before []

-- non-vacuity: `with a: … / with b: …` — second branch is `¬a ∧ b`, exclusive with the first
example : currentSelect [[.pred 0, .pred 1]] = [⟨0, true⟩, ⟨1, false⟩] := by decide
example : inConflict (currentSelect [[.pred 0]]) (currentSelect [[.pred 0, .pred 1]]) = false := by decide
example : inConflict (currentSelect [[.pred 0]]) (currentSelect [[.pred 0, .otherwise, .pred 1]]) = true := by decide

end Pyrtl.C07
