import Model.Sim.Mem
/-!
# C08 — MemBlock/RomBlock behave as arrays under every history of reads and writes
-/
namespace Pyrtl.C08
open Pyrtl Pyrtl.Mem

/-- the write phase of `Spec.step` is the application of the cycle's enabled-write events -/
theorem applyWrites_eq_evts (env : Env) (nets : List Net) (mm : Nat → Nat → Nat) :
    applyWrites env nets mm = applyEvts (evtsOf env nets) mm := by
  induction nets generalizing mm with
  | nil => rfl
  | cons n ns ih =>
    obtain ⟨op, args, dests⟩ := n
    cases op <;> try (simp only [applyWrites, evtsOf]; exact ih _)
    rename_i m
    rcases args with _ | ⟨a, _ | ⟨d, _ | ⟨en, _ | ⟨x, r⟩⟩⟩⟩ <;> simp only [applyWrites, evtsOf] <;>
      try exact ih _
    by_cases hen : env en = 0
    · simp only [hen, ne_eq, not_true_eq_false, if_false]; exact ih _
    · simp only [hen, ne_eq, not_false_eq_true, if_true, applyEvts]; exact ih _

/-- **A word holds the data of the last enabled write to it, else what it held before.** -/
theorem applyEvts_lookup (evs : List Evt) (mm : Nat → Nat → Nat) (m a : Nat) :
    applyEvts evs mm m a =
      match evs.reverse.find? (fun e => e.m = m ∧ e.a = a) with
      | some e => e.d
      | none => mm m a := by
  induction evs generalizing mm with
  | nil => rfl
  | cons e es ih =>
    simp only [applyEvts, ih, List.reverse_cons, List.find?_append]
    cases h : es.reverse.find? (fun e => decide (e.m = m ∧ e.a = a)) with
    | some x => simp [h]
    | none =>
      simp only [h, Option.none_or, List.find?_cons, List.find?_nil]
      by_cases c : e.m = m ∧ e.a = a
      · simp [c]
      · have c' : ¬ (m = e.m ∧ a = e.a) := fun q => c ⟨q.1.symm, q.2.symm⟩
        simp [c, c']

/-- a disabled write has no effect; an enabled write is visible from the next cycle on and not in
    its own cycle (reads of cycle `t` see `contentAt … t`, which excludes cycle `t`'s writes) -/
theorem content_step (init : Nat → Nat → Nat) (cycles : List (List Evt)) (t : Nat) (ht : t < cycles.length) :
    contentAt init cycles (t + 1) = applyEvts (cycles.getD t []) (contentAt init cycles t) := by
  unfold contentAt
  rw [List.take_succ, List.foldl_append]
  simp [List.getD_eq_getElem?_getD, List.getElem?_eq_getElem ht]

theorem content_zero (init : Nat → Nat → Nat) (cycles : List (List Evt)) : contentAt init cycles 0 = init := rfl

/-- two enabled writes to different words commute -/
theorem evts_swap (e1 e2 : Evt) (h : ¬ (e1.m = e2.m ∧ e1.a = e2.a)) (rest : List Evt) (mm : Nat → Nat → Nat) :
    applyEvts (e1 :: e2 :: rest) mm = applyEvts (e2 :: e1 :: rest) mm := by
  simp only [applyEvts]
  congr 1
  funext m' a'
  by_cases c1 : m' = e1.m ∧ a' = e1.a
  · by_cases c2 : m' = e2.m ∧ a' = e2.a
    · exact absurd ⟨c1.1.symm.trans c2.1, c1.2.symm.trans c2.2⟩ h
    · simp only [c1, and_self, if_true]
      split
      · rename_i q; exact absurd ⟨q.1, q.2⟩ h
      · rfl
  · simp [c1]

/-- **Write ports to distinct addresses compose consistently**: any order of a cycle's enabled
    writes leaves the same memory, provided no two of them hit the same word. -/
theorem mem_writes_commute (l1 l2 : List Evt) (hp : l1.Perm l2)
    (hd : l1.Pairwise (fun x y => ¬ (x.m = y.m ∧ x.a = y.a))) (mm : Nat → Nat → Nat) :
    applyEvts l1 mm = applyEvts l2 mm := by
  induction hp generalizing mm with
  | nil => rfl
  | cons x _ ih =>
    simp only [applyEvts]
    exact ih (List.Pairwise.of_cons hd) _
  | swap x y l =>
    have hxy : ¬ (y.m = x.m ∧ y.a = x.a) := by
      have := (List.pairwise_cons.mp hd).1 x (by simp)
      exact this
    exact evts_swap y x hxy l mm
  | trans h1 h2 ih1 ih2 =>
    rw [ih1 hd, ih2 (hd.perm h1 (fun hab q => hab ⟨q.1.symm, q.2.symm⟩))]

/-! ### the hash map of the C backend is a map -/

theorem chainSet_find (c : List (Nat × Nat)) (k v k' : Nat) (c' : List (Nat × Nat))
    (h : chainSet c k v = some c') :
    (c'.find? (·.1 = k')).map (·.2) = if k = k' then some v else (c.find? (·.1 = k')).map (·.2) := by
  induction c generalizing c' with
  | nil => simp [chainSet] at h
  | cons p rest ih =>
    obtain ⟨kp, vp⟩ := p
    simp only [chainSet] at h
    split at h
    · rename_i hk
      subst hk
      injection h with h; subst h
      by_cases e : kp = k'
      · simp [e]
      · simp [e, List.find?_cons]
    · rename_i hk
      cases hr : chainSet rest k v with
      | none => simp [hr] at h
      | some r =>
        simp only [hr, Option.map_some] at h
        injection h with h; subst h
        have := ih r hr
        by_cases e : kp = k'
        · have hne : ¬ k = k' := fun q => hk (e.trans q.symm)
          simp [e, hne, List.find?_cons]
        · simp only [List.find?_cons, e, decide_false]
          exact this

theorem chainSet_none (c : List (Nat × Nat)) (k v : Nat) (h : chainSet c k v = none) :
    c.find? (·.1 = k) = none := by
  induction c with
  | nil => rfl
  | cons p rest ih =>
    obtain ⟨kp, vp⟩ := p
    simp only [chainSet] at h
    split at h
    · simp at h
    · rename_i hk
      cases hr : chainSet rest k v with
      | some r => simp [hr] at h
      | none => simp [List.find?_cons, hk, ih hr]

/-- **`lookup (insert h k v) k' = if k = k' then v else lookup h k'`** — the chained hash map
    (any bucket count ≥ 1, any collision pattern) behaves as a total map with default 0. -/
theorem hashmap_refines_map (h : HMap) (k v k' : Nat) :
    (h.insert k v).lookup k' = if k = k' then v else h.lookup k' := by
  unfold HMap.insert HMap.lookup
  cases hc : chainSet (h.chain (k % h.size)) k v with
  | some c =>
    simp only [hc]
    by_cases hb : k' % h.size = k % h.size
    · simp only [hb, if_true]
      have := chainSet_find _ k v k' c hc
      by_cases e : k = k'
      · simp only [e, if_true] at this ⊢
        cases hf : c.find? (·.1 = k') with
        | none => simp [hf] at this
        | some p => simp [hf] at this ⊢; exact this
      · simp only [e, if_false] at this ⊢
        cases hf : c.find? (·.1 = k') <;> cases hg : (h.chain (k % h.size)).find? (·.1 = k') <;>
          simp [hf, hg] at this ⊢ <;> exact this
    · have e : ¬ k = k' := fun q => hb (by rw [q])
      simp [hb, e]
  | none =>
    simp only [hc]
    by_cases hb : k' % h.size = k % h.size
    · simp only [hb, if_true]
      by_cases e : k = k'
      · simp [e, List.find?_cons]
      · simp [e, List.find?_cons]
    · have e : ¬ k = k' := fun q => hb (by rw [q])
      simp [hb, e]

theorem hashmap_empty (size k : Nat) : (HMap.empty size).lookup k = 0 := rfl

example : ((HMap.empty 256).insert 5 7 |>.insert 261 9 |>.insert 5 8).lookup 5 = 8 := by decide
example : ((HMap.empty 256).insert 5 7 |>.insert 261 9).lookup 261 = 9 := by decide

end Pyrtl.C08
