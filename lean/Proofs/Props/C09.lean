import Model.Pass.Lower
import Proofs.Lemmas.Rewrite
import Mathlib.Tactic.Ring
/-!
# C09 — lowering / restructuring passes preserve behaviour and meet their postconditions

The gate rewrite rules are regenerated from passes.py on every run (`Gen.GateRules`).
-/
namespace Pyrtl.C09
open Pyrtl Pyrtl.Lower Pyrtl.Gen.GateRules

/-- `nand_synth`: every rewrite computes the gate it replaces, for all inputs. -/
theorem nand_rules_sound : ∀ a b : Bool,
    nand_rule_and a b = (a && b) ∧ nand_rule_or a b = (a || b) ∧ nand_rule_xor a b = xor a b := by
  decide

/-- `and_inverter_synth`: every rewrite computes the gate it replaces, for all inputs (false of the
    tree as first given — XOR was rewritten to NOR; repaired by a `fix:` commit). -/
theorem aig_rules_sound : ∀ a b : Bool,
    aig_rule_or a b = (a || b) ∧ aig_rule_xor a b = xor a b ∧ aig_rule_nand a b = !(a && b) := by
  decide

/-- Each gate-basis pass rewrites or keeps **every** op a post-synthesis block may contain, and what
    it keeps is inside its target basis: NAND/NOT resp. AND/NOT plus structure. -/
theorem gate_basis_tables :
    (∀ op ∈ ["and", "or", "xor", "nand", "inv", "w", "reg", "concat", "select", "mread", "mwrite"],
        op ∈ nand_keeps ∨ op ∈ nand_rewrites) ∧
    (∀ op ∈ ["and", "or", "xor", "nand", "inv", "w", "reg", "concat", "select", "mread", "mwrite"],
        op ∈ aig_keeps ∨ op ∈ aig_rewrites) ∧
    (∀ op ∈ nand_keeps, op ∉ ["and", "or", "xor"]) ∧
    (∀ op ∈ aig_keeps, op ∉ ["or", "xor", "nand"]) := by
  decide

theorem concat2 (w1 v1 w2 v2 : Nat) (h1 : v1 < 2 ^ w1) (h2 : v2 < 2 ^ w2) :
    Spec.comb .concat [(w1, v1), (w2, v2)] (w1 + w2) = v1 * 2 ^ w2 + v2 := by
  simp only [Spec.comb, Spec.concatVal, Nat.zero_mul, Nat.zero_add]
  apply Nat.mod_eq_of_lt
  rw [Nat.pow_add]
  have : (v1 + 1) * 2 ^ w2 ≤ 2 ^ w1 * 2 ^ w2 := Nat.mul_le_mul_right _ h1
  rw [Nat.add_mul] at this
  omega

theorem foldl_concat (rest : List (Nat × Nat)) (w v : Nat) (hv : v < 2 ^ w)
    (hr : ∀ p ∈ rest, p.2 < 2 ^ p.1) :
    rest.foldl (fun acc q => (acc.1 + q.1, Spec.comb .concat [acc, q] (acc.1 + q.1))) (w, v)
      = (w + (rest.map (·.1)).sum, Spec.concatVal rest v) ∧
    Spec.concatVal rest v < 2 ^ (w + (rest.map (·.1)).sum) := by
  induction rest generalizing w v with
  | nil => simp [Spec.concatVal, hv]
  | cons q rest ih =>
    obtain ⟨wq, vq⟩ := q
    have hq : vq < 2 ^ wq := hr (wq, vq) (by simp)
    have hnew : v * 2 ^ wq + vq < 2 ^ (w + wq) := by
      rw [Nat.pow_add]
      have : (v + 1) * 2 ^ wq ≤ 2 ^ w * 2 ^ wq := Nat.mul_le_mul_right _ hv
      rw [Nat.add_mul] at this
      omega
    have := ih (w + wq) (v * 2 ^ wq + vq) hnew (fun p hp => hr p (by simp [hp]))
    simp only [List.foldl_cons, List.map_cons, List.sum_cons, Spec.concatVal]
    rw [concat2 w v wq vq hv hq, Nat.add_assoc] at *
    exact this

/-- **`two_way_concat`**: the chain of 2-operand concats carries, at every width, exactly the value
    and the width of the n-operand concat it replaces (first operand most significant). -/
theorem two_way_concat_preserves (l : List (Nat × Nat)) (hr : ∀ p ∈ l, p.2 < 2 ^ p.1) :
    twoWay l = ((l.map (·.1)).sum, Spec.comb .concat l (l.map (·.1)).sum) := by
  cases l with
  | nil => simp [twoWay, Spec.comb, Spec.concatVal]
  | cons p rest =>
    obtain ⟨w, v⟩ := p
    have hv : v < 2 ^ w := hr (w, v) (by simp)
    have h := foldl_concat rest w v hv (fun q hq => hr q (by simp [hq]))
    simp only [twoWay]
    rw [h.1]
    simp only [List.map_cons, List.sum_cons, Spec.comb, Spec.concatVal, Nat.zero_mul, Nat.zero_add]
    rw [Nat.mod_eq_of_lt h.2]

theorem selectVal_single (i a : Nat) : Spec.selectVal [i] a % 2 ^ 1 = Spec.bit a i := by
  simp only [Spec.selectVal, Spec.bit]
  omega

theorem concat_bits (idx : List Nat) (a acc : Nat) :
    Spec.concatVal (idx.map fun i => (1, Spec.bit a i)) acc
      = acc * 2 ^ idx.length + Spec.selectVal idx.reverse a := by
  induction idx generalizing acc with
  | nil => simp [Spec.concatVal, Spec.selectVal]
  | cons i rest ih =>
    simp only [List.map_cons, Spec.concatVal, ih, List.length_cons, List.reverse_cons]
    have hsel : ∀ (l : List Nat) (j : Nat), Spec.selectVal (l ++ [j]) a
        = Spec.selectVal l a + 2 ^ l.length * Spec.bit a j := by
      intro l j
      induction l with
      | nil => simp [Spec.selectVal]
      | cons x xs ihx =>
        simp only [List.cons_append, Spec.selectVal, ihx, List.length_cons, Nat.pow_succ]
        rw [Nat.mul_add, Nat.mul_comm (2 ^ xs.length) 2, Nat.mul_assoc]
        omega
    rw [hsel, List.length_reverse]
    ring

/-- **`one_bit_selects`**: concatenating the single-bit selects (in `concat_list` order) gives the
    arbitrary select it replaces: repeats, reversals and strides included. -/
theorem one_bit_selects_preserves (idx : List Nat) (a : Nat) :
    Spec.comb .concat (oneBitSelects idx a) idx.length = Spec.comb (.select idx) [(0, a)] idx.length := by
  simp only [oneBitSelects, Spec.comb, selectVal_single]
  have := concat_bits idx.reverse a 0
  simp only [List.reverse_reverse, Nat.zero_mul, Nat.zero_add] at this
  rw [this]

theorem makeTree_leaves (fuel n : Nat) (h : n ≤ fuel) (hn : 1 ≤ n) : (makeTree fuel n).leaves = n := by
  induction fuel generalizing n with
  | zero => omega
  | succ f ih =>
    simp only [makeTree]
    split
    · simp [Tree.leaves]; omega
    · rename_i h1
      simp only [Tree.leaves]
      rw [ih (n / 2) (by omega) (by omega), ih (n - n / 2) (by omega) (by omega)]
      omega

theorem leafVals_all (t : Tree) (v : Nat) : ∀ x ∈ t.leafVals v, x = v := by
  induction t with
  | leaf => simp [Tree.leafVals]
  | node l r ihl ihr =>
    intro x hx
    simp only [Tree.leafVals, List.mem_append] at hx
    rcases hx with h | h
    · exact ihl x h
    · exact ihr x h

/-- **`two_way_fanout`**: the tree built for a wire of fan-out `n` has exactly `n` leaves (one per
    reading argument position), every leaf carries the wire's value, and every tree wire feeds at
    most two nets (a `node` has exactly two children). -/
theorem two_way_fanout_tree (n v : Nat) (hn : 1 ≤ n) :
    (makeTree n n).leaves = n ∧ ∀ x ∈ (makeTree n n).leafVals v, x = v :=
  ⟨makeTree_leaves n n (Nat.le_refl n) hn, leafVals_all _ v⟩

/-- **`direct_connect_outputs`**: retargeting the producer of `x` at the Output `o` (width
    `wo ≤ wx`) gives `o` what the removed `w` net gave it: truncating twice is truncating once. -/
theorem direct_connect_w (v wx wo : Nat) (h : wo ≤ wx) :
    Spec.comb .w [(wx, v % 2 ^ wx)] wo = v % 2 ^ wo := by
  simp only [Spec.comb]
  exact Nat.mod_mod_of_dvd v (Nat.pow_dvd_pow 2 h)

example : (makeTree 5 5).leaves = 5 := by decide
example : twoWay [(2, 3), (1, 0), (3, 5)] = (6, 53) := by decide

/-! ### netlist level -/
open Rewrite

/-- the generic statement behind every lowering pass: a gadget over fresh wires that recomputes a net's
    value may replace the net anywhere in a schedule (`Rewrite.rewrite_preserves`), re-exported here -/
theorem local_rewrite_preserves (f : Net → List Nat → Nat) (F : Nat → Prop) (pre post gadget : List Net)
    (n : Net) (e : Env) (hnF : ¬ F n.dest)
    (hg : ∀ e' : Env, (∀ w, ¬ F w → w ≠ n.dest → evalSeq f gadget e' w = e' w) ∧
                      evalSeq f gadget e' n.dest = f n (n.args.map e'))
    (hpost : ∀ m ∈ post, ∀ a ∈ m.args, ¬ F a) :
    ∀ w, ¬ F w → evalSeq f (pre ++ gadget ++ post) e w = evalSeq f (pre ++ n :: post) e w :=
  rewrite_preserves f F pre post gadget n e hnF hg hpost

/-- **`nand_synth` on a whole netlist**: replacing an AND net `d = a & c` (any width) anywhere in any
    schedule by `t = a nand c; d = ~t` over a fresh wire `t` of the same width leaves every other wire —
    in particular every Output and every register input — with exactly the value it had, in every cycle
    (the valuation `e` and the state are arbitrary). -/
theorem nand_synth_and_netlist (b : Block) (st : State) (pre post : List Net) (a c t d : Nat) (e : Env)
    (hw : b.width t = b.width d) (htd : t ≠ d)
    (hpost : ∀ m ∈ post, ∀ x ∈ m.args, x ≠ t) :
    ∀ w, w ≠ t →
      evalSeq (netFun b st) (pre ++ [⟨.nand, [a, c], [t]⟩, ⟨.inv, [t], [d]⟩] ++ post) e w
        = evalSeq (netFun b st) (pre ++ ⟨.and, [a, c], [d]⟩ :: post) e w := by
  apply rewrite_preserves (netFun b st) (· = t) pre post _ ⟨.and, [a, c], [d]⟩ e
  · simpa [Net.dest] using Ne.symm htd
  · intro e'
    constructor
    · intro w hwt hwd
      simp only [evalSeq, Net.dest, List.headD_cons] at hwd ⊢
      simp [upd, hwt, hwd]
    · simp only [evalSeq, netFun, Net.dest, List.headD_cons, List.map_cons, List.map_nil, List.zip_cons_cons,
        List.zip_nil_right, Spec.comb, upd, ↓reduceIte, hw, htd, Ne.symm htd]
      have hm : (e' a &&& e' c) % 2 ^ b.width d < 2 ^ b.width d := Nat.mod_lt _ (Nat.two_pow_pos _)
      generalize (e' a &&& e' c) % 2 ^ b.width d = m at *
      have hp : 0 < 2 ^ b.width d := Nat.two_pow_pos _
      rw [Nat.mod_eq_of_lt (by omega)]
      omega
  · exact hpost

end Pyrtl.C09
