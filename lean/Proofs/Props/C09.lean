import Model.Pass.Lower
import Proofs.Lemmas.Rewrite
import Proofs.Lemmas.LowerStruct
import Proofs.Lemmas.Dco
import Proofs.Lemmas.LowerTopo
import Proofs.Lemmas.Alias
import Mathlib.Tactic.Ring
/-!
# C09 — lowering / restructuring passes preserve behaviour and meet their postconditions

The gate rewrite rules are regenerated from passes.py on every run (`Gen.GateRules`).
-/
namespace Pyrtl.C09
open Pyrtl Pyrtl.Lower Pyrtl.Gen.GateRules

/-- `nand_synth`: every rewrite computes the gate it replaces, for all inputs. -/
theorem nand_rules_sound : ∀ a b : Bool,
    nand_rule_and a b = (a && b) ∧ nand_rule_or a b = (a || b) ∧ nand_rule_xor a b = xor a b := by
  decide

/-- `and_inverter_synth`: every rewrite computes the gate it replaces, for all inputs (false of the
    tree as first given — XOR was rewritten to NOR; repaired by a `fix:` commit). -/
theorem aig_rules_sound : ∀ a b : Bool,
    aig_rule_or a b = (a || b) ∧ aig_rule_xor a b = xor a b ∧ aig_rule_nand a b = !(a && b) := by
  decide

/-- Each gate-basis pass rewrites or keeps **every** op a post-synthesis block may contain, and what
    it keeps is inside its target basis: NAND/NOT resp. AND/NOT plus structure. -/
theorem gate_basis_tables :
    (∀ op ∈ ["and", "or", "xor", "nand", "inv", "w", "reg", "concat", "select", "mread", "mwrite"],
        op ∈ nand_keeps ∨ op ∈ nand_rewrites) ∧
    (∀ op ∈ ["and", "or", "xor", "nand", "inv", "w", "reg", "concat", "select", "mread", "mwrite"],
        op ∈ aig_keeps ∨ op ∈ aig_rewrites) ∧
    (∀ op ∈ nand_keeps, op ∉ ["and", "or", "xor"]) ∧
    (∀ op ∈ aig_keeps, op ∉ ["or", "xor", "nand"]) := by
  decide

theorem concat2 (w1 v1 w2 v2 : Nat) (h1 : v1 < 2 ^ w1) (h2 : v2 < 2 ^ w2) :
    Spec.comb .concat [(w1, v1), (w2, v2)] (w1 + w2) = v1 * 2 ^ w2 + v2 := by
  simp only [Spec.comb, Spec.concatVal, Nat.zero_mul, Nat.zero_add]
  apply Nat.mod_eq_of_lt
  rw [Nat.pow_add]
  have : (v1 + 1) * 2 ^ w2 ≤ 2 ^ w1 * 2 ^ w2 := Nat.mul_le_mul_right _ h1
  rw [Nat.add_mul] at this
  omega

theorem foldl_concat (rest : List (Nat × Nat)) (w v : Nat) (hv : v < 2 ^ w)
    (hr : ∀ p ∈ rest, p.2 < 2 ^ p.1) :
    rest.foldl (fun acc q => (acc.1 + q.1, Spec.comb .concat [acc, q] (acc.1 + q.1))) (w, v)
      = (w + (rest.map (·.1)).sum, Spec.concatVal rest v) ∧
    Spec.concatVal rest v < 2 ^ (w + (rest.map (·.1)).sum) := by
  induction rest generalizing w v with
  | nil => simp [Spec.concatVal, hv]
  | cons q rest ih =>
    obtain ⟨wq, vq⟩ := q
    have hq : vq < 2 ^ wq := hr (wq, vq) (by simp)
    have hnew : v * 2 ^ wq + vq < 2 ^ (w + wq) := by
      rw [Nat.pow_add]
      have : (v + 1) * 2 ^ wq ≤ 2 ^ w * 2 ^ wq := Nat.mul_le_mul_right _ hv
      rw [Nat.add_mul] at this
      omega
    have := ih (w + wq) (v * 2 ^ wq + vq) hnew (fun p hp => hr p (by simp [hp]))
    simp only [List.foldl_cons, List.map_cons, List.sum_cons, Spec.concatVal]
    rw [concat2 w v wq vq hv hq, Nat.add_assoc] at *
    exact this

/-- **`two_way_concat`**: the chain of 2-operand concats carries, at every width, exactly the value
    and the width of the n-operand concat it replaces (first operand most significant). -/
theorem two_way_concat_preserves (l : List (Nat × Nat)) (hr : ∀ p ∈ l, p.2 < 2 ^ p.1) :
    twoWay l = ((l.map (·.1)).sum, Spec.comb .concat l (l.map (·.1)).sum) := by
  cases l with
  | nil => simp [twoWay, Spec.comb, Spec.concatVal]
  | cons p rest =>
    obtain ⟨w, v⟩ := p
    have hv : v < 2 ^ w := hr (w, v) (by simp)
    have h := foldl_concat rest w v hv (fun q hq => hr q (by simp [hq]))
    simp only [twoWay]
    rw [h.1]
    simp only [List.map_cons, List.sum_cons, Spec.comb, Spec.concatVal, Nat.zero_mul, Nat.zero_add]
    rw [Nat.mod_eq_of_lt h.2]

theorem selectVal_single (i a : Nat) : Spec.selectVal [i] a % 2 ^ 1 = Spec.bit a i := by
  simp only [Spec.selectVal, Spec.bit]
  omega

theorem concat_bits (idx : List Nat) (a acc : Nat) :
    Spec.concatVal (idx.map fun i => (1, Spec.bit a i)) acc
      = acc * 2 ^ idx.length + Spec.selectVal idx.reverse a := by
  induction idx generalizing acc with
  | nil => simp [Spec.concatVal, Spec.selectVal]
  | cons i rest ih =>
    simp only [List.map_cons, Spec.concatVal, ih, List.length_cons, List.reverse_cons]
    have hsel : ∀ (l : List Nat) (j : Nat), Spec.selectVal (l ++ [j]) a
        = Spec.selectVal l a + 2 ^ l.length * Spec.bit a j := by
      intro l j
      induction l with
      | nil => simp [Spec.selectVal]
      | cons x xs ihx =>
        simp only [List.cons_append, Spec.selectVal, ihx, List.length_cons, Nat.pow_succ]
        rw [Nat.mul_add, Nat.mul_comm (2 ^ xs.length) 2, Nat.mul_assoc]
        omega
    rw [hsel, List.length_reverse]
    ring

/-- **`one_bit_selects`**: concatenating the single-bit selects (in `concat_list` order) gives the
    arbitrary select it replaces: repeats, reversals and strides included. -/
theorem one_bit_selects_preserves (idx : List Nat) (a : Nat) :
    Spec.comb .concat (oneBitSelects idx a) idx.length = Spec.comb (.select idx) [(0, a)] idx.length := by
  simp only [oneBitSelects, Spec.comb, selectVal_single]
  have := concat_bits idx.reverse a 0
  simp only [List.reverse_reverse, Nat.zero_mul, Nat.zero_add] at this
  rw [this]

theorem makeTree_leaves (fuel n : Nat) (h : n ≤ fuel) (hn : 1 ≤ n) : (makeTree fuel n).leaves = n := by
  induction fuel generalizing n with
  | zero => omega
  | succ f ih =>
    simp only [makeTree]
    split
    · simp [Tree.leaves]; omega
    · rename_i h1
      simp only [Tree.leaves]
      rw [ih (n / 2) (by omega) (by omega), ih (n - n / 2) (by omega) (by omega)]
      omega

theorem leafVals_all (t : Tree) (v : Nat) : ∀ x ∈ t.leafVals v, x = v := by
  induction t with
  | leaf => simp [Tree.leafVals]
  | node l r ihl ihr =>
    intro x hx
    simp only [Tree.leafVals, List.mem_append] at hx
    rcases hx with h | h
    · exact ihl x h
    · exact ihr x h

/-- **`two_way_fanout`**: the tree built for a wire of fan-out `n` has exactly `n` leaves (one per
    reading argument position), every leaf carries the wire's value, and every tree wire feeds at
    most two nets (a `node` has exactly two children). -/
theorem two_way_fanout_tree (n v : Nat) (hn : 1 ≤ n) :
    (makeTree n n).leaves = n ∧ ∀ x ∈ (makeTree n n).leafVals v, x = v :=
  ⟨makeTree_leaves n n (Nat.le_refl n) hn, leafVals_all _ v⟩

/-- **`direct_connect_outputs`**: retargeting the producer of `x` at the Output `o` (width
    `wo ≤ wx`) gives `o` what the removed `w` net gave it: truncating twice is truncating once. -/
theorem direct_connect_w (v wx wo : Nat) (h : wo ≤ wx) :
    Spec.comb .w [(wx, v % 2 ^ wx)] wo = v % 2 ^ wo := by
  simp only [Spec.comb]
  exact Nat.mod_mod_of_dvd v (Nat.pow_dvd_pow 2 h)

example : (makeTree 5 5).leaves = 5 := by decide
example : twoWay [(2, 3), (1, 0), (3, 5)] = (6, 53) := by decide

/-! ### netlist level -/
open Rewrite

/-- the generic statement behind every lowering pass: a gadget over fresh wires that recomputes a net's
    value may replace the net anywhere in a schedule (`Rewrite.rewrite_preserves`), re-exported here -/
theorem local_rewrite_preserves (f : Net → List Nat → Nat) (F : Nat → Prop) (pre post gadget : List Net)
    (n : Net) (e : Env) (hnF : ¬ F n.dest)
    (hg : ∀ e' : Env, (∀ w, ¬ F w → w ≠ n.dest → evalSeq f gadget e' w = e' w) ∧
                      evalSeq f gadget e' n.dest = f n (n.args.map e'))
    (hpost : ∀ m ∈ post, ∀ a ∈ m.args, ¬ F a) :
    ∀ w, ¬ F w → evalSeq f (pre ++ gadget ++ post) e w = evalSeq f (pre ++ n :: post) e w :=
  rewrite_preserves f F pre post gadget n e hnF hg hpost

/-- **`nand_synth` on a whole netlist**: replacing an AND net `d = a & c` (any width) anywhere in any
    schedule by `t = a nand c; d = ~t` over a fresh wire `t` of the same width leaves every other wire —
    in particular every Output and every register input — with exactly the value it had, in every cycle
    (the valuation `e` and the state are arbitrary). -/
theorem nand_synth_and_netlist (b : Block) (st : State) (pre post : List Net) (a c t d : Nat) (e : Env)
    (hw : b.width t = b.width d) (htd : t ≠ d)
    (hpost : ∀ m ∈ post, ∀ x ∈ m.args, x ≠ t) :
    ∀ w, w ≠ t →
      evalSeq (netFun b st) (pre ++ [⟨.nand, [a, c], [t]⟩, ⟨.inv, [t], [d]⟩] ++ post) e w
        = evalSeq (netFun b st) (pre ++ ⟨.and, [a, c], [d]⟩ :: post) e w := by
  apply rewrite_preserves (netFun b st) (· = t) pre post _ ⟨.and, [a, c], [d]⟩ e
  · simpa [Net.dest] using Ne.symm htd
  · intro e'
    constructor
    · intro w hwt hwd
      simp only [evalSeq, Net.dest, List.headD_cons] at hwd ⊢
      simp [upd, hwt, hwd]
    · simp only [evalSeq, netFun, Net.dest, List.headD_cons, List.map_cons, List.map_nil, List.zip_cons_cons,
        List.zip_nil_right, Spec.comb, upd, ↓reduceIte, hw, htd, Ne.symm htd]
      have hm : (e' a &&& e' c) % 2 ^ b.width d < 2 ^ b.width d := Nat.mod_lt _ (Nat.two_pow_pos _)
      generalize (e' a &&& e' c) % 2 ^ b.width d = m at *
      have hp : 0 < 2 ^ b.width d := Nat.two_pow_pos _
      rw [Nat.mod_eq_of_lt (by omega)]
      omega
  · exact hpost

/-! ### the four `net_transform` passes on whole netlists, for every run

`LowerNet.lowerBlock rule b` is the block after the pass (every net kept or replaced by its gadget over fresh
temporaries, `Model/Pass/LowerNet.lean`; compared with the real pass output, up to the names of the temporaries, on
every run).  `wfB` is the executable well-formedness the passes assume (wires of the block, one combinational
driver per wire, `sanity_check_net`'s destination-width rule).  `AgreeRuns size` relates two traces that have the
same number of cycles and agree, in every cycle, on every wire of the original block: Inputs, Outputs, registers
and all internal wires. -/
open LowerNet

/-- **`nand_synth` preserves every run**: any well-formed block (any widths), any schedule of its nets, any
    initial register/memory state, any input history of any length. -/
theorem nand_synth_run_eq (b : Block) (hwf : wfB bitPreB b = true) (order : List Net)
    (hord : ∀ n ∈ order, n ∈ b.nets) (st : State) (inps : List Env) :
    AgreeRuns b.wires.size (run (lowerBlock nandRule b) (lowerOrder nandRule b order) st inps)
      (run b order st inps) :=
  lower_run_preserves nandRule BitPre nand_sound b (wfB_bit b hwf) order hord st inps

/-- **`and_inverter_synth` preserves every run** -/
theorem and_inverter_synth_run_eq (b : Block) (hwf : wfB bitPreB b = true) (order : List Net)
    (hord : ∀ n ∈ order, n ∈ b.nets) (st : State) (inps : List Env) :
    AgreeRuns b.wires.size (run (lowerBlock aigRule b) (lowerOrder aigRule b order) st inps)
      (run b order st inps) :=
  lower_run_preserves aigRule BitPre aig_sound b (wfB_bit b hwf) order hord st inps

/-- **`two_way_concat` preserves every run** (operand values need not even be in range: the chain of
    two-operand concats is congruent to the n-operand concat modulo its width) -/
theorem two_way_concat_run_eq (b : Block) (hwf : wfB structPreB b = true) (order : List Net)
    (hord : ∀ n ∈ order, n ∈ b.nets) (st : State) (inps : List Env) :
    AgreeRuns b.wires.size (run (lowerBlock twoWayRule b) (lowerOrder twoWayRule b order) st inps)
      (run b order st inps) :=
  lower_run_preserves twoWayRule StructPre twoWay_sound b (wfB_struct b hwf) order hord st inps

/-- **`one_bit_selects` preserves every run** (every index tuple: strides, reversals, repeats) -/
theorem one_bit_selects_run_eq (b : Block) (hwf : wfB structPreB b = true) (order : List Net)
    (hord : ∀ n ∈ order, n ∈ b.nets) (st : State) (inps : List Env) :
    AgreeRuns b.wires.size (run (lowerBlock oneBitRule b) (lowerOrder oneBitRule b order) st inps)
      (run b order st inps) :=
  lower_run_preserves oneBitRule StructPre oneBit_sound b (wfB_struct b hwf) order hord st inps

/-- the architectural state (registers and memories) after every cycle is *equal*, not just the wire values -/
theorem lowering_state_eq (r : Rule) (Pre : Block → Net → Prop) (hr : RuleSound r Pre) (b : Block) (hwf : WF Pre b)
    (order : List Net) (hord : ∀ n ∈ order, n ∈ b.nets) (st : State) (inp : Env) :
    (step (lowerBlock r b) (lowerOrder r b order) st inp).2 = (step b order st inp).2 :=
  (step_preserves b _ order _ _ (lower_stepHyp r Pre hr b hwf order hord) st inp).2

/-! postconditions -/

theorem mem_lower_nets (r : Rule) (b : Block) (m : Net) (hm : m ∈ (lowerBlock r b).nets) :
    ∃ n ∈ b.nets, m ∈ expand r b n := by
  simpa [lowerBlock, List.mem_flatMap] using hm

/-- **`nand_synth` postcondition**: if every `&`, `|`, `^` net has two operands (`sanity_check_net`), no such
    net is left. -/
theorem nand_synth_post (b : Block)
    (harity : ∀ n ∈ b.nets, (n.op = .and ∨ n.op = .or ∨ n.op = .xor) → ∃ a c, n.args = [a, c]) :
    ∀ m ∈ (lowerBlock nandRule b).nets, m.op ≠ .and ∧ m.op ≠ .or ∧ m.op ≠ .xor := by
  intro m hm
  obtain ⟨n, hn, hmn⟩ := mem_lower_nets _ _ _ hm
  simp only [expand] at hmn
  by_cases hand : n.op = .and
  · obtain ⟨a, c, hargs⟩ := harity n hn (Or.inl hand)
    simp only [nandRule, hand, hargs, wNet, List.mem_cons, List.not_mem_nil, or_false] at hmn
    rcases hmn with rfl | rfl | rfl <;> simp
  by_cases hor : n.op = .or
  · obtain ⟨a, c, hargs⟩ := harity n hn (Or.inr (Or.inl hor))
    simp only [nandRule, hor, hargs, wNet, List.mem_cons, List.not_mem_nil, or_false] at hmn
    rcases hmn with rfl | rfl | rfl | rfl <;> simp
  by_cases hxor : n.op = .xor
  · obtain ⟨a, c, hargs⟩ := harity n hn (Or.inr (Or.inr hxor))
    simp only [nandRule, hxor, hargs, wNet, List.mem_cons, List.not_mem_nil, or_false] at hmn
    rcases hmn with rfl | rfl | rfl | rfl | rfl <;> simp
  · have hnone : nandRule b n = none := by
      unfold nandRule
      split <;> simp_all
    rw [hnone] at hmn
    simp only [List.mem_cons, List.not_mem_nil, or_false] at hmn
    subst hmn
    exact ⟨hand, hor, hxor⟩

/-- **`and_inverter_synth` postcondition**: no `|`, `^` or `nand` net is left. -/
theorem and_inverter_synth_post (b : Block)
    (harity : ∀ n ∈ b.nets, (n.op = .or ∨ n.op = .xor ∨ n.op = .nand) → ∃ a c, n.args = [a, c]) :
    ∀ m ∈ (lowerBlock aigRule b).nets, m.op ≠ .or ∧ m.op ≠ .xor ∧ m.op ≠ .nand := by
  intro m hm
  obtain ⟨n, hn, hmn⟩ := mem_lower_nets _ _ _ hm
  simp only [expand] at hmn
  by_cases hor : n.op = .or
  · obtain ⟨a, c, hargs⟩ := harity n hn (Or.inl hor)
    simp only [aigRule, hor, hargs, wNet, List.mem_cons, List.not_mem_nil, or_false] at hmn
    rcases hmn with rfl | rfl | rfl | rfl | rfl <;> simp
  by_cases hxor : n.op = .xor
  · obtain ⟨a, c, hargs⟩ := harity n hn (Or.inr (Or.inl hxor))
    simp only [aigRule, hxor, hargs, wNet, List.mem_cons, List.not_mem_nil, or_false] at hmn
    rcases hmn with rfl | rfl | rfl | rfl | rfl | rfl | rfl | rfl <;> simp
  by_cases hnand : n.op = .nand
  · obtain ⟨a, c, hargs⟩ := harity n hn (Or.inr (Or.inr hnand))
    simp only [aigRule, hnand, hargs, wNet, List.mem_cons, List.not_mem_nil, or_false] at hmn
    rcases hmn with rfl | rfl | rfl <;> simp
  · have hnone : aigRule b n = none := by
      unfold aigRule
      split <;> simp_all
    rw [hnone] at hmn
    simp only [List.mem_cons, List.not_mem_nil, or_false] at hmn
    subst hmn
    exact ⟨hor, hxor, hnand⟩

/-- **`two_way_concat` postcondition**: every concat left has at most two operands. -/
theorem two_way_concat_post (b : Block) :
    ∀ m ∈ (lowerBlock twoWayRule b).nets, m.op = .concat → m.args.length ≤ 2 := by
  intro m hm hop
  obtain ⟨n, hn, hmn⟩ := mem_lower_nets _ _ _ hm
  simp only [expand] at hmn
  cases hr : twoWayRule b n with
  | none =>
    rw [hr] at hmn
    simp only [List.mem_cons, List.not_mem_nil, or_false] at hmn
    subst hmn
    unfold twoWayRule at hr
    split at hr
    · simp at hr
    · rename_i hne
      match hargs : m.args with
      | [] => simp
      | [_] => simp
      | [_, _] => simp
      | a0 :: a1 :: a2 :: rest => exact absurd hargs (hne a0 a1 a2 rest hop)
  | some g =>
    rw [hr] at hmn
    unfold twoWayRule at hr
    split at hr
    · simp only [Option.some.injEq] at hr
      subst hr
      simp only [List.mem_cons, List.mem_append, List.not_mem_nil, or_false] at hmn
      rcases hmn with (rfl | hmn) | rfl
      · simp
      · -- a link of the chain has two operands
        have : ∀ (rest : List Nat) (k : Nat), ∀ x ∈ catChain (base twoWayRule b n.dest) rest k, x.args.length = 2 := by
          intro rest
          induction rest with
          | nil => intro k x hx; simp [catChain] at hx
          | cons a rest ih =>
            intro k x hx
            simp only [catChain, List.mem_cons] at hx
            rcases hx with rfl | hx
            · rfl
            · exact ih _ x hx
        rw [this _ _ m hmn]
      · simp [wNet]
    · simp at hr

/-- **`one_bit_selects` postcondition**: every select left (with one operand, `sanity_check_net`) takes at
    most one bit. -/
theorem one_bit_selects_post (b : Block)
    (harity : ∀ n ∈ b.nets, ∀ idx, n.op = .select idx → ∃ a, n.args = [a]) :
    ∀ m ∈ (lowerBlock oneBitRule b).nets, ∀ idx, m.op = .select idx → idx.length ≤ 1 := by
  intro m hm idx hop
  obtain ⟨n, hn, hmn⟩ := mem_lower_nets _ _ _ hm
  simp only [expand] at hmn
  cases hr : oneBitRule b n with
  | none =>
    rw [hr] at hmn
    simp only [List.mem_cons, List.not_mem_nil, or_false] at hmn
    subst hmn
    obtain ⟨a, hargs⟩ := harity m hn idx hop
    unfold oneBitRule at hr
    split at hr
    · simp at hr
    · simp at hr
    · rename_i hne1 hne2
      match idx, hop with
      | [], _ => simp
      | [i], hop => exact absurd hargs (hne1 i a hop)
      | i :: j :: rest, hop => exact absurd hargs (hne2 i j rest a hop)
  | some g =>
    rw [hr] at hmn
    unfold oneBitRule at hr
    split at hr
    · simp only [Option.some.injEq] at hr
      subst hr
      simp only [wNet, List.mem_cons, List.not_mem_nil, or_false] at hmn
      rcases hmn with rfl | rfl
      · simp only [Op.select.injEq] at hop
        subst hop
        simp
      · simp at hop
    · simp only [Option.some.injEq] at hr
      subst hr
      simp only [List.mem_cons, List.mem_append, List.not_mem_nil, or_false] at hmn
      rcases hmn with hmn | rfl | rfl
      · have : ∀ (l : List Nat) (k : Nat) (a : Nat), ∀ x ∈ bitNets (base oneBitRule b n.dest) a l k,
            ∃ i, x.op = .select [i] := by
          intro l
          induction l with
          | nil => intro k a x hx; simp [bitNets] at hx
          | cons i rest ih =>
            intro k a x hx
            simp only [bitNets, List.mem_cons] at hx
            rcases hx with rfl | hx
            · exact ⟨i, rfl⟩
            · exact ih _ _ x hx
        obtain ⟨i, hi⟩ := this _ _ _ m hmn
        rw [hi] at hop
        simp only [Op.select.injEq] at hop
        subst hop
        simp
      · simp at hop
      · simp [wNet] at hop
    · simp at hr

/-! non-vacuity: a concrete well-formed block the theorems apply to, and the passes really rewrite it -/

def exBlock : Block :=
  { wires := #[⟨"a", 3, .input⟩, ⟨"c", 3, .input⟩, ⟨"x", 3, .plain⟩, ⟨"o", 2, .output⟩, ⟨"k", 9, .plain⟩,
               ⟨"s", 3, .plain⟩]
    nets := [⟨.xor, [0, 1], [2]⟩, ⟨.or, [2, 0], [3]⟩, ⟨.concat, [0, 1, 2], [4]⟩, ⟨.select [2, 0, 2], [4], [5]⟩]
    mems := [] }

example : wfB bitPreB exBlock = true ∧ wfB structPreB exBlock = true := by decide
example : (lowerBlock nandRule exBlock).nets.length = 11 ∧ (lowerBlock twoWayRule exBlock).nets.length = 6 ∧
    (lowerBlock oneBitRule exBlock).nets.length = 8 := by decide

/-- **the lowered schedule is a dependency order of the lowered nets** for each of the four passes (every temporary is
    written before it is read and exactly once; the temporaries of different gadgets are disjoint) -/
theorem lowered_schedule_is_dependency_order (b : Block) (order : List Net)
    (hmem : ∀ n ∈ order, n ∈ b.nets) (hold : ∀ n ∈ order, NetOld b n) (hto : Topo order order []) :
    Topo (lowerOrder nandRule b order) (lowerOrder nandRule b order) [] ∧
    Topo (lowerOrder aigRule b order) (lowerOrder aigRule b order) [] ∧
    Topo (lowerOrder twoWayRule b order) (lowerOrder twoWayRule b order) [] ∧
    Topo (lowerOrder oneBitRule b order) (lowerOrder oneBitRule b order) [] :=
  ⟨lowerOrder_topo _ nand_shape b order hmem hold hto, lowerOrder_topo _ aig_shape b order hmem hold hto,
   lowerOrder_topo _ twoWay_shape b order hmem hold hto, lowerOrder_topo _ oneBit_shape b order hmem hold hto⟩

/-- **under any dependency order** `order'` of the lowered nets (whatever order a simulator of the lowered block
    picks) and any dependency order `order` of the original nets: the four passes preserve every run -/
theorem net_transform_passes_run_eq_any_order (b : Block) (order order' : List Net)
    (hord : ∀ n ∈ order, n ∈ b.nets) (hto : Topo order order []) (hto' : Topo order' order' [])
    (st : State) (inps : List Env) :
    (wfB bitPreB b = true → (∀ n, n ∈ order' ↔ n ∈ lowerOrder nandRule b order) →
      AgreeRuns b.wires.size (run (lowerBlock nandRule b) order' st inps) (run b order st inps)) ∧
    (wfB bitPreB b = true → (∀ n, n ∈ order' ↔ n ∈ lowerOrder aigRule b order) →
      AgreeRuns b.wires.size (run (lowerBlock aigRule b) order' st inps) (run b order st inps)) ∧
    (wfB structPreB b = true → (∀ n, n ∈ order' ↔ n ∈ lowerOrder twoWayRule b order) →
      AgreeRuns b.wires.size (run (lowerBlock twoWayRule b) order' st inps) (run b order st inps)) ∧
    (wfB structPreB b = true → (∀ n, n ∈ order' ↔ n ∈ lowerOrder oneBitRule b order) →
      AgreeRuns b.wires.size (run (lowerBlock oneBitRule b) order' st inps) (run b order st inps)) :=
  ⟨fun hwf hp => lower_run_preserves_any_order _ _ nand_sound nand_shape b (wfB_bit b hwf) order hord hto order' hp hto' st inps,
   fun hwf hp => lower_run_preserves_any_order _ _ aig_sound aig_shape b (wfB_bit b hwf) order hord hto order' hp hto' st inps,
   fun hwf hp => lower_run_preserves_any_order _ _ twoWay_sound twoWay_shape b (wfB_struct b hwf) order hord hto order' hp hto' st inps,
   fun hwf hp => lower_run_preserves_any_order _ _ oneBit_sound oneBit_shape b (wfB_struct b hwf) order hord hto order' hp hto' st inps⟩

/-! ### `direct_connect_outputs` on whole netlists, for every run

`Dco.directConnectOutputs b` is the block after the pass (rounds of retargeting the producer of `x` at the Output `o`
and dropping the net `o <-- w -- x`, until nothing changes; `Model/Pass/Dco.lean`, compared net by net with the real
pass output on every run).  `Dco.chainOkB` is the executable side condition: every block the pass goes through
passes the structural checks of `sanity_check` used by the proof and its scheduler order is a dependency order of
its combinational nets (evaluated by the driver on every tested block). -/
open Dco in
/-- **`direct_connect_outputs` preserves every Output in every cycle of every run**, from any initial state, under
    the scheduler's dependency orders (by `spec_order_independent` any other dependency order gives the same values).
    The key fact is that truncating a primitive's documented result to a narrower destination is the primitive at
    that width (`Dco.comb_trunc`, all 15 primitives incl. subtraction and inversion). -/
theorem direct_connect_outputs_run_eq (b : Block) (h : chainOkB (b.nets.length + 1) b = true)
    (st : State) (inps : List Env) :
    AgreeOn (fun x => b.kind x = .output)
      (run (directConnectOutputs b) (orderOf (directConnectOutputs b)) st inps) (run b (orderOf b) st inps) :=
  dco_run (b.nets.length + 1) b h st inps

open Dco in
/-- **`direct_connect_outputs` postcondition**: no net's destination is read only by a `w` net into an Output. -/
theorem direct_connect_outputs_post (b : Block) :
    ∀ p ∈ (directConnectOutputs b).nets, outW? (directConnectOutputs b) p = none :=
  dco_post b

/-- non-vacuity: a chain `a & c -> x -> w -> t -> w -> o` needs two rounds and ends as `o = a & c` -/
def exDco : Block :=
  { wires := #[⟨"a", 3, .input⟩, ⟨"c", 3, .input⟩, ⟨"x", 3, .plain⟩, ⟨"t", 3, .plain⟩, ⟨"o", 2, .output⟩]
    nets := [⟨.and, [0, 1], [2]⟩, ⟨.w, [2], [3]⟩, ⟨.w, [3], [4]⟩]
    mems := [] }

example : Dco.chainOkB (exDco.nets.length + 1) exDco = true ∧
    (Dco.directConnectOutputs exDco).nets = [⟨.and, [0, 1], [4]⟩] := by decide

/-! ### `two_way_fanout`, read backwards

`two_way_fanout` inserts trees of `w` nets (`_make_tree`) and points the readers of a wire at the leaves.  Removing those
`w` nets again — each leaf replaced by the wire at the root of its tree — is an alias elimination in the sense of
`Model/Pass/Alias.lean` whose result is the block the pass started from.  So with `b'` the block *after* the pass and `c`
the certificate "remove the inserted `w` nets" (derived from the real pass output, checked by `Alias.schedsOkB`, and
`Alias.applyCert b' c` compared net for net with the block *before* the pass on every run): -/

/-- **`two_way_fanout` preserves every Output in every cycle of every run**: the block before the pass
    (`= Alias.applyCert b' c`) and the block after it (`b'`) agree on every Output and on every wire the pass did not
    insert, from every initial state whose run is in range. -/
theorem two_way_fanout_run_eq (b' : Block) (c : Alias.Cert) (h : Alias.schedsOkB b' c = true) (st : State)
    (inps : List Env) (hrange : Alias.RangeRun b' (Dco.orderOf b') st inps) :
    Dco.AgreeOn (fun x => b'.kind x = .output)
      (run (Alias.applyCert b' c) (Dco.orderOf (Alias.applyCert b' c)) st inps) (run b' (Dco.orderOf b') st inps) := by
  obtain ⟨hs, hout⟩ := Alias.schedsOkB_sound b' c h
  exact Dco.AgreeOn.mono _ _ hout _ _ (Alias.alias_run b' c _ _ hs inps st hrange)

end Pyrtl.C09
