import Model.Graph.Sanity
import Proofs.Lemmas.RunRefine
/-!
# C10 — malformed netlists are rejected

`netRejects` is `Block.sanity_check_net` as regenerated from core.py on every run (`Gen.SanityTable`,
one Boolean rule per `if …: raise`).  Each theorem: a net (wherever it sits in the design) showing
the fault is rejected.  `check` is the block-level model of `sanity_check` + the acyclicity test of
`Block.__iter__`; its agreement with the real code on every generated good and faulty block is the
correspondence obligation of tools/checks/c10.py.
-/
namespace Pyrtl.C10
open Pyrtl Pyrtl.Graph Pyrtl.Gen.SanityTable

/-- close `(<closed test on the op string> && decide <arithmetic>) = true` -/
local macro "rule_tac" : tactic =>
  `(tactic| (simp only [Bool.and_eq_true, decide_eq_true_eq, Bool.not_eq_true', bne_iff_ne, ne_eq];
             refine ⟨by decide, by first | omega | assumption | simp_all⟩))

/-! ### net-level fault classes -/

/-- a wire of another block / an unregistered wire anywhere in a net -/
theorem foreign_wire_rejected (v : NetView) (h : v.foreign = true) : netRejects v = true := by
  simp [netRejects, rule0, h]

/-- an Input or Const used as destination -/
theorem input_const_dest_rejected (v : NetView) (h : v.destIsInputOrConst = true) : netRejects v = true := by
  simp [netRejects, rule2, h]

/-- an Output used as argument -/
theorem output_arg_rejected (v : NetView) (h : v.argIsOutput = true) : netRejects v = true := by
  simp [netRejects, rule3, h]

theorem illegal_op_rejected (v : NetView) (h : v.legal = false) : netRejects v = true := by
  simp [netRejects, rule4, h]

/-- wrong arity, every op class -/
theorem bad_arity_rejected (v : NetView) :
    (v.op ∈ ["w", "~", "r", "s", "m"] → v.nargs ≠ 1 → netRejects v = true) ∧
    (v.op ∈ ["&", "|", "^", "n", "+", "-", "*", "<", ">", "="] → v.nargs ≠ 2 → netRejects v = true) ∧
    (v.op ∈ ["x", "@"] → v.nargs ≠ 3 → netRejects v = true) := by
  refine ⟨?_, ?_, ?_⟩ <;> intro hop hn
  · have h5 : rule5 v = true := by
      simp only [List.mem_cons, List.mem_nil_iff, or_false] at hop
      rcases hop with h | h | h | h | h <;> (simp only [rule5, h]; rule_tac)
    simp [netRejects, h5]
  · have h6 : rule6 v = true := by
      simp only [List.mem_cons, List.mem_nil_iff, or_false] at hop
      rcases hop with h | h | h | h | h | h | h | h | h | h <;> (simp only [rule6, h]; rule_tac)
    simp [netRejects, h6]
  · simp only [List.mem_cons, List.mem_nil_iff, or_false] at hop
    rcases hop with h | h
    · have : rule7 v = true := by simp only [rule7, h]; rule_tac
      simp [netRejects, this]
    · have : rule10 v = true := by simp only [rule10, h]; rule_tac
      simp [netRejects, this]

/-- wrong bitwidths, every rule of the documented table -/
theorem bad_width_rejected (v : NetView) :
    (v.op ∈ ["&", "|", "^", "n", "+", "-", "*", "<", ">", "="] → v.aw 0 ≠ v.aw 1 → netRejects v = true) ∧
    (v.op = "x" → (v.aw 0 ≠ 1 ∨ v.aw 1 ≠ v.aw 2 ∨ v.dw > v.aw 1) → netRejects v = true) ∧
    (v.op ∈ ["w", "~", "&", "|", "^", "n", "r"] → v.dw > v.aw 0 → netRejects v = true) ∧
    (v.op ∈ ["<", ">", "="] → v.dw ≠ 1 → netRejects v = true) ∧
    (v.op ∈ ["+", "-"] → v.dw > v.aw 0 + 1 → netRejects v = true) ∧
    (v.op = "*" → v.dw > 2 * v.aw 0 → netRejects v = true) ∧
    (v.op = "c" → v.dw > v.sumw → netRejects v = true) ∧
    (v.op = "s" → v.dw > v.plen → netRejects v = true) ∧
    (v.op ∈ ["m", "@"] → v.aw 0 ≠ v.memAW → netRejects v = true) ∧
    (v.op = "m" → v.dw ≠ v.memDW → netRejects v = true) ∧
    (v.op = "@" → (v.aw 1 ≠ v.memDW ∨ v.aw 2 ≠ 1) → netRejects v = true) := by
  refine ⟨?_, ?_, ?_, ?_, ?_, ?_, ?_, ?_, ?_, ?_, ?_⟩
  · intro hop hw
    have : rule11 v = true := by
      simp only [List.mem_cons, List.mem_nil_iff, or_false] at hop
      rcases hop with h | h | h | h | h | h | h | h | h | h <;> (simp only [rule11, h]; rule_tac)
    simp [netRejects, this]
  · intro hop hw
    rcases hw with h | h | h
    · have : rule9 v = true := by simp only [rule9, hop]; rule_tac
      simp [netRejects, this]
    · have : rule8 v = true := by simp only [rule8, hop]; rule_tac
      simp [netRejects, this]
    · have : rule27 v = true := by simp only [rule27, hop]; rule_tac
      simp [netRejects, this]
  · intro hop hw
    have : rule23 v = true := by
      simp only [List.mem_cons, List.mem_nil_iff, or_false] at hop
      rcases hop with h | h | h | h | h | h | h <;> (simp only [rule23, h]; rule_tac)
    simp [netRejects, this]
  · intro hop hw
    have : rule24 v = true := by
      simp only [List.mem_cons, List.mem_nil_iff, or_false] at hop
      rcases hop with h | h | h <;> (simp only [rule24, h]; rule_tac)
    simp [netRejects, this]
  · intro hop hw
    have : rule25 v = true := by
      simp only [List.mem_cons, List.mem_nil_iff, or_false] at hop
      rcases hop with h | h <;> (simp only [rule25, h]; rule_tac)
    simp [netRejects, this]
  · intro hop hw
    have : rule26 v = true := by simp only [rule26, hop]; rule_tac
    simp [netRejects, this]
  · intro hop hw
    have : rule28 v = true := by simp only [rule28, hop]; rule_tac
    simp [netRejects, this]
  · intro hop hw
    have : rule29 v = true := by simp only [rule29, hop]; rule_tac
    simp [netRejects, this]
  · intro hop hw
    have : rule12 v = true := by
      simp only [List.mem_cons, List.mem_nil_iff, or_false] at hop
      rcases hop with h | h <;> (simp only [rule12, h]; rule_tac)
    simp [netRejects, this]
  · intro hop hw
    have : rule30 v = true := by simp only [rule30, hop]; rule_tac
    simp [netRejects, this]
  · intro hop hw
    rcases hw with h | h
    · have : rule13 v = true := by simp only [rule13, hop]; rule_tac
      simp [netRejects, this]
    · have : rule14 v = true := by simp only [rule14, hop]; rule_tac
      simp [netRejects, this]

/-- wrong parameters: a select index outside the argument, a parameter on an op that takes none,
    a missing parameter tuple -/
theorem bad_param_rejected (v : NetView) :
    (v.op = "s" → (∃ p ∈ v.pvals, p < 0 ∨ p ≥ (v.aw 0 : Int)) → netRejects v = true) ∧
    (v.op ∈ ["w", "~", "&", "|", "^", "n", "+", "-", "*", "<", ">", "=", "x", "c", "r"] → v.pnone = false →
        netRejects v = true) ∧
    (v.op ∈ ["s", "m", "@"] → v.ptuple = false → netRejects v = true) := by
  refine ⟨?_, ?_, ?_⟩
  · intro hop ⟨p, hp, hbad⟩
    have : rule17 v = true := by
      simp only [rule17, List.any_eq_true]
      refine ⟨p, hp, ?_⟩
      simp only [hop]
      simp only [Bool.and_eq_true, Bool.or_eq_true, decide_eq_true_eq]
      exact ⟨by decide, hbad⟩
    simp [netRejects, this]
  · intro hop hp
    have : rule15 v = true := by
      simp only [List.mem_cons, List.mem_nil_iff, or_false] at hop
      rcases hop with h | h | h | h | h | h | h | h | h | h | h | h | h | h | h <;> (simp only [rule15, h, hp]; decide)
    simp [netRejects, this]
  · intro hop hp
    simp only [List.mem_cons, List.mem_nil_iff, or_false] at hop
    rcases hop with h | h | h
    · have : rule16 v = true := by simp only [rule16, h, hp]; decide
      simp [netRejects, this]
    · have : rule18 v = true := by simp only [rule18, h, hp]; decide
      simp [netRejects, this]
    · have : rule18 v = true := by simp only [rule18, h, hp]; decide
      simp [netRejects, this]

/-- Completeness on the API's nets (no false rejection): a two-operand arithmetic/logic net with
    equal argument widths, one destination of a permitted width, no parameter, over the block's own
    non-Output/non-Input wires is accepted. -/
theorem api_binary_net_accepted (v : NetView) (w dw : Nat)
    (hop : v.op ∈ ["&", "|", "^", "n"]) (hl : v.legal = true) (hna : v.nargs = 2) (hnd : v.ndests = 1)
    (haw : v.argw = [w, w]) (hdw : v.dw = dw) (hle : dw ≤ w) (hp : v.pnone = true) (hpv : v.pvals = [])
    (hf : v.foreign = false) (hd : v.destIsInputOrConst = false) (ha : v.argIsOutput = false) :
    netRejects v = false := by
  simp only [List.mem_cons, List.mem_nil_iff, or_false] at hop
  rcases hop with h | h | h | h <;>
    simp [netRejects, rule0, rule1, rule2, rule3, rule4, rule5, rule6, rule7, rule8, rule9, rule10, rule11,
      rule12, rule13, rule14, rule15, rule16, rule17, rule18, rule19, rule20, rule21, rule22, rule23, rule24,
      rule25, rule26, rule27, rule28, rule29, rule30, h, hl, hna, hnd, NetView.aw, haw, hdw, hp, hpv, hf, hd,
      ha, opIn] <;> omega

/-! ### block-level fault classes -/

theorem bad_net_rejected (b : RawBlock) (h : ∃ n ∈ b.nets, netRejects n.view = true) : check b ≠ .ok := by
  have : b.nets.any (fun n => netRejects n.view) = true := by
    obtain ⟨n, hn, hr⟩ := h
    exact List.any_eq_true.mpr ⟨n, hn, hr⟩
  simp [check, this]

/-- two drivers for one wire -/
theorem two_drivers_rejected (b : RawBlock) (h : hasDupNat (b.nets.flatMap (·.dests)) = true) :
    check b ≠ .ok := by
  unfold check
  split
  · simp
  · simp only []
    split
    · simp
    · simp [h]

/-- two registered wires with the same name -/
theorem dup_name_rejected (b : RawBlock)
    (h : hasDup (((List.range b.wires.size).filter fun i => (b.wires[i]?.map (·.member)).getD false).map
          fun i => (b.wires[i]?.map (·.name)).getD "") = true) : check b ≠ .ok := by
  unfold check
  split
  · simp
  · simp [h]

example : hasDupNat [3, 5, 3] = true := by decide
example : hasDup ["a", "b"] = false := by decide

/-! ### iteration order -/
open RunRefine

/-- `Block.__iter__` as a relation: repeatedly emit *any* pending net all of whose arguments are
    cleared (sources, or destinations of nets emitted earlier); which one is a matter of set order.
    `Kahn b pending cleared order`: `order` is a complete run of that loop. -/
inductive Kahn (b : Block) : List Net → List Nat → List Net → Prop
  | nil {cleared : List Nat} : Kahn b [] cleared []
  | step {pending : List Net} {cleared : List Nat} {n : Net} {rest : List Net} :
      n ∈ pending → (∀ a ∈ n.args, a ∈ cleared ∨ Src b a) →
      Kahn b (pending.erase n) (n.dest :: cleared) rest → Kahn b pending cleared (n :: rest)

/-- **whichever ready net is picked at each step**, the emitted order is a schedule: every net comes
    after the drivers of all its arguments (this is the `sched` field of `C01.WF`) … -/
theorem iter_order_is_schedule (b : Block) (pending : List Net) (cleared : List Nat) (order : List Net)
    (h : Kahn b pending cleared order) : Sched b order cleared := by
  induction h with
  | nil => trivial
  | step _ hready _ ih => exact ⟨hready, ih⟩

/-- … and contains every net exactly as often as the block does -/
theorem iter_order_is_permutation (b : Block) (pending : List Net) (cleared : List Nat) (order : List Net)
    (h : Kahn b pending cleared order) : order.Perm pending := by
  induction h with
  | nil => exact List.Perm.refl _
  | step hmem _ _ ih => exact (List.Perm.cons _ ih).trans (List.perm_cons_erase hmem).symm

-- a two-net chain can only come out in dependency order
example : Kahn ⟨#[⟨"i", 1, .input⟩, ⟨"t", 1, .plain⟩, ⟨"u", 1, .plain⟩], [], []⟩
    [⟨.inv, [1], [2]⟩, ⟨.w, [0], [1]⟩] [] [⟨.w, [0], [1]⟩, ⟨.inv, [1], [2]⟩] := by
  refine Kahn.step (by simp) ?_ (Kahn.step (by simp) ?_ (by simpa using Kahn.nil))
  · intro a ha; simp at ha; subst ha; exact Or.inr (by simp [Src, Block.kind, Block.wire])
  · intro a ha; simp at ha; subst ha; exact Or.inl (by simp [Net.dest])

end Pyrtl.C10
