import Model.Pass.Copy
/-!
# C11 — copy_block and non-updating passes never disturb the source block

PARTIAL by nature: aliasing and identity of CPython objects are *observed* on every run by
tools/checks/c11.py (fingerprints, `id()` disjointness, working-block identity); the theorems say
what the code's cloning functions preserve (regenerated from transform.py / memory.py into
`Gen.Clone`) and what fresh allocation guarantees.
-/
namespace Pyrtl.C11
open Pyrtl Pyrtl.Copy Pyrtl.Gen.Clone

/-- `clone_wire` preserves class, bitwidth, constant value **and register reset value**. -/
theorem clone_wire_id (w : Wire) : cloneWire w = w := by
  obtain ⟨n, wd, k⟩ := w
  cases k <;> rfl

/-- memories keep id, widths, asynchrony and ROM contents -/
theorem copy_mem_id (m : Mem) : copyMem m = m := by
  obtain ⟨i, a, d, r, s⟩ := m
  cases r <;> rfl

/-- **The copy is isomorphic to its source** (every attribute the semantics reads). -/
theorem copy_iso (b : Block) : copyBlock b = b := by
  obtain ⟨ws, ns, ms⟩ := b
  simp only [copyBlock]
  congr 1
  · have : cloneWire = id := funext clone_wire_id
    rw [this]; simp
  · have : copyMem = id := funext copy_mem_id
    rw [this]; simp

/-- hence behaviourally identical from the same initial register map / memory map / default:
    same valuation of every wire on every cycle, for every input sequence and every order. -/
theorem copy_run_eq (b : Block) (order : List Net) (regMap : Nat → Option Nat)
    (memMap : Nat → Nat → Option Nat) (dflt : Nat) (inps : List Env) :
    run (copyBlock b) order (initState (copyBlock b) regMap memMap dflt) inps
      = run b order (initState b regMap memMap dflt) inps := by
  rw [copy_iso]

theorem allocAll_next_le (s : Store) (ws : List Wire) : s.next ≤ (allocAll s ws).1.next := by
  induction ws generalizing s with
  | nil => exact Nat.le_refl _
  | cons w ws ih =>
    simp only [allocAll]
    have := ih (alloc s w).1
    simp only [alloc] at this ⊢
    omega

/-- **Frame**: allocating the copy leaves every object that existed before unchanged. -/
theorem copy_frame (s : Store) (ws : List Wire) : ∀ i, i < s.next → (allocAll s ws).1.obj i = s.obj i := by
  induction ws generalizing s with
  | nil => intro i _; rfl
  | cons w ws ih =>
    intro i hi
    simp only [allocAll]
    rw [ih (alloc s w).1 i (by simp only [alloc]; omega)]
    simp only [alloc]
    have : i ≠ s.next := by omega
    simp [this]

/-- **Freshness**: every object of the copy has an id the store had never used, so the result
    shares no wire object with the source (whose objects all have ids below `s.next`). -/
theorem copy_fresh (s : Store) (ws : List Wire) : ∀ i ∈ (allocAll s ws).2, s.next ≤ i := by
  induction ws generalizing s with
  | nil => intro i hi; simp [allocAll] at hi
  | cons w ws ih =>
    intro i hi
    simp only [allocAll, List.mem_cons] at hi
    rcases hi with rfl | hi
    · simp [alloc]
    · have := ih (alloc s w).1 i hi
      simp only [alloc] at this
      omega

-- non-vacuity: a register with a reset value survives cloning
example : cloneWire ⟨"r", 4, .reg (some 5)⟩ = ⟨"r", 4, .reg (some 5)⟩ := rfl

end Pyrtl.C11
