import Model.Graph.Blif
import Model.Gen.BlifTables
/-!
# C12 — imported BLIF and ISCAS netlists compute the function the file defines

`Gen.BlifTables` is regenerated from `pyrtl/importexport.py` on every run: the flip-flop next-state
table, the special-cased covers and the .bench gate chain.  The block-level behaviour (wiring of
models, vectors, output indirection) is covered by the correspondence check in tools/checks/c12.py.
-/
namespace Pyrtl.C12
open Pyrtl Pyrtl.Blif Pyrtl.Gen.BlifTables

/-- **every** entry of the importer's `flop_next` table is the Yosys cell of that name, for all pin
    values and previous state. -/
theorem flop_table_eq_yosys :
    ∀ p ∈ flopTable, ∀ d e s r q : Bool, yosysNext p.1 d e s r q = some (p.2 d e s r q) := by
  decide +kernel

/-- the parser's name list and the table agree (the source comment asks for exactly this) -/
theorem dff_names_eq_table_keys : dffNames = flopTable.map (·.1) := by decide +kernel

/-- no cell name is listed twice (a second entry would be unreachable in the dict) -/
theorem dff_names_nodup : dffNames.Nodup := by decide +kernel

/-- the special-cased covers are the generic on-set semantics of their token lists, and drive the
    signal listed after their inputs -/
theorem cover_specials_eq_sem :
    ∀ c ∈ coverSpecials, ∀ x0 x1 : Bool,
      c.2.2 x0 x1 = coverSem (rowsOf c.1) ([x0, x1].take c.2.1.toNat) ∧
      (∀ row ∈ rowsOf c.1, (row.length : Int) = c.2.1) := by
  decide +kernel

/-- an empty cover is constant 0 on the last listed signal -/
theorem cover_empty : coverEmpty = (-1, false) ∧ coverSem [] [] = false := by decide

theorem genericRow_eq (row : List Char) (ins : List Bool) : genericRow row ins = rowMatches row ins := by
  induction row generalizing ins with
  | nil => cases ins <;> simp [genericRow, rowMatches]
  | cons c cs ih =>
    cases ins with
    | nil => simp [genericRow, rowMatches]
    | cons x xs =>
      have := ih xs
      simp only [genericRow, rowMatches, litMatches, convertVal, List.zip_cons_cons, List.filter_cons] at *
      by_cases hc : c = '-'
      · simp [hc, this]
      · simp [hc, this]

/-- the generic branch (`rtl_any` of `rtl_all` of literals) is the BLIF on-set semantics, for covers
    of any number of rows and inputs -/
theorem cover_generic_eq_sem (rows : List (List Char)) (ins : List Bool) :
    genericCover rows ins = coverSem rows ins := by
  simp only [genericCover, coverSem, genericRow_eq]

/-- every .bench gate of the importer's chain computes the gate on **two** sources (one for
    NOT/BUFF) … -/
theorem bench_gates_two_sources_partial :
    ∀ g ∈ benchGates, ∀ x y : Bool,
      (g.1 ∈ ["NOT", "BUFF"] → benchSem g.1 [x] = some (g.2 [x])) ∧
      (g.1 ∉ ["NOT", "BUFF"] → benchSem g.1 [x, y] = some (g.2 [x, y])) := by
  decide +kernel

/-- … but **not** on more than two: the full statement (`∀ s, benchSem g s = some (impl s)`) is false
    of the tree as given — known finding `bench-nary-gate`, replayed on the real importer by the check. -/
theorem bench_nary_counterexample :
    ∃ g ∈ benchGates, ∃ s : List Bool, benchSem g.1 s ≠ some (g.2 s) :=
  ⟨("AND", bench_AND), List.Mem.head _, [true, true, false], by decide⟩

/-- non-vacuity: the table has the 32 cells and a cover with a don't-care matches as expected -/
example : flopTable.length = 32 ∧ coverSem [['1', '-'], ['-', '0']] [false, false] = true := by decide

end Pyrtl.C12
