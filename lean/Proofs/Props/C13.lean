import Proofs.Lemmas.Adders
import Proofs.Lemmas.KoggeStone
/-!
# C13 — rtllib adders and multipliers are exact for all widths and values

`Adders.*` are the impl models of adders.py on LSB-first bit lists; the real generators' netlists are
compared with them (and with exact arithmetic) on every run by tools/checks/c13.py.
-/
namespace Pyrtl.C13
open Pyrtl.Synth Pyrtl.Adders

/-- **`ripple_add`**: exact `a + b + cin` for operands of *any two lengths* (the half-adder tail
    handles the longer operand's remaining bits). -/
theorem ripple_exact (a b : List Bool) (cin : Bool) :
    toNat (rippleAdd a b cin) = toNat a + toNat b + b2n cin :=
  rippleAdd_spec a b cin

/-- **`cla_adder`**: exact `a + b + cin` for every operand length pair and every look-ahead unit
    length `la_unit_len ≥ 1` (unit boundaries, look-ahead carry-out = rippled carry). -/
theorem cla_exact (a b : List Bool) (cin : Bool) (ul : Nat) (hul : 0 < ul) :
    toNat (claAdder a b cin ul) = toNat a + toNat b + b2n cin := by
  unfold claAdder
  have ha := zext_length a (max a.length b.length) (Nat.le_max_left _ _)
  have hb := zext_length b (max a.length b.length) (Nat.le_max_right _ _)
  rw [claLoop_spec ul hul _ _ _ _ (by rw [ha, hb]) (by rw [ha]; omega), toNat_zext, toNat_zext]

/-- the look-ahead unit on its own: sum bits and carry-out are exact -/
theorem cla_unit_exact (a b : List Bool) (cin : Bool) (h : a.length = b.length) (hne : 0 < a.length) :
    toNat (claUnit a b cin).1 + 2 ^ a.length * b2n (claUnit a b cin).2 = toNat a + toNat b + b2n cin :=
  (claUnit_spec a b cin h hne).1

/-- **`kogge_stone`**: exact `a + b + cin` for operands of any two lengths: after the rounds with
    prefix distance 1, 2, 4, … every generate bit is the rippled carry out of its position (the
    parallel-prefix recurrences `G' = G | P & G[i-d]`, `P' = P & P[i-d]` compose windows), so the final
    XOR with the original propagate bits is the sum.  (False of the tree as first given — the carry-in
    was XORed into bit 0 only; repaired by a `fix:` commit.) -/
theorem kogge_stone_exact (a b : List Bool) (cin : Bool) :
    toNat (koggeStone a b cin) = toNat a + toNat b + b2n cin := by
  have ha := zext_length a (max a.length b.length) (Nat.le_max_left _ _)
  have hb := zext_length b (max a.length b.length) (Nat.le_max_right _ _)
  have := KS.ks_core (zext a (max a.length b.length)) (zext b (max a.length b.length)) cin (by rw [ha, hb])
  simp only [ha, toNat_zext] at this
  exact this

-- kernel-evaluated instances:
example : toNat (koggeStone (ofNat 4 11) (ofNat 4 7) true) = 11 + 7 + 1 := by decide
example : toNat (koggeStone (ofNat 5 31) (ofNat 3 1) false) = 32 := by decide
example : toNat (claAdder (ofNat 5 29) (ofNat 2 3) true 2) = 33 := by decide

end Pyrtl.C13
