import Proofs.Lemmas.Adders
import Proofs.Lemmas.KoggeStone
import Proofs.Lemmas.SeqMult
import Proofs.Lemmas.Wallace
import Proofs.Lemmas.Signed
/-!
# C13 — rtllib adders and multipliers are exact for all widths and values

`Adders.*` are the impl models of adders.py on LSB-first bit lists; the real generators' netlists are
compared with them (and with exact arithmetic) on every run by tools/checks/c13.py.
-/
namespace Pyrtl.C13
open Pyrtl.Synth Pyrtl.Adders

/-- **`ripple_add`**: exact `a + b + cin` for operands of *any two lengths* (the half-adder tail
    handles the longer operand's remaining bits). -/
theorem ripple_exact (a b : List Bool) (cin : Bool) :
    toNat (rippleAdd a b cin) = toNat a + toNat b + b2n cin :=
  rippleAdd_spec a b cin

/-- **`cla_adder`**: exact `a + b + cin` for every operand length pair and every look-ahead unit
    length `la_unit_len ≥ 1` (unit boundaries, look-ahead carry-out = rippled carry). -/
theorem cla_exact (a b : List Bool) (cin : Bool) (ul : Nat) (hul : 0 < ul) :
    toNat (claAdder a b cin ul) = toNat a + toNat b + b2n cin := by
  unfold claAdder
  have ha := zext_length a (max a.length b.length) (Nat.le_max_left _ _)
  have hb := zext_length b (max a.length b.length) (Nat.le_max_right _ _)
  rw [claLoop_spec ul hul _ _ _ _ (by rw [ha, hb]) (by rw [ha]; omega), toNat_zext, toNat_zext]

/-- the look-ahead unit on its own: sum bits and carry-out are exact -/
theorem cla_unit_exact (a b : List Bool) (cin : Bool) (h : a.length = b.length) (hne : 0 < a.length) :
    toNat (claUnit a b cin).1 + 2 ^ a.length * b2n (claUnit a b cin).2 = toNat a + toNat b + b2n cin :=
  (claUnit_spec a b cin h hne).1

/-- **`kogge_stone`**: exact `a + b + cin` for operands of any two lengths: after the rounds with
    prefix distance 1, 2, 4, … every generate bit is the rippled carry out of its position (the
    parallel-prefix recurrences `G' = G | P & G[i-d]`, `P' = P & P[i-d]` compose windows), so the final
    XOR with the original propagate bits is the sum.  (False of the tree as first given — the carry-in
    was XORed into bit 0 only; repaired by a `fix:` commit.) -/
theorem kogge_stone_exact (a b : List Bool) (cin : Bool) :
    toNat (koggeStone a b cin) = toNat a + toNat b + b2n cin := by
  have ha := zext_length a (max a.length b.length) (Nat.le_max_left _ _)
  have hb := zext_length b (max a.length b.length) (Nat.le_max_right _ _)
  have := KS.ks_core (zext a (max a.length b.length)) (zext b (max a.length b.length)) cin (by rw [ha, hb])
  simp only [ha, toNat_zext] at this
  exact this

-- kernel-evaluated instances:
example : toNat (koggeStone (ofNat 4 11) (ofNat 4 7) true) = 11 + 7 + 1 := by decide
example : toNat (koggeStone (ofNat 5 31) (ofNat 3 1) false) = 32 := by decide
example : toNat (claAdder (ofNat 5 29) (ofNat 2 3) true 2) = 33 := by decide

/-! ## Sequential multipliers (`simple_mult`: `s = 1`; `complex_mult`: `s = shifts`)

`SeqMult.step` is one clock edge of the register-level model (tied to the real netlists cycle by cycle on
random start/operand histories by tools/checks/c13.py).  A start pulse is `step st0 true A B` from an
*arbitrary* earlier state `st0` (reset, finished, or a multiplication still in flight); `idle` is any number
of cycles with `start = 0`, the operand inputs being free (they are not read).  The start edge is cycle 0;
the state after it and `k` idle edges is what is visible during cycle `k + 1`. -/
open Pyrtl.SeqMult in
/-- `done` is up at the latest `len(A)` idle cycles after the start edge (cycle `len(A)+1`), stays up, and
    the accumulator then holds exactly `A * B`. -/
theorem seq_mult_done_and_exact (alen blen s A B : Nat) (hs : 1 ≤ s) (hA : A < 2 ^ alen) (hB : B < 2 ^ blen)
    (st0 : St) (ops : List (Nat × Nat)) (hlen : alen ≤ ops.length) :
    done (idle alen blen s (SeqMult.step alen blen s st0 true A B) ops) = true ∧
    (idle alen blen s (SeqMult.step alen blen s st0 true A B) ops).acc = A * B := by
  have h0 : SeqMult.step alen blen s st0 true A B = shape alen blen s A B 0 := by
    rw [shape_zero _ _ _ _ _ hB]; simp [SeqMult.step]
  obtain ⟨j', _, h2, h3, h4⟩ := idle_from_shape alen blen s A B ops 0
  rw [h0, h3]
  have hz : (shape alen blen s A B j').a = 0 := by
    by_cases hlt : j' < 0 + ops.length
    · exact h4 hlt
    · rw [shape_a_zero_iff]
      have hj : alen ≤ s * j' := by
        have : alen ≤ j' := by omega
        calc alen ≤ j' := this
          _ = 1 * j' := (Nat.one_mul _).symm
          _ ≤ s * j' := Nat.mul_le_mul_right _ hs
      exact lt_of_lt_of_le hA (Nat.pow_le_pow_right (by norm_num) hj)
  exact ⟨by simp [done, hz], shape_done_acc _ _ _ _ _ _ hA hB hz⟩

open Pyrtl.SeqMult in
/-- whenever `done` is seen after a start (however early), the accumulator is exactly `A * B` -/
theorem seq_mult_exact_whenever_done (alen blen s A B : Nat) (hA : A < 2 ^ alen) (hB : B < 2 ^ blen)
    (st0 : St) (ops : List (Nat × Nat))
    (hd : done (idle alen blen s (SeqMult.step alen blen s st0 true A B) ops) = true) :
    (idle alen blen s (SeqMult.step alen blen s st0 true A B) ops).acc = A * B := by
  have h0 : SeqMult.step alen blen s st0 true A B = shape alen blen s A B 0 := by
    rw [shape_zero _ _ _ _ _ hB]; simp [SeqMult.step]
  obtain ⟨j', _, _, h3, _⟩ := idle_from_shape alen blen s A B ops 0
  rw [h0, h3] at hd ⊢
  exact shape_done_acc _ _ _ _ _ _ hA hB (by simpa [done] using hd)

-- the hypotheses are satisfiable and the bound is met: 4-bit 13 x 11, restarted from a state in flight
example : SeqMult.idle 4 4 1 (SeqMult.step 4 4 1 ⟨9, 40, 17⟩ true 13 11) [(0, 0), (1, 2), (3, 4), (5, 6)]
    = ⟨0, 176, 143⟩ := by decide
example : SeqMult.done (SeqMult.idle 4 4 1 (SeqMult.step 4 4 1 ⟨9, 40, 17⟩ true 13 11) [(0, 0), (0, 0), (0, 0)]) = false := by decide
example : (SeqMult.idle 5 3 2 (SeqMult.step 5 3 2 SeqMult.init true 31 7) [(0, 0), (0, 0), (0, 0)]).acc = 217 := by decide

/-! ## Wallace-tree reduction: `wallace_reducer`, `fast_group_adder`, `tree_multiplier`

`Adders.wallaceReducer` models the reducer on a column array (`len(array) ≤ result_bitwidth`, as in every
caller); the final adder is a parameter of which only exactness is assumed — `ripple_exact`, `cla_exact`
and `kogge_stone_exact` above discharge it for the adders the library offers. -/

/-- `wallace_reducer` returns the weighted column sum modulo `2^result_bitwidth`, for every column array,
    every height and every exact final adder; the reduction loop always terminates (its fuel in the model,
    the tallest column, suffices: `reduceLoop_done`). -/
theorem wallace_reducer_value (adder : List Bool → List Bool → List Bool)
    (hadd : ∀ a b, toNat (adder a b) = toNat a + toNat b)
    (cols : List (List Bool)) (W : Nat) (hW : cols.length ≤ W) :
    toNat (wallaceReducer adder cols W) = colsVal cols % 2 ^ W :=
  wallaceReducer_val adder hadd cols W hW

/-- **`fast_group_adder`** (Wallace reducer): the exact sum of any number of operands of any lengths -/
theorem fast_group_adder_exact (adder : List Bool → List Bool → List Bool)
    (hadd : ∀ a b, toNat (adder a b) = toNat a + toNat b) (ws : List (List Bool)) :
    toNat (fastGroupAdder adder ws) = (ws.map toNat).sum := by
  unfold fastGroupAdder
  simp only []
  obtain ⟨hl, hv⟩ := foldl_pushWire ws (List.replicate (maxLen ws) []) (by
    intro w hw; rw [List.length_replicate]; exact le_maxLen ws w hw)
  rw [List.length_replicate] at hl
  rw [wallaceReducer_val adder hadd _ _ (by rw [hl]; exact Nat.le_add_right _ _), hv, colsVal_replicate, Nat.zero_add]
  apply Nat.mod_eq_of_lt
  have h1 := sum_toNat_lt ws (maxLen ws) (le_maxLen ws)
  have h2 := le_two_pow_clog2 ws.length
  rw [Nat.pow_add]
  rcases Nat.eq_zero_or_pos ws.length with h0 | hpos
  · have : ws = [] := List.eq_nil_of_length_eq_zero h0
    subst this; simp
  · calc (ws.map toNat).sum < ws.length * 2 ^ maxLen ws := by omega
      _ ≤ 2 ^ clog2 ws.length * 2 ^ maxLen ws := Nat.mul_le_mul_right _ h2
      _ = 2 ^ maxLen ws * 2 ^ clog2 ws.length := Nat.mul_comm _ _

/-- **`tree_multiplier`** (Wallace reducer): the exact product for all operand lengths, including the
    one-bit shortcut -/
theorem tree_multiplier_exact (adder : List Bool → List Bool → List Bool)
    (hadd : ∀ a b, toNat (adder a b) = toNat a + toNat b) (A B : List Bool) (hA : A ≠ []) (hB : B ≠ []) :
    toNat (treeMultiplier adder A B) = toNat A * toNat B := by
  unfold treeMultiplier
  by_cases hb1 : (B.length == 1) = true
  · have hb1' : B.length = 1 := by simpa using hb1
    simp only [hb1, ↓reduceIte, toNat_append, toNat_map_and, toNat, List.length_map, Nat.mul_zero,
      Nat.add_zero, toNat_single B hb1', b2n, Bool.false_eq_true]
    exact Nat.mul_comm _ _
  · simp only [hb1, Bool.false_eq_true, ↓reduceIte]
    by_cases ha1 : (A.length == 1) = true
    · have ha1' : A.length = 1 := by simpa using ha1
      simp only [ha1, ↓reduceIte, toNat_append, toNat_map_and, toNat, List.length_map, Nat.mul_zero,
        Nat.add_zero, toNat_single A ha1', b2n, Bool.false_eq_true]
    · simp only [ha1, Bool.false_eq_true, ↓reduceIte]
      obtain ⟨hpl, hpv⟩ := partials_val A B hA
      rw [wallaceReducer_val adder hadd _ _ (by rw [hpl]), hpv]
      apply Nat.mod_eq_of_lt
      rw [Nat.pow_add]
      exact Nat.mul_lt_mul'' (toNat_lt A) (toNat_lt B)

/-- with the library's own adders as the final adder -/
theorem tree_multiplier_kogge_stone_exact (A B : List Bool) (hA : A ≠ []) (hB : B ≠ []) :
    toNat (treeMultiplier (fun a b => koggeStone a b false) A B) = toNat A * toNat B :=
  tree_multiplier_exact _ (fun a b => by simpa [b2n] using kogge_stone_exact a b false) A B hA hB

theorem fast_group_adder_kogge_stone_exact (ws : List (List Bool)) :
    toNat (fastGroupAdder (fun a b => koggeStone a b false) ws) = (ws.map toNat).sum :=
  fast_group_adder_exact _ (fun a b => by simpa [b2n] using kogge_stone_exact a b false) ws

/-- **`generalized_fma`** (hence `fused_multiply_adder`), Wallace reducer: the exact sum of products plus
    addends, for any number of pairs and addends of any (non-zero) lengths -/
theorem generalized_fma_exact (adder : List Bool → List Bool → List Bool)
    (hadd : ∀ a b, toNat (adder a b) = toNat a + toNat b)
    (pairs : List (List Bool × List Bool)) (adds : List (List Bool))
    (hp : ∀ p ∈ pairs, p.1 ≠ [] ∧ p.2 ≠ []) :
    toNat (generalizedFma adder pairs adds) =
      (pairs.map fun p => toNat p.1 * toNat p.2).sum + (adds.map toNat).sum := by
  unfold generalizedFma
  simp only []
  generalize hL : max (maxList (adds.map List.length)) (maxList (pairs.map fun p => p.1.length + p.2.length - 1)) = L
  have hpl : ∀ p ∈ pairs, p.1.length + p.2.length ≤ (List.replicate L ([] : List Bool)).length + 1 := by
    intro p hpm
    have h1 := le_maxList (pairs.map fun p => p.1.length + p.2.length - 1) (p.1.length + p.2.length - 1)
      (List.mem_map.mpr ⟨p, hpm, rfl⟩)
    rw [List.length_replicate]; omega
  obtain ⟨hl1, hv1⟩ := foldl_pushProd pairs (List.replicate L []) hpl
  have hal : ∀ w ∈ adds, w.length ≤ (pairs.foldl pushProd (List.replicate L [])).length := by
    intro w hw
    have := le_maxList (adds.map List.length) w.length (List.mem_map.mpr ⟨w, hw, rfl⟩)
    rw [hl1, List.length_replicate]; omega
  obtain ⟨hl2, hv2⟩ := foldl_pushWire adds _ hal
  rw [hl1, List.length_replicate] at hl2
  rw [wallaceReducer_val adder hadd _ _ (by rw [hl2]; exact Nat.le_max_left _ _), hv2, hv1,
    colsVal_replicate, Nat.zero_add]
  apply Nat.mod_eq_of_lt
  have hb := lt_two_pow_bitLength ((pairs.map fun p => (2 ^ p.1.length - 1) * (2 ^ p.2.length - 1)).sum
    + (adds.map fun w => 2 ^ w.length - 1).sum)
  have h1 := sum_prod_le pairs
  have h2 := sum_add_le adds
  exact lt_of_lt_of_le (lt_of_le_of_lt (Nat.add_le_add h1 h2) hb)
    (Nat.pow_le_pow_right (by decide) (Nat.le_max_right _ _))

/-- **`carrysave_adder`**: the exact sum of three operands of any lengths, with any exact final adder -/
theorem carrysave_exact (adder : List Bool → List Bool → List Bool)
    (hadd : ∀ a b, toNat (adder a b) = toNat a + toNat b) (a b c : List Bool) :
    toNat (carrysaveAdder adder a b c) = toNat a + toNat b + toNat c := by
  unfold carrysaveAdder
  simp only []
  generalize hn : max a.length (max b.length c.length) = n
  have ha := zext_length a n (by omega)
  have hb := zext_length b n (by omega)
  have hc := zext_length c n (by omega)
  have key := carrysave_bits (zext a n) (zext b n) (zext c n) (by rw [ha, hb]) (by rw [hb, hc])
  rw [toNat_zext, toNat_zext, toNat_zext] at key
  generalize hps : List.zipWith (fun x yz => xor (xor x yz.1) yz.2) (zext a n) (List.zip (zext b n) (zext c n)) = ps at key
  generalize hsc : List.zipWith (fun x yz => (x || yz.1) && (x || yz.2) && (yz.1 || yz.2)) (zext a n)
    (List.zip (zext b n) (zext c n)) = sc at key
  have hlen : ps.length = n := by rw [← hps]; simp [ha, hb, hc]
  have hlen2 : sc.length = n := by rw [← hsc]; simp [ha, hb, hc]
  split
  · rename_i h1
    have h1' : n = 1 := by simpa using h1
    have e : toNat (ps ++ sc ++ [false]) = toNat ps + 2 * toNat sc := by
      simp [toNat_append, toNat, b2n, hlen, h1']
    rw [e]; exact key
  · rw [toNat_append, hadd]
    cases ps with
    | nil =>
      have hn0 : n = 0 := by simpa using hlen.symm
      have hsc0 : sc = [] := List.eq_nil_of_length_eq_zero (by rw [hlen2, hn0])
      subst hsc0
      simp only [List.take_nil, List.drop_nil, toNat, List.length_nil, Nat.pow_zero] at key ⊢
      omega
    | cons p ps' =>
      simp only [List.take_succ_cons, List.take_zero, List.drop_succ_cons, List.drop_zero, toNat, List.length_cons,
        List.length_nil, Nat.zero_add, Nat.pow_one, Nat.mul_zero, Nat.add_zero] at key ⊢
      omega

/-- **`signed_tree_multiplier`**: conditional two's complement of both operands, an exact unsigned
    multiplier (`tree_multiplier`, see `tree_multiplier_exact`) and a conditional two's complement of the
    product give exactly the product of the two's-complement values in `len(A)+len(B)` bits — for every
    operand, *including the most negative one of each width* (whose magnitude `2^(n-1)` still fits the
    unsigned `n`-bit operand of the inner multiplier). -/
theorem signed_tree_multiplier_exact (mul : Ops.Sig → Ops.Sig → Ops.Sig)
    (hmul : ∀ x y : Ops.Sig, mul x y = (x.1 + y.1, x.2 * y.2))
    (wa a wb b : Nat) (hwa : 0 < wa) (hwb : 0 < wb) (ha : a < 2 ^ wa) (hb : b < 2 ^ wb) :
    (Ops.signedTreeMult mul (wa, a) (wb, b)).1 = wa + wb ∧
    Ops.toSigned (Ops.signedTreeMult mul (wa, a) (wb, b)) = Ops.toSigned (wa, a) * Ops.toSigned (wb, b) :=
  Ops.signedTreeMult_exact mul hmul wa a wb b hwa hwb ha hb

-- the most negative operands: (-4) x (-8) = 32 in 7 bits; (-4) x 7 = -28
example : Ops.toSigned (Ops.signedTreeMult (fun x y => (x.1 + y.1, x.2 * y.2)) (3, 4) (4, 8)) = 32 := by decide
example : Ops.toSigned (Ops.signedTreeMult (fun x y => (x.1 + y.1, x.2 * y.2)) (3, 4) (4, 7)) = -28 := by decide

example : toNat (generalizedFma (fun a b => koggeStone a b false) [(ofNat 3 7, ofNat 3 7)] [ofNat 4 15]) = 64 := by decide
example : toNat (carrysaveAdder (fun a b => rippleAdd a b false) (ofNat 3 7) (ofNat 1 1) (ofNat 2 3)) = 11 := by decide

example : toNat (treeMultiplier (fun a b => koggeStone a b false) (ofNat 4 13) (ofNat 3 7)) = 91 := by decide
example : toNat (fastGroupAdder (fun a b => rippleAdd a b false) [ofNat 3 7, ofNat 2 3, ofNat 3 5, ofNat 1 1, ofNat 3 6]) = 22 := by decide

end Pyrtl.C13
