import Model.Lib.Muxes
import Proofs.Props.C06
/-!
# C14 — multiplexing and bit-manipulation helpers select exactly the documented bits
-/
namespace Pyrtl.C14
open Pyrtl Pyrtl.Muxes

theorem valMsb_lt (idx : List Bool) : valMsb idx < 2 ^ idx.length := by
  induction idx with
  | nil => simp [valMsb]
  | cons b rest ih =>
    simp only [valMsb, List.length_cons, Nat.pow_succ]
    cases b <;> simp [b2n] <;> omega

/-- **`mux` delivers exactly input number `index`** for every select width and every input list of
    the full length `2^len(index)`. -/
theorem mux_selects_index (idx : List Bool) (ins : List Nat) (h : ins.length = 2 ^ idx.length) :
    muxMsb idx ins = ins.getD (valMsb idx) 0 := by
  induction idx generalizing ins with
  | nil =>
    cases ins with
    | nil => simp at h
    | cons x xs => simp [muxMsb, valMsb]
  | cons b rest ih =>
    have hlen : ins.length = 2 * 2 ^ rest.length := by
      rw [h, List.length_cons, Nat.pow_succ, Nat.mul_comm]
    have hhalf : ins.length / 2 = 2 ^ rest.length := by omega
    simp only [muxMsb, hhalf]
    cases b
    · simp only [Bool.false_eq_true, if_false, valMsb, b2n, Nat.zero_mul, Nat.zero_add]
      rw [ih _ (by rw [List.length_take]; omega)]
      have := valMsb_lt rest
      simp only [List.getD_eq_getElem?_getD, List.getElem?_take, this, if_true]
    · simp only [if_true, valMsb, b2n, Nat.one_mul]
      rw [ih _ (by rw [List.length_drop]; omega)]
      simp only [List.getD_eq_getElem?_getD, List.getElem?_drop]

/-- **`default=` is used only for the indices beyond the listed inputs.** -/
theorem mux_default_only_unlisted (idx : List Bool) (ins : List Nat) (d : Nat)
    (h : ins.length ≤ 2 ^ idx.length) :
    mux idx ins d = if valMsb idx < ins.length then ins.getD (valMsb idx) 0 else d := by
  unfold mux
  rw [mux_selects_index idx _ (by simp; omega)]
  have hv := valMsb_lt idx
  simp only [List.getD_eq_getElem?_getD, List.getElem?_append, List.getElem?_replicate]
  split
  · rename_i hlt; simp [hlt]
  · rename_i hge
    have : valMsb idx - ins.length < 2 ^ idx.length - ins.length := by omega
    simp [this]

theorem demux_length (idx : List Bool) : (demuxMsb idx).length = 2 ^ idx.length := by
  induction idx with
  | nil => simp [demuxMsb]
  | cons b rest ih => simp [demuxMsb, ih, Nat.pow_succ]; omega

/-- **`demux` is one-hot at the selected index.** -/
theorem demux_one_hot (idx : List Bool) (j : Nat) (hj : j < 2 ^ idx.length) :
    (demuxMsb idx).getD j false = decide (j = valMsb idx) := by
  induction idx generalizing j with
  | nil =>
    have : j = 0 := by simpa using hj
    subst this; simp [demuxMsb, valMsb]
  | cons b rest ih =>
    have hl := demux_length rest
    have hv := valMsb_lt rest
    have hj' : j < 2 * 2 ^ rest.length := by
      simpa [Nat.pow_succ, Nat.mul_comm] using hj
    simp only [demuxMsb, valMsb, List.getD_eq_getElem?_getD, List.getElem?_append, List.length_map, hl,
      List.getElem?_map]
    by_cases c : j < 2 ^ rest.length
    · have := ih j c
      simp only [List.getD_eq_getElem?_getD] at this
      simp only [c, if_true]
      cases b
      · cases hq : (demuxMsb rest)[j]? with
        | none => simp [hq] at this ⊢; simp [b2n]; omega
        | some q => simp [hq, b2n] at this ⊢; exact this
      · cases hq : (demuxMsb rest)[j]? with
        | none => simp [b2n]; omega
        | some q => simp [b2n]; omega
    · have := ih (j - 2 ^ rest.length) (by omega)
      simp only [List.getD_eq_getElem?_getD] at this
      simp only [c, if_false]
      cases b
      · cases hq : (demuxMsb rest)[j - 2 ^ rest.length]? with
        | none => simp [b2n]; omega
        | some q => simp [b2n]; omega
      · cases hq : (demuxMsb rest)[j - 2 ^ rest.length]? with
        | none => simp [hq] at this ⊢; simp [b2n]; omega
        | some q =>
          simp [hq, b2n] at this ⊢
          rw [this]
          by_cases e : j - 2 ^ rest.length = valMsb rest
          · simp [e]; omega
          · simp [e]; omega

/-- **`bitfield_update`** at the value level: the bits `lo … hi` (the slice `range(len)[start:end]`
    after CPython's normalisation) are replaced by the new value, all other bits are kept. -/
theorem bitfield_update_exact (w nv lo n W : Nat) (hnv : nv < 2 ^ n) (hW : lo + n ≤ W) (hw : w < 2 ^ W) :
    Spec.comb .concat [(W - (lo + n), w / 2 ^ (lo + n)), (n, nv), (lo, w % 2 ^ lo)] W
      = (w / 2 ^ (lo + n)) * 2 ^ (lo + n) + nv * 2 ^ lo + w % 2 ^ lo := by
  simp only [Spec.comb, Spec.concatVal, Nat.zero_mul, Nat.zero_add]
  have h1 : w % 2 ^ lo < 2 ^ lo := Nat.mod_lt _ (Nat.two_pow_pos lo)
  have hupper : w / 2 ^ (lo + n) < 2 ^ (W - (lo + n)) := by
    rw [Nat.div_lt_iff_lt_mul (Nat.two_pow_pos _), ← Nat.pow_add]
    rwa [Nat.sub_add_cancel hW]
  have hPQ : 2 ^ (lo + n) = 2 ^ lo * 2 ^ n := Nat.pow_add 2 lo n
  have hR : 2 ^ W = 2 ^ (W - (lo + n)) * (2 ^ lo * 2 ^ n) := by
    rw [← Nat.pow_add, ← Nat.pow_add]; congr 1; omega
  generalize w / 2 ^ (lo + n) = A at *
  generalize w % 2 ^ lo = wl at *
  generalize 2 ^ (W - (lo + n)) = R at *
  rw [hPQ, hR]
  generalize 2 ^ lo = P at *
  generalize 2 ^ n = Q at *
  have e : (A * Q + nv) * P + wl = A * (P * Q) + nv * P + wl := by ring
  rw [e]
  apply Nat.mod_eq_of_lt
  have a1 : (A + 1) * (P * Q) ≤ R * (P * Q) := Nat.mul_le_mul_right _ hupper
  have a2 : (nv + 1) * P ≤ Q * P := Nat.mul_le_mul_right _ hnv
  have a3 : Q * P = P * Q := Nat.mul_comm Q P
  rw [Nat.add_mul] at a1 a2
  omega

/-- **chop / partition_wire reproduce the whole**: splitting a value at any bit position and
    concatenating the two pieces (upper piece most significant) gives the value back; by iteration,
    so does any chain of such splits. -/
theorem split_concat_id (v k W : Nat) (hv : v < 2 ^ W) :
    Spec.comb .concat [(W - k, v / 2 ^ k), (k, v % 2 ^ k)] W = v := by
  simp only [Spec.comb, Spec.concatVal, Nat.zero_mul, Nat.zero_add]
  rw [Nat.mod_eq_of_lt (by rw [Nat.mul_comm, Nat.div_add_mod]; exact hv), Nat.mul_comm, Nat.div_add_mod]

/-- barrel shifter (re-exported from C06): full-amount shift, either direction, chosen fill bit -/
theorem barrel_shift_eq (bits : List Bool) (bitIn dir : Bool) (sd : List Bool) (h : 0 < bits.length) :
    Barrel.barrelShifter bits bitIn dir sd = Barrel.shiftSpec bits bitIn dir (Barrel.dist sd) :=
  C06.barrel_shift_eq bits bitIn dir sd h

example : muxMsb [true, false] [10, 11, 12, 13] = 12 := by decide
example : demuxMsb [true, false] = [false, false, true, false] := by decide

end Pyrtl.C14
