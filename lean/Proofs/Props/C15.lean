import Model.Gen.InputCheck
import Proofs.Props.C16
import Mathlib.Data.Nat.Digits.Defs
/-!
# C15 — observation channels agree; illegal inputs are refused

The three input-validation conditions are regenerated from simulation.py / compilesim.py on every run
(`Gen.InputCheck`).  The text channels (print_trace, print_vcd) write each value as its digits in
base 2/8/10/16; digits decode to the value.
-/
namespace Pyrtl.C15
open Pyrtl Pyrtl.Gen.InputCheck

theorem shl_one' (w : Nat) : pyShl 1 (w : Int) = ((2 ^ w : Nat) : Int) := by
  simp [pyShl]

/-- **Simulation.step** refuses exactly the values outside `[0, 2^w)`. -/
theorem sim_input_check_iff (v : Int) (w : Nat) (hw : 1 ≤ w) :
    simRejects v (w : Int) = false ↔ 0 ≤ v ∧ v < ((2 ^ w : Nat) : Int) := by
  simp only [simRejects, Bool.false_or, Bool.or_eq_false_iff, decide_eq_false_iff_not]
  constructor
  · intro ⟨h0, h1⟩
    have hv : 0 ≤ v := by omega
    refine ⟨hv, ?_⟩
    obtain ⟨n, rfl⟩ := Int.eq_ofNat_of_zero_le hv
    by_cases hz : n = 0
    · subst hz; exact_mod_cast Nat.two_pow_pos w
    · rw [C16.binLen_pos n hz] at h1
      have : bitLen n ≤ w := by omega
      exact_mod_cast (C16.bitLen_le_iff n w hz).mp this
  · intro ⟨h0, h1⟩
    refine ⟨by omega, ?_⟩
    obtain ⟨n, rfl⟩ := Int.eq_ofNat_of_zero_le h0
    by_cases hz : n = 0
    · subst hz
      have := C16.binLen_zero
      simp only [Int.natCast_zero] at this ⊢
      rw [this]; omega
    · rw [C16.binLen_pos n hz]
      have : n < 2 ^ w := by exact_mod_cast h1
      have := (C16.bitLen_le_iff n w hz).mpr this
      omega

/-- **FastSimulation.step** refuses exactly the values outside `[0, 2^w)`. -/
theorem fast_input_check_iff (v : Int) (w : Nat) :
    fastRejects v (w : Int) = false ↔ 0 ≤ v ∧ v < ((2 ^ w : Nat) : Int) := by
  simp only [fastRejects, shl_one', Bool.or_eq_false_iff, decide_eq_false_iff_not]
  constructor <;> intro ⟨a, b⟩ <;> constructor <;> omega

/-- **CompiledSimulation.run** refuses exactly the values outside `[0, 2^w)` (false of the tree as
    first given, which accepted negative values; repaired by a `fix:` commit). -/
theorem compiled_input_check_iff (v : Int) (w : Nat) :
    compiledRejects v (w : Int) = false ↔ 0 ≤ v ∧ v < ((2 ^ w : Nat) : Int) := by
  simp only [compiledRejects, shl_one', Bool.or_eq_false_iff, decide_eq_false_iff_not]
  constructor <;> intro ⟨a, b⟩ <;> constructor <;> omega

/-- hence the three simulators refuse exactly the same input values -/
theorem input_checks_agree (v : Int) (w : Nat) (hw : 1 ≤ w) :
    simRejects v (w : Int) = fastRejects v (w : Int) ∧ fastRejects v (w : Int) = compiledRejects v (w : Int) := by
  have a := sim_input_check_iff v w hw
  have b := fast_input_check_iff v w
  have c := compiled_input_check_iff v w
  have key : ∀ x y : Bool, (x = false ↔ y = false) → x = y := by
    intro x y h; cases x <;> cases y <;> simp_all
  exact ⟨key _ _ (a.trans b.symm), key _ _ (b.trans c.symm)⟩

/-- **The printed digits decode to the traced value** in every base the text channels use
    (`print_trace` bases 2, 8, 10, 16; `print_vcd` base 2). -/
theorem digits_decode (b n : Nat) : Nat.ofDigits b (Nat.digits b n) = n :=
  Nat.ofDigits_digits b n

example : simRejects (-1) 4 = true ∧ simRejects 16 4 = true ∧ simRejects 15 4 = false := by decide
example : compiledRejects (-1) 1 = true := by decide

end Pyrtl.C15
