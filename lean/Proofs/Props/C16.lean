import Model.Gen.Conv
import Proofs.Lemmas.PyInt
/-!
# C16 — value conversion helpers are range-exact and mutually inverse

`Gen.Conv.*` are obtained on every run by symbolic execution of the Python function bodies
(helperfuncs.py, rtllib/libutils.py): `none` where the code raises, `some …` where it returns.
`pyNone` is the sentinel for an omitted bitwidth.
-/
namespace Pyrtl.C16
open Pyrtl Pyrtl.Gen.Conv

theorem bitLen_le_iff (n w : Nat) (hn : n ≠ 0) : bitLen n ≤ w ↔ n < 2 ^ w := by
  simp only [bitLen, hn, if_false]
  have := @Nat.log2_lt n w hn
  omega

theorem binLen_pos (n : Nat) (hn : n ≠ 0) : pyBinLen (n : Int) - 2 = (bitLen n : Int) := by
  cases n with
  | zero => exact absurd rfl hn
  | succ k =>
    show pyBinLenMinus2 (Int.ofNat (k + 1)) + 2 - 2 = _
    simp only [pyBinLenMinus2]
    omega

theorem binLen_zero : pyBinLen (0 : Int) - 2 = 1 := by decide

theorem shl_one (w : Nat) : pyShl 1 (w : Int) - 1 = mask w := by
  have h : (1 : Int) ≤ 2 ^ w := by exact_mod_cast Nat.one_le_two_pow
  simp only [pyShl, mask, Int.toNat_natCast, Int.one_mul]
  rw [Int.natCast_sub Nat.one_le_two_pow]
  norm_cast

/-- **Unsigned, explicit bitwidth**: a non-negative value is accepted exactly when it fits, and is
    returned unchanged with that bitwidth. -/
theorem infer_unsigned_accepts_iff (v w : Nat) (hw : 1 ≤ w) :
    convertInt (v : Int) (w : Int) false = (if v < 2 ^ w then some ((v : Int), (w : Int)) else none) := by
  have hnone : ¬ ((w : Int) = pyNone) := by simp only [pyNone]; omega
  have hv : (0 : Int) ≤ (v : Int) := Int.natCast_nonneg v
  simp only [convertInt, hv, decide_true, if_true, Bool.false_and, Bool.false_eq_true, if_false, hnone,
    decide_false]
  by_cases hz : v = 0
  · subst hz
    have : ¬ ((w : Int) < 1) := by omega
    simp [binLen_zero, this, Nat.pos_of_ne_zero (Nat.ne_of_gt (Nat.two_pow_pos w))]
  · rw [binLen_pos v hz]
    have := bitLen_le_iff v w hz
    by_cases hlt : v < 2 ^ w
    · have : ¬ ((w : Int) < (bitLen v : Int)) := by have := this.mpr hlt; omega
      simp [hlt, this]
    · have : (w : Int) < (bitLen v : Int) := by
        have h2 : ¬ bitLen v ≤ w := fun h => hlt (this.mp h)
        omega
      simp [hlt, this]

theorem shr_eq_neg_one_iff (x : Int) (k : Nat) :
    pyShr x (k : Int) = -1 ↔ (-(2 ^ k : Nat) : Int) ≤ x ∧ x < 0 := by
  have hp : (0 : Int) < ((2 ^ k : Nat) : Int) := by exact_mod_cast Nat.two_pow_pos k
  simp only [pyShr, Int.toNat_natCast]
  have hc : ((2 : Int) ^ k) = ((2 ^ k : Nat) : Int) := by norm_cast
  rw [hc]
  constructor
  · intro h
    have h1 := Int.emod_add_mul_ediv x ((2 ^ k : Nat) : Int)
    have h2 := Int.emod_nonneg x (Int.ne_of_gt hp)
    have h3 := Int.emod_lt_of_pos x hp
    rw [h] at h1
    constructor <;> omega
  · intro ⟨h1, h2⟩
    have := (@Int.ediv_emod_unique x ((2 ^ k : Nat) : Int) (x + ((2 ^ k : Nat) : Int)) (-1) hp).mpr
      ⟨by rw [Int.mul_neg, Int.mul_one]; omega, by omega, by omega⟩
    exact this.1

/-- **Negative value, explicit bitwidth** (signed or not): accepted exactly when representable in
    two's complement, and the result is the two's-complement encoding `v mod 2^w`. -/
theorem infer_negative_accepts_iff (v : Int) (w : Nat) (hv : v < 0) (hw : 1 ≤ w) (signed : Bool) :
    convertInt v (w : Int) signed
      = (if (-(2 ^ (w - 1) : Nat) : Int) ≤ v then some (v % ((2 ^ w : Nat) : Int), (w : Int)) else none) := by
  have hnone : ¬ ((w : Int) = pyNone) := by simp only [pyNone]; omega
  have hv' : ¬ (v ≥ 0) := by omega
  have hk : (w : Int) - 1 = ((w - 1 : Nat) : Int) := by omega
  simp only [convertInt, hv', decide_false, Bool.false_eq_true, if_false, hnone, Bool.and_false, hk, shl_one,
    pyAnd_mask]
  by_cases hr : (-(2 ^ (w - 1) : Nat) : Int) ≤ v
  · have : pyShr v ((w - 1 : Nat) : Int) = -1 := (shr_eq_neg_one_iff v (w - 1)).mpr ⟨hr, hv⟩
    rw [if_pos hr]
    simp only [this, ne_eq, not_true_eq_false, decide_false, Bool.false_eq_true, if_false]
  · have : ¬ pyShr v ((w - 1 : Nat) : Int) = -1 := fun h => hr ((shr_eq_neg_one_iff v (w - 1)).mp h).1
    rw [if_neg hr]
    simp only [ne_eq, this, not_false_eq_true, decide_true, if_true]

/-- **No bitwidth, unsigned**: the minimal width (`bit_length`, 1 for zero). -/
theorem infer_minimal_unsigned (v : Nat) :
    convertInt (v : Int) pyNone false
      = some ((v : Int), if v = 0 then 1 else (bitLen v : Int)) := by
  have hv : (0 : Int) ≤ (v : Int) := Int.natCast_nonneg v
  simp only [convertInt, hv, decide_true, if_true, Bool.false_and, Bool.false_eq_true, if_false]
  by_cases hz : v = 0
  · subst hz; simp [binLen_zero]
  · simp [binLen_pos v hz, hz]

/-- and that width is minimal: the value fits it and does not fit one bit fewer -/
theorem bitLen_minimal (v : Nat) (hv : v ≠ 0) : v < 2 ^ bitLen v ∧ ¬ v < 2 ^ (bitLen v - 1) := by
  constructor
  · exact (bitLen_le_iff v _ hv).mp (Nat.le_refl _)
  · intro h
    have := (bitLen_le_iff v _ hv).mpr h
    have hb : 1 ≤ bitLen v := by simp [bitLen, hv]
    omega

theorem and_two_pow (v i : Nat) : v &&& 2 ^ i = if v.testBit i then 2 ^ i else 0 := by
  apply Nat.eq_of_testBit_eq
  intro j
  rw [Nat.testBit_and, Nat.testBit_two_pow]
  by_cases h : i = j
  · subst h
    by_cases t : v.testBit i <;> simp [t, Nat.testBit_two_pow]
  · by_cases t : v.testBit i <;> simp [t, h, Nat.testBit_two_pow]

/-- **`val_to_signed_integer`** is the two's-complement reading. -/
theorem val_to_signed_spec (v w : Nat) (hw : 1 ≤ w) (hv : v < 2 ^ w) :
    valToSigned (v : Int) (w : Int)
      = some (if v < 2 ^ (w - 1) then (v : Int) else (v : Int) - ((2 ^ w : Nat) : Int)) := by
  have h1 : ¬ ((w : Int) < 1) := by omega
  have hk : (w : Int) - 1 = ((w - 1 : Nat) : Int) := by omega
  simp only [valToSigned, h1, decide_false, Bool.false_eq_true, if_false, hk, shl_one, pyAnd_mask_nonneg]
  congr 1
  -- value & (1 << (w-1)) is the sign bit's weight
  have hp : pyShl 1 ((w - 1 : Nat) : Int) = ((2 ^ (w - 1) : Nat) : Int) := by
    simp [pyShl]
  rw [hp, pyAnd_nat]
  have hw2 : 2 ^ w = 2 * 2 ^ (w - 1) := by
    rw [show w = (w - 1) + 1 by omega, Nat.pow_succ]; simp; omega
  have hand : v &&& 2 ^ (w - 1) = if v < 2 ^ (w - 1) then 0 else 2 ^ (w - 1) := by
    rw [and_two_pow]
    have htb : v.testBit (w - 1) = decide (¬ v < 2 ^ (w - 1)) := by
      rw [Nat.testBit_eq_decide_div_mod_eq]
      by_cases c : v < 2 ^ (w - 1)
      · simp [c, Nat.div_eq_of_lt c]
      · have : v / 2 ^ (w - 1) = 1 := by
          apply Nat.div_eq_of_lt_le <;> omega
        simp [c, this]
    rw [htb]
    by_cases c : v < 2 ^ (w - 1) <;> simp [c]
  rw [hand]
  by_cases c : v < 2 ^ (w - 1)
  · simp [c, Nat.mod_eq_of_lt c]
  · have hm : v % 2 ^ (w - 1) = v - 2 ^ (w - 1) := by
      rw [Nat.mod_eq_sub_mod (by omega), Nat.mod_eq_of_lt (by omega)]
    simp only [c, if_false, hm]
    rw [Int.natCast_sub (by omega : 2 ^ (w - 1) ≤ v), hw2]
    push_cast
    omega

/-- **`val_to_signed_integer` inverts the signed encoding** produced for a negative value. -/
theorem signed_roundtrip_neg (v : Int) (w : Nat) (hv : v < 0) (hw : 1 ≤ w)
    (hr : (-(2 ^ (w - 1) : Nat) : Int) ≤ v) :
    ∃ n : Nat, convertInt v (w : Int) true = some ((n : Int), (w : Int)) ∧
      valToSigned (n : Int) (w : Int) = some v := by
  have hpos : (0 : Int) < ((2 ^ w : Nat) : Int) := by exact_mod_cast Nat.two_pow_pos w
  have hw2 : 2 ^ w = 2 * 2 ^ (w - 1) := by
    rw [show w = (w - 1) + 1 by omega, Nat.pow_succ]; simp; omega
  have hmod : v % ((2 ^ w : Nat) : Int) = v + ((2 ^ w : Nat) : Int) := by
    have := (@Int.ediv_emod_unique v ((2 ^ w : Nat) : Int) (v + ((2 ^ w : Nat) : Int)) (-1) hpos).mpr
      ⟨by rw [Int.mul_neg, Int.mul_one]; omega, by push_cast [hw2] at hr ⊢; omega, by omega⟩
    exact this.2
  refine ⟨(v + ((2 ^ w : Nat) : Int)).toNat, ?_, ?_⟩
  · rw [infer_negative_accepts_iff v w hv hw true, if_pos hr, hmod, Int.toNat_of_nonneg]
    push_cast [hw2] at hr ⊢; omega
  · have hn : ((v + ((2 ^ w : Nat) : Int)).toNat : Int) = v + ((2 ^ w : Nat) : Int) :=
      Int.toNat_of_nonneg (by push_cast [hw2] at hr ⊢; omega)
    have hlt : (v + ((2 ^ w : Nat) : Int)).toNat < 2 ^ w := by
      have : ((v + ((2 ^ w : Nat) : Int)).toNat : Int) < ((2 ^ w : Nat) : Int) := by rw [hn]; omega
      exact_mod_cast this
    rw [val_to_signed_spec _ w hw hlt]
    have hge : ¬ (v + ((2 ^ w : Nat) : Int)).toNat < 2 ^ (w - 1) := by
      intro h
      have : ((v + ((2 ^ w : Nat) : Int)).toNat : Int) < ((2 ^ (w - 1) : Nat) : Int) := by exact_mod_cast h
      rw [hn] at this
      push_cast [hw2] at hr this; omega
    simp only [hge, if_false, hn]
    congr 1; omega

-- the boundary the statement names: the most negative value of a width is accepted, one below is not
example : convertInt (-8) 4 false = some (8, 4) := by decide
example : convertInt (-9) 4 true = none := by decide
example : convertInt 3 2 true = none := by decide
example : valToSigned 255 8 = some (-1) := by decide

end Pyrtl.C16
