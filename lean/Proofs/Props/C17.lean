import Model.Graph.Analysis
import Proofs.Lemmas.EvalOrder
/-!
# C17 — timing, path and fan-out analyses equal their graph-theoretic definitions

`Analysis.timingMap` follows `_generate_timing_map`; `Analysis.Reach δ nets w d` says: there is a
register-free path from a source (a wire no net of `nets` drives: Input, Const, Register) to `w` whose
gate delays sum to `d`.
-/
namespace Pyrtl.C17
open Pyrtl Pyrtl.Analysis

theorem le_foldl_max (l : List Nat) (init x : Nat) (h : x ∈ l ∨ x ≤ init) : x ≤ l.foldl max init := by
  induction l generalizing init with
  | nil =>
    rcases h with h | h
    · simp at h
    · exact h
  | cons y ys ih =>
    simp only [List.foldl_cons]
    apply ih
    rcases h with h | h
    · rcases List.mem_cons.mp h with rfl | h'
      · right; exact Nat.le_max_right _ _
      · left; exact h'
    · right; exact Nat.le_trans h (Nat.le_max_left _ _)

theorem foldl_max_mem (l : List Nat) (init : Nat) : l.foldl max init = init ∨ l.foldl max init ∈ l := by
  induction l generalizing init with
  | nil => left; rfl
  | cons y ys ih =>
    simp only [List.foldl_cons]
    rcases ih (max init y) with h | h
    · rw [h]
      by_cases c : init ≤ y
      · right; simp [Nat.max_eq_right c]
      · left; exact Nat.max_eq_left (by omega)
    · right; exact List.mem_cons_of_mem _ h

/-- **No path is longer than the wire's timing** (for any valuation consistent with the timing
    equations: sources at 0, every destination = max of its arguments + gate delay). -/
theorem timing_upper_bound (δ : Net → Nat) (nets : List Net) (v : Env)
    (hc : Consistent (delayFun δ) nets (fun _ => 0) v) :
    ∀ w d, Reach δ nets w d → d ≤ v w := by
  intro w d h
  induction h with
  | src w hw => simp
  | step n hn a ha d _ ih =>
    rw [hc.1 n hn]
    simp only [delayFun]
    have : v a ≤ (n.args.map v).foldl max 0 := le_foldl_max _ 0 _ (Or.inl (List.mem_map.mpr ⟨a, ha, rfl⟩))
    omega

theorem attained_aux (δ : Net → Nat) (all : List Net) (v : Env)
    (hc : Consistent (delayFun δ) all (fun _ => 0) v) (hne : ∀ n ∈ all, n.args ≠ []) :
    ∀ (ns : List Net) (done : List Nat), (∀ n ∈ ns, n ∈ all) → Topo all ns done →
      (∀ w ∈ done, Reach δ all w (v w)) → ∀ n ∈ ns, Reach δ all n.dest (v n.dest) := by
  intro ns
  induction ns with
  | nil => intro _ _ _ _ n hn; simp at hn
  | cons m ms ih =>
    intro done hsub htopo hdone n hn
    obtain ⟨hargs, _, hrest⟩ := htopo
    have hm_all : m ∈ all := hsub m (by simp)
    have hm : Reach δ all m.dest (v m.dest) := by
      rw [hc.1 m hm_all]
      simp only [delayFun]
      rcases foldl_max_mem (m.args.map v) 0 with h0 | hmem
      · -- all arguments are at 0: take any argument
        obtain ⟨a, ha⟩ := List.exists_mem_of_ne_nil _ (hne m hm_all)
        have hva : v a = 0 := by
          have := le_foldl_max (m.args.map v) 0 (v a) (Or.inl (List.mem_map.mpr ⟨a, ha, rfl⟩))
          omega
        have hr : Reach δ all a (v a) := by
          rcases hargs a ha with hd | hsrc
          · exact hdone a hd
          · rw [hva]; exact Reach.src a hsrc
        rw [h0, ← hva]
        exact Reach.step m hm_all a ha (v a) hr
      · obtain ⟨a, ha, hav⟩ := List.mem_map.mp hmem
        have hr : Reach δ all a (v a) := by
          rcases hargs a ha with hd | hsrc
          · exact hdone a hd
          · have : v a = 0 := hc.2 a hsrc
            rw [this]; exact Reach.src a hsrc
        rw [← hav]
        exact Reach.step m hm_all a ha (v a) hr
    rcases List.mem_cons.mp hn with rfl | hn'
    · exact hm
    · exact ih (m.dest :: done) (fun k hk => hsub k (by simp [hk])) hrest
        (by intro w hw; rcases List.mem_cons.mp hw with rfl | hw'
            · exact hm
            · exact hdone w hw') n hn'

/-- **`timing_map` is the longest-path length**: for every dependency order of the combinational
    nets (whichever way `Block.__iter__` broke ties), every net destination's timing is attained by a
    register-free path from a source and exceeded by none. -/
theorem timing_map_eq_longest_path (δ : Net → Nat) (order : List Net) (htopo : isTopo order = true)
    (hne : ∀ n ∈ order, n.args ≠ []) (n : Net) (hn : n ∈ order) :
    Reach δ order n.dest (timingMap δ order n.dest) ∧
    ∀ d, Reach δ order n.dest d → d ≤ timingMap δ order n.dest := by
  have ht := isTopo_sound order htopo
  have hc : Consistent (delayFun δ) order (fun _ => 0) (timingMap δ order) :=
    evalSeq_consistent _ order _ ht
  exact ⟨attained_aux δ order _ hc hne order [] (fun _ h => h) ht (by simp) n hn,
         fun d h => timing_upper_bound δ order _ hc _ d h⟩

/-- and it does not depend on which dependency order was used -/
theorem timing_map_order_independent (δ : Net → Nat) (o1 o2 : List Net)
    (hp : ∀ n, n ∈ o1 ↔ n ∈ o2) (h1 : isTopo o1 = true) (h2 : isTopo o2 = true) :
    ∀ w, timingMap δ o1 w = timingMap δ o2 w :=
  eval_any_topo_order _ o1 o2 _ hp (isTopo_sound o1 h1) (isTopo_sound o2 h2)

/-- **`max_length` is the largest timing**: it bounds every listed wire and is attained by one. -/
theorem max_length_is_max (t : Nat → Nat) (wires : List Nat) :
    (∀ w ∈ wires, t w ≤ maxLength t wires) ∧ (maxLength t wires = 0 ∨ ∃ w ∈ wires, t w = maxLength t wires) := by
  constructor
  · intro w hw
    exact le_foldl_max _ 0 _ (Or.inl (List.mem_map.mpr ⟨w, hw, rfl⟩))
  · rcases foldl_max_mem (wires.map t) 0 with h | h
    · left; exact h
    · right
      obtain ⟨w, hw, e⟩ := List.mem_map.mp h
      exact ⟨w, hw, e⟩

/-- **fanout** counts net argument positions (a wire used twice by one net counts twice) -/
theorem fanout_eq_arg_positions (nets : List Net) (w : Nat) :
    fanout nets w = (nets.map fun n => n.args.count w).sum := by
  induction nets with
  | nil => rfl
  | cons n ns ih =>
    simp only [fanout, List.flatMap_cons, List.count_append, List.map_cons, List.sum_cons] at ih ⊢
    rw [ih]

example : fanout [⟨.and, [3, 3], [4]⟩, ⟨.inv, [3], [5]⟩] 3 = 3 := by decide

end Pyrtl.C17
