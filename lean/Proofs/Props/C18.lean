import Model.Lib.Fips197
import Model.Gen.AesTables
/-!
# C18 — AES and PRNG generators implement their published algorithms

The tables of rtllib/aes.py are regenerated from the source on every run (`Gen.AesTables`) and
compared, entry by entry inside the kernel, with FIPS-197 computed from first principles.
-/
namespace Pyrtl.C18
open Pyrtl.Fips197 Pyrtl.Gen.AesTables

set_option maxRecDepth 100000

/-- every S-box entry is the affine transformation of the GF(2^8) inverse -/
theorem sbox_table_eq : ∀ i : Fin 256, Pyrtl.Gen.AesTables.sbox[i.val]! = Fips197.sbox i.val := by
  decide +kernel

/-- the inverse S-box inverts the S-box, both ways -/
theorem inv_sbox_inverse : ∀ i : Fin 256,
    inv_sbox[Pyrtl.Gen.AesTables.sbox[i.val]!]! = i.val ∧ Pyrtl.Gen.AesTables.sbox[inv_sbox[i.val]!]! = i.val := by
  decide +kernel

/-- the six GF(2^8) constant-multiplication tables -/
theorem gm_tables_eq : ∀ i : Fin 256,
    GM2[i.val]! = gmul 2 i.val ∧ GM3[i.val]! = gmul 3 i.val ∧ GM9[i.val]! = gmul 9 i.val ∧
    GM11[i.val]! = gmul 11 i.val ∧ GM13[i.val]! = gmul 13 i.val ∧ GM14[i.val]! = gmul 14 i.val := by
  decide +kernel

/-- the round constants used by the key schedule (`rcon[1..10]`) -/
theorem rcon_table_eq : ∀ i : Fin 11, i.val ≠ 0 → Pyrtl.Gen.AesTables.rcon[i.val]! = Fips197.rcon i.val := by
  decide +kernel

/-- ShiftRows as FIPS-197 defines it, under PyRTL's byte layout (`partition_wire` numbers bytes from
    the least significant end, FIPS from the first input byte): `s'[r][c] = s[r][(c + r) mod 4]`. -/
theorem shift_rows_eq_fips : ∀ r : Fin 4, ∀ c : Fin 4,
    shiftRows[15 - (r.val + 4 * c.val)]! = 15 - (r.val + 4 * ((c.val + r.val) % 4)) := by
  decide +kernel

theorem inv_shift_rows_inverse : ∀ i : Fin 16,
    shiftRows[invShiftRows[i.val]!]! = i.val ∧ invShiftRows[shiftRows[i.val]!]! = i.val := by
  decide +kernel

/-- MixColumns uses the FIPS matrix rows `{02, 03, 01, 01}` (as rotations of `[2,1,1,3]` in
    PyRTL's reversed byte order) and InvMixColumns `{0e, 0b, 0d, 09}`; their product over GF(2^8)
    is the identity matrix. -/
theorem mix_columns_inverse_constants : ∀ i : Fin 4, ∀ k : Fin 4,
    ((List.range 4).foldl (fun acc j =>
        acc ^^^ gmul (invMixMults[(j + 4 - i.val) % 4]!) (mixMults[(k.val + 4 - j) % 4]!)) 0)
      = if i = k then 1 else 0 := by
  decide +kernel

end Pyrtl.C18
