import Model.Lib.Fips197
import Model.Gen.AesTables
import Proofs.Lemmas.Prng
/-!
# C18 — AES and PRNG generators implement their published algorithms

The tables of rtllib/aes.py are regenerated from the source on every run (`Gen.AesTables`) and
compared, entry by entry inside the kernel, with FIPS-197 computed from first principles.
-/
namespace Pyrtl.C18
open Pyrtl.Fips197 Pyrtl.Gen.AesTables

set_option maxRecDepth 100000

/-- every S-box entry is the affine transformation of the GF(2^8) inverse -/
theorem sbox_table_eq : ∀ i : Fin 256, Pyrtl.Gen.AesTables.sbox[i.val]! = Fips197.sbox i.val := by
  decide +kernel

/-- the inverse S-box inverts the S-box, both ways -/
theorem inv_sbox_inverse : ∀ i : Fin 256,
    inv_sbox[Pyrtl.Gen.AesTables.sbox[i.val]!]! = i.val ∧ Pyrtl.Gen.AesTables.sbox[inv_sbox[i.val]!]! = i.val := by
  decide +kernel

/-- the six GF(2^8) constant-multiplication tables -/
theorem gm_tables_eq : ∀ i : Fin 256,
    GM2[i.val]! = gmul 2 i.val ∧ GM3[i.val]! = gmul 3 i.val ∧ GM9[i.val]! = gmul 9 i.val ∧
    GM11[i.val]! = gmul 11 i.val ∧ GM13[i.val]! = gmul 13 i.val ∧ GM14[i.val]! = gmul 14 i.val := by
  decide +kernel

/-- the round constants used by the key schedule (`rcon[1..10]`) -/
theorem rcon_table_eq : ∀ i : Fin 11, i.val ≠ 0 → Pyrtl.Gen.AesTables.rcon[i.val]! = Fips197.rcon i.val := by
  decide +kernel

/-- ShiftRows as FIPS-197 defines it, under PyRTL's byte layout (`partition_wire` numbers bytes from
    the least significant end, FIPS from the first input byte): `s'[r][c] = s[r][(c + r) mod 4]`. -/
theorem shift_rows_eq_fips : ∀ r : Fin 4, ∀ c : Fin 4,
    shiftRows[15 - (r.val + 4 * c.val)]! = 15 - (r.val + 4 * ((c.val + r.val) % 4)) := by
  decide +kernel

theorem inv_shift_rows_inverse : ∀ i : Fin 16,
    shiftRows[invShiftRows[i.val]!]! = i.val ∧ invShiftRows[shiftRows[i.val]!]! = i.val := by
  decide +kernel

/-- MixColumns uses the FIPS matrix rows `{02, 03, 01, 01}` (as rotations of `[2,1,1,3]` in
    PyRTL's reversed byte order) and InvMixColumns `{0e, 0b, 0d, 09}`; their product over GF(2^8)
    is the identity matrix. -/
theorem mix_columns_inverse_constants : ∀ i : Fin 4, ∀ k : Fin 4,
    ((List.range 4).foldl (fun acc j =>
        acc ^^^ gmul (invMixMults[(j + 4 - i.val) % 4]!) (mixMults[(k.val + 4 - j) % 4]!)) 0)
      = if i = k then 1 else 0 := by
  decide +kernel

/-! ## `prng_lfsr`: the leap-ahead register equals the published LFSR under every load/req history

`Prng.lfsrStep` is one clock edge of the register-level model of the netlist (leap-ahead by `bitwidth`
concatenations, truncation by the register, `load` before `req`); it is compared with the real circuit
cycle by cycle on random load/req/seed histories by tools/checks/c18.py.  `Prng.step1` is one step of the
127-bit Fibonacci LFSR with taps 126/125 (in a register of `max 127 bitwidth` bits). -/
open Pyrtl.Prng in
/-- one clock edge: reseed on `load`, leap exactly `bitwidth` single LFSR steps on `req`, else hold -/
theorem lfsr_step_eq_spec (bw st seed : Nat) (load req : Bool) :
    lfsrStep bw st load req seed % 2 ^ regW bw = specStep bw st load req seed % 2 ^ regW bw := by
  unfold lfsrStep specStep
  split
  · rfl
  · split
    · rw [Nat.mod_mod, grow_mod _ (regW_ge bw)]
    · rfl

open Pyrtl.Prng in
/-- a register value stays inside the register -/
theorem lfsr_state_lt (bw st seed : Nat) (load req : Bool) (hst : st < 2 ^ regW bw) (hseed : seed < 2 ^ 127) :
    lfsrStep bw st load req seed < 2 ^ regW bw := by
  unfold lfsrStep
  split
  · exact lt_of_lt_of_le hseed (Nat.pow_le_pow_right (by decide) (regW_ge bw))
  · split
    · exact Nat.mod_lt _ (Nat.two_pow_pos _)
    · exact hst

open Pyrtl.Prng in
/-- **every history** of `(load, req, seed)` cycles from any register state: the model of the netlist and the
    published algorithm are in the same state after it -/
theorem lfsr_history_eq_spec (bw : Nat) (ins : List (Bool × Bool × Nat)) :
    ∀ st, st < 2 ^ regW bw → (∀ i ∈ ins, i.2.2 < 2 ^ 127) →
      ins.foldl (fun st i => lfsrStep bw st i.1 i.2.1 i.2.2) st =
      ins.foldl (fun st i => specStep bw st i.1 i.2.1 i.2.2) st := by
  induction ins with
  | nil => intros; rfl
  | cons i rest ih =>
    intro st hst hseed
    simp only [List.foldl_cons]
    have hlt := lfsr_state_lt bw st i.2.2 i.1 i.2.1 hst (hseed i (by simp))
    have heq : lfsrStep bw st i.1 i.2.1 i.2.2 = specStep bw st i.1 i.2.1 i.2.2 := by
      have h := lfsr_step_eq_spec bw st i.2.2 i.1 i.2.1
      rw [Nat.mod_eq_of_lt hlt] at h
      rw [h]
      apply Nat.mod_eq_of_lt
      unfold specStep
      split
      · exact lt_of_lt_of_le (hseed i (by simp)) (Nat.pow_le_pow_right (by decide) (regW_ge bw))
      · split
        · exact iter_step1_lt _ _ _ hst
        · exact hst
    rw [← heq]
    exact ih _ hlt (fun j hj => hseed j (List.mem_cons_of_mem _ hj))

open Pyrtl.Prng in
theorem iter_add (f : Nat → Nat) (a b x : Nat) : iter f a (iter f b x) = iter f (a + b) x := by
  induction a with
  | zero => simp [iter]
  | succ a ih => rw [Nat.succ_add]; simp only [iter, ih]

open Pyrtl.Prng in
/-- closed form: after a load of `S` (from any earlier state, a coinciding request being ignored), any
    sequence of cycles without load leaves the register at `S` advanced by `bitwidth` single steps per
    request pulse, whatever the idle cycles in between and whatever the seed input does meanwhile -/
theorem lfsr_after_load (bw S st0 : Nat) (r0 : Bool) (hS : S < 2 ^ 127) (ops : List (Bool × Nat)) :
    ops.foldl (fun st o => lfsrStep bw st false o.1 o.2) (lfsrStep bw st0 true r0 S) =
      iter (step1 (regW bw)) (bw * (ops.filter (·.1)).length) S := by
  have h0 : lfsrStep bw st0 true r0 S = S := by simp [lfsrStep]
  rw [h0]
  have hSW : S < 2 ^ regW bw := lt_of_lt_of_le hS (Nat.pow_le_pow_right (by decide) (regW_ge bw))
  suffices h : ∀ st, st < 2 ^ regW bw →
      ops.foldl (fun st o => lfsrStep bw st false o.1 o.2) st =
        iter (step1 (regW bw)) (bw * (ops.filter (·.1)).length) st from h S hSW
  induction ops with
  | nil => intro st _; simp [iter]
  | cons o rest ih =>
    intro st hst
    simp only [List.foldl_cons]
    cases ho : o.1 with
    | false =>
      have : lfsrStep bw st false false o.2 = st := by simp [lfsrStep]
      rw [this, ih st hst]
      simp [List.filter, ho]
    | true =>
      have hstep : lfsrStep bw st false true o.2 = iter (step1 (regW bw)) bw st := by
        simp only [lfsrStep, Bool.false_eq_true, if_false, if_true]
        rw [grow_mod _ (regW_ge bw)]
        exact Nat.mod_eq_of_lt (iter_step1_lt _ _ _ hst)
      rw [hstep, ih _ (iter_step1_lt _ _ _ hst), iter_add]
      simp [List.filter, ho, Nat.mul_succ]

-- satisfiable hypotheses / concrete instance: 5-bit output, seed 1, two requests
example : Prng.lfsrTrace 5 0 [(true, false, 2 ^ 126 + 1), (false, true, 0), (false, false, 0), (true, true, 3), (false, false, 0)]
    = [0, 1, 16, 16, 3] := by decide +kernel

end Pyrtl.C18
