import Mathlib.Tactic.Ring
import Mathlib.Tactic.NormNum
import Model.Lib.MatrixIndex
/-!
# C19 — rtllib Matrix: index arithmetic and width sufficiency

PARTIAL: the element-wise/reduction operations themselves are compared with integer-matrix
arithmetic on every run (tools/checks/c19.py); the theorems settle, for all shapes and widths, the
parts that are arithmetic on indices and bitwidths: where an element sits in the flattened
WireVector, the C/F-order index maps of reshape/flatten, and that the declared result widths of
`+`, `*` and `@` hold the exact value.
-/
namespace Pyrtl.C19

/-- **Layout**: `Matrix(value=wirevector)` puts the slice starting at `(j + i*columns)*bits` into
    element `[rows-1-i][columns-1-j]`; `to_wirevector` concatenates row-major, first element most
    significant.  Both give element `(I, J)` the bit offset `(rows*columns - 1 - (I*columns+J))*bits`,
    so converting to a WireVector and back is the identity. -/
theorem to_from_wirevector_offset (rows cols I J : Nat) (hI : I < rows) (hJ : J < cols) :
    (cols - 1 - J) + (rows - 1 - I) * cols = rows * cols - 1 - (I * cols + J) := by
  obtain ⟨r, rfl⟩ : ∃ r, rows = I + 1 + r := ⟨rows - I - 1, by omega⟩
  obtain ⟨c, rfl⟩ : ∃ c, cols = J + 1 + c := ⟨cols - J - 1, by omega⟩
  have h1 : I + 1 + r - 1 - I = r := by omega
  have h2 : J + 1 + c - 1 - J = c := by omega
  rw [h1, h2]
  have : (I + 1 + r) * (J + 1 + c) = r * (J + 1 + c) + (I * (J + 1 + c) + J) + c + 1 := by ring
  omega

/-- **C-order (row-major) flat index**: `k = i*columns + j` is a bijection with inverse
    `(k / columns, k % columns)` — used by `flatten`, `reshape`, `put`. -/
theorem c_order_index (cols i j : Nat) (hj : j < cols) :
    (i * cols + j) / cols = i ∧ (i * cols + j) % cols = j := by
  have hc : 0 < cols := by omega
  constructor
  · rw [Nat.add_comm, Nat.add_mul_div_right _ _ hc, Nat.div_eq_of_lt hj, Nat.zero_add]
  · rw [Nat.add_comm, Nat.add_mul_mod_self_right, Nat.mod_eq_of_lt hj]

theorem c_order_index_inv (cols k : Nat) (hc : 0 < cols) :
    (k / cols) * cols + k % cols = k ∧ k % cols < cols := by
  constructor
  · rw [Nat.mul_comm]; exact Nat.div_add_mod k cols
  · exact Nat.mod_lt k hc

/-- **F-order (column-major) flat index**: `k = j*rows + i` with inverse `(k % rows, k / rows)`. -/
theorem f_order_index (rows i j : Nat) (hi : i < rows) :
    (j * rows + i) % rows = i ∧ (j * rows + i) / rows = j :=
  ⟨(c_order_index rows j i hi).2, (c_order_index rows j i hi).1⟩

/-- a reshape keeps the flat position: element `(i, j)` of an `r×c` matrix lands at
    `(k / c', k % c')` of the `r'×c'` result with `k = i*c + j`, and every position of the result is
    hit exactly once when `r*c = r'*c'`. -/
theorem reshape_in_range (r c r' c' i j : Nat) (hi : i < r) (hj : j < c) (h : r * c = r' * c') (hc' : 0 < c') :
    (i * c + j) / c' < r' ∧ (i * c + j) % c' < c' := by
  have hk : i * c + j < r * c := by
    have : (i + 1) * c ≤ r * c := Nat.mul_le_mul_right _ hi
    rw [Nat.add_mul] at this; omega
  constructor
  · rw [Nat.div_lt_iff_lt_mul hc', ← h]; exact hk
  · exact Nat.mod_lt _ hc'

/-- **`+`: `max(bits)+1` bits hold the exact element sum.** -/
theorem width_exact_add (ba bb a b : Nat) (ha : a < 2 ^ ba) (hb : b < 2 ^ bb) :
    a + b < 2 ^ (max ba bb + 1) := by
  have h1 : a < 2 ^ max ba bb := Nat.lt_of_lt_of_le ha (Nat.pow_le_pow_right (by norm_num) (Nat.le_max_left _ _))
  have h2 : b < 2 ^ max ba bb := Nat.lt_of_lt_of_le hb (Nat.pow_le_pow_right (by norm_num) (Nat.le_max_right _ _))
  rw [Nat.pow_succ]; omega

/-- **element-wise / scalar `*`: `bits_a + bits_b` bits hold the exact product.** -/
theorem width_exact_mul (ba bb a b : Nat) (ha : a < 2 ^ ba) (hb : b < 2 ^ bb) :
    a * b < 2 ^ (ba + bb) := by
  rw [Nat.pow_add]; exact Nat.mul_lt_mul'' ha hb

/-- **`@`: a sum of `n` products of `ba`- and `bb`-bit values fits `n*n*(ba+bb)` bits** (the width
    `__matmul__` declares, with `n = self.columns = other.rows`), for every `n ≥ 1`. -/
theorem width_exact_matmul (n ba bb : Nat) (hn : 1 ≤ n) (hbits : 1 ≤ ba + bb) (terms : List Nat)
    (hlen : terms.length = n) (hterm : ∀ t ∈ terms, t < 2 ^ (ba + bb)) :
    terms.sum < 2 ^ (n * n * (ba + bb)) := by
  have hsum : ∀ (l : List Nat), (∀ t ∈ l, t < 2 ^ (ba + bb)) → l.sum ≤ l.length * (2 ^ (ba + bb) - 1) := by
    intro l
    induction l with
    | nil => intro _; simp
    | cons x xs ih =>
      intro h
      have hx := h x (by simp)
      have := ih (fun t ht => h t (by simp [ht]))
      simp only [List.sum_cons, List.length_cons, Nat.add_mul, Nat.one_mul]
      omega
  have h1 := hsum terms hterm
  rw [hlen] at h1
  have hP : 1 ≤ 2 ^ (ba + bb) := Nat.one_le_two_pow
  -- n * (P - 1) < n * P ≤ P^n ≤ P^(n*n)
  have h2 : n * (2 ^ (ba + bb) - 1) < n * 2 ^ (ba + bb) := by
    exact Nat.mul_lt_mul_of_pos_left (by omega) (by omega)
  have h3 : n * 2 ^ (ba + bb) ≤ 2 ^ (n * (ba + bb)) := by
    have hn2 : n ≤ 2 ^ (n - 1) := by
      have := Nat.lt_two_pow_self (n := n - 1)
      omega
    calc n * 2 ^ (ba + bb) ≤ 2 ^ (n - 1) * 2 ^ (ba + bb) := Nat.mul_le_mul_right _ hn2
      _ = 2 ^ (n - 1 + (ba + bb)) := by rw [← Nat.pow_add]
      _ ≤ 2 ^ (n * (ba + bb)) := by
        apply Nat.pow_le_pow_right (by norm_num)
        have : n * (ba + bb) = (n - 1) * (ba + bb) + (ba + bb) := by
          conv_lhs => rw [show n = (n - 1) + 1 by omega]
          ring
        rw [this]
        have : n - 1 ≤ (n - 1) * (ba + bb) := Nat.le_mul_of_pos_right _ (by omega)
        omega
  have h4 : 2 ^ (n * (ba + bb)) ≤ 2 ^ (n * n * (ba + bb)) := by
    apply Nat.pow_le_pow_right (by norm_num)
    apply Nat.mul_le_mul_right
    exact Nat.le_mul_of_pos_left n (by omega)
  omega

example : (1 * 3 + 2) / 3 = 1 ∧ (1 * 3 + 2) % 3 = 2 := by decide

/-! ### one cell addressed by an integer index (element access, `m[k, j] = v`) -/
section CellIndex
open Pyrtl.MatrixIndex

/-- every index `-n ≤ k < n` addresses exactly one cell, the `k`-th (from the end when negative) -/
theorem cell_slice_single (n : Nat) (k : Int) (h1 : -(n : Int) ≤ k) (h2 : k < n) :
    cellSlice n k = some (if k < 0 then k + n else k, (if k < 0 then k + n else k) + 1) := by
  unfold cellSlice checked normBound
  by_cases hk : k = -1
  · subst hk; simp; omega
  · by_cases hneg : k < 0
    · have : k + 1 < 0 := by omega
      simp [hk, hneg, this]; omega
    · have : ¬ (k + 1 < 0) := by omega
      simp [hk, hneg, this]; omega

/-- every other index is refused -/
theorem cell_slice_refused (n : Nat) (k : Int) (h : k < -(n : Int) ∨ (n : Int) ≤ k) : cellSlice n k = none := by
  unfold cellSlice checked normBound
  by_cases hk : k = -1
  · subst hk; simp; omega
  · by_cases hneg : k < 0
    · by_cases h1 : k + 1 < 0 <;> simp [hk, hneg, h1] <;> omega
    · have : ¬ (k + 1 < 0) := by omega
      simp [hk, hneg, this]; omega

/-- the defect repaired in 7a54e23: before it, the index -1 gave the empty slice `n-1 : 0` on every axis -/
theorem old_cell_slice_minus_one_empty (n : Nat) (hn : 1 ≤ n) : cellSliceOld n (-1) = some ((n : Int) - 1, 0) := by
  unfold cellSliceOld checked normBound
  simp; omega

example : cellSlice 4 (-1) = some (3, 4) ∧ cellSlice 4 (-4) = some (0, 1) ∧ cellSlice 4 4 = none ∧ cellSlice 4 (-5) = none := by
  decide

end CellIndex

end Pyrtl.C19
