import Proofs.Props.C01
/-!
# C20 — exports are deterministic and read-only with respect to behaviour

PARTIAL by nature: process-level hash seeds and allocation order are runtime behaviour; the model
represents them as "the set is handed over as an arbitrary permutation of its elements".
Every emitter first sorts what it iterates (`_net_sorted`, `_name_sorted`,
`sorted(..., key=_trace_sort_key)`); Python's `sorted` is a stable merge sort.
-/
namespace Pyrtl.C20
open Pyrtl

/-- `sorted(l, key=key)` -/
def sortBy {α : Type} (key : α → Nat) (l : List α) : List α := l.mergeSort (fun a b => decide (key a ≤ key b))

/-- **Sorting by a key that is injective on the elements erases the iteration order**: whatever
    permutation of the set the hash seed / allocator produced, the sorted list is the same. -/
theorem sorted_perm_invariant {α : Type} (key : α → Nat) (l1 l2 : List α) (hp : l1.Perm l2)
    (hinj : ∀ a ∈ l1, ∀ b ∈ l1, key a = key b → a = b) :
    sortBy key l1 = sortBy key l2 := by
  unfold sortBy
  have htrans : ∀ a b c : α, decide (key a ≤ key b) = true → decide (key b ≤ key c) = true →
      decide (key a ≤ key c) = true := by
    intro a b c h1 h2; simp only [decide_eq_true_eq] at *; omega
  have htotal : ∀ a b : α, (decide (key a ≤ key b) || decide (key b ≤ key a)) = true := by
    intro a b; simp only [Bool.or_eq_true, decide_eq_true_eq]; omega
  have s1 := List.pairwise_mergeSort htrans htotal l1
  have s2 := List.pairwise_mergeSort htrans htotal l2
  have p1 := List.mergeSort_perm l1 (fun a b => decide (key a ≤ key b))
  have p2 := List.mergeSort_perm l2 (fun a b => decide (key a ≤ key b))
  apply List.Perm.eq_of_pairwise (le := fun a b => decide (key a ≤ key b) = true) _ s1 s2
    (p1.trans (hp.trans p2.symm))
  intro a b ha hb hab hba
  simp only [decide_eq_true_eq] at hab hba
  have ha1 : a ∈ l1 := p1.subset ha
  have hb1 : b ∈ l1 := hp.symm.subset (p2.subset hb)
  exact hinj a ha1 b hb1 (by omega)

/-- hence any text emitted from the sorted list is the same for every iteration order -/
theorem emit_perm_invariant {α : Type} (key : α → Nat) (emit : List α → String) (l1 l2 : List α)
    (hp : l1.Perm l2) (hinj : ∀ a ∈ l1, ∀ b ∈ l1, key a = key b → a = b) :
    emit (sortBy key l1) = emit (sortBy key l2) := by
  rw [sorted_perm_invariant key l1 l2 hp hinj]

/-- When two elements share a key (the situation of memory write ports sharing an enable wire
    before the `fix:` commit), the stable sort keeps their incoming order: the output depends on
    the permutation.  Witness. -/
theorem equal_keys_depend_on_order :
    sortBy (fun p : Nat × Nat => p.1) [(1, 10), (1, 20)] ≠ sortBy (fun p : Nat × Nat => p.1) [(1, 20), (1, 10)] := by
  unfold sortBy
  rw [List.mergeSort_of_pairwise (by simp), List.mergeSort_of_pairwise (by simp)]
  decide

/-- **Simulation traces do not depend on the iteration order of the block** (re-export of the
    order-independence theorem): any two dependency orders give every wire the same value. -/
theorem sim_trace_perm_invariant (b : Block) (st : State) (o1 o2 : List Net) (e : Env)
    (hp : ∀ n, n ∈ o1 ↔ n ∈ o2) (h1 : isTopo o1 = true) (h2 : isTopo o2 = true) :
    ∀ w, evalNets b st o1 e w = evalNets b st o2 e w :=
  C01.spec_order_independent b st o1 o2 e hp h1 h2

example : sortBy (fun n : Nat => n) [3, 1, 2] = sortBy (fun n : Nat => n) [2, 3, 1] :=
  sorted_perm_invariant _ _ _ (by decide) (by intro a _ b _ h; exact h)

end Pyrtl.C20
