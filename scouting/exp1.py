import pyrtl, io
from pyrtl import *
def run(block, n=4, **kw):
    sim = Simulation(block=block, tracer=SimulationTrace(block=block), **kw)
    for i in range(n):
        sim.step({})
    return dict((k, list(v)) for k,v in sim.tracer.trace.items())
# 1. reset_value through copy_block / synthesize
reset_working_block()
r = Register(4, 'r', reset_value=5)
o = Output(4, 'o')
r.next <<= r + 1
o <<= r
b0 = working_block()
print('orig', run(b0)['o'])
b1 = copy_block(b0, update_working_block=False)
print('copy', run(b1)['o'])
b2 = synthesize(update_working_block=False, block=b0)
print('synth', run(b2)['o'])
print('reg_map keys are orig?', [k is r for k in b2.reg_map])
# 2. mem_map keyed by original?
reset_working_block()
a = Input(2,'a'); o = Output(4,'o')
m = MemBlock(4,2,'m')
o <<= m[a]
m[a] <<= MemBlock.EnabledWrite(Const(3,4), Const(0,1))
b0 = working_block()
b2 = synthesize(update_working_block=False, block=b0)
print('mem_map keys', list(b2.mem_map.keys()), 'orig', m, [k is m for k in b2.mem_map])
try:
    sim = Simulation(block=b2, tracer=SimulationTrace(block=b2), memory_value_map={m:{0:7}})
    sim.step({'a':0}); print('synth mem read', sim.inspect('o'))
except Exception as e:
    print('ERR', type(e), e)
