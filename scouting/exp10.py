import pyrtl, random, itertools, sys
from pyrtl import *
random.seed(int(sys.argv[1]) if len(sys.argv)>1 else 0)
# random condition tree: node = ('with', pred_idx or 'otherwise', [children or assignments])
NP=4
def gen(depth, targets):
    items=[]
    n=random.randint(1,3)
    seen_other=False
    for _ in range(n):
        p = 'o' if (items and random.random()<0.3) else random.randrange(NP)
        body=[]
        for __ in range(random.randint(0,2)):
            body.append(('asg', random.choice(targets), random.randrange(1,8)))
        if depth>0 and random.random()<0.6:
            body.append(('sub', gen(depth-1, targets)))
        items.append((p, body))
    return items
def build(tree, preds, tg):
    for p, body in tree:
        ctx = otherwise if p=='o' else preds[p]
        with ctx:
            for b in body:
                if b[0]=='asg':
                    t=tg[b[1]]
                    if isinstance(t, Register): t.next |= b[2]
                    elif isinstance(t, MemBlock): t[Const(1,2)] |= Const(b[2],3)
                    else: t |= b[2]
                else: build(b[1], preds, tg)
def interp(tree, pv, acc, active=True):
    taken=False
    for p, body in tree:
        if p=='o':
            cond = active and not taken
            mine = cond
            taken_reset=True
        else:
            mine = active and (not taken) and pv[p]==1
        if p=='o':
            taken=False  # reset chain after otherwise
        elif mine: taken=True
        for b in body:
            if b[0]=='asg':
                if mine: acc.setdefault(b[1],[]).append(b[2])
            else: interp(b[1], pv, acc, mine)
    return acc
bad=0
for t in range(int(sys.argv[2]) if len(sys.argv)>2 else 200):
    reset_working_block()
    preds=[Input(1,'p%d'%k) for k in range(NP)]
    w=WireVector(3,'w'); r=Register(3,'r'); m=MemBlock(3,2,'m')
    _dummy=Output(3,'dummyw')
    tg={'w':w,'r':r,'m':m}
    tree=gen(2, ['w','r','m'])
    try:
        with conditional_assignment:
            build(tree, preds, tg)
        rejected=False
    except PyrtlError as e:
        rejected=True
    # determine expected rejection: exists valuation with two active assigns to same target? (semantic)  The property is syntactic; compare semantic conflict => must be rejected
    sem_conflict=False
    for pv in itertools.product([0,1],repeat=NP):
        acc=interp(tree,pv,{})
        if any(len(v)>1 for v in acc.values()): sem_conflict=True
    if sem_conflict and not rejected:
        print('ACCEPTED CONFLICT', tree); bad+=1; continue
    if rejected: continue
    used=set()
    def coll(tr):
        for p,b in tr:
            for x in b:
                if x[0]=='asg': used.add(x[1])
                else: coll(x[1])
    coll(tree)
    if 'w' not in used: w <<= Const(0,3)
    _dummy <<= w
    ow=Output(3,'ow'); ow <<= w
    orr=Output(3,'or_'); orr <<= r
    if 'r' not in used: r.next <<= r
    om=Output(3,'om'); om <<= m[Const(1,2)]
    try:
        sim=Simulation()
    except PyrtlError as e:
        print('SIM EXC', e, tree); bad+=1; continue
    rv=0; mv=0
    for cyc in range(6):
        pv=[random.randrange(2) for _ in range(NP)]
        sim.step({'p%d'%k:pv[k] for k in range(NP)})
        acc=interp(tree,pv,{})
        ew = acc['w'][0] if 'w' in acc else 0
        if sim.inspect('ow')!=ew or sim.inspect('or_')!=rv or sim.inspect('om')!=mv:
            print('MISMATCH', tree, pv, 'w',sim.inspect('ow'),ew,'r',sim.inspect('or_'),rv,'m',sim.inspect('om'),mv); bad+=1; break
        if 'r' in acc: rv=acc['r'][0]
        if 'm' in acc: mv=acc['m'][0]
print('bad',bad)
