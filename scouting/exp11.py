import pyrtl, io
from pyrtl import *
for cls in (Simulation, FastSimulation, CompiledSimulation):
    reset_working_block()
    a = Input(2,'a'); o = Output(4,'o'); r = Register(4,'r'); m = MemBlock(4,2,'m')
    r.next <<= r + 1
    o <<= m[a] ^ r
    m[a] <<= MemBlock.EnabledWrite(r, Const(0,1))
    sim = cls(register_value_map={r: 9}, memory_value_map={m: {1: 5}})
    sim.step({'a': 1})
    print(cls.__name__, 'o=', sim.inspect('o'))
    f = io.StringIO()
    output_verilog_testbench(f, sim.tracer, vcd=None)
    print([l.strip() for l in f.getvalue().splitlines() if 'block.' in l])
