import pyrtl, io, contextlib
from pyrtl import *
def mk():
    reset_working_block()
    a=Input(4,'a'); b=Input(4,'b'); o=Output(5,'o'); r=Register(4,'r'); m=MemBlock(4,4,'m')
    t=a+b; o<<=t; r.next<<=a&b; o2=Output(4,'o2'); o2<<=r ^ m[a]
    m[b] <<= a
    return dict(a=a,b=b,o=o,r=r,m=m,t=t,o2=o2)
def chk(name, mut):
    d=mk(); blk=working_block()
    try:
        mut(d, blk)
    except Exception as e:
        print('%-32s rejected at construction: %s' % (name, type(e).__name__)); return
    res=[]
    for what, f in [('sanity', lambda: blk.sanity_check()), ('Sim', lambda: Simulation(block=blk, tracer=SimulationTrace(block=blk))), ('Fast', lambda: FastSimulation(block=blk, tracer=SimulationTrace(block=blk))), ('Comp', lambda: CompiledSimulation(block=blk, tracer=SimulationTrace(block=blk)))]:
        try:
            with contextlib.redirect_stdout(io.StringIO()):
                f()
            res.append(what+':ACCEPT')
        except (PyrtlError, PyrtlInternalError) as e: res.append(what+':'+type(e).__name__[5:])
        except Exception as e: res.append(what+':OTHER-'+type(e).__name__)
    print('%-32s %s' % (name, ' '.join(res)))
def raw(blk, net): blk.logic.add(net)
W=WireVector
chk('baseline', lambda d,b: None)
chk('two drivers', lambda d,b: raw(b, LogicNet('w',None,(d['a'],),(d['t'],))))
def undriven(d,b):
    w=W(4,'und'); x=W(4,'x'); raw(b, LogicNet('~',None,(w,),(x,))); o=Output(4,'o3'); raw(b, LogicNet('w',None,(x,),(o,)))
chk('read but undriven', undriven)
chk('declared unconnected', lambda d,b: W(3,'lonely'))
def otherblock(d,b):
    nb=Block(); w=W(4,'alien',block=nb); x=W(4,'x'); raw(b, LogicNet('~',None,(w,),(x,))); o=Output(4,'o3'); raw(b, LogicNet('w',None,(x,),(o,)))
chk('wire of another block', otherblock)
def arity(d,b):
    x=W(4,'x'); raw(b, LogicNet('&',None,(d['a'],),(x,))); o=Output(4,'o3'); raw(b, LogicNet('w',None,(x,),(o,)))
chk('wrong arity &', arity)
def bw(d,b):
    c=Input(3,'c'); x=W(4,'x'); raw(b, LogicNet('&',None,(d['a'],c),(x,))); o=Output(4,'o3'); raw(b, LogicNet('w',None,(x,),(o,)))
chk('mismatched bitwidth &', bw)
def destwide(d,b):
    x=W(9,'x'); raw(b, LogicNet('+',None,(d['a'],d['b']),(x,))); o=Output(9,'o3'); raw(b, LogicNet('w',None,(x,),(o,)))
chk('dest too wide +', destwide)
def destwide_mul(d,b):
    x=W(9,'x'); raw(b, LogicNet('*',None,(d['a'],d['b']),(x,))); o=Output(9,'o3'); raw(b, LogicNet('w',None,(x,),(o,)))
chk('dest too wide *', destwide_mul)
def cmpdest(d,b):
    x=W(2,'x'); raw(b, LogicNet('<',None,(d['a'],d['b']),(x,))); o=Output(2,'o3'); raw(b, LogicNet('w',None,(x,),(o,)))
chk('cmp dest 2 bits', cmpdest)
def selparam(d,b):
    x=W(2,'x'); raw(b, LogicNet('s',(1,7),(d['a'],),(x,))); o=Output(2,'o3'); raw(b, LogicNet('w',None,(x,),(o,)))
chk('select index out of range', selparam)
def selneg(d,b):
    x=W(2,'x'); raw(b, LogicNet('s',(1,-1),(d['a'],),(x,))); o=Output(2,'o3'); raw(b, LogicNet('w',None,(x,),(o,)))
chk('select index negative', selneg)
def opparam(d,b):
    x=W(4,'x'); raw(b, LogicNet('&',5,(d['a'],d['b']),(x,))); o=Output(4,'o3'); raw(b, LogicNet('w',None,(x,),(o,)))
chk('op_param not None', opparam)
def muxsel(d,b):
    x=W(4,'x'); raw(b, LogicNet('x',None,(d['a'],d['a'],d['b']),(x,))); o=Output(4,'o3'); raw(b, LogicNet('w',None,(x,),(o,)))
chk('mux select 4 bits', muxsel)
def muxargs(d,b):
    c=Input(3,'c'); s=Input(1,'s'); x=W(3,'x'); raw(b, LogicNet('x',None,(s,d['a'],c),(x,))); o=Output(3,'o3'); raw(b, LogicNet('w',None,(x,),(o,)))
chk('mux args mismatched', muxargs)
def in_dest(d,b): raw(b, LogicNet('w',None,(d['b'],),(d['a'],)))
chk('Input as dest', in_dest)
def const_dest(d,b):
    c=Const(3,4); raw(b, LogicNet('w',None,(d['b'],),(c,)))
chk('Const as dest', const_dest)
def out_arg(d,b):
    o=Output(5,'o3'); raw(b, LogicNet('w',None,(d['o'],),(o,)))
chk('Output as arg', out_arg)
def dup(d,b):
    w=W(4,'tmpdup'); w2=W(4,'tmpdup2'); w2._name='tmpdup'; raw(b, LogicNet('w',None,(d['a'],),(w,))); raw(b, LogicNet('w',None,(d['a'],),(w2,)))
    o=Output(4,'o3'); raw(b, LogicNet('&',None,(w,w2),(o,)))
chk('duplicate names', dup)
def loop(d,b):
    x=W(4,'x'); y=W(4,'y'); raw(b, LogicNet('&',None,(d['a'],y),(x,))); raw(b, LogicNet('~',None,(x,),(y,))); o=Output(4,'o3'); raw(b, LogicNet('w',None,(y,),(o,)))
chk('comb loop', loop)
def memloop(d,b):
    mm=MemBlock(4,4,'mm',asynchronous=True); x=W(4,'x'); raw(b, LogicNet('m',(mm.id,mm),(x,),(x,)))
    o=Output(4,'o3'); raw(b, LogicNet('w',None,(x,),(o,)))
chk('comb loop through mem read', memloop)
def regdest(d,b):
    x=W(4,'x'); raw(b, LogicNet('r',None,(d['a'],),(x,))); o=Output(4,'o3'); raw(b, LogicNet('w',None,(x,),(o,)))
chk('r dest not Register', regdest)
def memaddr(d,b):
    c=Input(3,'c'); x=W(4,'x'); raw(b, LogicNet('m',(d['m'].id,d['m']),(c,),(x,))); o=Output(4,'o3'); raw(b, LogicNet('w',None,(x,),(o,)))
chk('mem addr width mismatch', memaddr)
def memdata(d,b):
    x=W(3,'x'); raw(b, LogicNet('m',(d['m'].id,d['m']),(d['a'],),(x,))); o=Output(3,'o3'); raw(b, LogicNet('w',None,(x,),(o,)))
chk('mem read dest width mismatch', memdata)
def memwdata(d,b):
    c=Input(3,'c'); e=Input(1,'e'); raw(b, LogicNet('@',(d['m'].id,d['m']),(d['a'],c,e),()))
chk('mem write data width mismatch', memwdata)
def memwen(d,b):
    raw(b, LogicNet('@',(d['m'].id,d['m']),(d['a'],d['b'],d['a']),()))
chk('mem write enable 4 bits', memwen)
def memwdest(d,b):
    e=Input(1,'e'); x=W(4,'x'); raw(b, LogicNet('@',(d['m'].id,d['m']),(d['a'],d['b'],e),(x,))); o=Output(4,'o3'); raw(b, LogicNet('w',None,(x,),(o,)))
chk('mem write with dest', memwdest)
def concatwide(d,b):
    x=W(9,'x'); raw(b, LogicNet('c',None,(d['a'],d['b']),(x,))); o=Output(9,'o3'); raw(b, LogicNet('w',None,(x,),(o,)))
chk('concat dest too wide', concatwide)
def notwide(d,b):
    x=W(5,'x'); raw(b, LogicNet('~',None,(d['a'],),(x,))); o=Output(5,'o3'); raw(b, LogicNet('w',None,(x,),(o,)))
chk('~ dest wider', notwide)
def badop(d,b):
    x=W(4,'x'); raw(b, LogicNet('%',None,(d['a'],d['b']),(x,))); o=Output(4,'o3'); raw(b, LogicNet('w',None,(x,),(o,)))
chk('unknown op', badop)
def nobw(d,b):
    w=W(name='nobw'); raw(b, LogicNet('w',None,(d['a'],),(w,))); o=Output(4,'o3'); raw(b, LogicNet('w',None,(w,),(o,)))
chk('missing bitwidth', nobw)
def syncmem(d,b):
    ms=MemBlock(4,4,'ms'); o=Output(4,'o3'); o<<=ms[d['a']+d['b']][0:4]
chk('sync mem with comb addr', syncmem)
def notregistered(d,b):
    x=W(4,'x'); b.wirevector_set.discard(x); raw(b, LogicNet('~',None,(d['a'],),(x,))); 
chk('wire not in wirevector_set', notregistered)
