import pyrtl
from pyrtl import *
reset_working_block()
s=Input(1,'s'); a=Input(4,'a'); b=Input(4,'b'); x=WireVector(2,'x'); o=Output(2,'o')
working_block().add_net(LogicNet('x',None,(s,a,b),(x,)))
o <<= x
for cls in (Simulation, FastSimulation, CompiledSimulation):
    sim=cls(); sim.step({'s':1,'a':3,'b':15}); print(cls.__name__, sim.inspect('o'))
# register with narrower dest than arg via raw net
reset_working_block()
a=Input(4,'a'); r=Register(2,'r'); o=Output(2,'o')
working_block().add_net(LogicNet('r',None,(a,),(r,)))
o <<= r
for cls in (Simulation, FastSimulation, CompiledSimulation):
    sim=cls(); sim.step({'a':15}); sim.step({'a':15}); print(cls.__name__, sim.inspect('o'))
