import pyrtl, io, sys, random, itertools, contextlib
from pyrtl import *
# ---- C15: channels
def design():
    reset_working_block()
    a=Input(3,'a'); b=Input(70,'b'); r=Register(4,'r'); o=Output(71,'o'); p=Output(4,'p')
    r.next <<= r + a
    o <<= b + a
    p <<= r
    w = WireVector(3, 'we ird[0]'); w <<= a ^ 5
    q=Output(3,'q'); q <<= w
    return ['a','b'], ['o','p','q']
for cls in (Simulation, FastSimulation, CompiledSimulation):
    ins, outs = design()
    sim1 = cls(); sim2 = cls()
    steps = [{'a': random.randrange(8), 'b': random.getrandbits(70)} for _ in range(5)]
    for s in steps:
        sim1.step(dict(s))
        for o in outs + ins:
            if sim1.inspect(o) != sim1.tracer.trace[o][-1]: print('INSPECT!=TRACE', cls.__name__, o)
    f=io.StringIO()
    exp = {'p': [sim1.tracer.trace['p'][i] if i!=2 else (sim1.tracer.trace['p'][i]+1)%16 for i in range(5)], 'q': ['?']*5}
    sim2.step_multiple({k:[s[k] for s in steps] for k in ins}, exp, file=f)
    same = all(list(sim1.tracer.trace[o])==list(sim2.tracer.trace[o]) for o in outs)
    print(cls.__name__, 'step_multiple==steps', same, 'len', len(sim1.tracer), 'report:', f.getvalue().strip().splitlines()[-1] if f.getvalue() else None)
    v=io.StringIO(); sim1.tracer.print_vcd(v)
    t=io.StringIO(); sim1.tracer.print_trace(t, base=16)
    # parse vcd back
    vals={}; names={}; cur=None
    for line in v.getvalue().splitlines():
        if line.startswith('$var'):
            parts=line.split(); names[parts[3]]=int(parts[2])
        elif line.startswith('#'): cur=int(line[1:])
        elif line.startswith('b') and cur is not None:
            bits,name=line.split(); vals.setdefault(name,{})[cur]=int(bits[1:],2)
    print('  vcd names', sorted(names))
    for o in sim1.tracer.trace:
        pass
# rtl_assert timing
for cls in (Simulation, FastSimulation):
    reset_working_block()
    a=Input(2,'a'); o=Output(2,'o'); o<<=a
    class E(Exception): pass
    rtl_assert(a != 2, E('boom'))
    sim=cls(); seq=[1,3,0,2,1]; raised=None
    for i,x in enumerate(seq):
        try: sim.step({'a':x})
        except E: raised=i; break
    print(cls.__name__, 'assert raised at', raised, 'expected 3')
# ---- C17 quick
reset_working_block()
a=Input(4,'a'); b=Input(4,'b'); r=Register(5,'r'); o=Output(6,'o')
t=a+b; u=t&r; r.next<<=u; v=(t+r); o<<=v
ta=TimingAnalysis(gate_delay_funcs={'+':lambda w:3,'&':lambda w:1,'w':lambda w:0,'r':lambda w:-1,'s':lambda w:0,'c':lambda w:0})
print('timing', {w.name:tm for w,tm in ta.timing_map.items()}, ta.max_length())
with contextlib.redirect_stdout(io.StringIO()):
    cps=ta.critical_path()
print('cps', [(w.name,[n.op for n in p]) for w,p in cps])
print('fanout t', fanout(t), 'fanout a', fanout(a))
ps=paths(a,o)
print('paths a->o', [[n.op for n in p] for p in ps[a][o]])
ps=paths(r,r)
print('paths r->r', [[n.op for n in p] for p in ps[r][r]])
