import pyrtl, random, io, contextlib, sys
from pyrtl import *
from pyrtl.rtllib import aes, prngs
random.seed(3)
# --- AES roundtrip + FIPS vector + state machines
reset_working_block()
A=aes.AES()
pt=Input(128,'pt'); key=Input(128,'key'); rst=Input(1,'rst')
ct=Output(128,'ct'); ct<<=A.encryption(pt,key)
dt=Output(128,'dt'); dt<<=A.decryption(A.encryption(pt,key),key)
rdy,sm=A.encrypt_state_m(pt,key,rst); r1=Output(1,'r1'); r1<<=rdy; c1=Output(128,'c1'); c1<<=sm
sim=FastSimulation()
def aes_ref(pt,key):
    # minimal AES-128 reference
    sbox=aes.AES._sbox_data
    def xt(a): a<<=1; return (a^0x1b)&0xff if a&0x100 else a
    def kexp(k):
        w=[list(k[4*i:4*i+4]) for i in range(4)]
        rc=1
        for i in range(4,44):
            t=list(w[i-1])
            if i%4==0:
                t=t[1:]+t[:1]; t=[sbox[x] for x in t]; t[0]^=rc; rc=xt(rc)
            w.append([a^b for a,b in zip(w[i-4],t)])
        return [sum(w[4*r:4*r+4],[]) for r in range(11)]
    s=list(pt.to_bytes(16,'big')); ks=kexp(list(key.to_bytes(16,'big')))
    s=[a^b for a,b in zip(s,ks[0])]
    for rnd in range(1,11):
        s=[sbox[x] for x in s]
        s=[s[(i+4*(i%4))%16] for i in range(16)]
        if rnd!=10:
            n=[]
            for c in range(4):
                a=s[4*c:4*c+4]
                n+= [xt(a[0])^xt(a[1])^a[1]^a[2]^a[3], a[0]^xt(a[1])^xt(a[2])^a[2]^a[3], a[0]^a[1]^xt(a[2])^xt(a[3])^a[3], xt(a[0])^a[0]^a[1]^a[2]^xt(a[3])]
            s=n
        s=[a^b for a,b in zip(s,ks[rnd])]
    return int.from_bytes(bytes(s),'big')
assert aes_ref(0x00112233445566778899aabbccddeeff,0x000102030405060708090a0b0c0d0e0f)==0x69c4e0d86a7b0430d8cdb78070b4c55a
bad=0
for t in range(6):
    p=random.getrandbits(128); k=random.getrandbits(128)
    sim.step({'pt':p,'key':k,'rst':1})
    exp=aes_ref(p,k)
    if sim.inspect('ct')!=exp: print('AES ENC MISMATCH'); bad+=1
    if sim.inspect('dt')!=p: print('AES DEC MISMATCH', hex(sim.inspect('dt')), hex(p)); bad+=1
    readyat=None
    for cyc in range(1,13):
        sim.step({'pt':p,'key':k,'rst':0})
        if sim.inspect('r1') and readyat is None:
            readyat=cyc
            if sim.inspect('c1')!=exp: print('AES SM MISMATCH at', cyc); bad+=1
    if readyat is None: print('AES SM never ready'); bad+=1
print('aes bad', bad, 'ready at', readyat)
# decrypt state machine
reset_working_block()
A=aes.AES()
ctin=Input(128,'ct'); key=Input(128,'key'); rst=Input(1,'rst')
rdy,sm=A.decryption_statem(ctin,key,rst); r1=Output(1,'r1'); r1<<=rdy; p1=Output(128,'p1'); p1<<=sm
sim=FastSimulation()
for t in range(3):
    p=random.getrandbits(128); k=random.getrandbits(128); c=aes_ref(p,k)
    sim.step({'ct':c,'key':k,'rst':1}); ok=False
    for cyc in range(1,13):
        sim.step({'ct':c,'key':k,'rst':0})
        if sim.inspect('r1'):
            ok = sim.inspect('p1')==p; break
    print('dec statem ok', ok, 'cyc', cyc)
# --- PRNGs
def xoro_ref(s0,s1,n):
    M=(1<<64)-1; out=[]
    rotl=lambda x,k: ((x<<k)|(x>>(64-k)))&M
    for _ in range(n):
        out.append((s0+s1)&M)
        s1^=s0
        s0,s1 = rotl(s0,55)^s1^((s1<<14)&M), rotl(s1,36)
    return out
for bw in [1,7,64,65,100,128,129,200]:
    reset_working_block()
    load=Input(1,'load'); req=Input(1,'req'); seed=Input(128,'seed')
    rdy,rnd=prngs.prng_xoroshiro128(bw,load,req,seed)
    ro=Output(1,'rdy'); ro<<=rdy; rr=Output(bw,'rand'); rr<<=rnd
    sim=FastSimulation(); sd=random.getrandbits(128)|1
    sim.step({'load':1,'req':0,'seed':sd}); sim.step({'load':0,'req':1,'seed':sd})
    n=0
    while not sim.inspect('rdy') and n<20: sim.step({'load':0,'req':0,'seed':sd}); n+=1
    words=xoro_ref(sd&((1<<64)-1), sd>>64, (bw+63)//64)
    full=0
    for w in words: full=(full<<64)|w
    exp= full >> (64*len(words)-bw)
    print('xoro', bw, 'ok' if sim.inspect('rand')==exp else 'MISMATCH', 'cycles', n)
def lfsr_ref(state, steps, width):
    for _ in range(steps):
        bit=((state>>125)^(state>>126))&1
        state=((state<<1)|bit)&((1<<width)-1)
    return state
for bw in [1,5,64,127,128,200]:
    reset_working_block()
    load=Input(1,'load'); req=Input(1,'req'); seed=Input(127,'seed')
    rnd=prngs.prng_lfsr(bw,load,req,seed); rr=Output(bw,'rand'); rr<<=rnd
    sim=FastSimulation(); sd=random.getrandbits(127)|1
    sim.step({'load':1,'req':0,'seed':sd}); sim.step({'load':0,'req':1,'seed':sd}); sim.step({'load':0,'req':0,'seed':sd})
    width=127 if bw<127 else bw
    exp=lfsr_ref(sd,bw,width)&((1<<bw)-1)
    print('lfsr', bw, 'ok' if sim.inspect('rand')==exp else 'MISMATCH')
def trivium_ref(key80, iv80, nbits):
    # PyRTL convention: seed MSB first; a = key (80 bits, into 93-bit reg), b = iv, c = 111 0...0
    s=[0]*288
    kb=[(key80>>(79-i))&1 for i in range(80)]; ib=[(iv80>>(79-i))&1 for i in range(80)]
    return None
for bw,bpc in [(8,1),(64,64),(100,32),(128,64),(37,4)]:
    reset_working_block()
    load=Input(1,'load'); req=Input(1,'req'); seed=Input(160,'seed')
    rdy,rnd=prngs.csprng_trivium(bw,load,req,seed,bits_per_cycle=bpc)
    ro=Output(1,'rdy'); ro<<=rdy; rr=Output(bw,'rand'); rr<<=rnd
    sim=FastSimulation(); sd=random.getrandbits(160)
    # reference: simulate bit-serial version (bpc=1) circuit? use python model of the pyrtl state layout
    a=(sd>>80); b=sd&((1<<80)-1); c=7<<108
    def step(a,b,c):
        bit=lambda x,i:(x>>i)&1
        t1=bit(a,65)^bit(a,92); t2=bit(b,68)^bit(b,83); t3=bit(c,65)^bit(c,110)
        fa=t3^(bit(c,108)&bit(c,109))^bit(a,68); fb=t1^(bit(a,90)&bit(a,91))^bit(b,77); fc=t2^(bit(b,81)&bit(b,82))^bit(c,86)
        return ((a<<1)|fa)&((1<<93)-1), ((b<<1)|fb)&((1<<84)-1), ((c<<1)|fc)&((1<<111)-1), t1^t2^t3
    for _ in range(1152): a,b,c,_o=step(a,b,c)
    ncyc=-(-bw//bpc); out=0
    for _ in range(ncyc*bpc):
        a,b,c,o=step(a,b,c); out=(out<<1)|o
    exp=out&((1<<bw)-1)
    sim.step({'load':1,'req':0,'seed':sd}); n=0
    while not sim.inspect('rdy') and n<1300: sim.step({'load':0,'req':0,'seed':sd}); n+=1
    sim.step({'load':0,'req':1,'seed':sd}); m=0
    while not sim.inspect('rdy') and m<300: sim.step({'load':0,'req':0,'seed':sd}); m+=1
    print('trivium', bw, bpc, 'ok' if sim.inspect('rand')==exp else 'MISMATCH %x %x'%(sim.inspect('rand'),exp), 'init', n, 'gen', m)
