import sys, io, random, hashlib
noise = int(sys.argv[1])
junk=[]
def N():
    for _ in range(random.Random(noise+len(junk)).randrange(0, 5) if noise else 0): junk.append(object())
import pyrtl
from pyrtl import *
reset_working_block()
N(); a=Input(8,'a'); N(); b=Input(8,'b'); N(); c=Input(1,'c'); N()
r=Register(9,'r', reset_value=3); N()
m=MemBlock(8,3,'m', max_write_ports=2, asynchronous=True); N()
m2=MemBlock(8,3,'m2', asynchronous=True); N()
t=a+b; N(); u=(a*b)[:9]; N()
with conditional_assignment:
    with c:
        r.next |= t; N()
        m[a[:3]] |= b; N()
    with otherwise:
        r.next |= u; N()
we=c & a[0]; N()
m2[b[:3]] <<= MemBlock.EnabledWrite(a, we); N()
m[b[:3]] <<= MemBlock.EnabledWrite(b, we); N()
o=Output(9,'o'); o<<= r ^ m[b[:3]] ^ m2[a[:3]]; N()
o2=Output(1,'o2'); o2 <<= (a<b) | (a==b); N()
sim=Simulation()
rnd=random.Random(5)
for i in range(6): sim.step({'a':rnd.randrange(256),'b':rnd.randrange(256),'c':rnd.randrange(2)})
out={}
f=io.StringIO(); output_to_verilog(f); out['verilog']=f.getvalue()
f=io.StringIO(); output_verilog_testbench(f, sim.tracer, vcd=None); out['tb']=f.getvalue()
f=io.StringIO(); sim.tracer.print_vcd(f); out['vcd']=f.getvalue()
f=io.StringIO(); sim.tracer.print_trace(f); out['trace']=f.getvalue()
f=io.StringIO(); output_to_firrtl(f); out['firrtl']=f.getvalue()
for k in sorted(out): print(k, hashlib.md5(out[k].encode()).hexdigest())
if len(sys.argv)>2: print(out[sys.argv[2]])
