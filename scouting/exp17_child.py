import sys, io, random, hashlib
noise = int(sys.argv[1]); junk=[]
def N():
    for _ in range(random.Random(noise+len(junk)).randrange(0, 5) if noise else 0): junk.append(object())
import pyrtl
from pyrtl import *
reset_working_block()
N(); a=Input(8,'a'); N(); b=Input(8,'b'); N(); c=Input(1,'c'); N()
m=MemBlock(8,3,'m', max_write_ports=4, asynchronous=True); N()
m[a[:3]] <<= MemBlock.EnabledWrite(b, c); N()
m[b[:3]] <<= MemBlock.EnabledWrite(a, c); N()
m[(a^b)[:3]] <<= MemBlock.EnabledWrite(a|b, c); N()
o=Output(8,'o'); o<<= m[b[:3]]; N()
f=io.StringIO(); output_to_verilog(f)
print(hashlib.md5(f.getvalue().encode()).hexdigest())
