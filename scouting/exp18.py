import pyrtl, random, itertools, io, contextlib
from pyrtl import *
from pyrtl.rtllib import matrix as M
random.seed(2)
def run(build, shapes_bits, spec, name):
    reset_working_block()
    ins=[]; mats=[]
    for k,(r,c,b) in enumerate(shapes_bits):
        i=Input(r*c*b,'i%d'%k); ins.append(i); mats.append(M.Matrix(r,c,b,value=i))
    try:
        res=build(*mats)
    except Exception as e:
        print('BUILD EXC', name, shapes_bits, type(e).__name__, str(e)[:100]); return
    if isinstance(res, M.Matrix):
        o=Output(len(res),'o'); o<<=res.to_wirevector(); rr,cc,bb=res.rows,res.columns,res.bits
    else:
        res=as_wires(res); o=Output(len(res),'o'); o<<=res; rr=cc=1; bb=len(res)
    sim=FastSimulation()
    for t in range(40):
        vals=[[[random.choice([0,1,(1<<b)-1,random.getrandbits(b)]) for _ in range(c)] for _ in range(r)] for (r,c,b) in shapes_bits]
        inp={}
        for k,((r,c,b),v) in enumerate(zip(shapes_bits,vals)):
            x=0
            for row in v:
                for e in row: x=(x<<b)|e
            inp['i%d'%k]=x
        sim.step(inp)
        got=sim.inspect('o')
        gm=[[ (got>>(bb*((rr-1-i)*cc+(cc-1-j))))&((1<<bb)-1) for j in range(cc)] for i in range(rr)]
        exp=spec(*vals)
        if not isinstance(exp,list): exp=[[exp]]
        em=[[e%(1<<bb) for e in row] for row in exp]
        exact = all(e<(1<<bb) for row in exp for e in row)
        if gm!=em:
            print('MISMATCH', name, shapes_bits, vals, 'got', gm, 'exp', em, 'bits', bb); return
        if not exact and name in ('add','mul','matmul'):
            print('NOT EXACT', name, shapes_bits, 'bits', bb, exp); return
for r,c in [(1,1),(2,2),(2,3),(3,1),(1,4)]:
  for ba,bb_ in [(1,1),(2,3),(4,4),(3,1),(8,8)]:
    run(lambda a,b:a+b, [(r,c,ba),(r,c,bb_)], lambda a,b:[[x+y for x,y in zip(ra,rb)] for ra,rb in zip(a,b)], 'add')
    run(lambda a,b:a-b, [(r,c,ba),(r,c,bb_)], lambda a,b:[[max(x-y,0) for x,y in zip(ra,rb)] for ra,rb in zip(a,b)], 'sub')
    run(lambda a,b:a*b, [(r,c,ba),(r,c,bb_)], lambda a,b:[[x*y for x,y in zip(ra,rb)] for ra,rb in zip(a,b)], 'mul')
    run(lambda a,b:a@b, [(r,c,ba),(c,r,bb_)], lambda a,b:[[sum(a[i][k]*b[k][j] for k in range(len(b))) for j in range(len(b[0]))] for i in range(len(a))], 'matmul')
    run(lambda a:a.transpose(), [(r,c,ba)], lambda a:[list(x) for x in zip(*a)], 'transpose')
    run(lambda a:M.sum(a), [(r,c,ba)], lambda a:sum(sum(x) for x in a), 'sum')
    run(lambda a:M.sum(a,axis=0), [(r,c,ba)], lambda a:[[sum(col) for col in zip(*a)]], 'sum0')
    run(lambda a:M.sum(a,axis=1), [(r,c,ba)], lambda a:[[sum(row) for row in a]], 'sum1')
    run(lambda a:M.max(a), [(r,c,ba)], lambda a:max(max(x) for x in a), 'max')
    run(lambda a:M.min(a), [(r,c,ba)], lambda a:min(min(x) for x in a), 'min')
    run(lambda a:M.argmax(a), [(r,c,ba)], lambda a:(lambda fl: fl.index(max(fl)))([e for row in a for e in row]), 'argmax')
    run(lambda a:a.flatten(), [(r,c,ba)], lambda a:[[e for row in a for e in row]], 'flatten')
    run(lambda a:a.flatten(order='F'), [(r,c,ba)], lambda a:[[a[i][j] for j in range(len(a[0])) for i in range(len(a))]], 'flattenF')
    run(lambda a:a.reshape(c,r), [(r,c,ba)], lambda a,r=r,c=c:(lambda fl:[fl[i*r:(i+1)*r] for i in range(c)])([e for row in a for e in row]), 'reshape')
    if r==c:
        run(lambda a:a**2, [(r,c,ba)], lambda a:[[sum(a[i][k]*a[k][j] for k in range(len(a))) for j in range(len(a))] for i in range(len(a))], 'pow2')
        run(lambda a:a**0, [(r,c,ba)], lambda a:[[int(i==j) for j in range(len(a))] for i in range(len(a))], 'pow0')
    run(lambda a,b:M.hstack(a,b), [(r,c,ba),(r,c,bb_)], lambda a,b:[ra+rb for ra,rb in zip(a,b)], 'hstack')
    run(lambda a,b:M.vstack(a,b), [(r,c,ba),(r,c,bb_)], lambda a,b:a+b, 'vstack')
    run(lambda a,b:M.dot(a,b), [(r,c,ba),(c,r,bb_)], lambda a,b:[[sum(a[i][k]*b[k][j] for k in range(len(b))) for j in range(len(b[0]))] for i in range(len(a))], 'dot')
    run(lambda a:a[0,:], [(r,c,ba)], lambda a:[a[0]], 'row0')
    run(lambda a:a[:,-1], [(r,c,ba)], lambda a:[[row[-1]] for row in a], 'col-1')
print('done')
