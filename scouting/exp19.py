import pyrtl, random, io, contextlib, sys
from pyrtl import *
random.seed(int(sys.argv[1]) if len(sys.argv)>1 else 0)
bad=0
for t in range(int(sys.argv[2]) if len(sys.argv)>2 else 40):
    reset_working_block()
    aw=random.choice([1,2,3,5]); dw=random.choice([1,3,8,64,65,70])
    nw=random.choice([1,2,3]); nr=random.choice([1,2,3])
    m=MemBlock(dw,aw,'m',max_read_ports=None,max_write_ports=None,asynchronous=True)
    romdata=[random.getrandbits(dw) for _ in range(2**aw)]
    kind=random.choice(['list','dict','func'])
    rd = romdata if kind=='list' else ({i:v for i,v in enumerate(romdata)} if kind=='dict' else (lambda a, rd=romdata: rd[a]))
    rom=RomBlock(dw,aw,rd,'rom',max_read_ports=None,asynchronous=True)
    ins={}
    for k in range(nw):
        wa=Input(aw,'wa%d'%k); wd=Input(dw,'wd%d'%k); we=Input(1,'we%d'%k); ins.update({wa.name:aw,wd.name:dw,we.name:1})
        m[wa] <<= MemBlock.EnabledWrite(wd,we)
    outs=[]
    for k in range(nr):
        ra=Input(aw,'ra%d'%k); ins[ra.name]=aw
        o=Output(dw,'ro%d'%k); o<<=m[ra]; outs.append(o.name)
        o2=Output(dw,'rr%d'%k); o2<<=rom[ra]; outs.append(o2.name)
    init={a: random.getrandbits(dw) for a in range(2**aw) if random.random()<0.5}
    steps=[]
    for c in range(10):
        s={n: random.getrandbits(w) for n,w in ins.items()}
        # distinct write addresses among enabled ports
        seen=set()
        for k in range(nw):
            if s['we%d'%k]:
                if s['wa%d'%k] in seen: s['we%d'%k]=0
                else: seen.add(s['wa%d'%k])
        steps.append(s)
    # python array model
    arr=dict(init); exp={o:[] for o in outs}
    for s in steps:
        for k in range(nr):
            exp['ro%d'%k].append(arr.get(s['ra%d'%k],0)); exp['rr%d'%k].append(romdata[s['ra%d'%k]])
        for k in range(nw):
            if s['we%d'%k]: arr[s['wa%d'%k]]=s['wd%d'%k]
    b0=working_block()
    def runon(block, cls, label):
        global bad
        try:
            with contextlib.redirect_stdout(io.StringIO()):
                sim=cls(block=block, tracer=SimulationTrace(block=block), memory_value_map={m: dict(init)})
                for s in steps: sim.step(dict(s))
            got={o:list(sim.tracer.trace[o]) for o in outs}
            mem=sim.inspect_mem(m if not isinstance(block, PostSynthBlock) else block.mem_map.get(m, m))
            final={a: mem.get(a,0) if isinstance(mem, dict) else mem[a] for a in range(2**aw)}
        except Exception as e:
            print('EXC', label, type(e).__name__, str(e)[:120]); bad+=1; return
        if got!=exp:
            for o in outs:
                if got[o]!=exp[o]: print('MISMATCH', label, o, aw, dw, got[o][:4], exp[o][:4]); break
            bad+=1
        elif final!={a: arr.get(a,0) for a in range(2**aw)}:
            print('FINAL MEM MISMATCH', label); bad+=1
    for cls in (Simulation, FastSimulation, CompiledSimulation):
        runon(b0, cls, cls.__name__)
    with contextlib.redirect_stdout(io.StringIO()):
        bo=optimize(update_working_block=False, block=b0)
    runon(bo, Simulation, 'optimized')
    with contextlib.redirect_stdout(io.StringIO()):
        bs=synthesize(update_working_block=False, block=b0)
    try:
        sim=Simulation(block=bs, tracer=SimulationTrace(block=bs), memory_value_map={bs.mem_map[k]: dict(init) for k in bs.mem_map if k.name=='m'} if False else {})
    except Exception as e: pass
print('bad', bad)
