import itertools, random, traceback, sys, io
import pyrtl
from pyrtl.rtllib import adders, multipliers, libutils
def sim_comb(build, widths, exhaustive_limit=4096, signed=False):
    """build(*inputs)->wire ; returns list of mismatches via callback"""
    pyrtl.reset_working_block()
    ins = [pyrtl.Input(w, 'i%d'%k) for k,w in enumerate(widths)]
    out = build(*ins)
    o = pyrtl.Output(len(out), 'o'); o <<= out
    sim = pyrtl.FastSimulation()
    total = 1
    for w in widths: total *= 2**w
    if total <= exhaustive_limit:
        vals = itertools.product(*[range(2**w) for w in widths])
    else:
        vals = [tuple(random.randrange(2**w) for w in widths) for _ in range(300)] + [tuple(2**w-1 for w in widths)]
    res=[]
    for v in vals:
        sim.step({'i%d'%k: x for k,x in enumerate(v)})
        res.append((v, sim.inspect('o'), len(o)))
    return res
def check(name, build, widths, spec):
    try:
        old=sys.stdout; sys.stdout=io.StringIO()
        try: res = sim_comb(build, widths)
        finally: sys.stdout=old
    except Exception as e:
        print('CRASH', name, widths, type(e).__name__, e); return
    for v,o,l in res:
        exp = spec(*v)
        if exp is None: continue
        if o != exp % (1<<l) or exp >= (1<<l):
            print('MISMATCH', name, widths, v, 'got', o, 'exp', exp, 'len', l); return
for wa in range(1,7):
  for wb in range(1,7):
    check('kogge', adders.kogge_stone, (wa,wb), lambda a,b:a+b)
    check('ripple', adders.ripple_add, (wa,wb), lambda a,b:a+b)
    check('cla', adders.cla_adder, (wa,wb), lambda a,b:a+b)
    check('cla2', lambda a,b: adders.cla_adder(a,b,la_unit_len=2), (wa,wb), lambda a,b:a+b)
    check('tree', multipliers.tree_multiplier, (wa,wb), lambda a,b:a*b)
    check('dada', lambda a,b: multipliers.tree_multiplier(a,b,reducer=adders.dada_reducer), (wa,wb), lambda a,b:a*b)
    if wa>1 and wb>1:
        sg=lambda x,w: x-(1<<w) if x>>(w-1) else x
        check('stree', multipliers.signed_tree_multiplier, (wa,wb), (lambda wa,wb: lambda a,b:(sg(a,wa)*sg(b,wb))%(1<<(wa+wb)))(wa,wb))
for ws in [(1,1,1),(2,2,2),(1,2,3),(3,3,3),(4,1,2)]:
    check('csa', adders.carrysave_adder, ws, lambda a,b,c:a+b+c)
for n in range(1,6):
  for w in range(1,4):
    check('fga_w', lambda *x: adders.fast_group_adder(list(x)), (w,)*n, lambda *x: sum(x))
    check('fga_d', lambda *x: adders.fast_group_adder(list(x), reducer=adders.dada_reducer), (w,)*n, lambda *x: sum(x))
for ws in [(1,1,1),(2,2,2),(2,3,4),(3,3,1),(1,3,3),(3,2,6),(2,2,5)]:
    check('fma', lambda a,b,c: multipliers.fused_multiply_adder(a,b,c), ws, lambda a,b,c:a*b+c)
    check('fma_d', lambda a,b,c: multipliers.fused_multiply_adder(a,b,c,reducer=adders.dada_reducer), ws, lambda a,b,c:a*b+c)
print('done')
