import pyrtl, random, itertools, io, contextlib
from pyrtl import *
random.seed(1)
bad=0
# random covers
for t in range(300):
    n=random.randint(1,4)
    rows=[''.join(random.choice('01-') for _ in range(n)) for _ in range(random.randint(0,4))]
    special = random.random()<0.3
    if special:
        n,rows = random.choice([(1,['1']),(1,['0']),(2,['11']),(2,['1-','-1']),(2,['0-','-0']),(2,['10','01']),(0,[]),(0,['1'])])
    names=['i%d'%k for k in range(n)]
    blif='.model top\n.inputs %s\n.outputs o\n.names %s o\n' % (' '.join(names), ' '.join(names))
    if n==0 and rows==['1']: blif+='1\n'
    else: blif+=''.join('%s 1\n'%r for r in rows)
    blif+='.end\n'
    reset_working_block()
    try:
        input_from_blif(blif)
        sim=Simulation()
    except Exception as e:
        print('EXC', type(e).__name__, str(e)[:80], repr(blif)); bad+=1; continue
    for v in itertools.product([0,1],repeat=n):
        sim.step({names[k]:v[k] for k in range(n)})
        exp=int(any(all(c=='-' or int(c)==v[k] for k,c in enumerate(r)) for r in rows)) if not (n==0 and rows==['1']) else 1
        if sim.inspect('o')!=exp: print('COVER MISMATCH', rows, v, sim.inspect('o'), exp); bad+=1; break
# flops
cells = {
 '$_DFF_P_':('',), 
}
def yosys(name, d,e,s,r,q):
    # returns next q
    body=name.strip('$_')
    parts=body.split('_')
    kind=parts[0]; pol=parts[1] if len(parts)>1 else ''
    if kind=='DFF' and pol=='P': return d
    if kind=='DFFE': en = e==(1 if pol[1]=='P' else 0); return d if en else q
    if kind=='DFF' and len(pol)==3:  # PP0
        rv=int(pol[2]); return rv if r==(1 if pol[1]=='P' else 0) else d
    if kind=='DFFE' : pass
    if kind=='DFFSR': return 0 if r else (1 if s else d)
    if kind=='DFFSRE':
        en = e==(1 if pol[3]=='P' else 0); return 0 if r else (1 if s else (d if en else q))
    if kind=='SDFF':
        rv=int(pol[2]); return rv if r==(1 if pol[1]=='P' else 0) else d
    if kind=='SDFFE':
        rv=int(pol[2]); ra = r==(1 if pol[1]=='P' else 0); en = e==(1 if pol[3]=='P' else 0)
        return rv if ra else (d if en else q)
    if kind=='SDFFCE':
        rv=int(pol[2]); ra = r==(1 if pol[1]=='P' else 0); en = e==(1 if pol[3]=='P' else 0)
        return (rv if ra else d) if en else q
    raise Exception(name)
def yosys2(name,d,e,s,r,q):
    body=name.strip('$_'); parts=body.split('_'); kind=parts[0]; pol=parts[1]
    if kind=='DFFE' and len(pol)==4:  # PP0N : async reset + enable
        rv=int(pol[2]); ra = r==(1 if pol[1]=='P' else 0); en = e==(1 if pol[3]=='P' else 0)
        return rv if ra else (d if en else q)
    return yosys(name,d,e,s,r,q)
dff_names = ['$_DFF_P_', '$_DFFE_PN_', '$_DFFE_PP_', '$_DFF_PP0_', '$_DFF_PP1_','$_DFFE_PP0N_', '$_DFFE_PP0P_', '$_DFFE_PP1N_', '$_DFFE_PP1P_', '$_DFFSR_PPP','$_DFFSRE_PPPN_', '$_DFFSRE_PPPP_', '$_SDFF_PN0_', '$_SDFF_PN1_', '$_SDFF_PP0_','$_SDFF_PP1_', '$_SDFFE_PN0N_', '$_SDFFE_PN0P_', '$_SDFFE_PN1N_', '$_SDFFE_PN1P_','$_SDFFE_PP0N_', '$_SDFFE_PP0P_', '$_SDFFE_PP1N_', '$_SDFFE_PP1P_', '$_SDFFCE_PN0N_','$_SDFFCE_PN0P_', '$_SDFFCE_PN1N_', '$_SDFFCE_PN1P_', '$_SDFFCE_PP0N_', '$_SDFFCE_PP0P_','$_SDFFCE_PP1N_', '$_SDFFCE_PP1P_']
for name in dff_names:
    body=name.strip('$_'); parts=body.split('_'); kind=parts[0]
    hasE = 'E' in kind[3:] or kind.endswith('E') ; hasS = 'SR' in kind; hasR = len(parts)>1 and len(parts[1])>=3 or hasS
    pins='C=clk D=d' + (' E=e' if hasE else '') + ' Q=q' + (' S=s' if hasS else '') + (' R=r' if hasR else '')
    blif='.model top\n.inputs clk d e s r\n.outputs q\n.subckt %s %s\n.end\n' % (name, pins)
    reset_working_block()
    try:
        with contextlib.redirect_stdout(io.StringIO()):
            input_from_blif(blif)
        sim=Simulation()
    except Exception as ex:
        print('FLOP EXC', name, type(ex).__name__, str(ex)[:100]); bad+=1; continue
    q=0; ok=True
    ins=working_block().wirevector_subset(Input)
    innames={w.name for w in ins}
    for cyc in range(40):
        v={k:random.randrange(2) for k in 'desr'}
        sim.step({k:v[k] for k in innames})
        if sim.inspect('q')!=q: print('FLOP MISMATCH', name, 'cyc', cyc); ok=False; bad+=1; break
        q=yosys2(name, v['d'],v['e'],v['s'],v['r'],q)
print('bad', bad)
