import pyrtl, io, sys, traceback
from pyrtl import *
def T(name, f):
    reset_working_block()
    try:
        r = f()
        print('[%s] ->' % name, r)
    except Exception as e:
        print('[%s] EXC %s: %s' % (name, type(e).__name__, str(e)[:200]))
def sim_out(block, ins_list, outs):
    sim = Simulation(block=block, tracer=SimulationTrace(block=block))
    res=[]
    for ins in ins_list:
        sim.step(ins); res.append(tuple(sim.inspect(o) for o in outs))
    return res
# a. nand of consts under optimize
def a():
    o = Output(4,'o'); i = Input(4,'i')
    o <<= Const(5,4).nand(Const(3,4)) ^ i
    before = sim_out(working_block(), [{'i':0},{'i':7}], ['o'])
    optimize()
    after = sim_out(working_block(), [{'i':0},{'i':7}], ['o'])
    return before, after
T('a nand consts optimize', a)
def a2():
    o = Output(1,'o'); i = Input(1,'i')
    o <<= Const(1,1).nand(Const(1,1)) ^ i
    before = sim_out(working_block(), [{'i':0},{'i':1}], ['o'])
    optimize()
    after = sim_out(working_block(), [{'i':0},{'i':1}], ['o'])
    return before, after
T('a2 nand 1bit consts optimize', a2)
# b. duplicate '@' nets
def b():
    m = MemBlock(4,2,'m', max_write_ports=2)
    a = Input(2,'a'); d = Input(4,'d'); o = Output(4,'o')
    m[a] <<= d
    m[a] <<= d
    o <<= m[a]
    optimize()
    return 'ok'
T('b dup write nets optimize', b)
# c. CompiledSimulation negative input
def c():
    i = Input(4,'i'); o = Output(4,'o'); o <<= i
    sim = CompiledSimulation()
    sim.step({'i': -1})
    return sim.inspect('o')
T('c compiled negative input', c)
def c2():
    i = Input(4,'i'); o = Output(4,'o'); o <<= i
    sim = FastSimulation()
    sim.step({'i': -1})
    return sim.inspect('o')
T('c2 fast negative input', c2)
def c3():
    i = Input(4,'i'); o = Output(4,'o'); o <<= i
    sim = Simulation()
    sim.step({'i': 16})
    return sim.inspect('o')
T('c3 sim too-large input', c3)
def c4():
    i = Input(4,'i'); o = Output(4,'o'); o <<= i
    sim = CompiledSimulation()
    sim.step({'i': 16})
    return sim.inspect('o')
T('c4 compiled too-large input', c4)
# e. ISCAS 3-input AND
def e():
    input_from_iscas_bench("INPUT(a)\nINPUT(b)\nINPUT(c)\nOUTPUT(o)\no = AND(a, b, c)\n")
    return sim_out(working_block(), [{'a':1,'b':1,'c':0},{'a':1,'b':1,'c':1}], ['o'])
T('e iscas 3-input AND', e)
def e2():
    input_from_iscas_bench("INPUT(a)\nINPUT(b)\nINPUT(c)\nOUTPUT(o)\no = NOR(a, b, c)\n")
    return sim_out(working_block(), [{'a':0,'b':0,'c':1},{'a':0,'b':0,'c':0}], ['o'])
T('e2 iscas 3-input NOR', e2)
# f. verilog strings
T("f -4'd8", lambda: infer_val_and_bitwidth("-4'd8"))
T("f int -8 bw4", lambda: infer_val_and_bitwidth(-8, 4))
T("f int -8 signed", lambda: infer_val_and_bitwidth(-8, signed=True))
T("f -4'd7", lambda: infer_val_and_bitwidth("-4'd7"))
# g. tracer None
def g():
    i = Input(4,'i'); o = Output(4,'o'); o <<= i
    sim = Simulation(tracer=None); sim.step({'i':3}); return sim.inspect('o')
T('g tracer None', g)
# h. BLIF DFFSR
blif = """
.model top
.inputs clk d s r
.outputs q
.subckt $_DFFSR_PPP_ C=clk D=d Q=q R=r S=s
.end
"""
def h():
    input_from_blif(blif)
    return sim_out(working_block(), [{'d':1,'s':0,'r':0},{'d':0,'s':0,'r':0}], ['q'])
T('h blif DFFSR_PPP_', h)
def h2():
    input_from_blif(blif.replace('$_DFFSR_PPP_','$_DFFSR_PPP'))
    return sim_out(working_block(), [{'d':1,'s':0,'r':0},{'d':0,'s':0,'r':0}], ['q'])
T('h2 blif DFFSR_PPP (no underscore)', h2)
# o. direct_connect_outputs with register-driven output
def o_():
    i = Input(2,'i'); o = Output(2,'o'); r = Register(2,'r')
    r.next <<= i; o <<= r
    before = sim_out(working_block(), [{'i':1},{'i':2},{'i':3}], ['o'])
    direct_connect_outputs()
    working_block().sanity_check()
    after = sim_out(working_block(), [{'i':1},{'i':2},{'i':3}], ['o'])
    return before, after
T('o direct_connect_outputs reg', o_)
def o2():
    a = Input(2,'a'); o = Output(4,'o'); m = MemBlock(4,2,'m')
    o <<= m[a]
    m[a] <<= Const(3,4)
    before = sim_out(working_block(), [{'a':1},{'a':1}], ['o'])
    direct_connect_outputs()
    working_block().sanity_check()
    after = sim_out(working_block(), [{'a':1},{'a':1}], ['o'])
    return before, after
T('o2 direct_connect_outputs mem', o2)
