import pyrtl, itertools
from pyrtl import *
def build():
    reset_working_block()
    a = Input(2,'a'); b = Input(2,'b')
    o = Output(3,'o'); o <<= a - b
    lt = Output(1,'lt'); lt <<= a < b
    m = Output(4, 'm'); m <<= a * b
    s = Output(3, 's'); s <<= a + b
build()
b0 = working_block()
def run(block):
    sim = Simulation(block=block, tracer=SimulationTrace(block=block))
    res = {}
    for a,b in itertools.product(range(4), range(4)):
        sim.step({'a':a,'b':b}); res[(a,b)] = tuple(sim.inspect(x) for x in ['o','lt','m','s'])
    return res
r0 = run(b0)
for merge in (True, False):
    b1 = synthesize(update_working_block=False, merge_io_vectors=merge, block=b0)
    if merge:
        r1 = run(b1)
        bad = {k:(r0[k], r1[k]) for k in r0 if r0[k]!=r1[k]}
        print('merge', merge, 'mismatches', len(bad), list(bad.items())[:4])
    else:
        print('unmerged io_map', {k.name:[w.name for w in v] for k,v in b1.io_map.items()})
        sim = Simulation(block=b1, tracer=SimulationTrace(block=b1))
        try:
            sim.step({'a':3,'b':1}); print('step by orig name ok')
        except Exception as e: print('EXC', type(e).__name__, e)
