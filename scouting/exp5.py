import pyrtl, random, sys, io, itertools
from pyrtl import *
random.seed(int(sys.argv[1]) if len(sys.argv)>1 else 1)
WIDTHS = [1,2,3,5,8,31,32,33,63,64,65,66,100,127,128,129,130]
def rand_design(nops=12, nin=3):
    reset_working_block()
    ins = [Input(random.choice(WIDTHS), 'i%d'%k) for k in range(nin)]
    pool = list(ins)
    regs=[]
    for k in range(2):
        r = Register(random.choice(WIDTHS), 'r%d'%k, reset_value=random.choice([None,0,1,3]))
        if r.reset_value is not None and r.reset_value >= 2**r.bitwidth: r.reset_value = 1
        regs.append(r); pool.append(r)
    mem = MemBlock(bitwidth=random.choice([1,7,64,65,70]), addrwidth=random.choice([1,2,3]), name='mem', asynchronous=True, max_read_ports=None, max_write_ports=None)
    for k in range(nops):
        op = random.choice(['+','-','*','&','|','^','~','<','>','==','mux','cat','sel','nand','const','trunc','memr','ext'])
        a = random.choice(pool); b = random.choice(pool)
        try:
            if op=='+': w=a+b
            elif op=='-': w=a-b
            elif op=='*':
                if len(a)+len(b)>300: continue
                w=a*b
            elif op=='&': w=a&b
            elif op=='|': w=a|b
            elif op=='^': w=a^b
            elif op=='~': w=~a
            elif op=='<': w=a<b
            elif op=='>': w=a>b
            elif op=='==': w=a==b
            elif op=='nand': w=a.nand(b)
            elif op=='mux': w=select(random.choice(pool)[0], a, b)
            elif op=='cat':
                c = random.choice(pool)
                if len(a)+len(b)+len(c)>300: continue
                w=concat(a,b,c)
            elif op=='sel':
                n=len(a); idx=[random.randrange(n) for _ in range(random.randint(1,min(n,70)))]
                kind=random.random()
                if kind<0.4:
                    lo=random.randrange(n); hi=random.randrange(lo,n)+1; w=a[lo:hi]
                elif kind<0.6:
                    w=a[::-1]
                elif kind<0.8:
                    w=a[::2]
                else:
                    out=WireVector(len(idx)); working_block().add_net(LogicNet('s',tuple(idx),(a,),(out,))); w=out
            elif op=='const':
                bw=random.choice(WIDTHS); w=Const(random.getrandbits(bw),bw)
            elif op=='trunc':
                w=WireVector(random.choice(WIDTHS)); w<<=a
            elif op=='ext':
                w=a.sign_extended(len(a)+random.choice([1,3,64]))
            elif op=='memr':
                w=mem[a[:mem.addrwidth] if len(a)>=mem.addrwidth else a]
                w = as_wires(w)
        except PyrtlError as e:
            continue
        pool.append(w)
    for r in regs:
        r.next <<= random.choice(pool)
    wa = random.choice(pool); wd=random.choice(pool); we=random.choice(pool)
    mem[wa[:mem.addrwidth] if len(wa)>=mem.addrwidth else wa] <<= MemBlock.EnabledWrite(as_wires(wd, mem.bitwidth)[:mem.bitwidth], we[0])
    outs=[]
    for k,w in enumerate(pool[nin:]):
        if isinstance(w, Const): continue
        o = Output(len(w), 'o%d'%k); o <<= w; outs.append(o)
    return ins, outs, mem
def run():
    ins, outs, mem = rand_design()
    steps = [{i.name: (random.getrandbits(len(i)) if random.random()<0.8 else random.choice([0,2**len(i)-1])) for i in ins} for _ in range(6)]
    meminit = {mem: {a: random.getrandbits(mem.bitwidth) for a in range(2**mem.addrwidth) if random.random()<0.5}}
    res = {}
    for cls in (Simulation, FastSimulation, CompiledSimulation):
        mi = {m: dict(d) for m,d in meminit.items()}
        sim = cls(memory_value_map=mi)
        for s in steps: sim.step(dict(s))
        tr = {o.name: list(sim.tracer.trace[o.name]) for o in outs}
        mm = sim.inspect_mem(mem)
        res[cls.__name__] = (tr, {a: mm.get(a,0) if not isinstance(mm, dict) else mm.get(a,0) for a in range(2**mem.addrwidth)})
    base = res['Simulation']
    for n in ('FastSimulation','CompiledSimulation'):
        if res[n][0] != base[0]:
            for o in base[0]:
                if base[0][o]!=res[n][0][o]:
                    net = working_block().net_connections()[0]
                    src = [x for x in working_block().logic if x.dests and x.dests[0].name==o][0]
                    src2 = net[src.args[0]] if src.args[0] in net else None
                    print('TRACE MISMATCH', n, o, str(src2)[:150], base[0][o][:3], res[n][0][o][:3]); break
            return False
        if res[n][1] != base[1]:
            print('MEM MISMATCH', n, base[1], res[n][1]); return False
    return True
bad=0
for t in range(int(sys.argv[2]) if len(sys.argv)>2 else 40):
    try:
        old=sys.stdout
        if not run(): bad+=1
    except Exception as e:
        import traceback
        print('EXC', type(e).__name__, str(e)[:300]); bad+=1
print('bad', bad)
