import pyrtl, tempfile, os, glob
from pyrtl import *
reset_working_block()
i = Input(8,'i'); o = Output(72,'o')
o <<= i.sign_extended(72)
sim = CompiledSimulation()
sim.step({'i':0xBE})
print(hex(sim.inspect('o')))
src = open(os.path.join(sim._dir,'pyrtlsim.c')).read()
idx = src.index('static void sim_run_step')
print(src[idx:])
