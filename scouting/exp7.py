import pyrtl, random, sys, io, itertools, contextlib
from pyrtl import *
random.seed(int(sys.argv[1]) if len(sys.argv)>1 else 1)
WIDTHS = [1,2,3,4,5,8]
def rand_design(nops=10, nin=3, consts=True):
    reset_working_block()
    ins = [Input(random.choice(WIDTHS), 'i%d'%k) for k in range(nin)]
    pool = list(ins); regs=[]
    for k in range(2):
        bw=random.choice(WIDTHS)
        r = Register(bw, 'r%d'%k, reset_value=random.choice([None,0,1,2**bw-1]))
        regs.append(r); pool.append(r)
    mem = MemBlock(bitwidth=random.choice([1,3,4]), addrwidth=random.choice([1,2]), name='mem', asynchronous=True, max_read_ports=None, max_write_ports=None)
    rom = RomBlock(bitwidth=4, addrwidth=2, romdata=[random.randrange(16) for _ in range(4)], name='rom', asynchronous=True, max_read_ports=None)
    for k in range(nops):
        op = random.choice(['+','-','*','&','|','^','~','<','>','==','mux','cat','sel','nand','const','trunc','memr','romr','ext','constop'])
        a = random.choice(pool); b = random.choice(pool)
        try:
            if op=='+': w=a+b
            elif op=='-': w=a-b
            elif op=='*': w=a*b
            elif op=='&': w=a&b
            elif op=='|': w=a|b
            elif op=='^': w=a^b
            elif op=='~': w=~a
            elif op=='<': w=a<b
            elif op=='>': w=a>b
            elif op=='==': w=a==b
            elif op=='nand': w=a.nand(b)
            elif op=='mux': w=select(random.choice(pool)[0], a, b)
            elif op=='cat': w=concat(a,b,random.choice(pool))
            elif op=='sel':
                n=len(a); lo=random.randrange(n); hi=random.randrange(lo,n)+1; w=a[lo:hi] if random.random()<0.6 else a[::-1]
            elif op=='const':
                if not consts: continue
                bw=random.choice(WIDTHS); w=Const(random.getrandbits(bw),bw)
            elif op=='constop':
                if not consts: continue
                bw=random.choice(WIDTHS); c1=Const(random.getrandbits(bw),bw); c2=Const(random.getrandbits(bw),bw)
                w = random.choice([lambda:c1&c2, lambda:c1|c2, lambda:c1^c2, lambda:c1.nand(c2), lambda:~c1, lambda: c1 & a, lambda: c1 | a[0], lambda: Const(1,1)&a[0], lambda: Const(0,1)|a[0], lambda: Const(1,1)^a[0], lambda: Const(1,1).nand(a[0])])()
            elif op=='trunc':
                w=WireVector(random.choice(WIDTHS)); w<<=a
            elif op=='ext': w=a.sign_extended(len(a)+random.choice([1,3]))
            elif op=='memr': w=as_wires(mem[a[:mem.addrwidth] if len(a)>=mem.addrwidth else a])
            elif op=='romr': w=as_wires(rom[a[:2] if len(a)>=2 else a])
        except PyrtlError as e:
            continue
        pool.append(w)
    for r in regs: r.next <<= random.choice(pool)
    wa = random.choice(pool); wd=random.choice(pool); we=random.choice(pool)
    mem[wa[:mem.addrwidth] if len(wa)>=mem.addrwidth else wa] <<= MemBlock.EnabledWrite(as_wires(wd, mem.bitwidth)[:mem.bitwidth], we[0])
    outs=[]
    for k,w in enumerate(pool[nin:]):
        if isinstance(w, Const) or random.random()<0.5: continue
        o = Output(len(w), 'o%d'%k); o <<= w; outs.append(o)
    if not outs:
        o = Output(len(pool[-1]), 'olast'); o <<= pool[-1]; outs.append(o)
    return ins, outs, mem
def trace(block, ins, outs, steps, meminit_by_name):
    mems = {n.op_param[1] for n in block.logic_subset('m@') if not isinstance(n.op_param[1], RomBlock)}
    if isinstance(block, PostSynthBlock):
        inv = {v: k for k, v in block.mem_map.items()}
        mi = {inv[m]: dict(meminit_by_name.get(m.name,{})) for m in mems if m in inv}
    else:
        mi = {m: dict(meminit_by_name.get(m.name,{})) for m in mems}
    sim = Simulation(block=block, tracer=SimulationTrace(block=block), memory_value_map=mi)
    for s in steps: sim.step(dict(s))
    return {o: list(sim.tracer.trace[o]) for o in outs}
def check(label, b0, b1, ins, outs, steps, mi):
    t0 = trace(b0, ins, outs, steps, mi)
    try:
        b1.sanity_check()
        t1 = trace(b1, ins, outs, steps, mi)
    except Exception as e:
        print('EXC after', label, type(e).__name__, str(e)[:200]); return False
    if t0 != t1:
        for o in t0:
            if t0[o]!=t1[o]: print('MISMATCH', label, o, t0[o], t1[o]); break
        return False
    return True
bad=0
N=int(sys.argv[2]) if len(sys.argv)>2 else 30
for t in range(N):
  with contextlib.redirect_stdout(io.StringIO()) as buf:
    ins, outs, mem = rand_design()
  b0 = working_block()
  innames=[i.name for i in ins]; outnames=[o.name for o in outs]
  steps = [{i.name: random.getrandbits(len(i)) for i in ins} for _ in range(6)]
  mi = {'mem': {a: random.getrandbits(mem.bitwidth) for a in range(2**mem.addrwidth) if random.random()<0.5}}
  def P(label, f):
      global bad
      try:
          with contextlib.redirect_stdout(io.StringIO()):
              b1 = f()
      except Exception as e:
          print('EXC in', label, type(e).__name__, str(e)[:200]); bad+=1; return None
      if not check(label, b0, b1, ins, outnames, steps, mi): bad+=1
      return b1
  P('copy', lambda: copy_block(b0, update_working_block=False))
  P('optimize', lambda: optimize(update_working_block=False, block=b0))
  bs = P('synth', lambda: synthesize(update_working_block=False, block=b0))
  if bs is not None:
      P('synth+opt', lambda: optimize(update_working_block=False, block=bs))
      def lower(fn):
          def g():
              b = copy_block(bs, update_working_block=False)
              b.__class__ = bs.__class__
              with set_working_block(b, True):
                  fn(block=b) if fn not in (nand_synth, and_inverter_synth) else fn(block=b)
              return b
          return g
      for fn in (nand_synth, and_inverter_synth):
          P(fn.__name__, lower(fn))
  def inplace(fn):
      def g():
          b = copy_block(b0, update_working_block=False)
          with set_working_block(b, True):
              fn(block=b)
          return b
      return g
  for fn in (two_way_concat, one_bit_selects, direct_connect_outputs, two_way_fanout, common_subexp_elimination):
      P(fn.__name__, inplace(fn))
  def cp():
      b = copy_block(b0, update_working_block=False)
      with set_working_block(b, True):
          constant_propagation(b, True)
      return b
  P('constprop', cp)
print('bad', bad)
