import pyrtl, itertools, random, io, contextlib, sys
from pyrtl import *
from pyrtl.rtllib import muxes, barrel, libutils
def sgn(x,w): return x-(1<<w) if (x>>(w-1))&1 else x
def comb(build, widths, spec, name, limit=5000):
    reset_working_block()
    ins=[Input(w,'i%d'%k) for k,w in enumerate(widths)]
    try:
        out=build(*ins)
    except Exception as e:
        print('BUILD EXC', name, widths, type(e).__name__, str(e)[:100]); return
    outs = out if isinstance(out,(list,tuple)) else [out]
    os_=[]
    for k,o in enumerate(outs):
        o=as_wires(o); O=Output(len(o),'o%d'%k); O<<=o; os_.append(O)
    sim=FastSimulation()
    tot=1
    for w in widths: tot*=2**w
    vals = itertools.product(*[range(2**w) for w in widths]) if tot<=limit else [tuple(random.getrandbits(w) for w in widths) for _ in range(400)]
    for v in vals:
        sim.step({'i%d'%k:x for k,x in enumerate(v)})
        got=[sim.inspect(O.name) for O in os_]
        exp=spec(*v)
        exp = list(exp) if isinstance(exp,(list,tuple)) else [exp]
        exp=[e % (1<<len(O)) if e is not None else None for e,O in zip(exp,os_)]
        if any(e is not None and e!=g for e,g in zip(exp,got)):
            print('MISMATCH', name, widths, v, 'got', got, 'exp', exp, [len(O) for O in os_]); return
W=range(1,5)
for wa in W:
  for wb in W:
    m=max(wa,wb)
    comb(lambda a,b: signed_add(a,b), (wa,wb), lambda a,b,wa=wa,wb=wb: sgn(a,wa)+sgn(b,wb), 'signed_add')
    comb(lambda a,b: signed_mult(a,b), (wa,wb), lambda a,b,wa=wa,wb=wb: sgn(a,wa)*sgn(b,wb), 'signed_mult')
    comb(lambda a,b: signed_lt(a,b), (wa,wb), lambda a,b,wa=wa,wb=wb: int(sgn(a,wa)<sgn(b,wb)), 'signed_lt')
    comb(lambda a,b: signed_le(a,b), (wa,wb), lambda a,b,wa=wa,wb=wb: int(sgn(a,wa)<=sgn(b,wb)), 'signed_le')
    comb(lambda a,b: signed_gt(a,b), (wa,wb), lambda a,b,wa=wa,wb=wb: int(sgn(a,wa)>sgn(b,wb)), 'signed_gt')
    comb(lambda a,b: signed_ge(a,b), (wa,wb), lambda a,b,wa=wa,wb=wb: int(sgn(a,wa)>=sgn(b,wb)), 'signed_ge')
    comb(lambda a,b: a<=b, (wa,wb), lambda a,b: int(a<=b), 'le')
    comb(lambda a,b: a>=b, (wa,wb), lambda a,b: int(a>=b), 'ge')
    comb(lambda a,b: a!=b, (wa,wb), lambda a,b: int(a!=b), 'ne')
    comb(lambda a,b: shift_left_logical(a,b), (wa,wb), lambda a,b,wa=wa: (a<<b)%(1<<wa), 'sll')
    comb(lambda a,b: shift_right_logical(a,b), (wa,wb), lambda a,b: a>>b, 'srl')
    comb(lambda a,b: shift_right_arithmetic(a,b), (wa,wb), lambda a,b,wa=wa: (sgn(a,wa)>>b)%(1<<wa), 'sra')
    comb(lambda a,b: shift_left_arithmetic(a,b), (wa,wb), lambda a,b,wa=wa: (a<<b)%(1<<wa), 'sla')
  for k in range(1,wa):
    comb(lambda a,k=k: shift_left_logical(a,k), (wa,), lambda a,k=k,wa=wa: (a<<k)%(1<<wa), 'sll_c%d'%k)
    comb(lambda a,k=k: shift_right_logical(a,k), (wa,), lambda a,k=k: a>>k, 'srl_c%d'%k)
    comb(lambda a,k=k: shift_right_arithmetic(a,k), (wa,), lambda a,k=k,wa=wa: (sgn(a,wa)>>k)%(1<<wa), 'sra_c%d'%k)
  comb(lambda a: a.sign_extended(wa+3), (wa,), lambda a,wa=wa: sgn(a,wa)%(1<<(wa+3)), 'sext')
  comb(lambda a: a.zero_extended(wa+3), (wa,), lambda a: a, 'zext')
  comb(lambda a: a + 3, (wa,), lambda a: a+3, 'add_int')
  comb(lambda a: 3 - a, (wa,), lambda a,wa=wa: (3-a), 'rsub_int')
  comb(lambda a: a - 3, (wa,), lambda a: a-3, 'sub_int')
  comb(lambda a: a * "3'd5", (wa,), lambda a: a*5, 'mul_vstr')
  comb(lambda a: a & True, (wa,), lambda a: a&1, 'and_bool')
# mux family
for ws in (1,2,3):
    n=2**ws
    comb(lambda s,*xs: mux(s,*xs), (ws,)+(3,)*n, lambda s,*xs: xs[s], 'mux%d'%ws, limit=300)
    if n>2:
        comb(lambda s,*xs: mux(s,*xs, default=5), (ws,)+(3,)*(n-1), lambda s,*xs: (xs+(5,))[s], 'mux_def%d'%ws, limit=300)
    comb(lambda s: muxes.demux(s), (ws,), lambda s,n=n: [int(s==i) for i in range(n)], 'demux%d'%ws)
    comb(lambda s,a,b: muxes.sparse_mux(s,{0:a, n-1:b, 'default': Const(6,3)}), (ws,3,3), lambda s,a,b,n=n: (a if s==0 else b if s==n-1 else 6) if n>1 else None, 'sparse%d'%ws)
comb(lambda s0,s1,s2,a,b,c: muxes.prioritized_mux([s0,s1,s2],[a,b,c]), (1,1,1,2,2,2), lambda s0,s1,s2,a,b,c: a if s0 else b if s1 else c, 'priomux')
comb(lambda s0,s1,a,b: muxes.prioritized_mux([s0,s1],[a,b]), (1,1,2,2), lambda s0,s1,a,b: a if s0 else b, 'priomux2')
# barrel
for w in range(1,7):
  for ws in range(1,5):
    comb(lambda v,bi,d,s: barrel.barrel_shifter(v,bi,d,s), (w,1,1,ws), lambda v,bi,d,s,w=w: (((v<<s)|(((1<<s)-1) if bi else 0)) % (1<<w)) if d else ((v>>s) | ((((1<<w)-1) ^ ((1<<max(w-s,0))-1)) if bi else 0)), 'barrel')
# bitfield_update
for w in range(2,6):
  for lo,hi in [(0,1),(1,None),(None,-1),(-1,None),(1,3),(-3,-1),(None,None),(2,2)]:
    L=list(range(w))[lo:hi]
    if not L: 
        continue
    nb=len(L)
    comb(lambda a,v,lo=lo,hi=hi: bitfield_update(a,lo,hi,v), (w,nb), lambda a,v,L=L,nb=nb: (a & ~(((1<<nb)-1)<<L[0])) | (v<<L[0]), 'bitfield(%s,%s)'%(lo,hi))
# chop / match_bitpattern
comb(lambda a: chop(a,2,1,3), (6,), lambda a: [a>>4, (a>>3)&1, a&7], 'chop')
def mb(a):
    m,(x,y)=match_bitpattern(a,'1x0y?x')
    return [m,x,y]
comb(mb, (6,), lambda a: [int((a>>5)&1==1 and (a>>3)&1==0), (((a>>4)&1)<<1)|(a&1), (a>>2)&1], 'match_bitpattern')
print('done')
