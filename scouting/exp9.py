import pyrtl, itertools, random, io, contextlib
from pyrtl import *
from pyrtl.rtllib import libutils
# C16 conversions
bad=0
def rep_signed(v,w): return -(1<<(w-1)) <= v < (1<<(w-1))
def rep_unsigned(v,w): return 0 <= v < (1<<w)
for v in range(-40,41):
  for w in [None]+list(range(1,8)):
    for signed in (False, True):
      try:
        r = infer_val_and_bitwidth(v, w, signed); ok=True
      except PyrtlError: ok=False
      if w is None:
          exp_ok = (v>=0) or signed
          if ok:
              # minimal width
              mw = next(x for x in range(1,20) if (rep_signed(v,x) if signed else rep_unsigned(v,x)))
              if v==0: mw=1
              if r.bitwidth!=mw or r.value != v % (1<<mw): print('INFER MIN', v,w,signed,r, mw); bad+=1
      else:
          exp_ok = rep_signed(v,w) if (signed or v<0) else rep_unsigned(v,w)
          if ok and (r.bitwidth!=w or r.value != v % (1<<w)): print('INFER VAL', v,w,signed,r); bad+=1
      if ok!=exp_ok: print('INFER ACCEPT', v,w,signed, ok, exp_ok); bad+=1
      # Const agreement
      try:
          reset_working_block(); c=Const(v,w,signed=signed); cok=True
      except (PyrtlError,PyrtlInternalError): cok=False
      if cok!=ok: print('CONST ACCEPT differs', v,w,signed,cok,ok); bad+=1
for w in range(1,8):
  for v in range(1<<w):
    s = val_to_signed_integer(v,w)
    if not rep_signed(s,w) or s % (1<<w) != v: print('V2S', v,w,s); bad+=1
    for f in 'sxbu':
        st = val_to_formatted_str(v, f+str(w)); back = formatted_str_to_val(st, f+str(w))
        if back!=v: print('FMT', v,w,f,st,back); bad+=1
  for v in range(-(1<<w), 1<<w):
    try: t=libutils.twos_comp_repr(v,w); ok=True
    except PyrtlError: ok=False
    if ok:
        try:
            b=libutils.rev_twos_comp_repr(t,w)
            if b!=v: print('TWOS', v,w,t,b); bad+=1
        except PyrtlError as e: print('TWOS rev rejects', v,w,t); bad+=1
print('C16 bad', bad)
# bitpattern_to_val vs match
for pat in ['1a0b','aabb','a1b0a','ab','0a1','a?b']:
    try:
        n_a=pat.count('a'); n_b=pat.count('b')
        for a in range(1<<n_a):
            for b in range(1<<max(n_b,0)):
                kw={'a':a}
                if n_b: kw['b']=b
                val=bitpattern_to_val(pat, **kw)
                reset_working_block()
                i=Input(len(pat),'i'); m,f=match_bitpattern(i,pat)
                om=Output(1,'om'); om<<=m
                outs=[]
                for k,fld in enumerate(f):
                    o=Output(len(fld),'f%d'%k); o<<=fld; outs.append(o)
                sim=Simulation(); sim.step({'i':val})
                got=[sim.inspect(o.name) for o in outs]
                exp=[a]+([b] if n_b else [])
                if sim.inspect('om')!=1 or got!=exp: print('BITPAT', pat, kw, val, sim.inspect('om'), got); 
    except PyrtlError as e:
        print('BITPAT EXC', pat, e)
print('bitpattern done')
