-- probe: ripple-carry adder over List Bool (LSB first), proof of exactness for all lengths
def b2n (b : Bool) : Nat := if b then 1 else 0
def toNat : List Bool → Nat
  | [] => 0
  | b :: bs => b2n b + 2 * toNat bs

def fullAdd (a b c : Bool) : Bool × Bool := (a ^^ b ^^ c, (a && b) || (a && c) || (b && c))

-- mirrors corecircuits._add_helper on equal-length inputs; returns sumbits ++ [carry]
def addHelper : List Bool → List Bool → Bool → List Bool
  | a :: as, b :: bs, c => let (s, co) := fullAdd a b c; s :: addHelper as bs co
  | _, _, c => [c]

theorem fullAdd_spec (a b c : Bool) :
    b2n (fullAdd a b c).1 + 2 * b2n (fullAdd a b c).2 = b2n a + b2n b + b2n c := by
  cases a <;> cases b <;> cases c <;> rfl

theorem addHelper_spec (as bs : List Bool) (c : Bool) (h : as.length = bs.length) :
    toNat (addHelper as bs c) = toNat as + toNat bs + b2n c := by
  induction as generalizing bs c with
  | nil => cases bs with
    | nil => simp [addHelper, toNat]
    | cons _ _ => simp at h
  | cons a as ih => cases bs with
    | nil => simp at h
    | cons b bs =>
      simp only [List.length_cons, Nat.add_right_cancel_iff] at h
      have := fullAdd_spec a b c
      simp only [addHelper, toNat, ih bs _ h]
      omega

-- table probe
def tbl : Array Nat := (Array.range 256).map (fun i => (i * 7 + 3) % 256)
def inv : Array Nat := (Array.range 256).map (fun i => ((i + 253) * 183) % 256)
theorem tbl_inv : ∀ i : Fin 256, inv[tbl[i.val]!]! = i.val := by decide +kernel
#print axioms addHelper_spec
#print axioms tbl_inv
