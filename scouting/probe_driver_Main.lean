import Lean.Data.Json
open Lean
partial def loop (h : IO.FS.Stream) (n : Nat) : IO Unit := do
  let line ← h.getLine
  if line.isEmpty then return ()
  match Json.parse line with
  | .ok j =>
    let v := (j.getObjValAs? Nat "x").toOption.getD 0
    IO.println (toString (v * 2 + n))
  | .error e => IO.println s!"bad {e}"
  loop h (n+1)
def main : IO Unit := do loop (← IO.getStdin) 0
