/-! Probe: order-independence of sequential netlist evaluation.
    Abstract nets: one destination, a list of argument wires, an arbitrary function. -/
structure Net where
  args : List Nat
  dest : Nat
  f    : List Nat → Nat

abbrev Env := Nat → Nat

def upd (e : Env) (k v : Nat) : Env := fun x => if x = k then v else e x

def evalSeq : List Net → Env → Env
  | [],      e => e
  | n :: ns, e => evalSeq ns (upd e n.dest (n.f (n.args.map e)))

/-- `v` solves the net equations and agrees with `e` off the destinations. -/
def Consistent (nets : List Net) (e v : Env) : Prop :=
  (∀ n ∈ nets, v n.dest = n.f (n.args.map v)) ∧ (∀ w, (∀ n ∈ nets, n.dest ≠ w) → v w = e w)

/-- every argument of the i-th net is a source (driven by no net of the whole list `all`)
    or the destination of an earlier net; destinations are pairwise distinct. -/
def Topo (all : List Net) : List Net → List Nat → Prop
  | [],      _    => True
  | n :: ns, done => (∀ a ∈ n.args, a ∈ done ∨ ∀ m ∈ all, m.dest ≠ a) ∧ n.dest ∉ done
                      ∧ Topo all ns (n.dest :: done)

theorem evalSeq_off (ns : List Net) (e : Env) (w : Nat) (h : ∀ n ∈ ns, n.dest ≠ w) :
    evalSeq ns e w = e w := by
  induction ns generalizing e with
  | nil => rfl
  | cons n ns ih =>
    have hn : n.dest ≠ w := h n (by simp)
    rw [evalSeq, ih _ (fun m hm => h m (by simp [hm]))]
    simp [upd, Ne.symm hn]

/-- Uniqueness: two consistent valuations agree, by induction along a topological order. -/
theorem consistent_unique_aux (all : List Net) (e v1 v2 : Env)
    (h1 : Consistent all e v1) (h2 : Consistent all e v2) :
    ∀ (ns : List Net) (done : List Nat), (∀ n ∈ ns, n ∈ all) → Topo all ns done →
      (∀ w ∈ done, v1 w = v2 w) → ∀ n ∈ ns, v1 n.dest = v2 n.dest := by
  intro ns
  induction ns with
  | nil => intro _ _ _ _ n hn; simp at hn
  | cons m ms ih =>
    intro done hsub htopo hdone n hn
    obtain ⟨hargs, _, hrest⟩ := htopo
    have hm_all : m ∈ all := hsub m (by simp)
    have hargs_eq : m.args.map v1 = m.args.map v2 := by
      apply List.map_congr_left
      intro a ha
      rcases hargs a ha with hd | hsrc
      · exact hdone a hd
      · rw [h1.2 a hsrc, h2.2 a hsrc]
    have hm : v1 m.dest = v2 m.dest := by
      rw [h1.1 m hm_all, h2.1 m hm_all, hargs_eq]
    rcases List.mem_cons.mp hn with rfl | hn'
    · exact hm
    · exact ih (m.dest :: done) (fun k hk => hsub k (by simp [hk])) hrest
        (by intro w hw; rcases List.mem_cons.mp hw with rfl | hw'
            · exact hm
            · exact hdone w hw') n hn'

theorem consistent_unique (all : List Net) (e v1 v2 : Env)
    (htopo : Topo all all []) (h1 : Consistent all e v1) (h2 : Consistent all e v2) :
    ∀ w, v1 w = v2 w := by
  intro w
  by_cases hw : ∃ n ∈ all, n.dest = w
  · obtain ⟨n, hn, rfl⟩ := hw
    exact consistent_unique_aux all e v1 v2 h1 h2 all [] (fun _ h => h) htopo (by simp) n hn
  · have : ∀ n ∈ all, n.dest ≠ w := fun n hn h => hw ⟨n, hn, h⟩
    rw [h1.2 w this, h2.2 w this]
#print axioms consistent_unique

theorem topo_dest_not_done (all : List Net) : ∀ (ns : List Net) (done : List Nat),
    Topo all ns done → ∀ k ∈ ns, k.dest ∉ done := by
  intro ns
  induction ns with
  | nil => intro _ _ k hk; simp at hk
  | cons m ms ih =>
    intro done h k hk
    obtain ⟨_, hmd, hrest⟩ := h
    rcases List.mem_cons.mp hk with rfl | hk'
    · exact hmd
    · intro hmem
      exact ih (m.dest :: done) hrest k hk' (by simp [hmem])

theorem evalSeq_consistent_aux (all : List Net) : ∀ (ns : List Net) (done : List Nat) (e : Env),
    (∀ n ∈ ns, n ∈ all) → Topo all ns done →
    ∀ n ∈ ns, evalSeq ns e n.dest = n.f (n.args.map (evalSeq ns e)) := by
  intro ns
  induction ns with
  | nil => intro _ _ _ _ n hn; simp at hn
  | cons m ms ih =>
    intro done e hsub htopo n hn
    have htopo' := htopo
    obtain ⟨hargs, hmd, hrest⟩ := htopo
    have hlater : ∀ k ∈ ms, k.dest ∉ (m.dest :: done) := topo_dest_not_done all ms _ hrest
    rcases List.mem_cons.mp hn with rfl | hn'
    · -- the head net: its destination and arguments are never overwritten afterwards
      have hdest : evalSeq (n :: ms) e n.dest = n.f (n.args.map e) := by
        rw [evalSeq, evalSeq_off ms _ n.dest (fun k hk h => hlater k hk (by simp [h]))]
        simp [upd]
      have hargs_eq : n.args.map (evalSeq (n :: ms) e) = n.args.map e := by
        apply List.map_congr_left
        intro a ha
        have hne : ∀ k ∈ (n :: ms), k.dest ≠ a := by
          intro k hk hka
          rcases hargs a ha with hd | hsrc
          · rcases List.mem_cons.mp hk with rfl | hk'
            · exact hmd (hka ▸ hd)
            · exact hlater k hk' (by simp [hka, hd])
          · exact hsrc k (hsub k hk) hka
        exact evalSeq_off (n :: ms) e a hne
      rw [hdest, hargs_eq]
    · exact ih (m.dest :: done) _ (fun k hk => hsub k (by simp [hk])) hrest n hn'

theorem evalSeq_consistent (all : List Net) (e : Env) (htopo : Topo all all []) :
    Consistent all e (evalSeq all e) :=
  ⟨evalSeq_consistent_aux all all [] e (fun _ h => h) htopo, fun w hw => evalSeq_off all e w hw⟩

/-- Any two topological orders of the same net set give the same valuation. -/
theorem eval_any_topo_order (l1 l2 : List Net) (e : Env) (hp : ∀ n, n ∈ l1 ↔ n ∈ l2)
    (h1 : Topo l1 l1 []) (h2 : Topo l2 l2 []) : ∀ w, evalSeq l1 e w = evalSeq l2 e w := by
  have c1 := evalSeq_consistent l1 e h1
  have c2 := evalSeq_consistent l2 e h2
  have c2' : Consistent l1 e (evalSeq l2 e) :=
    ⟨fun n hn => c2.1 n ((hp n).mp hn), fun w hw => c2.2 w (fun n hn => hw n ((hp n).mpr hn))⟩
  exact consistent_unique l1 e _ _ h1 c1 c2'
#print axioms eval_any_topo_order

-- non-vacuity: a 2-net chain in both orders of independent nets
def nA : Net := ⟨[0], 10, fun l => l.headD 0 + 1⟩
def nB : Net := ⟨[1], 11, fun l => l.headD 0 * 2⟩
def nC : Net := ⟨[10, 11], 12, fun l => l.foldl (· + ·) 0⟩
example : Topo [nA, nB, nC] [nA, nB, nC] [] := by simp [Topo, nA, nB, nC]
example : Topo [nB, nA, nC] [nB, nA, nC] [] := by simp [Topo, nA, nB, nC]
