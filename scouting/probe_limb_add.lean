/-! Probe: the carry chain emitted by CompiledSimulation._build_add, for any number of limbs. -/
abbrev B : Nat := 18446744073709551616   -- 2^64

def toNatL : List Nat → Nat
  | [] => 0
  | x :: xs => x + B * toNatL xs

/-- tmp = a+b; d = tmp+carry; carry = (tmp < a) | (d < tmp)   (all mod 2^64) -/
def addLimbs : List Nat → List Nat → Nat → List Nat
  | a :: as, b :: bs, c =>
      let tmp := (a + b) % B
      let d := (tmp + c) % B
      let c' := if tmp < a ∨ d < tmp then 1 else 0
      d :: addLimbs as bs c'
  | _, _, _ => []

theorem limb_step (a b c : Nat) (ha : a < B) (hb : b < B) (hc : c ≤ 1) :
    let tmp := (a + b) % B
    let d := (tmp + c) % B
    let c' := if tmp < a ∨ d < tmp then 1 else 0
    d + B * c' = a + b + c ∧ c' ≤ 1 := by
  simp only [B] at *
  split <;> omega

theorem addLimbs_spec (as bs : List Nat) (c : Nat) (hlen : as.length = bs.length)
    (ha : ∀ x ∈ as, x < B) (hb : ∀ x ∈ bs, x < B) (hc : c ≤ 1) :
    ∃ cout, cout ≤ 1 ∧
      toNatL (addLimbs as bs c) + B ^ as.length * cout = toNatL as + toNatL bs + c := by
  induction as generalizing bs c with
  | nil =>
    cases bs with
    | nil => exact ⟨c, hc, by simp [addLimbs, toNatL]⟩
    | cons _ _ => simp at hlen
  | cons a as ih =>
    cases bs with
    | nil => simp at hlen
    | cons b bs =>
      have hlen' : as.length = bs.length := by simpa using hlen
      have ha0 := ha a (by simp); have hb0 := hb b (by simp)
      obtain ⟨hstep, hc'⟩ := limb_step a b c ha0 hb0 hc
      obtain ⟨cout, hco, ihh⟩ := ih bs _ hlen' (fun x hx => ha x (by simp [hx]))
        (fun x hx => hb x (by simp [hx])) hc'
      refine ⟨cout, hco, ?_⟩
      simp only [addLimbs, toNatL, List.length_cons, Nat.pow_succ]
      -- B * (rest + B^n * cout) = B * (toNatL as + toNatL bs + c')
      have := congrArg (B * ·) ihh
      simp only [Nat.mul_add] at this
      rw [Nat.mul_comm (B ^ as.length) B, Nat.mul_assoc]
      omega
#print axioms addLimbs_spec
