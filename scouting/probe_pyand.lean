def pyAnd : Int → Int → Int
  | .ofNat a, .ofNat b => ((a &&& b : Nat) : Int)
  | .ofNat a, .negSucc b => ((a - (a &&& b) : Nat) : Int)
  | .negSucc a, .ofNat b => ((b - (b &&& a) : Nat) : Int)
  | .negSucc a, .negSucc b => .negSucc (a ||| b)

def mask (w : Nat) : Int := ((2 ^ w - 1 : Nat) : Int)

theorem pyAnd_mask_nonneg (a w : Nat) : pyAnd (a : Int) (mask w) = ((a % 2 ^ w : Nat) : Int) := by
  show pyAnd (Int.ofNat a) (Int.ofNat (2^w-1)) = _
  simp only [pyAnd]
  rw [Nat.and_two_pow_sub_one_eq_mod]

theorem pyAnd_mask_neg (a w : Nat) :
    pyAnd (Int.negSucc a) (mask w) = ((2 ^ w - 1 - a % 2 ^ w : Nat) : Int) := by
  show pyAnd (Int.negSucc a) (Int.ofNat (2^w-1)) = _
  simp only [pyAnd]
  rw [Nat.and_comm, Nat.and_two_pow_sub_one_eq_mod]

theorem pyAnd_mask (x : Int) (w : Nat) : pyAnd x (mask w) = x % (2 ^ w : Int) := by
  cases x with
  | ofNat a =>
    rw [show Int.ofNat a = (a : Int) from rfl, pyAnd_mask_nonneg]
    simp [Int.natCast_mod]
  | negSucc a =>
    rw [pyAnd_mask_neg]
    have h : (0:Nat) < 2 ^ w := Nat.two_pow_pos w
    have hm := Nat.mod_lt a h
    rw [Int.negSucc_emod _ (by exact_mod_cast h)]
    omega
#print axioms pyAnd_mask
