#!/bin/sh
# Runs the repository's pinned test suite with the verification guard OFF and prints pass/fail counts.
unset PYRTL_VERIF PYRTL_VERIF_ITER_SEED
cd /repo && /venv/bin/python -m pytest -ra -q -p no:cacheprovider --timeout=900 --continue-on-collection-errors "$@" 2>&1 | tail -3
