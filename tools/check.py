#!/venv/bin/python
"""Entry point of every registered check:  check.py Cxx [--tier quick|thorough] [--replay file]"""
import argparse
import importlib
import os
import sys
import traceback

HERE = os.path.dirname(os.path.abspath(__file__))
sys.path.insert(0, HERE)
os.environ.setdefault('PYRTL_VERIF', '1')          # hooks on for every check
sys.path.insert(0, os.environ.get('PYRTL_REPO', '/repo'))   # the working tree, not an installed copy


class _Filter(object):
    """stdout filter: PyRTL passes print progress notes ('... deemed useless by optimization');
    only the lines of the check protocol go through."""
    def __init__(self, out):
        self.out = out
        self.buf = ''

    def write(self, t):
        self.buf += t
        while '\n' in self.buf:
            line, self.buf = self.buf.split('\n', 1)
            if line.startswith(('VIOLATION ', 'KNOWN-FINDING', 'OK ', 'FAIL ')) or line.startswith('"'):
                self.out.write(line + '\n')

    def flush(self):
        self.out.flush()


def run_quiet(fn, ctx):
    real = sys.stdout
    sys.stdout = _Filter(real)
    try:
        return fn(ctx)
    finally:
        sys.stdout = real


def main():
    ap = argparse.ArgumentParser()
    ap.add_argument('prop')
    ap.add_argument('--tier', default=os.environ.get('VERIF_TIER', 'quick'), choices=['quick', 'thorough'])
    ap.add_argument('--replay', default=None)
    a = ap.parse_args()
    from vlib.common import Ctx
    mod = importlib.import_module('checks.' + a.prop.lower())
    ctx = Ctx(a.prop, a.tier, replay=a.replay)
    # time budget of the exploration loops (the proof build is not counted): quick 10 min, thorough 40 min
    import time as _time
    budget = float(os.environ.get('VERIF_BUDGET_S', '600' if a.tier == 'quick' else '2400'))
    ctx.deadline = _time.time() + budget
    try:
        rc = run_quiet(mod.main, ctx)
    except SystemExit:
        raise
    except BaseException:   # an internal error of the machinery is not a violation: exit 2
        traceback.print_exc()
        sys.exit(2)
    sys.exit(rc)


if __name__ == '__main__':
    main()
