"""C01 — pyrtl.Simulation computes the documented cycle semantics.

Proof: Proofs/Props/C01.lean (PySim impl model = Spec, per op for all widths and values; run-level
refinement; history-level reading of the spec).  Tie A: Gen.SimpleFunc regenerated from
simulation.py.  Tie B: real Simulation vs PySim (same net order) on generated designs.
Oracle: real Simulation vs Spec (Lean's own dependency order)."""
import os
import pyrtl
from vlib import gen, simrun
from vlib.common import proof_gate, conclude
from vlib.serialize import Ser


def one_case(ctx, d, steps, regmap, memmap, dflt, iter_seed, label, simcls=None, check_tie=True, foreign=False):
    """Run the real simulator and both Lean models on one design; record violations.
    Returns True when everything agreed."""
    simcls = simcls or pyrtl.Simulation
    ser = Ser(d.block)
    if iter_seed is None:
        os.environ.pop('PYRTL_VERIF_ITER_SEED', None)
    else:
        os.environ['PYRTL_VERIF_ITER_SEED'] = str(iter_seed)
    real = simrun.run_real(simcls, d.block, steps, regmap, memmap, dflt, foreign=foreign)
    if foreign:
        ctx.count('working-block', 'foreign')
    os.environ.pop('PYRTL_VERIF_ITER_SEED', None)
    if real.get('asserted'):
        ctx.count('rtl-assert-caught-and-stepped-on', min(len(real['asserted']), 3))
    memq = []
    for mid, mm in real['mem'].items():
        addrs = set(a for a in mm if isinstance(a, int))
        for m, init in memmap.items():
            if m.id == mid:
                addrs |= set(init)
        memq += [[mid, a] for a in sorted(addrs)]
    spec = ctx.driver.ask(simrun.lean_request(ser, steps, regmap, memmap, dflt, model='spec', memq=memq))
    replay = {'kind': 'design', 'label': label, 'block': ser.data, 'steps': steps,
              'regmap': {r.name: v for r, v in regmap.items()},
              'memmap': {str(m.id): {str(a): v for a, v in mm.items()} for m, mm in memmap.items()},
              'default': dflt, 'iter_seed': iter_seed, 'simulator': simcls.__name__, 'foreign_working_block': foreign}
    ok = True
    if real['err'] is not None:
        # a ROM read of an undefined address is the only legal reason for a PyrtlError here
        if spec.get('ok') and spec.get('romfault') and real['err'][1] == 'PyrtlError' and getattr(d, 'rom_may_fault', True):
            ctx.count('outcome', 'rom-undefined-address (both)')
            return True
        if spec.get('ok') and spec.get('romfault'):
            # the generator declared every ROM total (full data, or pad_with_zeros): the ROM objects PyRTL made
            # behind the scenes (build_new_roms) must be total as well
            ctx.violation('%s-rom-raises' % simcls.__name__, '%s raised %s although every ROM of the design defines or zero-pads every address: %s' % (
                simcls.__name__, real['err'][1], real['err'][2]), replay)
            return False
        ctx.violation('%s-raises:%s' % (simcls.__name__, real['err'][1]),
                      '%s raised %s on a well-formed design with legal inputs: %s' % (
                          simcls.__name__, real['err'][1], real['err'][2]), replay)
        return False
    if not spec.get('ok'):
        raise RuntimeError('Lean spec model rejected a design the generator built: %s' % spec.get('err'))
    if spec.get('romfault'):
        ctx.violation('romfault-not-raised', 'undefined ROM address read without error', replay)
        return False
    st = simrun.lean_trace(ser, spec)
    # two enabled writes of one cycle to the same word with different data: from the next cycle on
    # the outcome is outside the documented behaviour -> compare only up to that cycle
    wc = spec.get('wconflict')
    ncyc = None if wc is None else wc + 1
    if wc is not None:
        ctx.count('outcome', 'write-conflict (compared up to that cycle)')
    # oracle: every traced wire, every cycle
    mm = simrun.compare_traces(real['trace'], st, ncycles=ncyc)
    if mm:
        ok = False
        net = describe_driver(d.block, mm[0])
        ctx.violation('sim-vs-spec:%s' % net['op'],
                      '%s gives %s=%d at cycle %d, documented semantics give %d (driver net %s)' % (
                          simcls.__name__, mm[0], mm[2], mm[1], mm[3], net['str']),
                      dict(replay, mismatch={'wire': mm[0], 'cycle': mm[1], 'real': mm[2], 'spec': mm[3]}))
    # range
    for w in d.block.wirevector_set:
        for v in real['trace'].get(w.name, []):
            if not (0 <= v < (1 << w.bitwidth)):
                ok = False
                ctx.violation('value-out-of-range', 'wire %s reported %d outside [0,2^%d)' % (w.name, v, w.bitwidth), replay)
                break
    # memory contents
    want = {}
    for (mid, a), v in zip(memq, spec['mem']):
        want.setdefault(mid, {})[a] = v
    for mid, mmr in real['mem'].items():
        if wc is not None:
            break
        for a, v in want.get(mid, {}).items():
            rv = mmr.get(a, dflt if simcls is not pyrtl.CompiledSimulation else 0)
            if rv != v and not (simcls is pyrtl.CompiledSimulation and dflt != 0):
                ok = False
                ctx.violation('mem-content', 'memory %d addr %d holds %d, spec %d' % (mid, a, rv, v),
                              dict(replay, mismatch={'mem': mid, 'addr': a, 'real': rv, 'spec': v}))
                break
    # tie: the impl model driven by the very order the simulator used (FastSimulation does not keep its order:
    # any dependency order gives the same values, `pysim_order_independent`)
    if check_tie and simcls in (pyrtl.Simulation, pyrtl.FastSimulation) and real['sim'] is not None:
        sim = real['sim']
        if simcls is pyrtl.Simulation:
            pys = ctx.driver.ask(simrun.lean_request(ser, steps, regmap, memmap, dflt, model='pysim',
                                                     order=list(sim.ordered_nets),
                                                     wrorder=list(sim.mem_update_nets), memq=memq))
        else:
            pys = ctx.driver.ask(simrun.lean_request(ser, steps, regmap, memmap, dflt, model='fastsim',
                                                     order=[n_ for n_ in d.block if n_.op not in 'r@'], memq=memq))
        if not pys.get('ok'):
            ok = False
            if pys.get('err') in ('order-not-topological', 'order-not-a-permutation'):
                ctx.violation('iteration-order', 'Block iteration is not a dependency order: ' + pys['err'],
                              dict(replay, order=[str(n) for n in sim.ordered_nets]))
            else:
                raise RuntimeError('pysim model error: %s' % pys.get('err'))
        else:
            pt = simrun.lean_trace(ser, pys)
            t = simrun.compare_traces(real['trace'], pt, ncycles=ncyc)
            ctx.tie_cases = getattr(ctx, 'tie_cases', 0) + 1
            if t:
                ctx.tie_mismatch = getattr(ctx, 'tie_mismatch', 0) + 1
                if ok:   # the model no longer follows the code but no property failure was seen here
                    ctx.tie_only = getattr(ctx, 'tie_only', []) + [dict(replay, mismatch=t)]
    return ok


def describe_driver(block, wname):
    for n in block.logic:
        if n.dests and n.dests[0].name == wname:
            return {'op': n.op, 'str': str(n).strip()[:160]}
    return {'op': 'source', 'str': 'source wire'}


def gen_case(ctx, k, profiles=('small', 'small', 'med', 'limb')):
    rng = ctx.rng
    profile = profiles[k % len(profiles)]
    d = gen.rand_design(rng, profile=profile)
    if k % 5 == 2:
        # an rtl_assert on some bit: the testbench catches the assertion and keeps stepping
        if simrun.add_rtl_assert(rng, d.block) is not None:
            ctx.count('rtl-assert', 'added')
    steps = gen.rand_stimulus(rng, d, rng.choice([3, 5, 8]))
    regmap, memmap, dflt = gen.rand_init(rng, d)
    return d, steps, regmap, memmap, dflt


def same_name_memories(ctx):
    """two memories that carry one name (a helper called twice), initial contents given per MemBlock object, simulated on
    the design and on its synthesized form: every read returns the word of the memory it reads"""
    rng = ctx.rng
    for k in range(ctx.n(6, 40)):
        pyrtl.reset_working_block()
        aw, dw = rng.choice([1, 2]), rng.choice([3, 8])
        addr = pyrtl.Input(aw, 'addr')
        mems = [pyrtl.MemBlock(dw, aw, name='rf', asynchronous=True) for _ in range(2)]
        for j, m in enumerate(mems):
            o = pyrtl.Output(dw, 'o%d' % j)
            o <<= m[addr]
        init = [{a: rng.getrandbits(dw) | 1 for a in range(1 << aw) if rng.random() < 0.8} for _ in mems]
        blk = pyrtl.working_block()
        variants = [('original', blk)]
        try:
            variants.append(('synthesized', pyrtl.synthesize(update_working_block=False, block=blk)))
        except Exception:  # noqa (C03)
            pass
        for label, b in variants:
            replay = {'kind': 'same-name-memories', 'variant': label, 'aw': aw, 'dw': dw, 'init': [{str(a): v for a, v in i_.items()} for i_ in init]}
            try:
                sim = pyrtl.Simulation(block=b, tracer=pyrtl.SimulationTrace(block=b),
                                       memory_value_map={m: dict(i_) for m, i_ in zip(mems, init)})
                for a in range(1 << aw):
                    sim.step({'addr': a})
                    ctx.evaluations += 1
                    got = [sim.inspect('o0'), sim.inspect('o1')]
                    want = [init[0].get(a, 0), init[1].get(a, 0)]
                    if got != want:
                        ctx.violation('same-name-memories:' + label, 'two memories named rf with initial contents per MemBlock (%s block): reads at '
                                      'address %d give %r, the contents are %r' % (label, a, got, want), replay)
                        return
            except Exception as e:  # noqa
                ctx.violation('same-name-memories-raises:' + label, 'Simulation of the %s block with two memories of one name raised %s: %s' % (
                    label, type(e).__name__, str(e)[:140]), replay)
                return


def main(ctx):
    proofs_ok = proof_gate(ctx, gen_modules=['SimpleFunc'])
    n = ctx.n(1000, 20000)
    if not proofs_ok:
        n *= 3
    if ctx.replay:
        return replay(ctx)
    agree = 0
    for k in ctx.loop(n):
        d, steps, regmap, memmap, dflt = gen_case(ctx, k)
        iter_seed = None if k % 4 == 0 else ctx.rng.randrange(1 << 30)
        desc = d.describe()
        ok = one_case(ctx, d, steps, regmap, memmap, dflt, iter_seed, 'gen#%d' % k, foreign=(k % 7 == 3))
        if k % 6 == 1 and ok:
            # a second Simulation of the same block, with no initial maps and another default_value: it starts from its
            # own defaults, not from anything the first one left behind
            for rep_ in range(2):
                _, _, dflt2 = gen.rand_init(ctx.rng, d)      # a default every register / memory word of the design can hold
                ok = one_case(ctx, d, steps, {}, {}, dflt2, iter_seed, 'gen#%d-simulation-%d-without-maps' % (k, rep_ + 2)) and ok
            ctx.count('second-simulation-on-the-same-block', 'n')
        agree += ok
        ctx.case((desc['nets'], tuple(desc['ops']), tuple(w for _, w in desc['inputs']), len(steps)),
                 nontrivial=desc['nets'] >= 3)
        ctx.count('profile', d.profile)
        for op in set(n_.op for n_ in d.block.logic):
            ctx.count('net-ops', op)
        for w in set(len(w) for w in d.block.wirevector_set):
            ctx.count('widths', 'limbs=%d' % ((w + 63) // 64))
        ctx.count('iter-order', 'hooked' if iter_seed is not None else 'native')
        ctx.sample({'design': desc, 'cycles': len(steps), 'default': dflt, 'agree': ok})
        if len(ctx.violations) >= 5:
            break
    same_name_memories(ctx)
    tie_bad = getattr(ctx, 'tie_mismatch', 0)
    ctx.oblige('tie:Simulation=PySim(order of the simulator)', tie_bad == 0,
               '%d/%d cases disagree' % (tie_bad, getattr(ctx, 'tie_cases', 0)))
    ctx.oblige('oracle:Simulation=Spec', not ctx.violations, '%d/%d designs agree' % (agree, ctx.evaluations))
    if tie_bad and not ctx.violations:
        ctx.extra['tie_only_examples'] = getattr(ctx, 'tie_only', [])[:2]
    ctx.extra['traces_validated_against_impl'] = getattr(ctx, 'tie_cases', 0)
    return conclude(ctx, rule='random API-built designs (all 18 net ops, raw narrower destinations, registers with/without '
                    'reset, multi-port memories, ROMs list/dict/function, widths from small/medium/limb-boundary tables) x '
                    'random stimuli with boundary values x initial maps x default_value; distinct = distinct '
                    '(net count, op set, input widths, cycles); non-trivial = at least 3 nets')


def replay(ctx):
    import json
    with open(ctx.replay) as f:
        r = json.load(f)
    print(json.dumps(r.get('what')))
    return 0
