"""C02 — FastSimulation and CompiledSimulation are observably identical to Simulation.

Oracle: both simulators vs the Lean Spec model (which C01 ties to Simulation) on every wire they can
trace and on final memory contents; designs include widths across every 64-bit limb boundary.
Proofs: Proofs/Props/C02.lean (emitted Python expressions of FastSimulation = Spec per op; limb
arithmetic of the C backend for any number of limbs)."""
import pyrtl
from vlib import gen
from vlib.common import proof_gate, conclude
from checks import c01


def main(ctx):
    proofs_ok = proof_gate(ctx, gen_modules=['SimpleFunc', 'FastEmit'])
    nfast = ctx.n(600, 12000)
    ncomp = ctx.n(100, 3000)
    if not proofs_ok:
        nfast *= 3
        ncomp *= 2
    agree = {'FastSimulation': 0, 'CompiledSimulation': 0}
    total = {'FastSimulation': 0, 'CompiledSimulation': 0}
    for simcls, n in ((pyrtl.FastSimulation, nfast), (pyrtl.CompiledSimulation, ncomp)):
        for k in range(n):
            profile = ('limb', 'small', 'limb', 'med')[k % 4]
            rng = ctx.rng
            d = gen.rand_design(rng, profile=profile)
            steps = gen.rand_stimulus(rng, d, rng.choice([3, 5, 8]))
            regmap, memmap, dflt = gen.rand_init(rng, d)
            if simcls is pyrtl.CompiledSimulation and d.mems:
                dflt = 0   # the sanctioned difference: default_value is not applied to memories
            iter_seed = None if k % 4 == 0 else rng.randrange(1 << 30)
            ok = c01.one_case(ctx, d, steps, regmap, memmap, dflt, iter_seed,
                              '%s#%d' % (simcls.__name__, k), simcls=simcls, check_tie=False)
            desc = d.describe()
            agree[simcls.__name__] += ok
            total[simcls.__name__] += 1
            ctx.case((simcls.__name__, desc['nets'], tuple(desc['ops']), tuple(w for _, w in desc['inputs'])),
                     nontrivial=desc['nets'] >= 3)
            ctx.count('simulator', simcls.__name__)
            ctx.count('profile', d.profile)
            for op in set(n_.op for n_ in d.block.logic):
                ctx.count('net-ops:' + simcls.__name__, op)
            for w in set(len(w) for w in d.block.wirevector_set):
                ctx.count('widths', 'limbs=%d' % ((w + 63) // 64))
            ctx.sample({'simulator': simcls.__name__, 'design': desc, 'cycles': len(steps), 'agree': ok})
            if len(ctx.violations) >= 6:
                break
    for name in agree:
        ctx.oblige('oracle:%s=Spec' % name, agree[name] == total[name], '%d/%d designs agree' % (agree[name], total[name]))
    return conclude(ctx, rule='random designs as in C01 with widths biased to 63/64/65/127/128/129/130 so operands of '
                    'c, s, *, <, - straddle limbs; FastSimulation traces every wire, CompiledSimulation inputs/outputs/'
                    'probes; distinct = (simulator, net count, op set, input widths)')
