"""C02 — FastSimulation and CompiledSimulation are observably identical to Simulation.

Oracle: both simulators vs the Lean Spec model (which C01 ties to Simulation) on every wire they can
trace and on final memory contents; designs include widths across every 64-bit limb boundary.
Proofs: Proofs/Props/C02.lean (emitted Python expressions of FastSimulation = Spec per op; limb
arithmetic of the C backend for any number of limbs)."""
import re
import pyrtl
from pyrtl import Input, Output, WireVector, LogicNet
from vlib import gen
from vlib.common import proof_gate, conclude
from checks import c01


SRC = r"[^\s()&|<>]+"
PIECE = re.compile(r"^\((?:(?P<m0>\d+) & (?P<s0>%s)|(?P<s1>%s) >> (?P<k1>\d+)|(?P<m2>\d+) & \((?P<s2>%s) >> (?P<k2>\d+)\))\)$" % (SRC, SRC, SRC))


def parse_pieces(expr, arglen):
    """the emitted `piece|piece|...` of a select net -> [(start, len, res)] (None if not in that shape)"""
    out = []
    for part in expr.split('|'):
        part = part.strip()
        res = 0
        m = re.match(r'^\((.*) << (\d+)\)$', part)
        if m:
            part, res = m.group(1), int(m.group(2))
        m = PIECE.match(part)
        if not m:
            return None
        if m.group('m0') is not None:
            mask, start = int(m.group('m0')), 0
            ln = mask.bit_length() if mask & (mask + 1) == 0 else None
        elif m.group('s1') is not None:
            start = int(m.group('k1'))
            ln = arglen - start
        else:
            mask, start = int(m.group('m2')), int(m.group('k2'))
            ln = mask.bit_length() if mask & (mask + 1) == 0 else None
        if ln is None:
            return None
        out.append([start, ln, res])
    return out


def select_tie(ctx):
    """Tie of the hand-modelled loop of the `s` emitter (Model/Sim/FastSim.lean `runs`, `exec`) to the real
    emitter: the pieces in the generated code and the values FastSimulation computes."""
    rng = ctx.rng
    ok_all = True
    for k in range(ctx.n(150, 3000)):
        wa = rng.choice([1, 2, 3, 5, 8, 13, 64, 65, 70])
        idx = []
        while len(idx) < rng.randint(1, 14):
            kind = rng.random()
            start = rng.randrange(wa)
            if kind < 0.5:
                idx += list(range(start, min(wa, start + rng.randint(1, 6))))
            elif kind < 0.75:
                idx += list(range(start, max(-1, start - rng.randint(1, 5)), -1))
            else:
                idx += [start] * rng.randint(1, 3)
        if rng.random() < 0.3:
            idx = list(range(rng.randrange(wa), wa))       # a run ending at the top bit
        dw = len(idx) if rng.random() < 0.7 else rng.randint(1, len(idx))
        pyrtl.reset_working_block()
        a = Input(wa, 'a')
        t = WireVector(dw, 't')
        pyrtl.working_block().add_net(LogicNet('s', tuple(idx), (a,), (t,)))
        o = Output(dw, 'o')
        o <<= t
        vals = [gen.rand_value(rng, wa) for _ in range(6)]
        replay = {'kind': 'select-emitter', 'idx': idx, 'wa': wa, 'dw': dw, 'vals': vals}
        try:
            sim = pyrtl.FastSimulation()
            code = sim._compiled()
            got = []
            for v in vals:
                sim.step({'a': v})
                got.append(sim.inspect('t'))
        except Exception as e:  # noqa
            ctx.violation('fast-select-raises', 'FastSimulation raised %s on a select net: %s' % (type(e).__name__, str(e)[:160]), replay)
            ok_all = False
            continue
        resp = ctx.driver.ask({'cmd': 'fsel', 'idx': idx, 'wa': wa, 'dw': dw, 'vals': vals})
        want = [sum(((v >> b) & 1) << i for i, b in enumerate(idx)) % (1 << dw) for v in vals]
        if got != want:
            ctx.violation('fast-select-value', 'FastSimulation select %r of a %d-bit wire into %d bits: values %r, documented selection gives %r' % (
                idx, wa, dw, got, want), replay)
            ok_all = False
            continue
        model_ok = resp.get('ok') and resp['vals'] == got
        line = [l for l in code.split('\n') if re.match(r'^\s*t\s*=', l)]
        pieces = None
        if len(line) == 1:
            rhs = line[0].split('=', 1)[1].strip()
            m = re.match(r'^(\d+) & \((.*)\)$', rhs)
            masked = m is not None and '|' not in m.group(1)
            if m and int(m.group(1)) == (1 << dw) - 1:
                rhs = m.group(2)
            pieces = parse_pieces(rhs, wa)
        struct_ok = pieces is not None and resp.get('ok') and pieces == resp['runs']
        ctx.count('select-tie', 'value+structure' if (model_ok and struct_ok) else ('value-only' if model_ok else 'differs'))
        if not (model_ok and struct_ok):
            ok_all = False
            ctx.extra.setdefault('select_tie_diffs', []).append({'idx': idx, 'wa': wa, 'dw': dw, 'emitted': line[:1],
                                                                 'pieces': pieces, 'model_runs': resp.get('runs'),
                                                                 'model_vals': resp.get('vals'), 'real_vals': got})
        ctx.evaluations += 1
    ctx.oblige('correspondence:FastSimulation select emitter = Model/Sim/FastSim.lean (pieces and values)', ok_all,
               json_short(ctx.extra.get('select_tie_diffs', [])[:2]))


def json_short(x):
    import json
    return json.dumps(x)[:400]


C_OPS = 'w~&|^n=<>x+-*sc'


def c_expected(net, vals):
    """documented value of the net's destination for operand values `vals` (destination width may be narrower)"""
    op, wd = net.op, len(net.dests[0])
    m = (1 << wd) - 1
    a = vals[0]
    b = vals[1] if len(vals) > 1 else 0
    if op == 'w':
        return a & m
    if op == '~':
        return ~a & m
    if op in '&|^':
        return {'&': a & b, '|': a | b, '^': a ^ b}[op] & m
    if op == 'n':
        return ~(a & b) & m
    if op == '=':
        return int(a == b) & m
    if op == '<':
        return int(a < b) & m
    if op == '>':
        return int(a > b) & m
    if op == 'x':
        return (vals[2] if a else vals[1]) & m
    if op == '+':
        return (a + b) & m
    if op == '-':
        return (a - b) & m
    if op == '*':
        return (a * b) & m
    if op == 's':
        return sum(((a >> i) & 1) << k for k, i in enumerate(net.op_param)) & m
    if op == 'c':
        v = 0
        for arg, x in zip(net.args, vals):       # the first argument is the most significant
            v = (v << len(arg)) | x
        return v & m
    raise ValueError(op)


def climb_tie(ctx):
    """Tie A for the C backend: the statements CompiledSimulation generates for every combinational net of random
    designs (limb-boundary widths, raw narrower destinations) are parsed (vlib/cparse.py) and must be, statement for
    statement, the program Model/Sim/CLimb.lean emits for that (op, operand widths, destination width, parameter);
    the model program is also executed on operand values against the documented value of the net."""
    from vlib import cparse
    rng = ctx.rng
    n_nets = bad_text = bad_val = skipped = 0
    examples = []
    for k in range(ctx.n(25, 400)):
        d = gen.rand_design(rng, profile=rng.choice(['limb', 'limb', 'med', 'small']), nops=rng.randint(4, 14), nmems=rng.choice([0, 1]),
                            nroms=0)
        try:
            sim = pyrtl.CompiledSimulation(block=d.block)
        except Exception:  # noqa  (construction failures are reported by the main loop)
            continue
        code = []
        sim._create_code(code.append)
        secs = cparse.net_sections(code)
        nets = [n_ for n_ in sim.block if n_.op not in 'r@']
        if len(secs) != len(nets):
            bad_text += 1
            examples.append({'why': 'number of // net sections %d differs from the number of combinational nets %d' % (len(secs), len(nets))})
            continue
        for (hdr, lines), net in zip(secs, nets):
            if net.op not in C_OPS:
                ctx.count('c-op-not-modelled', net.op)
                continue
            argn = [sim.varname[a] for a in net.args]
            if len(set(argn)) != len(argn):
                skipped += 1
                continue
            n_nets += 1
            ctx.count('c-net', net.op)
            req = {'cmd': 'cemit', 'op': net.op, 'widths': [len(a) for a in net.args], 'wd': len(net.dests[0]),
                   'param': list(net.op_param) if net.op == 's' else []}
            try:
                req['text'] = cparse.parse_net(lines, argn, sim.varname[net.dests[0]])
            except cparse.CParseError as e:
                bad_text += 1
                examples.append({'net': str(net).strip(), 'why': 'generated text outside the modelled fragment: %s' % e, 'text': lines[:6]})
                continue
            cases = [[gen.rand_value(rng, len(a)) for a in net.args] for _ in range(4)]
            req['cases'] = cases
            r = ctx.driver.ask(req)
            if not r.get('ok'):
                raise RuntimeError('cemit: %s' % r)
            if not r['same']:
                bad_text += 1
                if len(examples) < 4:
                    examples.append({'net': str(net).strip(), 'text': lines[:8], 'parsed': req['text'][:4], 'model': r['model'][:4]})
            want = [c_expected(net, c) for c in cases]
            if r['vals'] != want:
                bad_val += 1
                j = next(i for i in range(len(want)) if r['vals'][i] != want[i])
                if len(examples) < 6:
                    examples.append({'net': str(net).strip(), 'operands': cases[j], 'model_program_gives': r['vals'][j], 'documented': want[j]})
    ctx.oblige('translator:C statements of every combinational net = Model/Sim/CLimb.lean program', bad_text == 0,
               '%d of %d nets differ (%d skipped: one wire used as two operands)' % (bad_text, n_nets, skipped))
    ctx.oblige('model:CLimb program executed on operand values = documented value of the net', bad_val == 0,
               '%d of %d nets differ' % (bad_val, n_nets))
    if examples:
        ctx.extra['climb_tie_examples'] = examples[:6]
    ctx.evaluations += n_nets


def main(ctx):
    proofs_ok = proof_gate(ctx, gen_modules=['SimpleFunc', 'FastEmit'])
    nfast = ctx.n(600, 12000)
    ncomp = ctx.n(100, 3000)
    if not proofs_ok:
        nfast *= 3
        ncomp *= 2
    agree = {'FastSimulation': 0, 'CompiledSimulation': 0}
    total = {'FastSimulation': 0, 'CompiledSimulation': 0}
    for simcls, n in ((pyrtl.FastSimulation, nfast), (pyrtl.CompiledSimulation, ncomp)):
        for k in ctx.loop(n):
            profile = ('limb', 'small', 'limb', 'med')[k % 4]
            rng = ctx.rng
            d = gen.rand_design(rng, profile=profile)
            steps = gen.rand_stimulus(rng, d, rng.choice([3, 5, 8]))
            regmap, memmap, dflt = gen.rand_init(rng, d)
            if simcls is pyrtl.CompiledSimulation and d.mems:
                dflt = 0   # the sanctioned difference: default_value is not applied to memories
            iter_seed = None if k % 4 == 0 else rng.randrange(1 << 30)
            ok = c01.one_case(ctx, d, steps, regmap, memmap, dflt, iter_seed,
                              '%s#%d' % (simcls.__name__, k), simcls=simcls, check_tie=(simcls is pyrtl.FastSimulation),
                              foreign=(k % 3 == 1))
            desc = d.describe()
            agree[simcls.__name__] += ok
            total[simcls.__name__] += 1
            ctx.case((simcls.__name__, desc['nets'], tuple(desc['ops']), tuple(w for _, w in desc['inputs'])),
                     nontrivial=desc['nets'] >= 3)
            ctx.count('simulator', simcls.__name__)
            ctx.count('profile', d.profile)
            for op in set(n_.op for n_ in d.block.logic):
                ctx.count('net-ops:' + simcls.__name__, op)
            for w in set(len(w) for w in d.block.wirevector_set):
                ctx.count('widths', 'limbs=%d' % ((w + 63) // 64))
            ctx.sample({'simulator': simcls.__name__, 'design': desc, 'cycles': len(steps), 'agree': ok})
            if len(ctx.violations) >= 6:
                break
    select_tie(ctx)
    climb_tie(ctx)
    ctx.oblige('tie:FastSimulation=FastSim.step model (Lean; about which fastsim_run_eq_spec speaks)', getattr(ctx, 'tie_mismatch', 0) == 0,
               '%d/%d runs disagree' % (getattr(ctx, 'tie_mismatch', 0), getattr(ctx, 'tie_cases', 0)))
    if getattr(ctx, 'tie_mismatch', 0) and not ctx.violations:
        ctx.extra['tie_only_examples'] = getattr(ctx, 'tie_only', [])[:2]
    # memory histories whose addresses collide in their low bits (hash buckets of the C backend), rewriting older entries
    from checks import c08
    for k in range(ctx.n(12, 200)):
        aw = ctx.rng.choice([9, 10, 12, 16, 33])
        dw = ctx.rng.choice([7, 8, 64, 70])
        nrd, nwr = ctx.rng.randint(1, 2), ctx.rng.randint(1, 2)
        hsteps = c08.history(ctx.rng, aw, dw, nrd, nwr, 16)
        # every fourth history: a default_value wider than the memory (unwritten words read as its low bits)
        dflt = (ctx.rng.getrandbits(dw + 3) | (1 << dw)) if k % 4 == 2 else 0
        c08.check_history(ctx, aw, dw, nrd, nwr, hsteps, {}, 'c02-hist#%d' % k, regports=(k % 3 == 1 and not dflt),
                          sims=(pyrtl.FastSimulation, pyrtl.CompiledSimulation), with_passes=False, dflt=dflt)
        ctx.evaluations += 1
    ctx.evaluations += c08.repeated_use(ctx, sims=(pyrtl.FastSimulation, pyrtl.CompiledSimulation))
    for name in agree:
        ctx.oblige('oracle:%s=Spec' % name, agree[name] == total[name], '%d/%d designs agree' % (agree[name], total[name]))
    return conclude(ctx, rule='random designs as in C01 with widths biased to 63/64/65/127/128/129/130 so operands of '
                    'c, s, *, <, - straddle limbs; FastSimulation traces every wire, CompiledSimulation inputs/outputs/'
                    'probes; distinct = (simulator, net count, op set, input widths)')
