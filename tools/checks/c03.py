"""C03 — synthesize() preserves behaviour and the simulation interface.

Oracle: Spec.run of the original vs Spec.run of the synthesized block (both evaluated by the Lean
model) on every Output, from corresponding initial states; the real Simulation of the result driven
by a testbench written against the original; postcondition and map-key predicates on the real result.
Proofs: Proofs/Props/C03.lean (bit-level generators `_basic_*` on bit lists are exact for all lengths).
Tie: the real `_basic_*` generators are run on small widths and compared bit-for-bit with the Lean
functions (exhaustive truth tables)."""
import itertools
import pyrtl
from pyrtl import Input, Output, Const, Register
from pyrtl.memory import RomBlock
from vlib import gen, simrun, memsynth
from vlib.common import proof_gate, conclude
from vlib.serialize import Ser


def spec_run(ctx, block, steps, regmap, memmap, dflt, mem_translate=None):
    ser = Ser(block)
    resp = ctx.driver.ask(simrun.lean_request(ser, steps, regmap, memmap, dflt, model='spec',
                                              mem_translate=mem_translate))
    if not resp.get('ok'):
        return None, resp, ser
    return simrun.lean_trace(ser, resp), resp, ser


def postcondition(bs, merge):
    """None or a description of the first net violating synthesize()'s documented postcondition."""
    io = set(bs.wirevector_subset((Input, Output)))
    src, dst = bs.net_connections()
    for n in bs.logic:
        if n.op in '&|^n~wr':
            ws = list(n.args) + list(n.dests)
            if any(w.bitwidth != 1 for w in ws):
                if n.op == 'w' and merge and isinstance(n.dests[0], Output):
                    continue   # the re-assembled Output vector
                return 'multi-bit gate/register after synthesis: %s' % str(n).strip()
        elif n.op in 'm@':
            continue
        elif n.op in 'cs':
            # allowed only at I/O re-assembly (merged I/O) and memory-port re-assembly
            if n.op == 's':
                ok = (merge and isinstance(n.args[0], Input)) or (n.args[0] in src and src[n.args[0]].op == 'm')
            else:
                readers = dst.get(n.dests[0], [])
                ok = bool(readers) and all((merge and r.op == 'w' and isinstance(r.dests[0], Output)) or r.op in 'm@'
                                           for r in readers)
                ok = ok or (merge and isinstance(n.dests[0], Output))
            if not ok:
                return 'c/s net away from I/O and memory ports (merge_io_vectors=%s): %s' % (merge, str(n).strip())
        else:
            return 'op %r survives synthesis: %s' % (n.op, str(n).strip())
    return None


def check_design(ctx, d, steps, regmap, memmap, label):
    ok = True
    base_tr, base_resp, ser0 = spec_run(ctx, d.block, steps, regmap, memmap, 0)
    if base_tr is None:
        raise RuntimeError('spec rejected generated design: %s' % base_resp)
    if base_resp.get('romfault'):
        return True
    ncyc = None if base_resp.get('wconflict') is None else base_resp['wconflict'] + 1
    outs = [o.name for o in d.outputs]
    replay0 = {'kind': 'design', 'label': label, 'block': ser0.data, 'steps': steps,
               'regmap': {r.name: v for r, v in regmap.items()},
               'memmap': {m.name: {str(a): v for a, v in mm.items()} for m, mm in memmap.items()}}
    for merge in (True, False):
        for uwb in ((False, True) if ctx.rng.random() < 0.2 else (False,)):
            replay = dict(replay0, merge_io_vectors=merge, update_working_block=uwb)
            try:
                if uwb:
                    with pyrtl.set_working_block(d.block, no_sanity_check=True):
                        bs = pyrtl.synthesize(update_working_block=True, merge_io_vectors=merge)
                        pyrtl.set_working_block(d.block, no_sanity_check=True)
                else:
                    bs = pyrtl.synthesize(update_working_block=False, merge_io_vectors=merge, block=d.block)
                bs.sanity_check()
            except Exception as e:  # noqa
                ctx.violation('synthesize-raises:' + simrun.err_class(e),
                              'synthesize(merge_io_vectors=%s) raised %s: %s' % (merge, type(e).__name__, str(e)[:200]), replay)
                ok = False
                continue
            pc = postcondition(bs, merge)
            if pc:
                ctx.violation('postcondition', pc, replay)
                ok = False
            # maps keyed by the ORIGINAL objects
            orig_io = set(d.block.wirevector_subset((Input, Output)))
            orig_regs = set(d.block.wirevector_subset(Register))
            orig_mems = set(n.op_param[1] for n in d.block.logic_subset('m@'))
            for nm, have, want in (('io_map', set(bs.io_map.keys()), orig_io),
                                   ('reg_map', set(bs.reg_map.keys()), orig_regs),
                                   ('mem_map', set(bs.mem_map.keys()), orig_mems)):
                if have != want:
                    ctx.violation('map-keys:' + nm, '%s of the synthesized block is not keyed by the original '
                                  'design\'s objects (%d of %d keys are originals)' % (nm, len(have & want), len(want)), replay)
                    ok = False
            # reset values: bit k of a register's reset value, None staying None (it means "the simulator's default_value")
            for r in sorted(orig_regs & set(bs.reg_map.keys()), key=lambda w: w.name):
                bits = list(bs.reg_map[r])
                want_bits = [None if r.reset_value is None else (r.reset_value >> k) & 1 for k in range(len(bits))]
                got_bits = [getattr(b_, 'reset_value', 'not-a-register') for b_ in bits]
                if got_bits != want_bits:
                    ctx.violation('reset-value', 'register %s (reset_value %r) is synthesized into 1-bit registers with reset values %r, '
                                  'expected %r' % (r.name, r.reset_value, got_bits, want_bits), replay)
                    ok = False
                    break
            # translate stimulus / initial state
            if merge:
                steps2 = steps
            else:
                steps2 = []
                for s in steps:
                    s2 = {}
                    for i in d.inputs:
                        bits = bs.io_map.get(i, [])
                        for k, bw in enumerate(bits):
                            s2[bw.name] = (s[i.name] >> k) & 1
                    steps2.append(s2)
            regmap2 = {}
            for r, v in regmap.items():
                for k, br in enumerate(bs.reg_map.get(r, [])):
                    regmap2[br] = (v >> k) & 1
            try:
                mm2 = {bs.mem_map[m]: mmv for m, mmv in memmap.items()}
            except KeyError:
                mm2 = None
            bs_names = {w.name for w in bs.wirevector_subset(pyrtl.Input)}
            dropped = sorted(n for n in (steps2[0] if steps2 else {}) if n not in bs_names)
            if merge and dropped:
                ctx.violation('input-dropped', 'Input %s of the original design is not an Input of the synthesized block: a testbench '
                              'driving it by name no longer runs' % dropped[0], replay)
                ok = False
                mm2 = None
            if mm2 is not None:
                tr, resp, ser1 = spec_run(ctx, bs, steps2, regmap2, mm2, 0)
                if tr is None:
                    ctx.violation('synth-malformed', 'synthesized block rejected by the model: %s' % resp.get('err'), replay)
                    ok = False
                else:
                    bad = compare_outputs(d, bs, base_tr, tr, merge, ncyc)
                    if bad:
                        ok = False
                        ctx.violation('synth-vs-orig:' + bad[4],
                                      'Output %s cycle %d: original %d, synthesized(merge=%s) %d [%s]' % (
                                          bad[0], bad[1], bad[2], merge, bad[3], bad[4]),
                                      dict(replay, mismatch=bad[:4]))
            # the testbench of the original, unchanged, on the real simulator
            if merge and not regmap:
                for simcls in (pyrtl.Simulation, pyrtl.FastSimulation):
                    real = simrun.run_real(simcls, bs, steps, {}, memmap, 0, track=None)
                    if real['err'] is not None:
                        ok = False
                        ctx.violation('testbench-raises:' + real['err'][1],
                                      '%s(block=synthesized, memory_value_map={original MemBlock: ...}) raised %s: %s' % (
                                          simcls.__name__, real['err'][1], real['err'][2]), dict(replay, simulator=simcls.__name__))
                        break
                    t = simrun.compare_traces(real['trace'], base_tr, names=outs, ncycles=ncyc)
                    if t:
                        ok = False
                        ctx.violation('testbench-vs-orig:' + simcls.__name__,
                                      'original testbench (%s, memory_value_map keyed by the original MemBlocks) on the synthesized block: '
                                      '%s cycle %d got %d want %d' % ((simcls.__name__,) + tuple(t)), dict(replay, mismatch=t, simulator=simcls.__name__))
                        break
            # synthesize applied to its own result: still a well-formed block with the same behaviour by Input/Output name
            if merge and ok and not memmap and not regmap and getattr(ctx, 'resynth_budget', 0) > 0:
                ctx.resynth_budget -= 1
                try:
                    again = pyrtl.synthesize(update_working_block=False, merge_io_vectors=True, block=bs)
                    again.sanity_check()
                    real = simrun.run_real(pyrtl.Simulation, again, steps, {}, {}, 0, track=None)
                    ctx.count('re-synthesized', 'n')
                    if real['err'] is not None:
                        raise RuntimeError('%s: %s' % (real['err'][1], real['err'][2]))
                    t = simrun.compare_traces(real['trace'], base_tr, names=outs, ncycles=ncyc)
                    if t:
                        ok = False
                        ctx.violation('resynthesize-vs-orig', 'synthesize(synthesize(b)): %s cycle %d got %d want %d' % tuple(t), dict(replay, mismatch=t))
                except Exception as e:  # noqa
                    ok = False
                    ctx.violation('resynthesize-raises:' + type(e).__name__, 'synthesize applied to its own result (or simulating that) raised %s: %s' % (
                        type(e).__name__, str(e)[:160]), replay)
    return ok


def compare_outputs(d, bs, base_tr, tr, merge, ncyc):
    for o in d.outputs:
        want = base_tr[o.name]
        m = len(want) if ncyc is None else min(ncyc, len(want))
        if merge:
            got = tr.get(o.name)
            if got is None:
                return (o.name, 0, want[0], -1, 'output missing')
        else:
            bits = bs.io_map.get(o, [])
            if len(bits) != len(o):
                return (o.name, 0, want[0], -1, 'io_map has %d bits for a %d-bit output' % (len(bits), len(o)))
            got = [sum(tr[b.name][c] << k for k, b in enumerate(bits)) for c in range(len(want))]
        for c in range(m):
            if got[c] != want[c]:
                drv = [n for n in d.block.logic if n.dests and n.dests[0] is o]
                src = drv[0].args[0] if drv else None
                sdrv = [n.op for n in d.block.logic if n.dests and n.dests[0] is src]
                return (o.name, c, want[c], got[c], 'via ' + (sdrv[0] if sdrv else '?'))
    return None


# ---------------------------------------------------------------- tie: the bit-level generators

def basic_truth_tables(ctx):
    """Run the real `_basic_*` generators on small widths, simulate the gates they produce on every
    input, and compare with the Lean functions (which the theorems are about)."""
    from pyrtl import corecircuits as cc
    maxw = ctx.n(4, 6)
    bad = 0
    total = 0
    gens = [('add', cc._basic_add, False), ('sub', cc._basic_sub, False), ('mult', cc._basic_mult, True),
            ('eq', cc._basic_eq, False), ('lt', cc._basic_lt, False), ('gt', cc._basic_gt, False)]
    for name, fn, mixed in gens:
        for wa in range(1, maxw + 1):
            for wb in (range(1, maxw + 1) if mixed else [wa]):
                pyrtl.reset_working_block()
                a, b = Input(wa, 'a'), Input(wb, 'b')
                r = fn(a, b)
                o = Output(len(r), 'o')
                o <<= r
                blk = pyrtl.working_block()
                ser = Ser(blk)
                steps = [{'a': x, 'b': y} for x in range(1 << wa) for y in range(1 << wb)]
                resp = ctx.driver.ask(simrun.lean_request(ser, steps, {}, {}, 0, model='spec', watch=['o']))
                got = [row[0] for row in resp['trace']]
                mresp = ctx.driver.ask({'cmd': 'basic', 'fn': name, 'wa': wa, 'wb': wb,
                                        'cases': [[s['a'], s['b']] for s in steps]})
                if not mresp.get('ok'):
                    raise RuntimeError('basic: %s' % mresp)
                total += len(steps)
                ctx.count('basic-generator', name)
                if mresp['width'] != len(r) or mresp['vals'] != got:
                    bad += 1
                    k = next((i for i in range(len(got)) if i >= len(mresp['vals']) or mresp['vals'][i] != got[i]), 0)
                    ctx.tie_only = getattr(ctx, 'tie_only', []) + [
                        {'fn': name, 'wa': wa, 'wb': wb, 'a': steps[k]['a'], 'b': steps[k]['b'],
                         'real_gates': got[k], 'lean_model': mresp['vals'][k] if k < len(mresp['vals']) else None,
                         'real_width': len(r), 'model_width': mresp['width']}]
                # the generators must also be *right* (this is the property): documented result
                for s, g in zip(steps, got):
                    x, y = s['a'], s['b']
                    want = {'add': x + y, 'sub': (x - y) % (1 << (wa + 1)), 'mult': x * y, 'eq': int(x == y),
                            'lt': int(x < y), 'gt': int(x > y)}[name]
                    if g != want:
                        ctx.violation('basic-generator:' + name,
                                      'corecircuits._basic_%s at widths (%d,%d): %d,%d -> %d, exact result %d' % (
                                          name, wa, wb, x, y, g, want),
                                      {'kind': 'basic', 'fn': name, 'wa': wa, 'wb': wb, 'a': x, 'b': y, 'got': g, 'want': want})
                        break
    ctx.evaluations += total
    return bad, total


def main(ctx):
    proofs_ok = proof_gate(ctx, gen_modules=[])
    bad, total = basic_truth_tables(ctx)
    ctx.oblige('tie:_basic_* gates = Lean bit-list functions (exhaustive truth tables)', bad == 0,
               '%d generator/width combinations disagree over %d input pairs' % (bad, total))
    n = ctx.n(120, 3000)
    if not proofs_ok:
        n *= 3
    agree = 0
    for k in ctx.loop(n):
        rng = ctx.rng
        profile = 'small' if k % 3 else 'med'
        d = gen.rand_design(rng, profile=profile, nops=rng.randint(3, 10), max_total=40, wide_mem=False, raw=False)
        ctx.resynth_budget = 1 if k % 4 == 0 else 0
        if k % 3 == 1:
            # a memory read object used twice, the second time as the next value of a narrower register (the API then
            # connects the full-width read port to the register: an `r` net whose argument is wider than its destination)
            mems_ = [m_ for m_ in d.mems if m_.bitwidth >= 2]
            if mems_:
                with pyrtl.set_working_block(d.block, no_sanity_check=True):
                    m_ = rng.choice(mems_)
                    src_ = sorted((w for w in d.block.wirevector_subset((Input, Register)) if len(w) >= 1), key=lambda w: w.name)
                    a_ = rng.choice(src_)
                    a_ = a_[0:m_.addrwidth] if len(a_) >= m_.addrwidth else a_.zero_extended(m_.addrwidth)
                    try:
                        word = m_[a_]
                        ow_ = Output(m_.bitwidth, 'verif_word')
                        ow_ <<= word
                        rn_ = Register(max(1, m_.bitwidth // 2), 'verif_nib', reset_value=1)
                        rn_.next <<= word
                        on_ = Output(len(rn_), 'verif_nib_out')
                        on_ <<= rn_
                        d.outputs += [ow_, on_]
                        ctx.count('register-fed-by-wider-read-port', 'added')
                    except pyrtl.PyrtlError:
                        pass       # read-port limit of the memory reached
        if k % 2 == 0:
            # slices with a step (every other bit, reversed, a stepped window): selects whose bit list is not a contiguous run
            src3_ = sorted((w for w in d.block.wirevector_subset((Input, Register)) if len(w) >= 3), key=lambda w: w.name)
            if src3_:
                with pyrtl.set_working_block(d.block, no_sanity_check=True):
                    w3_ = rng.choice(src3_)
                    sl_ = rng.choice([slice(None, None, 2), slice(None, None, -1), slice(1, None, 2), slice(None, None, 3),
                                      slice(len(w3_) - 1, 0, -2)])
                    picked_ = w3_[sl_]
                    os_ = Output(len(picked_), 'verif_stepped')
                    os_ <<= picked_
                    d.outputs.append(os_)
                ctx.count('stepped-slice', 'added')
        steps = gen.rand_stimulus(rng, d, rng.choice([3, 5]))
        regmap, memmap, _ = gen.rand_init(rng, d, with_default=False)
        if k % 2 == 0:
            regmap = {}
        ok = check_design(ctx, d, steps, regmap, memmap, 'synth#%d' % k)
        agree += ok
        desc = d.describe()
        ctx.case(('synth', desc['nets'], tuple(desc['ops']), tuple(w for _, w in desc['inputs'])), nontrivial=desc['nets'] >= 3)
        for op in set(n_.op for n_ in d.block.logic):
            ctx.count('net-ops', op)
        ctx.count('regs-with-reset', sum(1 for r in d.regs if r.reset_value))
        ctx.sample({'design': desc, 'cycles': len(steps), 'agree': ok})
        if len(ctx.violations) >= 6:
            break
    if len(ctx.violations) < 6:
        memsynth.several_memories(ctx, ctx.n(8, 60), same_name=True)
    ctx.oblige('oracle:Spec(synthesize(b))=Spec(b) on Outputs, both merge settings', not ctx.violations,
               '%d/%d designs agree' % (agree, n))
    return conclude(ctx, rule='random designs (every word-level op, registers with reset values, memories, ROMs) x '
                    'merge_io_vectors x update_working_block; plus exhaustive truth tables of each _basic_* generator '
                    'for widths 1..4 (quick) / 1..6 (thorough); distinct = (net count, op set, input widths)')
