"""C04 — optimize() and its constituent passes preserve observable behaviour.

Oracle: Spec.run (Lean) of the block before and after each pass on every Output, with the sanctioned
difference handled exactly: registers the pass eliminated are started at the constant they settle to.
Proofs: Proofs/Props/C04.lean — the constant-folding tables (regenerated from passes.py on every
run) are sound for every width; wire/slice elision and dead-logic removal preserve the valuation."""
import os
import pyrtl
from pyrtl import Input, Output, Register, Const
from pyrtl import passes
from vlib import gen, simrun, passlib
from vlib.common import proof_gate, conclude
from vlib.serialize import Ser

PASSES = {
    'optimize': lambda b: pyrtl.optimize(block=b),
    'optimize-copy': None,
    'constant_propagation': lambda b: pyrtl.constant_propagation(b, True),
    'common_subexp_elimination': lambda b: pyrtl.common_subexp_elimination(b),
    '_remove_wire_nets': lambda b: passes._remove_wire_nets(b),
    '_remove_slice_nets': lambda b: passes._remove_slice_nets(b),
    '_remove_unlistened_nets': lambda b: passes._remove_unlistened_nets(b),
}


def variants(ctx, d):
    """(label, block) : word-level, synthesized, nand- and and-inverter-lowered"""
    out = [('word', d.block)]
    r = ctx.rng.random()
    if ctx.rng.random() < 0.4:
        # Outputs driven directly by the logic nets (no 'w' net in front of them)
        b1 = passlib.private_copy(d.block)
        try:
            passlib.run_in(b1, lambda: pyrtl.direct_connect_outputs(b1))
            b1.sanity_check()
            out.append(('direct-outputs', b1))
        except Exception:  # noqa
            pass
    if r < 0.6:
        try:
            bs = passlib.run_in(d.block, lambda: pyrtl.synthesize(update_working_block=False, block=d.block))
        except Exception:  # noqa  (synthesize failures belong to C03)
            return out
        out.append(('synth', bs))
        if r < 0.3:
            for nm, fn in (('nand', pyrtl.nand_synth), ('aig', pyrtl.and_inverter_synth)):
                b2 = passlib.private_copy(bs)
                try:
                    passlib.run_in(b2, lambda: fn(block=b2))
                    b2.sanity_check()
                    out.append((nm, b2))
                except Exception:  # noqa  (belongs to C09)
                    pass
    return out


def _net_names(op, par, args, dests):
    return (op, par, tuple(args), tuple(dests))


def _real_nets(block):
    out = []
    for n in block.logic:
        par = n.op_param
        if n.op in 'm@':
            par = par[1].name
        elif n.op == 's':
            par = tuple(int(x) for x in par)
        out.append(_net_names(n.op, par, [('const', a.bitwidth, int(a.val)) if isinstance(a, Const) else a.name for a in n.args],
                              [d.name for d in n.dests]))
    # (which Const object carries a value is immaterial: constants are compared by width and value)
    # (Block.logic is a set of value-compared tuples: two identical nets -- e.g. two write ports that became identical
    # after a substitution -- are one element there; the comparison with the model is therefore on sets)
    return sorted(set(out), key=repr)


def _derive_cert(kind, ser, after_block):
    """(indices of removed nets, [(removed dest id, replacement id)]) as the alias pass `kind` is specified, read off the
    block before the call (wire / slice removal) or off before and after (one CSE round)"""
    nets = ser.nets
    wid = ser.wid
    if kind in ('wire', 'slice'):
        def is_alias(n):
            if kind == 'wire':
                return n.op == 'w'
            return (n.op == 's' and len(n.args[0]) == len(n.dests[0])
                    and tuple(n.op_param) == tuple(range(n.op_param[0], n.op_param[-1] + 1)))
        src = {n.dests[0]: n.args[0] for n in nets if is_alias(n)}

        def find(w):
            while w in src:
                w = src[w]
            return w
        removed = [i for i, n in enumerate(nets) if is_alias(n) and not isinstance(n.dests[0], Output)]
        sigma = [[wid[nets[i].dests[0]], wid[find(nets[i].dests[0])]] for i in removed]
        return removed, sigma
    after_dests = {d.name for n in after_block.logic for d in n.dests}
    removed, sigma = [], []
    for i, n in enumerate(nets):
        if n.op in 'r@' or not n.dests or n.dests[0].name in after_dests:
            continue
        # a kept net computing the same thing: same arguments in the same order first, then (commutative ops only) swapped
        def key(w):
            return ('const', w.bitwidth, w.val) if isinstance(w, Const) else id(w)
        na = [key(a) for a in n.args]
        found = None
        for swapped in (False, True):
            if swapped and n.op not in '&|^n+*=':
                break
            for k in nets:
                if k is n or k.op != n.op or not k.dests or k.dests[0].name not in after_dests or isinstance(k.dests[0], (Output, Register)):
                    continue
                kp = k.op_param[1].id if k.op == 'm' else k.op_param
                np_ = n.op_param[1].id if n.op == 'm' else n.op_param
                if kp != np_ or len(k.dests[0]) != len(n.dests[0]):
                    continue
                ka = [key(a) for a in k.args]
                if ka == (na[::-1] if swapped else na):
                    found = k
                    break
            if found is not None:
                break
        if found is not None:
            removed.append(i)
            sigma.append([wid[n.dests[0]], wid[found.dests[0]]])
    return removed, sigma


def _derive_constprop(ser, after):
    """certificate of one constant-propagation pass: the *kind* of each change follows the pass's rules (fold to a constant,
    pass the other operand through, invert the other operand), the *names* of the constants are read off the block after
    the call.  Returns (block data extended by the constant wires, wire names by id, removed net indices, sigma, rewrites)
    or None when a register is folded (outside the model)."""
    import copy
    nets = ser.nets
    data = copy.deepcopy(ser.data)
    names = [w.name for w in ser.wires]
    idof = {n_: i for i, n_ in enumerate(names)}

    def add_const(name, width, val):
        idof[name] = len(names)
        names.append(name)
        data['wires'].append({'n': name, 'w': width, 'k': 'c', 'v': int(val)})
    for w in sorted(after.wirevector_set, key=lambda w_: w_.name):
        if w.name not in idof:
            if not isinstance(w, Const):
                raise ValueError('new non-constant wire %s' % w.name)
            add_const(w.name, w.bitwidth, w.val)
    after_by_dest = {}
    for n in after.logic:
        for d in n.dests:
            after_by_dest[d.name] = n
    two = {'&': lambda l, r: l & r, '|': lambda l, r: l | r, '^': lambda l, r: l ^ r, 'n': lambda l, r: 1 - (l & r)}
    plan = {}       # net index -> ('const', value) | ('wire', other wire) | ('inv', other wire)
    for i, n in enumerate(nets):
        if n.op in 'wcsm@' or n.op not in '~&|^nr':
            continue
        nconst = sum(isinstance(a, Const) for a in n.args)
        if nconst == 0:
            continue
        if n.op == 'r':
            return None
        if n.op in two and nconst == 1:
            if any(len(w) != 1 for w in n.args + n.dests):
                continue
            cw, other = n.args
            if isinstance(other, Const):
                cw, other = other, cw
            outs = [two[n.op](cw.val, x) for x in (0, 1)]
            plan[i] = ('const', outs[0]) if outs[0] == outs[1] else (('wire', other) if outs[0] == 0 else ('inv', other))
        elif n.op in two:
            if n.op == 'n':
                plan[i] = ('const', ~(n.args[0].val & n.args[1].val) & n.args[0].bitmask)
            else:
                plan[i] = ('const', two[n.op](n.args[0].val, n.args[1].val))
        else:
            plan[i] = ('const', ~n.args[0].val & n.args[0].bitmask)
    removed = [i for i, pl in plan.items() if pl[0] != 'inv' and not isinstance(nets[i].dests[0], Output)]
    removed_ids = set(removed)
    removed_dest = {nets[i].dests[0]: i for i in removed}
    synth = [0]

    def const_name_for(i, val):
        """the constant wire the pass made for the folded net i: the one its surviving readers now read"""
        d = nets[i].dests[0]
        if isinstance(d, Output):
            na = after_by_dest.get(d.name)
            if na is not None and na.op == 'w' and isinstance(na.args[0], Const):
                return na.args[0].name
        # the wires that now stand for d: d itself and every removed pass-through gate whose operand chain ends in d
        group = [d]
        grew = True
        while grew:
            grew = False
            for j in removed:
                if plan[j][0] == 'wire' and any(plan[j][1] is g_ for g_ in group) and not any(nets[j].dests[0] is g_ for g_ in group):
                    group.append(nets[j].dests[0])
                    grew = True
        for n2i, n2 in enumerate(nets):
            if n2.op == '@':
                # a write port has no destination to find it by: match it by its memory and its unchanged arguments
                hits = [k for k, a in enumerate(n2.args) if any(a is g_ for g_ in group)]
                if hits:
                    cands = [x for x in after.logic if x.op == '@' and x.op_param[0] == n2.op_param[0]
                             and all(x.args[k].name == n2.args[k].name for k in range(3) if k not in hits and n2.args[k].name in
                                     {w_.name for w_ in after.wirevector_set})]
                    cands = [x for x in cands if isinstance(x.args[hits[0]], Const)]
                    if cands:
                        return cands[0].args[hits[0]].name
                continue
            if n2i in removed_ids or not n2.dests:
                continue
            if n2i in plan and plan[n2i][0] in ('inv', 'wire') and any(plan[n2i][1] is g_ for g_ in group):
                # a reader that is itself rewritten into `~ operand` / `w operand`
                na = after_by_dest.get(n2.dests[0].name)
                if na is not None and len(na.args) == 1 and isinstance(na.args[0], Const):
                    return na.args[0].name
                continue
            hits = [k for k, a in enumerate(n2.args) if any(a is g_ for g_ in group)]
            if hits:
                na = after_by_dest.get(n2.dests[0].name)
                if na is not None and len(na.args) == len(n2.args) and isinstance(na.args[hits[0]], Const) \
                        and (na.op == n2.op or (n2i in plan)):
                    return na.args[hits[0]].name
        synth[0] += 1
        nm = 'verif_const_%d_%d' % (i, synth[0])
        add_const(nm, len(d), val)
        return nm
    target = {}     # removed dest wire -> replacement wire name (before chains are resolved)
    rewrites = []
    for i, pl in sorted(plan.items()):
        n = nets[i]
        d = n.dests[0]
        if pl[0] == 'inv':
            rewrites.append({'old': i, 'new': {'op': '~', 'a': [idof[pl[1].name]], 'd': [idof[d.name]]}})
        elif isinstance(d, Output):
            src = const_name_for(i, pl[1]) if pl[0] == 'const' else pl[1].name
            rewrites.append({'old': i, 'new': {'op': 'w', 'a': [idof[src]], 'd': [idof[d.name]]}})
        else:
            target[d.name] = const_name_for(i, pl[1]) if pl[0] == 'const' else pl[1].name

    def resolve(nm, depth=0):
        return nm if nm not in target or depth > 200 else resolve(target[nm], depth + 1)
    sigma = [[idof[nets[i].dests[0].name], idof[resolve(nets[i].dests[0].name)]] for i in removed]
    return data, names, removed, sigma, rewrites


def _model_nets(resp_nets, wires_data, names, memname):
    """the nets the driver returned, by wire names (constants by width and value), as a sorted set"""
    def arg(x):
        w = wires_data[x]
        return ('const', w['w'], int(w['v'])) if w['k'] == 'c' else names[x]
    want = []
    for n in resp_nets:
        par = n.get('p')
        if n['op'] in 'm@':
            par = memname.get(par, par)
        elif n['op'] == 's':
            par = tuple(par)
        want.append(_net_names(n['op'], par, [arg(x) for x in n['a']], [names[x] for x in n['d']]))
    return sorted(set(want), key=repr)


class AliasWatch(object):
    """while active, every call of passes._remove_wire_nets / _remove_slice_nets / _replace_subexps is compared with the
    Lean model of alias elimination: the certificate derived for the call must be justified (certOk, schedsOkB) and
    Alias.applyCert of the block before the call must equal the block after it, net by net"""
    MAXNETS = 60

    def __init__(self, ctx):
        self.ctx = ctx
        self.saved = {}

    def _wrap(self, name, kind):
        orig = getattr(passes, name)
        ctx = self.ctx

        def wrapped(block, *a, **kw):
            small = len(block.logic) <= self.MAXNETS and not any(isinstance(w, Const) and False for w in ())
            ser = Ser(block) if small else None
            res = orig(block, *a, **kw)
            if not small:
                ctx.count('alias-tie-skipped-large-block', kind)
                return res
            try:
                removed, sigma = _derive_cert(kind, ser, block)
                resp = ctx.driver.ask({'cmd': 'alias', 'block': ser.data, 'removed': removed, 'sigma': sigma})
            except Exception as e:  # noqa
                ctx.alias_err = getattr(ctx, 'alias_err', 0) + 1
                ctx.alias_first = getattr(ctx, 'alias_first', None) or ('%s: %s: %s' % (kind, type(e).__name__, str(e)[:200]))
                return res
            if not resp.get('ok'):
                raise RuntimeError('alias model: %s' % resp)
            ctx.alias_n = getattr(ctx, 'alias_n', 0) + 1
            ctx.count('alias-tie', kind)
            ctx.count('alias-tie-removed-nets', min(len(removed), 5))
            if not resp['scheds_ok']:
                ctx.alias_notok = getattr(ctx, 'alias_notok', 0) + 1
                if os.environ.get('VERIF_ALIAS_DEBUG'):
                    import json as _j
                    with open(os.environ['VERIF_ALIAS_DEBUG'], 'a') as f_:
                        f_.write(_j.dumps({'kind': kind, 'removed': removed, 'sigma': sigma, 'resp_cert_ok': resp['cert_ok'],
                                           'nets': [str(n_).strip() for n_ in ser.nets], 'wires': [w_.name for w_ in ser.wires]}) + '\n')
                ctx.alias_first = getattr(ctx, 'alias_first', None) or ('%s: certificate not accepted (cert_ok=%s) removed=%r sigma=%r' % (
                    kind, resp['cert_ok'], removed, sigma))
            memname = {mid: m.name for mid, m in ser.mems.items()}
            want = _model_nets(resp['nets'], ser.data['wires'], [w_.name for w_ in ser.wires], memname)
            got = _real_nets(block)
            if want != got:
                ctx.alias_bad = getattr(ctx, 'alias_bad', 0) + 1
                only_m = [x for x in want if x not in got][:2]
                only_r = [x for x in got if x not in want][:2]
                ctx.alias_first = getattr(ctx, 'alias_first', None) or ('%s: only in model %r, only in pass output %r' % (kind, only_m, only_r))
            return res
        self.saved[name] = orig
        setattr(passes, name, wrapped)

    def _wrap_dead(self):
        orig = passes._remove_unlistened_nets
        ctx = self.ctx

        def wrapped(block, *a, **kw):
            small = len(block.logic) <= self.MAXNETS
            ser = Ser(block) if small else None
            res = orig(block, *a, **kw)
            if not small:
                ctx.count('dead-tie-skipped-large-block', 'n')
                return res
            kept = set(id(n) for n in block.logic)
            removed = [i for i, n in enumerate(ser.nets) if id(n) not in kept]
            if any(ser.nets[i].op in 'r@' for i in removed):
                ctx.count('dead-tie-skipped', 'removes a register net (outside the model)')
                return res
            resp = ctx.driver.ask({'cmd': 'dead', 'block': ser.data, 'removed': removed})
            if not resp.get('ok'):
                raise RuntimeError('dead model: %s' % resp)
            ctx.dead_n = getattr(ctx, 'dead_n', 0) + 1
            ctx.count('dead-tie-removed-nets', min(len(removed), 5))
            if not resp['scheds_ok']:
                ctx.dead_notok = getattr(ctx, 'dead_notok', 0) + 1
                ctx.dead_first = getattr(ctx, 'dead_first', None) or ('removal not accepted (dead_ok=%s): removed %r' % (
                    resp['dead_ok'], [str(ser.nets[i]).strip() for i in removed][:3]))
            memname = {mid: m.name for mid, m in ser.mems.items()}
            want = _model_nets(resp['nets'], ser.data['wires'], [w_.name for w_ in ser.wires], memname)
            if want != _real_nets(block):
                ctx.dead_bad = getattr(ctx, 'dead_bad', 0) + 1
            return res
        self.saved['_remove_unlistened_nets'] = orig
        passes._remove_unlistened_nets = wrapped

    def _wrap_constprop(self):
        orig = passes._constant_prop_pass
        ctx = self.ctx

        def wrapped(block, *a, **kw):
            small = len(block.logic) <= self.MAXNETS
            ser = Ser(block) if small else None
            res = orig(block, *a, **kw)
            if not small:
                ctx.count('constprop-tie-skipped-large-block', 'n')
                return res
            try:
                cert = _derive_constprop(ser, block)
            except Exception as e:  # noqa
                ctx.cp_err = getattr(ctx, 'cp_err', 0) + 1
                ctx.cp_first = getattr(ctx, 'cp_first', None) or ('derivation: %s: %s' % (type(e).__name__, str(e)[:160]))
                return res
            if cert is None:
                ctx.count('constprop-tie-skipped', 'folds a register (the sanctioned difference, outside the model)')
                return res
            data, names, removed, sigma, rewrites = cert
            resp = ctx.driver.ask({'cmd': 'alias', 'block': data, 'removed': removed, 'sigma': sigma, 'rewrites': rewrites})
            if not resp.get('ok'):
                raise RuntimeError('alias model: %s' % resp)
            ctx.cp_n = getattr(ctx, 'cp_n', 0) + 1
            ctx.count('constprop-tie', 'removed=%d rewritten=%d' % (min(len(removed), 4), min(len(rewrites), 4)))
            if not resp['scheds_ok']:
                ctx.cp_notok = getattr(ctx, 'cp_notok', 0) + 1
                ctx.cp_first = getattr(ctx, 'cp_first', None) or ('certificate not accepted (cert_ok=%s): removed %r, rewrites %r' % (
                    resp['cert_ok'], [str(ser.nets[i]).strip() for i in removed][:3], rewrites[:2]))
                if os.environ.get('VERIF_ALIAS_DEBUG'):
                    import json as _j
                    with open(os.environ['VERIF_ALIAS_DEBUG'], 'a') as f_:
                        f_.write(_j.dumps({'kind': 'constprop', 'removed': removed, 'sigma': sigma, 'rewrites': rewrites,
                                           'nets': [str(n_).strip() for n_ in ser.nets], 'wires': names,
                                           'after': [str(n_).strip() for n_ in block.logic]}) + '\n')
            memname = {mid: m.name for mid, m in ser.mems.items()}
            want = _model_nets(resp['nets'], data['wires'], names, memname)
            if want != _real_nets(block):
                ctx.cp_bad = getattr(ctx, 'cp_bad', 0) + 1
                got = _real_nets(block)
                ctx.cp_first = getattr(ctx, 'cp_first', None) or ('only in model %r, only in pass output %r' % (
                    [x for x in want if x not in got][:2], [x for x in got if x not in want][:2]))
            return res
        self.saved['_constant_prop_pass'] = orig
        passes._constant_prop_pass = wrapped

    def __enter__(self):
        self._wrap_constprop()
        self._wrap_dead()
        self._wrap('_remove_wire_nets', 'wire')
        self._wrap('_remove_slice_nets', 'slice')
        self._wrap('_replace_subexps', 'cse')
        return self

    def __exit__(self, *exc):
        for name, orig in self.saved.items():
            setattr(passes, name, orig)
        return False


def check_pass(ctx, label, src, pname, steps, steps_alt, memmap_by_id, reps, replay0):
    replay = dict(replay0, variant=label, passname=pname, repeats=reps, block=Ser(src).data)
    ins0, outs0 = passlib.io_names(src)
    work = passlib.private_copy(src)
    try:
        for _ in range(reps):
            if pname == 'optimize-copy':
                # the non-updating form, called while an unrelated block is the working block
                work = passlib.run_in(work, lambda: pyrtl.optimize(update_working_block=False, block=work), foreign=True)
            else:
                with AliasWatch(ctx):
                    passlib.run_in(work, lambda: PASSES[pname](work), foreign=(pname != 'optimize' and ctx.rng.random() < 0.3))
    except Exception as e:  # noqa
        ctx.violation('%s-raises:%s' % (pname, simrun.err_class(e)),
                      '%s on a %s block raised %s: %s' % (pname, label, type(e).__name__, str(e)[:200]), replay)
        return False
    try:
        work.sanity_check()
    except Exception as e:  # noqa
        ctx.violation('%s-malformed' % pname, 'block after %s (%s) fails sanity_check: %s' % (pname, label, str(e)[:200]), replay)
        return False
    ins1, outs1 = passlib.io_names(work)
    if ins1 != ins0 or outs1 != outs0:
        ctx.violation('%s-io-changed' % pname, '%s changed the Input/Output set: inputs %r -> %r, outputs %r -> %r' % (
            pname, ins0, ins1, outs0, outs1), replay)
        return False
    # a register that survives keeps its reset value exactly (None and 0 differ under a non-zero default_value)
    for r0 in src.wirevector_subset(Register):
        r1 = work.wirevector_by_name.get(r0.name)
        if isinstance(r1, Register) and r1.reset_value != r0.reset_value:
            ctx.violation('%s-reset-value' % pname, '%s on a %s block: register %s had reset_value %r, afterwards %r (Simulation(default_value=d) '
                          'starts it at %s instead of %s)' % (pname, label, r0.name, r0.reset_value, r1.reset_value,
                                                              'd' if r1.reset_value is None else r1.reset_value,
                                                              'd' if r0.reset_value is None else r0.reset_value), replay)
            return False
    regs0 = set(w.name for w in src.wirevector_subset(Register))
    regs1 = set(w.name for w in work.wirevector_subset(Register))
    eliminated = regs0 - regs1
    consts = passlib.settle_constants(ctx, src, steps, steps_alt, memmap_by_id, eliminated)
    if consts is None:
        ctx.violation('%s-eliminated-nonconstant-register' % pname,
                      '%s removed register(s) %r whose value is not a compile-time constant' % (pname, sorted(eliminated)), replay)
        return False
    base, bresp, _ = passlib.spec_trace(ctx, src, steps, consts, memmap_by_id, watch=outs0)
    got, gresp, _ = passlib.spec_trace(ctx, work, steps, consts, memmap_by_id, watch=outs0)
    if base is None:
        raise RuntimeError('spec rejected source: %s' % bresp)
    if got is None:
        ctx.violation('%s-malformed' % pname, 'block after %s rejected by the model: %s' % (pname, gresp.get('err')), replay)
        return False
    if bresp.get('romfault'):
        return True
    ncyc = None if bresp.get('wconflict') is None else bresp['wconflict'] + 1
    mm = simrun.compare_traces(base, got, names=outs0, ncycles=ncyc)
    if mm:
        ctx.violation('%s-changes-output:%s' % (pname, label),
                      '%s on a %s block: Output %s cycle %d was %d, now %d' % (pname, label, mm[0], mm[1], mm[2], mm[3]),
                      dict(replay, mismatch=mm, eliminated=consts))
        return False
    if eliminated:
        ctx.count('eliminated-registers', len(eliminated))
    return True


def folded_outputs(ctx):
    """Outputs driven directly by nets the constant folder rewrites (what direct_connect_outputs or a hand-built
    netlist produces): every Output must survive and keep its value."""
    rng = ctx.rng
    for k in range(ctx.n(6, 60)):
        pyrtl.reset_working_block()
        w = rng.choice([1, 1, 2, 4])
        a, b, sel = Input(w, 'a'), Input(w, 'b'), Input(1, 'sel')
        ones, zero = Const((1 << w) - 1, w), Const(0, w)
        cst = Const(rng.getrandbits(w), w)
        r = Register(w, 'r')
        r.next <<= r ^ a
        exprs = [a & ones, a & zero, b | zero, b | ones, a ^ zero, a ^ ones, ~cst, cst & ones, cst ^ cst, a & cst, b | cst,
                 pyrtl.select(Const(1, 1), a, b), pyrtl.select(Const(0, 1), a, b), pyrtl.select(sel, cst, cst), a + zero,
                 r & zero, r | zero, pyrtl.concat(cst, a), cst[0:1], a.nand(zero) if hasattr(a, 'nand') else ~(a & zero)]
        rng.shuffle(exprs)
        for i, e in enumerate(exprs[:rng.randint(4, len(exprs))]):
            o = Output(len(e), 'o%d' % i)
            o <<= e
        blk = pyrtl.working_block()
        if rng.random() < 0.8:
            pyrtl.direct_connect_outputs(blk)
        steps = [{'a': rng.getrandbits(w), 'b': rng.getrandbits(w), 'sel': rng.getrandbits(1)} for _ in range(4)]
        steps_alt = [{'a': rng.getrandbits(w), 'b': rng.getrandbits(w), 'sel': rng.getrandbits(1)} for _ in range(4)]
        replay0 = {'kind': 'design', 'label': 'folded-outputs#%d' % k, 'steps': steps, 'memmap': {}}
        for pname in ('optimize', 'constant_propagation', 'optimize-copy'):
            check_pass(ctx, 'direct-outputs', blk, pname, steps, steps_alt, {}, 1, replay0)
            ctx.case(('folded-outputs', pname, k), nontrivial=True)
            ctx.count('pass', pname)
        ctx.count('variant', 'folded-outputs')


def main(ctx):
    proofs_ok = proof_gate(ctx, gen_modules=['ConstFold'])
    n = ctx.n(40, 2000)
    if not proofs_ok:
        n *= 3
    agree = total = 0
    for k in ctx.loop(n):
        rng = ctx.rng
        d = gen.rand_design(rng, profile='small' if k % 3 else 'med', nops=rng.randint(3, 12), max_total=40,
                            wide_mem=False, raw=False, twins=True,
                            ops=gen.OPS_ALL + ['constop', 'constop', 'const', 'constreg'])
        if k % 2 == 0 and d.inputs:
            # several foldable nets whose results are the same number at different widths (and twice at the same width)
            with pyrtl.set_working_block(d.block, no_sanity_check=True):
                v = rng.choice([0, 1, 2, 3, 5])
                ws = rng.sample([3, 4, 5, 7, 9], 3)
                ws.append(ws[0])
                for j, w_ in enumerate(ws):
                    how = rng.randrange(3)
                    if how == 0:
                        f = ~pyrtl.Const(((1 << w_) - 1) ^ v, w_)
                    elif how == 1:
                        f = pyrtl.Const(v | (1 << (w_ - 1)), w_) & pyrtl.Const((1 << (w_ - 1)) - 1, w_)
                    else:
                        f = pyrtl.Const(v, w_) | pyrtl.Const(0, w_)
                    o = pyrtl.Output(w_ + len(d.inputs[j % len(d.inputs)]), 'ofold%d' % j)
                    o <<= pyrtl.concat(d.inputs[j % len(d.inputs)], f)
                    d.outputs.append(o)
            ctx.count('equal-folds-different-widths', 'added')
        steps = gen.rand_stimulus(rng, d, rng.choice([3, 5]))
        steps_alt = gen.rand_stimulus(rng, d, len(steps))
        _, memmap, _ = gen.rand_init(rng, d, with_default=False)
        memmap_by_id = {m.id: mm for m, mm in memmap.items()}
        replay0 = {'kind': 'design', 'label': 'opt#%d' % k, 'steps': steps,
                   'memmap': {str(i): {str(a): v for a, v in mm.items()} for i, mm in memmap_by_id.items()}}
        desc = d.describe()
        for label, blk in variants(ctx, d):
            for pname in PASSES:
                if pname != 'optimize' and rng.random() < 0.5:
                    continue
                reps = 2 if rng.random() < 0.25 else 1
                ok = check_pass(ctx, label, blk, pname, steps, steps_alt, memmap_by_id, reps, replay0)
                total += 1
                agree += ok
                ctx.case((label, pname, reps, desc['nets'], tuple(desc['ops'])), nontrivial=desc['nets'] >= 3)
                ctx.count('pass', pname)
                ctx.count('variant', label)
        ctx.sample({'design': desc, 'cycles': len(steps)})
        if len(ctx.violations) >= 6:
            break
    folded_outputs(ctx)
    an, ab, ak, ae = (getattr(ctx, x, 0) for x in ('alias_n', 'alias_bad', 'alias_notok', 'alias_err'))
    ctx.oblige('tie:_remove_wire_nets / _remove_slice_nets / every CSE round = Lean Alias.applyCert of a justified certificate '
               '(net by net; certOk and schedsOkB evaluated per call)', ab == 0 and ak == 0 and ae == 0 and an > 0,
               '%d/%d calls differ, %d certificates not accepted, %d derivation errors%s' % (
                   ab, an, ak, ae, ('; first: ' + ctx.alias_first) if getattr(ctx, 'alias_first', None) else ''))
    ctx.extra['alias_tie'] = {'calls': an, 'differ': ab, 'not_accepted': ak, 'errors': ae}
    cn, cb, ck, ce = (getattr(ctx, x, 0) for x in ('cp_n', 'cp_bad', 'cp_notok', 'cp_err'))
    ctx.oblige('tie:every constant-propagation pass = Lean Alias.applyCert of a justified certificate with folds, pass-through gates '
               'and rewrites (net by net; certOk and schedsOkB evaluated per call; passes that fold a register are outside the model)',
               cb == 0 and ck == 0 and ce == 0 and cn > 0,
               '%d/%d calls differ, %d certificates not accepted, %d derivation errors%s' % (
                   cb, cn, ck, ce, ('; first: ' + ctx.cp_first) if getattr(ctx, 'cp_first', None) else ''))
    ctx.extra['constprop_tie'] = {'calls': cn, 'differ': cb, 'not_accepted': ck, 'errors': ce}
    dn, db, dk = (getattr(ctx, x, 0) for x in ('dead_n', 'dead_bad', 'dead_notok'))
    ctx.oblige('tie:_remove_unlistened_nets = Lean Dead.applyDead of a closed removal (net by net; deadOk and deadSchedsOkB '
               'evaluated per call; calls that remove a register net are outside the model and skipped)', db == 0 and dk == 0 and dn > 0,
               '%d/%d calls differ, %d removals not accepted%s' % (db, dn, dk, ('; first: ' + ctx.dead_first) if getattr(ctx, 'dead_first', None) else ''))
    ctx.extra['dead_tie'] = {'calls': dn, 'differ': db, 'not_accepted': dk}
    ctx.oblige('oracle:Spec(pass(b))=Spec(b) on Outputs; io kept; result well-formed', not ctx.violations,
               '%d/%d (variant, pass) applications agree' % (agree, total))
    return conclude(ctx, rule='random designs enriched with constants (constant operands, constant-fed registers, constants '
                    'into memory writes) x {word-level, synthesized, nand-, and-inverter-lowered} x each pass and optimize x '
                    'repeated application; distinct = (variant, pass, repeats, net count, op set)')
