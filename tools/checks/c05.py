"""C05 — exported Verilog (module and testbench) reproduces the simulation.

For generated designs (all ops but nand; names needing sanitising; ROMs; multi-port memories; registers
with reset values) x add_reset in {True, False, 'asynchronous'}:
 (i)   the text written by output_to_verilog is parsed by a strict recogniser of the emitted subset
       (vlib/vparse.py) and must equal, as an AST, the Lean model of the emitter (Model/Verilog/Emit.lean);
 (ii)  the parsed module is *executed* by the Lean evaluator of the subset under IEEE 1364-2001 width
       and non-blocking-assignment rules (Model/Verilog/Sem.lean, driver `vsim`) with registers starting
       at their reset values and random initial memory contents, and its Outputs are compared cycle by
       cycle with pyrtl.Simulation; a rst pulse must bring the registers to their reset values;
 (iii) the testbench written from a trace of each of the three simulators is parsed; it must drive exactly
       the traced inputs, initialise every register and memory word to the state that simulation started
       from, leave ROM contents alone, and module + testbench together must reproduce the traced Outputs.
Proofs: Proofs/Props/C05.lean (for every op and all widths, the emitted assignment under Verilog's width
rules = Spec.comb; register/memory statements)."""
import io
import json
import pyrtl
from pyrtl import Input, Output, Register
from pyrtl.memory import RomBlock
from vlib import gen, simrun, vparse
from vlib.common import proof_gate, conclude
from vlib.serialize import Ser

OPS = [o for o in gen.OPS_ALL if o not in ('nand', 'rawtrunc')]
RESETS = [True, False, 'asynchronous']
RCODE = {False: 0, True: 1, 'asynchronous': 2}


class Capture(object):
    """record the sanitiser instances created while `fn` runs (the name map actually used)"""

    def __enter__(self):
        from pyrtl import importexport as ie
        self.ie = ie
        self.orig = getattr(ie, '_VerilogSanitizer', None)
        self.insts = []
        if self.orig is not None:
            cap = self
            self.orig_init = self.orig.__init__

            def init(obj, *a, **k):
                cap.orig_init(obj, *a, **k)
                cap.insts.append(obj)
            self.orig.__init__ = init
        return self

    def __exit__(self, *a):
        if self.orig is not None:
            self.orig.__init__ = self.orig_init

    def name_map(self, block):
        if self.insts and hasattr(self.insts[-1], 'val_map'):
            vm = self.insts[-1].val_map
            if all(w.name in vm for w in block.wirevector_set):
                return {w.name: vm[w.name] for w in block.wirevector_set}
        return None


def emit_module(block, add_reset):
    with Capture() as cap:
        f = io.StringIO()
        pyrtl.output_to_verilog(f, add_reset=add_reset, block=block)
    return f.getvalue(), cap.name_map(block)


def emit_testbench(block, trace, add_reset, **kw):
    with Capture() as cap:
        f = io.StringIO()
        pyrtl.output_verilog_testbench(f, simulation_trace=trace, add_reset=add_reset, block=block, **kw)
    return f.getvalue(), cap.name_map(block)


def canon(mod):
    """order-insensitive form of a module AST (sections are sets; statement lists inside a branch too)"""
    def cs(s):
        if s[0] == 'if':
            return ['if', s[1], sorted((cs(x) for x in s[2]), key=json.dumps), sorted((cs(x) for x in s[3]), key=json.dumps)]
        return s
    return {
        'widths': sorted(list(x) for x in mod['widths'] if x[0] not in ('clk', 'rst')), 'inputs': sorted(n for n in mod['inputs'] if n not in ('clk', 'rst')),
        'outputs': sorted(mod['outputs']), 'regs': sorted(mod['regs']), 'mems': sorted(map(list, mod['mems'])),
        'rominit': sorted(map(list, mod['rominit'])), 'assigns': sorted(mod['assigns'], key=json.dumps),
        'always': sorted(({'async': a['async'], 'body': sorted((cs(s) for s in a['body']), key=json.dumps)} for a in mod['always']),
                         key=json.dumps)}


def first_diff(a, b):
    for k in a:
        if a[k] != b[k]:
            xa = [x for x in a[k] if x not in b[k]][:2]
            xb = [x for x in b[k] if x not in a[k]][:2]
            return '%s: emitted %s / model %s' % (k, json.dumps(xa)[:300], json.dumps(xb)[:300])
    return None


def start_state(d, regmap, memmap, dflt):
    regs = {}
    for r in d.block.wirevector_subset(Register):
        v = regmap.get(r, r.reset_value)
        regs[r] = dflt if v is None else v
    return regs


def used_mems(block):
    return sorted({n.op_param[1] for n in block.logic_subset('m@')}, key=lambda m: m.id)


def vsim(ctx, mod, steps_named, reginit, meminit, dflt, watch):
    req = {'cmd': 'vsim', 'module': mod, 'default': dflt,
           'reginit': sorted([n, int(v)] for n, v in reginit.items()),
           'meminit': sorted([n, sorted([int(a), int(v)] for a, v in d.items())] for n, d in meminit.items()),
           'inputs': [sorted([n, int(v)] for n, v in s.items()) for s in steps_named], 'watch': watch}
    return ctx.driver.ask(req)


def check_module(ctx, d, label):
    rng = ctx.rng
    block = d.block
    ser = Ser(block)
    ncyc = 8
    steps = gen.rand_stimulus(rng, d, ncyc)
    _, memmap, _ = gen.rand_init(rng, d, with_default=False)
    ref = simrun.run_real(pyrtl.Simulation, block, steps, {}, memmap, 0)
    nref = ncyc if ref['err'] is None else max(ref['err'][0], 0)
    # stop at the first write conflict (two enabled ports, same word, different data: order is unspecified)
    spec = ctx.driver.ask(simrun.lean_request(ser, steps, {}, memmap, 0, model='spec', watch=[]))
    if spec.get('ok') and spec.get('wconflict') is not None:
        nref = min(nref, spec['wconflict'] + 1)
    outs = sorted(w.name for w in block.wirevector_subset(Output))
    ok_all = True
    for add_reset in RESETS:
        replay = {'kind': 'module', 'label': label, 'add_reset': add_reset, 'block': ser.data, 'steps': steps,
                  'memmap': {m.name: v for m, v in memmap.items()}}
        try:
            text, nmap = emit_module(block, add_reset)
        except pyrtl.PyrtlError as e:
            ctx.violation('verilog-export-raises', 'output_to_verilog(add_reset=%r) raised PyrtlError on a well-formed design: %s' % (
                add_reset, str(e)[:200]), replay)
            return False
        replay['verilog'] = text
        try:
            mod = vparse.parse_module(text)
        except vparse.VParseError as e:
            ctx.violation('verilog-not-in-subset:' + str(e).split(' ')[0], 'emitted module is outside the Verilog subset / ill-formed: %s' % e, replay)
            ok_all = False
            continue
        if nmap is None:
            names = {w.name for w in block.wirevector_set}
            declared = {n for n, _ in mod['widths']}
            if not names <= declared:
                ctx.count('skipped', 'name map unavailable')
                continue
            nmap = {n: n for n in names}
        if len(set(nmap.values())) != len(nmap):
            clash = sorted(n for n in nmap if list(nmap.values()).count(nmap[n]) > 1)
            ctx.violation('verilog-name-collision', 'two wires share one Verilog name: %r' % clash[:4], replay)
            ok_all = False
            continue
        # (i) emitter correspondence
        vn = [nmap[w.name] for w in ser.wires]
        em = ctx.driver.ask({'cmd': 'vemit', 'block': ser.data, 'vnames': vn, 'reset': RCODE[add_reset]})
        corr = None
        if em.get('ok') and em.get('module') is not None:
            corr = first_diff(canon(mod), canon(em['module']))
            ctx.count('emit-correspondence', 'equal' if corr is None else 'different')
            if corr is not None:
                ctx.extra.setdefault('emit_diffs', []).append(corr)
        # (ii) execution
        mname = {m: 'mem_%d' % m.id for m in used_mems(block)}
        meminit = {mname[m]: v for m, v in memmap.items() if m in mname}
        reginit = {nmap[r.name]: (r.reset_value or 0) for r in block.wirevector_subset(Register)}
        vsteps = []
        for s in steps:
            t = {nmap[k]: v for k, v in s.items()}
            if add_reset:
                t['rst'] = 0
            vsteps.append(t)
        resp = vsim(ctx, mod, vsteps, reginit, meminit, 0, [nmap[o] for o in outs])
        if not resp.get('ok'):
            ctx.violation('verilog-module-ill-formed', 'emitted module cannot be executed: %s' % resp.get('err'), replay)
            ok_all = False
            continue
        bad = None
        for c in range(nref):
            for k, o in enumerate(outs):
                if resp['trace'][c][k] != ref['trace'][o][c]:
                    bad = (c, o, resp['trace'][c][k], ref['trace'][o][c])
                    break
            if bad:
                break
        if bad:
            drv = [n for n in block.logic if n.dests and n.dests[0].name == bad[1]]
            ctx.violation('verilog-module-output:' + (drv[0].op if drv else '?'),
                          'add_reset=%r cycle %d Output %s: Verilog gives %d, pyrtl.Simulation gives %d' % ((add_reset,) + bad),
                          dict(replay, cycle=bad[0], output=bad[1]))
            ok_all = False
            continue
        if corr is not None:
            ctx.oblige('correspondence:emitted text = Model/Verilog/Emit.lean', False, corr)
        # rst pulse in cycle 0: the registers must come out at their reset values
        if add_reset and block.wirevector_subset(Register) and nref == ncyc:
            a = simrun.run_real(pyrtl.Simulation, block, steps[:1], {}, memmap, 0)
            mem_after = {}
            for m in memmap.keys() | set(mname.keys()):
                if isinstance(m, RomBlock) or m.id not in a['mem']:
                    continue
                mem_after[m] = dict(a['mem'][m.id])
            bref = simrun.run_real(pyrtl.Simulation, block, steps[1:], {}, mem_after, 0)
            vs2 = [dict(s) for s in vsteps]
            vs2[0]['rst'] = 1
            # registers start at their reset values (cycle-0 memory writes must match run A); the pulse must hold them there
            r2 = vsim(ctx, mod, vs2, reginit, meminit, 0, [nmap[o] for o in outs])
            specb = ctx.driver.ask(simrun.lean_request(ser, steps[1:], {}, mem_after, 0, model='spec', watch=[]))
            nb = ncyc
            if specb.get('ok') and specb.get('wconflict') is not None:
                nb = min(ncyc, specb['wconflict'] + 2)        # cycles of run B are shifted by one
            if r2.get('ok') and bref['err'] is None and (not spec.get('ok') or spec.get('wconflict') is None or spec['wconflict'] > 0):
                for c in range(1, nb):
                    for k, o in enumerate(outs):
                        if r2['trace'][c][k] != bref['trace'][o][c - 1]:
                            ctx.violation('verilog-reset', 'add_reset=%r: after a rst pulse in cycle 0, cycle %d Output %s is %d; a simulation '
                                          'started from the reset values gives %d' % (add_reset, c, o, r2['trace'][c][k], bref['trace'][o][c - 1]),
                                          dict(replay, cycle=c, output=o))
                            ok_all = False
                            break
                    else:
                        continue
                    break
            ctx.count('reset-pulse', str(add_reset))
        ctx.count('add_reset', str(add_reset))
    return ok_all


def check_testbench(ctx, d, label, simcls):
    rng = ctx.rng
    block = d.block
    ser = Ser(block)
    ncyc = rng.randint(1, 6)
    steps = gen.rand_stimulus(rng, d, ncyc)
    regmap, memmap, dflt = gen.rand_init(rng, d)
    add_reset = rng.choice(RESETS)
    sname = simcls.__name__
    bools = simcls is not pyrtl.CompiledSimulation and rng.random() < 0.5
    ctx.count('tb-one-bit-inputs-as-bool', bools)
    run = simrun.run_real(simcls, block, steps, regmap, memmap, dflt, bool_inputs=bools)
    if run['err'] is not None or run['sim'] is None:
        ctx.count('tb-skipped', 'simulation error')
        return True
    # (CompiledSimulation applies default_value to registers only: its unwritten memory words read 0, and the write-conflict
    # cycle below has to be computed from the contents the simulation really had)
    memmap_spec, dflt_spec = memmap, dflt
    if simcls is pyrtl.CompiledSimulation and dflt:
        rams_ = [m_ for m_ in d.mems if not isinstance(m_, RomBlock)]
        if all(m_.addrwidth <= 10 for m_ in rams_):
            memmap_spec = dict(memmap)
            for m_ in rams_:
                memmap_spec[m_] = {a_: memmap.get(m_, {}).get(a_, 0) for a_ in range(1 << m_.addrwidth)}
        else:
            dflt_spec = 0
    spec = ctx.driver.ask(simrun.lean_request(ser, steps, regmap, memmap_spec, dflt_spec, model='spec', watch=[]))
    replay = {'kind': 'testbench', 'label': label, 'simulator': sname, 'add_reset': add_reset, 'block': ser.data, 'steps': steps,
              'regmap': {r.name: v for r, v in regmap.items()}, 'memmap': {m.name: v for m, v in memmap.items()}, 'default': dflt}
    kw = {}
    if rng.random() < 0.5:
        kw['vcd'] = None
    if rng.random() < 0.3:
        kw['cmd'] = '$display("%d", 1);'
    if rng.random() < 0.2:
        kw['toplevel_include'] = 'top.v'
    try:
        text, nmap = emit_testbench(block, run['sim'].tracer, add_reset, **kw)
        mtext, nmap2 = emit_module(block, add_reset)
    except pyrtl.PyrtlError as e:
        ctx.violation('testbench-raises:' + sname, 'output_verilog_testbench raised PyrtlError: %s' % str(e)[:200], replay)
        return False
    except Exception as e:  # noqa
        ctx.violation('testbench-crashes:%s:%s' % (sname, type(e).__name__), 'output_verilog_testbench raised %s: %s' % (
            type(e).__name__, str(e)[:200]), replay)
        return False
    replay['testbench'] = text
    try:
        tb = vparse.parse_testbench(text)
        mod = vparse.parse_module(mtext)
    except vparse.VParseError as e:
        clash = [n for n in ('tb_iter', 'block') if str(e) == '%s declared twice in the testbench' % n]
        if clash:
            ctx.violation('testbench-name-clash:' + clash[0], 'an Input/Output named %r collides with the testbench\'s own identifier of that name' % clash[0], replay)
        else:
            ctx.violation('testbench-not-in-subset', 'emitted testbench is outside the subset / ill-formed: %s' % e, replay)
        return False
    if nmap2 is None:
        ctx.count('tb-skipped', 'name map unavailable')
        return True
    if nmap is None:
        # the testbench's sanitiser was not given every wire: whatever names it uses have to be the module's
        ctx.count('tb-name-map', 'partial: checked against the module map')
        nmap = nmap2
    if nmap != nmap2:
        ctx.violation('testbench-names', 'testbench and module sanitise names differently', replay)
        return False
    ins = {nmap[w.name]: w for w in block.wirevector_subset(Input)}
    outs = {nmap[w.name]: w for w in block.wirevector_subset(Output)}
    want_regs = dict({'clk': 1}, **{n: len(w) for n, w in ins.items()})
    if add_reset:
        want_regs['rst'] = 1
    if tb['regs'] != want_regs or tb['wires'] != {n: len(w) for n, w in outs.items()}:
        ctx.violation('testbench-decls', 'testbench declares %r / %r, the design has inputs %r and outputs %r' % (
            tb['regs'], tb['wires'], want_regs, {n: len(w) for n, w in outs.items()}), replay)
        return False
    ports = ['clk'] + (['rst'] if add_reset else []) + sorted(ins) + sorted(outs)
    if tb['instance'] != {p: p for p in ports} or sorted(mod['ports']) != sorted(ports):
        ctx.violation('testbench-instance', 'instance connects %r, the module has ports %r' % (tb['instance'], mod['ports']), replay)
        return False
    # inputs: exactly the traced values, every cycle
    if len(tb['cycles']) != ncyc:
        ctx.violation('testbench-cycles', 'testbench replays %d cycles, the trace has %d' % (len(tb['cycles']), ncyc), replay)
        return False
    cur = {}
    vsteps = []
    for c, assigns in enumerate(tb['cycles']):
        for n, (w, v) in assigns.items():
            if n in ('clk', 'rst'):
                if v != 0:
                    ctx.violation('testbench-clk-rst', '%s initialised to %d' % (n, v), replay)
                    return False
                continue
            cur[n] = v % (1 << tb['regs'][n])
            if w is not None and v >= (1 << w):
                cur[n] = v % (1 << w) % (1 << tb['regs'][n])
        for n, wv in ins.items():
            want = steps[c][wv.name]
            if cur.get(n) != want:
                ctx.violation('testbench-input', 'cycle %d: testbench drives %s (%s) with %r, the trace has %d' % (c, n, wv.name, cur.get(n), want),
                              dict(replay, cycle=c, input=wv.name))
                return False
        t = dict(cur)
        if add_reset:
            t['rst'] = 0
        vsteps.append(t)
    # initial state
    regs_by_v = {nmap[r.name]: r for r in block.wirevector_subset(Register)}
    mems = {('mem_%d' % m.id): m for m in used_mems(block)}
    regstate, memstate = {}, {}
    for ent in tb['init']:
        if ent[0] == 'set':
            if ent[1] not in regs_by_v:
                ctx.violation('testbench-init-target', 'testbench initialises block.%s which is not a register of the design' % ent[1], replay)
                return False
            regstate[ent[1]] = ent[2] % (1 << len(regs_by_v[ent[1]]))
        else:
            if ent[1] not in mems:
                ctx.violation('testbench-init-target', 'testbench initialises block.%s which is not a memory of the design' % ent[1], replay)
                return False
            m = mems[ent[1]]
            if ent[0] == 'fill':
                memstate[ent[1]] = {a: ent[3] % (1 << m.bitwidth) for a in range(min(ent[2], 1 << m.addrwidth))} \
                    if m.addrwidth <= 12 else {'fill': ent[3], 'count': ent[2]}
            else:
                memstate.setdefault(ent[1], {})[ent[2]] = ent[3] % (1 << m.bitwidth)
    want = start_state(d, regmap, memmap, dflt)
    for r, v in want.items():
        got = regstate.get(nmap[r.name])
        if got != v:
            ctx.violation('testbench-init-reg:' + sname, 'trace from %s: testbench initialises register %s to %r, the simulation started from %d' % (
                sname, r.name, got, v), dict(replay, register=r.name))
            return False
    for vname, m in mems.items():
        if m.addrwidth > 12:
            continue
        st = memstate.get(vname)
        for a in range(1 << m.addrwidth):
            if isinstance(m, RomBlock):
                wantv = m._get_read_data(a)
                gotv = wantv if st is None else st.get(a, wantv)
            else:
                # CompiledSimulation documents that default_value is not applied to memories
                wantv = memmap.get(m, {}).get(a, 0 if simcls is pyrtl.CompiledSimulation else dflt) % (1 << m.bitwidth)
                gotv = None if st is None else st.get(a)
            if gotv != wantv:
                ctx.violation('testbench-init-mem:%s:%s' % (sname, 'rom' if isinstance(m, RomBlock) else 'ram'),
                              'trace from %s: testbench leaves %s %s[%d] at %r, the simulation started from %d' % (
                                  sname, 'ROM' if isinstance(m, RomBlock) else 'memory', m.name, a, gotv, wantv),
                              dict(replay, memory=m.name, address=a))
                return False
    # closure: module + testbench reproduce the traced outputs
    nref = ncyc
    if spec.get('ok') and spec.get('wconflict') is not None:
        nref = min(nref, spec['wconflict'] + 1)
    meminit = {k: v for k, v in memstate.items() if 'fill' not in v and not isinstance(mems[k], RomBlock)}
    fills = [e[3] for e in tb['init'] if e[0] == 'fill']
    resp = vsim(ctx, mod, vsteps, regstate, meminit, fills[0] if fills else 0, sorted(outs))
    if not resp.get('ok'):
        ctx.violation('verilog-module-ill-formed', 'emitted module cannot be executed: %s' % resp.get('err'), replay)
        return False
    tr = run['trace']
    for c in range(nref):
        for k, o in enumerate(sorted(outs)):
            if outs[o].name in tr and resp['trace'][c][k] != tr[outs[o].name][c]:
                ctx.violation('testbench-replay:' + sname, 'trace from %s: module driven by its testbench gives %s=%d in cycle %d, the trace has %d' % (
                    sname, outs[o].name, resp['trace'][c][k], c, tr[outs[o].name][c]), dict(replay, cycle=c, output=outs[o].name))
                return False
    ctx.count('testbench', sname)
    ctx.count('tb-add_reset', str(add_reset))
    return True


def main(ctx):
    proof_gate(ctx, gen_modules=[])
    rng = ctx.rng
    n = ctx.n(120, 2500)
    for k in ctx.loop(n):
        prof = rng.choice(['small', 'small', 'med', 'limb'])
        style = rng.choice(['verilog', 'verilog', 'verilog-adv', 'plain', 'plain'])
        d = gen.rand_design(rng, profile=prof, ops=OPS, raw=False, name_style=style, max_total=200,
                            nops=rng.randint(3, 18))
        if k % 3 == 0:
            # a name that must be replaced (and sorts before '_') next to wires legitimately called like the
            # replacements the exporter makes up
            ws_ = sorted((w for w in d.block.wirevector_set if not isinstance(w, pyrtl.Const)
                          and w.name not in ('tb_iter', 'block')), key=lambda w: w.name)
            if len(ws_) >= 3 and not ({'_ver_out_tmp_0', '_ver_out_tmp_1'} & {w.name for w in d.block.wirevector_set}):
                picks = rng.sample(ws_, 3)
                try:
                    picks[0].name = rng.choice(['A.', '9', 'Z-']) + 'x%d' % k
                    picks[1].name = '_ver_out_tmp_0'
                    picks[2].name = '_ver_out_tmp_1'
                    ctx.count('names', 'collide-with-generated')
                except pyrtl.PyrtlError:
                    pass
        if k % 3 == 1:
            # an INTERNAL wire whose name must be replaced and sorts before ports / registers whose names must be replaced too:
            # module and testbench have to number their replacements alike
            try:
                inner = sorted((w for w in d.block.wirevector_set if type(w) is pyrtl.WireVector and w.name not in ('tb_iter', 'block')), key=lambda w: w.name)
                if inner:
                    rng.choice(inner).name = 'A.int%d' % k
                    for cls_, pre in ((pyrtl.Input, 'in.'), (pyrtl.Register, 'pipe.'), (pyrtl.Output, 'out.')):
                        ws2 = sorted(d.block.wirevector_subset(cls_), key=lambda w: w.name)
                        if ws2:
                            rng.choice(ws2).name = '%sx%d' % (pre, k)
                    ctx.count('names', 'illegal-internal-before-illegal-ports')
            except pyrtl.PyrtlError:
                pass
        if k % 3 == 2:
            # user-named constants, some with names that must be replaced: a constant is declared, assigned and read under
            # one (replacement) name like any other wire
            consts_ = sorted((w for w in d.block.wirevector_set if isinstance(w, pyrtl.Const)), key=lambda w: w.name)
            try:
                for j_, c_ in enumerate(rng.sample(consts_, min(len(consts_), 3))):
                    c_.name = rng.choice(['coef[%d]', 'K.%d', 'k%d', '%dk', 'always%d'][j_ % 2:]) % (k + j_)
                    ctx.count('names', 'user-named-constant')
            except pyrtl.PyrtlError:
                pass
        try:
            d.block.sanity_check()
        except (pyrtl.PyrtlError, pyrtl.PyrtlInternalError):
            ctx.count('design-skipped', 'renaming left the block ill-formed')
            continue
        if d.block.logic_subset('n'):
            continue      # nand is outside the exportable subset
        label = 'design %d (%s, names=%s)' % (k, prof, style)
        fp = json.dumps(Ser(d.block).data, sort_keys=True)
        check_module(ctx, d, label)
        sims = [pyrtl.Simulation, pyrtl.FastSimulation] + ([pyrtl.CompiledSimulation] if k % 6 == 0 else [])
        for simcls in sims:
            check_testbench(ctx, d, label, simcls)
        ctx.case(fp, nontrivial=True)
        ctx.count('profile', prof)
        ctx.count('names', style)
        for o in set(d.ops_used):
            ctx.count('op', o)
        if k < 3:
            ctx.sample(d.describe())
        if len(ctx.violations) >= 6 or not ctx.time_left():
            break
    ctx.oblige('oracle:emitted module under Verilog semantics = pyrtl.Simulation; testbench = trace + start state', not ctx.violations,
               '%d designs' % ctx.evaluations)
    return conclude(ctx, rule='random designs (all ops but nand, widths 1..130, ROMs, multi-port memories, registers with reset values, '
                    'names needing sanitising in half of them) x add_reset in {True, False, asynchronous}; 8 cycles per module run, 1-6 per '
                    'testbench; testbenches from Simulation and FastSimulation traces for every design, CompiledSimulation for every 6th; '
                    'distinct = distinct serialised blocks')
