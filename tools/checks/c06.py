"""C06 — hardware operators compute exact integer results at the documented widths.

For every pair of operand widths (exhaustive values for widths <= 4/5, boundary + random values above,
up to 130 bits) one design holds every operator/helper; it is evaluated by the Lean Spec model and
compared with (i) exact integer arithmetic (the property) and (ii) the Lean impl models `Ops.*` /
`Barrel.*` (the tie; the theorems of Proofs/Props/C06.lean are about those)."""
import pyrtl
from pyrtl import Input, Output, Const
from vlib import simrun, gen
from vlib.common import proof_gate, conclude
from vlib.serialize import Ser


def sgn(v, w):
    return v - (1 << w) if v >> (w - 1) else v


def mk_design(wa, wb, rng):
    """returns (block, {output name: (python exact function(a,b) -> (value, width) , lean fn or None, k)})"""
    pyrtl.reset_working_block()
    a, b = Input(wa, 'a'), Input(wb, 'b')
    w = max(wa, wb)
    outs = {}

    def out(name, wire, fn, lean=None, k=0):
        o = Output(len(wire), name)
        o <<= wire
        outs[name] = (fn, lean, k)

    M = lambda n: (1 << n) - 1   # noqa
    out('add', a + b, lambda x, y: (x + y, w + 1), 'add')
    out('sub', a - b, lambda x, y: ((x - y) & M(w + 1), w + 1), 'sub')
    out('mul', a * b, lambda x, y: (x * y, 2 * w), 'mul')
    out('lt', a < b, lambda x, y: (int(x < y), 1), 'lt')
    out('le', a <= b, lambda x, y: (int(x <= y), 1), 'le')
    out('gt', a > b, lambda x, y: (int(x > y), 1), 'gt')
    out('ge', a >= b, lambda x, y: (int(x >= y), 1), 'ge')
    out('eq', a == b, lambda x, y: (int(x == y), 1), 'eq')
    out('ne', a != b, lambda x, y: (int(x != y), 1), 'ne')
    out('and', a & b, lambda x, y: (x & y, w), 'and')
    out('or', a | b, lambda x, y: (x | y, w), 'or')
    out('xor', a ^ b, lambda x, y: (x ^ y, w), 'xor')
    out('nand', a.nand(b), lambda x, y: (~(x & y) & M(w), w), 'nand')
    out('inv', ~a, lambda x, y: (~x & M(wa), wa), 'inv')
    out('concat', pyrtl.concat(a, b), lambda x, y: ((x << wb) | y, wa + wb))
    out('concat_list', pyrtl.concat_list([a, b]), lambda x, y: ((y << wa) | x, wa + wb))
    k = rng.choice([1, 2, 3, 8, 64])
    out('zext', a.zero_extended(wa + k), lambda x, y, k=k: (x, wa + k), 'zext', k)
    out('sext', a.sign_extended(wa + k), lambda x, y, k=k: (sgn(x, wa) & M(wa + k), wa + k), 'sext', k)
    # <<= with extension / truncation
    for nm, tw in (('assign_ext', wa + rng.choice([1, 5])), ('assign_trunc', max(1, wa - rng.choice([0, 1, 2])))):
        t = pyrtl.WireVector(tw)
        t <<= a
        out(nm, t, lambda x, y, tw=tw: (x & M(tw), tw))
    # slices with Python index semantics
    for si in range(4):
        st = rng.choice([None, 0, 1, -1, -2, wa // 2, wa, wa + 2, -wa - 1])
        sp = rng.choice([None, 0, 1, -1, wa // 2, wa, wa + 3, -wa])
        step = rng.choice([None, 1, 2, -1, -2, 3])
        sl = slice(st, sp, step)
        idx = list(range(wa))[sl]
        if not idx:
            continue
        out('slice%d' % si, a[sl], lambda x, y, idx=idx: (sum(((x >> i) & 1) << n for n, i in enumerate(idx)), len(idx)))
    i0 = rng.randrange(-wa, wa)
    out('index', a[i0], lambda x, y, i0=i0: ((x >> (i0 % wa)) & 1, 1))
    out('truncate', a.truncate(max(1, wa - 1)), lambda x, y: (x & M(max(1, wa - 1)), max(1, wa - 1)))
    # signed helpers
    out('signed_add', pyrtl.signed_add(a, b), lambda x, y: ((sgn(x, wa) + sgn(y, wb)) & M(w + 1), w + 1), 'signed_add')
    out('signed_mult', pyrtl.signed_mult(a, b), lambda x, y: ((sgn(x, wa) * sgn(y, wb)) & M(wa + wb), wa + wb), 'signed_mult')
    out('signed_lt', pyrtl.signed_lt(a, b), lambda x, y: (int(sgn(x, wa) < sgn(y, wb)), 1), 'signed_lt')
    out('signed_le', pyrtl.signed_le(a, b), lambda x, y: (int(sgn(x, wa) <= sgn(y, wb)), 1))
    out('signed_gt', pyrtl.signed_gt(a, b), lambda x, y: (int(sgn(x, wa) > sgn(y, wb)), 1))
    out('signed_ge', pyrtl.signed_ge(a, b), lambda x, y: (int(sgn(x, wa) >= sgn(y, wb)), 1))
    # signed helpers with a plain integer operand (positive, zero, negative), either position
    for nm_, kk in (('p', rng.randint(1, 9)), ('z', 0), ('n', -rng.randint(1, 9)), ('p1', 1)):
        wk = (kk.bit_length() if kk >= 0 else (-kk - 1).bit_length()) + 1
        wr = max(wa, wk) + 1
        out('signed_add_int_' + nm_, pyrtl.signed_add(a, kk), lambda x, y, kk=kk, wr=wr: ((sgn(x, wa) + kk) & M(wr), wr))
        out('signed_add_rint_' + nm_, pyrtl.signed_add(kk, a), lambda x, y, kk=kk, wr=wr: ((sgn(x, wa) + kk) & M(wr), wr))
        ck = Const(kk, signed=True)
        out('signed_lt_int_' + nm_, pyrtl.signed_lt(a, ck), lambda x, y, kk=kk: (int(sgn(x, wa) < kk), 1))
        out('signed_ge_int_' + nm_, pyrtl.signed_ge(a, ck), lambda x, y, kk=kk: (int(sgn(x, wa) >= kk), 1))
        out('signed_mult_int_' + nm_, pyrtl.signed_mult(a, ck), lambda x, y, kk=kk, wk=wk: ((sgn(x, wa) * kk) & M(wa + wk), wa + wk))
    # shifts by a wire amount of any width
    out('shl', pyrtl.shift_left_logical(a, b), lambda x, y: ((x << y) & M(wa) if y < wa + 1 else 0, wa), 'shl')
    out('shla', pyrtl.shift_left_arithmetic(a, b), lambda x, y: ((x << y) & M(wa) if y < wa + 1 else 0, wa))
    out('shr', pyrtl.shift_right_logical(a, b), lambda x, y: (x >> y, wa), 'shr')
    out('sra', pyrtl.shift_right_arithmetic(a, b), lambda x, y: ((sgn(x, wa) >> min(y, wa)) & M(wa), wa), 'sra')
    # shifts by a constant 1..w-1
    if wa > 1:
        kc = rng.randrange(1, wa)
        out('shl_const', pyrtl.shift_left_logical(a, kc), lambda x, y, kc=kc: ((x << kc) & M(wa), wa), 'shl_const', kc)
        out('shr_const', pyrtl.shift_right_logical(a, kc), lambda x, y, kc=kc: (x >> kc, wa), 'shr_const', kc)
        out('sra_const', pyrtl.shift_right_arithmetic(a, kc), lambda x, y, kc=kc: ((sgn(x, wa) >> kc) & M(wa), wa))
        out('shla_const', pyrtl.shift_left_arithmetic(a, kc), lambda x, y, kc=kc: ((x << kc) & M(wa), wa))
    # shifts by a Const wire (any value representable in its width, beyond the data width too)
    for _j in range(2):
        bwk = rng.randint(1, 4)
        kv = rng.randrange(1 << bwk)
        kw = Const(kv, bitwidth=bwk)
        sfx = '_constwire%d' % _j
        out('shl' + sfx, pyrtl.shift_left_logical(a, kw), lambda x, y, kv=kv: ((x << kv) & M(wa) if kv < wa + 1 else 0, wa))
        out('shla' + sfx, pyrtl.shift_left_arithmetic(a, kw), lambda x, y, kv=kv: ((x << kv) & M(wa) if kv < wa + 1 else 0, wa))
        out('shr' + sfx, pyrtl.shift_right_logical(a, kw), lambda x, y, kv=kv: (x >> kv, wa))
        out('sra' + sfx, pyrtl.shift_right_arithmetic(a, kw), lambda x, y, kv=kv: ((sgn(x, wa) >> min(kv, wa)) & M(wa), wa))
    # negative Verilog strings, the zero magnitude included (-W'd0 is the W-bit constant 0)
    nz = rng.choice([0, 0, 1 if wb >= 2 else 0])
    nzv = (-nz) & M(wb)
    out('add_negstr', a + ("-%d'd%d" % (wb, nz)), lambda x, y, nzv=nzv: (x + nzv, w + 1))
    out('xor_negstr', a ^ ("-%d'h%x" % (wb, nz)), lambda x, y, nzv=nzv: (x ^ nzv, w))
    # constant operands behave like the equivalent Const
    cv = rng.getrandbits(wb)
    out('add_int', a + cv, lambda x, y, cv=cv: (x + cv, max(wa, max(1, cv.bit_length())) + 1))
    out('radd_int', cv + a, lambda x, y, cv=cv: (x + cv, max(wa, max(1, cv.bit_length())) + 1))
    out('rsub_int', cv - a, lambda x, y, cv=cv: ((cv - x) & M(max(wa, max(1, cv.bit_length())) + 1), max(wa, max(1, cv.bit_length())) + 1))
    out('and_str', a & ("%d'd%d" % (wb, cv)), lambda x, y, cv=cv: (x & cv, w))
    # Verilog-style strings in every base; hexadecimal digits that are also base letters (b, d) lead sometimes
    nd = rng.randint(1, 5)
    hx = rng.choice('bd' if rng.random() < 0.6 else '123456789acef') + ''.join(rng.choice('0123456789abcdef') for _ in range(nd - 1))
    hv, hw = int(hx, 16), 4 * nd
    sep = (lambda t: t[:1] + '_' + t[1:]) if rng.random() < 0.3 and nd > 1 else (lambda t: t)
    out('and_hex', a & ("%d'h%s" % (hw, sep(hx))), lambda x, y, hv=hv, hw=hw: (x & hv, max(wa, hw)))
    out('xor_xhex', a ^ ("%d'x%s" % (hw, hx)), lambda x, y, hv=hv, hw=hw: (x ^ hv, max(wa, hw)))
    out('add_hex', a + ("%d'h%s" % (hw, hx)), lambda x, y, hv=hv, hw=hw: (x + hv, max(wa, hw) + 1))
    out('lt_hex', a < ("%d'h%s" % (hw, hx)), lambda x, y, hv=hv: (int(x < hv), 1))
    bv = rng.getrandbits(wb)
    out('or_bin', a | ("%d'b%s" % (wb, sep(format(bv, '0%db' % wb)))), lambda x, y, bv=bv: (x | bv, w))
    out('xor_oct', a ^ ("%d'o%o" % (wb, bv)), lambda x, y, bv=bv: (x ^ bv, w))
    t = pyrtl.WireVector(hw)
    t <<= "%d'h%s" % (hw, hx)
    out('assign_hex', t, lambda x, y, hv=hv, hw=hw: (hv, hw))
    # match_bitwidth: zero extension unless signed=True is given
    for nm, kw, sx in (('mbw', {}, False), ('mbw_unsigned', {'signed': False}, False), ('mbw_signed', {'signed': True}, True)):
        ma, mb_ = pyrtl.match_bitwidth(a, b, **kw)
        out(nm + '_a', ma, lambda x, y, sx=sx: ((sgn(x, wa) & M(w)) if sx else x, w))
        out(nm + '_b', mb_, lambda x, y, sx=sx: ((sgn(y, wb) & M(w)) if sx else y, w))
    out('xor_const', a ^ Const(cv, wb), lambda x, y, cv=cv: (x ^ cv, w))
    out('or_bool', a | True, lambda x, y: (x | 1, wa))
    out('eq_int', a == cv, lambda x, y, cv=cv: (int(x == cv), 1))
    out('mux_int', pyrtl.select(b[0], a, cv), lambda x, y, cv=cv: ((x if y & 1 else cv), max(wa, max(1, cv.bit_length()))))
    sc = Const(-1 - rng.getrandbits(max(1, wb - 1)) % (1 << (wb - 1)) if wb > 1 else -1, bitwidth=wb, signed=True)
    out('add_signed_const', a + sc, lambda x, y, sc=sc: (x + sc.val, w + 1))
    return pyrtl.working_block(), outs


def values(rng, wa, wb, exhaustive_limit):
    if wa + wb <= exhaustive_limit:
        return [(x, y) for x in range(1 << wa) for y in range(1 << wb)], True
    vals = set()
    bnd = lambda n: [0, 1, (1 << n) - 1, 1 << (n - 1), (1 << (n - 1)) - 1, (1 << n) - 2]   # noqa
    for x in bnd(wa):
        for y in bnd(wb) + [wa - 1, wa, wa + 1, 63, 64, 65]:
            vals.add((x & ((1 << wa) - 1), y & ((1 << wb) - 1)))
    for _ in range(60):
        vals.add((gen.rand_value(rng, wa), gen.rand_value(rng, wb)))
    return sorted(vals), False


def main(ctx):
    proofs_ok = proof_gate(ctx, gen_modules=[])
    small = ctx.n(4, 5)
    exl = ctx.n(8, 10)
    pairs = [(x, y) for x in range(1, small + 1) for y in range(1, small + 1)]
    big = [1, 2, 7, 8, 16, 31, 32, 33, 63, 64, 65, 100, 128, 130]
    for _ in range(ctx.n(25, 300)):
        pairs.append((ctx.rng.choice(big), ctx.rng.choice(big)))
    tie_bad = tie_n = 0
    for (wa, wb) in pairs:
        rng = ctx.rng
        try:
            blk, outs = mk_design(wa, wb, rng)
        except Exception as e:  # noqa
            import traceback
            tb = traceback.extract_tb(e.__traceback__)
            line = next((f.line for f in tb if f.name == 'mk_design'), '')
            ctx.violation('operator-raises:' + type(e).__name__, 'building `%s` with widths (%d,%d) raised %s: %s' % (
                line.strip()[:120], wa, wb, type(e).__name__, str(e)[:160]), {'kind': 'operator-build', 'wa': wa, 'wb': wb, 'line': line})
            if len(ctx.violations) >= 6:
                break
            continue
        ser = Ser(blk)
        vals, exh = values(rng, wa, wb, exl)
        steps = [{'a': x, 'b': y} for x, y in vals]
        names = sorted(outs)
        resp = ctx.driver.ask(simrun.lean_request(ser, steps, {}, {}, 0, model='spec', watch=names))
        if not resp.get('ok'):
            raise RuntimeError('spec rejected operator design: %s' % resp)
        widths = {o.name: len(o) for o in blk.wirevector_subset(Output)}
        for col, name in enumerate(names):
            fn, lean, k = outs[name]
            got = [row[col] for row in resp['trace']]
            for (x, y), g in zip(vals, got):
                want, ww = fn(x, y)
                if g != want or widths[name] != ww:
                    ctx.violation('operator:' + name,
                                  '%s with widths (%d,%d) on a=%d b=%d gives %d in %d bits; exact result %d in %d bits' % (
                                      name, wa, wb, x, y, g, widths[name], want, ww),
                                  {'kind': 'operator', 'op': name, 'wa': wa, 'wb': wb, 'a': x, 'b': y, 'got': g,
                                   'got_width': widths[name], 'want': want, 'want_width': ww})
                    break
            if lean is not None:
                m = ctx.driver.ask({'cmd': 'ops', 'fn': lean, 'wa': wa, 'wb': wb, 'k': k, 'cases': [list(v) for v in vals]})
                if not m.get('ok'):
                    raise RuntimeError('ops model: %s' % m)
                tie_n += 1
                if m['vals'] != got or m['width'] != widths[name]:
                    tie_bad += 1
                    ctx.tie_only = getattr(ctx, 'tie_only', []) + [{'op': name, 'wa': wa, 'wb': wb, 'model_width': m['width'],
                                                                     'real_width': widths[name]}]
            ctx.evaluations += len(vals)
            ctx.count('operator', name)
        ctx.distinct.add('%d,%d' % (wa, wb))
        ctx.count('exhaustive' if exh else 'sampled', 'pairs')
        ctx.sample({'widths': [wa, wb], 'operators': len(names), 'value_pairs': len(vals), 'exhaustive': exh})
        if len(ctx.violations) >= 6:
            break
    ctx.oblige('tie:real operator netlists = Lean Ops/Barrel models', tie_bad == 0, '%d/%d (operator,width-pair) tables differ' % (tie_bad, tie_n))
    if tie_bad and not ctx.violations:
        ctx.extra['tie_only_examples'] = getattr(ctx, 'tie_only', [])[:3]
    ctx.oblige('property:every operator exact at its documented width', not ctx.violations, '%d width pairs' % len(pairs))
    return conclude(ctx, rule='every operator/helper x width pairs 1..%d exhaustive over values + boundary-biased samples '
                    'up to 130 bits x operand kinds (WireVector, int, bool, verilog string, Const signed/unsigned); '
                    'distinct = width pairs' % small)
